import FtdcVerif.Lemmas.Collector
import FtdcVerif.Lemmas.EndToEnd
/-!
# C07 — collectors are faithful, bounded logs under every operation history

`COp` is the collector interface; `Better.accepted` is the specification log (the samples whose
`Add` returned nil since the last `Reset`).  The theorems quantify over *all* operation lists.
The base and batch collectors are proved here; the dynamic and streaming collectors are
compositions of these (their chunks are batch/base collectors) and are compared with the
implementation over exhaustive short and random long histories by the `hist` stream.
-/
namespace Ftdc.Props.C07
open Ftdc

/-- **Faithful log (base collector), every history**: what the collector holds — and what
`Resolve` renders — is exactly the samples accepted since the last `Reset`, once, in order. -/
theorem base_faithful_log (n : Nat) (ops : List COp) :
    ((({ maxDeltas := n } : Better).run ops).samples) = Better.accepted { maxDeltas := n } [] ops := by
  have := Better.faithful_log ops { maxDeltas := n }
  simpa [Better.samples] using this

/-- `Resolve` renders exactly the held samples (and fails exactly when there are none). -/
theorem base_resolve_is_log (c : Better) (o : List OutDoc) (h : c.resolve = some o) :
    (o.map OutDoc.samples).flatten = c.samples :=
  Better.resolve_samples c o h

theorem base_resolve_fails_iff_empty (c : Better) : c.resolve = none ↔ c.samples = [] :=
  Better.resolve_none_iff c

/-- **Bounded, every history**: a chunk never holds more than its capacity (the base collector's
documented N + 1: the reference sample does not count). -/
theorem base_chunk_bounded (n : Nat) (ops : List COp) :
    ((({ maxDeltas := n } : Better).run ops).samples).length ≤ n + 1 := by
  have hinv := Better.run_inv ops _ (Better.fresh_inv n)
  have := Better.samples_bounded _ hinv
  have hm : (({ maxDeltas := n } : Better).run ops).maxDeltas = n := by
    clear this hinv
    generalize hc : ({ maxDeltas := n } : Better) = c
    have : c.maxDeltas = n := by rw [← hc]
    clear hc
    induction ops generalizing c with
    | nil => simpa [Better.run] using this
    | cons op ops ih =>
      simp only [Better.run, List.foldl_cons]
      apply ih
      cases op <;> simp [Better.step, Better.add_maxDeltas, Better.reset, Better.setMetadata, this]
  omega

/-- the reported sample count is the number of held (accepted, not discarded) samples -/
theorem base_info_counts (n : Nat) (ops : List COp) :
    (({ maxDeltas := n } : Better).run ops).info.2 = ((({ maxDeltas := n } : Better).run ops).samples).length :=
  Better.info_counts_samples _ (Better.run_inv ops _ (Better.fresh_inv n))

/-- a rejected `Add` (capacity, metric count, value types) changes nothing -/
theorem base_rejected_add_noop (c : Better) (d : BDoc) (h : (c.add d).2 ≠ .ok) : (c.add d).1 = c :=
  Better.add_rejected_noop c d h

/-- `Reset` discards every sample; the collector then accepts a first sample like a fresh one -/
theorem base_reset_discards (c : Better) (d : BDoc) :
    c.reset.samples = [] ∧ (c.reset.add d).2 = .ok ∧ (c.reset.add d).1.samples = [(extractDoc d).map (·.1)] := by
  simp [Better.reset, Better.samples, Better.add]

/-- **Batch collector**: an accepted `Add` appends exactly that sample; a rejected one changes
nothing; chunks hold at most N samples and only the last chunk may hold fewer — for every
reachable state (`Batch.Inv` holds initially and is preserved by `Add`; `Reset` re-creates the
initial state). -/
theorem batch_add_appends (b : Batch) (d : BDoc) (hi : b.Inv) (h : (b.add d).2 = .ok) :
    (b.add d).1.samples = b.samples ++ [(extractDoc d).map (·.1)] :=
  Batch.add_ok_appends b d hi h

theorem batch_rejected_add_noop (b : Batch) (d : BDoc) (hi : b.Inv) (h : (b.add d).2 ≠ .ok) :
    (b.add d).1 = b :=
  Batch.add_rejected_noop b d hi h

theorem batch_run_inv (n : Nat) (ds : List BDoc) : ∀ (b0 : Batch), b0.Inv ∧ b0.maxSamples = n →
    (ds.foldl (fun b d => (b.add d).1) b0).Inv ∧ (ds.foldl (fun b d => (b.add d).1) b0).maxSamples = n := by
  induction ds with
  | nil => intro b0 h0; simpa using h0
  | cons d ds ih =>
    intro b0 h0
    simp only [List.foldl_cons]
    apply ih
    refine ⟨Batch.add_inv b0 d h0.1, ?_⟩
    have : (b0.add d).1.maxSamples = b0.maxSamples := by
      unfold Batch.add; split
      · rfl
      · split <;> rfl
    rw [this]; exact h0.2

theorem batch_chunks_bounded_all_histories (n : Nat) (hn : 1 ≤ n) (ds : List BDoc) :
    (∀ c ∈ (ds.foldl (fun b d => (b.add d).1) (Batch.new n)).chunks, c.samples.length ≤ n) ∧
    (∀ c ∈ (ds.foldl (fun b d => (b.add d).1) (Batch.new n)).chunks.dropLast, c.samples.length = n) := by
  have hinv := batch_run_inv n ds (Batch.new n) ⟨Batch.new_inv n hn, rfl⟩
  constructor
  · intro c hc; have := (hinv.1.each c hc).2.2; rw [hinv.2] at this; exact this
  · intro c hc; have := hinv.1.full c hc; rw [hinv.2] at this; exact this

/-- one `Add` of the batch collector, remembering the accepted documents -/
def addLogB (acc : Batch × List BDoc) (d : BDoc) : Batch × List BDoc :=
  let r := acc.1.add d
  (r.1, if r.2 = .ok then acc.2 ++ [d] else acc.2)

/-- **The batch collector holds exactly the accepted samples, once each and in order**, after any
sequence of `Add`s (across every chunk roll-over) -/
theorem batch_faithful_log (n : Nat) (hn : 1 ≤ n) (ds : List BDoc) :
    let r := ds.foldl addLogB (Batch.new n, [])
    r.1.samples = r.2.map fun x => (extractDoc x).map (·.1) := by
  have : ∀ (ds : List BDoc) (b : Batch) (acc : List BDoc), b.Inv →
      b.samples = acc.map (fun x => (extractDoc x).map (·.1)) →
      (ds.foldl addLogB (b, acc)).1.samples = (ds.foldl addLogB (b, acc)).2.map fun x => (extractDoc x).map (·.1) := by
    intro ds
    induction ds with
    | nil => intro b acc _ h; exact h
    | cons d ds ih =>
      intro b acc hi h
      simp only [List.foldl_cons]
      have e : addLogB (b, acc) d = ((b.add d).1, if (b.add d).2 = .ok then acc ++ [d] else acc) := rfl
      rw [e]
      apply ih _ _ (Batch.add_inv b d hi)
      by_cases hok : (b.add d).2 = .ok
      · rw [if_pos hok, Batch.add_ok_appends b d hi hok, h]; simp
      · rw [if_neg hok, Batch.add_rejected_noop b d hi hok]; exact h
  exact this ds (Batch.new n) [] (Batch.new_inv n hn) (by simp [Batch.new, Batch.samples, Better.samples])

/-! ### the streaming collector: writer ++ pending = accepted, over whole histories -/

/-- the samples in the complete writes of a writer, in order -/
def writtenRows (w : Writer) : List Row :=
  (w.log.map fun e => match e with
    | WEntry.full docs => (docs.map OutDoc.samples).flatten
    | WEntry.partialWrite _ _ => []).flatten

/-- one `Add`, remembering the accepted documents -/
def addLog (acc : Streaming × List BDoc) (d : BDoc) : Streaming × List BDoc :=
  let r := acc.1.add d
  (r.1, if r.2 = .ok then acc.2 ++ [d] else acc.2)

theorem resolve_samples (b : Better) (docs : List OutDoc) (h : b.resolve = some docs) :
    (docs.map OutDoc.samples).flatten = b.samples := by
  unfold Better.resolve at h
  cases hr : b.ref with
  | none => simp [hr] at h
  | some r =>
    simp only [hr] at h
    cases hm : b.metadata with
    | none => simp [hm] at h; subst h; simp [OutDoc.samples, Better.samples, hr]
    | some md => simp [hm] at h; subst h; simp [OutDoc.samples, Better.samples, hr]

/-- one step of the invariant `written ++ pending = accepted` -/
theorem streaming_step (c : Streaming) (acc : List BDoc) (d : BDoc) (hs : c.out.script = [])
    (h : writtenRows c.out ++ c.inner.samples = acc.map fun x => (extractDoc x).map (·.1)) :
    (addLog (c, acc) d).1.out.script = [] ∧
    writtenRows (addLog (c, acc) d).1.out ++ (addLog (c, acc) d).1.inner.samples =
      (addLog (c, acc) d).2.map fun x => (extractDoc x).map (·.1) := by
  -- the state after the implicit flush (if any): same invariant, same accepted list
  have key : ∀ (c1 : Streaming), c1.out.script = [] →
      writtenRows c1.out ++ c1.inner.samples = acc.map (fun x => (extractDoc x).map (·.1)) →
      (let r := c1.inner.add d
       let c2 : Streaming := if r.2 = .ok then { c1 with inner := r.1, count := c1.count + 1 } else c1
       c2.out.script = [] ∧ writtenRows c2.out ++ c2.inner.samples =
         (if r.2 = .ok then acc ++ [d] else acc).map fun x => (extractDoc x).map (·.1)) := by
    intro c1 hs1 h1
    by_cases hok : (c1.inner.add d).2 = .ok
    · simp only [hok, if_true]
      refine ⟨hs1, ?_⟩
      rw [Better.add_ok_appends _ _ hok, ← List.append_assoc, h1]; simp
    · simp only [hok, if_false]; exact ⟨hs1, h1⟩
  unfold addLog Streaming.add
  by_cases hfull : c.count ≥ c.maxSamples
  · simp only [hfull, if_true]
    unfold Streaming.flush
    by_cases h0 : c.info.2 = 0
    · simp only [h0, if_true, Bool.not_true, Bool.false_eq_true, if_false]
      have := key c hs h
      by_cases hok : (c.inner.add d).2 = .ok <;> simp_all
    · simp only [h0, if_false]
      cases hres : c.resolve with
      | none => simp [hs, h]
      | some docs =>
        simp only [Writer.write, hs]
        have hsam := resolve_samples c.inner docs hres
        have h1 : writtenRows ({ c with out := { c.out with log := c.out.log ++ [WEntry.full docs] } } : Streaming).reset.out ++
            ({ c with out := { c.out with log := c.out.log ++ [WEntry.full docs] } } : Streaming).reset.inner.samples =
            acc.map fun x => (extractDoc x).map (·.1) := by
          simp only [Streaming.reset, writtenRows, List.map_append, List.flatten_append, List.map_cons,
            List.map_nil, List.flatten_cons, List.flatten_nil, List.append_nil, hsam]
          simp only [Better.reset, Better.samples, Option.isSome_none, Bool.false_eq_true, if_false, List.append_nil]
          exact h
        have := key ({ c with out := { c.out with log := c.out.log ++ [WEntry.full docs] } } : Streaming).reset hs h1
        by_cases hok : ((({ c with out := { c.out with log := c.out.log ++ [WEntry.full docs] } } : Streaming).reset).inner.add d).2 = .ok <;>
          simp_all
  · simp only [hfull, if_false, Bool.not_true, Bool.false_eq_true]
    have := key c hs h
    by_cases hok : (c.inner.add d).2 = .ok <;> simp_all

/-- **The streaming collector loses, duplicates and reorders nothing**: after any sequence of `Add`
calls over a writer that accepts every write, the samples in the writer followed by the pending
ones are exactly the accepted samples, once each and in order. -/
theorem streaming_faithful_log (n : Nat) (ds : List BDoc) :
    let r := ds.foldl addLog (Streaming.new n, [])
    writtenRows r.1.out ++ r.1.inner.samples = r.2.map fun x => (extractDoc x).map (·.1) := by
  have : ∀ (ds : List BDoc) (c : Streaming) (acc : List BDoc), c.out.script = [] →
      writtenRows c.out ++ c.inner.samples = acc.map (fun x => (extractDoc x).map (·.1)) →
      writtenRows (ds.foldl addLog (c, acc)).1.out ++ (ds.foldl addLog (c, acc)).1.inner.samples =
        (ds.foldl addLog (c, acc)).2.map fun x => (extractDoc x).map (·.1) := by
    intro ds
    induction ds with
    | nil => intro c acc _ h; exact h
    | cons d ds ih =>
      intro c acc hs h
      obtain ⟨h1, h2⟩ := streaming_step c acc d hs h
      simp only [List.foldl_cons]
      have e : addLog (c, acc) d = ((addLog (c, acc) d).1, (addLog (c, acc) d).2) := rfl
      rw [e]
      exact ih _ _ h1 h2
  exact this ds (Streaming.new n) [] rfl (by simp [writtenRows, Streaming.new, Better.samples])

/-- a flush moves the pending samples to the writer and keeps `written ++ pending` -/
theorem streaming_flush_inv (c : Streaming) (rows : List Row) (hs : c.out.script = [])
    (h : writtenRows c.out ++ c.inner.samples = rows) :
    (c.flush).1.out.script = [] ∧ writtenRows (c.flush).1.out ++ (c.flush).1.inner.samples = rows := by
  unfold Streaming.flush
  by_cases h0 : c.info.2 = 0
  · simp [h0, hs, h]
  · simp only [h0, if_false]
    cases hres : c.resolve with
    | none => simp [hs, h]
    | some docs =>
      have hsam := resolve_samples c.inner docs hres
      simp only [Writer.write, hs, if_true]
      refine ⟨by simp only [Streaming.reset]; try exact hs, ?_⟩
      simp only [Streaming.reset, writtenRows, List.map_append, List.flatten_append, List.map_cons,
        List.map_nil, List.flatten_cons, List.flatten_nil, List.append_nil, hsam]
      simp only [Better.reset, Better.samples, Option.isSome_none, Bool.false_eq_true, if_false, List.append_nil]
      exact h

/-- one `Add` of the schema-aware streaming collector, remembering the accepted documents -/
def addLogSD (acc : StreamingDynamic × List BDoc) (d : BDoc) : StreamingDynamic × List BDoc :=
  let r := acc.1.add d
  (r.1, if r.2 = .ok then acc.2 ++ [d] else acc.2)

theorem sd_flush_inv (c : StreamingDynamic) (rows : List Row) (hs : c.s.out.script = [])
    (h : writtenRows c.s.out ++ c.s.inner.samples = rows) :
    (c.flush).1.s.out.script = [] ∧ writtenRows (c.flush).1.s.out ++ (c.flush).1.s.inner.samples = rows := by
  have := streaming_flush_inv c.s rows hs h
  unfold StreamingDynamic.flush
  cases hf : c.s.flush with
  | mk s' ok =>
    rw [hf] at this
    by_cases hcond : ok = true ∧ c.s.info.2 ≠ 0
    · simp only [if_pos hcond]; exact this
    · simp only [if_neg hcond]; exact this

theorem sd_step (c : StreamingDynamic) (acc : List BDoc) (d : BDoc) (hs : c.s.out.script = [])
    (h : writtenRows c.s.out ++ c.s.inner.samples = acc.map fun x => (extractDoc x).map (·.1)) :
    (addLogSD (c, acc) d).1.s.out.script = [] ∧
    writtenRows (addLogSD (c, acc) d).1.s.out ++ (addLogSD (c, acc) d).1.s.inner.samples =
      (addLogSD (c, acc) d).2.map fun x => (extractDoc x).map (·.1) := by
  -- after the optional schema-change flush the wrapped streaming collector takes the sample
  have key : ∀ (c1 : StreamingDynamic), c1.s.out.script = [] →
      writtenRows c1.s.out ++ c1.s.inner.samples = acc.map (fun x => (extractDoc x).map (·.1)) →
      (c1.s.add d).1.out.script = [] ∧
      writtenRows (c1.s.add d).1.out ++ (c1.s.add d).1.inner.samples =
        (if (c1.s.add d).2 = .ok then acc ++ [d] else acc).map fun x => (extractDoc x).map (·.1) := by
    intro c1 hs1 h1
    have := streaming_step c1.s acc d hs1 h1
    simpa [addLog] using this
  unfold addLogSD StreamingDynamic.add
  cases hh : c.hash with
  | none =>
    simp only
    by_cases hc : c.s.count > 0
    · simp only [hc, if_true]
      obtain ⟨f1, f2⟩ := sd_flush_inv c _ hs h
      by_cases hok : (c.flush).2 = true
      · simp only [hok, Bool.not_true, Bool.false_eq_true, if_false]
        exact key _ f1 f2
      · have hok' : (c.flush).2 = false := by simpa using hok
        simp [hok', f1, f2]
    · simp only [hc, if_false, Bool.not_true, Bool.false_eq_true]
      exact key c hs h
  | some hsh =>
    dsimp only
    by_cases hc : hsh ≠ schemaKey d
    · rw [if_pos hc]
      obtain ⟨f1, f2⟩ := sd_flush_inv c _ hs h
      by_cases hok : (c.flush).2 = true
      · simp only [hok, Bool.not_true, Bool.false_eq_true, if_false]
        exact key _ f1 f2
      · have hok' : (c.flush).2 = false := by simpa using hok
        simp [hok', f1, f2]
    · rw [if_neg hc]
      simp only [Bool.not_true, Bool.false_eq_true, if_false]
      exact key c hs h

/-- the same for the schema-aware streaming collector (schema changes flush early; nothing is
lost, duplicated or reordered across them) -/
theorem streaming_dynamic_faithful_log (n : Nat) (ds : List BDoc) :
    let r := ds.foldl addLogSD (StreamingDynamic.new n, [])
    writtenRows r.1.s.out ++ r.1.s.inner.samples = r.2.map fun x => (extractDoc x).map (·.1) := by
  have : ∀ (ds : List BDoc) (c : StreamingDynamic) (acc : List BDoc), c.s.out.script = [] →
      writtenRows c.s.out ++ c.s.inner.samples = acc.map (fun x => (extractDoc x).map (·.1)) →
      writtenRows (ds.foldl addLogSD (c, acc)).1.s.out ++ (ds.foldl addLogSD (c, acc)).1.s.inner.samples =
        (ds.foldl addLogSD (c, acc)).2.map fun x => (extractDoc x).map (·.1) := by
    intro ds
    induction ds with
    | nil => intro c acc _ h; exact h
    | cons d ds ih =>
      intro c acc hs h
      obtain ⟨h1, h2⟩ := sd_step c acc d hs h
      simp only [List.foldl_cons]
      have e : addLogSD (c, acc) d = ((addLogSD (c, acc) d).1, (addLogSD (c, acc) d).2) := rfl
      rw [e]
      exact ih _ _ h1 h2
  exact this ds (StreamingDynamic.new n) [] rfl
    (by simp [writtenRows, StreamingDynamic.new, Streaming.new, Better.samples])

/-! ### ... and everything in the writer is decodable -/

/-- documents the byte-level round trip (C01) applies to -/
def DocOK (d : BDoc) : Prop :=
  WFDoc d ∧ (serDoc d).length < 2 ^ 31 ∧ NoTs d ∧ (extractDoc d).length < 2 ^ 32

/-- a chunk the reader decodes back to exactly its rows -/
def ChunkOK : OutDoc → Prop
  | .metaDoc _ _ => True
  | .chunk _ ref first rows =>
    DocOK ref ∧ first = vals ref ∧ (∀ r ∈ rows, r.length = first.length) ∧ rows.length < 2 ^ 32

/-- **a well-formed chunk decodes to its samples** -/
theorem chunkOK_decodes (id : Ts) (ref : BDoc) (first : Row) (rows : List Row)
    (h : ChunkOK (.chunk id ref first rows)) :
    ∃ c, decodePayload (OutDoc.chunk id ref first rows).payload = .ok c ∧
      c.rows = (OutDoc.chunk id ref first rows).samples := by
  obtain ⟨⟨hw, hl, hts, hnm⟩, hf, hr, hn⟩ := h
  subst hf
  have hnm' : (vals ref).length < 2 ^ 32 := by simpa [vals] using hnm
  obtain ⟨c, h1, _, h3⟩ := decode_payload ref rows hw hl hts hr hnm' hn (by
    have := Nat.mul_lt_mul'' hnm' hn
    have e : (2 : Nat) ^ 32 * 2 ^ 32 = 2 ^ 64 := by decide
    omega)
  exact ⟨c, h1, h3⟩

/-- what the inner collector of a streaming collector satisfies when only `DocOK` documents are added -/
def BetterOK (n : Nat) (b : Better) : Prop :=
  b.Inv ∧ b.maxDeltas = n ∧ ∀ r, b.ref = some r → DocOK r ∧ b.first = vals r

theorem add_keeps_ref (b : Better) (d : BDoc) (r0 : BDoc) (hb : b.ref = some r0) :
    (b.add d).1.ref = some r0 ∧ (b.add d).1.first = b.first ∧ (b.add d).1.maxDeltas = b.maxDeltas := by
  unfold Better.add
  simp only [hb]
  by_cases h1 : b.rows.length ≥ b.maxDeltas
  · simp [h1, hb]
  · simp only [h1, if_false]
    by_cases h2 : (extractDoc d).length ≠ b.last.length
    · simp [h2, hb]
    · simp only [h2, if_false]
      by_cases h3 : (extractDoc d).map (·.2) ≠ b.last.map (·.2)
      · simp [h3, hb]
      · simp [h3, hb]

theorem betterOK_add (n : Nat) (b : Better) (d : BDoc) (hd : DocOK d) (h : BetterOK n b) : BetterOK n (b.add d).1 := by
  obtain ⟨hi, hm, hr⟩ := h
  cases hb : b.ref with
  | none =>
    refine ⟨Better.add_inv b d hi, ?_, ?_⟩
    · unfold Better.add; simp [hb, hm]
    · intro r hre
      unfold Better.add at hre ⊢
      simp only [hb] at hre ⊢
      simp only [Option.some.injEq] at hre
      subst hre
      exact ⟨hd, by simp [vals]⟩
  | some r0 =>
    obtain ⟨k1, k2, k3⟩ := add_keeps_ref b d r0 hb
    refine ⟨Better.add_inv b d hi, by rw [k3]; exact hm, ?_⟩
    intro r hre
    rw [k1] at hre
    simp only [Option.some.injEq] at hre
    subst hre
    rw [k2]
    exact hr r0 hb

theorem betterOK_resolve (n : Nat) (hn : n < 2 ^ 32) (b : Better) (h : BetterOK n b) (docs : List OutDoc)
    (hres : b.resolve = some docs) : ∀ o ∈ docs, ChunkOK o := by
  obtain ⟨hi, hm, hr⟩ := h
  unfold Better.resolve at hres
  cases hb : b.ref with
  | none => simp [hb] at hres
  | some r =>
    obtain ⟨hdoc, hfirst⟩ := hr r hb
    have hinv := hi.2.2 (by simp [hb])
    have hck : ChunkOK (.chunk b.startedAt r b.first b.rows) := by
      refine ⟨hdoc, hfirst, ?_, ?_⟩
      · intro row hrow; rw [hinv.2 row hrow, hinv.1]
      · have := hi.2.1; omega
    simp only [hb] at hres
    cases hmd : b.metadata with
    | none => simp [hmd] at hres; subst hres; intro o ho; simp at ho; subst ho; exact hck
    | some md =>
      simp [hmd] at hres; subst hres
      intro o ho
      simp at ho
      rcases ho with rfl | rfl
      · trivial
      · exact hck

/-- every document in the complete writes of a writer -/
def loggedDocs (w : Writer) : List OutDoc :=
  (w.log.map fun e => match e with
    | WEntry.full docs => docs
    | WEntry.partialWrite _ _ => []).flatten

/-- invariant: the writer never fails, everything logged is a decodable chunk, the inner collector is well-formed -/
def SOK (n : Nat) (c : Streaming) : Prop :=
  c.out.script = [] ∧ (∀ o ∈ loggedDocs c.out, ChunkOK o) ∧ BetterOK n c.inner

theorem sok_flush (n : Nat) (hn : n < 2 ^ 32) (c : Streaming) (h : SOK n c) : SOK n (c.flush).1 := by
  obtain ⟨hs, hl, hb⟩ := h
  unfold Streaming.flush
  by_cases h0 : c.info.2 = 0
  · simp [h0]; exact ⟨hs, hl, hb⟩
  · simp only [h0, if_false]
    cases hres : c.resolve with
    | none => exact ⟨hs, hl, hb⟩
    | some docs =>
      simp only [Writer.write, hs, if_true]
      refine ⟨by simp only [Streaming.reset]; try exact hs, ?_, ?_⟩
      · intro o ho
        simp only [Streaming.reset, loggedDocs, List.map_append, List.flatten_append, List.map_cons, List.map_nil,
          List.flatten_cons, List.flatten_nil, List.append_nil, List.mem_append] at ho
        rcases ho with ho | ho
        · exact hl o ho
        · exact betterOK_resolve n hn c.inner hb docs hres o ho
      · simp only [Streaming.reset]
        exact ⟨Better.reset_inv _, hb.2.1, by intro r hr; simp [Better.reset] at hr⟩

theorem sok_add (n : Nat) (hn : n < 2 ^ 32) (c : Streaming) (d : BDoc) (hd : DocOK d) (h : SOK n c) :
    SOK n (c.add d).1 := by
  have key : ∀ c1 : Streaming, SOK n c1 →
      SOK n (if (c1.inner.add d).2 = .ok then { c1 with inner := (c1.inner.add d).1, count := c1.count + 1 } else c1) := by
    intro c1 h1
    split
    · exact ⟨h1.1, h1.2.1, betterOK_add n c1.inner d hd h1.2.2⟩
    · exact h1
  unfold Streaming.add
  by_cases hfull : c.count ≥ c.maxSamples
  · simp only [hfull, if_true]
    have hf := sok_flush n hn c h
    by_cases hok : (c.flush).2 = true
    · simp only [hok, Bool.not_true, Bool.false_eq_true, if_false]
      have := key (c.flush).1 hf
      by_cases hacc : ((c.flush).1.inner.add d).2 = .ok <;> simp_all
    · have hok' : (c.flush).2 = false := by simpa using hok
      simp [hok']; exact hf
  · simp only [hfull, if_false, Bool.not_true, Bool.false_eq_true]
    have := key c h
    by_cases hacc : (c.inner.add d).2 = .ok <;> simp_all

/-- **Everything a streaming collector has handed to its writer is decodable, and what it decodes to,
followed by the pending samples, is exactly the accepted samples — once each, in order**: for every
sequence of `Add`s of well-formed documents (any schemas, rejected ones included) over a writer that
accepts every write. -/
theorem streaming_writer_decodes_to_accepted (n : Nat) (hn : n < 2 ^ 32) (ds : List BDoc) (hds : ∀ d ∈ ds, DocOK d) :
    let r := ds.foldl addLog (Streaming.new n, [])
    (∀ o ∈ loggedDocs r.1.out, ∃ c, decodePayload o.payload = .ok c ∧ c.rows = o.samples ∨ o.samples = []) ∧
    ((loggedDocs r.1.out).map OutDoc.samples).flatten ++ r.1.inner.samples =
      r.2.map fun x => (extractDoc x).map (·.1) := by
  have hfl := streaming_faithful_log n ds
  have hrows : ∀ w : Writer, ((loggedDocs w).map OutDoc.samples).flatten = writtenRows w := by
    intro w
    unfold loggedDocs writtenRows
    induction w.log with
    | nil => rfl
    | cons e l ih =>
      simp only [List.map_cons, List.flatten_cons, List.map_append, List.flatten_append, ih]
      cases e <;> simp
  have hsok : ∀ (ds : List BDoc), (∀ d ∈ ds, DocOK d) → ∀ (c : Streaming) (acc : List BDoc), SOK n c →
      SOK n (ds.foldl addLog (c, acc)).1 := by
    intro ds
    induction ds with
    | nil => intro _ c acc h; exact h
    | cons d ds ih =>
      intro hd c acc h
      simp only [List.foldl_cons]
      have e : addLog (c, acc) d = ((c.add d).1, (addLog (c, acc) d).2) := rfl
      rw [e]
      exact ih (fun x hx => hd x (List.mem_cons_of_mem _ hx)) _ _ (sok_add n hn c d (hd d (List.mem_cons_self ..)) h)
  have h0 : SOK n (Streaming.new n) :=
    ⟨rfl, by intro o ho; simp [loggedDocs, Streaming.new] at ho,
      ⟨by simp [Streaming.new, Better.Inv], rfl, by intro r hr; simp [Streaming.new] at hr⟩⟩
  have hfin := hsok ds hds (Streaming.new n) [] h0
  refine ⟨?_, ?_⟩
  · intro o ho
    have hck := hfin.2.1 o ho
    cases o with
    | metaDoc id doc => exact ⟨default, Or.inr rfl⟩
    | chunk id ref first rows =>
      obtain ⟨c, h1, h2⟩ := chunkOK_decodes id ref first rows hck
      exact ⟨c, Or.inl ⟨h1, h2⟩⟩
  · rw [hrows]; exact hfl

/-! ### the batch collector's output is decodable too -/

theorem betterOK_fresh (n : Nat) : BetterOK n ({ maxDeltas := n } : Better) :=
  ⟨by simp [Better.Inv], rfl, by intro r hr; simp at hr⟩

theorem batch_chunks_ok (n : Nat) (b : Batch) (d : BDoc) (hd : DocOK d) (hm : b.maxSamples = n)
    (h : ∀ c ∈ b.chunks, BetterOK n c) : (∀ c ∈ (b.add d).1.chunks, BetterOK n c) ∧ (b.add d).1.maxSamples = n := by
  unfold Batch.add
  cases hl : b.chunks.getLast? with
  | none => simp only []; exact ⟨h, hm⟩
  | some last =>
    simp only []
    have hlast : last ∈ b.chunks := List.mem_of_getLast? hl
    by_cases hfull : last.info.2 ≥ b.maxSamples
    · rw [if_pos hfull]
      refine ⟨?_, hm⟩
      intro c hc
      simp only [List.mem_append, List.mem_cons, List.not_mem_nil, or_false] at hc
      rcases hc with hc | rfl
      · exact h c hc
      · rw [hm]; exact betterOK_add n _ d hd (betterOK_fresh n)
    · rw [if_neg hfull]
      refine ⟨?_, hm⟩
      intro c hc
      simp only [List.mem_append, List.mem_cons, List.not_mem_nil, or_false] at hc
      rcases hc with hc | rfl
      · exact h c (List.dropLast_subset _ hc)
      · exact betterOK_add n last d hd (h last hlast)

theorem batch_resolve_ok (n : Nat) (hn : n < 2 ^ 32) : ∀ (chunks : List Better) (acc : List OutDoc) (out : List OutDoc),
    (∀ c ∈ chunks, BetterOK n c) → (∀ o ∈ acc, ChunkOK o) →
    chunks.foldl (fun a b => match a, b.resolve with
      | some l, some o => some (l ++ o)
      | _, _ => none) (some acc) = some out → ∀ o ∈ out, ChunkOK o := by
  intro chunks
  induction chunks with
  | nil => intro acc out _ ha h; simp at h; subst h; exact ha
  | cons b rest ih =>
    intro acc out hc ha h
    simp only [List.foldl_cons] at h
    cases hr : b.resolve with
    | none =>
      rw [hr] at h
      -- the fold stays `none`
      have hnone : ∀ (l : List Better), l.foldl (fun a b => match a, b.resolve with
          | some l, some o => some (l ++ o)
          | _, _ => none) (none : Option (List OutDoc)) = none := by
        intro l; induction l with
        | nil => rfl
        | cons x xs ihx => simpa using ihx
      simp only [] at h
      rw [hnone rest] at h; simp at h
    | some docs =>
      rw [hr] at h
      simp only [] at h
      have hdocs := betterOK_resolve n hn b (hc b (List.mem_cons_self ..)) docs hr
      exact ih (acc ++ docs) out (fun c hc' => hc c (List.mem_cons_of_mem _ hc'))
        (by intro o ho; rcases List.mem_append.1 ho with h1 | h1; exact ha o h1; exact hdocs o h1) h

/-- **Everything the batch collector resolves to is decodable**: after any sequence of `Add`s of
well-formed documents every metric chunk of `Resolve`'s output satisfies `ChunkOK`, hence
(`chunkOK_decodes`) is decoded by the reader model to exactly the samples it holds -/
theorem batch_output_decodes (n : Nat) (hn : n < 2 ^ 32) (ds : List BDoc) (hds : ∀ d ∈ ds, DocOK d)
    (out : List OutDoc) (hres : (ds.foldl (fun b d => (b.add d).1) (Batch.new n)).resolve = some out) :
    ∀ o ∈ out, ChunkOK o := by
  have : ∀ (ds : List BDoc), (∀ d ∈ ds, DocOK d) → ∀ (b : Batch), b.maxSamples = n → (∀ c ∈ b.chunks, BetterOK n c) →
      (ds.foldl (fun b d => (b.add d).1) b).maxSamples = n ∧
      ∀ c ∈ (ds.foldl (fun b d => (b.add d).1) b).chunks, BetterOK n c := by
    intro ds
    induction ds with
    | nil => intro _ b hm hc; exact ⟨hm, hc⟩
    | cons d ds ih =>
      intro hd b hm hc
      simp only [List.foldl_cons]
      obtain ⟨k1, k2⟩ := batch_chunks_ok n b d (hd d (List.mem_cons_self ..)) hm hc
      exact ih (fun x hx => hd x (List.mem_cons_of_mem _ hx)) _ k2 k1
  obtain ⟨_, hck⟩ := this ds hds (Batch.new n) rfl
    (by intro c hc; simp [Batch.new] at hc; subst hc; exact betterOK_fresh n)
  unfold Batch.resolve at hres
  exact batch_resolve_ok n hn _ [] out hck (by simp) hres

/-! non-vacuity: a concrete history -/
example : (({ maxDeltas := 1 } : Better).run
    [.add (.cons [97] (.int64 1#64) .nil), .add (.cons [97] (.int64 2#64) .nil),
     .add (.cons [97] (.int64 3#64) .nil), .resolve, .info]).samples = [[1#64], [2#64]] := by
  decide

/-! ### the batch collector over whole histories (Add, Reset, SetMetadata, Resolve, Info in any order) -/

def stepB (acc : Batch × List BDoc) : COp → Batch × List BDoc
  | .add d => addLogB acc d
  | .reset => (acc.1.reset, [])
  | .setMeta d => (acc.1.setMetadata d, acc.2)
  | _ => acc

theorem better_setMetadata_same (x : Better) (d : BDoc) :
    ((x.setMetadata d).Inv ↔ x.Inv) ∧ (x.setMetadata d).maxDeltas = x.maxDeltas ∧ (x.setMetadata d).samples = x.samples :=
  ⟨Iff.rfl, rfl, rfl⟩

theorem batch_setMetadata_inv (b : Batch) (d : BDoc) (hi : b.Inv) :
    (b.setMetadata d).Inv ∧ (b.setMetadata d).samples = b.samples := by
  unfold Batch.setMetadata
  cases hc : b.chunks with
  | nil => exact ⟨hi, rfl⟩
  | cons x r =>
    have he := hi.each; have hf := hi.full
    rw [hc] at he hf
    refine ⟨⟨hi.pos, by simp, ?_, ?_⟩, ?_⟩
    · intro c hcm
      simp only [List.mem_cons] at hcm
      rcases hcm with rfl | hcm
      · exact he x (by simp)
      · exact he c (by simp [hcm])
    · intro c hcm
      cases r with
      | nil => simp at hcm
      | cons y r' =>
        simp only [List.dropLast_cons_cons, List.mem_cons] at hcm
        rcases hcm with rfl | hcm
        · exact hf x (by simp)
        · exact hf c (by simp [hcm])
    · simp [Batch.samples, hc]; rfl

/-- **C07 for the batch collector over whole histories**: the samples it holds are exactly the documents accepted since
the last `Reset`, once each and in order, and every chunk but the last is full -/
theorem batch_faithful_all_histories (n : Nat) (hn : 1 ≤ n) (ops : List COp) :
    let r := ops.foldl stepB (Batch.new n, [])
    r.1.Inv ∧ r.1.maxSamples = n ∧ r.1.samples = r.2.map fun x => (extractDoc x).map (·.1) := by
  have step : ∀ (op : COp) (b : Batch) (acc : List BDoc), b.Inv → b.maxSamples = n →
      b.samples = acc.map (fun x => (extractDoc x).map (·.1)) →
      (stepB (b, acc) op).1.Inv ∧ (stepB (b, acc) op).1.maxSamples = n ∧
        (stepB (b, acc) op).1.samples = (stepB (b, acc) op).2.map fun x => (extractDoc x).map (·.1) := by
    intro op b acc hi hm h
    cases op with
    | add d =>
      refine ⟨Batch.add_inv b d hi, ?_, ?_⟩
      · show (b.add d).1.maxSamples = n
        unfold Batch.add; repeat' split
        all_goals first | exact hm | skip
      · show (b.add d).1.samples = (if (b.add d).2 = .ok then acc ++ [d] else acc).map _
        by_cases hok : (b.add d).2 = .ok
        · rw [if_pos hok, Batch.add_ok_appends b d hi hok, h]; simp
        · rw [if_neg hok, Batch.add_rejected_noop b d hi hok]; exact h
    | reset => exact ⟨by rw [show (stepB (b, acc) .reset).1 = Batch.new b.maxSamples from rfl, hm]; exact Batch.new_inv n hn,
        hm, by simp [stepB, Batch.reset, Batch.new, Batch.samples, Better.samples]⟩
    | setMeta d =>
      have := batch_setMetadata_inv b d hi
      refine ⟨this.1, ?_, by rw [show (stepB (b, acc) (.setMeta d)).1 = b.setMetadata d from rfl, this.2]; exact h⟩
      show (b.setMetadata d).maxSamples = n
      unfold Batch.setMetadata; split <;> exact hm
    | addBad => exact ⟨hi, hm, h⟩
    | resolve => exact ⟨hi, hm, h⟩
    | info => exact ⟨hi, hm, h⟩
  have : ∀ (ops : List COp) (b : Batch) (acc : List BDoc), b.Inv → b.maxSamples = n →
      b.samples = acc.map (fun x => (extractDoc x).map (·.1)) →
      (ops.foldl stepB (b, acc)).1.Inv ∧ (ops.foldl stepB (b, acc)).1.maxSamples = n ∧
        (ops.foldl stepB (b, acc)).1.samples = (ops.foldl stepB (b, acc)).2.map fun x => (extractDoc x).map (·.1) := by
    intro ops
    induction ops with
    | nil => intro b acc hi hm h; exact ⟨hi, hm, h⟩
    | cons op ops ih =>
      intro b acc hi hm h
      simp only [List.foldl_cons]
      have e : stepB (b, acc) op = ((stepB (b, acc) op).1, (stepB (b, acc) op).2) := rfl
      rw [e]
      obtain ⟨a1, a2, a3⟩ := step op b acc hi hm h
      exact ih _ _ a1 a2 a3
  exact this ops (Batch.new n) [] (Batch.new_inv n hn) rfl (by simp [Batch.new, Batch.samples, Better.samples])

end Ftdc.Props.C07
