import FtdcVerif.Lemmas.HdrRank
/-!
# Min and Max of the HDR histogram

`Max` walks all positions and keeps the last non-empty one, `Min` stops at the first non-empty
one; with the monotone index map these are the positions of the largest and the smallest
recorded value.
-/
namespace Ftdc.Hdr

/-- the accumulator of `Max`'s loop -/
def maxStep (m : Nat) (p : IterPos) : Nat := if p.countAt ≠ 0 then p.highest else m

theorem maxV_eq (h : Hist) : maxV h = highestEquiv h ((iter h).foldl maxStep 0) := rfl

/-- folding `Max`'s step over the positions from index `j` on yields the representative of the
last non-empty index, or leaves the accumulator alone when there is none -/
theorem max_fold {g : Hist} (wf : WF g) (hlen : g.counts.length = g.countsLen)
    (hn : ∀ x ∈ g.counts, 0 ≤ x) (hsum : g.counts.sum = g.total) :
    ∀ (fuel b : Nat) (s : Int) (j : Nat) (m : Nat),
      St (2 ^ g.halfMag) b s j → g.countsLen + 1 ≤ fuel + j →
      ((∀ i, j ≤ i → g.counts.getD i 0 = 0) → (iterFrom fuel g b s (pre g.counts j)).foldl maxStep m = m) ∧
      (∀ t, j ≤ t → g.counts.getD t 0 ≠ 0 → (∀ i, t < i → g.counts.getD i 0 = 0) →
        ∃ b' s', ValidPos g b' s' ∧ b' * 2 ^ g.halfMag + s' = t ∧
          (iterFrom fuel g b s (pre g.counts j)).foldl maxStep m = highestEquiv g (valueFromIndex g b' s')) := by
  intro fuel
  induction fuel with
  | zero =>
    intro b s j m _ hf
    have hj : g.counts.length ≤ j := by omega
    refine ⟨fun _ => by simp [iterFrom], ?_⟩
    intro t ht hnz _
    exfalso; apply hnz
    rw [List.getD_eq_getElem?_getD, List.getElem?_eq_none (by omega)]; rfl
  | succ fuel ih =>
    intro b s j m st hf
    have hple := pre_le_sum g.counts hn j
    unfold iterFrom
    by_cases hstop : pre g.counts j ≥ g.total
    · rw [if_pos hstop]
      have hz := tail_zero g.counts hn j (by omega)
      refine ⟨fun _ => by simp, ?_⟩
      intro t ht hnz _
      exact absurd (hz t ht) hnz
    · rw [if_neg hstop]
      obtain ⟨h0, hix, hs2, hup, st'⟩ := st_step (Nat.two_pow_pos _) st
      dsimp only
      rw [wf.subCount_eq, wf.halfCount_eq, show (2 : Nat) ^ (g.halfMag + 1) = 2 ^ g.halfMag * 2 from Nat.pow_succ ..]
      generalize hbs : (if s + 1 ≥ ((2 ^ g.halfMag * 2 : Nat) : Int) then (b + 1, ((2 ^ g.halfMag : Nat) : Int)) else (b, s + 1)) = bs at *
      obtain ⟨b1, s1⟩ := bs
      simp only at h0 hix hs2 hup st' ⊢
      have hjlt : j < g.countsLen := by
        apply Classical.byContradiction
        intro hge
        have : pre g.counts j = g.counts.sum := pre_all _ (by omega)
        omega
      have hpos : 0 < 2 ^ g.halfMag := Nat.two_pow_pos _
      have hb1 : b1 < g.bucketCount := by
        have hcl := wf.countsLen_eq
        rcases Nat.eq_zero_or_pos b1 with hz | hp
        · have := wf.bucket_pos; omega
        · have hge := hup hp
          apply Classical.byContradiction
          intro hnb
          have : (g.bucketCount + 1) * 2 ^ g.halfMag ≤ b1 * 2 ^ g.halfMag + 2 ^ g.halfMag := by
            rw [Nat.add_mul, Nat.one_mul]
            exact Nat.add_le_add_right (Nat.mul_le_mul_right _ (by omega)) _
          omega
      rw [if_neg (by omega)]
      have hs2' : s1.toNat < 2 ^ (g.halfMag + 1) := by rw [Nat.pow_succ]; exact hs2
      have vp : ValidPos g b1 s1.toNat := ⟨hb1, hs2', hup⟩
      have hcount : getCountAt g b1 s1.toNat = g.counts.getD j 0 := by
        unfold getCountAt countsIndex
        simp only [Nat.shiftLeft_eq, wf.halfCount_eq]
        have e : (((b1 + 1) * 2 ^ g.halfMag : Nat) : Int) + ((s1.toNat : Int) - ((2 ^ g.halfMag : Nat) : Int)) = (j : Int) := by
          rw [← hix, Nat.add_mul]; push_cast; omega
        rw [e, if_neg (by omega)]; simp
      have hpre : pre g.counts j + g.counts.getD j 0 = pre g.counts (j + 1) := (pre_succ _ _).symm
      rw [hcount, hpre]
      simp only [List.foldl_cons]
      -- the accumulator after this position
      have hm : maxStep m (IterPos.mk b1 s1.toNat (g.counts.getD j 0) (pre g.counts (j + 1))
            (valueFromIndex g b1 s1.toNat) (highestEquiv g (valueFromIndex g b1 s1.toNat))) =
          (if g.counts.getD j 0 ≠ 0 then highestEquiv g (valueFromIndex g b1 s1.toNat) else m) := rfl
      rw [hm]
      obtain ⟨ih1, ih2⟩ := ih b1 s1 (j + 1)
        (if g.counts.getD j 0 ≠ 0 then highestEquiv g (valueFromIndex g b1 s1.toNat) else m) st' (by omega)
      refine ⟨?_, ?_⟩
      · intro hall
        have hj0 := hall j (Nat.le_refl _)
        rw [ih1 (fun i hi => hall i (by omega)), if_neg (by rw [hj0]; simp)]
      · intro t ht hnz hafter
        by_cases hjt : j = t
        · subst hjt
          refine ⟨b1, s1.toNat, vp, hix, ?_⟩
          rw [ih1 (fun i hi => hafter i (by omega)), if_pos hnz]
        · exact ih2 t (by omega) hnz hafter

/-- entry `i` of the counts array as a count over the accepted values -/
theorem counts_getD_accepted {h0 : Hist} (wf : WF h0) (vs : List Int) (i : Nat) :
    (cnts h0 (List.replicate h0.countsLen 0) vs).getD i 0 =
      (((accepted h0 vs).countP fun a => idx h0 a == i : Nat) : Int) := by
  rw [cnts_getD h0 vs i _ (by simp), ← countP_accepted]
  have h0' : (List.replicate h0.countsLen (0 : Int)).getD i 0 = 0 := by
    rw [List.getD_eq_getElem?_getD]
    cases hx : (List.replicate h0.countsLen (0 : Int))[i]? with
    | none => rfl
    | some a => simp [List.getElem?_replicate] at hx; simp [hx.2]
  rw [h0', Int.zero_add]
  congr 2; funext v; rw [cix_eq_idx wf]

theorem highestEquiv_idem {h : Hist} (wf : WF h) {v : Nat} (hv : v < cap h) :
    highestEquiv h (highestEquiv h v) = highestEquiv h v := by
  obtain ⟨c, e⟩ := idx_highestEquiv wf hv
  exact highestEquiv_of_idx wf c hv e

/-- **`Max` is the representative of the largest recorded value** -/
theorem maxV_is_max {h0 : Hist} (wf : WF h0)
    (hc : h0.counts = List.replicate h0.countsLen 0) (ht : h0.total = 0)
    (vs : List Int) (h63 : ∀ v ∈ vs, v < 2 ^ 63) (x : Nat)
    (hx : x ∈ accepted h0 vs) (hmax : ∀ a ∈ accepted h0 vs, a ≤ x) :
    maxV (recordAll h0 vs) = highestEquiv h0 x := by
  have hxc : x < cap h0 := mem_accepted wf h63 hx
  have e := recordAll_eq h0 vs h0.counts h0.total
  change recordAll h0 vs = _ at e
  rw [e, hc, ht]
  generalize hH : Hist.mk h0.lowest h0.highest h0.unitMag h0.sigfigs h0.halfMag h0.halfCount h0.mask h0.subCount
    h0.bucketCount h0.countsLen (0 + ((vs.filter (accepts h0)).length : Int))
    (cnts h0 (List.replicate h0.countsLen 0) vs) = H
  have wfH : WF H := by rw [← hH]; exact wf_with wf _ _
  have hcounts : H.counts = cnts h0 (List.replicate h0.countsLen 0) vs := by rw [← hH]
  have hcl : H.countsLen = h0.countsLen := by rw [← hH]
  have hlenH : H.counts.length = H.countsLen := by rw [hcounts, cnts_length, hcl]; simp
  have invH : Inv (recordAll h0 vs) := (recordAll_spec vs h0 (by
    constructor
    · rw [hc]; simp
    · rw [hc, ht]; simp)).1
  have nnH : NonNeg (recordAll h0 vs) := recordAll_nonneg vs h0 (by intro c hcm; rw [hc] at hcm; simp at hcm; omega)
  rw [e, hc, ht, hH] at invH nnH
  have hgetD : ∀ i, H.counts.getD i 0 = (((accepted h0 vs).countP fun a => idx h0 a == i : Nat) : Int) := by
    intro i; rw [hcounts]; exact counts_getD_accepted wf vs i
  -- the last non-empty index is the index of the largest value
  have hnz : H.counts.getD (idx h0 x) 0 ≠ 0 := by
    rw [hgetD]
    have : 0 < (accepted h0 vs).countP fun a => idx h0 a == idx h0 x := by
      rw [List.countP_pos_iff]; exact ⟨x, hx, by simp⟩
    omega
  have hafter : ∀ i, idx h0 x < i → H.counts.getD i 0 = 0 := by
    intro i hi
    rw [hgetD]
    have : (accepted h0 vs).countP (fun a => idx h0 a == i) = 0 := by
      rw [List.countP_eq_zero]
      intro a ha
      have := idx_mono wf (hmax a ha) hxc
      simp; omega
    simp [this]
  obtain ⟨_, h2⟩ := max_fold wfH hlenH nnH invH.2 (H.countsLen + 2) 0 (-1) 0 0
    (st_init _ (Nat.two_pow_pos _)) (by omega)
  obtain ⟨b', s', vp, hix, hfold⟩ := h2 (idx h0 x) (Nat.zero_le _) hnz hafter
  have hp0 : pre H.counts 0 = 0 := by simp [pre]
  rw [hp0] at hfold
  rw [maxV_eq]
  unfold iter
  rw [hfold]
  have vpx := validPos_of wfH (v := x) (by rw [← hH]; exact hxc)
  have hidx : b' * 2 ^ H.halfMag + s' = idx H x := by rw [hix]; rw [← hH]; rfl
  obtain ⟨e1, e2⟩ := pos_unique vp vpx hidx
  have hrep : highestEquiv H (valueFromIndex H b' s') = highestEquiv H x := by
    rw [highestEquiv_repr wfH vp, e1, e2, ← highestEquiv_eq]
  rw [hrep, highestEquiv_idem wfH (by rw [← hH]; exact hxc), ← hH]
  rfl

/-! ### Min -/

theorem minV_eq (h : Hist) : minV h = lowestEquiv h
    (match (iter h).find? (fun p => p.countAt ≠ 0) with
      | some p => p.highest
      | none => 0) := rfl

theorem pre_zero (c : List Int) : ∀ (k : Nat), (∀ i, i < k → c.getD i 0 = 0) → pre c k = 0 := by
  intro k
  induction k with
  | zero => intro _; simp [pre]
  | succ k ih =>
    intro h
    rw [pre_succ, ih (fun i hi => h i (by omega)), h k (by omega)]; rfl

/-- `find?` for the first non-empty position reaches the first non-empty index -/
theorem find_first_nz {h : Hist} (wf : WF h) (hpos : 0 < h.total) (t : Nat) (ht : t < h.countsLen)
    (hnz : h.counts.getD t 0 ≠ 0) (hz : ∀ k, k < t → h.counts.getD k 0 = 0) :
    ∀ (fuel b : Nat) (s : Int) (j : Nat), St (2 ^ h.halfMag) b s j → j ≤ t → t - j < fuel →
      ∃ p, (iterFrom fuel h b s (pre h.counts j)).find? (fun p => decide (p.countAt ≠ 0)) = some p ∧
        ∃ b' s', ValidPos h b' s' ∧ b' * 2 ^ h.halfMag + s' = t ∧
          p.highest = highestEquiv h (valueFromIndex h b' s') := by
  intro fuel
  induction fuel with
  | zero => intro b s j _ _ hf; omega
  | succ fuel ih =>
    intro b s j st hjt hf
    have hpj : pre h.counts j = 0 := pre_zero _ j (fun i hi => hz i (by omega))
    obtain ⟨h0, hix, hs2, hup, st'⟩ := st_step (Nat.two_pow_pos _) st
    unfold iterFrom
    rw [if_neg (by omega)]
    dsimp only
    rw [wf.subCount_eq, wf.halfCount_eq, show (2 : Nat) ^ (h.halfMag + 1) = 2 ^ h.halfMag * 2 from Nat.pow_succ ..]
    generalize hbs : (if s + 1 ≥ ((2 ^ h.halfMag * 2 : Nat) : Int) then (b + 1, ((2 ^ h.halfMag : Nat) : Int)) else (b, s + 1)) = bs at *
    obtain ⟨b1, s1⟩ := bs
    simp only at h0 hix hs2 hup st' ⊢
    rw [← show (2 : Nat) ^ (h.halfMag + 1) = 2 ^ h.halfMag * 2 from Nat.pow_succ ..] at hs2
    have hb1 : b1 < h.bucketCount := by
      have hcl := wf.countsLen_eq
      have hpos' : 0 < 2 ^ h.halfMag := Nat.two_pow_pos _
      rcases Nat.eq_zero_or_pos b1 with hzz | hp
      · have := wf.bucket_pos; omega
      · have hge := hup hp
        apply Classical.byContradiction
        intro hnb
        have : (h.bucketCount + 1) * 2 ^ h.halfMag ≤ b1 * 2 ^ h.halfMag + 2 ^ h.halfMag := by
          rw [Nat.add_mul, Nat.one_mul]
          exact Nat.add_le_add_right (Nat.mul_le_mul_right _ (by omega)) _
        omega
    rw [if_neg (by omega)]
    have hcount : getCountAt h b1 s1.toNat = h.counts.getD j 0 := by
      unfold getCountAt countsIndex
      simp only [Nat.shiftLeft_eq, wf.halfCount_eq]
      have e : (((b1 + 1) * 2 ^ h.halfMag : Nat) : Int) + ((s1.toNat : Int) - ((2 ^ h.halfMag : Nat) : Int)) = (j : Int) := by
        rw [← hix, Nat.add_mul]; push_cast; omega
      rw [e, if_neg (by omega)]; simp
    simp only [List.find?_cons, hcount]
    have hpre : pre h.counts j + h.counts.getD j 0 = pre h.counts (j + 1) := (pre_succ _ _).symm
    rw [hpre]
    by_cases hj : j = t
    · subst hj
      have hd : decide (h.counts.getD j 0 ≠ 0) = true := by simpa using hnz
      simp only [hd]
      exact ⟨_, rfl, b1, s1.toNat, ⟨hb1, hs2, hup⟩, hix, rfl⟩
    · have hzero : h.counts.getD j 0 = 0 := hz j (by omega)
      have hd : decide (h.counts.getD j 0 ≠ 0) = false := by rw [hzero]; rfl
      simp only [hd]
      exact ih b1 s1 (j + 1) st' (by omega) (by omega)

theorem lowestEquiv_of_idx {h : Hist} (wf : WF h) {v w : Nat} (hv : v < cap h) (hw : w < cap h)
    (e : idx h v = idx h w) : lowestEquiv h v = lowestEquiv h w := by
  obtain ⟨e1, e2⟩ := pos_unique (validPos_of wf hv) (validPos_of wf hw) e
  unfold lowestEquiv
  simp only []
  rw [e1] at e2 ⊢
  rw [e2]

/-- **`Min` is the lowest equivalent value of the smallest recorded value** -/
theorem minV_is_min {h0 : Hist} (wf : WF h0)
    (hc : h0.counts = List.replicate h0.countsLen 0) (ht : h0.total = 0)
    (vs : List Int) (h63 : ∀ v ∈ vs, v < 2 ^ 63) (x : Nat)
    (hx : x ∈ accepted h0 vs) (hmin : ∀ a ∈ accepted h0 vs, x ≤ a) :
    minV (recordAll h0 vs) = lowestEquiv h0 x := by
  have hxc : x < cap h0 := mem_accepted wf h63 hx
  have e := recordAll_eq h0 vs h0.counts h0.total
  change recordAll h0 vs = _ at e
  rw [e, hc, ht]
  generalize hH : Hist.mk h0.lowest h0.highest h0.unitMag h0.sigfigs h0.halfMag h0.halfCount h0.mask h0.subCount
    h0.bucketCount h0.countsLen (0 + ((vs.filter (accepts h0)).length : Int))
    (cnts h0 (List.replicate h0.countsLen 0) vs) = H
  have wfH : WF H := by rw [← hH]; exact wf_with wf _ _
  have hcounts : H.counts = cnts h0 (List.replicate h0.countsLen 0) vs := by rw [← hH]
  have hcl : H.countsLen = h0.countsLen := by rw [← hH]
  have htot : H.total = ((accepted h0 vs).length : Int) := by rw [← hH]; simp [accepted]
  have hgetD : ∀ i, H.counts.getD i 0 = (((accepted h0 vs).countP fun a => idx h0 a == i : Nat) : Int) := by
    intro i; rw [hcounts]; exact counts_getD_accepted wf vs i
  have hxi : idx h0 x < h0.countsLen := by
    have := index_in_range (h := capH h0) (capH_wf wf) (show x ≤ cap h0 - 1 by omega)
    rw [countsIndexFor_eq (capH_wf wf)] at this
    exact_mod_cast this.2
  have hnz : H.counts.getD (idx h0 x) 0 ≠ 0 := by
    rw [hgetD]
    have : 0 < (accepted h0 vs).countP fun a => idx h0 a == idx h0 x := by
      rw [List.countP_pos_iff]; exact ⟨x, hx, by simp⟩
    omega
  have hbefore : ∀ k, k < idx h0 x → H.counts.getD k 0 = 0 := by
    intro k hk
    rw [hgetD]
    have : (accepted h0 vs).countP (fun a => idx h0 a == k) = 0 := by
      rw [List.countP_eq_zero]
      intro a ha
      have := idx_mono wf (hmin a ha) (mem_accepted wf h63 ha)
      simp; omega
    simp [this]
  have hpos : 0 < H.total := by
    rw [htot]
    have : 0 < (accepted h0 vs).length := List.length_pos_of_mem hx
    exact_mod_cast this
  obtain ⟨p, hfind, b', s', vp, hix, hhi⟩ := find_first_nz wfH hpos (idx h0 x) (by rw [hcl]; exact hxi) hnz hbefore
    (H.countsLen + 2) 0 (-1) 0 (st_init _ (Nat.two_pow_pos _)) (Nat.zero_le _) (by rw [hcl]; omega)
  have hp0 : pre H.counts 0 = 0 := by simp [pre]
  rw [hp0] at hfind
  rw [minV_eq]
  unfold iter
  have hfind' : (iterFrom (H.countsLen + 2) H 0 (-1) 0).find? (fun p => p.countAt ≠ 0) = some p := by
    rw [← hfind]
  rw [hfind']
  simp only
  rw [hhi]
  have hxH : x < cap H := by rw [← hH]; exact hxc
  have vpx := validPos_of wfH hxH
  have hidx : b' * 2 ^ H.halfMag + s' = idx H x := by rw [hix]; rw [← hH]; rfl
  obtain ⟨e1, e2⟩ := pos_unique vp vpx hidx
  have hrep : highestEquiv H (valueFromIndex H b' s') = highestEquiv H x := by
    rw [highestEquiv_repr wfH vp, e1, e2, ← highestEquiv_eq]
  rw [hrep]
  obtain ⟨c1, c2⟩ := idx_highestEquiv wfH hxH
  rw [lowestEquiv_of_idx wfH c1 hxH c2, ← hH]
  rfl

end Ftdc.Hdr
