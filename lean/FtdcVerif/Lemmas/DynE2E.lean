import FtdcVerif.Lemmas.BatchE2E
/-!
# The schema-aware collectors on documents of one schema

Documents of one schema have one schema key, so the dynamic collector is one batch collector and the
schema-aware streaming collector is the streaming collector.
-/
namespace Ftdc

mutual
theorem simVal_hash : (a b : BVal) → SimVal a b → ∀ key, hashVal key a = hashVal key b
  | .doc x, b, h, key => by
    cases b with
    | doc y => simpa [hashVal] using simDoc_hashElems x y (by simpa [SimVal] using h) key
    | _ => simp [SimVal] at h
  | .arr x, b, h, key => by
    cases b with
    | arr y => simpa [hashVal] using simDoc_hashArr x y (by simpa [SimVal] using h) key 0
    | _ => simp [SimVal] at h
  | .double _, b, h, _ => by cases b <;> simp [SimVal] at h <;> simp [hashVal]
  | .bool _, b, h, _ => by cases b <;> simp [SimVal] at h <;> simp [hashVal]
  | .datetime _, b, h, _ => by cases b <;> simp [SimVal] at h <;> simp [hashVal]
  | .int32 _, b, h, _ => by cases b <;> simp [SimVal] at h <;> simp [hashVal]
  | .timestamp _ _, b, h, _ => by cases b <;> simp [SimVal] at h <;> simp [hashVal]
  | .int64 _, b, h, _ => by cases b <;> simp [SimVal] at h <;> simp [hashVal]
  | .other _ _, b, h, _ => by cases b <;> simp [SimVal] at h <;> simp [hashVal]
theorem simDoc_hashElems : (a b : BDoc) → SimDoc a b → ∀ key, hashElems key a = hashElems key b
  | .nil, b, h, _ => by cases b <;> simp [SimDoc] at h <;> simp [hashElems]
  | .cons k v r, b, h, key => by
    cases b with
    | nil => simp [SimDoc] at h
    | cons k' v' r' =>
      obtain ⟨hk, hv, hr⟩ : k = k' ∧ SimVal v v' ∧ SimDoc r r' := by simpa [SimDoc] using h
      subst hk
      simp only [hashElems, simVal_hash v v' hv, simDoc_hashElems r r' hr]
theorem simDoc_hashArr : (a b : BDoc) → SimDoc a b → ∀ key idx, hashArr key idx a = hashArr key idx b
  | .nil, b, h, _, _ => by cases b <;> simp [SimDoc] at h <;> simp [hashArr]
  | .cons k v r, b, h, key, idx => by
    cases b with
    | nil => simp [SimDoc] at h
    | cons k' v' r' =>
      obtain ⟨_, hv, hr⟩ : k = k' ∧ SimVal v v' ∧ SimDoc r r' := by simpa [SimDoc] using h
      simp only [hashArr, simVal_hash v v' hv, simDoc_hashArr r r' hr]
end

/-- **documents of one schema have one schema key** -/
theorem sim_schemaKey (a b : BDoc) (h : SimDoc a b) : schemaKey a = schemaKey b :=
  simDoc_hashElems a b h []

/-- the dynamic collector fed with documents of one key is one batch collector -/
theorem dynamic_is_batch (n : Nat) (k : Bytes × Nat) : ∀ (ds : List BDoc) (b : Batch), (∀ d ∈ ds, schemaKey d = k) →
    ds.foldl (fun (c : Dynamic) d => (c.add d).1) { maxSamples := n, chunks := [b], hash := some k } =
      { maxSamples := n, chunks := [ds.foldl (fun (b : Batch) d => (b.add d).1) b], hash := some k } := by
  intro ds
  induction ds with
  | nil => intro b _; rfl
  | cons d ds ih =>
    intro b hk
    have hd := hk d (List.mem_cons_self ..)
    simp only [List.foldl_cons]
    have : (({ maxSamples := n, chunks := [b], hash := some k } : Dynamic).add d).1 =
        { maxSamples := n, chunks := [(b.add d).1], hash := some k } := by
      unfold Dynamic.add
      simp [hd]
    rw [this]
    exact ih _ (fun x hx => hk x (List.mem_cons_of_mem _ hx))

theorem dynamic_first (n : Nat) (d : BDoc) :
    ((Dynamic.new n).add d).1 = { maxSamples := n, chunks := [((Batch.new n).add d).1], hash := some (schemaKey d) } := by
  unfold Dynamic.add Dynamic.new
  simp

/-- for documents of one schema the dynamic collector's chunk list is the batch collector's -/
theorem dynamic_one_schema (n : Nat) (d0 : BDoc) (ds : List BDoc) (hsim : ∀ d ∈ ds, SimDoc d0 d) :
    ((d0 :: ds).foldl (fun (c : Dynamic) d => (c.add d).1) (Dynamic.new n)).chunks =
      [(d0 :: ds).foldl (fun (b : Batch) d => (b.add d).1) (Batch.new n)] := by
  simp only [List.foldl_cons]
  rw [dynamic_first, dynamic_is_batch n (schemaKey d0) ds _ (fun d hd => (sim_schemaKey d0 d (hsim d hd)).symm)]

theorem dynamic_resolve_one (n : Nat) (b : Batch) (h : Option (Bytes × Nat)) :
    ({ maxSamples := n, chunks := [b], hash := h } : Dynamic).resolve = b.resolve := by
  unfold Dynamic.resolve
  simp only [List.foldl_cons, List.foldl_nil]
  cases b.resolve <;> simp

/-! ### any sequence of schemas: the dynamic collector -/

/-- the batch collector a run of documents produces -/
def batchOf (n : Nat) (s : BDoc × List BDoc) : Batch :=
  (chunkDocs s).foldl (fun (b : Batch) d => (b.add d).1) (Batch.new n)

/-- the first document of the next run has a schema key other than `k` -/
def HeadDiff (k : Bytes × Nat) : List (BDoc × List BDoc) → Prop
  | [] => True
  | s :: _ => (schemaKey s.1).1 ≠ k.1

/-- consecutive runs have different schema keys -/
def AdjDiff : List (BDoc × List BDoc) → Prop
  | [] => True
  | s :: r => HeadDiff (schemaKey s.1) r ∧ AdjDiff r

theorem dynamic_is_batch' (n : Nat) (k : Bytes × Nat) : ∀ (ds : List BDoc) (pre : List Batch) (b : Batch),
    (∀ d ∈ ds, schemaKey d = k) →
    ds.foldl (fun (c : Dynamic) d => (c.add d).1) { maxSamples := n, chunks := pre ++ [b], hash := some k } =
      { maxSamples := n, chunks := pre ++ [ds.foldl (fun (b : Batch) d => (b.add d).1) b], hash := some k } := by
  intro ds
  induction ds with
  | nil => intro pre b _; rfl
  | cons d ds ih =>
    intro pre b hk
    have hd := hk d (List.mem_cons_self ..)
    simp only [List.foldl_cons]
    have : (({ maxSamples := n, chunks := pre ++ [b], hash := some k } : Dynamic).add d).1 =
        { maxSamples := n, chunks := pre ++ [(b.add d).1], hash := some k } := by
      unfold Dynamic.add
      simp [hd]
    rw [this]
    exact ih _ _ (fun x hx => hk x (List.mem_cons_of_mem _ hx))

/-- one run of documents whose key differs from the current one opens one new batch collector -/
theorem dyn_seg (n : Nat) (pre : List Batch) (b : Batch) (k : Bytes × Nat) (s : BDoc × List BDoc)
    (hne : (schemaKey s.1).1 ≠ k.1) (hsim : ∀ d ∈ s.2, SimDoc s.1 d) :
    (chunkDocs s).foldl (fun (c : Dynamic) d => (c.add d).1) { maxSamples := n, chunks := pre ++ [b], hash := some k } =
      { maxSamples := n, chunks := (pre ++ [b]) ++ [batchOf n s], hash := some (schemaKey s.1) } := by
  simp only [chunkDocs, List.foldl_cons, batchOf]
  have : (({ maxSamples := n, chunks := pre ++ [b], hash := some k } : Dynamic).add s.1).1 =
      { maxSamples := n, chunks := (pre ++ [b]) ++ [((Batch.new n).add s.1).1], hash := some (schemaKey s.1) } := by
    unfold Dynamic.add
    simp [Ne.symm hne]
  rw [this, dynamic_is_batch' n (schemaKey s.1) s.2 (pre ++ [b]) _ (fun d hd => (sim_schemaKey s.1 d (hsim d hd)).symm)]

theorem dyn_segs (n : Nat) : ∀ (segs : List (BDoc × List BDoc)) (pre : List Batch) (b : Batch) (k : Bytes × Nat),
    (∀ s ∈ segs, ∀ d ∈ s.2, SimDoc s.1 d) → HeadDiff k segs → AdjDiff segs →
    ∃ k', (segs.flatMap chunkDocs).foldl (fun (c : Dynamic) d => (c.add d).1)
        { maxSamples := n, chunks := pre ++ [b], hash := some k } =
      { maxSamples := n, chunks := (pre ++ [b]) ++ segs.map (batchOf n), hash := some k' } := by
  intro segs
  induction segs with
  | nil => intro pre b k _ _ _; exact ⟨k, by simp⟩
  | cons s rest ih =>
    intro pre b k hsim hh hadj
    simp only [List.flatMap_cons, List.foldl_append]
    rw [dyn_seg n pre b k s hh (hsim s (List.mem_cons_self ..))]
    obtain ⟨k', hk'⟩ := ih (pre ++ [b]) (batchOf n s) (schemaKey s.1)
      (fun x hx => hsim x (List.mem_cons_of_mem _ hx)) hadj.1 hadj.2
    exact ⟨k', by rw [hk']; simp⟩

/-- **any sequence of runs with changing schema keys**: the dynamic collector holds one batch collector per run -/
theorem dynamic_runs (n : Nat) (s0 : BDoc × List BDoc) (segs : List (BDoc × List BDoc))
    (hsim : ∀ s ∈ s0 :: segs, ∀ d ∈ s.2, SimDoc s.1 d) (hadj : AdjDiff (s0 :: segs)) :
    (((s0 :: segs).flatMap chunkDocs).foldl (fun (c : Dynamic) d => (c.add d).1) (Dynamic.new n)).chunks =
      (s0 :: segs).map (batchOf n) := by
  simp only [List.flatMap_cons, List.foldl_append]
  have h0 : (chunkDocs s0).foldl (fun (c : Dynamic) d => (c.add d).1) (Dynamic.new n) =
      { maxSamples := n, chunks := [] ++ [batchOf n s0], hash := some (schemaKey s0.1) } := by
    simp only [chunkDocs, List.foldl_cons, batchOf]
    rw [dynamic_first, dynamic_is_batch n (schemaKey s0.1) s0.2 _
      (fun d hd => (sim_schemaKey s0.1 d (hsim s0 (List.mem_cons_self ..) d hd)).symm)]
    rfl
  rw [h0]
  obtain ⟨k', hk'⟩ := dyn_segs n segs [] (batchOf n s0) (schemaKey s0.1)
    (fun x hx => hsim x (List.mem_cons_of_mem _ hx)) hadj.1 hadj.2
  rw [hk']
  simp

/-- resolving a list of batch collectors each of which resolves to the chunks of its runs -/
theorem resolve_batches (n : Nat) (Dec : BDoc × List BDoc → Prop) :
    ∀ (segs : List (BDoc × List BDoc)) (acc : List (BDoc × List BDoc)),
    (∀ s ∈ segs, ∃ runs : List (BDoc × List BDoc), (batchOf n s).resolve = some (runs.map mkChunk) ∧
        (runs.map chunkDocs).flatten = chunkDocs s ∧ ∀ p ∈ runs, Dec p) →
    ∃ runs : List (BDoc × List BDoc),
      (segs.map (batchOf n)).foldl (fun acc b => match acc, b.resolve with
        | some l, some o => some (l ++ o)
        | _, _ => none) (some (acc.map mkChunk)) = some ((acc ++ runs).map mkChunk) ∧
      (runs.map chunkDocs).flatten = segs.flatMap chunkDocs ∧ ∀ p ∈ runs, Dec p := by
  intro segs
  induction segs with
  | nil => intro acc _; exact ⟨[], by simp, by simp, by simp⟩
  | cons s rest ih =>
    intro acc h
    obtain ⟨r1, hr1, hf1, hd1⟩ := h s (List.mem_cons_self ..)
    obtain ⟨r2, hr2, hf2, hd2⟩ := ih (acc ++ r1) (fun x hx => h x (List.mem_cons_of_mem _ hx))
    refine ⟨r1 ++ r2, ?_, ?_, ?_⟩
    · simp only [List.map_cons, List.foldl_cons, hr1]
      rw [← List.map_append, hr2, List.append_assoc]
    · simp [hf1, hf2]
    · intro p hp
      rcases List.mem_append.1 hp with hp | hp
      · exact hd1 p hp
      · exact hd2 p hp

/-- the schema-aware streaming collector fed with documents of one key is the streaming collector -/
theorem sd_is_streaming (k : Bytes × Nat) : ∀ (ds : List BDoc) (s : Streaming), (∀ d ∈ ds, schemaKey d = k) →
    (ds.foldl (fun (c : StreamingDynamic) d => (c.add d).1) { s := s, hash := some k }).s =
      ds.foldl (fun (s : Streaming) d => (s.add d).1) s := by
  intro ds
  induction ds with
  | nil => intro s _; rfl
  | cons d ds ih =>
    intro s hk
    have hd := hk d (List.mem_cons_self ..)
    simp only [List.foldl_cons]
    have : (({ s := s, hash := some k } : StreamingDynamic).add d).1 = { s := (s.add d).1, hash := some k } := by
      unfold StreamingDynamic.add
      simp [hd]
    rw [this]
    exact ih _ (fun x hx => hk x (List.mem_cons_of_mem _ hx))

theorem sd_first (n : Nat) (d : BDoc) :
    ((StreamingDynamic.new n).add d).1 = { s := ((Streaming.new n).add d).1, hash := some (schemaKey d) } := by
  unfold StreamingDynamic.add StreamingDynamic.new
  simp [Streaming.new]

theorem sd_one_schema (n : Nat) (d0 : BDoc) (ds : List BDoc) (hsim : ∀ d ∈ ds, SimDoc d0 d) :
    ((d0 :: ds).foldl (fun (c : StreamingDynamic) d => (c.add d).1) (StreamingDynamic.new n)).s =
      (d0 :: ds).foldl (fun (s : Streaming) d => (s.add d).1) (Streaming.new n) := by
  simp only [List.foldl_cons]
  rw [sd_first, sd_is_streaming (schemaKey d0) ds _ (fun d hd => (sim_schemaKey d0 d (hsim d hd)).symm)]

end Ftdc
