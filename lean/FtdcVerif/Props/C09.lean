import FtdcVerif.Lemmas.Stream
import FtdcVerif.Props.C04
/-!
# C09 — streamed output is crash-consistent and survives writer faults

Crash points: the writer's byte log is a concatenation of serialised documents, each a framed
document (`serDoc_wellFramed`).  For *every* byte offset, the prefix either ends at a document
boundary — then the reader yields exactly the fold over the whole documents inside it, without a
framing error — or inside a document — then it reports an error and still delivers the chunks of
the whole documents before the cut.  Faults: a failing or short write makes the flush return an
error and leaves every pending sample in place; a failing flush inside `Add` rejects that `Add`
without touching the collector.
-/
namespace Ftdc.Props.C09
open Ftdc

/-- what a streaming collector writes is framed: every serialised document is a framed document -/
theorem written_documents_are_framed (d : BDoc) (h : (serDoc d).length < 2 ^ 31) :
    WellFramed (serDoc d) :=
  serDoc_wellFramed d h

/-- **crash at a document boundary**: the prefix made of the first `j` documents decodes to
exactly the fold over those documents (no framing error is introduced by the cut) -/
theorem prefix_at_boundary (inflate : Inflate) (dbs : List Bytes) (j : Nat)
    (h : ∀ db ∈ dbs, WellFramed db) :
    readAll inflate (dbs.take j).flatten = (processDocs inflate (.running none []) (dbs.take j)).result :=
  readAll_framed inflate (dbs.take j) (fun db hdb => h db (List.mem_of_mem_take hdb))

/-- **crash inside a document**: for every document `db` of the stream and every cut `0 < k <
|db|`, the prefix that ends `k` bytes into `db` reports an error, and every chunk wholly
contained in the prefix is still delivered -/
theorem prefix_inside_document (inflate : Inflate) (pre : List Bytes) (db : Bytes) (k : Nat)
    (hpre : ∀ x ∈ pre, WellFramed x) (hdb : WellFramed db) (h0 : 0 < k) (hk : k < db.length) :
    (readAll inflate (pre.flatten ++ db.take k)).err ≠ none ∧
    (readAll inflate pre.flatten).chunks <+: (readAll inflate (pre.flatten ++ db.take k)).chunks :=
  ⟨C04.cut_stream_reports_error inflate pre (db.take k) hpre (take_incomplete hdb k h0 hk),
   C04.intact_prefix_delivered inflate pre (db.take k) hpre⟩

/-- every byte offset of a framed stream is one of the two cases above -/
theorem every_offset_is_boundary_or_inside (db : Bytes) (k : Nat) (hk : k ≤ db.length) :
    k = 0 ∨ k = db.length ∨ (0 < k ∧ k < db.length) := by omega

/-- chunks delivered for a shorter prefix are delivered for every longer one (nothing already
durable is lost or reordered by later writes) -/
theorem longer_prefix_keeps_chunks (inflate : Inflate) (dbs : List Bytes) (tail : Bytes)
    (h : ∀ db ∈ dbs, WellFramed db) :
    (readAll inflate dbs.flatten).chunks <+: (readAll inflate (dbs.flatten ++ tail)).chunks :=
  C04.intact_prefix_delivered inflate dbs tail h

/-! ### writer faults -/

/-- a failing write (nothing consumed): the flush reports the error and every pending sample,
the count and the metadata stay in place; nothing is added to the log -/
theorem failed_write_keeps_pending (c : Streaming) (s : List WriteResult) (docs : List OutDoc)
    (hs : c.out.script = .fail :: s) (hp : c.info.2 ≠ 0) (hr : c.resolve = some docs) :
    (c.flush).2 = false ∧ (c.flush).1.inner = c.inner ∧ (c.flush).1.count = c.count ∧
    (c.flush).1.out.log = c.out.log := by
  simp [Streaming.flush, hp, hr, Writer.write, hs]

/-- a short write (some bytes consumed, error or short count): same, except that the partial
write is visible in the writer's log -/
theorem short_write_keeps_pending (c : Streaming) (n : Nat) (s : List WriteResult) (docs : List OutDoc)
    (hs : c.out.script = .short n :: s) (hp : c.info.2 ≠ 0) (hr : c.resolve = some docs) :
    (c.flush).2 = false ∧ (c.flush).1.inner = c.inner ∧ (c.flush).1.count = c.count := by
  simp [Streaming.flush, hp, hr, Writer.write, hs]

/-- a successful write appends exactly the resolved documents to the log and empties the
collector: the samples become durable exactly once -/
theorem successful_flush_moves_samples (c : Streaming) (docs : List OutDoc)
    (hs : c.out.script = [] ∨ ∃ s, c.out.script = .ok :: s) (hp : c.info.2 ≠ 0)
    (hr : c.resolve = some docs) :
    (c.flush).2 = true ∧ (c.flush).1.out.log = c.out.log ++ [.full docs] ∧
    (c.flush).1.inner.samples = [] ∧ (c.flush).1.count = 0 := by
  rcases hs with hs | ⟨s, hs⟩ <;>
    simp [Streaming.flush, hp, hr, Writer.write, hs, Streaming.reset, Better.reset, Better.samples]

/-- an `Add` whose implicit flush fails is rejected and leaves the pending samples alone -/
theorem add_with_failing_flush_is_rejected (c : Streaming) (d : BDoc)
    (hfull : c.count ≥ c.maxSamples) (hfail : (c.flush).2 = false) :
    (c.add d).2 = .flushErr ∧ (c.add d).1 = (c.flush).1 := by
  simp [Streaming.add, hfull, hfail]

/-- ... and once the writer accepts data again, the retried `Add` flushes the same pending
samples and accepts the new one -/
theorem retry_after_fault (c : Streaming) (d : BDoc)
    (hfull : c.count ≥ c.maxSamples) (hok : (c.flush).2 = true) :
    (c.add d).1.inner = ((c.flush).1.inner.add d).1 ∨ (c.add d).2 ≠ .ok := by
  unfold Streaming.add
  simp only [hfull, ite_true, hok, Bool.not_true, Bool.false_eq_true, ite_false]
  by_cases h : ((c.flush).1.inner.add d).2 = .ok
  · left; simp [h]
  · right; simp [h]

/-! non-vacuity -/
example : WellFramed (serDoc (.cons [97] (.int64 1#64) .nil)) := by
  apply serDoc_wellFramed
  simp [serDoc, serElems, serVal, le32, le64, leN, BVal.tag]

end Ftdc.Props.C09
