package main

import (
	"bytes"
	"context"
	"encoding/csv"
	"fmt"
	"math/rand"
	"os"
	"path/filepath"
	"sort"
	"strings"
	"time"

	"github.com/mongodb/ftdc"
)

func init() {
	commands["csv"] = cmdCSV
	streams["csv"] = streamCSV
}

func recsString(recs [][]string) string {
	var rs []string
	for _, r := range recs {
		var fs []string
		for _, f := range r {
			fs = append(fs, hx([]byte(f)))
		}
		rs = append(rs, strings.Join(fs, ","))
	}
	return strings.Join(rs, ";")
}

// groups of consecutive documents with the same key list: "k,k:v,v/v,v"
func tableGroups(docs []string) string {
	var groups []string
	curKeys := "\x00"
	var rows []string
	flush := func() {
		if curKeys != "\x00" {
			groups = append(groups, curKeys+":"+strings.Join(rows, "/"))
		}
	}
	for _, d := range docs {
		kids, err := parseDocStrict(unhx(d))
		if err != nil {
			return "X"
		}
		var ks, vs []string
		for _, l := range leavesOf(kids, nil, false, "") {
			ks = append(ks, hx([]byte(strings.Join(l.Path, "."))))
			vs = append(vs, fmt.Sprint(l.Val))
		}
		k := strings.Join(ks, ",")
		if k != curKeys {
			flush()
			curKeys, rows = k, nil
		}
		rows = append(rows, strings.Join(vs, ","))
	}
	flush()
	return strings.Join(groups, " ")
}

// csv <bucket> <hex stream> | <inflate table>
func cmdCSV(o *Out, line string, f []string) {
	sec := sections(f)
	bucket := int(atoi64(sec[0][0]))
	stream := unhx(sec[0][1])
	ctx, cancel := context.WithCancel(context.Background())
	defer cancel()
	// WriteCSV
	var text bytes.Buffer
	werr := ftdc.WriteCSV(ctx, ftdc.ReadChunks(ctx, bytes.NewReader(stream)), &text)
	recs, perr := csv.NewReader(bytes.NewReader(text.Bytes())).ReadAll()
	if perr != nil {
		r := csv.NewReader(bytes.NewReader(text.Bytes()))
		r.FieldsPerRecord = -1
		recs, perr = r.ReadAll()
	}
	// DumpCSV
	dir, _ := os.MkdirTemp("", "verif-csv-")
	defer os.RemoveAll(dir)
	// an earlier, longer dump to the same prefix is in the way: its first file exists already
	stale := []byte(strings.Repeat("stale,rows,from,an,earlier,dump\n1,2,3,4,5,6\n", 400))
	_ = os.WriteFile(filepath.Join(dir, "d.0.csv"), stale, 0o644)
	derr := ftdc.DumpCSV(ctx, ftdc.ReadChunks(ctx, bytes.NewReader(stream)), filepath.Join(dir, "d"))
	if b, err := os.ReadFile(filepath.Join(dir, "d.0.csv")); err == nil && bytes.Equal(b, stale) {
		os.Remove(filepath.Join(dir, "d.0.csv")) // this dump wrote no file at all: the old one is not its output
	}
	names, _ := filepath.Glob(filepath.Join(dir, "d.*.csv"))
	sort.Slice(names, func(i, j int) bool {
		var a, b int
		fmt.Sscanf(filepath.Base(names[i]), "d.%d.csv", &a)
		fmt.Sscanf(filepath.Base(names[j]), "d.%d.csv", &b)
		return a < b
	})
	var files []string
	var fileRecs [][][]string
	for i, n := range names {
		var k int
		fmt.Sscanf(filepath.Base(n), "d.%d.csv", &k)
		b, _ := os.ReadFile(n)
		r := csv.NewReader(bytes.NewReader(b))
		r.FieldsPerRecord = -1
		rr, err := r.ReadAll()
		if err != nil || k != i {
			files = append(files, "X")
			continue
		}
		files = append(files, recsString(rr))
		fileRecs = append(fileRecs, rr)
	}
	// ConvertFromCSV (only meaningful when WriteCSV succeeded)
	conv := "-"
	var cdocs []string
	if werr == nil {
		var out bytes.Buffer
		cerr := ftdc.ConvertFromCSV(ctx, bucket, bytes.NewReader(text.Bytes()), &out)
		docs, rerr := iterDocs(ftdc.ReadStructuredMetrics(ctx, bytes.NewReader(out.Bytes())))
		cdocs = docs
		conv = fmt.Sprintf("%s%s[%s]", errStr(cerr), errStr(rerr), tableGroups(docs))
	}
	wrecs := recsString(recs)
	if werr != nil {
		wrecs = "" // what was written before the error is not part of the contract
	}
	o.emit(line, fmt.Sprintf("write=%s[%s] dump=%s[%s] conv=%s", errStr(werr), wrecs, errStr(derr), strings.Join(files, " | "), conv))
	o.nontrivial(sec[0][1])

	// ---- oracle (C18) ----
	ob := observeChunks(ctx, stream)
	if ob.err != nil || perr != nil {
		return
	}
	allHaveMetrics := len(ob.keys) > 0
	for _, ks := range ob.keys {
		if len(ks) == 0 {
			allHaveMetrics = false // a chunk without metrics has an empty header line: not judged here
		}
	}
	if derr == nil && allHaveMetrics {
		for i, fl := range files {
			if fl == "X" || fl == "" {
				o.violation(line, "a file DumpCSV wrote is empty or is not well-formed CSV (header + rows)", map[string]int{"file": i, "files": len(files)})
				return
			}
		}
	}
	// expected: rotate exactly when the number of metrics changes
	changes := 0
	for i := 1; i < len(ob.keys); i++ {
		if len(ob.keys[i]) != len(ob.keys[i-1]) {
			changes++
		}
	}
	if len(ob.keys) > 0 && derr == nil && len(names) != changes+1 && len(ob.keys[0]) != 0 {
		o.violation(line, "DumpCSV did not start a new file exactly when the number of metrics changed", map[string]int{"files": len(names), "changes": changes})
	}
	if (werr != nil) != (changes > 0) && len(ob.keys) > 0 && len(ob.keys[0]) != 0 {
		o.violation(line, "WriteCSV error does not coincide with a change of the number of metrics", map[string]interface{}{"err": fmt.Sprint(werr), "changes": changes})
	}
	if werr == nil && len(ob.keys) > 0 {
		// header = keys of the first chunk, one row per sample holding the integer-normalised values
		want := [][]string{ob.keys[0]}
		for ci := range ob.keys {
			for s := 0; s < ob.sizes[ci]; s++ {
				var row []string
				for m := range ob.keys[ci] {
					row = append(row, fmt.Sprint(ob.vals[ci][m][s]))
				}
				want = append(want, row)
			}
		}
		if len(ob.keys[0]) == 0 {
			return // a stream of metric-less documents: nothing to tabulate
		}
		if recsString(want) != recsString(recs) {
			o.violation(line, "CSV text is not header + one row of integer-normalised values per sample", nil)
			return
		}
		if derr == nil && len(names) == 1 && (len(fileRecs) != 1 || recsString(fileRecs[0]) != recsString(want)) {
			o.violation(line, "the file DumpCSV wrote is not header + one row per sample (it differs from WriteCSV's table of the same stream)", nil)
			return
		}
		// round trip: same keys, same integer table
		var gotRows [][]string
		var gotKeys []string
		for i, d := range cdocs {
			kids, _ := parseDocStrict(unhx(d))
			var ks, vs []string
			for _, l := range leavesOf(kids, nil, false, "") {
				ks = append(ks, strings.Join(l.Path, "."))
				vs = append(vs, fmt.Sprint(l.Val))
			}
			if i == 0 {
				gotKeys = ks
			} else if strings.Join(ks, "\x00") != strings.Join(gotKeys, "\x00") {
				o.violation(line, "converted stream changes keys between samples", nil)
				return
			}
			gotRows = append(gotRows, vs)
		}
		hasDot := false
		for _, k := range ob.keys[0] {
			if strings.Contains(k, ".") {
				hasDot = true
			}
		}
		_ = hasDot
		if len(gotRows) != len(want)-1 || strings.Join(gotKeys, "\x00") != strings.Join(ob.keys[0], "\x00") {
			o.violation(line, "CSV round trip lost rows or changed keys", map[string]interface{}{"rows": len(gotRows), "want": len(want) - 1, "keys": gotKeys, "wantkeys": ob.keys[0]})
			return
		}
		for i := range gotRows {
			if strings.Join(gotRows[i], ",") != strings.Join(want[i+1], ",") {
				o.violation(line, "CSV round trip changed the integer table", map[string]int{"row": i})
				return
			}
		}
	}
}

func noDatetime(ss []*Schema) bool {
	for _, s := range ss {
		if s.Tag == 0x09 || !noDatetime(s.Kids) {
			return false
		}
	}
	return true
}

// flat schemas whose keys are free of '.', so that keys survive as single top-level names
func genFlatSchema(rng *rand.Rand, meta bool) []*Schema {
	keys := []string{"a", "b", "c", "n", "x", "value"}
	if meta {
		keys = append(keys, "a,b", "q\"x", "nl\nx", " lead", "semi;colon", "#conns", "#", "x#y", "-", "'q", "\\.", "tab\there", "=1", "héllo")
	}
	rng.Shuffle(len(keys), func(i, j int) { keys[i], keys[j] = keys[j], keys[i] })
	n := 1 + rng.Intn(5)
	var out []*Schema
	for i := 0; i < n; i++ {
		for {
			s := leafSchema(rng, keys[i], 10)
			if s.Tag != 0x09 {
				out = append(out, s)
				break
			}
		}
	}
	return out
}

func streamCSV(o *Out, rng *rand.Rand, thorough bool, _ []string) {
	runStart = time.Now()
	n := 200
	if thorough {
		n = 5000
	}
	for i := 0; i < n; i++ {
		var stream []byte
		parts := 1
		if rng.Intn(4) == 0 {
			parts = 2 + rng.Intn(2)
		}
		for p := 0; p < parts; p++ {
			var schema []*Schema
			if rng.Intn(2) == 0 {
				schema = genFlatSchema(rng, rng.Intn(2) == 0)
			} else {
				for {
					schema = genSchema(rng, 0, 3, false, 9)
					if noDatetime(schema) {
						break
					}
				}
			}
			if rng.Intn(5) == 0 {
				// same-named sub-documents under different parents, nothing between them: {p:{ops:{r,w}}, s:{ops:{r,w}}, total}
				leaf := func(k string) *Schema { return &Schema{Key: k, Tag: 0x12, Gen: int64Gen(rng)} }
				inner := func() *Schema {
					return &Schema{Key: []string{"ops", "n", "x"}[rng.Intn(3)], Tag: 0x03, Kids: []*Schema{leaf("reads"), leaf("writes")}}
				}
				a, b := inner(), inner()
				b.Key = a.Key
				schema = []*Schema{{Key: "primary", Tag: 0x03, Kids: []*Schema{a}}, {Key: "secondary", Tag: 0x03, Kids: []*Schema{b}}, leaf("total")}
				if rng.Intn(2) == 0 {
					schema = []*Schema{{Key: "top", Tag: 0x03, Kids: schema[:2]}, leaf("total")} // one level deeper
				}
			}
			docs := genDocs(rng, schema, 1+rng.Intn(8))
			stream = append(stream, collect(ctors[1+rng.Intn(4)], 1+rng.Intn(4), nil, docs)...)
		}
		// a table whose only column has the empty name has a header of one empty field: encoding/csv writes it as
		// an empty line, which every CSV reader skips (external behaviour, outside the property): not generated
		degenerate := false
		ctx, cancel := context.WithCancel(context.Background())
		for _, ks := range observeChunks(ctx, stream).keys {
			if len(ks) == 1 && ks[0] == "" {
				degenerate = true
			}
		}
		cancel()
		if degenerate {
			o.count("skipped-single-empty-column")
			continue
		}
		run(o, fmt.Sprintf("csv %d %s | %s", 1+rng.Intn(5), hx(stream), inflateTable(stream)))
	}
}
