package main

// Process isolation for cases that may crash or hang the process (C04, C05, C06, C16):
// the parent feeds case lines to a child `corr child`, one at a time with a watchdog. A child
// that dies or does not answer in time yields the observation `panic` / `hang` for that case
// (and a property violation), and is restarted for the remaining cases.

import (
	"bufio"
	"encoding/json"
	"fmt"
	"io"
	"os"
	"os/exec"
	"strings"
	"time"
)

type memOut struct {
	Impl       [][2]string
	Oracle     []string
	Nontrivial []string
	Counts     []string
}

func childLoop() {
	in := bufio.NewReaderSize(os.Stdin, 1<<24)
	out := bufio.NewWriter(os.Stdout)
	for {
		line, err := in.ReadString('\n')
		if len(line) > 0 {
			line = strings.TrimRight(line, "\n")
			m := &memOut{}
			o := &Out{mem: m, stats: map[string]int{}, seen: map[string]bool{}}
			run(o, line)
			b, _ := json.Marshal(m)
			out.Write(b)
			out.WriteByte('\n')
			out.Flush()
		}
		if err != nil {
			return
		}
	}
}

type isolated struct {
	cmd     *exec.Cmd
	stdin   io.WriteCloser
	results chan string
	stderr  *strings.Builder
}

func startChild() *isolated {
	cmd := exec.Command(os.Args[0], "child")
	cmd.Env = append(os.Environ(), "GOMEMLIMIT=4GiB", "GOTRACEBACK=single")
	stdin, _ := cmd.StdinPipe()
	stdout, _ := cmd.StdoutPipe()
	var sb strings.Builder
	cmd.Stderr = &limitedWriter{w: &sb, max: 1 << 16}
	if err := cmd.Start(); err != nil {
		panic(err)
	}
	ch := make(chan string, 1)
	go func() {
		r := bufio.NewReaderSize(stdout, 1<<24)
		for {
			l, err := r.ReadString('\n')
			if len(l) > 0 && strings.HasSuffix(l, "\n") {
				ch <- l
			}
			if err != nil {
				close(ch)
				return
			}
		}
	}()
	return &isolated{cmd: cmd, stdin: stdin, results: ch, stderr: &sb}
}

type limitedWriter struct {
	w   *strings.Builder
	max int
}

func (l *limitedWriter) Write(p []byte) (int, error) {
	if l.w.Len() < l.max {
		l.w.Write(p)
	}
	return len(p), nil
}

func (c *isolated) kill() {
	c.stdin.Close()
	_ = c.cmd.Process.Kill()
	_ = c.cmd.Wait()
}

// runIsolated runs the lines in a child process; violations of "no panic, no hang" are recorded
// here. timeout is per case.
func runIsolated(o *Out, lines []string, timeout time.Duration) {
	var child *isolated
	defer func() {
		if child != nil {
			child.kill()
		}
	}()
	for _, line := range lines {
		if o.nOracle >= 12 {
			// enough counterexamples: do not spend a watchdog period on every remaining case
			o.count("stopped-after-12-violations")
			break
		}
		if child == nil {
			child = startChild()
		}
		if _, err := io.WriteString(child.stdin, line+"\n"); err != nil {
			child.kill()
			child = startChild()
			_, _ = io.WriteString(child.stdin, line+"\n")
		}
		select {
		case res, ok := <-child.results:
			if !ok {
				// child died on this case
				_ = child.cmd.Wait()
				tail := child.stderr.String()
				if len(tail) > 1500 {
					tail = tail[:1500]
				}
				o.emit(line, "panic")
				o.violation(line, "process crashed (panic in a library goroutine)", tail)
				o.count("isolated-crash")
				child = nil
				continue
			}
			var m memOut
			if err := json.Unmarshal([]byte(res), &m); err != nil {
				o.emit(line, "bad-child-answer")
				continue
			}
			for _, e := range m.Impl {
				o.emit(e[0], e[1])
			}
			for _, k := range m.Nontrivial {
				o.nontrivial(k)
			}
			for _, k := range m.Counts {
				o.count(k)
			}
			for _, r := range m.Oracle {
				fmt.Fprintln(o.oracle, r)
				o.nOracle++
			}
		case <-time.After(timeout):
			o.emit(line, "hang")
			o.violation(line, fmt.Sprintf("no answer within %s (a call blocks forever)", timeout), nil)
			o.count("isolated-hang")
			child.kill()
			child = nil
		}
	}
}
