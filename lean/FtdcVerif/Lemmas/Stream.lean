import FtdcVerif.Lemmas.Reader
import FtdcVerif.Lemmas.Collector
/-! Helper lemmas for streamed output (C09): serialised documents are framed documents; proper
prefixes of framed documents are incomplete tails. -/
namespace Ftdc

theorem rdLe_leN (k n : Nat) (h : n < 256 ^ k) : rdLe (leN k n) = n := by
  induction k generalizing n with
  | zero => simp at h; subst h; rfl
  | succ k ih =>
    simp only [leN, rdLe]
    have : n / 256 < 256 ^ k := by
      rw [Nat.div_lt_iff_lt_mul (by omega)]; rw [Nat.pow_succ] at h; exact h
    rw [ih _ this]; omega

theorem leN_length (k n : Nat) : (leN k n).length = k := by
  induction k generalizing n with
  | zero => rfl
  | succ k ih => simp [leN, ih]

theorem rdLe_le32 (n : Nat) (h : n < 2 ^ 32) : rdLe (le32 n) = n :=
  rdLe_leN 4 n (by simpa using h)

/-- a serialised document is exactly one framed document -/
theorem serDoc_wellFramed (d : BDoc) (h : (serDoc d).length < 2 ^ 31) : WellFramed (serDoc d) := by
  unfold serDoc at h ⊢
  simp only [] at h ⊢
  have hl : (le32 ((serElems d).length + 5) ++ serElems d ++ [0]).length = (serElems d).length + 5 := by
    simp [le32, leN_length]; omega
  refine ⟨by rw [hl]; omega, h, ?_⟩
  rw [hl]
  have ht : (le32 ((serElems d).length + 5) ++ serElems d ++ [0]).take 4 = le32 ((serElems d).length + 5) := by
    rw [List.append_assoc, List.take_append_of_le_length (by simp [le32, leN_length])]
    simp [le32, leN_length, List.take_of_length_le]
  rw [ht, rdLe_le32]
  rw [hl] at h; omega

/-- a proper, non-empty prefix of a framed document is an incomplete tail -/
theorem take_incomplete {db : Bytes} (h : WellFramed db) (k : Nat) (h0 : 0 < k) (hk : k < db.length) :
    Incomplete (db.take k) := by
  obtain ⟨h5, h31, hsz⟩ := h
  refine ⟨?_, ?_⟩
  · intro he; have := congrArg List.length he; simp only [List.length_take, List.length_nil] at this; omega
  · by_cases h4 : k < 4
    · left; simp; omega
    · right; right; right
      have : (db.take k).take 4 = db.take 4 := by
        rw [List.take_take]; congr 1; omega
      rw [this, hsz]; simp; omega


end Ftdc
