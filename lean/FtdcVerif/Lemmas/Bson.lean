import FtdcVerif.Model.Bson
import FtdcVerif.Lemmas.Stream
/-!
# The strict BSON parser reads back what the serialiser writes

`parseDoc (serDoc d) = some d` for every well-formed tree: keys are NUL-free, nested documents
are shorter than 2^31 bytes, and every non-metric leaf `other t raw` carries a value the strict
parser itself accepts for type `t` (`OtherOk`; shown for strings, null, ObjectID, … below).
-/
namespace Ftdc

theorem takeN_app (a r : Bytes) : takeN a.length (a ++ r) = some (a, r) := by
  unfold takeN
  rw [if_neg (by simp)]
  simp

theorem takeN_app' (a r : Bytes) (n : Nat) (h : a.length = n) : takeN n (a ++ r) = some (a, r) := by
  subst h; exact takeN_app a r

def KeyOk (k : Bytes) : Prop := ∀ b ∈ k, b ≠ 0

theorem cstring_append (k r : Bytes) (h : KeyOk k) : cstring (k ++ 0 :: r) = some (k, r) := by
  induction k with
  | nil => simp [cstring]
  | cons b k ih =>
    have hb : b ≠ 0 := h b (List.mem_cons_self ..)
    have hk : KeyOk k := fun x hx => h x (List.mem_cons_of_mem _ hx)
    simp only [List.cons_append, cstring, hb, if_false, ih hk]

theorem rdLe_le64 (n : Nat) (h : n < 2 ^ 64) : rdLe (le64 n) = n :=
  rdLe_leN 8 n (by have : (256 : Nat) ^ 8 = 2 ^ 64 := by decide
                   omega)

theorem le32_length (n : Nat) : (le32 n).length = 4 := leN_length 4 n
theorem le64_length (n : Nat) : (le64 n).length = 8 := leN_length 8 n

/-- a non-metric leaf the strict parser accepts and reads back, whatever follows it -/
def OtherOk (t : Nat) (raw : Bytes) : Prop :=
  t ≠ 0 ∧ ∀ fuel rest, parseVal (fuel + 1) t (raw ++ rest) = some (.other t raw, rest)

mutual
def WFVal : BVal → Prop
  | .doc d => WFDoc d ∧ (serDoc d).length < 2 ^ 31
  | .arr d => WFDoc d ∧ (serDoc d).length < 2 ^ 31
  | .other t raw => OtherOk t raw
  | _ => True
def WFDoc : BDoc → Prop
  | .nil => True
  | .cons k v r => KeyOk k ∧ WFVal v ∧ WFDoc r
end

mutual
/-- fuel the parser needs -/
def needVal : BVal → Nat
  | .doc d => needElems d + 2
  | .arr d => needElems d + 2
  | _ => 1
def needElems : BDoc → Nat
  | .nil => 1
  | .cons _ v r => 1 + max (needVal v) (needElems r)
end

theorem serDoc_length (d : BDoc) : (serDoc d).length = (serElems d).length + 5 := by
  simp [serDoc, le32_length]; omega

mutual
theorem needVal_le : (v : BVal) → needVal v ≤ (serVal v).length + 1
  | .double _ => by simp [needVal]
  | .doc d => by
    have := needElems_le d
    simp only [needVal, serVal, serDoc_length]; omega
  | .arr d => by
    have := needElems_le d
    simp only [needVal, serVal, serDoc_length]; omega
  | .bool _ => by simp [needVal]
  | .datetime _ => by simp [needVal]
  | .int32 _ => by simp [needVal]
  | .timestamp _ _ => by simp [needVal]
  | .int64 _ => by simp [needVal]
  | .other _ _ => by simp [needVal]
theorem needElems_le : (d : BDoc) → needElems d ≤ (serElems d).length + 1
  | .nil => by simp [needElems, serElems]
  | .cons k v r => by
    have h1 := needVal_le v
    have h2 := needElems_le r
    simp only [needElems, serElems, List.length_append, List.length_cons]
    omega
end

theorem parseDocF_serDoc_of (d : BDoc) (fuel : Nat) (hl : (serDoc d).length < 2 ^ 31)
    (h : parseElems fuel (serElems d ++ [0]) = some d) : parseDocF (fuel + 1) (serDoc d) = some d := by
  have hlen := serDoc_length d
  unfold parseDocF
  rw [if_neg (by omega)]
  have h4 : (serDoc d).take 4 = le32 ((serElems d).length + 5) := by
    simp [serDoc, List.take_append_of_le_length, le32_length]
  have hd : (serDoc d).drop 4 = serElems d ++ [0] := by
    simp only [serDoc]
    rw [List.append_assoc, List.drop_left' (le32_length _)]
  rw [h4, rdLe_le32 _ (by omega), if_neg (by omega), hd]
  exact h

mutual
theorem parseVal_ser : (v : BVal) → (fuel : Nat) → (rest : Bytes) → WFVal v → needVal v ≤ fuel →
    parseVal fuel v.tag (serVal v ++ rest) = some (v, rest)
  | .double b, fuel + 1, rest, _, _ => by
    simp only [BVal.tag, serVal, parseVal]
    rw [takeN_app' _ _ 8 (le64_length _)]
    simp [rdLe_le64 _ b.isLt]
  | .bool b, fuel + 1, rest, _, _ => by
    cases b <;> simp [BVal.tag, serVal, parseVal]
  | .datetime b, fuel + 1, rest, _, _ => by
    simp only [BVal.tag, serVal, parseVal]
    rw [takeN_app' _ _ 8 (le64_length _)]
    simp [rdLe_le64 _ b.isLt]
  | .int32 b, fuel + 1, rest, _, _ => by
    simp only [BVal.tag, serVal, parseVal]
    rw [takeN_app' _ _ 4 (le32_length _)]
    simp [rdLe_le32 _ (by have := b.isLt; omega)]
  | .int64 b, fuel + 1, rest, _, _ => by
    simp only [BVal.tag, serVal, parseVal]
    rw [takeN_app' _ _ 8 (le64_length _)]
    simp [rdLe_le64 _ b.isLt]
  | .timestamp t i, fuel + 1, rest, _, _ => by
    simp only [BVal.tag, serVal, parseVal]
    rw [takeN_app' _ _ 8 (by simp [le32_length])]
    have h1 : (le32 i.toNat ++ le32 t.toNat).take 4 = le32 i.toNat := by
      simp [List.take_append_of_le_length, le32_length]
    have h2 : (le32 i.toNat ++ le32 t.toNat).drop 4 = le32 t.toNat := by
      rw [List.drop_left' (le32_length _)]
    simp [h1, h2, rdLe_le32 _ (show i.toNat < 2 ^ 32 from i.isLt), rdLe_le32 _ (show t.toNat < 2 ^ 32 from t.isLt)]
  | .other t raw, fuel + 1, rest, h, _ => by
    simp only [BVal.tag, serVal]
    exact h.2 fuel rest
  | .doc d, fuel + 1, rest, h, hf => by
    obtain ⟨hw, hl⟩ := h
    have hlen := serDoc_length d
    simp only [needVal] at hf
    obtain ⟨f', rfl⟩ : ∃ f', fuel = f' + 1 := ⟨fuel - 1, by omega⟩
    have ih := parseElems_ser d f' hw (by omega)
    have hdoc := parseDocF_serDoc_of d f' hl ih
    have h4 : takeN 4 (serDoc d ++ rest) = some (le32 ((serElems d).length + 5), (serElems d ++ [0]) ++ rest) := by
      have : serDoc d ++ rest = le32 ((serElems d).length + 5) ++ ((serElems d ++ [0]) ++ rest) := by
        simp [serDoc]
      rw [this]; exact takeN_app' _ _ 4 (le32_length _)
    have hno : ¬ ((serElems d).length + 5 < 5 ∨ (serElems d).length + 5 ≥ 2 ^ 31) := by omega
    have ht : takeN ((serElems d).length + 5) (serDoc d ++ rest) = some (serDoc d, rest) :=
      takeN_app' _ _ _ hlen
    have hr := rdLe_le32 _ (show (serElems d).length + 5 < 2 ^ 32 by omega)
    simp only [BVal.tag, serVal, parseVal]
    simp [h4, hr, ht, hdoc]
    omega
  | .arr d, fuel + 1, rest, h, hf => by
    obtain ⟨hw, hl⟩ := h
    have hlen := serDoc_length d
    simp only [needVal] at hf
    obtain ⟨f', rfl⟩ : ∃ f', fuel = f' + 1 := ⟨fuel - 1, by omega⟩
    have ih := parseElems_ser d f' hw (by omega)
    have hdoc := parseDocF_serDoc_of d f' hl ih
    have h4 : takeN 4 (serDoc d ++ rest) = some (le32 ((serElems d).length + 5), (serElems d ++ [0]) ++ rest) := by
      have : serDoc d ++ rest = le32 ((serElems d).length + 5) ++ ((serElems d ++ [0]) ++ rest) := by
        simp [serDoc]
      rw [this]; exact takeN_app' _ _ 4 (le32_length _)
    have hno : ¬ ((serElems d).length + 5 < 5 ∨ (serElems d).length + 5 ≥ 2 ^ 31) := by omega
    have ht : takeN ((serElems d).length + 5) (serDoc d ++ rest) = some (serDoc d, rest) :=
      takeN_app' _ _ _ hlen
    have hr := rdLe_le32 _ (show (serElems d).length + 5 < 2 ^ 32 by omega)
    simp only [BVal.tag, serVal, parseVal]
    simp [h4, hr, ht, hdoc]
    omega
  | .double _, 0, _, _, hf => by simp [needVal] at hf
  | .bool _, 0, _, _, hf => by simp [needVal] at hf
  | .datetime _, 0, _, _, hf => by simp [needVal] at hf
  | .int32 _, 0, _, _, hf => by simp [needVal] at hf
  | .int64 _, 0, _, _, hf => by simp [needVal] at hf
  | .timestamp _ _, 0, _, _, hf => by simp [needVal] at hf
  | .other _ _, 0, _, _, hf => by simp [needVal] at hf
  | .doc _, 0, _, _, hf => by simp [needVal] at hf
  | .arr _, 0, _, _, hf => by simp [needVal] at hf
theorem parseElems_ser : (d : BDoc) → (fuel : Nat) → WFDoc d → needElems d ≤ fuel →
    parseElems fuel (serElems d ++ [0]) = some d
  | .nil, fuel + 1, _, _ => by simp [serElems, parseElems]
  | .nil, 0, _, hf => by simp [needElems] at hf
  | .cons k v r, 0, _, hf => by simp [needElems] at hf
  | .cons k v r, fuel + 1, h, hf => by
    obtain ⟨hk, hv, hr⟩ := h
    simp only [needElems] at hf
    have hvt : v.tag ≠ 0 := by
      cases v <;> simp [BVal.tag]
      exact hv.1
    have ihv := parseVal_ser v fuel (serElems r ++ [0]) hv (by omega)
    have ihr := parseElems_ser r fuel hr (by omega)
    have e : serElems (.cons k v r) ++ [0] = v.tag :: (k ++ 0 :: (serVal v ++ (serElems r ++ [0]))) := by
      simp [serElems]
    rw [e]
    simp only [parseElems, hvt, if_false, cstring_append _ _ hk, ihv, ihr]
end

/-- **the strict parser reads back what the serialiser writes** -/
theorem parseDoc_serDoc (d : BDoc) (hw : WFDoc d) (hl : (serDoc d).length < 2 ^ 31) :
    parseDoc (serDoc d) = some d := by
  unfold parseDoc
  have := needElems_le d
  have hlen := serDoc_length d
  have e : (serDoc d).length + 2 = ((serDoc d).length + 1) + 1 := by omega
  rw [e]
  exact parseDocF_serDoc_of d _ hl (parseElems_ser d _ hw (by omega))

/-! ### non-metric leaves the parser accepts (`OtherOk` is satisfiable for every common type) -/

/-- string / JavaScript / symbol values: int32 length (incl. the NUL), the bytes, NUL -/
theorem otherOk_string (t : Nat) (ht : t = 0x02 ∨ t = 0x0D ∨ t = 0x0E) (str : Bytes)
    (hl : str.length + 1 < 2 ^ 31) : OtherOk t (le32 (str.length + 1) ++ str ++ [0]) := by
  refine ⟨by omega, ?_⟩
  intro fuel rest
  have hlp : lpString (le32 (str.length + 1) ++ str ++ [0] ++ rest) =
      some (le32 (str.length + 1) ++ str ++ [0], rest) := by
    unfold lpString
    have e : le32 (str.length + 1) ++ str ++ [0] ++ rest = le32 (str.length + 1) ++ ((str ++ [0]) ++ rest) := by
      simp
    rw [e, takeN_app' _ _ 4 (le32_length _)]
    simp only [rdLe_le32 _ (show str.length + 1 < 2 ^ 32 by omega)]
    rw [if_neg (by omega), takeN_app' _ _ _ (by simp)]
    simp
  have hlp' : lpString (le32 (str.length + 1) ++ (str ++ 0 :: rest)) =
      some (le32 (str.length + 1) ++ (str ++ [0]), rest) := by
    have := hlp; simp only [List.append_assoc, List.singleton_append] at this; exact this
  rcases ht with h | h | h <;> subst h <;> simp [parseVal, hlp']

/-- null, undefined, min key, max key: no value bytes -/
theorem otherOk_empty (t : Nat) (ht : t = 0x06 ∨ t = 0x0A ∨ t = 0xFF ∨ t = 0x7F) : OtherOk t [] := by
  refine ⟨by omega, ?_⟩
  intro fuel rest
  rcases ht with h | h | h | h <;> subst h <;> simp [parseVal]

/-- ObjectID: twelve bytes -/
theorem otherOk_objectID (raw : Bytes) (hl : raw.length = 12) : OtherOk 0x07 raw := by
  refine ⟨by omega, ?_⟩
  intro fuel rest
  simp [parseVal, takeN_app' raw rest 12 hl]

/-- decimal128: sixteen bytes -/
theorem otherOk_decimal (raw : Bytes) (hl : raw.length = 16) : OtherOk 0x13 raw := by
  refine ⟨by omega, ?_⟩
  intro fuel rest
  simp [parseVal, takeN_app' raw rest 16 hl]

end Ftdc
