package main

import (
	"bytes"
	"encoding/binary"
	"fmt"
	"math/rand"
	"reflect"
	"strings"

	"github.com/evergreen-ci/birch"
	"github.com/mongodb/ftdc"
	"go.mongodb.org/mongo-driver/bson"
)

func init() {
	commands["uhist"] = cmdUHist
	streams["uncompressed"] = streamUncompressed
}

func newUncompressed(ctor, flavour string, n int, w *bytes.Buffer) ftdc.Collector {
	j := flavour == "json"
	switch ctor {
	case "plain":
		if j {
			return ftdc.NewUncompressedCollectorJSON(n)
		}
		return ftdc.NewUncompressedCollectorBSON(n)
	case "streaming":
		if j {
			return ftdc.NewStreamingUncompressedCollectorJSON(n, w)
		}
		return ftdc.NewStreamingUncompressedCollectorBSON(n, w)
	case "streamingDynamic":
		if j {
			return ftdc.NewStreamingDynamicUncompressedCollectorJSON(n, w)
		}
		return ftdc.NewStreamingDynamicUncompressedCollectorBSON(n, w)
	}
	panic("ctor " + ctor)
}

// splitOutput parses collector output of one flavour into documents (hex of BSON) or returns ok=false.
// For JSON every line must parse as Extended JSON; the documents are then compared by value.
func splitBSON(out []byte) ([]string, bool) {
	var docs []string
	for len(out) > 0 {
		if len(out) < 4 {
			return docs, false
		}
		l := int(int32(binary.LittleEndian.Uint32(out)))
		if l < 5 || l > len(out) {
			return docs, false
		}
		if _, err := parseDocStrict(out[:l]); err != nil {
			return docs, false
		}
		docs = append(docs, hx(out[:l]))
		out = out[l:]
	}
	return docs, true
}

func normJSONValue(v interface{}) interface{} {
	switch x := v.(type) {
	case int32:
		return float64(x)
	case int64:
		return float64(x)
	case float64:
		return x
	case bson.D:
		out := bson.D{}
		for _, e := range x {
			out = append(out, bson.E{Key: e.Key, Value: normJSONValue(e.Value)})
		}
		return out
	case bson.A:
		out := bson.A{}
		for _, e := range x {
			out = append(out, normJSONValue(e))
		}
		return out
	}
	return v
}

// jsonLines: every line parses; returns the key order of each line and the parsed values
func jsonLines(out []byte) ([]string, []bson.D, bool) {
	if len(out) == 0 {
		return nil, nil, true
	}
	if out[len(out)-1] != '\n' {
		return nil, nil, false
	}
	var keys []string
	var vals []bson.D
	for _, ln := range bytes.Split(out[:len(out)-1], []byte("\n")) {
		var d bson.D
		if err := bson.UnmarshalExtJSON(ln, false, &d); err != nil {
			return keys, vals, false
		}
		var ks []string
		for _, e := range d {
			ks = append(ks, hx([]byte(e.Key)))
		}
		keys = append(keys, "{"+strings.Join(ks, ",")+"}")
		vals = append(vals, d)
	}
	return keys, vals, true
}

func topKeys(docHex string) string {
	kids, err := parseDocStrict(unhx(docHex))
	if err != nil {
		return "X"
	}
	var ks []string
	for _, k := range kids {
		ks = append(ks, hx([]byte(k.Key)))
	}
	return "{" + strings.Join(ks, ",") + "}"
}

// uhist <ctor> <flavour> <N> | <pool> | <ops>   (ops as in hist)
func cmdUHist(o *Out, line string, f []string) {
	sec := sections(f)
	ctor, flavour, n := sec[0][0], sec[0][1], int(atoi64(sec[0][2]))
	var pool [][]byte
	for _, h := range sec[1] {
		pool = append(pool, unhx(h))
	}
	var w bytes.Buffer
	c := newUncompressed(ctor, flavour, n, &w)
	render := func(out []byte) (string, bool) {
		if flavour == "bson" {
			docs, ok := splitBSON(out)
			return strings.Join(docs, ","), ok
		}
		keys, _, ok := jsonLines(out)
		return strings.Join(keys, ","), ok
	}
	var obs []string
	var expect []string // documents expected in writer+Resolve, as hex (metadata included at each Resolve/flush)
	violated := false
	bad := func(what string, detail interface{}) {
		if !violated {
			o.violation(line, what, detail)
			violated = true
		}
	}
	var accepted []string // accepted and not discarded, in order
	writtenSamples := 0
	countSamples := func(out []byte, meta string) int {
		if flavour == "bson" {
			docs, _ := splitBSON(out)
			k := 0
			for _, d := range docs {
				if d != meta {
					k++
				}
			}
			return k
		}
		keys, _, _ := jsonLines(out)
		return len(keys)
	}
	_ = expect
	meta := ""
	// metadata documents of the pool (indices 6 and up), as hex and as decoded values for the JSON flavour
	var metaVals []interface{}
	for _, mraw := range pool[6:8] {
		var d bson.D
		_ = bson.Unmarshal(mraw, &d)
		metaVals = append(metaVals, normJSONValue(d))
	}
	// which metadata documents of the pool occur in a piece of output, in order (hex of the pool entry)
	metaDocsIn := func(out []byte) []string {
		var found []string
		if flavour == "bson" {
			docs, _ := splitBSON(out)
			for _, d := range docs {
				for _, mraw := range pool[6:8] {
					if d == hx(mraw) {
						found = append(found, d)
					}
				}
			}
			return found
		}
		_, vals, _ := jsonLines(out)
		for _, v := range vals {
			for i, mv := range metaVals {
				if reflect.DeepEqual(normJSONValue(v), mv) {
					found = append(found, hx(pool[6+i]))
				}
			}
		}
		return found
	}
	// oracle (C17, C11-like): a metadata document in the output is the one that is set at that moment
	checkMeta := func(out []byte, where string) {
		if meta != "" && len(out) > 0 && len(metaDocsIn(out)) == 0 {
			bad("the output does not carry the metadata document that is set", map[string]string{"where": where})
			return
		}
		for _, m := range metaDocsIn(out) {
			if m != meta {
				bad("the output carries a metadata document that is not the one currently set", map[string]string{"where": where})
				return
			}
		}
	}
	// payloads returned by Resolve stay what they were: they are kept (not copied) and compared with a copy at the end
	var held, heldCopies [][]byte
	for opIdx, op := range sec[2] {
		wbOp := w.Len()
		switch op[0] {
		case 'a':
			raw := pool[int(atoi64(op[1:]))]
			d, _ := birch.ReadDocument(raw)
			wb := w.Len()
			if err := c.Add(d); err != nil {
				obs = append(obs, "e")
			} else {
				obs = append(obs, "o")
				accepted = append(accepted, hx(raw))
			}
			if w.Len() != wb {
				writtenSamples = -1 // recomputed below
			}
		case 'x':
			obs = append(obs, map[bool]string{true: "o", false: "e"}[c.Add(map[string]string{"a": "b"}) == nil])
		case 'r':
			out, err := c.Resolve()
			if err != nil {
				obs = append(obs, "Rerr")
			} else {
				s, ok := render(out)
				obs = append(obs, fmt.Sprintf("R%s[%s]", map[bool]string{true: "", false: "!"}[ok], s))
				checkMeta(out, fmt.Sprintf("Resolve at op %d", opIdx))
				if len(out) > 0 && len(held) < 64 {
					held = append(held, out)
					heldCopies = append(heldCopies, append([]byte{}, out...))
				}
			}
		case 'z':
			// samples pending now are discarded
			pend := c.Info().SampleCount
			if pend <= len(accepted) {
				accepted = accepted[:len(accepted)-pend]
			}
			c.Reset()
			obs = append(obs, "z")
		case 'f':
			err := ftdc.FlushCollector(c, &w)
			obs = append(obs, "F"+errStr(err))
		case 'm':
			d, _ := birch.ReadDocument(pool[int(atoi64(op[1:]))])
			if c.SetMetadata(d) == nil {
				meta = hx(pool[int(atoi64(op[1:]))])
			}
			obs = append(obs, "m")
		case 'M':
			// metadata the collector cannot read: refused, and what was set before stays
			if c.SetMetadata(map[string]string{"not": "a document"}) != nil {
				obs = append(obs, "Me")
			} else {
				obs = append(obs, "Mo")
			}
		case 'i':
			info := c.Info()
			obs = append(obs, fmt.Sprintf("I%d,%d", info.MetricsCount, info.SampleCount))
		}
		if op[0] != 'm' && w.Len() > wbOp {
			checkMeta(w.Bytes()[wbOp:], fmt.Sprintf("flush during op %d (%s)", opIdx, op))
		}
	}
	final := "err"
	var fin []byte
	if out, err := c.Resolve(); err == nil {
		fin = out
		checkMeta(out, "final Resolve")
		s, ok := render(out)
		final = fmt.Sprintf("%s[%s]", map[bool]string{true: "", false: "!"}[ok], s)
	}
	for i := range held {
		if !bytes.Equal(held[i], heldCopies[i]) {
			bad("bytes returned by an earlier Resolve were modified by a later operation on the collector", map[string]int{"resolve": i, "length": len(held[i])})
			break
		}
	}
	ws, wok := render(w.Bytes())
	o.emit(line, fmt.Sprintf("%s final=%s writer=%s[%s]", strings.Join(obs, " "), final, map[bool]string{true: "", false: "!"}[wok], ws))
	o.nontrivial(line)
	o.count("uhist-" + ctor + "-" + flavour)
	_ = writtenSamples
	_ = countSamples

	// ---- oracle (C17): writer ++ Resolve = every accepted, not discarded sample, in order, one stable encoding ----
	all := append(append([]byte{}, w.Bytes()...), fin...)
	if flavour == "bson" {
		docs, ok := splitBSON(all)
		if !ok {
			bad("BSON flavour output is not a sequence of BSON documents", nil)
			return
		}
		// remove metadata documents: they may precede the samples of every Resolve/flush. A metadata document
		// identical to a sample cannot be told apart, so pools keep them distinct.
		var samples []string
		for _, d := range docs {
			isMeta := false
			for _, mraw := range pool[6:8] {
				isMeta = isMeta || d == hx(mraw)
			}
			if isMeta {
				continue
			}
			samples = append(samples, d)
		}
		if strings.Join(samples, ",") != strings.Join(accepted, ",") {
			bad("BSON flavour output differs from the accepted samples (byte-identical, in order, once)",
				map[string]int{"got": len(samples), "accepted": len(accepted)})
		}
	} else {
		_, vals, ok := jsonLines(all)
		if !ok {
			bad("JSON flavour output is not one parseable Extended-JSON document per line", nil)
			return
		}
		var want []bson.D
		for _, a := range accepted {
			var d bson.D
			if err := bson.Unmarshal(unhx(a), &d); err != nil {
				return
			}
			want = append(want, d)
		}
		var got []bson.D
		for _, v := range vals {
			isMeta := false
			for _, mv := range metaVals {
				isMeta = isMeta || reflect.DeepEqual(normJSONValue(v), mv)
			}
			if isMeta {
				continue
			}
			got = append(got, v)
		}
		{
			if len(got) != len(want) {
				bad("JSON flavour output has a different number of sample lines than accepted samples", map[string]int{"got": len(got), "accepted": len(want)})
				return
			}
			for i := range got {
				if !reflect.DeepEqual(normJSONValue(got[i]), normJSONValue(want[i])) {
					bad(fmt.Sprintf("JSON line %d differs from the accepted sample", i), nil)
					return
				}
			}
		}
	}
	// batch size enforced: no Resolve/flush unit holds more than N samples is observable through Info
	if c.Info().SampleCount > n {
		bad("more samples pending than the configured batch size", c.Info().SampleCount)
	}
}

// the oracle identifies metadata documents by equality with the last one set: skip when it was set twice
func metaEverChanged(ops []string) bool {
	k := 0
	for _, op := range ops {
		if op[0] == 'm' {
			k++
		}
	}
	return k > 1
}

func streamUncompressed(o *Out, rng *rand.Rand, thorough bool, _ []string) {
	// pool: two schemas by top-level field count (what the uncompressed collector checks), nested metric schemas for the
	// schema-aware variant, and a metadata document that is distinct from every sample
	pool := []string{
		hx(docBytes(schemaDoc("A", 1))), hx(docBytes(schemaDoc("A", 2))), hx(docBytes(schemaDoc("B", 3))),
		hx(docBytes(schemaDoc("D", 4))), hx(docBytes(schemaDoc("E", 5))),
		hx(docBytes([]*Node{{Key: "s", Tag: 0x02, Raw: append(u32(2), 'x', 0)}, i64n("v", 7)})),
		hx(docBytes([]*Node{i64n("host", 99), {Key: "name", Tag: 0x02, Raw: append(u32(3), 'h', '1', 0)}, i64n("x", 1)})), // metadata
		hx(docBytes([]*Node{i64n("host", 77), {Key: "name", Tag: 0x02, Raw: append(u32(3), 'h', '2', 0)}, i64n("x", 2)})), // another metadata
		// the same metric keys as document 5 (so the schema-aware wrapper sees no change) but another number of
		// top-level fields (so the wrapped uncompressed collector refuses it)
		hx(docBytes([]*Node{i64n("v", 8)})),
		// an empty sample document (no fields at all): a sample like any other
		hx(docBytes(nil)),
	}
	alphabet := []string{"a0", "a1", "a2", "a3", "a4", "a5", "a8", "a9", "x", "r", "z", "f", "m6", "m7", "M", "i"}
	maxLen := 3
	if thorough {
		maxLen = 4
	}
	var rec func(prefix []string)
	rec = func(prefix []string) {
		if len(prefix) > 0 {
			for _, ctor := range []string{"plain", "streaming", "streamingDynamic"} {
				for _, fl := range []string{"bson", "json"} {
					for _, n := range []int{1, 2} {
						run(o, fmt.Sprintf("uhist %s %s %d | %s | %s", ctor, fl, n, strings.Join(pool, " "), strings.Join(prefix, " ")))
					}
				}
			}
		}
		if len(prefix) == maxLen {
			return
		}
		for _, a := range alphabet {
			rec(append(append([]string{}, prefix...), a))
		}
	}
	rec(nil)
	// metadata replaced between two resolves / flushes
	for _, ctor := range []string{"plain", "streaming", "streamingDynamic"} {
		for _, fl := range []string{"bson", "json"} {
			for _, h := range []string{"m6 a0 r m7 a1 r", "m6 a0 f m7 a1 f", "m6 a0 a1 a0 m7 a1 a0 a1 r", "m6 a0 r z m7 a1 r", "a0 r m6 a1 r m7 r", "m6 a0 f m7 a2 a2 f r"} {
				for _, n := range []int{1, 2, 3} {
					run(o, fmt.Sprintf("uhist %s %s %d | %s | %s", ctor, fl, n, strings.Join(pool, " "), h))
				}
			}
		}
	}
	uhistFaultCases(o, rng, thorough, pool)
	nr := 300
	if thorough {
		nr = 5000
	}
	for i := 0; i < nr; i++ {
		L := 10 + rng.Intn(60)
		var ops []string
		cur := rng.Intn(5)
		for k := 0; k < L; k++ {
			switch r := rng.Intn(20); {
			case r < 14:
				if rng.Intn(5) == 0 {
					cur = rng.Intn(6)
				}
				ops = append(ops, fmt.Sprintf("a%d", cur))
			case r < 15:
				ops = append(ops, "x")
			case r < 16:
				ops = append(ops, "r")
			case r < 17:
				ops = append(ops, "z")
			case r < 18:
				ops = append(ops, "f")
			case r < 19 && (k < 3 || rng.Intn(3) == 0):
				ops = append(ops, []string{"m6", "m7"}[rng.Intn(2)])
			default:
				ops = append(ops, "i")
			}
		}
		run(o, fmt.Sprintf("uhist %s %s %d | %s | %s", []string{"plain", "streaming", "streamingDynamic"}[rng.Intn(3)],
			[]string{"bson", "json"}[rng.Intn(2)], 1+rng.Intn(4), strings.Join(pool, " "), strings.Join(ops, " ")))
	}
}
