import FtdcVerif.Model.Reader
/-
  The reader views built on the chunk table: `ReadMetrics`, `ReadStructuredMetrics`,
  `Chunk.Iterator`, `Chunk.StructuredIterator`, `ReadMatrix` (bson_matrix.go), `ReadSeries`
  (iterator_matrix.go), and the CSV record (csv.go).
-/
namespace Ftdc

def arrayOf (vs : List BVal) : BDoc :=
  BDoc.ofList ((List.range vs.length).zip vs |>.map fun (i, v) => (decimal i, v))

/-- one matrix element per metric; a timestamp consumes two metrics (`rehydrateMatrix`) -/
def matrixElems : Nat → List Metric → List (Bytes × BVal)
  | 0, _ => []
  | _, [] => []
  | fuel+1, m :: rest =>
    match m.ty with
    | .timestamp =>
      let inc := match rest with
        | m2 :: _ => m2.values
        | [] => []
      let vals := (m.values.zip inc).map fun (t, i) => BVal.timestamp (t.truncate 32) (i.truncate 32)
      (m.key, .arr (arrayOf vals)) :: matrixElems fuel (rest.drop 1)
    | ty =>
      let vals := m.values.map fun v => match ty with
        | .bool => BVal.bool (v != 0#64)
        | .double => .double v
        | .int32 => .int32 (v.truncate 32)
        | .datetime => .datetime (restoreDT v)
        | _ => .int64 v
      (m.key, .arr (arrayOf vals)) :: matrixElems fuel rest

def Chunk.matrix (c : Chunk) : BDoc := BDoc.ofList (matrixElems (c.metrics.length + 1) c.metrics)

/-- `exportMatrix`/`getSeries`: one array per metric, timestamps stay two int64 series -/
def Chunk.series (c : Chunk) : BDoc :=
  BDoc.ofList (c.metrics.map fun m =>
    (m.key, .arr (arrayOf (m.values.map fun v => match m.ty with
      | .bool => BVal.bool (v != 0#64)
      | .double => .double v
      | .int32 => .int32 (v.truncate 32)
      | .datetime => .datetime (restoreDT v)
      | _ => .int64 v))))

end Ftdc
