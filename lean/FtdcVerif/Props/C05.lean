import FtdcVerif.Lemmas.Pipeline
/-!
# C05 — a decoding error is never lost, whatever the goroutine schedule

`Pipeline` is the transition system of `ReadChunks`: the two producer goroutines and the
consumer, with the order of "record the error" and "close the channel" as program text.  The
theorem quantifies over every input (any length, any failure location) and every schedule (any
list of scheduler choices; a blocked choice is a no-op, so every interleaving of enabled steps
is some schedule).  The document, matrix and series iterators repeat the same close-after-add
shape one layer up (their worker reads the chunk iterator's `Err()` after its `Next()` returned
false, records it, then closes its own channel): `layer_above` states that composition.
-/
namespace Ftdc.Props.C05
open Ftdc.Pipeline

/-- **Err is non-nil once Next has returned false, for every failing input and every schedule**
(repaired ordering: the error is recorded before the channel is closed) -/
theorem err_never_lost (items : List Item) (sched : List Pid)
    (hfail : Fails items = true)
    (hnocancel : (run (init true items) sched).cancelled = false)
    (hfalse : (run (init true items) sched).sawFalse = true) :
    (run (init true items) sched).errSeen = true :=
  (run_inv (Fails items) sched _ (init_inv items)).seen hfalse hfail hnocancel

/-- **finding F6**: with the pinned commit's ordering (close in a defer, add afterwards) there is
a schedule on which the consumer sees `Next() == false` and `Err() == nil` for a failing input -/
theorem err_lost_before_fix :
    ∃ (items : List Item) (sched : List Pid),
      Fails items = true ∧ (run (init false items) sched).cancelled = false ∧
      (run (init false items) sched).sawFalse = true ∧ (run (init false items) sched).errSeen = false :=
  ⟨[.cut], [.d, .d, .c, .c, .u], by decide⟩

/-- the same for a decoding error in the second goroutine -/
theorem err_lost_before_fix_decode :
    ∃ (sched : List Pid),
      (run (init false [.bad]) sched).sawFalse = true ∧ (run (init false [.bad]) sched).errSeen = false :=
  ⟨[.d, .d, .c, .c, .u], by decide⟩

/-- why `err_never_lost` speaks of runs without cancellation, and what goes wrong if a goroutine
cancels the shared context BEFORE it registers its error (seeded change agent3-C05): the other
goroutine leaves through its `ctx.Done()` arm, closes the pipe, and the consumer sees `false` while
the error is not registered yet -/
theorem cancel_before_registration_loses_error :
    ∃ (sched : List Pid),
      (run (init true [.good, .good, .good, .cut]) sched).dFailed = true ∧
      (run (init true [.good, .good, .good, .cut]) sched).sawFalse = true ∧
      (run (init true [.good, .good, .good, .cut]) sched).errSeen = false :=
  ⟨[.d, .d, .c, .c, .d, .d, .c, .c, .d, .d, .c, .d, .cancel, .c, .c, .c, .u, .u, .u], by decide⟩

/-- **a layer above**: a worker that, after the lower iterator's `Next()` returned false, records
the lower `Err()` and only then closes its own channel hands the error on: if the lower layer
guarantees "false ⇒ error visible", so does the upper one.  (`lowerErr` is what `chunks.Err()`
returned, `recorded` what the worker added, `closedAfter` that the close follows the add.) -/
theorem layer_above (lowerFalse lowerErr recorded upperClosed upperSeen : Bool)
    (hlower : lowerFalse = true → lowerErr = true)           -- guarantee of the layer below
    (hworker : upperClosed = true → lowerFalse = true ∧ recorded = lowerErr)   -- close only after add
    (hconsumer : upperSeen = recorded) (hc : upperClosed = true) : upperSeen = true := by
  obtain ⟨h1, h2⟩ := hworker hc
  rw [hconsumer, h2]; exact hlower h1

/-- errors recorded by different goroutines are both retained, and stay (the catcher only grows):
in every reachable state, an error that is in the catcher is still in it after any step -/
theorem errors_retained (items : List Item) (sched : List Pid) (p : Pid) (s' : St)
    (hs : step (run (init true items) sched) p = some s') :
    ((run (init true items) sched).dErrIn = true → s'.dErrIn = true) ∧
    ((run (init true items) sched).cErrIn = true → s'.cErrIn = true) :=
  flags_monotone (Fails items) _ s' p (run_inv (Fails items) sched _ (init_inv items)) hs

/-! non-vacuity: a failing input, a full schedule, the consumer reaches false and sees the error -/
example : (run (init true [.good, .bad]) [.d, .d, .c, .c, .u, .d, .d, .c, .c, .c, .u]).sawFalse = true ∧
          (run (init true [.good, .bad]) [.d, .d, .c, .c, .u, .d, .d, .c, .c, .c, .u]).errSeen = true := by decide

end Ftdc.Props.C05

/-! ## a layer above, as a transition system

The document, matrix and series iterators run one worker that, when the iterator below has ended,
records the lower `Err()` in its own catcher and closes its own pipe — in that order (`addFirst`;
the other order is the pinned commit's matrix worker, seeded change seed-C05-matrix-defer-order).
The consumer of the layer sees `Next() == false` when the pipe is closed and then reads `Err()`. -/
namespace Ftdc.Props.C05.UpperLayer

inductive WPc where
  | running | adding | closing | done
  deriving DecidableEq, Repr

structure St where
  addFirst : Bool
  lowerErr : Bool              -- what `chunks.Err()` returns once the layer below has ended (its own theorem)
  wpc : WPc := .running
  errIn : Bool := false        -- the worker's catcher holds the lower error
  pipeClosed : Bool := false
  sawFalse : Bool := false
  errSeen : Bool := false
  deriving DecidableEq, Repr

inductive Pid where
  | w | u
  deriving DecidableEq, Repr

def step (s : St) : Pid → Option St
  | .w =>
    match s.wpc with
    | .running => some { s with wpc := if s.addFirst then .adding else .closing }   -- the lower iterator has ended
    | .adding => some { s with errIn := s.lowerErr, wpc := if s.addFirst then .closing else .done }
    | .closing => some { s with pipeClosed := true, wpc := if s.addFirst then .done else .adding }
    | .done => none
  | .u => if s.pipeClosed ∧ !s.sawFalse then some { s with sawFalse := true, errSeen := s.errIn } else none

def run (s : St) (sched : List Pid) : St := sched.foldl (fun s p => (step s p).getD s) s

/-- with the repaired order the pipe is closed only after the error has been recorded -/
def Inv (s : St) : Prop :=
  s.addFirst = true ∧ (s.pipeClosed = true → s.errIn = s.lowerErr) ∧ (s.sawFalse = true → s.errSeen = s.lowerErr) ∧
  (s.pipeClosed = true → s.wpc = .done) ∧ (s.wpc = .closing ∨ s.wpc = .done → s.errIn = s.lowerErr)

theorem inv_step (s s' : St) (p : Pid) (h : Inv s) (hs : step s p = some s') : Inv s' ∧ s'.lowerErr = s.lowerErr := by
  obtain ⟨h1, h2, h3, h4, h5⟩ := h
  cases p with
  | w =>
    simp only [step] at hs
    cases hw : s.wpc with
    | running => simp [hw, h1] at hs; subst hs; exact ⟨⟨rfl, by simpa using h2, by simpa using h3, by
        intro hc; have := h4 hc; simp [hw] at this, by simp⟩, rfl⟩
    | adding => simp [hw, h1] at hs; subst hs; exact ⟨⟨rfl, by simp, by
        intro hsf; simp at hsf; have := h3 hsf; simpa using this, by
        intro hc; have := h4 hc; simp [hw] at this, by simp⟩, rfl⟩
    | closing => simp [hw, h1] at hs; subst hs; exact ⟨⟨rfl, by
        intro _; simpa using h5 (Or.inl hw), by simpa using h3, by simp, by
        intro _; simpa using h5 (Or.inl hw)⟩, rfl⟩
    | done => simp [hw] at hs
  | u =>
    simp only [step] at hs
    split at hs
    · rename_i hc
      simp only [Option.some.injEq] at hs; subst hs
      exact ⟨⟨h1, h2, by intro _; simpa using h2 hc.1, h4, h5⟩, rfl⟩
    · simp at hs

/-- **on every schedule of the worker and the consumer: once `Next()` has returned false, the layer's
`Err()` is what the layer below reported** — so a non-nil error below is a non-nil error above -/
theorem upper_layer_err_never_lost (lowerErr : Bool) (sched : List Pid) :
    let s := run { addFirst := true, lowerErr := lowerErr } sched
    s.sawFalse = true → s.errSeen = lowerErr := by
  have : ∀ (sched : List Pid) (s : St), Inv s → Inv (run s sched) ∧ (run s sched).lowerErr = s.lowerErr := by
    intro sched
    induction sched with
    | nil => intro s h; exact ⟨h, rfl⟩
    | cons p sched ih =>
      intro s h
      simp only [run, List.foldl_cons]
      cases hs : step s p with
      | none => simpa [run] using ih s h
      | some s' =>
        obtain ⟨i1, i2⟩ := inv_step s s' p h hs
        obtain ⟨j1, j2⟩ := ih s' i1
        simp only [Option.getD_some]
        exact ⟨by simpa [run] using j1, by rw [← i2]; simpa [run] using j2⟩
  intro s hsf
  obtain ⟨hinv, hl⟩ := this sched { addFirst := true, lowerErr := lowerErr }
    ⟨rfl, by simp, by simp, by simp, by simp⟩
  have := hinv.2.2.1 hsf
  rw [this]; exact hl

/-- with the other order (close, then record) the error is lost on a three-step schedule -/
theorem upper_layer_err_lost_if_closed_first :
    (run { addFirst := false, lowerErr := true } [.w, .w, .u]).sawFalse = true ∧
    (run { addFirst := false, lowerErr := true } [.w, .w, .u]).errSeen = false := by decide

end Ftdc.Props.C05.UpperLayer
