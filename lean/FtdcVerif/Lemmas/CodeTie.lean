/-
  The generated code (Gen/Code.lean, rewritten from /repo's Go source by harness/cmd/extract on every run)
  computes what the hand-written model computes.  A change of the Go text changes a definition below
  `Ftdc.Gen`, and these theorems are re-checked against it.
-/
import FtdcVerif.Gen.Code
import FtdcVerif.Model.Hdr
import FtdcVerif.Lemmas.Hdr
import FtdcVerif.Lemmas.HdrRank
import FtdcVerif.Model.Events

namespace Ftdc.CodeTie
open Ftdc

/-! ### casts -/

theorem cast_shr (a k : Nat) : ((a : Int) >>> k) = ((a >>> k : Nat) : Int) := (Int.natCast_shiftRight a k).symm
theorem cast_shl (a k : Nat) : ((a : Int) <<< k) = ((a <<< k : Nat) : Int) := (Int.natCast_shiftLeft a k).symm

theorem bitLen_loop (fuel : Nat) : ∀ (x n : Nat),
    Gen.Hdr.bitLen_loop1 fuel (n : Int) (x : Int) =
      (((Hdr.bitLenLoop fuel x n).2 : Int), ((Hdr.bitLenLoop fuel x n).1 : Int)) := by
  induction fuel with
  | zero => intro x n; simp [Gen.Hdr.bitLen_loop1, Hdr.bitLenLoop]
  | succ f ih =>
    intro x n
    simp only [Gen.Hdr.bitLen_loop1, Hdr.bitLenLoop]
    by_cases h : x ≥ 0x8000
    · have h' : (x : Int) ≥ 0x8000 := by omega
      simp only [h, h', if_true]
      have := ih (x >>> 16) (n + 16)
      simp only [show Int.toNat 16 = 16 from rfl, cast_shr]
      rw [show ((n : Int) + 16) = ((n + 16 : Nat) : Int) by omega]
      exact this
    · have h' : ¬ (x : Int) ≥ 0x8000 := by omega
      simp [h, h']

theorem stage (c k sh y n : Nat) (ci ki si : Int) (hc : ci = c) (hk : ki = k) (hs : si.toNat = sh) :
    (if ((y : Int) ≥ ci) then (((n : Int) + ki), ((y : Int) >>> Int.toNat si)) else (((n : Int), (y : Int)))) =
      (((if y ≥ c then n + k else n : Nat) : Int), ((if y ≥ c then y >>> sh else y : Nat) : Int)) := by
  subst hc hk hs
  by_cases h : y ≥ c
  · have h' : (y : Int) ≥ (c : Int) := by omega
    simp only [h, h', if_true, cast_shr]; simp
  · have h' : ¬ (y : Int) ≥ (c : Int) := by omega
    simp only [h, h', if_false]

theorem bitLen_tail (y n : Nat) :
    (let x : Int := y; let n : Int := n;
     let r2 := (if (x ≥ 0x80) then (let x := (x >>> Int.toNat 8); let n := (n + 8); (n, x)) else ((n, x)));
     let n := r2.1; let x := r2.2;
     let r3 := (if (x ≥ 0x8) then (let x := (x >>> Int.toNat 4); let n := (n + 4); (n, x)) else ((n, x)));
     let n := r3.1; let x := r3.2;
     let r4 := (if (x ≥ 0x2) then (let x := (x >>> Int.toNat 2); let n := (n + 2); (n, x)) else ((n, x)));
     let n := r4.1; let x := r4.2;
     let n := (if (x ≥ 0x1) then (let n := (n + 1); n) else (n));
     n) = (Hdr.bitLenTail y n : Int) := by
  extract_lets x0 n0 sx2 sn2 r2 n2 x2 sx3 sn3 r3 n3 x3 sx4 sn4 r4 n4 x4 sn5 n5
  let X1 := if y ≥ 0x80 then y >>> 8 else y
  let N1 := if y ≥ 0x80 then n + 8 else n
  let X2 := if X1 ≥ 0x8 then X1 >>> 4 else X1
  let N2 := if X1 ≥ 0x8 then N1 + 4 else N1
  let X3 := if X2 ≥ 0x2 then X2 >>> 2 else X2
  let N3 := if X2 ≥ 0x2 then N2 + 2 else N2
  have e2 : r2 = ((N1 : Int), (X1 : Int)) := stage 0x80 8 8 y n 0x80 8 8 rfl rfl rfl
  have hn2 : n2 = (N1 : Int) := congrArg Prod.fst e2
  have hx2 : x2 = (X1 : Int) := congrArg Prod.snd e2
  have e3 : r3 = ((N2 : Int), (X2 : Int)) := by
    show (if (x2 ≥ 0x8) then ((n2 + 4), (x2 >>> Int.toNat 4)) else ((n2, x2))) = _
    rw [hn2, hx2]; exact stage 0x8 4 4 _ _ 0x8 4 4 rfl rfl rfl
  have hn3 : n3 = (N2 : Int) := congrArg Prod.fst e3
  have hx3 : x3 = (X2 : Int) := congrArg Prod.snd e3
  have e4 : r4 = ((N3 : Int), (X3 : Int)) := by
    show (if (x3 ≥ 0x2) then ((n3 + 2), (x3 >>> Int.toNat 2)) else ((n3, x3))) = _
    rw [hn3, hx3]; exact stage 0x2 2 2 _ _ 0x2 2 2 rfl rfl rfl
  have hn4 : n4 = (N3 : Int) := congrArg Prod.fst e4
  have hx4 : x4 = (X3 : Int) := congrArg Prod.snd e4
  show (if (x4 ≥ 0x1) then (n4 + 1) else (n4)) = ((if X3 ≥ 0x1 then N3 + 1 else N3 : Nat) : Int)
  rw [hn4, hx4]
  by_cases h : X3 ≥ 1
  · have h' : (X3 : Int) ≥ 1 := by omega
    simp only [h, h', if_true]; simp
  · have h' : ¬ (X3 : Int) ≥ 1 := by omega
    simp only [h, h', if_false]

theorem bitLen_tie (x : Nat) : Gen.Hdr.bitLen (x : Int) = (Hdr.bitLen x : Int) := by
  unfold Gen.Hdr.bitLen Hdr.bitLen
  have hl := bitLen_loop 64 x 0
  simp only [Int.natCast_zero] at hl
  generalize Hdr.bitLenLoop 64 x 0 = r at hl
  obtain ⟨y, n⟩ := r
  simp only [hl]
  exact bitLen_tail y n

/-! ### `|` on non-negative operands below 2^63 -/

theorem or_tie (a b : Nat) (ha : a < 2 ^ 63) (hb : b < 2 ^ 63) :
    Gen.Go.or (a : Int) (b : Int) = ((a ||| b : Nat) : Int) := by
  have hab : a ||| b < 2 ^ 63 := Nat.or_lt_two_pow ha hb
  unfold Gen.Go.or
  rw [BitVec.ofInt_natCast, BitVec.ofInt_natCast, ← BitVec.ofNat_or, BitVec.toInt_ofNat', Int.bmod_def]
  omega

/-- the Go struct as the model sees it -/
def cfgOf (h : Hdr.Hist) : Gen.Hdr.Histogram :=
  { lowestTrackableValue := h.lowest, highestTrackableValue := h.highest, unitMagnitude := h.unitMag,
    significantFigures := h.sigfigs, subBucketHalfCountMagnitude := h.halfMag, subBucketHalfCount := h.halfCount,
    subBucketMask := h.mask, subBucketCount := h.subCount, bucketCount := h.bucketCount, countsLen := h.countsLen,
    totalCount := h.total, counts := h.counts }

theorem toNat_add (a b : Nat) : Int.toNat ((a : Int) + (b : Int)) = a + b := by omega

/-! ### 32-bit arithmetic: `Go.w32` is the identity on what fits an `int32` -/

theorem w32_of_range (x : Int) (h1 : -2 ^ 31 ≤ x) (h2 : x < 2 ^ 31) : Gen.Go.w32 x = x := by
  unfold Gen.Go.w32
  rw [BitVec.toInt_ofInt]
  apply Int.bmod_eq_of_le <;> omega

theorem w32_nat (n : Nat) (h : n < 2 ^ 31) : Gen.Go.w32 (n : Int) = n := w32_of_range _ (by omega) (by omega)

/-- the translated `getSubBucketIdx` narrows to `int32`: it is the model's as long as the shifted value fits 31 bits -/
theorem getSubBucketIdx_tie (h : Hdr.Hist) (v b : Nat) (hlt : v >>> (b + h.unitMag) < 2 ^ 31) :
    Gen.Hdr.getSubBucketIdx (cfgOf h) v b = (Hdr.getSubBucketIdx h v b : Int) := by
  simp only [Gen.Hdr.getSubBucketIdx, Hdr.getSubBucketIdx, cfgOf, toNat_add, cast_shr]
  exact w32_nat _ hlt

theorem valueFromIndex_tie (h : Hdr.Hist) (b s : Nat) :
    Gen.Hdr.valueFromIndex (cfgOf h) b s = (Hdr.valueFromIndex h b s : Int) := by
  simp only [Gen.Hdr.valueFromIndex, Hdr.valueFromIndex, cfgOf, toNat_add, cast_shl]

/-- `countsIndex` is all `int32` arithmetic: exact for bucket indexes up to 64, sub-bucket indexes below 2^30 and at
most 2^21 sub-buckets (five significant figures need 2^18) -/
theorem countsIndex_tie (h : Hdr.Hist) (b s : Nat) (hb : b ≤ 64) (hs : s < 2 ^ 30) (hh : h.halfMag ≤ 20)
    (hc : h.halfCount = 2 ^ h.halfMag) :
    Gen.Hdr.countsIndex (cfgOf h) b s = Hdr.countsIndex h b s := by
  have hp : 2 ^ h.halfMag ≤ 2 ^ 20 := Nat.pow_le_pow_right (by omega) hh
  have hmul : (b + 1) * 2 ^ h.halfMag ≤ 65 * 2 ^ 20 := Nat.mul_le_mul (by omega) hp
  have hsh : (b + 1) <<< h.halfMag = (b + 1) * 2 ^ h.halfMag := Nat.shiftLeft_eq _ _
  simp only [Gen.Hdr.countsIndex, Hdr.countsIndex, cfgOf, Int.toNat_natCast]
  rw [show ((b : Int) + 1) = ((b + 1 : Nat) : Int) by omega, w32_nat (b + 1) (by omega), cast_shl,
    w32_nat ((b + 1) <<< h.halfMag) (by rw [hsh]; omega), hc]
  have h1 : Gen.Go.w32 ((s : Int) - ((2 ^ h.halfMag : Nat) : Int)) = (s : Int) - ((2 ^ h.halfMag : Nat) : Int) :=
    w32_of_range _ (by omega) (by omega)
  rw [h1]
  exact w32_of_range _ (by rw [hsh]; omega) (by rw [hsh]; omega)

theorem getCountAtIndex_tie (h : Hdr.Hist) (b s : Nat) (hb : b ≤ 64) (hs : s < 2 ^ 30) (hh : h.halfMag ≤ 20)
    (hc : h.halfCount = 2 ^ h.halfMag) :
    Gen.Hdr.getCountAtIndex (cfgOf h) b s = Hdr.getCountAt h b s := by
  simp only [Gen.Hdr.getCountAtIndex, Hdr.getCountAt, Gen.Go.index, countsIndex_tie h b s hb hs hh hc]
  rfl

section wf
variable {h : Hdr.Hist} (wf : Hdr.WF h)
include wf

theorem mask_lt : h.mask < 2 ^ 63 := by
  have := Hdr.lt_two_pow_blen h.mask
  rw [Hdr.blen_mask wf] at this
  have hb := wf.bits
  have hbp := wf.bucket_pos
  exact Nat.lt_of_lt_of_le this (Nat.pow_le_pow_right (by omega) (by omega))

/-- the bit length the bucket index is computed from: between the mask's and 64 -/
theorem bitLen_bounds (v : Nat) (hv : v < 2 ^ 63) :
    h.unitMag + (h.halfMag + 1) ≤ Hdr.bitLen (v ||| h.mask) ∧ Hdr.bitLen (v ||| h.mask) ≤ 64 ∧
    Hdr.blen v ≤ Hdr.bitLen (v ||| h.mask) := by
  have hm := mask_lt wf
  have hor : v ||| h.mask < 2 ^ 64 :=
    Nat.lt_of_lt_of_le (Nat.or_lt_two_pow hv hm) (Nat.pow_le_pow_right (by omega) (by omega))
  rw [Hdr.bitLen_eq_blen _ hor]
  refine ⟨by rw [Hdr.blen_or, Hdr.blen_mask wf]; omega, Hdr.blen_le_of_lt hor, by rw [Hdr.blen_or]; omega⟩

theorem getBucketIndex_tie (v : Nat) (hv : v < 2 ^ 63) (hh : h.halfMag ≤ 20) :
    Gen.Hdr.getBucketIndex (cfgOf h) v = (Hdr.getBucketIndex h v : Int) := by
  have hm := mask_lt wf
  obtain ⟨hge, hle, _⟩ := bitLen_bounds wf v hv
  simp only [Gen.Hdr.getBucketIndex, Hdr.getBucketIndex, cfgOf, or_tie v h.mask hv hm, bitLen_tie]
  rw [show ((h.halfMag : Int) + 1) = ((h.halfMag + 1 : Nat) : Int) by omega, w32_nat (h.halfMag + 1) (by omega)]
  rw [w32_of_range _ (by omega) (by omega)]
  omega

theorem getBucketIndex_le (v : Nat) (hv : v < 2 ^ 63) : Hdr.getBucketIndex h v ≤ 64 := by
  obtain ⟨_, hle, _⟩ := bitLen_bounds wf v hv
  unfold Hdr.getBucketIndex; omega

/-- the sub-bucket index of a value in its own bucket is below the sub-bucket count, for every value below 2^63 -/
theorem subBucket_lt (v : Nat) (hv : v < 2 ^ 63) :
    v >>> (Hdr.getBucketIndex h v + h.unitMag) < 2 ^ (h.halfMag + 1) := by
  obtain ⟨hge, _, hbl⟩ := bitLen_bounds wf v hv
  have hlt := Hdr.lt_two_pow_blen v
  have hsum : Hdr.getBucketIndex h v + h.unitMag + (h.halfMag + 1) = Hdr.bitLen (v ||| h.mask) := by
    unfold Hdr.getBucketIndex; omega
  rw [Nat.shiftRight_eq_div_pow, Nat.div_lt_iff_lt_mul (Nat.two_pow_pos _), ← Nat.pow_add]
  have : h.halfMag + 1 + (Hdr.getBucketIndex h v + h.unitMag) = Hdr.bitLen (v ||| h.mask) := by omega
  rw [this]
  exact Nat.lt_of_lt_of_le hlt (Nat.pow_le_pow_right (by omega) hbl)

theorem subBucket_lt30 (v : Nat) (hv : v < 2 ^ 63) (hh : h.halfMag ≤ 20) :
    v >>> (Hdr.getBucketIndex h v + h.unitMag) < 2 ^ 30 :=
  Nat.lt_of_lt_of_le (subBucket_lt wf v hv) (Nat.pow_le_pow_right (by omega) (by omega))

theorem countsIndexFor_tie (v : Nat) (hv : v < 2 ^ 63) (hh : h.halfMag ≤ 20) :
    Gen.Hdr.countsIndexFor (cfgOf h) v = Hdr.countsIndexFor h v := by
  have hs := subBucket_lt30 wf v hv hh
  have hs31 : v >>> (Hdr.getBucketIndex h v + h.unitMag) < 2 ^ 31 := by omega
  simp only [Gen.Hdr.countsIndexFor, Hdr.countsIndexFor, getBucketIndex_tie wf v hv hh,
    getSubBucketIdx_tie h v (Hdr.getBucketIndex h v) hs31]
  exact countsIndex_tie h _ _ (getBucketIndex_le wf v hv) hs hh wf.halfCount_eq

theorem lowestEquivalentValue_tie (v : Nat) (hv : v < 2 ^ 63) (hh : h.halfMag ≤ 20) :
    Gen.Hdr.lowestEquivalentValue (cfgOf h) v = (Hdr.lowestEquiv h v : Int) := by
  have hs := subBucket_lt30 wf v hv hh
  have hs31 : v >>> (Hdr.getBucketIndex h v + h.unitMag) < 2 ^ 31 := by omega
  simp only [Gen.Hdr.lowestEquivalentValue, Hdr.lowestEquiv, getBucketIndex_tie wf v hv hh,
    getSubBucketIdx_tie h v (Hdr.getBucketIndex h v) hs31, valueFromIndex_tie]

theorem sizeOfEquivalentValueRange_tie (v : Nat) (hv : v < 2 ^ 63) (hh : h.halfMag ≤ 20) :
    Gen.Hdr.sizeOfEquivalentValueRange (cfgOf h) v = (Hdr.sizeOfRange h v : Int) := by
  have hs30 := subBucket_lt30 wf v hv hh
  have hb64 := getBucketIndex_le wf v hv
  have hs31 : v >>> (Hdr.getBucketIndex h v + h.unitMag) < 2 ^ 31 := by omega
  simp only [Gen.Hdr.sizeOfEquivalentValueRange, Hdr.sizeOfRange, getBucketIndex_tie wf v hv hh,
    getSubBucketIdx_tie h v (Hdr.getBucketIndex h v) hs31]
  have hc : ((Hdr.getSubBucketIdx h v (Hdr.getBucketIndex h v) : Int) ≥ (cfgOf h).subBucketCount) ↔
      (Hdr.getSubBucketIdx h v (Hdr.getBucketIndex h v) ≥ h.subCount) := by simp only [cfgOf]; omega
  simp only [hc]
  by_cases hs : Hdr.getSubBucketIdx h v (Hdr.getBucketIndex h v) ≥ h.subCount
  · simp only [hs, if_true, cfgOf]
    rw [show ((Hdr.getBucketIndex h v : Int) + 1) = ((Hdr.getBucketIndex h v + 1 : Nat) : Int) by omega,
      w32_nat _ (by omega), toNat_add]
  · simp only [hs, if_false, cfgOf, toNat_add]

theorem nextNonEquivalentValue_tie (v : Nat) (hv : v < 2 ^ 63) (hh : h.halfMag ≤ 20) :
    Gen.Hdr.nextNonEquivalentValue (cfgOf h) v = (Hdr.nextNonEquiv h v : Int) := by
  simp only [Gen.Hdr.nextNonEquivalentValue, Hdr.nextNonEquiv, lowestEquivalentValue_tie wf v hv hh,
    sizeOfEquivalentValueRange_tie wf v hv hh, Int.natCast_add]

omit wf in
theorem sizeOfRange_pos (v : Nat) : 1 ≤ Hdr.sizeOfRange h v := by
  simp only [Hdr.sizeOfRange, Nat.shiftLeft_eq, Nat.one_mul]
  exact Nat.two_pow_pos _

theorem highestEquivalentValue_tie (v : Nat) (hv : v < 2 ^ 63) (hh : h.halfMag ≤ 20) :
    Gen.Hdr.highestEquivalentValue (cfgOf h) v = (Hdr.highestEquiv h v : Int) := by
  have := sizeOfRange_pos (h := h) v
  simp only [Gen.Hdr.highestEquivalentValue, Hdr.highestEquiv, nextNonEquivalentValue_tie wf v hv hh, Hdr.nextNonEquiv]
  omega

theorem medianEquivalentValue_tie (v : Nat) (hv : v < 2 ^ 63) (hh : h.halfMag ≤ 20) :
    Gen.Hdr.medianEquivalentValue (cfgOf h) v = (Hdr.medianEquiv h v : Int) := by
  simp only [Gen.Hdr.medianEquivalentValue, Hdr.medianEquiv, lowestEquivalentValue_tie wf v hv hh,
    sizeOfEquivalentValueRange_tie wf v hv hh, Int.natCast_add, show Int.toNat 1 = 1 from rfl, cast_shr]

end wf

/-! ### the iterator: `next`, `Max`, `Min` -/

/-- the Go iterator at a position of the model's walk -/
def itOf (h : Hdr.Hist) (b : Nat) (s ca ct vf hi : Int) : Gen.Hdr.iterator :=
  { h := cfgOf h, bucketIdx := b, subBucketIdx := s, countAtIdx := ca, countToIdx := ct, valueFromIdx := vf,
    highestEquivalentValue := hi }

theorem cfg_sc (h : Hdr.Hist) : (cfgOf h).subBucketCount = (h.subCount : Int) := rfl
theorem cfg_hc (h : Hdr.Hist) : (cfgOf h).subBucketHalfCount = (h.halfCount : Int) := rfl
theorem cfg_bc (h : Hdr.Hist) : (cfgOf h).bucketCount = (h.bucketCount : Int) := rfl
theorem cfg_tot (h : Hdr.Hist) : (cfgOf h).totalCount = h.total := rfl

/-- the value at a position of the walk is below 2^63 -/
theorem valueFromIndex_lt {h : Hdr.Hist} (wf : Hdr.WF h) (b s : Nat) (hb : b < h.bucketCount) (hs : s < h.subCount) :
    Hdr.valueFromIndex h b s < 2 ^ 63 := by
  unfold Hdr.valueFromIndex
  rw [Nat.shiftLeft_eq]
  have h1 : s * 2 ^ (b + h.unitMag) < 2 ^ (h.halfMag + 1) * 2 ^ (b + h.unitMag) := by
    apply Nat.mul_lt_mul_of_pos_right (by rw [← wf.subCount_eq]; exact hs) (Nat.two_pow_pos _)
  rw [← Nat.pow_add] at h1
  exact Nat.lt_of_lt_of_le h1 (Nat.pow_le_pow_right (by omega) (by have := wf.bits; omega))

/-- **one step of hdr.go's `iterator.next`, translated, is one step of the model's walk** (`iterFrom`): it stops exactly
when the model's list ends, and otherwise moves to the model's next position with the same count, running count, value
and highest equivalent value -/
theorem next_tie {h : Hdr.Hist} (wf : Hdr.WF h) (hh : h.halfMag ≤ 20) (fuel b : Nat) (s ct ca vf hi : Int)
    (hs1 : -1 ≤ s) (hs2 : s < h.subCount) (hb : b ≤ h.bucketCount) :
    match Hdr.iterFrom (fuel + 1) h b s ct with
    | [] => (Gen.Hdr.next (itOf h b s ca ct vf hi)).1 = false
    | p :: _ => Gen.Hdr.next (itOf h b s ca ct vf hi) =
        (true, itOf h p.b p.s p.countAt p.countTo p.valueFrom p.highest) := by
  have hsc : h.subCount = 2 ^ (h.halfMag + 1) := wf.subCount_eq
  have hp : 2 ^ (h.halfMag + 1) ≤ 2 ^ 21 := Nat.pow_le_pow_right (by omega) (by omega)
  have hbc : h.bucketCount ≤ 63 := by have := wf.bits; omega
  have hhc : h.halfCount = 2 ^ h.halfMag := wf.halfCount_eq
  have hhp : 2 ^ h.halfMag ≤ 2 ^ 20 := Nat.pow_le_pow_right (by omega) hh
  have hhl : h.halfCount < h.subCount := by rw [hhc, hsc, Nat.pow_succ]; have := Nat.two_pow_pos h.halfMag; omega
  -- what a step computes at position (b', s') of the walk
  have fields : ∀ (b' s' : Nat), b' < h.bucketCount → s' < h.subCount →
      Gen.Hdr.getCountAtIndex (cfgOf h) b' s' = Hdr.getCountAt h b' s' ∧
      Gen.Hdr.valueFromIndex (cfgOf h) b' s' = (Hdr.valueFromIndex h b' s' : Int) ∧
      Gen.Hdr.highestEquivalentValue (cfgOf h) (Hdr.valueFromIndex h b' s' : Int) =
        (Hdr.highestEquiv h (Hdr.valueFromIndex h b' s') : Int) := by
    intro b' s' hb' hs'
    exact ⟨getCountAtIndex_tie h b' s' (by omega) (by omega) hh hhc, valueFromIndex_tie h b' s',
      highestEquivalentValue_tie wf _ (valueFromIndex_lt wf b' s' hb' hs') hh⟩
  unfold Hdr.iterFrom Gen.Hdr.next
  by_cases h1 : ct ≥ h.total
  · have h1' : (itOf h b s ca ct vf hi).countToIdx ≥ (itOf h b s ca ct vf hi).h.totalCount := h1
    simp only [h1, h1', if_true]
  · have h1' : ¬ (itOf h b s ca ct vf hi).countToIdx ≥ (itOf h b s ca ct vf hi).h.totalCount := h1
    simp only [h1, h1', if_false]
    have hw1 : Gen.Go.w32 (s + 1) = s + 1 := w32_of_range _ (by omega) (by omega)
    by_cases h2 : s + 1 ≥ (h.subCount : Int)
    · -- roll over into the next bucket
      have hw2 : Gen.Go.w32 ((b : Int) + 1) = ((b + 1 : Nat) : Int) := by
        rw [w32_of_range _ (by omega) (by omega)]; omega
      simp only [itOf, cfg_sc, cfg_hc, cfg_bc, hw1, h2, if_true, hw2]
      by_cases h3 : b + 1 ≥ h.bucketCount
      · have h3' : ((b + 1 : Nat) : Int) ≥ (h.bucketCount : Int) := by omega
        simp only [h3, h3', if_true]
      · have h3' : ¬ ((b + 1 : Nat) : Int) ≥ (h.bucketCount : Int) := by omega
        obtain ⟨f1, f2, f3⟩ := fields (b + 1) h.halfCount (by omega) hhl
        simp only [h3, h3', if_false, Int.toNat_natCast, f1, f2, f3]
    · have hsn : ((s + 1).toNat : Int) = s + 1 := by omega
      simp only [itOf, cfg_sc, cfg_hc, cfg_bc, hw1, h2, if_false]
      by_cases h3 : b ≥ h.bucketCount
      · have h3' : (b : Int) ≥ (h.bucketCount : Int) := by omega
        simp only [h3, h3', if_true]
      · have h3' : ¬ (b : Int) ≥ (h.bucketCount : Int) := by omega
        obtain ⟨f1, f2, f3⟩ := fields b (s + 1).toNat (by omega) (by omega)
        simp only [h3, h3', if_false]
        rw [← hsn, f1, f2, f3]
        simp only [Int.toNat_natCast]

/-! ### the walk as a list: `iterFrom`, one element at a time -/

/-- invariants of a position of the walk -/
structure PosOk (h : Hdr.Hist) (p : Hdr.IterPos) : Prop where
  b : p.b < h.bucketCount
  s : p.s < h.subCount
  vf : p.valueFrom = Hdr.valueFromIndex h p.b p.s
  hi : p.highest = Hdr.highestEquiv h p.valueFrom

theorem iterFrom_cons {h : Hdr.Hist} (wf : Hdr.WF h) (fuel b : Nat) (s ct : Int) (hs1 : -1 ≤ s) (hs2 : s < h.subCount)
    (p : Hdr.IterPos) (rest : List Hdr.IterPos) (he : Hdr.iterFrom (fuel + 1) h b s ct = p :: rest) :
    rest = Hdr.iterFrom fuel h p.b (p.s : Int) p.countTo ∧ PosOk h p := by
  have hhl : h.halfCount < h.subCount := by
    rw [wf.halfCount_eq, wf.subCount_eq, Nat.pow_succ]; have := Nat.two_pow_pos h.halfMag; omega
  unfold Hdr.iterFrom at he
  by_cases h1 : ct ≥ h.total
  · simp [h1] at he
  · simp only [h1, if_false] at he
    by_cases h2 : s + 1 ≥ (h.subCount : Int)
    · simp only [h2, if_true] at he
      by_cases h3 : b + 1 ≥ h.bucketCount
      · simp [h3] at he
      · simp only [h3, if_false, List.cons.injEq] at he
        obtain ⟨rfl, rfl⟩ := he
        simp only [Int.toNat_natCast]
        exact ⟨trivial, ⟨by simp; omega, by simp; exact hhl, rfl, rfl⟩⟩
    · simp only [h2, if_false] at he
      by_cases h3 : b ≥ h.bucketCount
      · simp [h3] at he
      · simp only [h3, if_false, List.cons.injEq] at he
        obtain ⟨rfl, rfl⟩ := he
        have hsn : (((s + 1).toNat : Nat) : Int) = s + 1 := by omega
        simp only [hsn]
        exact ⟨trivial, ⟨by simp; omega, by simp; omega, rfl, rfl⟩⟩

/-- every highest-equivalent value met on the walk is below 2^63 -/
theorem posOk_highest_lt {h : Hdr.Hist} (wf : Hdr.WF h) {p : Hdr.IterPos} (ok : PosOk h p) : p.highest < 2 ^ 63 := by
  have hvf : p.valueFrom < Hdr.cap h := by
    rw [ok.vf]; unfold Hdr.valueFromIndex Hdr.cap
    rw [Nat.shiftLeft_eq]
    have h1 : p.s * 2 ^ (p.b + h.unitMag) < 2 ^ (h.halfMag + 1) * 2 ^ (p.b + h.unitMag) :=
      Nat.mul_lt_mul_of_pos_right (by rw [← wf.subCount_eq]; exact ok.s) (Nat.two_pow_pos _)
    rw [← Nat.pow_add] at h1
    exact Nat.lt_of_lt_of_le h1 (Nat.pow_le_pow_right (by omega) (by have := ok.b; omega))
  have := (Hdr.idx_highestEquiv wf hvf).1
  rw [ok.hi]
  exact Nat.lt_of_lt_of_le this (Nat.pow_le_pow_right (by omega) (by have := wf.bits; omega))

/-- **hdr.go's `Max` loop, translated, folds over the model's walk** -/
theorem Max_loop_tie {h : Hdr.Hist} (wf : Hdr.WF h) (hh : h.halfMag ≤ 20) : ∀ (fuel b : Nat) (s ct ca vf hi : Int) (m : Nat),
    -1 ≤ s → s < h.subCount → b ≤ h.bucketCount →
    (Gen.Hdr.Max_loop1 fuel (itOf h b s ca ct vf hi) (m : Int)).2 =
      (((Hdr.iterFrom fuel h b s ct).foldl (fun m p => if p.countAt ≠ 0 then p.highest else m) m : Nat) : Int) := by
  intro fuel
  induction fuel with
  | zero => intro b s ct ca vf hi m _ _ _; simp only [Gen.Hdr.Max_loop1, Hdr.iterFrom, List.foldl_nil]
  | succ f ih =>
    intro b s ct ca vf hi m hs1 hs2 hb
    have hn := next_tie wf hh f b s ct ca vf hi hs1 hs2 hb
    unfold Gen.Hdr.Max_loop1
    cases he : Hdr.iterFrom (f + 1) h b s ct with
    | nil =>
      rw [he] at hn
      have hn' : (Gen.Hdr.next (itOf h b s ca ct vf hi)).1 = false := hn
      dsimp only
      simp only [hn', Bool.false_eq_true, if_false, List.foldl_nil]
    | cons p rest =>
      rw [he] at hn
      obtain ⟨hrest, ok⟩ := iterFrom_cons wf f b s ct hs1 hs2 p rest he
      have hn' : Gen.Hdr.next (itOf h b s ca ct vf hi) =
          (true, itOf h p.b p.s p.countAt p.countTo p.valueFrom p.highest) := hn
      dsimp only
      simp only [hn', if_true, List.foldl_cons]
      rw [hrest]
      by_cases hc : p.countAt ≠ 0
      · have hc' : (itOf h p.b p.s p.countAt p.countTo p.valueFrom p.highest).countAtIdx ≠ 0 := hc
        rw [if_pos hc, if_pos hc']
        exact ih p.b p.s p.countTo p.countAt p.valueFrom p.highest p.highest (by omega) (by have := ok.s; omega) (by have := ok.b; omega)
      · have hc' : ¬ (itOf h p.b p.s p.countAt p.countTo p.valueFrom p.highest).countAtIdx ≠ 0 := hc
        rw [if_neg hc, if_neg hc']
        exact ih p.b p.s p.countTo p.countAt p.valueFrom p.highest m (by omega) (by have := ok.s; omega) (by have := ok.b; omega)

theorem iterFrom_all_ok {h : Hdr.Hist} (wf : Hdr.WF h) : ∀ (fuel b : Nat) (s ct : Int), -1 ≤ s → s < h.subCount →
    ∀ p ∈ Hdr.iterFrom fuel h b s ct, PosOk h p := by
  intro fuel
  induction fuel with
  | zero => intro b s ct _ _ p hp; simp [Hdr.iterFrom] at hp
  | succ f ih =>
    intro b s ct hs1 hs2 p hp
    cases he : Hdr.iterFrom (f + 1) h b s ct with
    | nil => rw [he] at hp; simp at hp
    | cons q rest =>
      obtain ⟨hrest, ok⟩ := iterFrom_cons wf f b s ct hs1 hs2 q rest he
      rw [he] at hp
      rcases List.mem_cons.mp hp with rfl | hp
      · exact ok
      · rw [hrest] at hp
        exact ih q.b q.s q.countTo (by omega) (by have := ok.s; omega) p hp

theorem maxFold_lt {h : Hdr.Hist} (wf : Hdr.WF h) : ∀ (l : List Hdr.IterPos) (m : Nat), (∀ p ∈ l, PosOk h p) → m < 2 ^ 63 →
    l.foldl (fun m p => if p.countAt ≠ 0 then p.highest else m) m < 2 ^ 63 := by
  intro l
  induction l with
  | nil => intro m _ hm; exact hm
  | cons p l ih =>
    intro m hl hm
    simp only [List.foldl_cons]
    apply ih _ (fun q hq => hl q (List.mem_cons_of_mem _ hq))
    split
    · exact posOk_highest_lt wf (hl p (List.mem_cons_self ..))
    · exact hm

/-- **hdr.go's `Max`, translated (iterator constructor, `next`, the loop, the final `highestEquivalentValue`), is the
model's `maxV`** - with as many rounds as the counts array has entries (plus two), which the walk never needs -/
theorem Max_tie {h : Hdr.Hist} (wf : Hdr.WF h) (hh : h.halfMag ≤ 20) :
    Gen.Hdr.Max (h.countsLen + 2) (cfgOf h) = (Hdr.maxV h : Int) := by
  unfold Gen.Hdr.Max Hdr.maxV Hdr.iter
  have hit : Gen.Hdr.new_iterator (cfgOf h) = itOf h 0 (-1) 0 0 0 0 := rfl
  have hloop := Max_loop_tie wf hh (h.countsLen + 2) 0 (-1) 0 0 0 0 0 (by omega) (by have := Nat.two_pow_pos (h.halfMag+1); rw [wf.subCount_eq]; omega) (by omega)
  have hall := iterFrom_all_ok wf (h.countsLen + 2) 0 (-1) 0 (by omega) (by have := Nat.two_pow_pos (h.halfMag+1); rw [wf.subCount_eq]; omega)
  have hlt := maxFold_lt wf _ 0 hall (by omega)
  dsimp only
  rw [hit]
  simp only [Int.natCast_zero] at hloop
  rw [hloop]
  exact highestEquivalentValue_tie wf _ hlt hh

/-- hdr.go's `Min` loop (with its `break`), translated, finds the first non-empty position of the model's walk -/
theorem Min_loop_tie {h : Hdr.Hist} (wf : Hdr.WF h) (hh : h.halfMag ≤ 20) : ∀ (fuel b : Nat) (s ct ca vf hi : Int),
    -1 ≤ s → s < h.subCount → b ≤ h.bucketCount →
    (Gen.Hdr.Min_loop1 fuel (itOf h b s ca ct vf hi) 0).2 =
      (((match (Hdr.iterFrom fuel h b s ct).find? (fun p => p.countAt ≠ 0) with
        | some p => p.highest
        | none => 0) : Nat) : Int) := by
  intro fuel
  induction fuel with
  | zero => intro b s ct ca vf hi _ _ _; simp only [Gen.Hdr.Min_loop1, Hdr.iterFrom, List.find?_nil]; rfl
  | succ f ih =>
    intro b s ct ca vf hi hs1 hs2 hb
    have hn := next_tie wf hh f b s ct ca vf hi hs1 hs2 hb
    unfold Gen.Hdr.Min_loop1
    cases he : Hdr.iterFrom (f + 1) h b s ct with
    | nil =>
      rw [he] at hn
      have hn' : (Gen.Hdr.next (itOf h b s ca ct vf hi)).1 = false := hn
      dsimp only
      simp only [hn', Bool.false_eq_true, if_false, List.find?_nil]; rfl
    | cons p rest =>
      rw [he] at hn
      obtain ⟨hrest, ok⟩ := iterFrom_cons wf f b s ct hs1 hs2 p rest he
      have hn' : Gen.Hdr.next (itOf h b s ca ct vf hi) =
          (true, itOf h p.b p.s p.countAt p.countTo p.valueFrom p.highest) := hn
      dsimp only
      simp only [hn', if_true, List.find?_cons]
      by_cases hc : p.countAt ≠ 0
      · have hc' : (itOf h p.b p.s p.countAt p.countTo p.valueFrom p.highest).countAtIdx ≠ 0 ∧ True := ⟨hc, trivial⟩
        have hd : decide (p.countAt ≠ 0) = true := by simpa using hc
        rw [if_pos hc']
        simp only [hd]
        rfl
      · have hc' : ¬ ((itOf h p.b p.s p.countAt p.countTo p.valueFrom p.highest).countAtIdx ≠ 0 ∧ True) := fun x => hc x.1
        have hd : decide (p.countAt ≠ 0) = false := by simpa using hc
        rw [if_neg hc']
        simp only [hd]
        rw [hrest]
        exact ih p.b p.s p.countTo p.countAt p.valueFrom p.highest (by omega) (by have := ok.s; omega) (by have := ok.b; omega)

/-- **hdr.go's `Min`, translated, is the model's `minV`** -/
theorem Min_tie {h : Hdr.Hist} (wf : Hdr.WF h) (hh : h.halfMag ≤ 20) :
    Gen.Hdr.Min (h.countsLen + 2) (cfgOf h) = (Hdr.minV h : Int) := by
  unfold Gen.Hdr.Min Hdr.minV Hdr.iter
  have hit : Gen.Hdr.new_iterator (cfgOf h) = itOf h 0 (-1) 0 0 0 0 := rfl
  have hsub : (-1 : Int) < h.subCount := by have := Nat.two_pow_pos (h.halfMag+1); rw [wf.subCount_eq]; omega
  have hloop := Min_loop_tie wf hh (h.countsLen + 2) 0 (-1) 0 0 0 0 (by omega) hsub (by omega)
  have hall := iterFrom_all_ok wf (h.countsLen + 2) 0 (-1) 0 (by omega) hsub
  have hlt : (match (Hdr.iterFrom (h.countsLen + 2) h 0 (-1) 0).find? (fun p => p.countAt ≠ 0) with
      | some p => p.highest
      | none => 0) < 2 ^ 63 := by
    cases hf : (Hdr.iterFrom (h.countsLen + 2) h 0 (-1) 0).find? (fun p => p.countAt ≠ 0) with
    | none => simp
    | some p => exact posOk_highest_lt wf (hall p (List.mem_of_find?_eq_some hf))
  dsimp only
  rw [hit, hloop]
  exact lowestEquivalentValue_tie wf _ hlt hh

/-! ### `RecordValues` -/

theorem set_getD_modify (l : List Int) (n : Int) : ∀ (i : Nat), l.set i (l[i]?.getD 0 + n) = l.modify i (· + n) := by
  induction l with
  | nil => intro i; simp
  | cons a t ih =>
    intro i
    cases i with
    | zero => simp
    | succ j => simp [ih j]

/-- hdr.go's `RecordValues`, translated, is the model's `recordValues` (error = `none`, state unchanged) -/
theorem RecordValues_tie {h : Hdr.Hist} (wf : Hdr.WF h) (v : Nat) (hv : v < 2 ^ 63) (hh : h.halfMag ≤ 20) (n : Int) :
    Gen.Hdr.RecordValues (cfgOf h) v n = (Hdr.recordValues h v n).map cfgOf := by
  have hnn : ¬ ((v : Int) < 0) := by omega
  simp only [Gen.Hdr.RecordValues, Hdr.recordValues, countsIndexFor_tie wf v hv hh, hnn, if_false, Int.toNat_natCast]
  have hl : (cfgOf h).countsLen = (h.countsLen : Int) := rfl
  rw [hl]
  by_cases hc : Hdr.countsIndexFor h v < 0 ∨ (h.countsLen : Int) ≤ Hdr.countsIndexFor h v
  · simp only [hc, if_true, Option.map_none]
  · simp only [hc, if_false, Option.map_some]
    have h0 : ¬ Hdr.countsIndexFor h v < 0 := fun x => hc (Or.inl x)
    simp only [cfgOf, Gen.Go.set, Gen.Go.index, h0, if_false, Hdr.listModify, List.getD_eq_getElem?_getD, set_getD_modify]

/-! ### the sizing loop of `New` (translated on its own: the function around it computes with floats) -/

theorem New_loop_tie (fuel : Nat) : ∀ (smallest mx n : Nat),
    (Gen.Hdr.New_loop1 (mx : Int) fuel (n : Int) (smallest : Int)).1 = (Hdr.bucketsLoop fuel smallest mx n : Int) := by
  induction fuel with
  | zero => intro s m n; simp [Gen.Hdr.New_loop1, Hdr.bucketsLoop]
  | succ f ih =>
    intro s m n
    simp only [Gen.Hdr.New_loop1, Hdr.bucketsLoop]
    by_cases h : s ≤ m
    · have h' : (s : Int) ≤ (m : Int) := by omega
      simp only [h, h', if_true, show Int.toNat 1 = 1 from rfl, cast_shl]
      rw [show ((n : Int) + 1) = ((n + 1 : Nat) : Int) by omega]
      exact ih (s <<< 1) m (n + 1)
    · have h' : ¬ (s : Int) ≤ (m : Int) := by omega
      simp [h, h']

theorem getOffset_tie (count sample metric : Nat) :
    Gen.Util.getOffset count sample metric = ((metric * count + sample : Nat) : Int) := by
  simp [Gen.Util.getOffset]

/-! ### `Performance.Add` (events/performance.go)

The translated function works on ideal integers; Go's `int64` fields wrap.  `concP` reads a model value
(`BitVec 64` fields) as the integers the Go struct holds, `absP` reduces integers modulo 2^64: the translated
`Add`, run on the integers and reduced, is the model's wrapping `Perf.add` - addition commutes with the
reduction, and the id test `in.ID == 0` is decided on an in-range integer. -/

open Ftdc.Events in
def concP (p : Perf) : Gen.Events.Performance :=
  { Timestamp := p.ts.toInt, ID := p.id.toInt,
    Counters := { Number := p.n.toInt, Operations := p.ops.toInt, Size := p.size.toInt, Errors := p.errors.toInt },
    Timers := { Duration := p.dur.toInt, Total := p.total.toInt },
    Gauges := { State := p.state.toInt, Workers := p.workers.toInt, Failed := p.failed } }

open Ftdc.Events in
def absP (g : Gen.Events.Performance) : Perf :=
  { ts := BitVec.ofInt 64 g.Timestamp, id := BitVec.ofInt 64 g.ID,
    n := BitVec.ofInt 64 g.Counters.Number, ops := BitVec.ofInt 64 g.Counters.Operations,
    size := BitVec.ofInt 64 g.Counters.Size, errors := BitVec.ofInt 64 g.Counters.Errors,
    dur := BitVec.ofInt 64 g.Timers.Duration, total := BitVec.ofInt 64 g.Timers.Total,
    state := BitVec.ofInt 64 g.Gauges.State, workers := BitVec.ofInt 64 g.Gauges.Workers, failed := g.Gauges.Failed }

theorem ofInt_add_toInt (a b : BitVec 64) : BitVec.ofInt 64 (a.toInt + b.toInt) = a + b := by
  rw [BitVec.ofInt_add, BitVec.ofInt_toInt, BitVec.ofInt_toInt]

theorem toInt_eq_zero (a : BitVec 64) : a.toInt = 0 ↔ a = 0#64 := by
  constructor
  · intro h; have := congrArg (BitVec.ofInt 64) h; simpa [BitVec.ofInt_toInt] using this
  · intro h; subst h; rfl

open Ftdc.Events in
theorem Add_tie (p e : Perf) :
    absP (Gen.Events.Add (concP p) (concP e)).1 = Perf.add p e ∧
    absP (Gen.Events.Add (concP p) (concP e)).2 = { e with id := nextId p.id e.id } := by
  unfold Gen.Events.Add
  by_cases h0 : e.id = 0#64
  · have h0' : (concP e).ID = 0 := by simp [concP, h0]
    simp only [h0', if_true]
    constructor
    · simp [absP, concP, Perf.add, nextId, h0, ofInt_add_toInt, BitVec.ofInt_toInt]
      rw [show (1 : Int) = (1#64 : BitVec 64).toInt from rfl, ofInt_add_toInt]
    · simp [absP, concP, nextId, h0, BitVec.ofInt_toInt]
      rw [show (1 : Int) = (1#64 : BitVec 64).toInt from rfl, ofInt_add_toInt]
  · have h0' : ¬ (concP e).ID = 0 := by simp [concP, toInt_eq_zero, h0]
    simp only [h0', if_false]
    constructor
    · simp [absP, concP, Perf.add, nextId, h0, ofInt_add_toInt, BitVec.ofInt_toInt]
    · simp [absP, concP, nextId, h0, BitVec.ofInt_toInt]

end Ftdc.CodeTie
