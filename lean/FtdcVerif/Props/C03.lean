import FtdcVerif.Lemmas.Codec
import FtdcVerif.Lemmas.Reader
import FtdcVerif.Model.Collector
import FtdcVerif.Lemmas.FileE2E
import FtdcVerif.Lemmas.PayloadTie
/-!
# C03 — wire-format conformance both ways

`Tok`/`expand`/`encToks` are the format description of the delta stream (written from the FTDC
format, not from the encoder): a stream is any sequence of non-zero literals and zero-run pairs
`(0, k)` standing for k+1 zeros; runs may be split and may cross metric boundaries.
`decoder_complete_deltas` shows that the decoder recovers the deltas of *every* such stream;
`encoder_stream_roundtrip` that the encoder's own stream is one of them.  The outer layers
(type field of any BSON number type, unknown types skipped, payload layout) follow.
-/
namespace Ftdc.Props.C03
open Ftdc

/-- a token of a spec-conformant delta stream -/
inductive Tok where
  | lit (d : I64)        -- a non-zero delta
  | run (k : Nat)        -- the pair (0, k): k+1 zero deltas

def Tok.ok : Tok → Prop
  | .lit d => d ≠ 0#64
  | .run k => k < 2 ^ 64

def expandTok : Tok → List I64
  | .lit d => [d]
  | .run k => List.replicate (k + 1) 0#64

def expand (ts : List Tok) : List I64 := (ts.map expandTok).flatten

def encTok : Tok → Bytes
  | .lit d => putUvarint d.toNat
  | .run k => putUvarint 0 ++ putUvarint k

def encToks (ts : List Tok) : Bytes := (ts.map encTok).flatten

/-- **decoder completeness, delta layer**: every conformant token stream — whatever the
placement and splitting of zero runs — decodes to the deltas it denotes. -/
theorem decoder_complete_deltas : ∀ (ts : List Tok) (rest : Bytes), (∀ t ∈ ts, t.ok) →
    rleDecAux (expand ts).length 0 (encToks ts ++ rest) = some (expand ts, 0, rest) := by
  intro ts
  induction ts with
  | nil => intro rest _; simp [expand, encToks, rleDecAux]
  | cons t ts ih =>
    intro rest hok
    have ht := hok t (by simp)
    have htail := ih rest (fun x hx => hok x (by simp [hx]))
    have hexp : expand (t :: ts) = expandTok t ++ expand ts := by simp [expand]
    have henc : encToks (t :: ts) ++ rest = encTok t ++ (encToks ts ++ rest) := by simp [encToks]
    rw [hexp, henc, List.length_append, rleDecAux_append]
    cases t with
    | lit d =>
      have hd : d ≠ 0#64 := ht
      have hdn : d.toNat ≠ 0 := by
        intro h; apply hd; apply BitVec.eq_of_toNat_eq; simpa using h
      have hone : rleDecAux 1 0 (putUvarint d.toNat ++ (encToks ts ++ rest)) =
          some ([d], 0, encToks ts ++ rest) := by
        simp only [rleDecAux, ne_eq, not_true_eq_false, ite_false]
        rw [readUvarint_putUvarint d.toNat d.isLt]
        simp [hdn]
      simp only [expandTok, encTok, List.length_singleton, hone, Option.bind_some, htail]
      simp
    | run k =>
      have hk : k < 2 ^ 64 := ht
      have hrun : rleDecAux (k + 1) 0 (putUvarint 0 ++ putUvarint k ++ (encToks ts ++ rest)) =
          some (List.replicate (k + 1) 0#64, 0, encToks ts ++ rest) := by
        simp only [rleDecAux, ne_eq, not_true_eq_false, ite_false, List.append_assoc]
        rw [readUvarint_putUvarint 0 (by omega)]
        simp only [ite_true]
        rw [readUvarint_putUvarint k hk]
        simp only [rleDecAux_zeros k k _ (Nat.le_refl _)]
        simp [List.replicate_succ]
      simp only [expandTok, encTok, List.length_replicate, hrun, Option.bind_some, htail]
      simp

/-- split zero runs are the same stream: `(0,a)(0,b)` and `(0,a+b+1)` denote the same deltas -/
theorem split_run_same_deltas (a b : Nat) :
    expand [.run a, .run b] = expand [.run (a + b + 1)] := by
  simp only [expand, expandTok, List.map_cons, List.map_nil, List.flatten_cons, List.flatten_nil,
    List.append_nil]
  rw [List.replicate_append_replicate]
  congr 1; omega

/-- **encoder, delta layer**: the stream `getPayload` writes decodes to the collected deltas -/
theorem encoder_stream_roundtrip (ds : List I64) (rest : Bytes) (h : ds.length < 2 ^ 64) :
    rleDecAux ds.length 0 (rleEnc ds ++ rest) = some (ds, 0, rest) := by
  have := rle_roundtrip ds 0 rest (by simpa using h)
  simpa [rleEnc] using this

/-! ### the encoder's stream is the canonical one: every zero run maximal -/

/-- the canonical token stream of a delta list: consecutive zeros are one run, however long -/
def canonAux : Nat → List I64 → List Tok
  | zc, [] => if zc > 0 then [.run (zc - 1)] else []
  | zc, d :: ds =>
    if d = 0#64 then canonAux (zc + 1) ds
    else (if zc > 0 then [.run (zc - 1)] else []) ++ .lit d :: canonAux 0 ds

def canon (ds : List I64) : List Tok := canonAux 0 ds

/-- no literal is zero and no zero run is directly followed by another one -/
def Canonical : List Tok → Prop
  | [] => True
  | [.lit d] => d ≠ 0#64
  | [.run _] => True
  | .lit d :: t :: r => d ≠ 0#64 ∧ Canonical (t :: r)
  | .run _ :: .run _ :: _ => False
  | .run _ :: .lit d :: r => Canonical (.lit d :: r)

theorem encoder_emits_canon : ∀ (ds : List I64) (zc : Nat), rleEncAux zc ds = encToks (canonAux zc ds) := by
  intro ds
  induction ds with
  | nil => intro zc; by_cases h : zc > 0 <;> simp [rleEncAux, canonAux, encToks, encTok, h]
  | cons d ds ih =>
    intro zc
    by_cases hd : d = 0#64
    · simp [rleEncAux, canonAux, hd, ih]
    · by_cases h : zc > 0 <;> simp [rleEncAux, canonAux, hd, h, ih, encToks, encTok, encodeValue]

theorem canon_lit_head (d : I64) (hd : d ≠ 0#64) : ∀ (r : List Tok), Canonical r → Canonical (.lit d :: r)
  | [], _ => hd
  | _ :: _, h => ⟨hd, h⟩

theorem canon_run_lit (k : Nat) (d : I64) (r : List Tok) (h : Canonical (.lit d :: r)) :
    Canonical (.run k :: .lit d :: r) := h

theorem canonAux_canonical : ∀ (ds : List I64) (zc : Nat), Canonical (canonAux zc ds) := by
  intro ds
  induction ds with
  | nil => intro zc; by_cases h : zc > 0 <;> simp [canonAux, h, Canonical]
  | cons d ds ih =>
    intro zc
    by_cases hd : d = 0#64
    · simp only [canonAux, hd, if_true]; exact ih _
    · have hl := canon_lit_head d hd _ (ih 0)
      by_cases h : zc > 0
      · simp only [canonAux, hd, if_false, h, if_true, List.singleton_append]
        exact canon_run_lit _ d _ hl
      · simp only [canonAux, hd, if_false, h, List.nil_append]
        exact hl

theorem canonAux_expand : ∀ (ds : List I64) (zc : Nat), expand (canonAux zc ds) = List.replicate zc 0#64 ++ ds := by
  intro ds
  induction ds with
  | nil =>
    intro zc
    by_cases h : zc > 0
    · obtain ⟨k, rfl⟩ : ∃ k, zc = k + 1 := ⟨zc - 1, by omega⟩
      simp [canonAux, expand, expandTok]
    · have : zc = 0 := by omega
      simp [canonAux, expand, this]
  | cons d ds ih =>
    intro zc
    by_cases hd : d = 0#64
    · simp only [canonAux, hd, if_true, ih]
      rw [List.replicate_succ', List.append_assoc]; rfl
    · by_cases h : zc > 0
      · obtain ⟨k, rfl⟩ : ∃ k, zc = k + 1 := ⟨zc - 1, by omega⟩
        have := ih 0
        simp only [expand] at this ⊢
        simp [canonAux, hd, expandTok, this]
      · have hz : zc = 0 := by omega
        have := ih 0
        simp only [expand] at this ⊢
        simp [canonAux, hd, hz, expandTok, this]

/-- **The delta stream `getPayload` writes is the canonical encoding**: it is the byte rendering of a
token stream that denotes exactly the deltas, in which no literal is zero and no zero run is followed
by another zero run (every run is maximal, also across metric boundaries). -/
theorem encoder_is_canonical (ds : List I64) :
    rleEnc ds = encToks (canon ds) ∧ Canonical (canon ds) ∧ expand (canon ds) = ds := by
  refine ⟨encoder_emits_canon ds 0, canonAux_canonical ds 0, ?_⟩
  have := canonAux_expand ds 0
  simpa [canon] using this

/-- payload layout: reference document verbatim, metric count, delta count, delta stream -/
theorem payload_layout (ref : BDoc) (first : Row) (rows : List Row) :
    ∃ stream, payloadOf ref first rows =
      serDoc ref ++ le32 first.length ++ le32 rows.length ++ stream := ⟨_, rfl⟩

/-- the encoder's output documents: optional metadata (type 0) then the chunk (type 1), both
stamped with the chunk's first time stamp -/
theorem output_documents (c : Better) (ref : BDoc) (hr : c.ref = some ref) :
    c.resolve = some (match c.metadata with
      | some md => [.metaDoc c.startedAt md, .chunk c.startedAt ref c.first c.rows]
      | none => [.chunk c.startedAt ref c.first c.rows]) := by
  unfold Better.resolve; simp only [hr]; cases c.metadata <;> rfl

/-- a numeric `type` field of any BSON number type is honoured -/
theorem type_field_any_number :
    isNum 1 (some (.int32 1#32)) = true ∧ isNum 1 (some (.int64 1#64)) = true ∧
    isNum 1 (some (.double 0x3FF0000000000000#64)) = true ∧
    isNum 0 (some (.int32 0#32)) = true ∧ isNum 0 (some (.int64 0#64)) = true ∧
    isNum 0 (some (.double 0#64)) = true ∧ isNum 0 (some (.double 0x8000000000000000#64)) = true := by
  decide

/-- documents of unknown type (or without a type) are skipped, leaving the state untouched -/
theorem unknown_type_skipped (inflate : Inflate) (doc : BDoc) (md : Option BDoc)
    (h0 : isNum 0 (lookupLast keyType doc) = false) (h1 : isNum 1 (lookupLast keyType doc) = false) :
    processDoc inflate doc md = .ok (md, none) := by
  simp [processDoc, h0, h1]

/-- interleaved metadata documents only replace the current metadata -/
theorem metadata_document_only_sets_metadata (inflate : Inflate) (doc : BDoc) (md : Option BDoc)
    (h0 : isNum 0 (lookupLast keyType doc) = true) :
    processDoc inflate doc md = .ok (some doc, none) := by
  simp [processDoc, h0]

/-! non-vacuity -/
example : (Tok.lit 5#64).ok ∧ (Tok.run 3).ok := by
  constructor
  · show (5#64 : I64) ≠ 0#64; decide
  · show 3 < 2 ^ 64; decide

/-! ### encoder output = decoder input, at the byte level

`FileE2E.wireDoc` is the outer document the collectors write - `{_id: datetime, type: int32 0, doc: metadata}` and
`{_id: datetime, type: int32 1, data: binary subtype 0 = le32 |payload| ++ zlib payload}` in this field order - as a BSON
tree; `fileBytes` its serialisation.  zlib is a pair of functions of which only `inflate (deflate p) = (p, clean end)`
is assumed (`ZlibOK`). -/

/-- **what the encoder writes is what the decoder reads**: any list of output documents (metadata documents and
decodable chunks, in any order), serialised, is read by the reader model without error into exactly its chunks -
same reference documents, same samples, same order -/
theorem encoder_output_is_decoder_input (deflate : Bytes → Bytes) (inflate : Inflate)
    (hz : FileE2E.ZlibOK deflate inflate) (now : I64) (outs : List OutDoc)
    (hok : ∀ o ∈ outs, FileE2E.OutOK deflate now o) :
    (readAll inflate (FileE2E.fileBytes deflate now outs)).err = none ∧
    (readAll inflate (FileE2E.fileBytes deflate now outs)).chunks.map (fun c => (c.ref, c.rows)) =
      outs.filterMap FileE2E.chunkPart :=
  FileE2E.file_roundtrip deflate inflate hz now outs hok

/-- the binary `data` field the encoder writes is accepted by the strict parser, whatever follows it -/
theorem data_field_is_wellformed_binary (z : Bytes) (h : z.length < 2 ^ 31) : OtherOk 0x05 (FileE2E.binaryRaw z) :=
  FileE2E.binary_otherOk z h

/-- non-vacuity: the assumption about zlib is met by "stored" compression, and the hypotheses about the documents by a
metadata document followed by a chunk -/
example : FileE2E.ZlibOK id (fun z => some (z, true)) := fun _ => rfl
example : ∀ o ∈ [OutDoc.metaDoc .none .nil, .chunk (.at 5#64) (.cons [97] (.int64 1#64) .nil) [1#64] []],
    FileE2E.OutOK id 0#64 o := by
  intro o ho
  simp only [List.mem_cons, List.mem_nil_iff, or_false] at ho
  rcases ho with rfl | rfl
  · refine ⟨trivial, ?_, trivial⟩
    simp [FileE2E.wireDoc, FileE2E.idMs, serDoc_length, serElems, serVal, le64, le32, leN, BVal.tag, keyId, keyType, FileE2E.keyDoc]
  · refine ⟨⟨⟨⟨by intro b hb; simp at hb; omega, trivial, trivial⟩,
        by simp [serDoc_length, serElems, serVal, le64, leN, BVal.tag], by simp [NoTs, NoTsVal],
        by simp [extractDoc, extractVal]⟩, by simp [vals, extractDoc, extractVal], by simp, by simp⟩, ?_, trivial⟩
    simp [FileE2E.wireDoc, FileE2E.idMs, FileE2E.binaryRaw, serDoc_length, serElems, serVal, le64, le32, leN, BVal.tag, keyId, keyType,
      keyData, payloadOf, rleEnc, rleEncAux, column, deltas]

/-! ### a chunk has one type per metric -/

/-- **a retyped sample is refused**: same number of metrics, another BSON type at some metric position (a chunk records each
metric's type once, in its reference document) — the collector answers `types` and is unchanged (seeded change agent7-C03) -/
theorem retyped_sample_refused (c : Better) (d r : BDoc) (hr : c.ref = some r)
    (hroom : c.rows.length < c.maxDeltas) (hlen : (extractDoc d).length = c.last.length)
    (hty : (extractDoc d).map (·.2) ≠ c.last.map (·.2)) :
    c.add d = (c, .types) := by
  unfold Better.add
  simp only [hr]
  rw [if_neg (by omega), if_neg (by simpa using hlen), if_pos hty]

/-- and what is accepted into an open chunk has exactly the chunk's metric types, position by position -/
theorem accepted_sample_has_chunk_types (c : Better) (d r : BDoc) (hr : c.ref = some r)
    (hok : (c.add d).2 = .ok) :
    (extractDoc d).map (·.2) = c.last.map (·.2) ∧ (extractDoc d).length = c.last.length := by
  unfold Better.add at hok
  simp only [hr] at hok
  by_cases h1 : c.rows.length ≥ c.maxDeltas
  · rw [if_pos h1] at hok; cases hok
  · rw [if_neg h1] at hok
    by_cases h2 : (extractDoc d).length ≠ c.last.length
    · rw [if_pos h2] at hok; cases hok
    · rw [if_neg h2] at hok
      by_cases h3 : (extractDoc d).map (·.2) ≠ c.last.map (·.2)
      · rw [if_pos h3] at hok; cases hok
      · exact ⟨by simpa using h3, by simpa using h2⟩

/-! ### the encoder loop as regenerated from the Go text

`Gen.Better.getPayload_region` is the translation (harness/cmd/extract/translate.go, rewritten on every run) of the
statements of `betterCollector.getPayload` between the two count words and the compression: the two nested loops over
metrics and samples with their pending-zero counter, and the final flush.  Its `payload` is the list of values the loop
hands to `encodeValue`; `emitBytes` is their varint encoding. -/

/-- **the Go encoder loop emits the model's zero-run stream** of the metric-major cells of the delta table, for every
table, every size -/
theorem go_encoder_loop_is_model (ds : List Int) (md : Int) (ns nm : Nat)
    (hr : ∀ x ∈ ds, -2 ^ 63 ≤ x ∧ x < 2 ^ 63) (hsz : nm * ns < 2 ^ 63) :
    PayloadTie.emitBytes (Gen.Better.getPayload_region ds md (ns : Int) (nm : Int) [])
      = rleEnc ((PayloadTie.rows ds md ns 0 nm).map (BitVec.ofInt 64)) :=
  PayloadTie.getPayload_region_is_rleEnc ds md ns nm hr hsz

/-- hence the stream the Go loop writes is a spec-conformant token stream, in canonical form, that expands to the cells -/
theorem go_encoder_loop_conformant (ds : List Int) (md : Int) (ns nm : Nat)
    (hr : ∀ x ∈ ds, -2 ^ 63 ≤ x ∧ x < 2 ^ 63) (hsz : nm * ns < 2 ^ 63) :
    PayloadTie.emitBytes (Gen.Better.getPayload_region ds md (ns : Int) (nm : Int) [])
        = encToks (canonAux 0 ((PayloadTie.rows ds md ns 0 nm).map (BitVec.ofInt 64))) ∧
      Canonical (canonAux 0 ((PayloadTie.rows ds md ns 0 nm).map (BitVec.ofInt 64))) ∧
      expand (canonAux 0 ((PayloadTie.rows ds md ns 0 nm).map (BitVec.ofInt 64)))
        = (PayloadTie.rows ds md ns 0 nm).map (BitVec.ofInt 64) := by
  refine ⟨?_, canonAux_canonical _ 0, ?_⟩
  · rw [go_encoder_loop_is_model ds md ns nm hr hsz, rleEnc, encoder_emits_canon]
  · simpa using canonAux_expand ((PayloadTie.rows ds md ns 0 nm).map (BitVec.ofInt 64)) 0

/-- **the model's payload is the payload with the Go loop in it**, whenever the collector's delta table holds the
per-metric deltas of the samples (`TableHolds`: cell (i, j) of `c.deltas` = j-th delta of metric i) -/
theorem go_payload_is_model_payload (ref : BDoc) (first : Row) (rws : List Row) (ds : List Int) (md : Int)
    (h : PayloadTie.TableHolds ds md first rws) (hr : ∀ x ∈ ds, -2 ^ 63 ≤ x ∧ x < 2 ^ 63)
    (hsz : first.length * rws.length < 2 ^ 63) :
    payloadOf ref first rws
      = serDoc ref ++ le32 first.length ++ le32 rws.length
          ++ PayloadTie.emitBytes (Gen.Better.getPayload_region ds md (rws.length : Int) (first.length : Int) []) :=
  PayloadTie.payloadOf_is_go_loop ref first rws ds md h hr hsz

/-- non-vacuity and a run of the generated definition: metrics (5, 5, 5) and (1, 1, 4) after the reference sample:
deltas 0 0 | 0 3 with row length 4 — one run of three zeros across the metric boundary, then the literal -/
example : Gen.Better.getPayload_region [0, 0, 9, 9, 0, 3, 9, 9] 4 2 2 [] = [0, 2, 3] := by decide
example : PayloadTie.TableHolds [0, 0, 9, 9, 0, 3, 9, 9] 4 [5#64, 1#64] [[5#64, 1#64], [5#64, 4#64]] := by
  intro i hi j hj
  have hi' : i < 2 := hi
  have hj' : j < 2 := hj
  match i, j, hi', hj' with
  | 0, 0, _, _ => decide
  | 0, 1, _, _ => decide
  | 1, 0, _, _ => decide
  | 1, 1, _, _ => decide

end Ftdc.Props.C03
