import FtdcVerif.Model.Reader
/-! Helper lemmas for the reader (C04, C09, C11): framing, the refinement of `readAll` to a
sequential fold over framed documents, monotonicity of delivered chunks. Core Lean only. -/
namespace Ftdc

/-- a byte string that is exactly one framed document: size word = length, 5 ≤ length < 2^31 -/
def WellFramed (db : Bytes) : Prop :=
  5 ≤ db.length ∧ db.length < 2 ^ 31 ∧ rdLe (db.take 4) = db.length

theorem takeN_append (db rest : Bytes) : takeN db.length (db ++ rest) = some (db, rest) := by
  simp [takeN]

theorem frame_append {db : Bytes} (h : WellFramed db) (rest : Bytes) :
    frame (db ++ rest) = .ok (some (db, rest)) := by
  obtain ⟨h5, h31, hsz⟩ := h
  have hne : db ++ rest ≠ [] := by
    intro h; have := congrArg List.length h; simp only [List.length_append, List.length_nil] at this; omega
  have h4 : takeN 4 (db ++ rest) = some ((db ++ rest).take 4, (db ++ rest).drop 4) := by
    simp [takeN]; omega
  have ht : (db ++ rest).take 4 = db.take 4 := by
    rw [List.take_append_of_le_length (by omega)]
  unfold frame
  simp only [hne, ite_false, h4, ht, hsz]
  have : ¬ (db.length < 5 ∨ db.length ≥ 2 ^ 31) := by omega
  simp only [this, ite_false, takeN_append]

/-- the reader's state between documents: latest metadata, chunks delivered so far, or the error
that ended the iteration (with the chunks delivered before it) -/
inductive RState where
  | running (md : Option BDoc) (acc : List Chunk)
  | failed (acc : List Chunk) (e : ReadErr)

def RState.chunks : RState → List Chunk
  | .running _ acc => acc
  | .failed acc _ => acc

def RState.result : RState → ReadResult
  | .running _ acc => ⟨acc, none⟩
  | .failed acc e => ⟨acc, some e⟩

/-- one framed document -/
def stepDoc (inflate : Inflate) (s : RState) (db : Bytes) : RState :=
  match s with
  | .failed acc e => .failed acc e
  | .running md acc =>
    match parseDoc db with
    | none => .failed acc .frame
    | some doc =>
      match processDoc inflate doc md with
      | .error e => .failed acc e
      | .ok (md', none) => .running md' acc
      | .ok (md', some c) => .running md' (acc ++ [c])

/-- sequential meaning of the reader over already framed documents -/
def processDocs (inflate : Inflate) (s : RState) (dbs : List Bytes) : RState :=
  dbs.foldl (stepDoc inflate) s

theorem processDocs_failed (inflate : Inflate) (acc : List Chunk) (e : ReadErr) (dbs : List Bytes) :
    processDocs inflate (.failed acc e) dbs = .failed acc e := by
  induction dbs with
  | nil => rfl
  | cons db rest ih => simpa [processDocs, stepDoc] using ih

/-- the reader on framed documents followed by any tail: it steps through the documents and
continues on the tail with what is left of the fuel -/
theorem readAllAux_framed (inflate : Inflate) : ∀ (dbs : List Bytes) (fuel : Nat) (md : Option BDoc)
    (acc : List Chunk) (tail : Bytes), (∀ db ∈ dbs, WellFramed db) → dbs.length < fuel →
    readAllAux inflate fuel (dbs.flatten ++ tail) md acc =
      match processDocs inflate (.running md acc) dbs with
      | .running md' acc' => readAllAux inflate (fuel - dbs.length) tail md' acc'
      | .failed acc' e => ⟨acc', some e⟩ := by
  intro dbs
  induction dbs with
  | nil => intro fuel md acc tail _ _; simp [processDocs]
  | cons db rest ih =>
    intro fuel md acc tail hw hf
    obtain ⟨f, rfl⟩ : ∃ f, fuel = f + 1 := ⟨fuel - 1, by simp at hf; omega⟩
    have hdb := hw db (by simp)
    have hrest : ∀ x ∈ rest, WellFramed x := fun x hx => hw x (by simp [hx])
    have hfl : rest.length < f := by simp at hf; omega
    have hsub : f + 1 - (db :: rest).length = f - rest.length := by simp
    simp only [List.flatten_cons, List.append_assoc, readAllAux, frame_append hdb, processDocs,
      List.foldl_cons, stepDoc, hsub]
    cases parseDoc db with
    | none =>
      have := processDocs_failed inflate acc .frame rest
      simp only [processDocs] at this; simp [this]
    | some doc =>
      simp only
      cases processDoc inflate doc md with
      | error e =>
        have := processDocs_failed inflate acc e rest
        simp only [processDocs] at this; simp [this]
      | ok r =>
        obtain ⟨md', oc⟩ := r
        cases oc with
        | none => simpa [processDocs] using ih f md' acc tail hrest hfl
        | some c => simpa [processDocs] using ih f md' (acc ++ [c]) tail hrest hfl

theorem flatten_length_ge (dbs : List Bytes) (h : ∀ db ∈ dbs, WellFramed db) :
    dbs.length ≤ dbs.flatten.length := by
  induction dbs with
  | nil => simp
  | cons db rest ih =>
    have := (h db (by simp)).1
    have := ih (fun x hx => h x (by simp [hx]))
    simp only [List.length_cons, List.flatten_cons, List.length_append]; omega

/-- **Refinement**: on a concatenation of framed documents `ReadChunks` is the sequential fold of
`stepDoc` over those documents. -/
theorem readAll_framed (inflate : Inflate) (dbs : List Bytes) (h : ∀ db ∈ dbs, WellFramed db) :
    readAll inflate dbs.flatten = (processDocs inflate (.running none []) dbs).result := by
  unfold readAll
  have hf : dbs.length < dbs.flatten.length + 1 := by have := flatten_length_ge dbs h; omega
  have := readAllAux_framed inflate dbs _ none [] [] h hf
  simp only [List.append_nil] at this
  rw [this]
  cases processDocs inflate (.running none []) dbs with
  | failed acc e => rfl
  | running md acc =>
    simp only [RState.result]
    obtain ⟨k, hk⟩ : ∃ k, dbs.flatten.length + 1 - dbs.length = k + 1 := ⟨dbs.flatten.length - dbs.length, by omega⟩
    rw [hk]; simp [readAllAux, frame]

/-- chunks already delivered are never retracted -/
theorem stepDoc_chunks_prefix (inflate : Inflate) (s : RState) (db : Bytes) :
    s.chunks <+: (stepDoc inflate s db).chunks := by
  cases s with
  | failed acc e => simp [stepDoc, RState.chunks]
  | running md acc =>
    simp only [stepDoc]
    cases parseDoc db with
    | none => simp [RState.chunks]
    | some doc =>
      simp only
      cases processDoc inflate doc md with
      | error e => simp [RState.chunks]
      | ok r =>
        obtain ⟨md', oc⟩ := r
        cases oc with
        | none => simp [RState.chunks]
        | some c => simp [RState.chunks]

theorem processDocs_chunks_prefix (inflate : Inflate) (dbs : List Bytes) : ∀ (s : RState),
    s.chunks <+: (processDocs inflate s dbs).chunks := by
  induction dbs with
  | nil => intro s; simp [processDocs]
  | cons db rest ih =>
    intro s
    exact List.IsPrefix.trans (stepDoc_chunks_prefix inflate s db) (ih (stepDoc inflate s db))

theorem processDocs_append (inflate : Inflate) (s : RState) (a b : List Bytes) :
    processDocs inflate s (a ++ b) = processDocs inflate (processDocs inflate s a) b := by
  simp [processDocs, List.foldl_append]

/-- a non-empty tail that is not a complete framed document: fewer than 4 bytes, a size word
below 5 or ≥ 2^31, or fewer bytes than the size word announces -/
def Incomplete (cut : Bytes) : Prop :=
  cut ≠ [] ∧ (cut.length < 4 ∨ rdLe (cut.take 4) < 5 ∨ rdLe (cut.take 4) ≥ 2 ^ 31 ∨ cut.length < rdLe (cut.take 4))

theorem frame_incomplete {cut : Bytes} (h : Incomplete cut) : frame cut = .error .frame := by
  obtain ⟨hne, hc⟩ := h
  unfold frame
  simp only [hne, ite_false]
  by_cases h4 : cut.length < 4
  · simp [takeN, h4]
  · have : takeN 4 cut = some (cut.take 4, cut.drop 4) := by simp [takeN, h4]
    simp only [this]
    by_cases hs : rdLe (cut.take 4) < 5 ∨ rdLe (cut.take 4) ≥ 2 ^ 31
    · simp [hs]
    · simp only [hs, ite_false]
      have : cut.length < rdLe (cut.take 4) := by omega
      simp [takeN, this]


theorem readAllAux_chunks_prefix (inflate : Inflate) : ∀ (fuel : Nat) (bs : Bytes) (md : Option BDoc)
    (acc : List Chunk), acc <+: (readAllAux inflate fuel bs md acc).chunks := by
  intro fuel
  induction fuel with
  | zero => intro bs md acc; simp [readAllAux]
  | succ f ih =>
    intro bs md acc
    simp only [readAllAux]
    cases frame bs with
    | error e => simp
    | ok o =>
      cases o with
      | none => simp
      | some p =>
        obtain ⟨db, rest⟩ := p
        simp only
        cases parseDoc db with
        | none => simp
        | some doc =>
          simp only
          cases processDoc inflate doc md with
          | error e => simp
          | ok r =>
            obtain ⟨md', oc⟩ := r
            cases oc with
            | none => exact ih rest md' acc
            | some c => exact List.IsPrefix.trans (List.prefix_append acc [c]) (ih rest md' (acc ++ [c]))

/-- whether a framed document is a metadata document (`type` numerically 0) -/
def isMetaDoc (db : Bytes) : Option BDoc :=
  match parseDoc db with
  | some d => if isNum 0 (lookupLast keyType d) then some d else none
  | none => none

/-- the most recent metadata document among framed documents -/
def latestMeta (dbs : List Bytes) : Option BDoc := (dbs.filterMap isMetaDoc).getLast?

theorem processDoc_meta (inflate : Inflate) (doc : BDoc) (md md' : Option BDoc) (oc : Option Chunk)
    (h : processDoc inflate doc md = .ok (md', oc)) :
    (md' = if isNum 0 (lookupLast keyType doc) then some doc else md) ∧
    (∀ c, oc = some c → c.metadata = md ∧ ¬ isNum 0 (lookupLast keyType doc) = true) := by
  unfold processDoc at h
  by_cases h0 : isNum 0 (lookupLast keyType doc) = true
  · simp only [h0, ite_true] at h
    injection h with h; injection h with h1 h2
    subst h1; subst h2; simp [h0]
  · simp only [h0] at h
    by_cases h1 : isNum 1 (lookupLast keyType doc) = true
    · simp only [h1, Bool.not_true, ite_false, Bool.false_eq_true] at h
      split at h
      · cases h
      · rename_i raw _
        split at h
        · cases h
        · split at h
          · cases h
          · split at h
            · cases h
            · split at h
              · injection h with h; injection h with ha hb
                subst ha; subst hb
                refine ⟨by simp [h0], ?_⟩
                intro c hc; injection hc with hc; subst hc; exact ⟨rfl, h0⟩
              · cases h
      · cases h
    · simp only [h1, Bool.not_false, ite_true] at h
      injection h with h; injection h with ha hb
      subst ha; subst hb
      exact ⟨by simp [h0], by intro c hc; cases hc⟩

end Ftdc
