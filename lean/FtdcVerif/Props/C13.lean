import FtdcVerif.Lemmas.Hdr
/-!
# C13 — quantiles, merges, windows and snapshots agree with an exact oracle

Proved here for every configuration and every list of recorded values: snapshots reproduce the
histogram (`Import(Export(h)) = h`), counts never go negative, the total is the sum of the
counts (so merging by re-recording representatives conserves counts: recorded + dropped).
The order-statistic clauses (quantile = representative of the exact order statistic, monotone
in q; Min/Max/Mean within the precision bound; merge = union; window = union of the last n
windows) are decided on every run by the exact sorted-list oracle of the `hdr-stat` stream and
by model/implementation agreement; their Lean statements are recorded below as `def … : Prop`
and are not yet proved (partial, see DESIGN.md §6).
-/
namespace Ftdc.Props.C13
open Ftdc.Hdr

/-- **Export/Import reproduce an equal histogram**, whatever was recorded -/
theorem import_export_identity (minV : Int) (maxV s : Nat) (vs : List Int) :
    import_ (export_ (recordAll (new minV maxV s) vs)) = recordAll (new minV maxV s) vs :=
  import_export minV maxV s vs

/-- counts are never negative, so `Import`'s "sum of the positive counts" is the total -/
theorem counts_nonneg (minV : Int) (maxV s : Nat) (vs : List Int) :
    NonNeg (recordAll (new minV maxV s) vs) :=
  recordAll_nonneg vs _ (by intro c hc; simp [new] at hc; omega)

/-- recording `n` occurrences at once adds exactly `n` to the total and to one count -/
theorem record_many (h h' : Hist) (v n : Int) (inv : Inv h) (he : recordValues h v n = some h') :
    h'.total = h.total + n ∧ h'.counts.sum = h.counts.sum + n ∧ SameCfg h h' := by
  obtain ⟨i, t, c⟩ := recordValues_spec he inv
  exact ⟨t, by rw [i.2, t, inv.2], c⟩

/-- one merge step conserves counts: a representative is either recorded (its count is added)
or dropped (its count goes to `dropped`) -/
theorem merge_step_conserves (acc : Hist × Int) (p : IterPos) (inv : Inv acc.1) :
    let r := match recordValues acc.1 p.valueFrom p.countAt with
      | some h' => (h', acc.2)
      | none => (acc.1, acc.2 + p.countAt)
    r.1.total + r.2 = acc.1.total + acc.2 + p.countAt ∧ Inv r.1 := by
  cases he : recordValues acc.1 p.valueFrom p.countAt with
  | none => simp only []; exact ⟨by omega, inv⟩
  | some h' =>
    obtain ⟨i, t, _⟩ := recordValues_spec he inv
    simp only []
    exact ⟨by rw [t]; omega, i⟩

/-- full statement (not yet proved): the value at rank r is the representative of the r-th
smallest recorded value -/
def quantile_is_order_statistic : Prop :=
  ∀ (minV : Int) (maxV s : Nat) (vs : List Nat) (r : Nat), Valid minV maxV s → (∀ v ∈ vs, v ≤ maxV) →
    1 ≤ r → r ≤ vs.length →
    ∃ sorted : List Nat, sorted.Perm vs ∧ sorted.Pairwise (· ≤ ·) ∧
      valueAtRank (recordAll (new minV maxV s) (vs.map Int.ofNat)) r =
        highestEquiv (new minV maxV s) (sorted.getD (r - 1) 0)

/-! non-vacuity -/
example : import_ (export_ (recordAll (new 1 100 2) [5, 5, 99, 1000, -3])) =
    recordAll (new 1 100 2) [5, 5, 99, 1000, -3] := import_export_identity _ _ _ _

end Ftdc.Props.C13
