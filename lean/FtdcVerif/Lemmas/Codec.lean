import FtdcVerif.Model.Codec
/-! Helper lemmas for the codec (C01, C03): varints, deltas, zero runs. Core Lean only. -/
namespace Ftdc

/-! ### unsigned varints -/

theorem readUvarintAux_put (x : Nat) : ∀ (fuel acc s : Nat) (rest : Bytes),
    0 < fuel → x < 2 ^ (7 * fuel - 6) →
    readUvarintAux fuel acc s (putUvarint x ++ rest) = some (acc + x * 2 ^ s, rest) := by
  induction x using Nat.strongRecOn with
  | _ x ih =>
    intro fuel acc s rest hpos hlt
    obtain ⟨f, rfl⟩ : ∃ f, fuel = f + 1 := ⟨fuel - 1, by omega⟩
    rw [putUvarint]
    by_cases hx : x < 128
    · simp only [hx, dite_true, List.cons_append, List.nil_append, readUvarintAux, ite_true]
      have : ¬ (f = 0 ∧ x > 1) := by
        intro ⟨hf, hgt⟩; subst hf; simp at hlt; omega
      simp [this]
    · simp only [hx, dite_false, List.cons_append, readUvarintAux]
      have hb : ¬ (x % 128 + 128 < 128) := by omega
      simp only [hb, ite_false]
      have hmod : (x % 128 + 128) % 128 = x % 128 := by omega
      rw [hmod]
      have hf : 0 < f := by
        rcases f with _ | f
        · simp at hlt; omega
        · omega
      have hlt' : x / 128 < 2 ^ (7 * f - 6) := by
        rw [Nat.div_lt_iff_lt_mul (by omega)]
        have : 2 ^ (7 * (f + 1) - 6) = 2 ^ (7 * f - 6) * 128 := by
          have e : 7 * (f + 1) - 6 = (7 * f - 6) + 7 := by omega
          rw [e, Nat.pow_add]
        omega
      rw [ih (x / 128) (by omega) f _ (s + 7) rest hf hlt']
      congr 1
      have h7 : (2:Nat) ^ 7 = 128 := by decide
      rw [Nat.pow_add, h7, Nat.add_assoc]
      congr 1
      have hdm := Nat.div_add_mod x 128
      generalize 2 ^ s = p
      generalize x / 128 = q at *
      generalize x % 128 = r at *
      subst hdm
      rw [Nat.add_mul, Nat.mul_comm 128 q, Nat.mul_assoc q 128 p, Nat.mul_comm 128 p, ← Nat.mul_assoc]
      omega

/-- `binary.ReadUvarint` inverts `binary.PutUvarint` on every uint64 -/
theorem readUvarint_putUvarint (x : Nat) (hx : x < 2 ^ 64) (rest : Bytes) :
    readUvarint (putUvarint x ++ rest) = some (x, rest) := by
  unfold readUvarint
  rw [readUvarintAux_put x 10 0 0 rest (by omega) (by simpa using hx)]
  simp

theorem putUvarint_bytesOk (x : Nat) : BytesOk (putUvarint x) := by
  induction x using Nat.strongRecOn with
  | _ x ih =>
    rw [putUvarint]
    by_cases hx : x < 128
    · simp only [hx, dite_true]; intro b hb; simp at hb; omega
    · simp only [hx, dite_false]
      intro b hb
      simp only [List.mem_cons] at hb
      rcases hb with rfl | hb
      · omega
      · exact ih (x / 128) (by omega) b hb

/-! ### deltas -/

theorem undelta_deltas (v : I64) (xs : List I64) : undelta v (deltas v xs) = v :: xs := by
  induction xs generalizing v with
  | nil => rfl
  | cons x xs ih =>
    simp only [deltas, undelta]
    rw [BitVec.add_comm, BitVec.sub_add_cancel, ih]

theorem deltas_length (v : I64) (xs : List I64) : (deltas v xs).length = xs.length := by
  induction xs generalizing v with
  | nil => rfl
  | cons x xs ih => simp [deltas, ih]


/-! ### zero runs -/

theorem rleDecAux_zeros : ∀ (k nz : Nat) (bs : Bytes), k ≤ nz →
    rleDecAux k nz bs = some (List.replicate k 0#64, nz - k, bs) := by
  intro k
  induction k with
  | zero => intro nz bs _; simp [rleDecAux]
  | succ k ih =>
    intro nz bs h
    have hnz : nz ≠ 0 := by omega
    simp only [rleDecAux, hnz, ne_eq, not_false_eq_true, ite_true]
    rw [ih (nz - 1) bs (by omega)]
    simp [List.replicate_succ]; omega

theorem rleDecAux_append : ∀ (a b nz : Nat) (bs : Bytes),
    rleDecAux (a + b) nz bs =
      (rleDecAux a nz bs).bind fun x =>
        (rleDecAux b x.2.1 x.2.2).map fun y => (x.1 ++ y.1, y.2.1, y.2.2) := by
  intro a
  induction a with
  | zero => intro b nz bs; simp [rleDecAux]
  | succ a ih =>
    intro b nz bs
    have e : a + 1 + b = (a + b) + 1 := by omega
    rw [e]
    simp only [rleDecAux]
    by_cases hnz : nz ≠ 0
    · rw [if_pos hnz, if_pos hnz, ih]
      cases rleDecAux a (nz - 1) bs with
      | none => first | rfl | simp
      | some x =>
        simp only [Option.bind_some]
        cases rleDecAux b x.2.1 x.2.2 with
        | none => first | rfl | simp
        | some y => first | rfl | simp
    · rw [if_neg hnz, if_neg hnz]
      cases readUvarint bs with
      | none => first | rfl | simp
      | some dr =>
        obtain ⟨d, r⟩ := dr
        simp only
        by_cases hd : d = 0
        · simp only [hd, ite_true]
          cases readUvarint r with
          | none => first | rfl | simp
          | some zr =>
            obtain ⟨z, r'⟩ := zr
            simp only
            rw [ih]
            cases rleDecAux a z r' with
            | none => first | rfl | simp
            | some x =>
              simp only [Option.bind_some]
              cases rleDecAux b x.2.1 x.2.2 with
              | none => first | rfl | simp
              | some y => first | rfl | simp
        · simp only [hd, ite_false]
          rw [ih]
          cases rleDecAux a 0 r with
          | none => first | rfl | simp
          | some x =>
            simp only [Option.bind_some]
            cases rleDecAux b x.2.1 x.2.2 with
            | none => first | rfl | simp
            | some y => first | rfl | simp

theorem encodeValue_read (d : I64) (rest : Bytes) :
    readUvarint (encodeValue d ++ rest) = some (d.toNat, rest) :=
  readUvarint_putUvarint d.toNat d.isLt rest

/-- the zero-run/varint stream decodes to the deltas it encodes (any pending zero count) -/
theorem rle_roundtrip : ∀ (ds : List I64) (zc : Nat) (rest : Bytes), zc + ds.length < 2 ^ 64 →
    rleDecAux (zc + ds.length) 0 (rleEncAux zc ds ++ rest) =
      some (List.replicate zc 0#64 ++ ds, 0, rest) := by
  intro ds
  induction ds with
  | nil =>
    intro zc rest hlen
    simp only [rleEncAux, List.length_nil, Nat.add_zero, List.append_nil]
    by_cases hz : zc > 0
    · simp only [hz, ite_true]
      obtain ⟨k, rfl⟩ : ∃ k, zc = k + 1 := ⟨zc - 1, by omega⟩
      simp only [rleDecAux, ne_eq, not_true_eq_false, ite_false, List.append_assoc]
      rw [readUvarint_putUvarint 0 (by omega)]
      simp only [ite_true]
      rw [readUvarint_putUvarint _ (by simp at hlen ⊢; omega)]
      simp only [Nat.add_sub_cancel]
      rw [rleDecAux_zeros k k rest (Nat.le_refl _)]
      simp [List.replicate_succ]
    · have : zc = 0 := by omega
      subst this; simp [rleDecAux]
  | cons d ds ih =>
    intro zc rest hlen
    simp only [rleEncAux]
    by_cases hd : d = 0#64
    · simp only [hd, ite_true]
      have := ih (zc + 1) rest (by simp at hlen ⊢; omega)
      have e : zc + (0#64 :: ds).length = zc + 1 + ds.length := by simp; omega
      rw [e, this]
      simp [List.replicate_succ']
    · simp only [hd, ite_false]
      have hdn : d.toNat ≠ 0 := by
        intro h; apply hd; apply BitVec.eq_of_toNat_eq; simpa using h
      have hback : BitVec.ofNat 64 d.toNat = d := by simp
      have htail := ih 0 rest (by simp at hlen ⊢; omega)
      simp only [Nat.zero_add, List.replicate_zero, List.nil_append] at htail
      by_cases hz : zc > 0
      · simp only [hz, ite_true]
        obtain ⟨k, rfl⟩ : ∃ k, zc = k + 1 := ⟨zc - 1, by omega⟩
        have e : k + 1 + (d :: ds).length = (k + (1 + ds.length)) + 1 := by simp; omega
        rw [e]
        simp only [rleDecAux, ne_eq, not_true_eq_false, ite_false, List.append_assoc]
        rw [readUvarint_putUvarint 0 (by omega)]
        simp only [ite_true]
        rw [readUvarint_putUvarint _ (by simp at hlen ⊢; omega)]
        simp only [Nat.add_sub_cancel]
        rw [rleDecAux_append, rleDecAux_zeros k k _ (Nat.le_refl _)]
        simp only [Option.bind_some, Nat.sub_self]
        have e2 : 1 + ds.length = ds.length + 1 := by omega
        rw [e2]
        simp only [rleDecAux, ne_eq, not_true_eq_false, ite_false]
        rw [encodeValue_read]
        simp only [hdn, ite_false]
        rw [htail]
        simp [hback, List.replicate_succ]
      · have : zc = 0 := by omega
        subst this
        simp only [Nat.lt_irrefl, ite_false, List.nil_append, Nat.zero_add, List.length_cons,
          List.replicate_zero, gt_iff_lt]
        simp only [rleDecAux, ne_eq, not_true_eq_false, ite_false, List.append_assoc]
        rw [encodeValue_read]
        simp only [hdn, ite_false]
        rw [htail]
        simp [hback]


/-! ### leaf values survive bit for bit -/

/-- the range Go can express in nanoseconds: |ms| ≤ MaxInt64 / 10^6 -/
def InNanoRange (ms : I64) : Prop := -9223372036854 ≤ ms.toInt ∧ ms.toInt ≤ 9223372036854

theorem bmod_small (x : Int) (h1 : -(2:Int)^63 ≤ x) (h2 : x < (2:Int)^63) : x.bmod (2^64) = x := by
  unfold Int.bmod
  simp only
  omega

theorem normDT_inRange (ms : I64) (h : InNanoRange ms) : normDT ms = ms := by
  obtain ⟨h1, h2⟩ := h
  apply BitVec.eq_of_toInt_eq
  unfold normDT
  rw [BitVec.toInt_sdiv, BitVec.toInt_mul]
  have hc : (1000000#64 : BitVec 64).toInt = 1000000 := by decide
  rw [hc]
  have hm : (ms.toInt * 1000000).bmod (2 ^ 64) = ms.toInt * 1000000 := by
    apply bmod_small <;> omega
  rw [hm, Int.mul_tdiv_cancel _ (by omega)]
  apply bmod_small <;> omega

theorem signExt_truncate (v : BitVec 32) : (signExt32 v).truncate 32 = v := by
  unfold signExt32
  ext i hi
  simp [BitVec.getLsbD_signExtend, hi]
  omega

theorem zeroExt_truncate (v : BitVec 32) : (v.zeroExtend 64).truncate 32 = v := by
  ext i hi
  simp
  
theorem bool_restore (b : Bool) : ((if b then 1#64 else 0#64) != 0#64) = b := by
  cases b <;> decide

/-! ### restoring a document from its extracted values -/

mutual
/-- every datetime leaf is within the range Go can express in nanoseconds -/
def DatesOkVal : BVal → Prop
  | .datetime ms => InNanoRange ms
  | .doc d => DatesOk d
  | .arr d => DatesOk d
  | _ => True
def DatesOk : BDoc → Prop
  | .nil => True
  | .cons _ v r => DatesOkVal v ∧ DatesOk r
end

def vals (d : BDoc) : Row := (extractDoc d).map (·.1)
def valsV (v : BVal) : Row := (extractVal v).map (·.1)

theorem getD_mid (pre post : Row) (x : I64) : (pre ++ x :: post).getD pre.length 0 = x := by
  simp [List.getD_eq_getElem?_getD]

mutual
theorem restoreVal_extract : (v : BVal) → DatesOkVal v → ∀ (pre post : Row),
    restoreVal (pre ++ valsV v ++ post) pre.length v = (projVal v, pre.length + (valsV v).length)
  | .double b, _, pre, post => by
    simp [restoreVal, valsV, extractVal, projVal, getD_mid]
  | .doc d, h, pre, post => by
    have := restoreElems_extract d h pre post
    simp only [restoreVal, valsV, extractVal, projVal] at this ⊢
    simp only [vals] at this
    rw [this]
  | .arr d, h, pre, post => by
    have := restoreArr_extract d h pre post 0
    simp only [restoreVal, valsV, extractVal, projVal] at this ⊢
    simp only [vals] at this
    rw [this]
  | .bool b, _, pre, post => by
    simp [restoreVal, valsV, extractVal, projVal, getD_mid, bool_restore]
  | .datetime ms, h, pre, post => by
    simp [restoreVal, valsV, extractVal, projVal, getD_mid, restoreDT, normDT_inRange ms h]
  | .int32 v, _, pre, post => by
    simp [restoreVal, valsV, extractVal, projVal, getD_mid, signExt_truncate]
  | .timestamp t i, _, pre, post => by
    have h2 : (pre ++ t.zeroExtend 64 :: i.zeroExtend 64 :: post).getD (pre.length + 1) 0 = i.zeroExtend 64 := by
      have := getD_mid (pre ++ [t.zeroExtend 64]) post (i.zeroExtend 64)
      simpa using this
    simp [restoreVal, valsV, extractVal, projVal, getD_mid, h2, zeroExt_truncate]
  | .int64 v, _, pre, post => by
    simp [restoreVal, valsV, extractVal, projVal, getD_mid]
  | .other t raw, _, pre, post => by
    simp [restoreVal, valsV, extractVal, projVal]
theorem restoreElems_extract : (d : BDoc) → DatesOk d → ∀ (pre post : Row),
    restoreElems (pre ++ vals d ++ post) pre.length d = (projElems d, pre.length + (vals d).length)
  | .nil, _, pre, post => by simp [restoreElems, vals, extractDoc, projElems]
  | .cons k v r, h, pre, post => by
    have hv := restoreVal_extract v h.1 pre (vals r ++ post)
    have hr := restoreElems_extract r h.2 (pre ++ valsV v) post
    have e1 : pre ++ vals (.cons k v r) ++ post = pre ++ valsV v ++ (vals r ++ post) := by
      simp [vals, valsV, extractDoc]
    have e2 : pre ++ valsV v ++ vals r ++ post = pre ++ valsV v ++ (vals r ++ post) := by simp
    simp only [restoreElems, e1, hv]
    rw [e2] at hr
    have hl : (pre ++ valsV v).length = pre.length + (valsV v).length := by simp
    rw [hl] at hr
    rw [hr]
    simp only [projElems]
    have hlen : (vals (.cons k v r)).length = (valsV v).length + (vals r).length := by
      simp [vals, valsV, extractDoc]
    cases projVal v <;> simp [hlen] <;> omega
theorem restoreArr_extract : (d : BDoc) → DatesOk d → ∀ (pre post : Row) (pos : Nat),
    restoreArr (pre ++ vals d ++ post) pre.length pos d = (projArr pos d, pre.length + (vals d).length)
  | .nil, _, pre, post, pos => by simp [restoreArr, vals, extractDoc, projArr]
  | .cons k v r, h, pre, post, pos => by
    have hv := restoreVal_extract v h.1 pre (vals r ++ post)
    have e1 : pre ++ vals (.cons k v r) ++ post = pre ++ valsV v ++ (vals r ++ post) := by
      simp [vals, valsV, extractDoc]
    have e2 : pre ++ valsV v ++ vals r ++ post = pre ++ valsV v ++ (vals r ++ post) := by simp
    have hl : (pre ++ valsV v).length = pre.length + (valsV v).length := by simp
    have hlen : (vals (.cons k v r)).length = (valsV v).length + (vals r).length := by
      simp [vals, valsV, extractDoc]
    simp only [restoreArr, e1, hv]
    cases hp : projVal v with
    | none =>
      have hr := restoreArr_extract r h.2 (pre ++ valsV v) post pos
      rw [e2, hl] at hr
      simp only [projArr, hp, hr, hlen]
      congr 1; omega
    | some x =>
      have hr := restoreArr_extract r h.2 (pre ++ valsV v) post (pos + 1)
      rw [e2, hl] at hr
      simp only [projArr, hp, hr, hlen]
      congr 1; omega
end

/-- restoring a document from its own extracted values yields the document with its non-metric
leaves removed -/
theorem restore_extract (d : BDoc) (h : DatesOk d) : restoreDoc d (vals d) = project d := by
  have := restoreElems_extract d h [] []
  simp only [List.nil_append, List.append_nil, List.length_nil] at this
  simp [restoreDoc, project, this]


end Ftdc
