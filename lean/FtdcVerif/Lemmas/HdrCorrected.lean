import FtdcVerif.Lemmas.HdrRank
/-! `RecordCorrectedValue` (hdr.go): the back-fill loop records exactly the values it stands for. -/
namespace Ftdc.Hdr

theorem recordAll_cons_ok (h h' : Hist) (v : Int) (vs : List Int) (hr : recordValue h v = some h') :
    recordAll h (v :: vs) = recordAll h' vs := by
  simp [recordAll, hr]

/-- the back-fill loop records exactly the values it stands for, as long as each is accepted -/
theorem correctedLoop_spec (fuel : Nat) : ∀ (h : Hist) (m ei : Int),
    (∀ x ∈ correctedValuesFrom fuel m ei, ∀ g : Hist, SameCfg h g → accepts g x = true) →
    correctedLoop fuel h m ei = (recordAll h (correctedValuesFrom fuel m ei), true) := by
  induction fuel with
  | zero => intro h m ei _; simp [correctedLoop, correctedValuesFrom, recordAll]
  | succ f ih =>
    intro h m ei hacc
    simp only [correctedLoop, correctedValuesFrom]
    by_cases hm : m ≥ ei
    · simp only [hm, if_true]
      have ha := hacc m (by simp [correctedValuesFrom, hm]) h rfl
      have hs : (recordValue h m).isSome = true := by
        unfold recordValue; rw [recordValues_isSome]; exact ha
      obtain ⟨h', hr⟩ := Option.isSome_iff_exists.mp hs
      simp only [hr]
      rw [recordAll_cons_ok h h' m _ hr]
      apply ih
      intro x hx g hg
      apply hacc x (by simp [correctedValuesFrom, hm, hx]) g
      -- h' has h's configuration
      have hcfg : SameCfg h h' := by
        unfold recordValue recordValues at hr
        by_cases hv : m < 0
        · simp [hv] at hr
        · simp only [hv, ite_false] at hr
          by_cases hi : countsIndexFor h m.toNat < 0 ∨ (h.countsLen : Int) ≤ countsIndexFor h m.toNat
          · simp [hi] at hr
          · simp only [hi, ite_false, Option.some.injEq] at hr
            subst hr; rfl
      exact SameCfg.trans hcfg hg
    · simp [hm, recordAll]

/-- **`RecordCorrectedValue` records exactly the values it stands for**: `v` and, for a stall (`v > ei > 0`), every
`v - k·ei` down to the last one that is still `≥ ei` - provided `v` itself is accepted (every smaller non-negative
value then is, `accepts_iff`): no error, and the histogram is the one obtained by recording that list value by value -/
theorem recordCorrected_spec {h : Hist} (wf : WF h) (v ei : Int) (hv : accepts h v = true) (h63 : v < 2 ^ 63) :
    recordCorrected h v ei = (recordAll h (correctedValues v ei), true) := by
  have hs : (recordValue h v).isSome = true := by
    unfold recordValue; rw [recordValues_isSome]; exact hv
  obtain ⟨h1, hr⟩ := Option.isSome_iff_exists.mp hs
  have hcfg : SameCfg h h1 := by
    unfold recordValue recordValues at hr
    by_cases hv0 : v < 0
    · simp [hv0] at hr
    · simp only [hv0, ite_false] at hr
      by_cases hi : countsIndexFor h v.toNat < 0 ∨ (h.countsLen : Int) ≤ countsIndexFor h v.toNat
      · simp [hi] at hr
      · simp only [hi, ite_false, Option.some.injEq] at hr
        subst hr; rfl
  unfold recordCorrected correctedValues
  simp only [hr]
  by_cases hc : ei ≤ 0 ∨ v ≤ ei
  · simp only [hc, if_true]; rw [recordAll_cons_ok h h1 v [] hr]; rfl
  · simp only [hc, if_false]
    rw [recordAll_cons_ok h h1 v _ hr]
    apply correctedLoop_spec
    intro x hx g hg
    -- every value of the list lies in [ei, v - ei] with ei > 0: accepted because v is
    have hb : ∀ (fuel : Nat) (m : Int), ∀ y ∈ correctedValuesFrom fuel m ei, ei ≤ y ∧ y ≤ m := by
      intro fuel
      induction fuel with
      | zero => intro m y hy; simp [correctedValuesFrom] at hy
      | succ f ih =>
        intro m y hy
        simp only [correctedValuesFrom] at hy
        by_cases hm : m ≥ ei
        · simp only [hm, if_true, List.mem_cons] at hy
          rcases hy with rfl | hy
          · exact ⟨hm, Int.le_refl _⟩
          · have := ih (m - ei) y hy; omega
        · simp [hm] at hy
    obtain ⟨hx1, hx2⟩ := hb _ _ x hx
    have hei : 0 < ei := by omega
    have hva := (accepts_iff wf h63).mp hv
    have hcfg2 : SameCfg h g := SameCfg.trans hcfg hg
    rw [← accepts_congr hcfg2]
    exact (accepts_iff wf (by omega)).mpr ⟨by omega, by omega⟩

end Ftdc.Hdr
