import FtdcVerif.Lemmas.SDynE2E
/-!
# Exact chunk boundaries of the schema-aware streaming collector

`Chop n s g`: the chunks `g` are the run `s` cut at capacity — they concatenate to the run, none holds
more than `n` documents, and only the last may hold fewer.  `Chops n segs groups`: one such group per run.
-/
namespace Ftdc

def Chop (n : Nat) (s : BDoc × List BDoc) (g : List (BDoc × List BDoc)) : Prop :=
  g ≠ [] ∧ (g.map chunkDocs).flatten = chunkDocs s ∧ (∀ q ∈ g, q.2.length + 1 ≤ n) ∧
    (∀ q ∈ g.dropLast, q.2.length + 1 = n)

def Chops (n : Nat) : List (BDoc × List BDoc) → List (List (BDoc × List BDoc)) → Prop
  | [], [] => True
  | s :: ss, g :: gs => Chop n s g ∧ Chops n ss gs
  | _, _ => False

theorem chops_snoc (n : Nat) : ∀ (ss : List (BDoc × List BDoc)) (gs : List (List (BDoc × List BDoc)))
    (s : BDoc × List BDoc) (g : List (BDoc × List BDoc)), Chops n ss gs → Chop n s g → Chops n (ss ++ [s]) (gs ++ [g])
  | [], [], s, g, _, h => by simp [Chops, h]
  | [], _ :: _, _, _, h, _ => by simp [Chops] at h
  | _ :: _, [], _, _, h, _ => by simp [Chops] at h
  | s0 :: ss, g0 :: gs, s, g, h, hh => by
    simp only [Chops, List.cons_append] at h ⊢
    exact ⟨h.1, chops_snoc n ss gs s g h.2 hh⟩

/-- closing a run: the full chunks written for it followed by the pending one are its cut at capacity -/
theorem chop_close (n : Nat) (h : BDoc) (cur : List BDoc) (cg : List (BDoc × List BDoc)) (p : BDoc × List BDoc)
    (hdocs : (cg.map chunkDocs).flatten ++ chunkDocs p = h :: cur) (hfull : ∀ q ∈ cg, q.2.length + 1 = n)
    (hp : p.2.length + 1 ≤ n) : Chop n (h, cur) (cg ++ [p]) := by
  refine ⟨by simp, by simpa [chunkDocs] using hdocs, ?_, ?_⟩
  · intro q hq
    rcases List.mem_append.1 hq with hq | hq
    · have := hfull q hq; omega
    · simp at hq; rw [hq]; exact hp
  · intro q hq
    rw [List.dropLast_concat] at hq
    exact hfull q hq

/-- the collector, the runs already closed, and the head and tail so far of the run being added -/
def SDX (n : Nat) (c : StreamingDynamic) (done : List (BDoc × List BDoc)) (h : BDoc) (cur : List BDoc) : Prop :=
  ∃ (chs : List (BDoc × List BDoc)) (p : BDoc × List BDoc) (gs : List (List (BDoc × List BDoc)))
    (cg : List (BDoc × List BDoc)),
    SDG n c chs p ∧ SimDoc p.1 h ∧ chs = gs.flatten ++ cg ∧ Chops n done gs ∧
    (cg.map chunkDocs).flatten ++ chunkDocs p = h :: cur ∧ (∀ q ∈ cg, q.2.length + 1 = n)

theorem sdx_first (n : Nat) (hn : 1 ≤ n) (d : BDoc) : SDX n ((StreamingDynamic.new n).add d).1 [] d [] := by
  obtain ⟨_, g⟩ := sd_add_first n hn d
  exact ⟨[], (d, []), [], [], g, simDoc_refl _, by simp, by simp [Chops], by simp [chunkDocs], by simp⟩

theorem sdx_same (n : Nat) (hn : 1 ≤ n) (c : StreamingDynamic) (done : List (BDoc × List BDoc)) (h : BDoc)
    (cur : List BDoc) (d : BDoc) (x : SDX n c done h cur) (hsim : SimDoc h d) : SDX n (c.add d).1 done h (cur ++ [d]) := by
  obtain ⟨chs, p, gs, cg, g, hp, hchs, hch, hdocs, hfull⟩ := x
  obtain ⟨_, chs', p', g', hcase⟩ := sd_add_same' n hn c chs p d g (simDoc_trans _ _ _ hp hsim)
  rcases hcase with ⟨rfl, rfl⟩ | ⟨rfl, rfl, hpf⟩
  · refine ⟨_, _, gs, cg, g', hp, hchs, hch, ?_, hfull⟩
    simp only [chunkDocs] at hdocs ⊢
    have e : h :: (cur ++ [d]) = (h :: cur) ++ [d] := rfl
    rw [e, ← hdocs]; simp
  · refine ⟨_, _, gs, cg ++ [p], g', simDoc_symm _ _ hsim, by rw [hchs]; simp, hch, ?_, ?_⟩
    · simp only [List.map_append, List.flatten_append, List.map_cons, List.map_nil, List.flatten_cons,
        List.flatten_nil, List.append_nil]
      have e : h :: (cur ++ [d]) = (h :: cur) ++ [d] := rfl
      rw [e, ← hdocs]; simp [chunkDocs]
    · intro q hq
      rcases List.mem_append.1 hq with hq | hq
      · exact hfull q hq
      · simp at hq; rw [hq]; exact hpf

theorem sdx_diff (n : Nat) (hn : 1 ≤ n) (c : StreamingDynamic) (done : List (BDoc × List BDoc)) (h : BDoc)
    (cur : List BDoc) (d : BDoc) (x : SDX n c done h cur) (hne : (schemaKey d).1 ≠ (schemaKey h).1) :
    SDX n (c.add d).1 (done ++ [(h, cur)]) d [] := by
  obtain ⟨chs, p, gs, cg, g, hp, hchs, hch, hdocs, hfull⟩ := x
  obtain ⟨_, g'⟩ := sd_add_diff n hn c chs p d g (by rw [sim_schemaKey _ _ hp]; exact hne)
  refine ⟨_, _, gs ++ [cg ++ [p]], [], g', simDoc_refl _, by rw [hchs]; simp,
    chops_snoc n _ _ _ _ hch (chop_close n h cur cg p hdocs hfull g.sg.pend.2.2), by simp [chunkDocs], by simp⟩

theorem sdx_run_same (n : Nat) (hn : 1 ≤ n) (done : List (BDoc × List BDoc)) (h : BDoc) : ∀ (ds : List BDoc)
    (c : StreamingDynamic) (cur : List BDoc), SDX n c done h cur → (∀ d ∈ ds, SimDoc h d) →
    SDX n (ds.foldl (fun (c : StreamingDynamic) d => (c.add d).1) c) done h (cur ++ ds) := by
  intro ds
  induction ds with
  | nil => intro c cur x _; simpa using x
  | cons d ds ih =>
    intro c cur x hds
    have := ih (c.add d).1 (cur ++ [d]) (sdx_same n hn c done h cur d x (hds d (List.mem_cons_self ..)))
      (fun y hy => hds y (List.mem_cons_of_mem _ hy))
    simpa using this

theorem sdx_seg (n : Nat) (hn : 1 ≤ n) (c : StreamingDynamic) (done : List (BDoc × List BDoc)) (h : BDoc)
    (cur : List BDoc) (s : BDoc × List BDoc) (x : SDX n c done h cur) (hne : (schemaKey s.1).1 ≠ (schemaKey h).1)
    (hsim : InSim s) :
    SDX n ((chunkDocs s).foldl (fun (c : StreamingDynamic) d => (c.add d).1) c) (done ++ [(h, cur)]) s.1 s.2 := by
  have := sdx_run_same n hn (done ++ [(h, cur)]) s.1 s.2 (c.add s.1).1 [] (sdx_diff n hn c done h cur s.1 x hne) hsim
  simpa [chunkDocs] using this

theorem sdx_segs (n : Nat) (hn : 1 ≤ n) : ∀ (segs : List (BDoc × List BDoc)) (c : StreamingDynamic)
    (done : List (BDoc × List BDoc)) (h : BDoc) (cur : List BDoc), SDX n c done h cur →
    (∀ s ∈ segs, InSim s) → HeadDiff (schemaKey h) segs → AdjDiff segs →
    ∃ done' h' cur', SDX n ((segs.flatMap chunkDocs).foldl (fun (c : StreamingDynamic) d => (c.add d).1) c) done' h' cur' ∧
      done' ++ [(h', cur')] = done ++ [(h, cur)] ++ segs := by
  intro segs
  induction segs with
  | nil => intro c done h cur x _ _ _; exact ⟨done, h, cur, by simpa using x, by simp⟩
  | cons s rest ih =>
    intro c done h cur x hsim hh hadj
    have x1 := sdx_seg n hn c done h cur s x hh (hsim s (List.mem_cons_self ..))
    obtain ⟨done', h', cur', x2, he⟩ := ih _ (done ++ [(h, cur)]) s.1 s.2 x1
      (fun y hy => hsim y (List.mem_cons_of_mem _ hy)) hadj.1 hadj.2
    exact ⟨done', h', cur', by simpa [List.flatMap_cons, List.foldl_append] using x2, by rw [he]; simp⟩

/-- **any sequence of runs with changing schema keys**: what the collector wrote, followed by its pending
chunk, is every run cut at capacity — a new chunk at each change of schema and otherwise only at capacity -/
theorem sd_chops (n : Nat) (hn : 1 ≤ n) (s0 : BDoc × List BDoc) (segs : List (BDoc × List BDoc))
    (hsim : ∀ s ∈ s0 :: segs, InSim s) (hadj : AdjDiff (s0 :: segs)) :
    ∃ (chs : List (BDoc × List BDoc)) (p : BDoc × List BDoc) (groups : List (List (BDoc × List BDoc))),
      SDG n (((s0 :: segs).flatMap chunkDocs).foldl (fun (c : StreamingDynamic) d => (c.add d).1)
        (StreamingDynamic.new n)) chs p ∧
      chs ++ [p] = groups.flatten ∧ Chops n (s0 :: segs) groups := by
  have x0 := sdx_run_same n hn [] s0.1 s0.2 _ [] (sdx_first n hn s0.1) (hsim s0 (List.mem_cons_self ..))
  obtain ⟨done', h', cur', x2, he⟩ := sdx_segs n hn segs _ [] s0.1 ([] ++ s0.2) x0
    (fun y hy => hsim y (List.mem_cons_of_mem _ hy)) hadj.1 hadj.2
  obtain ⟨chs, p, gs, cg, g, _, hchs, hch, hdocs, hfull⟩ := x2
  refine ⟨chs, p, gs ++ [cg ++ [p]], by simpa [List.flatMap_cons, List.foldl_append, chunkDocs] using g,
    by rw [hchs]; simp, ?_⟩
  have := chops_snoc n _ _ _ _ hch (chop_close n h' cur' cg p hdocs hfull g.sg.pend.2.2)
  rw [he] at this
  simpa using this

/-! ### the dynamic collector: each run's batch collector cuts the run at capacity -/

theorem holds_samples_length (n : Nat) (p : BDoc × List BDoc) (c : Better) (h : Holds n p.1 p.2 c) :
    c.samples.length = p.2.length + 1 := by
  obtain ⟨h1, _, h3, _⟩ := h
  simp [Better.samples, h1, h3]

theorem allHold_sizes (n : Nat) : ∀ (cs : List Better) (ps : List (BDoc × List BDoc)), AllHold n cs ps →
    (∀ c ∈ cs.dropLast, c.samples.length = n) → ∀ q ∈ ps.dropLast, q.2.length + 1 = n
  | [], [], _, _ => by simp
  | [], _ :: _, h, _ => by simp [AllHold] at h
  | _ :: _, [], h, _ => by simp [AllHold] at h
  | c :: cs, p :: ps, h, hf => by
    simp only [AllHold] at h
    intro q hq
    cases ps with
    | nil => simp at hq
    | cons p1 ps =>
      cases cs with
      | nil => simp [AllHold] at h
      | cons c1 cs =>
        rw [List.dropLast_cons_of_ne_nil (by simp)] at hq
        rw [List.dropLast_cons_of_ne_nil (by simp)] at hf
        rcases List.mem_cons.1 hq with rfl | hq
        · have := hf c (List.mem_cons_self ..)
          rw [holds_samples_length n _ c h.1] at this
          exact this
        · exact allHold_sizes n (c1 :: cs) (p1 :: ps) h.2.2 (fun x hx => hf x (List.mem_cons_of_mem _ hx)) q hq

theorem allHold_le (n : Nat) : ∀ (cs : List Better) (ps : List (BDoc × List BDoc)), AllHold n cs ps →
    ∀ q ∈ ps, q.2.length + 1 ≤ n
  | [], [], _ => by simp
  | [], _ :: _, h => by simp [AllHold] at h
  | _ :: _, [], h => by simp [AllHold] at h
  | c :: cs, p :: ps, h => by
    simp only [AllHold] at h
    intro q hq
    rcases List.mem_cons.1 hq with rfl | hq
    · exact h.2.1
    · exact allHold_le n cs ps h.2.2 q hq

/-- a fresh batch collector given one run: `Resolve` returns the run cut at capacity -/
theorem batch_chop (n : Nat) (hn : 1 ≤ n) (s : BDoc × List BDoc) (hsim : InSim s) :
    ∃ g, Chop n s g ∧ (batchOf n s).resolve = some (g.map mkChunk) := by
  obtain ⟨runs, ⟨_, hcase⟩, hall⟩ := bg_run n hn s.1 s.2 hsim
  have hne : runs ≠ [] := by intro e; rw [e] at hall; simp at hall
  rcases hcase with ⟨hr, _⟩ | ⟨_, hallh⟩
  · exact absurd hr hne
  · have hinv : (batchOf n s).Inv ∧ (batchOf n s).maxSamples = n := by
      have : ∀ (ds : List BDoc) (b0 : Batch), b0.Inv ∧ b0.maxSamples = n →
          (ds.foldl (fun b d => (b.add d).1) b0).Inv ∧ (ds.foldl (fun b d => (b.add d).1) b0).maxSamples = n := by
        intro ds
        induction ds with
        | nil => intro b0 h0; simpa using h0
        | cons d ds ih =>
          intro b0 h0
          simp only [List.foldl_cons]
          apply ih
          refine ⟨Batch.add_inv b0 d h0.1, ?_⟩
          have : (b0.add d).1.maxSamples = b0.maxSamples := by
            unfold Batch.add; split
            · rfl
            · split <;> rfl
          rw [this]; exact h0.2
      exact this (chunkDocs s) (Batch.new n) ⟨Batch.new_inv n hn, rfl⟩
    refine ⟨runs, ⟨hne, hall, allHold_le n _ runs hallh, ?_⟩, ?_⟩
    · apply allHold_sizes n _ runs hallh
      intro c hc
      have := hinv.1.full c hc
      rw [hinv.2] at this
      exact this
    · unfold Batch.resolve
      have := allHold_resolve n _ runs [] hallh
      rw [List.nil_append] at this
      exact this

end Ftdc
