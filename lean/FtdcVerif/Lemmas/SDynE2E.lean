import FtdcVerif.Lemmas.DynE2E
/-!
# The schema-aware streaming collector on any sequence of schemas

Ghost invariant: the writer holds the chunks of the runs `chs`, the pending chunk is the run `p`, every
run is of one schema, and the remembered key is the key of the pending run.
-/
namespace Ftdc

def InSim (q : BDoc × List BDoc) : Prop := ∀ x ∈ q.2, SimDoc q.1 x

structure SDG (n : Nat) (c : StreamingDynamic) (chs : List (BDoc × List BDoc)) (p : BDoc × List BDoc) : Prop where
  sg : SG n c.s chs (some p)
  hash : c.hash = some (schemaKey p.1)
  runs : ∀ q ∈ chs, InSim q
  pend : InSim p

theorem inSim_snoc (p : BDoc × List BDoc) (d : BDoc) (h : InSim p) (hd : SimDoc p.1 d) : InSim (p.1, p.2 ++ [d]) := by
  intro x hx
  rcases List.mem_append.1 hx with hx | hx
  · exact h x hx
  · simp at hx; rw [hx]; exact hd

/-- a document of the pending run's schema: it joins the pending run, or — the pending run being full —
the pending run is written and the document starts the next one -/
theorem sd_add_same' (n : Nat) (hn : 1 ≤ n) (c : StreamingDynamic) (chs : List (BDoc × List BDoc)) (p : BDoc × List BDoc)
    (d : BDoc) (g : SDG n c chs p) (hsim : SimDoc p.1 d) :
    (c.add d).2 = .ok ∧ ∃ chs' p', SDG n (c.add d).1 chs' p' ∧
      ((chs' = chs ∧ p' = (p.1, p.2 ++ [d])) ∨ (chs' = chs ++ [p] ∧ p' = (d, []) ∧ p.2.length + 1 = n)) := by
  have hk : schemaKey p.1 = schemaKey d := sim_schemaKey _ _ hsim
  obtain ⟨hok, chs', p', g', hcase⟩ := sg_add' n hn c.s chs (some p) d g.sg (by intro q hq; cases hq; exact hsim)
  have hadd : c.add d = ({ s := (c.s.add d).1, hash := some (schemaKey d) }, (c.s.add d).2) := by
    unfold StreamingDynamic.add
    simp [g.hash, hk]
  rw [hadd]
  refine ⟨hok, chs', p', ?_, ?_⟩
  · rcases hcase with ⟨rfl, q, hq, rfl⟩ | ⟨rfl, rfl, _⟩
    · cases hq
      exact ⟨g', by simp [hk], g.runs, inSim_snoc p d g.pend hsim⟩
    · refine ⟨g', rfl, ?_, by intro x hx; simp at hx⟩
      intro q hq
      rcases List.mem_append.1 hq with hq | hq
      · exact g.runs q hq
      · simp at hq; rw [hq]; exact g.pend
  · rcases hcase with ⟨rfl, q, hq, rfl⟩ | ⟨rfl, rfl, hfull⟩
    · cases hq; exact Or.inl ⟨rfl, rfl⟩
    · exact Or.inr ⟨by simp, rfl, hfull p rfl⟩

theorem sd_add_same (n : Nat) (hn : 1 ≤ n) (c : StreamingDynamic) (chs : List (BDoc × List BDoc)) (p : BDoc × List BDoc)
    (d : BDoc) (g : SDG n c chs p) (hsim : SimDoc p.1 d) :
    (c.add d).2 = .ok ∧ ∃ chs' p', SDG n (c.add d).1 chs' p' ∧ allDocs chs' (some p') = allDocs chs (some p) ++ [d] ∧
      SimDoc p'.1 d := by
  obtain ⟨hok, chs', p', g', hcase⟩ := sd_add_same' n hn c chs p d g hsim
  refine ⟨hok, chs', p', g', ?_, ?_⟩
  · rcases hcase with ⟨rfl, rfl⟩ | ⟨rfl, rfl, _⟩ <;> simp [allDocs, chunkDocs]
  · rcases hcase with ⟨rfl, rfl⟩ | ⟨rfl, rfl, _⟩
    · exact hsim
    · exact simDoc_refl _

/-- a document with another schema key: the pending chunk is flushed and a new run starts -/
theorem sd_add_diff (n : Nat) (hn : 1 ≤ n) (c : StreamingDynamic) (chs : List (BDoc × List BDoc)) (p : BDoc × List BDoc)
    (d : BDoc) (g : SDG n c chs p) (hne : (schemaKey d).1 ≠ (schemaKey p.1).1) :
    (c.add d).2 = .ok ∧ SDG n (c.add d).1 (chs ++ [p]) (d, []) := by
  obtain ⟨f1, f2⟩ := sg_flush n c.s chs p g.sg
  have hinfo := sg_info n c.s chs p g.sg
  have hkne : schemaKey p.1 ≠ schemaKey d := by intro e; rw [e] at hne; exact hne rfl
  have hflush : c.flush = ({ s := (c.s.flush).1, hash := none }, true) := by
    unfold StreamingDynamic.flush
    simp [f1, hinfo]
  obtain ⟨hok, chs', p', g', hcase⟩ := sg_add' n hn (c.s.flush).1 (chs ++ [p]) none d f2 (by intro q hq; cases hq)
  have hadd : c.add d = ({ s := ((c.s.flush).1.add d).1, hash := some (schemaKey d) }, ((c.s.flush).1.add d).2) := by
    unfold StreamingDynamic.add
    simp [g.hash, hkne, hflush]
  rw [hadd]
  rcases hcase with ⟨_, q, hq, _⟩ | ⟨rfl, rfl, _⟩
  · cases hq
  · refine ⟨hok, ?_, rfl, ?_, by intro x hx; simp at hx⟩
    · simpa using g'
    · intro q hq
      rcases List.mem_append.1 hq with hq | hq
      · exact g.runs q hq
      · simp at hq; rw [hq]; exact g.pend

/-- the first document into a fresh collector -/
theorem sd_add_first (n : Nat) (hn : 1 ≤ n) (d : BDoc) :
    ((StreamingDynamic.new n).add d).2 = .ok ∧ SDG n ((StreamingDynamic.new n).add d).1 [] (d, []) := by
  obtain ⟨hok, chs', p', g', hcase⟩ := sg_add' n hn (Streaming.new n) [] none d (sg_new n) (by intro q hq; cases hq)
  have hadd : (StreamingDynamic.new n).add d =
      ({ s := ((Streaming.new n).add d).1, hash := some (schemaKey d) }, ((Streaming.new n).add d).2) := by
    unfold StreamingDynamic.add StreamingDynamic.new
    simp [Streaming.new]
  rw [hadd]
  rcases hcase with ⟨_, q, hq, _⟩ | ⟨rfl, rfl, _⟩
  · cases hq
  · exact ⟨hok, by simpa using g', rfl, by intro q hq; simp at hq, by intro x hx; simp at hx⟩

/-- the rest of a run -/
theorem sd_run_same (n : Nat) (hn : 1 ≤ n) (h : BDoc) : ∀ (ds : List BDoc) (c : StreamingDynamic)
    (chs : List (BDoc × List BDoc)) (p : BDoc × List BDoc), SDG n c chs p → SimDoc p.1 h → (∀ d ∈ ds, SimDoc h d) →
    ∃ chs' p', SDG n (ds.foldl (fun (c : StreamingDynamic) d => (c.add d).1) c) chs' p' ∧
      allDocs chs' (some p') = allDocs chs (some p) ++ ds ∧ SimDoc p'.1 h := by
  intro ds
  induction ds with
  | nil => intro c chs p g hp _; exact ⟨chs, p, g, by simp, hp⟩
  | cons d ds ih =>
    intro c chs p g hp hds
    have hd := hds d (List.mem_cons_self ..)
    obtain ⟨_, chs1, p1, g1, ha1, hs1⟩ := sd_add_same n hn c chs p d g (simDoc_trans _ _ _ hp hd)
    obtain ⟨chs2, p2, g2, ha2, hs2⟩ := ih (c.add d).1 chs1 p1 g1
      (simDoc_trans _ _ _ hs1 (simDoc_symm _ _ hd)) (fun x hx => hds x (List.mem_cons_of_mem _ hx))
    exact ⟨chs2, p2, by simpa using g2, by rw [ha2, ha1]; simp, hs2⟩

/-- a whole run whose key differs from the pending one -/
theorem sd_seg (n : Nat) (hn : 1 ≤ n) (c : StreamingDynamic) (chs : List (BDoc × List BDoc)) (p : BDoc × List BDoc)
    (s : BDoc × List BDoc) (g : SDG n c chs p) (hne : (schemaKey s.1).1 ≠ (schemaKey p.1).1) (hsim : InSim s) :
    ∃ chs' p', SDG n ((chunkDocs s).foldl (fun (c : StreamingDynamic) d => (c.add d).1) c) chs' p' ∧
      allDocs chs' (some p') = allDocs chs (some p) ++ chunkDocs s ∧ SimDoc p'.1 s.1 := by
  obtain ⟨_, g1⟩ := sd_add_diff n hn c chs p s.1 g hne
  obtain ⟨chs2, p2, g2, ha2, hs2⟩ := sd_run_same n hn s.1 s.2 (c.add s.1).1 (chs ++ [p]) (s.1, []) g1 (simDoc_refl _) hsim
  refine ⟨chs2, p2, by simpa [chunkDocs] using g2, ?_, hs2⟩
  rw [ha2]; simp [allDocs, chunkDocs]

theorem sd_segs (n : Nat) (hn : 1 ≤ n) : ∀ (segs : List (BDoc × List BDoc)) (c : StreamingDynamic)
    (chs : List (BDoc × List BDoc)) (p : BDoc × List BDoc) (h : BDoc), SDG n c chs p → SimDoc p.1 h →
    (∀ s ∈ segs, InSim s) → HeadDiff (schemaKey h) segs → AdjDiff segs →
    ∃ chs' p', SDG n ((segs.flatMap chunkDocs).foldl (fun (c : StreamingDynamic) d => (c.add d).1) c) chs' p' ∧
      allDocs chs' (some p') = allDocs chs (some p) ++ segs.flatMap chunkDocs := by
  intro segs
  induction segs with
  | nil => intro c chs p h g _ _ _ _; exact ⟨chs, p, g, by simp⟩
  | cons s rest ih =>
    intro c chs p h g hp hsim hh hadj
    have hne : (schemaKey s.1).1 ≠ (schemaKey p.1).1 := by rw [sim_schemaKey _ _ hp]; exact hh
    obtain ⟨chs1, p1, g1, ha1, hs1⟩ := sd_seg n hn c chs p s g hne (hsim s (List.mem_cons_self ..))
    obtain ⟨chs2, p2, g2, ha2⟩ := ih _ chs1 p1 s.1 g1 hs1 (fun x hx => hsim x (List.mem_cons_of_mem _ hx)) hadj.1 hadj.2
    refine ⟨chs2, p2, by simpa [List.flatMap_cons, List.foldl_append] using g2, ?_⟩
    rw [ha2, ha1]; simp

/-- **any sequence of runs with changing schema keys** into a fresh schema-aware streaming collector -/
theorem sd_runs (n : Nat) (hn : 1 ≤ n) (s0 : BDoc × List BDoc) (segs : List (BDoc × List BDoc))
    (hsim : ∀ s ∈ s0 :: segs, InSim s) (hadj : AdjDiff (s0 :: segs)) :
    ∃ chs p, SDG n (((s0 :: segs).flatMap chunkDocs).foldl (fun (c : StreamingDynamic) d => (c.add d).1)
        (StreamingDynamic.new n)) chs p ∧
      allDocs chs (some p) = (s0 :: segs).flatMap chunkDocs := by
  obtain ⟨_, g0⟩ := sd_add_first n hn s0.1
  obtain ⟨chs1, p1, g1, ha1, hs1⟩ := sd_run_same n hn s0.1 s0.2 _ [] (s0.1, []) g0 (simDoc_refl _)
    (hsim s0 (List.mem_cons_self ..))
  obtain ⟨chs2, p2, g2, ha2⟩ := sd_segs n hn segs _ chs1 p1 s0.1 g1 hs1
    (fun x hx => hsim x (List.mem_cons_of_mem _ hx)) hadj.1 hadj.2
  refine ⟨chs2, p2, by simpa [List.flatMap_cons, List.foldl_append, chunkDocs] using g2, ?_⟩
  rw [ha2, ha1]; simp [allDocs, chunkDocs]

end Ftdc
