import FtdcVerif.Lemmas.Hdr
import FtdcVerif.Lemmas.CodeTie
import FtdcVerif.Lemmas.HdrCorrected
/-!
# C12 — HDR histogram honours its precision and counting contract

Statements only (helper lemmas live in `Lemmas/Hdr.lean`).  Quantifiers: every
configuration `Valid minV maxV s` (1 ≤ s ≤ 5, lowest < 2^40, highest < 2^62 — the range
in which no `int64` of the Go code overflows and the float steps of `New` are exact),
every value `v`, every list of recorded values.
-/
namespace Ftdc.Props.C12
open Ftdc.Hdr

variable {minV : Int} {maxV s : Nat}

theorem new_wf (hv : Valid minV maxV s) : WF (new minV maxV s) := by
  have w := mkCfg_wf hv
  exact ⟨w.1, w.2, w.3, w.4, w.5, w.6, w.7, w.8⟩

/-- Recording any value from 0 to the highest trackable value succeeds. -/
theorem record_succeeds (hv : Valid minV maxV s) (v : Nat) (hle : v ≤ maxV) :
    (recordValue (new minV maxV s) (v : Int)).isSome = true := by
  unfold recordValue
  rw [recordValues_isSome]
  have := index_in_range (new_wf hv) (v := v) hle
  simp [accepts, this.1, this.2]

/-- ... and this holds in every state reachable by recording (acceptance depends on the
configuration only). -/
theorem record_succeeds_always (hv : Valid minV maxV s) (vs : List Int) (v : Nat) (hle : v ≤ maxV) :
    (recordValue (recordAll (new minV maxV s) vs) (v : Int)).isSome = true := by
  have hs := (recordAll_spec vs _ (new_inv minV maxV s)).2.1
  unfold recordValue
  rw [recordValues_isSome, ← accepts_congr hs, ← recordValues_isSome _ _ 1]
  exact record_succeeds hv v hle

/-- `v` lies inside the equivalence range the histogram reports for it. -/
theorem value_in_reported_range (hv : Valid minV maxV s) (v : Nat) (hle : v ≤ maxV) :
    lowestEquiv (new minV maxV s) v ≤ v ∧ v ≤ highestEquiv (new minV maxV s) v :=
  value_in_range (new_wf hv) hle

/-- The reported range `[lowest, highest]` has exactly `sizeOfRange` elements. -/
theorem range_size (h : Hist) (v : Nat) :
    highestEquiv h v + 1 = lowestEquiv h v + sizeOfRange h v := by
  unfold highestEquiv nextNonEquiv
  have : 0 < sizeOfRange h v := by unfold sizeOfRange; simp [Nat.shiftLeft_eq, Nat.two_pow_pos]
  omega

/-- The range is no wider than max(unit, v·10^-sigfigs): it is either exactly the unit
`2^unitMag` (and that unit is at most `max 1 lowest`) or its width times `10^s` is at most `v`. -/
theorem range_width_bound (hv : Valid minV maxV s) (v : Nat) (hle : v ≤ maxV) :
    (sizeOfRange (new minV maxV s) v = 2 ^ (new minV maxV s).unitMag ∧
        ((2 ^ (new minV maxV s).unitMag : Nat) : Int) ≤ max 1 minV) ∨
    sizeOfRange (new minV maxV s) v * 10 ^ s ≤ v := by
  rcases width_bound (new_wf hv) (v := v) hle with h | h
  · left
    refine ⟨h, ?_⟩
    show ((2 ^ (if minV ≤ 0 then 0 else Nat.log2 minV.toNat) : Nat) : Int) ≤ max 1 minV
    split
    · simp; omega
    · rename_i hpos
      have h0 : minV.toNat ≠ 0 := by omega
      have := Nat.log2_self_le h0
      have : ((2 ^ Nat.log2 minV.toNat : Nat) : Int) ≤ minV := by omega
      omega
  · right; exact h

/-- Counting: after any sequence of `RecordValue` calls the total equals the number of
successfully recorded values and the sum of all counts; rejected values change nothing. -/
theorem total_count_conserved (vs : List Int) :
    let h0 := new minV maxV s
    let h := recordAll h0 vs
    h.total = ((vs.filter (accepts h0)).length : Int) ∧ h.counts.sum = h.total ∧
      h.counts.length = h.countsLen := by
  intro h0 h
  obtain ⟨i1, _, i3⟩ := recordAll_spec vs h0 (new_inv minV maxV s)
  refine ⟨?_, i1.2, i1.1⟩
  rw [i3]; show (0 : Int) + _ = _; omega

/-- A rejected value leaves the histogram unchanged. -/
theorem rejected_is_noop (h : Hist) (v : Int) (vs : List Int) (hr : recordValue h v = none) :
    recordAll h (v :: vs) = recordAll h vs := by
  simp [recordAll, hr]

/-- Values outside `0..` the counts array are rejected, never wrapped or clamped. -/
theorem negative_rejected (h : Hist) (v : Int) (hv : v < 0) : recordValue h v = none := by
  simp [recordValue, recordValues, hv]

/-! Non-vacuity: the hypotheses are met by a concrete configuration, including the one
on which the unrepaired sizing loop failed (F12). -/
example : Valid 1 2048 3 := ⟨by decide, by decide, by decide, by decide⟩
example : (recordValue (new 1 2048 3) 2048).isSome = true :=
  record_succeeds ⟨by decide, by decide, by decide, by decide⟩ 2048 (by decide)

/-- `RecordCorrectedValue(v, expectedInterval)` records exactly the values it stands for - `v` and, for a stall
(`v > expectedInterval > 0`), every `v - k·expectedInterval` that is still at least the interval -, each once:
no error, and the histogram equals the one obtained by recording that list value by value (so the total grows by
the length of the list and the counting contract above applies to it) -/
theorem corrected_value_is_its_values (hv : Valid minV maxV s) (vs : List Int) (v ei : Int) (h0 : 0 ≤ v) (hle : v ≤ maxV) :
    recordCorrected (recordAll (new minV maxV s) vs) v ei =
      (recordAll (recordAll (new minV maxV s) vs) (correctedValues v ei), true) := by
  have hs := (recordAll_spec vs _ (new_inv minV maxV s)).2.1
  have wf0 := new_wf hv
  have f := hs.fields
  have wf : WF (recordAll (new minV maxV s) vs) := by
    have hh : (new minV maxV s).highest = (recordAll (new minV maxV s) vs).highest := by
      have := hs; unfold SameCfg at this; injection this with _ h2
    have hg : (new minV maxV s).sigfigs = (recordAll (new minV maxV s) vs).sigfigs := by
      have := hs; unfold SameCfg at this; injection this with _ _ _ h4
    obtain ⟨w1, w2, w3, w4, w5, w6, w7, w8⟩ := wf0
    constructor <;> simp only [← f, ← hh, ← hg] <;> assumption
  have h63 : v < 2 ^ 63 := by have := hv.maxLt; omega
  apply recordCorrected_spec wf v ei _ h63
  rw [← accepts_congr hs]
  have := index_in_range wf0 (v := v.toNat) (by show v.toNat ≤ maxV; omega)
  have hvn : ((v.toNat : Nat) : Int) = v := by omega
  simp only [accepts, Bool.and_eq_true, decide_eq_true_eq]
  refine ⟨⟨by omega, ?_⟩, ?_⟩
  · exact this.1
  · exact this.2

/-! ### The Go text itself (regenerated)

`Ftdc.Gen.Hdr.*` (Gen/Code.lean) is rewritten from `hdrhist/hdr.go` by the translator on every run of this
check: `bitLen`, `getBucketIndex`, `getSubBucketIdx`, `countsIndex`, `countsIndexFor`, `valueFromIndex`,
`sizeOfEquivalentValueRange`, `lowestEquivalentValue`, `nextNonEquivalentValue`, `highestEquivalentValue`,
`medianEquivalentValue`, `getCountAtIndex`.  `go_code_is_model` says the translated functions compute what the
hand-written model computes (all configurations `New` can establish, all values below 2^63), and the three
theorems after it restate the property's index and range clauses about the translated Go functions. -/
section go
open Ftdc.CodeTie

theorem go_code_is_model {h : Hist} (wf : WF h) (hh : h.halfMag ≤ 20) (v : Nat) (hv : v < 2 ^ 63) (b s : Nat)
    (hb : b ≤ 64) (hs : s < 2 ^ 30) (hvb : v >>> (b + h.unitMag) < 2 ^ 31) :
    Gen.Hdr.bitLen (v : Int) = (bitLen v : Int) ∧
    Gen.Hdr.getBucketIndex (cfgOf h) v = (getBucketIndex h v : Int) ∧
    Gen.Hdr.getSubBucketIdx (cfgOf h) v b = (getSubBucketIdx h v b : Int) ∧
    Gen.Hdr.countsIndex (cfgOf h) b s = countsIndex h b s ∧
    Gen.Hdr.countsIndexFor (cfgOf h) v = countsIndexFor h v ∧
    Gen.Hdr.valueFromIndex (cfgOf h) b s = (valueFromIndex h b s : Int) ∧
    Gen.Hdr.sizeOfEquivalentValueRange (cfgOf h) v = (sizeOfRange h v : Int) ∧
    Gen.Hdr.lowestEquivalentValue (cfgOf h) v = (lowestEquiv h v : Int) ∧
    Gen.Hdr.nextNonEquivalentValue (cfgOf h) v = (nextNonEquiv h v : Int) ∧
    Gen.Hdr.highestEquivalentValue (cfgOf h) v = (highestEquiv h v : Int) ∧
    Gen.Hdr.medianEquivalentValue (cfgOf h) v = (medianEquiv h v : Int) ∧
    Gen.Hdr.getCountAtIndex (cfgOf h) b s = getCountAt h b s :=
  ⟨bitLen_tie v, getBucketIndex_tie wf v hv hh, getSubBucketIdx_tie h v b hvb, countsIndex_tie h b s hb hs hh wf.halfCount_eq,
   countsIndexFor_tie wf v hv hh, valueFromIndex_tie h b s, sizeOfEquivalentValueRange_tie wf v hv hh,
   lowestEquivalentValue_tie wf v hv hh, nextNonEquivalentValue_tie wf v hv hh, highestEquivalentValue_tie wf v hv hh,
   medianEquivalentValue_tie wf v hv hh, getCountAtIndex_tie h b s hb hs hh wf.halfCount_eq⟩

/-- a configuration `New` can establish has at most 2^18 sub-buckets: the `int32` arithmetic of the index functions
(exact in the translation: `Go.w32`) never overflows -/
theorem halfMag_le (hv : Valid minV maxV s) : (new minV maxV s).halfMag ≤ 20 := by
  obtain ⟨_, h18, _⟩ := subMag_cases s hv.s1 hv.s5
  show (if subMag s < 1 then 1 else subMag s) - 1 ≤ 20
  split <;> omega

theorem lt63 (hv : Valid minV maxV s) {v : Nat} (hle : v ≤ maxV) : v < 2 ^ 63 := by
  have := hv.maxLt; omega

/-- hdr.go's `countsIndexFor` stays inside the counts array for every value up to the highest trackable one
(so `RecordValue` succeeds). -/
theorem go_index_in_range (hv : Valid minV maxV s) (v : Nat) (hle : v ≤ maxV) :
    0 ≤ Gen.Hdr.countsIndexFor (cfgOf (new minV maxV s)) v ∧
    Gen.Hdr.countsIndexFor (cfgOf (new minV maxV s)) v < (cfgOf (new minV maxV s)).countsLen := by
  rw [countsIndexFor_tie (new_wf hv) v (lt63 hv hle) (halfMag_le hv)]
  exact index_in_range (new_wf hv) (v := v) hle

/-- hdr.go's `lowestEquivalentValue` / `highestEquivalentValue` bracket the value. -/
theorem go_value_in_reported_range (hv : Valid minV maxV s) (v : Nat) (hle : v ≤ maxV) :
    Gen.Hdr.lowestEquivalentValue (cfgOf (new minV maxV s)) v ≤ v ∧
    (v : Int) ≤ Gen.Hdr.highestEquivalentValue (cfgOf (new minV maxV s)) v := by
  rw [lowestEquivalentValue_tie (new_wf hv) v (lt63 hv hle) (halfMag_le hv),
    highestEquivalentValue_tie (new_wf hv) v (lt63 hv hle) (halfMag_le hv)]
  have := value_in_range (new_wf hv) hle
  omega

/-- hdr.go's `sizeOfEquivalentValueRange` is the unit or at most `v / 10^sigfigs`. -/
theorem go_range_width_bound (hv : Valid minV maxV s) (v : Nat) (hle : v ≤ maxV) :
    (Gen.Hdr.sizeOfEquivalentValueRange (cfgOf (new minV maxV s)) v = ((2 ^ (new minV maxV s).unitMag : Nat) : Int) ∧
        ((2 ^ (new minV maxV s).unitMag : Nat) : Int) ≤ max 1 minV) ∨
    Gen.Hdr.sizeOfEquivalentValueRange (cfgOf (new minV maxV s)) v * 10 ^ s ≤ v := by
  rw [sizeOfEquivalentValueRange_tie (new_wf hv) v (lt63 hv hle) (halfMag_le hv)]
  rcases range_width_bound hv v hle with ⟨h1, h2⟩ | h
  · left; exact ⟨by rw [h1], h2⟩
  · right; exact_mod_cast h

/-- the fuel of the translated `bitLen` loop (64 rounds) is never exhausted on an int64: the loop has stopped
on its own (`x < 0x8000`) — so the fuel bound does not change the meaning of the Go loop -/
theorem go_bitLen_is_bit_length (v : Nat) (hv : v < 2 ^ 64) :
    Gen.Hdr.bitLen (v : Int) = ((if v = 0 then 0 else Nat.log2 v + 1 : Nat) : Int) := by
  rw [bitLen_tie, bitLen_eq_blen v hv]; rfl

/-- hdr.go's `RecordValues`, translated (receiver threaded functionally, `error` as `none`), is the model's -/
theorem go_RecordValues_is_model {h : Hist} (wf : WF h) (hh : h.halfMag ≤ 20) (v : Nat) (hv : v < 2 ^ 63) (n : Int) :
    Gen.Hdr.RecordValues (cfgOf h) v n = (recordValues h v n).map cfgOf :=
  RecordValues_tie wf v hv hh n

/-- hdr.go's `RecordValues` returns nil for every value up to the highest trackable one, in every state reachable by recording -/
theorem go_record_succeeds (hv : Valid minV maxV s) (vs : List Int) (v : Nat) (hle : v ≤ maxV) (n : Int) :
    (Gen.Hdr.RecordValues (cfgOf (recordAll (new minV maxV s) vs)) v n).isSome = true := by
  have hs := (recordAll_spec vs _ (new_inv minV maxV s)).2.1
  have wf0 := new_wf hv
  have f := hs.fields
  have wf : WF (recordAll (new minV maxV s) vs) := by
    have hh : (new minV maxV s).highest = (recordAll (new minV maxV s) vs).highest := by
      have := hs; unfold SameCfg at this; injection this with _ h2
    have hg : (new minV maxV s).sigfigs = (recordAll (new minV maxV s) vs).sigfigs := by
      have := hs; unfold SameCfg at this; injection this with _ _ _ h4
    obtain ⟨w1, w2, w3, w4, w5, w6, w7, w8⟩ := wf0
    constructor <;> simp only [← f, ← hh, ← hg] <;> assumption
  have hh : (recordAll (new minV maxV s) vs).halfMag ≤ 20 := by rw [← f.2.2.1]; exact halfMag_le hv
  rw [RecordValues_tie wf v (lt63 hv hle) hh n, Option.isSome_map, recordValues_isSome, ← accepts_congr hs]
  have := index_in_range wf0 (v := v) hle
  simp [accepts, this.1, this.2]

/-- the sizing loop of `New`, translated from hdr.go, computes the model's bucket count (and with `bucketsLoop_spec`
enough buckets for the highest trackable value itself - the comparison that finding F12 had as `<`) -/
theorem go_sizing_loop_is_model (fuel smallest mx n : Nat) :
    (Gen.Hdr.New_loop1 (mx : Int) fuel (n : Int) (smallest : Int)).1 = (bucketsLoop fuel smallest mx n : Int) :=
  New_loop_tie fuel smallest mx n

/-- with the translated loop: `New(1, 2048, 3)` gets the bucket that holds 2048 (F12's input) -/
example : (Gen.Hdr.New_loop1 2048 64 1 2048).1 = 2 := by decide

example : Gen.Hdr.countsIndexFor (cfgOf (new 1 2048 3)) 2048 = 2048 := by decide

end go

/-! ### known finding F22: `New` does not return when the highest trackable value is 2^62 or more

`New`'s sizing loop is `for smallestUntrackableValue <= maxValue { smallestUntrackableValue <<= 1; … }` on `int64`, started at
`int64(subBucketCount) << unitMagnitude`, a power of two.  In 64-bit arithmetic (this section; the translation in `Gen/Code.lean`
is over ideal integers and `go_sizing_loop_is_model` is stated below 2^62, where nothing wraps) the register runs through
2^k, …, 2^62, -2^63, 0, 0, …: every one of them is `<= maxValue` once `maxValue >= 2^62`, so the condition never fails.
The check replays `hdr-rec 1 4611686018427387904 1 5` against the real code in a child process with a watchdog. -/
/-- one round of `New`'s sizing loop on the 64-bit register: `smallestUntrackableValue <<= 1` -/
def sizingStep (x : BitVec 64) : BitVec 64 := x <<< 1

/-- the register after `n` rounds -/
def sizingRounds : Nat → BitVec 64 → BitVec 64
  | 0, x => x
  | n + 1, x => sizingStep (sizingRounds n x)

theorem sizingRounds_shift (x : BitVec 64) : ∀ n : Nat, sizingRounds n x = x <<< n := by
  intro n
  induction n with
  | zero => simp [sizingRounds]
  | succ n ih => simp [sizingRounds, ih, sizingStep, BitVec.shiftLeft_add]

theorem one_shl_toInt_le (m : Nat) (mx : BitVec 64) (hmx : (2 ^ 62 : Int) ≤ mx.toInt) :
    ((1#64 <<< m)).toInt ≤ mx.toInt := by
  have hN : (1#64 <<< m).toNat = 2 ^ m % 2 ^ 64 := by simp [BitVec.toNat_shiftLeft, Nat.shiftLeft_eq]
  by_cases h1 : m ≤ 62
  · have hp : 2 ^ m ≤ 2 ^ 62 := Nat.pow_le_pow_right (by decide) h1
    have hlt : 2 ^ m % 2 ^ 64 = 2 ^ m := Nat.mod_eq_of_lt (by omega)
    rw [BitVec.toInt_eq_toNat_cond, hN, hlt]
    have : 2 * 2 ^ m < 2 ^ 64 := by omega
    simp only [this, if_true]
    have : ((2 ^ m : Nat) : Int) ≤ 2 ^ 62 := by exact_mod_cast hp
    omega
  · by_cases h2 : m = 63
    · subst h2
      rw [BitVec.toInt_eq_toNat_cond, hN]
      simp
      omega
    · have h3 : 64 ≤ m := by omega
      have : 2 ^ m % 2 ^ 64 = 0 := by
        obtain ⟨d, rfl⟩ := Nat.exists_eq_add_of_le h3
        rw [Nat.pow_add]; exact Nat.mul_mod_right _ _
      rw [BitVec.toInt_eq_toNat_cond, hN, this]
      simp
      omega

/-- the loop condition `smallestUntrackableValue <= maxValue` holds after every number of rounds -/
theorem new_sizing_loop_never_exits_from_2_62 (k : Nat) (mx : BitVec 64) (hmx : (2 ^ 62 : Int) ≤ mx.toInt) :
    ∀ n, (sizingRounds n (1#64 <<< k)).sle mx = true := by
  intro n
  rw [sizingRounds_shift, ← BitVec.shiftLeft_add, BitVec.sle_iff_toInt_le]
  exact one_shl_toInt_le (k + n) mx hmx

/-- non-vacuity: 2^62 itself is such a maximum, and `subBucketCount << unit` = 32 = 1 <<< 5 for one significant figure -/
example : (2 ^ 62 : Int) ≤ (BitVec.ofNat 64 (2 ^ 62)).toInt ∧ (32#64 = 1#64 <<< 5) := by decide

end Ftdc.Props.C12
