package main

import (
	"bytes"
	"context"
	"errors"
	"fmt"
	"io"
	"math/rand"
	"strings"
	"time"

	"github.com/evergreen-ci/birch"
	"github.com/mongodb/ftdc"
)

func init() {
	commands["hist"] = cmdHist
	streams["hist"] = streamHist
	streams["schema"] = streamSchema
	streams["fault"] = streamFault
	streams["crash"] = streamCrash
}

// scriptedWriter: every Write pops one scripted result (then succeeds forever).
type scriptedWriter struct {
	failures int
	script   []string
	entries  []string // ok:<n bytes> / part<k>
	good     bytes.Buffer
	all      bytes.Buffer
}

var errScripted = errors.New("scripted write failure")

func (w *scriptedWriter) Write(p []byte) (int, error) {
	r := "ok"
	if len(w.script) > 0 {
		r, w.script = w.script[0], w.script[1:]
	}
	switch {
	case r == "ok":
		w.good.Write(p)
		w.all.Write(p)
		w.entries = append(w.entries, "ok:"+strings.Join(wireDocs(p), ","))
		return len(p), nil
	case r == "fail":
		w.failures++
		return 0, errScripted
	case strings.HasPrefix(r, "short"), strings.HasPrefix(r, "quiet"):
		k := int(atoi64(r[5:]))
		if k >= len(p) {
			k = len(p) - 1
		}
		if k < 0 {
			k = 0
		}
		w.failures++
		w.all.Write(p[:k])
		w.entries = append(w.entries, "part")
		if strings.HasPrefix(r, "quiet") {
			return k, nil
		}
		return k, errScripted
	}
	panic("bad script entry " + r)
}

func (w *scriptedWriter) Close() error { return nil }

func parseScript(s string) []string {
	if s == "-" {
		return nil
	}
	return strings.Split(s, ",")
}

func structuredOf(out []byte) ([]string, error) {
	ctx, cancel := context.WithCancel(context.Background())
	defer cancel()
	return iterDocs(ftdc.ReadStructuredMetrics(ctx, bytes.NewReader(out)))
}

func chunkSizesOf(out []byte) ([]int, [][]string) {
	ctx, cancel := context.WithCancel(context.Background())
	defer cancel()
	it := ftdc.ReadChunks(ctx, bytes.NewReader(out))
	defer it.Close()
	var sizes []int
	var keys [][]string
	for it.Next() {
		c := it.Chunk()
		sizes = append(sizes, c.Size())
		var ks []string
		for _, m := range c.Metrics {
			ks = append(ks, m.Key())
		}
		keys = append(keys, ks)
	}
	return sizes, keys
}

// hist <ctor> <N> <script> | <pool: hex documents> | <ops>
// ops: a<i> Add(pool[i])  x Add(unreadable)  r Resolve  z Reset  f FlushCollector  m<i> SetMetadata(pool[i])  i Info
func cmdHist(o *Out, line string, f []string) {
	sec := sections(f)
	ctor, n, script := sec[0][0], int(atoi64(sec[0][1])), parseScript(sec[0][2])
	var pool [][]byte
	for _, h := range sec[1] {
		pool = append(pool, unhx(h))
	}
	ops := sec[2]
	w := &scriptedWriter{script: script}
	var c ftdc.Collector
	var wc io.WriteCloser
	if ctor == "writer" {
		wc = ftdc.NewWriterCollector(n, w)
	} else {
		c = newCollector(ctor, n, w)
	}
	streaming := isStreaming(ctor) || ctor == "writer"
	checkEach := len(ops) <= 8

	lastMeta := ""
	resetSinceMeta := false
	replacedMeta := map[string]bool{}
	var obs []string
	var accepted []string // projected documents accepted and not discarded by a Reset (spec log)
	explicitSplit := false
	violated := false
	bad := func(what string, detail interface{}) {
		if !violated {
			o.violation(line, what, detail)
			violated = true
		}
	}
	skipF1 := false
	proj := func(b []byte) string {
		kids, err := parseDocStrict(b)
		if err != nil {
			return "X"
		}
		if !datetimesInRange(kids) || hasTimestamp(kids) {
			skipF1 = true
		}
		return hx(docBytes(project(kids, false)))
	}
	// C07 "Resolve is read-only": bytes handed out by Resolve are never modified by a later operation
	var held, heldCopies [][]byte
	hold := func(b []byte) {
		if len(b) > 0 && len(held) < 64 {
			held = append(held, b)
			heldCopies = append(heldCopies, append([]byte{}, b...))
		}
	}
	inWriter := func() int {
		docs, err := structuredOf(w.good.Bytes())
		if err != nil {
			bad("the successfully written chunks do not decode", err.Error())
		}
		return len(docs)
	}
	// the faithful-log oracle (C07/C08/C09)
	checkLog := func(when string) {
		if violated || wc != nil {
			return
		}
		var res []byte
		if c.Info().SampleCount > 0 {
			var err error
			res, err = c.Resolve()
			if err != nil {
				bad("Resolve fails although Info reports pending samples", map[string]string{"when": when})
				return
			}
			hold(res)
			res2, _ := c.Resolve()
			if len(wireDocs(res)) != len(wireDocs(res2)) || strings.Join(wireDocs(res), ",") != strings.Join(wireDocs(res2), ",") {
				bad("Resolve is not repeatable", map[string]string{"when": when})
				return
			}
		}
		wdocs, err1 := structuredOf(w.good.Bytes())
		rdocs, err2 := structuredOf(res)
		if err1 != nil || err2 != nil {
			bad("collector output does not decode", map[string]string{"when": when})
			return
		}
		got := append(append([]string{}, wdocs...), rdocs...)
		want := accepted
		if cb := strings.TrimPrefix(ctor, "sample0-"); cb == "base" || cb == "batch" || cb == "streaming" {
			// collectors that are not schema-aware only promise never to store a document in a chunk whose
			// metric count or value types differ from its own: compare types and values, not names
			got, want = leafSigs(got), leafSigs(accepted)
		}
		if !skipF1 && strings.Join(got, ",") != strings.Join(want, ",") {
			bad("decoded samples (writer + Resolve) differ from the samples accepted since the last Reset",
				map[string]interface{}{"when": when, "decoded": len(got), "accepted": len(accepted)})
			return
		}
		if c.Info().SampleCount != len(accepted)-len(wdocs) {
			bad("Info().SampleCount differs from the accepted, not yet flushed samples",
				map[string]interface{}{"when": when, "info": c.Info().SampleCount, "pending": len(accepted) - len(wdocs)})
		}
	}

	for _, op := range ops {
		failuresBefore, obsBefore := w.failures, len(obs)
		defer func() {}()
		checkFault := func() {
			if w.failures > failuresBefore && len(obs) > obsBefore {
				last := obs[len(obs)-1]
				if last == "o" || last == "Fok" {
					bad("a write failed but the Add/flush that issued it reported success", map[string]string{"op": op})
				}
			}
		}
		_ = checkFault
		switch op[0] {
		case 'a', 'x':
			var in interface{}
			var raw []byte
			if op[0] == 'x' {
				in = map[string]string{"unreadable": "input"}
			} else {
				raw = pool[int(atoi64(op[1:]))]
				d, err := birch.ReadDocument(raw)
				if err != nil {
					panic(err)
				}
				in = d
			}
			if wc != nil {
				if op[0] == 'x' {
					_, err := wc.Write([]byte{1, 2, 3})
					obs = append(obs, map[bool]string{true: "o", false: "e"}[err == nil])
					continue
				}
				_, err := wc.Write(raw)
				if err == nil {
					obs = append(obs, "o")
					accepted = append(accepted, proj(raw))
				} else {
					obs = append(obs, "e")
				}
				continue
			}
			var before []string
			binfo := c.Info()
			if checkEach {
				if r, err := c.Resolve(); err == nil {
					before, _ = structuredOf(r)
				}
			}
			wb := inWriter()
			err := c.Add(in)
			if err == nil {
				obs = append(obs, "o")
				accepted = append(accepted, proj(raw))
				// durability bound (C09): k accepted samples, chunk size N => at least N*floor((k-1)/N) in the writer
				if isStreaming(ctor) && !explicitSplit && len(script) == 0 && n >= 1 && oneSchema(accepted) {
					if k := len(accepted); inWriter() < n*((k-1)/n) {
						bad("fewer samples are durable than the chunk size guarantees", map[string]int{"accepted": k, "inWriter": inWriter(), "N": n})
					}
				}
			} else {
				obs = append(obs, "e")
				// a rejected Add changes nothing: the log (writer + pending) and the pending count modulo a flush
				if checkEach && !violated {
					var after []string
					if r, err := c.Resolve(); err == nil {
						after, _ = structuredOf(r)
					}
					wa := inWriter()
					if wa-wb+len(after) != len(before) || c.Info().SampleCount+(wa-wb) != binfo.SampleCount {
						bad("a rejected Add changed the collector's contents", map[string]interface{}{"op": op})
					}
				}
			}
		case 'r':
			if wc != nil {
				obs = append(obs, "n")
				continue
			}
			out, err := c.Resolve()
			if err != nil {
				obs = append(obs, "Rerr")
			} else {
				hold(out)
				obs = append(obs, "R["+strings.Join(wireDocs(out), ",")+"]")
			}
		case 'z':
			if wc != nil {
				obs = append(obs, "n")
				continue
			}
			k := inWriter()
			c.Reset()
			resetSinceMeta = true
			if k <= len(accepted) {
				accepted = accepted[:k]
			}
			explicitSplit = true
			obs = append(obs, "z")
			if info := c.Info(); info.SampleCount != 0 {
				bad("Reset left samples behind", info.SampleCount)
			}
		case 'f':
			if wc != nil {
				obs = append(obs, "n")
				continue
			}
			err := ftdc.FlushCollector(c, w)
			resetSinceMeta = true
			explicitSplit = true
			obs = append(obs, "F"+errStr(err))
			if err == nil && c.Info().SampleCount != 0 {
				bad("a successful flush left samples pending", nil)
			}
		case 'M':
			// metadata the collector cannot read: refused, and the metadata set before stays set
			if wc != nil {
				obs = append(obs, "n")
				continue
			}
			obs = append(obs, "m"+errStr(c.SetMetadata(map[string]string{"not": "a document"})))
		case 'm':
			if wc != nil {
				obs = append(obs, "n")
				continue
			}
			d, _ := birch.ReadDocument(pool[int(atoi64(op[1:]))])
			merr := c.SetMetadata(d)
			obs = append(obs, "m"+errStr(merr))
			if merr == nil {
				if lastMeta != "" && lastMeta != hx(pool[int(atoi64(op[1:]))]) {
					replacedMeta[lastMeta] = true
				}
				lastMeta = hx(pool[int(atoi64(op[1:]))])
				delete(replacedMeta, lastMeta)
				resetSinceMeta = false
			}
		case 'i':
			if wc != nil {
				obs = append(obs, "n")
				continue
			}
			info := c.Info()
			obs = append(obs, fmt.Sprintf("I%d,%d", info.MetricsCount, info.SampleCount))
		}
		checkFault()
		if checkEach {
			checkLog("after " + op)
		}
	}
	final := "-"
	writerClosedOK := false
	if wc != nil {
		// Close, retried while it fails (a failed flush keeps the samples pending: the retry must deliver them)
		var rs []string
		closedOK := false
		for try := 0; try < 3 && !closedOK; try++ {
			err := wc.Close()
			rs = append(rs, errStr(err))
			closedOK = err == nil
		}
		final = "close=" + strings.Join(rs, ",")
		writerClosedOK = closedOK
	} else if out, err := c.Resolve(); err != nil {
		final = "err"
	} else {
		final = "[" + strings.Join(wireDocs(out), ",") + "]"
	}
	o.emit(line, fmt.Sprintf("%s final=%s writer=[%s]", strings.Join(obs, " "), final, strings.Join(w.entries, " ")))
	// C11, write side: what Resolve emits now never carries a metadata document that a later SetMetadata replaced
	if wc == nil {
		if out, err := c.Resolve(); err == nil {
			wd := wireDocs(out)
			for _, d := range wd {
				if strings.HasPrefix(d, "M:") {
					h := d[strings.LastIndex(d, ":")+1:]
					if replacedMeta[h] {
						o.violation(line, "Resolve emits a metadata document that a later SetMetadata had replaced", map[string]string{"stale": h, "current": lastMeta})
						break
					}
				}
			}
			// ... and the metadata that is set is emitted ahead of the metric chunks it describes. Whether metadata
			// survives a Reset (explicit, or inside FlushCollector) is not stated by the property and differs between
			// the collectors (the base collector keeps it, the batch and dynamic collectors drop it): only histories
			// without a reset after the last SetMetadata are judged here; the model mirrors each collector.
			if lastMeta != "" && !resetSinceMeta {
				for _, d := range wd {
					if strings.HasPrefix(d, "M:") && d[strings.LastIndex(d, ":")+1:] == lastMeta {
						break
					}
					if strings.HasPrefix(d, "C:") {
						o.violation(line, "Resolve emits a metric chunk that is not preceded by the metadata document that is set", map[string]string{"metadata": lastMeta})
						break
					}
				}
			}
		}
	}
	for i := range held {
		if !bytes.Equal(held[i], heldCopies[i]) {
			bad("bytes returned by an earlier Resolve were modified by a later operation on the collector", map[string]int{"resolve": i, "length": len(held[i])})
			break
		}
	}
	o.nontrivial(line)
	o.count("hist-" + ctor)
	o.count(fmt.Sprintf("hist-len<%d", 4*(1+len(ops)/4)))
	if violated {
		return
	}
	if wc != nil {
		// writer collector: after Close everything accepted is in the writer (when no write failed)
		docs, err := structuredOf(w.good.Bytes())
		if err != nil {
			bad("writer collector output does not decode", err.Error())
		} else if len(script) == 0 && !skipF1 && strings.Join(docs, ",") != strings.Join(accepted, ",") {
			bad("writer collector output differs from the documents written", map[string]int{"decoded": len(docs), "written": len(accepted)})
		} else if writerClosedOK && !quietScript(script) && !skipF1 && strings.Join(docs, ",") != strings.Join(accepted, ",") {
			// C09: a Close that returned nil has delivered every accepted, not yet durable sample - also when earlier
			// writes (or earlier Close calls) failed
			bad("Close returned nil but the complete writes do not hold every accepted document", map[string]int{"decoded": len(docs), "written": len(accepted)})
		}
	} else {
		checkLog("at the end")
	}
	if violated {
		return
	}
	// chunk size bounds
	var all []byte
	all = append(all, w.good.Bytes()...)
	if wc == nil {
		if out, err := c.Resolve(); err == nil {
			all = append(all, out...)
		}
	}
	sizes, keys := chunkSizesOf(all)
	limit := n
	if strings.TrimPrefix(ctor, "sample0-") == "base" {
		limit = n + 1
	}
	for i, s := range sizes {
		if s > limit {
			bad("a chunk holds more samples than the configured maximum", map[string]int{"chunk": i, "size": s, "max": limit})
		}
		if !explicitSplit && len(script) == 0 && i+1 < len(sizes) && s < limit && strings.Join(keys[i], "\x00") == strings.Join(keys[i+1], "\x00") && sameSchemaRun(o, line, i) {
			bad("a chunk that is not the last of its schema run holds fewer samples than the maximum", map[string]int{"chunk": i, "size": s, "max": limit})
		}
	}
	_ = streaming
}

// quietScript: does the fault script contain a write that is short without reporting an error (an io.Writer
// contract violation no collector can notice)?
func quietScript(script []string) bool {
	for _, e := range script {
		if strings.HasPrefix(e, "quiet") {
			return true
		}
	}
	return false
}

// sameSchemaRun exists so that the "only the last chunk of a run may be short" clause is applied only by
// streams that guarantee runs are delimited by key changes (the schema stream overrides it).
var sameSchemaRun = func(o *Out, line string, i int) bool { return true }

// oneSchema: all documents have the same metric keys and types (the durability bound speaks about one schema run)
func oneSchema(docs []string) bool {
	first := ""
	for i, d := range docs {
		kids, err := parseDocStrict(unhx(d))
		if err != nil {
			return false
		}
		var parts []string
		for _, l := range leavesOf(kids, nil, false, "") {
			parts = append(parts, fmt.Sprintf("%02x:%s", l.Tag, strings.Join(l.Path, ".")))
		}
		sig := strings.Join(parts, ";")
		if i == 0 {
			first = sig
		} else if sig != first {
			return false
		}
	}
	return true
}

func leafSigs(docs []string) []string {
	out := make([]string, len(docs))
	for i, d := range docs {
		kids, err := parseDocStrict(unhx(d))
		if err != nil {
			out[i] = "X"
			continue
		}
		var parts []string
		for _, l := range leavesOf(kids, nil, false, "") {
			parts = append(parts, fmt.Sprintf("%02x:%d", l.Tag, l.Val))
		}
		out[i] = strings.Join(parts, ";")
	}
	return out
}

func hasTimestamp(kids []*Node) bool {
	for _, k := range kids {
		if k.Tag == 0x11 || ((k.Tag == 0x03 || k.Tag == 0x04) && hasTimestamp(k.Kids)) {
			return true
		}
	}
	return false
}

// ---- pools ---------------------------------------------------------------------------------

func i64n(key string, v int64) *Node      { return &Node{Key: key, Tag: 0x12, Raw: u64(uint64(v))} }
func dbl(key string, v uint64) *Node      { return &Node{Key: key, Tag: 0x01, Raw: u64(v)} }
func sub(key string, kids ...*Node) *Node { return &Node{Key: key, Tag: 0x03, Kids: kids} }

// schemaPool: documents of several schemas; k makes the values of one schema differ between samples
func schemaDoc(schema string, k int64) []*Node {
	switch schema {
	case "A":
		return []*Node{i64n("a", 10+k), i64n("b", 20-k)}
	case "B": // field added
		return []*Node{i64n("a", 10+k), i64n("b", 20-k), i64n("c", k)}
	case "C": // reordered
		return []*Node{i64n("b", 20-k), i64n("a", 10+k)}
	case "D": // collides with E when keys are hashed without separators
		return []*Node{sub("a", i64n("b", 1+k)), i64n("c", 2+k)}
	case "E":
		return []*Node{i64n("a", 10+k), sub("b", i64n("c", 20+k))}
	case "F": // value type change only (a: double instead of int64)
		return []*Node{dbl("a", uint64(0x4024000000000000+k)), i64n("b", 20-k)}
	case "G": // renamed
		return []*Node{i64n("a", 10+k), i64n("bb", 20-k)}
	case "H": // nested
		return []*Node{sub("a", i64n("x", k), i64n("y", -k)), i64n("b", 5)}
	case "I": // value type change among the integer-like types only (a: int32 instead of int64)
		return []*Node{{Key: "a", Tag: 0x10, Raw: u32(uint32(10 + k))}, i64n("b", 20-k)}
	case "J": // bool instead of int64
		return []*Node{i64n("a", 10+k), {Key: "b", Tag: 0x08, Raw: []byte{byte(k & 1)}}}
	case "Z": // no metrics at all
		return []*Node{{Key: "s", Tag: 0x02, Raw: append(u32(2), 'x', 0)}}
	}
	panic("schema " + schema)
}

var allSchemas = []string{"A", "I", "B", "C", "D", "E", "F", "G", "H", "J"}

func streamHist(o *Out, rng *rand.Rand, thorough bool, _ []string) {
	runStart = time.Now()
	// exhaustive histories over {a0, a1, x, r, z, f, m0, i} with documents of ONE schema (C08 covers changes)
	// a3: same keys and metric count as A but a different value type at the LAST metric and a changed first metric
	// (a rejected Add must not leave anything behind in the slot of the next sample)
	typeChange := []*Node{i64n("a", 99), dbl("b", 0x4024000000000000)}
	// a metadata document that looks like the wire wrapper of a metadata document: {type: 0, doc: {...}, host: 7}
	wrapperLike := []*Node{{Key: "type", Tag: 0x10, Raw: u32(0)}, sub("doc", i64n("k", 1)), i64n("host", 7)}
	pool := []string{hx(docBytes(schemaDoc("A", 1))), hx(docBytes(schemaDoc("A", 2))), hx(docBytes(schemaDoc("Z", 0))), hx(docBytes(typeChange)),
		hx(docBytes(wrapperLike))}
	alphabet := []string{"a0", "a1", "a3", "x", "r", "z", "f", "m1", "m4", "i"}
	maxLen := 3
	if thorough {
		maxLen = 4 // 5 would be about a million cases per stream: an hour instead of minutes
	}
	cts := []string{"base", "batch", "dynamic", "streaming", "streamingDynamic"}
	var rec func(prefix []string)
	rec = func(prefix []string) {
		if len(prefix) > 0 {
			for _, ctor := range cts {
				for _, n := range []int{1, 2, 3} {
					if !thorough && len(prefix) >= 3 && n != 2 {
						continue // quick tier: the longest histories with one chunk size
					}
					run(o, fmt.Sprintf("hist %s %d - | %s | %s", ctor, n, strings.Join(pool, " "), strings.Join(prefix, " ")))
				}
			}
			// the same histories through the time-sampling wrapper with a zero interval (transparent)
			for _, ctor := range []string{"sample0-base", "sample0-batch", "sample0-streaming"} {
				if len(prefix) <= 3 {
					run(o, fmt.Sprintf("hist %s 2 - | %s | %s", ctor, strings.Join(pool, " "), strings.Join(prefix, " ")))
				}
			}
		}
		if len(prefix) == maxLen {
			return
		}
		for _, a := range alphabet {
			rec(append(append([]string{}, prefix...), a))
		}
	}
	rec(nil)
	// two schemas with the same depth-first list of leaf names and types that differ only in where a sub-document ends
	// ({a:{b,c}} / {a:{b},c}): the schema-aware collectors must tell them apart, the decoded samples are the accepted ones
	{
		nestA := []*Node{sub("a", i64n("b", 1), i64n("c", 2))}
		nestB := []*Node{sub("a", i64n("b", 3)), i64n("c", 4)}
		nestC := []*Node{sub("a", i64n("b", 5), i64n("c", 6))}
		npool := []string{hx(docBytes(nestA)), hx(docBytes(nestB)), hx(docBytes(nestC))}
		var nrec func(prefix []string)
		nrec = func(prefix []string) {
			if len(prefix) >= 2 {
				for _, ctor := range []string{"dynamic", "streamingDynamic", "writer", "sample0-dynamic"} {
					for _, n := range []int{1, 2, 3} {
						run(o, fmt.Sprintf("hist %s %d - | %s | %s", ctor, n, strings.Join(npool, " "), strings.Join(prefix, " ")))
					}
				}
			}
			if len(prefix) == 3 {
				return
			}
			for _, a := range []string{"a0", "a1", "a2"} {
				nrec(append(append([]string{}, prefix...), a))
			}
		}
		nrec(nil)
		// schema changes around Reset, Flush and SetMetadata: after a Reset or Flush a sample of ANOTHER schema is handled as
		// by a fresh collector; metadata set after a schema change still leads what Resolve emits
		npool = append(npool, hx(docBytes([]*Node{i64n("host", 5), i64n("version", 2)})))
		zl := 3
		if thorough {
			zl = 4
		}
		var zrec func(prefix []string)
		zrec = func(prefix []string) {
			if len(prefix) >= 2 {
				for _, ctor := range []string{"dynamic", "streamingDynamic", "writer", "sample0-dynamic"} {
					for _, n := range []int{1, 2} {
						run(o, fmt.Sprintf("hist %s %d - | %s | %s", ctor, n, strings.Join(npool, " "), strings.Join(prefix, " ")))
					}
				}
			}
			if len(prefix) == zl {
				return
			}
			for _, a := range []string{"a0", "a1", "z", "f", "r", "m3", "M"} {
				zrec(append(append([]string{}, prefix...), a))
			}
		}
		zrec(nil)
		// a sample without any metric leaf between samples with metrics (its schema has no metrics at all)
		mpool := []string{npool[0], npool[1], hx(docBytes([]*Node{{Key: "s", Tag: 0x02, Raw: append(u32(2), 'x', 0)}})), hx(docBytes(nil))}
		var mrec func(prefix []string)
		mrec = func(prefix []string) {
			if len(prefix) >= 2 {
				for _, ctor := range []string{"dynamic", "streamingDynamic", "writer", "batch"} {
					for _, n := range []int{1, 2} {
						run(o, fmt.Sprintf("hist %s %d - | %s | %s", ctor, n, strings.Join(mpool, " "), strings.Join(prefix, " ")))
					}
				}
			}
			if len(prefix) == 4 {
				return
			}
			for _, a := range []string{"a0", "a1", "a2", "a3"} {
				if len(prefix) == 3 && (a == "a3") {
					continue
				}
				mrec(append(append([]string{}, prefix...), a))
			}
		}
		mrec(nil)
	}
	// random long histories
	nr := 300
	if thorough {
		nr = 6000
	}
	for i := 0; i < nr; i++ {
		schema := genSchema(rng, 0, 3, false, 8)
		var p []string
		for k := 0; k < 6; k++ {
			p = append(p, hx(docBytes(instantiate(rng, schema, k))))
		}
		L := 20 + rng.Intn(100)
		var ops []string
		for k := 0; k < L; k++ {
			switch r := rng.Intn(20); {
			case r < 13:
				ops = append(ops, fmt.Sprintf("a%d", rng.Intn(6)))
			case r < 14:
				ops = append(ops, "x")
			case r < 15:
				ops = append(ops, "r")
			case r < 16:
				ops = append(ops, "z")
			case r < 17:
				ops = append(ops, "f")
			case r < 18:
				if rng.Intn(4) == 0 {
					ops = append(ops, "M")
				} else {
					ops = append(ops, fmt.Sprintf("m%d", rng.Intn(6)))
				}
			default:
				ops = append(ops, "i")
			}
		}
		ctor := append(append([]string{}, cts...), "writer", "sample0-base", "sample0-dynamic", "sample0-streamingDynamic")[rng.Intn(9)]
		run(o, fmt.Sprintf("hist %s %d - | %s | %s", ctor, 1+rng.Intn(7), strings.Join(p, " "), strings.Join(ops, " ")))
	}
}

// C08: sequences over a pool of schemas
func streamSchema(o *Out, rng *rand.Rand, thorough bool, _ []string) {
	runStart = time.Now()
	pool := []string{}
	for _, s := range allSchemas {
		pool = append(pool, hx(docBytes(schemaDoc(s, 0))))
	}
	// a second sample of every schema so that values differ
	for i, s := range allSchemas {
		pool = append(pool, hx(docBytes(schemaDoc(s, int64(3+i)))))
	}
	ns := len(allSchemas)
	maxLen := 3
	if thorough {
		maxLen = 4 // 5 would be about a million cases per stream: an hour instead of minutes
	}
	// generated pairs: a random schema tree and the same tree after one structural edit (hoist, sink, rename, swap,
	// wrap, unwrap, retype, add, remove, metric -> non-metric)
	ne := 1500
	if thorough {
		ne = 20000
	}
	for _, l := range schemaEditCases(rng, ne) {
		run(o, l)
	}
	cts := []string{"dynamic", "streamingDynamic", "writer", "batch", "base", "streaming"}
	var rec func(prefix []int)
	rec = func(prefix []int) {
		if len(prefix) >= 2 {
			var ops []string
			for k, s := range prefix {
				idx := s
				if k%2 == 1 {
					idx = s + ns
				}
				ops = append(ops, fmt.Sprintf("a%d", idx))
			}
			for _, ctor := range cts {
				nsz := []int{1, 2, 3}
				if thorough {
					nsz = []int{1, 2, 3, 10}
				}
				for _, n := range nsz {
					if !thorough && n != 2 && (ctor == "base" || ctor == "batch" || ctor == "streaming") {
						continue
					}
					if len(prefix) >= 4 && n != 2 {
						continue // the longest sequences with one chunk size only (a quarter of an hour otherwise)
					}
					run(o, fmt.Sprintf("hist %s %d - | %s | %s", ctor, n, strings.Join(pool, " "), strings.Join(ops, " ")))
				}
			}
		}
		if len(prefix) == maxLen {
			return
		}
		lim := ns
		if len(prefix) >= 3 && !thorough {
			lim = 4 // keep the quick tier small: A..D at depth 4
		}
		if len(prefix) >= 3 && !thorough && prefix[0] >= 4 {
			return
		}
		for s := 0; s < lim; s++ {
			rec(append(append([]int{}, prefix...), s))
		}
	}
	rec(nil)
	nr := 200
	if thorough {
		nr = 5000
	}
	for i := 0; i < nr; i++ {
		L := 5 + rng.Intn(40)
		var ops []string
		cur := rng.Intn(ns)
		for k := 0; k < L; k++ {
			if rng.Intn(4) == 0 {
				cur = rng.Intn(ns)
			}
			ops = append(ops, fmt.Sprintf("a%d", cur+ns*rng.Intn(2)))
		}
		run(o, fmt.Sprintf("hist %s %d - | %s | %s", cts[rng.Intn(len(cts))], 1+rng.Intn(6), strings.Join(pool, " "), strings.Join(ops, " ")))
	}
}

// C09 fault placement: one or two failing writes among the first K writes
func streamFault(o *Out, rng *rand.Rand, thorough bool, _ []string) {
	runStart = time.Now()
	pool := []string{hx(docBytes(schemaDoc("A", 1))), hx(docBytes(schemaDoc("A", 2))), hx(docBytes(schemaDoc("B", 3))),
		hx(docBytes(schemaDoc("G", 4))), hx(docBytes(schemaDoc("G", 5)))}
	K := 4
	if thorough {
		K = 6
	}
	kinds := []string{"fail", "short0", "short7", "short40", "quiet9"}
	var scripts []string
	for i := 0; i < K; i++ {
		for _, k := range kinds {
			s := make([]string, i+1)
			for j := range s {
				s[j] = "ok"
			}
			s[i] = k
			scripts = append(scripts, strings.Join(s, ","))
			if thorough || k == "fail" || k == "short7" {
				for j := i + 1; j < K; j++ {
					for _, k2 := range []string{"fail", "short7"} {
						s2 := make([]string, j+1)
						for q := range s2 {
							s2[q] = "ok"
						}
						s2[i], s2[j] = k, k2
						scripts = append(scripts, strings.Join(s2, ","))
					}
				}
			}
		}
	}
	opsets := []string{
		"a0 a1 a0 a1 a0 a1 a0 a1 f",
		"a0 a1 f a0 f a1 a0 f f",
		"a0 a1 a2 a2 a0 a1 a2 f a0 f",
		"a0 f f a1 f a1 a1 a1 f",
		"a0 a1 a3 a4 a3 f a4 f", // schema change to a renamed schema of the same shape: the change flush may fail
		"a0 a3 a3 a4 a0 a1 f f",
	}
	for _, sc := range scripts {
		for _, ctor := range []string{"streaming", "streamingDynamic", "writer"} {
			for _, n := range []int{1, 2, 3} {
				for _, ops := range opsets {
					run(o, fmt.Sprintf("hist %s %d %s | %s | %s", ctor, n, sc, strings.Join(pool, " "), ops))
				}
			}
		}
	}
	// samples without any metric leaf (strings only, or no field at all) are samples like any other: they fill chunks,
	// are flushed and count for the durability bound, with and without write faults
	mpool := append(append([]string{}, pool...), hx(docBytes([]*Node{{Key: "s", Tag: 0x02, Raw: append(u32(2), 'x', 0)}})), hx(docBytes(nil)))
	for _, sc := range []string{"-", "fail", "ok,fail", "ok,short7"} {
		for _, ctor := range []string{"streaming", "streamingDynamic", "writer"} {
			for _, n := range []int{1, 2, 3} {
				for _, ops := range []string{"a5 a5 a5 a5 a5 f", "a0 a5 a5 a0 a0 a5 f", "a6 a6 a6 a0 a0 f", "a5 a6 a5 a6 f a5 f"} {
					run(o, fmt.Sprintf("hist %s %d %s | %s | %s", ctor, n, sc, strings.Join(mpool, " "), ops))
				}
			}
		}
	}
}

// C09 crash points: every byte offset of what streaming collectors wrote (up to ~4 KiB) is a crash point
func streamCrash(o *Out, rng *rand.Rand, thorough bool, _ []string) {
	runStart = time.Now()
	nstreams := 3
	if thorough {
		nstreams = 30
	}
	var lines []string
	for i := 0; i < nstreams; i++ {
		schema := genSchema(rng, 0, 3, false, 9)
		docs := genDocs(rng, schema, 3+rng.Intn(8))
		var meta []byte
		if i%2 == 1 {
			meta = docBytes([]*Node{i64n("host", int64(i))})
		}
		ctor := []string{"streaming", "streamingDynamic"}[i%2]
		if i%3 == 2 {
			// a schema change in the middle
			docs = append(docs, genDocs(rng, genSchema(rng, 0, 2, false, 9), 2)...)
			ctor = "streamingDynamic"
		}
		stream := collect(ctor, 1+rng.Intn(3), meta, docs)
		if len(stream) > 4096 {
			continue
		}
		tds := topDocs(stream)
		ctx, cancel := context.WithCancel(context.Background())
		base := observeChunks(ctx, stream)
		cancel()
		bound := map[int]bool{0: true}
		for _, td := range tds {
			bound[td.off+td.l] = true
		}
		for k := 0; k <= len(stream); k++ {
			nb := 0
			for _, td := range tds {
				if td.off+td.l <= k && td.payload != nil {
					nb++
				}
			}
			good := "goodtables=" + strings.Join(base.tables[:nb], "|")
			ex := "malformed "
			if bound[k] {
				ex = "wellformed exact=" + fmt.Sprint(nb) + " "
			}
			lines = append(lines, fmt.Sprintf("read %s | %s | %s%s", hx(stream[:k]), inflateTable(stream[:k]), ex, good))
		}
	}
	runIsolated(o, lines, 20*time.Second)
}
