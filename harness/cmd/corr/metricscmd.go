package main

import (
	"bufio"
	"bytes"
	"context"
	"errors"
	"fmt"
	"io"
	"math/rand"
	"os"
	"path/filepath"
	"sort"
	"strings"
	"sync/atomic"
	"time"

	"github.com/evergreen-ci/birch"
	"github.com/mongodb/ftdc"
	"github.com/mongodb/ftdc/metrics"
	"go.mongodb.org/mongo-driver/bson"
)

func init() {
	commands["json"] = cmdJSON
	commands["runtime-trace"] = cmdRuntimeTrace
	streams["json"] = streamJSON
	streams["runtime"] = streamRuntime
}

// json <N> <flush ms, 0 = never> | <token> ...
// token: <hex BSON of the document the line parses to>  |  BAD  |  LONG<hex>  (the same document in a line > 64 KiB)
// The JSON text of every line is produced here from the document with bson.MarshalExtJSON.
func cmdJSON(o *Out, line string, f []string) {
	sec := sections(f)
	n, flushMs := int(atoi64(sec[0][0])), int(atoi64(sec[0][1]))
	var text bytes.Buffer
	var parsed []string // what each parseable line parses to (hex), in order (long lines included)
	hasBad, hasLong := false, false
	noEOL := false
	var readErr error // the input source fails with this error after the text collected so far
tokens:
	for _, tok := range sec[1] {
		switch {
		case strings.HasPrefix(tok, "RDERR"):
			// the source cannot be read in full: it fails here (at a line boundary, or - kinds 2, 5 - in the middle of a line)
			// with an error that is not io.EOF; whatever follows is never delivered
			kinds := []error{io.ErrUnexpectedEOF, errors.New("read: connection reset by peer"), io.ErrUnexpectedEOF, io.ErrClosedPipe, io.ErrNoProgress,
				errors.New("input/output error")}
			k := int(atoi64(tok[5:])) % len(kinds)
			if k == 2 || k == 5 {
				text.WriteString("{\"a\": 1, \"b")
			}
			readErr = kinds[k]
			hasBad = true
			break tokens
		case tok == "NOEOL": // the text does not end with a newline
			noEOL = true
		case strings.HasPrefix(tok, "BAD"):
			// a line that is not a JSON document: cut after a colon, inside a literal, inside a string, inside an array;
			// not JSON at all; unbalanced; a JSON value that is not a document (a document followed by more text on
			// the same line, `{"a":1}}`, is accepted by the parser, which is external: not generated)
			kinds := []string{"{\"a\": 1, \"b\": ", "{\"a\":tru", "{\"a\":nul", "{\"a\":fals", "{\"a\":\"x", "{\"a\":[1,", "xyz", "{", "}", "{\"a\":1,}",
				"[1,2]", "{\"a\":1 \"b\":2}", "{\"a\":{\"$numberLong\":\"12", "{\"a\":1e", "{\"a\":-"}
			k := 0
			if len(tok) > 3 {
				k = int(atoi64(tok[3:])) % len(kinds)
			}
			text.WriteString(kinds[k] + "\n")
			hasBad = true
		case strings.HasPrefix(tok, "PADL") || strings.HasPrefix(tok, "PADS"):
			// PADL<n>:<hex> / PADS<n>:<hex>: the document in a line of exactly n bytes; L/S = whether bufio.Scanner
			// (run by the generator on the same text) refuses the line as too long
			colon := strings.IndexByte(tok, ':')
			n := int(atoi64(tok[4:colon]))
			text.Write(paddedLine(unhx(tok[colon+1:]), n))
			text.WriteByte('\n')
			if tok[3] == 'L' {
				hasLong = true
			}
			parsed = append(parsed, tok[colon+1:])
		case strings.HasPrefix(tok, "LONG"):
			var d bson.D
			if err := bson.Unmarshal(unhx(tok[4:]), &d); err != nil {
				panic(err)
			}
			d = append(bson.D{{Key: "pad", Value: strings.Repeat("x", 70000)}}, d...)
			js, _ := bson.MarshalExtJSON(d, false, false)
			text.Write(js)
			text.WriteByte('\n')
			hasLong = true
			parsed = append(parsed, tok[4:])
		default:
			var d bson.D
			if err := bson.Unmarshal(unhx(tok), &d); err != nil {
				panic(err)
			}
			js, err := bson.MarshalExtJSON(d, false, false)
			if err != nil {
				panic(err)
			}
			text.Write(js)
			text.WriteByte('\n')
			parsed = append(parsed, tok)
		}
	}
	if noEOL && text.Len() > 0 {
		text.Truncate(text.Len() - 1)
	}
	flush := time.Hour
	if flushMs > 0 {
		flush = time.Duration(flushMs) * time.Millisecond
	}
	ctx, cancel := context.WithCancel(context.Background())
	defer cancel()
	opts := metrics.CollectJSONOptions{InputSource: &slowReader{r: &text, every: flushMs, fail: readErr}, SampleCount: n, FlushInterval: flush}
	files := len(sec[0]) > 2 && sec[0][2] == "files"
	var dir string
	if files {
		// the data goes to <prefix>.0, <prefix>.1, ... at every flush; the input arrives line by line with pauses so
		// that flushes happen while the stream is still open. What was delivered = the files in order.
		var derr error
		if dir, derr = os.MkdirTemp("", "verif-json-"); derr != nil {
			panic(derr)
		}
		defer os.RemoveAll(dir)
		opts.OutputFilePrefix = filepath.Join(dir, "out")
		opts.InputSource = &slowReader{r: &text, every: flushMs, lineWise: true, fail: readErr}
	}
	out, err := metrics.CollectJSONStream(ctx, opts)
	if files && err == nil {
		var all []byte
		nfiles := 0
		for k := 0; ; k++ {
			b, rerr := os.ReadFile(fmt.Sprintf("%s.%d", opts.OutputFilePrefix, k))
			if rerr != nil {
				break
			}
			nfiles++
			all = append(all, b...)
		}
		out = append(all, out...)
		nb := "1"
		if nfiles == 0 {
			nb = "0"
		} else if nfiles > 1 {
			nb = "many"
		}
		o.count("json-files-" + nb)
	}
	if err != nil {
		o.emit(line, "err")
	} else {
		docs, derr := iterDocs(ftdc.ReadStructuredMetrics(ctx, bytes.NewReader(out)))
		o.emit(line, fmt.Sprintf("ok docs=%s[%s]", errStr(derr), strings.Join(docs, " ")))
		// oracle: the numeric projection of every line, in order
		var want []string
		for _, p := range parsed {
			kids, perr := parseDocStrict(unhx(p))
			if perr != nil {
				return
			}
			want = append(want, hx(docBytes(project(kids, false))))
		}
		if derr != nil {
			o.violation(line, "output of CollectJSONStream does not decode", derr.Error())
		} else if hasBad {
			o.violation(line, "a malformed line, or an input that could not be read in full, was not reported: nil error",
				map[string]int{"parseable_lines": len(parsed), "decoded": len(docs)})
		} else if strings.Join(docs, " ") != strings.Join(want, " ") {
			// a line over 64 KiB may be refused with an error, or read in full; never dropped or cut silently
			o.violation(line, "nil error, but the decoded output is not the numeric projection of every line in order",
				map[string]int{"lines": len(want), "decoded": len(docs)})
		}
	}
	// a line that differs from its predecessor only in the TYPE of a metric (an integer outgrowing 32 bits) is refused by
	// the collector: a loud failure, which the property allows; what it forbids is a nil error with other values
	typeChange := false
	for i := 1; i < len(parsed); i++ {
		a, ea := parseDocStrict(unhx(parsed[i-1]))
		b, eb := parseDocStrict(unhx(parsed[i]))
		if ea != nil || eb != nil {
			continue
		}
		la, lb := leavesOf(a, nil, false, ""), leavesOf(b, nil, false, "")
		if len(la) != len(lb) {
			continue
		}
		same, retyped := true, false
		for k := range la {
			if strings.Join(la[k].Path, "\x00") != strings.Join(lb[k].Path, "\x00") {
				same = false
			}
			if la[k].Tag != lb[k].Tag {
				retyped = true
			}
		}
		if same && retyped {
			typeChange = true
		}
	}
	if err != nil && !hasBad && !hasLong && !typeChange {
		o.violation(line, "a well-formed stream was rejected", err.Error())
	}
	o.nontrivial(line)
	o.count(fmt.Sprintf("json-flush%d", flushMs))
}

// paddedLine renders the document as one JSON line of exactly n bytes (a leading string field takes the slack)
func paddedLine(doc []byte, n int) []byte {
	var d bson.D
	if err := bson.Unmarshal(doc, &d); err != nil {
		panic(err)
	}
	mk := func(k int) []byte {
		js, err := bson.MarshalExtJSON(append(bson.D{{Key: "pad", Value: strings.Repeat("x", k)}}, d...), false, false)
		if err != nil {
			panic(err)
		}
		return js
	}
	base := len(mk(0))
	if n < base {
		panic("padded line shorter than the document")
	}
	js := mk(n - base)
	if len(js) != n {
		panic("padded line has the wrong length")
	}
	return js
}

// scannerRefuses: does bufio.Scanner (default buffer, as the library uses it) refuse this text?
func scannerRefuses(text []byte) bool {
	sc := bufio.NewScanner(bytes.NewReader(text))
	for sc.Scan() {
	}
	return sc.Err() != nil
}

// slowReader delivers the text in small pieces with pauses so that flush timers fire in between
type slowReader struct {
	r        *bytes.Buffer
	every    int
	lineWise bool
	fail     error // reported instead of io.EOF when the text is exhausted
}

func (s *slowReader) Read(p []byte) (int, error) {
	if s.fail != nil && s.r.Len() == 0 {
		return 0, s.fail
	}
	if s.lineWise {
		time.Sleep(time.Duration(s.every) * time.Millisecond * 2 / 3)
		b := s.r.Bytes()
		if i := bytes.IndexByte(b, '\n'); i >= 0 && i+1 < len(p) {
			p = p[:i+1]
		}
		return s.r.Read(p)
	}
	if s.every > 0 {
		time.Sleep(time.Duration(s.every) * time.Millisecond / 2)
		if len(p) > 4096 {
			p = p[:4096]
		}
	}
	return s.r.Read(p)
}

// what a JSON line's document looks like after bson.UnmarshalExtJSON (types as the library will see them)
func afterJSON(doc []byte) ([]byte, bool) {
	var d bson.D
	if err := bson.Unmarshal(doc, &d); err != nil {
		return nil, false
	}
	js, err := bson.MarshalExtJSON(d, false, false)
	if err != nil {
		return nil, false
	}
	bd := &birch.Document{}
	if err := bson.UnmarshalExtJSON(js, false, bd); err != nil {
		return nil, false
	}
	b, err := bd.MarshalBSON()
	if err != nil {
		return nil, false
	}
	return b, true
}

func streamJSON(o *Out, rng *rand.Rand, thorough bool, _ []string) {
	n := 120
	if thorough {
		n = 3000
	}
	mkDoc := func(schema int, k int64) []byte {
		var kids []*Node
		switch schema {
		case 0:
			kids = []*Node{i64n("a", 1<<40+k), dbl("f", uint64(0x4024000000000000+k)), {Key: "s", Tag: 0x02, Raw: append(u32(2), 'x', 0)}, {Key: "ok", Tag: 0x08, Raw: []byte{byte(k & 1)}}}
		case 1:
			kids = []*Node{i64n("a", 1<<41+k), sub("n", i64n("x", 1<<42+k), i64n("y", 1<<43-k))}
		case 4: // a counter around 2^31: JSON integers below 2^31 are read as int32, above as int64 (a type-only change)
			kids = []*Node{i64n("cnt", 2147483645+k), i64n("b", 5+k)}
		case 3: // schema 1 with the fields of its sub-document in the other order
			kids = []*Node{i64n("a", 1<<41+k), sub("n", i64n("y", 1<<43-k), i64n("x", 1<<42+k))}
		default:
			kids = []*Node{i64n("b", 1<<44-k), i64n("c", 1<<45+k), i64n("d", 1<<46+k)}
		}
		b, ok := afterJSON(docBytes(kids))
		if !ok {
			panic("json conversion")
		}
		return b
	}
	for i := 0; i < n; i++ {
		L := 1 + rng.Intn(14)
		var toks []string
		schema := rng.Intn(5)
		usedCross := false // a type-only change is in the stream: its outcome depends on where flushes fall (DESIGN section 4, C19): no ticks
		bad := -1
		if rng.Intn(3) == 0 {
			bad = rng.Intn(L)
		}
		for k := 0; k < L; k++ {
			if rng.Intn(6) == 0 {
				schema = rng.Intn(5) // schema change
			}
			if (schema == 1 || schema == 3) && rng.Intn(3) == 0 {
				schema = 4 - schema // the same fields, the sub-document's in the other order
			}
			if schema == 4 {
				usedCross = true
			}
			tok := hx(mkDoc(schema, int64(k)))
			if k == bad {
				switch rng.Intn(3) {
				case 0:
					tok = fmt.Sprintf("BAD%d", rng.Intn(15))
				case 1:
					tok = "LONG" + tok
				default:
					tok = fmt.Sprintf("RDERR%d", rng.Intn(6)) // the source fails here
				}
			}
			toks = append(toks, tok)
		}
		flush := 0
		if rng.Intn(4) == 0 && !usedCross {
			flush = 1 + rng.Intn(3)
		}
		if rng.Intn(3) == 0 {
			toks = append(toks, "NOEOL")
		}
		run(o, fmt.Sprintf("json %d %d | %s", 1+rng.Intn(6), flush, strings.Join(toks, " ")))
		if i%3 == 0 && !usedCross {
			// the same text delivered to files, with flushes while the stream is open
			run(o, fmt.Sprintf("json %d %d files | %s", 1+rng.Intn(6), 1+rng.Intn(3), strings.Join(toks, " ")))
		}
	}
	// the last line without a newline: well-formed, malformed, too long; a single unterminated line
	run(o, fmt.Sprintf("json 3 0 | %s %s %s NOEOL", hx(mkDoc(0, 1)), hx(mkDoc(0, 2)), hx(mkDoc(0, 3))))
	run(o, fmt.Sprintf("json 3 0 | %s %s BAD NOEOL", hx(mkDoc(0, 1)), hx(mkDoc(0, 2))))
	// every kind of malformed line, in the middle and at the end
	for k := 0; k < 15; k++ {
		run(o, fmt.Sprintf("json 3 0 | %s %s BAD%d %s", hx(mkDoc(0, 1)), hx(mkDoc(0, 2)), k, hx(mkDoc(0, 3))))
		run(o, fmt.Sprintf("json 3 0 | %s BAD%d NOEOL", hx(mkDoc(0, 1)), k))
	}
	// every kind of read failure: first thing, after complete lines, in files mode
	for k := 0; k < 6; k++ {
		run(o, fmt.Sprintf("json 3 0 | RDERR%d", k))
		run(o, fmt.Sprintf("json 3 0 | %s %s RDERR%d", hx(mkDoc(0, 1)), hx(mkDoc(0, 2)), k))
		run(o, fmt.Sprintf("json 2 2 files | %s %s %s RDERR%d", hx(mkDoc(0, 1)), hx(mkDoc(0, 2)), hx(mkDoc(0, 3)), k))
	}
	run(o, fmt.Sprintf("json 3 0 | %s LONG%s NOEOL", hx(mkDoc(0, 1)), hx(mkDoc(0, 2))))
	run(o, fmt.Sprintf("json 2 0 | %s NOEOL", hx(mkDoc(1, 1))))
	// line lengths around the scanner's 64 KiB buffer, terminated and not, last and in the middle
	for _, n := range []int{65534, 65535, 65536, 65537, 131072} {
		for _, eol := range []bool{true, false} {
			line := paddedLine(mkDoc(0, 3), n)
			text := append(append([]byte{}, line...), '\n')
			if !eol {
				text = line
			}
			cls := "PADS"
			if scannerRefuses(text) {
				cls = "PADL"
			}
			tail := ""
			if !eol {
				tail = " NOEOL"
			}
			run(o, fmt.Sprintf("json 3 0 | %s %s %s%d:%s%s", hx(mkDoc(0, 1)), hx(mkDoc(0, 2)), cls, n, hx(mkDoc(0, 3)), tail))
			if eol {
				run(o, fmt.Sprintf("json 2 0 | %s %s%d:%s %s", hx(mkDoc(0, 1)), cls, n, hx(mkDoc(0, 3)), hx(mkDoc(0, 2))))
			}
		}
	}
	// line lengths across the 64 KiB scanner limit are covered by LONG; a long but legal line:
	run(o, fmt.Sprintf("json 3 0 | %s %s", hx(mkDoc(0, 1)), hx(mkDoc(0, 2))))
}

// runtime-trace <N> | <ids of file 0> | <ids of file 1> ...   built from a real CollectRuntime run
func cmdRuntimeTrace(o *Out, line string, f []string) {
	sec := sections(f)
	next := int64(0)
	ok := true
	for i, s := range sec[1:] {
		if len(s) == 0 && i != len(sec)-2 {
			ok = false // only the trailing file may be empty
		}
		for _, id := range ints64(s) {
			if id != next {
				ok = false
			}
			next++
		}
	}
	if ok {
		o.emit(line, "valid")
	} else {
		o.emit(line, "invalid")
		o.violation(line, "ids across the files are not consecutive from 0, or a file in the middle is empty", nil)
	}
	o.nontrivial(line)
}

func streamRuntime(o *Out, rng *rand.Rand, thorough bool, _ []string) {
	runs := 6
	if thorough {
		runs = 60
	}
	for i := 0; i < runs; i++ {
		dir, _ := os.MkdirTemp("", "verif-rt-")
		prefix := filepath.Join(dir, "m")
		opts := metrics.CollectOptions{
			OutputFilePrefix:   prefix,
			SampleCount:        10 + rng.Intn(5),
			CollectionInterval: time.Duration(1+rng.Intn(3)) * time.Millisecond,
			FlushInterval:      time.Duration(5+rng.Intn(40)) * time.Millisecond,
			SkipSystem:         true,
			SkipProcess:        true,
		}
		// every second run counts the samples that were generated (a custom collector is called once per sample):
		// all of them must be in the files when CollectRuntime returns nil
		generated := int64(-1)
		idKey := "id"
		if i%2 == 1 {
			generated = 0
			idKey = "runtime.id"
			opts.Collectors = metrics.Collectors{{Name: "verif", Operation: func(context.Context) *birch.Document {
				n := atomic.AddInt64(&generated, 1)
				return birch.NewDocument(birch.EC.Int64("n", n))
			}}}
		}
		ctx, cancel := context.WithTimeout(context.Background(), time.Duration(20+rng.Intn(150))*time.Millisecond)
		err := metrics.CollectRuntime(ctx, opts)
		cancel()
		names, _ := filepath.Glob(prefix + ".*")
		sort.Slice(names, func(a, b int) bool {
			var x, y int
			fmt.Sscanf(filepath.Ext(names[a]), ".%d", &x)
			fmt.Sscanf(filepath.Ext(names[b]), ".%d", &y)
			return x < y
		})
		var parts []string
		bad := ""
		for k, nm := range names {
			var idx int
			fmt.Sscanf(filepath.Ext(nm), ".%d", &idx)
			if idx != k {
				bad = "file numbering has a gap"
			}
			b, _ := os.ReadFile(nm)
			it := ftdc.ReadMetrics(context.Background(), bytes.NewReader(b))
			var ids []string
			for it.Next() {
				v, ok := it.Document().Lookup(idKey).Int64OK()
				if !ok {
					if v32, ok32 := it.Document().Lookup(idKey).Int32OK(); ok32 {
						v = int64(v32)
					} else {
						bad = "a sample has no id"
					}
				}
				ids = append(ids, fmt.Sprint(v))
			}
			if it.Err() != nil {
				bad = "file " + filepath.Base(nm) + " is not valid FTDC: " + it.Err().Error()
			}
			it.Close()
			parts = append(parts, strings.Join(ids, " "))
		}
		os.RemoveAll(dir)
		line := fmt.Sprintf("runtime-trace %d | %s", opts.SampleCount, strings.Join(parts, " | "))
		if err != nil {
			o.violation(line, "CollectRuntime returned an error", err.Error())
		}
		if g := atomic.LoadInt64(&generated); g >= 0 && err == nil {
			total := 0
			for _, p := range parts {
				total += len(strings.Fields(p))
			}
			if int64(total) != g {
				o.violation(line, "CollectRuntime returned nil but the files do not hold every sample that was generated",
					map[string]int64{"generated": g, "in_files": int64(total)})
			}
		}
		if bad != "" {
			o.violation(line, bad, nil)
		}
		run(o, line)
		o.count("runtime-runs")
	}
}
