import FtdcVerif.Gen.Code
import FtdcVerif.Model.Codec
import FtdcVerif.Lemmas.Codec
/-! `undelta` (util.go) as regenerated from the Go text equals the model's `undelta`, modulo 2^64 (the Go additions wrap;
the translation is over ideal integers and reduction modulo 2^64 commutes with addition). -/
namespace Ftdc.UndeltaTie
open Ftdc Ftdc.Gen Ftdc.Gen.Util

abbrev B (x : Int) : BitVec 64 := BitVec.ofInt 64 x

theorem B_add (a b : Int) : B (a + b) = B a + B b := by simp [B, BitVec.ofInt_add]

/-- the model's `undelta`, element by element -/
theorem undelta_length (v : I64) (ds : List I64) : (Ftdc.undelta v ds).length = ds.length + 1 := by
  induction ds generalizing v with
  | nil => rfl
  | cons d ds ih => simp [Ftdc.undelta, ih]

theorem undelta_zero (v : I64) (ds : List I64) : (Ftdc.undelta v ds).getD 0 0 = v := by
  cases ds <;> simp [Ftdc.undelta]

theorem undelta_succ (v : I64) (ds : List I64) (i : Nat) (h : i < ds.length) :
    (Ftdc.undelta v ds).getD (i + 1) 0 = (Ftdc.undelta v ds).getD i 0 + ds.getD i 0 := by
  induction ds generalizing v i with
  | nil => simp at h
  | cons d ds ih =>
    cases i with
    | zero =>
      simp only [Ftdc.undelta, List.getD_cons_succ, List.getD_cons_zero]
      rw [undelta_zero]
    | succ i =>
      simp only [Ftdc.undelta, List.getD_cons_succ]
      exact ih (v + d) i (by simpa using h)

/-- loop invariant: the first `k + 1` cells hold the running sums, the length never changes -/
def Inv (v : Int) (ds : List Int) (k : Nat) (out : List Int) : Prop :=
  out.length = ds.length + 1 ∧
  ∀ i, i ≤ k → B (out.getD i 0) = (Ftdc.undelta (B v) (ds.map B)).getD i 0

theorem loop_tie (v : Int) (ds : List Int) :
    ∀ (n k : Nat) (out : List Int), k + n = ds.length → Inv v ds k out →
      Inv v ds ds.length (undelta_loop2 ds n (k : Int) out).2 := by
  intro n
  induction n with
  | zero =>
    intro k out h hi
    have : k = ds.length := by omega
    subst this
    simpa [undelta_loop2] using hi
  | succ n ih =>
    intro k out h hi
    have hlt : (k : Int) < Int.ofNat ds.length := by simp; omega
    unfold undelta_loop2
    simp only [hlt, if_true]
    have hk1 : ((k : Int) + 1) = ((k + 1 : Nat) : Int) := by omega
    rw [hk1]
    apply ih (k + 1) _ (by omega)
    obtain ⟨hl, hv⟩ := hi
    have hset : ∀ (x : Int), Go.set out ((k + 1 : Nat) : Int) x = out.set (k + 1) x := by
      intro x; unfold Go.set; simp; omega
    have hidx : ∀ (l : List Int) (j : Nat), Go.index l (j : Int) = l.getD j 0 := by
      intro l j; unfold Go.index; simp; omega
    rw [hset, hidx, hidx]
    refine ⟨by simp [hl], ?_⟩
    intro i hi'
    by_cases he : i = k + 1
    · subst he
      have hin : k + 1 < out.length := by omega
      rw [List.getD_eq_getElem?_getD, List.getElem?_set_self hin]
      simp only [Option.getD_some]
      rw [B_add, hv k (Nat.le_refl k), undelta_succ _ _ k (by simp; omega)]
      congr 1
      rw [List.getD_eq_getElem?_getD, List.getD_eq_getElem?_getD, List.getElem?_map]
      cases ds[k]? <;> simp [B]
    · have : i ≤ k := by omega
      rw [List.getD_eq_getElem?_getD, List.getElem?_set_ne (by omega), ← List.getD_eq_getElem?_getD]
      exact hv i this

/-- **`undelta` as written in Go = the model's `undelta`** on the 64-bit patterns, for every starting value and every
list of deltas -/
theorem undelta_tie (v : Int) (ds : List Int) :
    (Gen.Util.undelta v ds).map B = Ftdc.undelta (B v) (ds.map B) := by
  unfold Gen.Util.undelta
  have h0 : Int.toNat (Int.ofNat ds.length - 0) = ds.length := by simp
  have h1 : Int.toNat (Int.ofNat ds.length + 1) = ds.length + 1 := by
    have : Int.ofNat ds.length + 1 = ((ds.length + 1 : Nat) : Int) := by simp
    rw [this, Int.toNat_natCast]
  have hinit : Inv v ds 0 (Go.set (List.replicate (ds.length + 1) (0 : Int)) 0 v) := by
    refine ⟨by unfold Go.set; simp, ?_⟩
    intro i hi
    have : i = 0 := by omega
    subst this
    rw [undelta_zero]
    unfold Go.set
    simp [List.replicate_succ]
  have hfin := loop_tie v ds ds.length 0 _ (by omega) hinit
  simp only [h0, h1]
  obtain ⟨hl, hv⟩ := hfin
  apply List.ext_getElem
  · simp only [List.length_map]
    rw [undelta_length]; simpa using hl
  · intro i h1' h2'
    have hi : i ≤ ds.length := by
      simp only [List.length_map] at h1'
      have : ((undelta_loop2 ds ds.length ((0 : Nat) : Int) (Go.set (List.replicate (ds.length + 1) 0) 0 v)).2).length = ds.length + 1 := hl
      simp at this
      omega
    have := hv i hi
    rw [List.getD_eq_getElem?_getD, List.getD_eq_getElem?_getD] at this
    rw [List.getElem_map]
    simp only [Int.natCast_zero] at this
    rw [List.getElem?_eq_getElem (by simpa using h1'), List.getElem?_eq_getElem h2'] at this
    simpa using this
end Ftdc.UndeltaTie
