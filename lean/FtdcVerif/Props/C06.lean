import FtdcVerif.Lemmas.Pipeline
import FtdcVerif.Model.Layer
import FtdcVerif.Gen.Facts
/-!
# C06 — Close or cancellation at any point stops every reader goroutine

In the `Pipeline` transition system `cancel` is a scheduler choice that can happen at any point
(after any number of `Next` calls, before the first, after exhaustion).  After it: (1) as long
as a producer goroutine is alive, one of them can move — nobody is blocked forever, whatever the
consumer does or does not do; (2) every producer step strictly decreases a natural-number
potential, so both goroutines have exited after at most `pot s` of their own steps; (3) the
consumer then gets at most the chunks already buffered and `false` after that.
"Bounded time" is bounded steps here; wall-clock time is the harness watchdog (DESIGN §6).
-/
namespace Ftdc.Props.C06
open Ftdc.Pipeline

/-- after cancellation no goroutine of the reader can be blocked forever: while one is alive,
one can move — for every reachable state (any input, any schedule, any cancel point) -/
theorem after_cancel_no_deadlock (items : List Item) (sched : List Pid)
    (hc : (run (init true items) sched).cancelled = true)
    (hlive : (run (init true items) sched).dpc ≠ .done ∨ (run (init true items) sched).cpc ≠ .done) :
    (step (run (init true items) sched) .d).isSome ∨ (step (run (init true items) sched) .c).isSome :=
  cancelled_no_deadlock (Fails items) _ (run_inv (Fails items) sched _ (init_inv items)) hc hlive

/-- every step of a producer goroutine strictly decreases the potential -/
theorem producer_steps_decrease (s s' : St) (p : Pid) (haf : s.addFirst = true)
    (hp : p = .d ∨ p = .c) (hs : step s p = some s') : pot s' < pot s :=
  producers_progress s s' p haf hp hs

/-- the consumer and the cancel signal never increase it (they cannot resurrect a goroutine) -/
theorem other_steps_do_not_increase (s s' : St) (p : Pid) (hp : p = .u ∨ p = .cancel)
    (hs : step s p = some s') : pot s' = pot s := by
  rcases hp with rfl | rfl
  · simp only [step] at hs
    cases hu : s.upc with
    | next =>
      simp only [hu] at hs
      split at hs
      · injection hs with hs; subst hs; rfl
      · split at hs
        · injection hs with hs; subst hs; rfl
        · cases hs
    | done => simp [hu] at hs
  · simp only [step] at hs
    split at hs
    · cases hs
    · injection hs with hs; subst hs; rfl

/-- potential zero means both goroutines have exited -/
theorem pot_zero_iff_exited (s : St) : pot s = 0 ↔ s.dpc = .done ∧ s.cpc = .done := by
  unfold pot dPot cPot
  cases s.dpc <;> cases s.cpc <;> simp <;> omega

/-- after both producers have exited the consumer gets the buffered chunks and then `false`:
`Next` is never blocked -/
theorem next_after_exit_never_blocks (items : List Item) (sched : List Pid)
    (hd : (run (init true items) sched).cpc = .done) (hu : (run (init true items) sched).upc = .next) :
    (step (run (init true items) sched) .u).isSome := by
  have hinv := run_inv (Fails items) sched _ (init_inv items)
  generalize run (init true items) sched = s at *
  -- C done ⇒ pipe closed (it closes before it is done)
  simp only [step, hu]
  split
  · simp
  · split
    · simp
    · rename_i hp hcl
      exfalso
      -- needs: cpc = done → pipeClosed
      exact hcl (hinv.c_done_closed hd)

/-- cancelling twice is harmless: the second cancel is not even a step -/
theorem cancel_idempotent (s : St) (h : s.cancelled = true) : step s .cancel = none := by
  simp [step, h]

/-! non-vacuity: cancel with a full pipe and a producer blocked on its send -/
example : let s := run (init true [.good, .good, .good, .good]) [.d, .d, .c, .c, .d, .d, .c, .c, .d, .d, .c, .c, .cancel]
    s.cancelled = true ∧ s.cpc = .send ∧ (step s .c).isSome = true := by decide

end Ftdc.Props.C06

/-! ## the layers above the chunk iterator

Every document, matrix, series and per-chunk iterator is one more worker between an upstream
iterator and its own buffered pipe (`Model/Layer.lean`).  What the model assumes of the code is
regenerated from the source on every run and checked here: every `select` of the reader pipeline
has a cancel arm, no channel send stands outside a `select`, every `Close` cancels the iterator's
own context. -/
namespace Ftdc.Props.C06.Layers
open Ftdc.Layer

/-- regenerated: every `select` of the reader pipeline has a `<-ctx.Done()` arm -/
theorem every_select_has_cancel_arm : Ftdc.Gen.selectFacts.all (·.2) = true := by decide

/-- regenerated: no producer sends on a channel outside a `select` -/
theorem no_bare_send : Ftdc.Gen.bareSends = [] := by decide

/-- regenerated: every `Close` of the reader pipeline calls the iterator's own cancel function -/
theorem every_close_cancels : Ftdc.Gen.closeFacts.all (·.2) = true := by decide

/-- the facts are about the functions the model is a model of -/
theorem facts_present :
    (Ftdc.Gen.selectFacts.map (·.1)) = ["read..readDiagnostic#0", "read..readChunks#0",
      "iterator_combined.combinedIterator.worker#0", "iterator_matrix.matrixIterator.worker#0",
      "iterator_sample.Chunk.streamFlattenedDocuments#0", "iterator_sample.Chunk.streamDocuments#0"] ∧
    (Ftdc.Gen.closeFacts.map (·.1)) = ["iterator_chunk.ChunkIterator.Close", "iterator_combined.combinedIterator.Close",
      "iterator_matrix.matrixIterator.Close", "iterator_sample.sampleIterator.Close"] := by decide

/-- **after Close/cancel (and once the layer below has closed, which is its own theorem) the worker
of a layer is never blocked** -/
theorem layer_worker_never_blocked (s : St) (hc : s.cancelled = true) (hu : s.upClosed = true)
    (hd : s.wpc ≠ .done) : ∃ a, isWorker a = true ∧ (step s a).isSome = true := by
  cases hw : s.wpc with
  | done => exact absurd hw hd
  | recv =>
    refine ⟨.wRecv, rfl, ?_⟩
    simp only [step, hw, ne_eq, not_true_eq_false, if_false, hu]
    split <;> simp
  | send => exact ⟨.wAbort, rfl, by simp [step, hw, hc]⟩

/-- ... and each of its steps strictly decreases a natural-number potential: it exits after at
most `2·buffered + 2` steps, whatever the consumer and the scheduler do -/
theorem layer_worker_steps_decrease (s s' : St) (a : Act) (hc : s.cancelled = true) (hu : s.upClosed = true)
    (hw : isWorker a = true) (h : step s a = some s') :
    pot s' < pot s ∧ s'.cancelled = true ∧ s'.upClosed = true := by
  cases a <;> simp [isWorker] at hw
  · -- wRecv
    simp only [step] at h
    split at h
    · simp at h
    · rename_i hr
      have hr' : s.wpc = .recv := by simpa using hr
      split at h
      · simp only [Option.some.injEq] at h; subst h
        simp [pot, hr', hc, hu]; omega
      · simp only [hu, if_true, Option.some.injEq] at h; subst h
        simp [pot, hr', hc, hu]
  · -- wSend
    simp only [step] at h
    split at h
    · rename_i hs
      simp only [Option.some.injEq] at h; subst h
      simp [pot, hs.1, hc, hu]
    · simp at h
  · -- wAbort
    simp only [step] at h
    split at h
    · rename_i hs
      simp only [Option.some.injEq] at h; subst h
      simp [pot, hs.1, hc, hu]
    · simp at h

/-- the other actions never increase the potential and keep the flags -/
theorem layer_other_steps_keep (s s' : St) (a : Act) (hc : s.cancelled = true) (hu : s.upClosed = true)
    (hw : isWorker a = false) (h : step s a = some s') :
    pot s' ≤ pot s ∧ s'.cancelled = true ∧ s'.upClosed = true := by
  cases a <;> simp [isWorker] at hw
  · simp [step, hu] at h
  · simp only [step, Option.some.injEq] at h; subst h; simp [pot, hc]
  · simp only [step] at h
    split at h
    · simp only [Option.some.injEq] at h; subst h; simp [pot, hc, hu]
    · simp at h
  · simp only [step, Option.some.injEq] at h; subst h; simp [pot, hu]

/-- invariant of every run from a fresh layer: the worker has exited only after closing its pipe,
and the pipe never holds more than its capacity -/
def LInv (s : St) : Prop := (s.wpc = .done → s.pipeClosed = true) ∧ s.pipeLen ≤ s.pipeCap

theorem linv_step (s s' : St) (a : Act) (hi : LInv s) (h : step s a = some s') : LInv s' ∧ s'.pipeCap = s.pipeCap := by
  obtain ⟨h1, h2⟩ := hi
  cases a <;> simp only [step] at h
  · split at h <;> simp at h; subst h; exact ⟨⟨h1, h2⟩, rfl⟩
  · simp only [Option.some.injEq] at h; subst h; exact ⟨⟨h1, h2⟩, rfl⟩
  · split at h
    · simp at h
    · split at h
      · simp only [Option.some.injEq] at h; subst h; exact ⟨⟨by simp, h2⟩, rfl⟩
      · split at h
        · simp only [Option.some.injEq] at h; subst h; exact ⟨⟨by simp, h2⟩, rfl⟩
        · simp at h
  · split at h
    · rename_i hs
      simp only [Option.some.injEq] at h; subst h
      exact ⟨⟨by simp, by simp; omega⟩, rfl⟩
    · simp at h
  · split at h
    · simp only [Option.some.injEq] at h; subst h; exact ⟨⟨by simp, h2⟩, rfl⟩
    · simp at h
  · split at h
    · simp only [Option.some.injEq] at h; subst h; exact ⟨⟨h1, by simp; omega⟩, rfl⟩
    · simp at h
  · simp only [Option.some.injEq] at h; subst h; exact ⟨⟨h1, h2⟩, rfl⟩

theorem linv_run (sched : List Act) : ∀ (s : St), LInv s → LInv (run s sched) := by
  induction sched with
  | nil => intro s h; exact h
  | cons a sched ih =>
    intro s h
    simp only [run, List.foldl_cons]
    cases hs : step s a with
    | none => simpa [run] using ih s h
    | some s' => simpa [run] using ih s' (linv_step s s' a h hs).1

/-- **`Next` after the worker has exited never blocks**: the pipe is closed, so the consumer gets
the at most `cap` buffered items and then `false` -/
theorem layer_next_after_exit (cap : Nat) (sched : List Act) :
    let s := run { pipeCap := cap } sched
    s.wpc = .done → s.pipeClosed = true ∧ s.pipeLen ≤ cap := by
  intro s hd
  have hinv := linv_run sched { pipeCap := cap } ⟨by simp, by simp⟩
  have hcap : ∀ (sched : List Act) (s0 : St), (run s0 sched).pipeCap = s0.pipeCap := by
    intro sched
    induction sched with
    | nil => intro s0; rfl
    | cons a sched ih =>
      intro s0
      simp only [run, List.foldl_cons]
      cases hs : step s0 a with
      | none => simpa [run] using ih s0
      | some s' =>
        have := ih s'
        simp only [run] at this
        simp only [Option.getD_some, this]
        cases a <;> simp only [step] at hs <;> (try split at hs) <;> (try split at hs) <;> (try split at hs) <;>
          simp at hs <;> (try subst hs) <;> rfl
  refine ⟨hinv.1 hd, ?_⟩
  have := hinv.2
  rw [hcap sched { pipeCap := cap }] at this
  exact this

/-! non-vacuity: a full pipe, the worker blocked on its send, then Close -/
example : let s := run { pipeCap := 2 } [.upProduce, .upProduce, .upProduce, .wRecv, .wSend, .wRecv, .wSend, .wRecv, .cancel, .upClose]
    s.wpc = .send ∧ s.pipeLen = 2 ∧ (step s .wSend).isSome = false ∧ (step s .wAbort).isSome = true := by decide

end Ftdc.Props.C06.Layers
