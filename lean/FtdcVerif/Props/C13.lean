import FtdcVerif.Lemmas.HdrRank
/-!
# C13 — quantiles, merges, windows and snapshots agree with an exact oracle

Proved here for every configuration and every list of recorded values: snapshots reproduce the
histogram (`Import(Export(h)) = h`), counts never go negative, the total is the sum of the
counts (so merging by re-recording representatives conserves counts: recorded + dropped).
The quantile clauses are proved for every configuration, every list of recorded values and every
rank: the value at rank `r` is the histogram's representative of the exact order statistic of
rank `r` (`quantile_is_order_statistic`, with the sorted list spelled out in
`quantile_is_rth_smallest`), it is monotone in the rank (`quantile_monotone`) and within the
precision bound of the order statistic (`quantile_within_precision`).  The proof goes through
`Lemmas/HdrRank.lean`: the counts array is the multiplicity function of the accepted values under
the index map, the index map is monotone, the iterator walks the indices in increasing order.
Still decided only by the exact oracle of the `hdr-stat` stream and by model/implementation
agreement (partial, see DESIGN.md §6): Min/Max/Mean, merge across different configurations,
windows.
-/
namespace Ftdc.Props.C13
open Ftdc.Hdr

/-- **Export/Import reproduce an equal histogram**, whatever was recorded -/
theorem import_export_identity (minV : Int) (maxV s : Nat) (vs : List Int) :
    import_ (export_ (recordAll (new minV maxV s) vs)) = recordAll (new minV maxV s) vs :=
  import_export minV maxV s vs

/-- counts are never negative, so `Import`'s "sum of the positive counts" is the total -/
theorem counts_nonneg (minV : Int) (maxV s : Nat) (vs : List Int) :
    NonNeg (recordAll (new minV maxV s) vs) :=
  recordAll_nonneg vs _ (by intro c hc; simp [new] at hc; omega)

/-- recording `n` occurrences at once adds exactly `n` to the total and to one count -/
theorem record_many (h h' : Hist) (v n : Int) (inv : Inv h) (he : recordValues h v n = some h') :
    h'.total = h.total + n ∧ h'.counts.sum = h.counts.sum + n ∧ SameCfg h h' := by
  obtain ⟨i, t, c⟩ := recordValues_spec he inv
  exact ⟨t, by rw [i.2, t, inv.2], c⟩

/-- one merge step conserves counts: a representative is either recorded (its count is added)
or dropped (its count goes to `dropped`) -/
theorem merge_step_conserves (acc : Hist × Int) (p : IterPos) (inv : Inv acc.1) :
    let r := match recordValues acc.1 p.valueFrom p.countAt with
      | some h' => (h', acc.2)
      | none => (acc.1, acc.2 + p.countAt)
    r.1.total + r.2 = acc.1.total + acc.2 + p.countAt ∧ Inv r.1 := by
  cases he : recordValues acc.1 p.valueFrom p.countAt with
  | none => simp only []; exact ⟨by omega, inv⟩
  | some h' =>
    obtain ⟨i, t, _⟩ := recordValues_spec he inv
    simp only []
    exact ⟨by rw [t]; omega, i⟩

/-! ### quantiles are order statistics

`ValueAtQuantile(q)` computes the rank `r = round(q·n/100)` in floating point (trusted) and returns
the value at that rank; `valueAtRank` is the model of the rest. -/

/-- what `New` builds is well-formed -/
theorem new_wf' {minV : Int} {maxV s : Nat} (hv : Valid minV maxV s) : WF (new minV maxV s) := by
  have := mkCfg_wf hv
  exact ⟨this.1, this.2, this.3, this.4, this.5, this.6, this.7, this.8⟩

/-- **The value at rank `r` is the histogram's representative of the exact order statistic of
rank `r`**, for every configuration, every list of recorded `int64` values (rejected values are
ignored, as `RecordValue` does) and every rank.  `IsOrderStat A r x` says: `x` is a recorded
value, fewer than `r` recorded values are smaller and at least `r` are not larger. -/
theorem quantile_is_order_statistic {minV : Int} {maxV s : Nat} (hv : Valid minV maxV s)
    (vs : List Int) (h63 : ∀ v ∈ vs, v < 2 ^ 63) (r x : Nat)
    (hos : IsOrderStat (accepted (new minV maxV s) vs) r x) :
    valueAtRank (recordAll (new minV maxV s) vs) r = highestEquiv (new minV maxV s) x :=
  valueAtRank_orderStat (new_wf' hv) rfl rfl vs h63 r x hos

/-- in a sorted list, position `k` has at most `k` strictly smaller and at least `k+1` not larger elements -/
theorem sorted_counts : ∀ (S : List Nat), S.Pairwise (· ≤ ·) → ∀ (k : Nat) (hk : k < S.length),
    S.countP (fun a => decide (a < S[k])) ≤ k ∧ k + 1 ≤ S.countP (fun a => decide (a ≤ S[k]))
  | [], _, k, hk => by simp at hk
  | a :: t, hp, 0, _ => by
    rw [List.pairwise_cons] at hp
    simp only [List.getElem_cons_zero, List.countP_cons, Nat.lt_irrefl, decide_false, Nat.le_refl, decide_true]
    constructor
    · have : t.countP (fun b => decide (b < a)) = 0 := by
        rw [List.countP_eq_zero]; intro b hb; have := hp.1 b hb; simp; omega
      simp [this]
    · simp
  | a :: t, hp, k + 1, hk => by
    rw [List.pairwise_cons] at hp
    have hk' : k < t.length := by simpa using hk
    obtain ⟨i1, i2⟩ := sorted_counts t hp.2 k hk'
    have hle : a ≤ t[k] := hp.1 _ (List.getElem_mem hk')
    simp only [List.getElem_cons_succ, List.countP_cons]
    constructor
    · split <;> omega
    · simp [hle]; omega

theorem sorted_mergeSort (A : List Nat) : (A.mergeSort (fun a b => decide (a ≤ b))).Pairwise (· ≤ ·) := by
  have := List.pairwise_mergeSort (le := fun (a b : Nat) => decide (a ≤ b))
    (by intro a b c; simp; omega) (by intro a b; simp; omega) A
  exact this.imp (by intro a b; simp)

/-- the `r`-th element of the sorted list is an order statistic of rank `r` -/
theorem orderStat_sorted (A : List Nat) (r : Nat) (h1 : 1 ≤ r)
    (hr : r ≤ (A.mergeSort (fun a b => decide (a ≤ b))).length) :
    IsOrderStat A r ((A.mergeSort (fun a b => decide (a ≤ b)))[r - 1]'(by omega)) := by
  have hperm := List.mergeSort_perm A (fun a b => decide (a ≤ b))
  obtain ⟨c1, c2⟩ := sorted_counts _ (sorted_mergeSort A) (r - 1) (by omega)
  refine ⟨hperm.mem_iff.1 (List.getElem_mem _), ?_, ?_⟩
  · rw [← hperm.countP_eq]; omega
  · rw [← hperm.countP_eq]; omega

/-- the same statement with the sorted list spelled out: the value at rank `r` is the
representative of the `r`-th smallest accepted value -/
theorem quantile_is_rth_smallest {minV : Int} {maxV s : Nat} (hv : Valid minV maxV s)
    (vs : List Int) (h63 : ∀ v ∈ vs, v < 2 ^ 63) (r : Nat) (h1 : 1 ≤ r)
    (hr : r ≤ ((accepted (new minV maxV s) vs).mergeSort (fun a b => decide (a ≤ b))).length) :
    valueAtRank (recordAll (new minV maxV s) vs) r =
      highestEquiv (new minV maxV s)
        (((accepted (new minV maxV s) vs).mergeSort (fun a b => decide (a ≤ b)))[r - 1]'(by omega)) :=
  quantile_is_order_statistic hv vs h63 r _ (orderStat_sorted _ r h1 hr)

/-- **quantiles are monotone in the rank** (hence in `q`) -/
theorem quantile_monotone {minV : Int} {maxV s : Nat} (hv : Valid minV maxV s)
    (vs : List Int) (h63 : ∀ v ∈ vs, v < 2 ^ 63) (r r' : Nat) (h1 : 1 ≤ r) (hrr : r ≤ r')
    (hr : r' ≤ (accepted (new minV maxV s) vs).length) :
    valueAtRank (recordAll (new minV maxV s) vs) r ≤ valueAtRank (recordAll (new minV maxV s) vs) r' := by
  have hperm := List.mergeSort_perm (accepted (new minV maxV s) vs) (fun a b => decide (a ≤ b))
  have hlen := hperm.length_eq
  rw [quantile_is_rth_smallest hv vs h63 r h1 (by omega),
    quantile_is_rth_smallest hv vs h63 r' (by omega) (by omega)]
  have hmem := hperm.mem_iff.1 (List.getElem_mem (l := (accepted (new minV maxV s) vs).mergeSort (fun a b => decide (a ≤ b)))
    (show r' - 1 < _ by omega))
  apply highestEquiv_mono (new_wf' hv) _ (mem_accepted (new_wf' hv) h63 hmem)
  rcases Nat.lt_or_ge (r - 1) (r' - 1) with hlt | hge
  · exact (List.pairwise_iff_getElem.1 (sorted_mergeSort _)) (r - 1) (r' - 1) (by omega) (by omega) hlt
  · have : r - 1 = r' - 1 := by omega
    simp [this]

/-- the representative is within the precision bound of the order statistic itself -/
theorem quantile_within_precision {minV : Int} {maxV s : Nat} (hv : Valid minV maxV s)
    (vs : List Int) (h63 : ∀ v ∈ vs, v < 2 ^ 63) (r x : Nat)
    (hos : IsOrderStat (accepted (new minV maxV s) vs) r x) :
    let q := valueAtRank (recordAll (new minV maxV s) vs) r
    x ≤ q ∧ (q < x + 2 ^ (new minV maxV s).unitMag ∨ (q + 1 - x) * 10 ^ s ≤ x) := by
  have wf := new_wf' hv
  have hxc := mem_accepted wf h63 hos.1
  simp only [quantile_is_order_statistic hv vs h63 r x hos]
  have hr := value_in_range' wf hxc
  have hw := width_bound' wf hxc
  have hpos := size_pos' wf hxc
  refine ⟨hr.2, ?_⟩
  have hhi : highestEquiv (new minV maxV s) x = lowestEquiv (new minV maxV s) x + sizeOfRange (new minV maxV s) x - 1 := rfl
  have hlo : lowestEquiv (new minV maxV s) x ≤ x := hr.1
  rcases hw with hw | hw
  · left; omega
  · right
    have hs : (new minV maxV s).sigfigs = s := rfl
    rw [hs] at hw
    refine Nat.le_trans (Nat.mul_le_mul_right _ ?_) hw
    omega

/-! non-vacuity -/
example : import_ (export_ (recordAll (new 1 100 2) [5, 5, 99, 1000, -3])) =
    recordAll (new 1 100 2) [5, 5, 99, 1000, -3] := import_export_identity _ _ _ _

end Ftdc.Props.C13
