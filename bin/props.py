# per-property configuration of bin/check: correspondence streams, evidence rule text
PROPS = {
    "C12": {
        "streams": ["hdr-grid", "hdr-stat"],
        "rule": "hdr-grid: every v in -1..max+2 for a grid of small configurations (public API only), plus random "
                "configurations up to 2^40 with values at bucket/sub-bucket boundaries +-1 (verif-tagged probe); "
                "hdr-stat: random multisets, merges, windows, import/export. A case is non-trivial/distinct when it "
                "lands in a distinct (configuration, counts index) pair resp. yields a distinct counts array.",
        "level_text": "Theorems (Props/C12.lean) for every valid configuration and every value: recording v <= highest succeeds in every "
                      "reachable state, v lies in its reported range, the range width is the unit or at most v*10^-sigfigs, total = number "
                      "accepted = sum of counts, rejection is a no-op. Proved over Nat from the literal bitLen cascade and sizing loop of the "
                      "model; the model is tied to hdr.go by exhaustive small grids and boundary-biased large configurations on every run.",
        "level_note": "Proof is about the Lean model; trusted: Lean kernel, propext/Classical.choice/Quot.sound, the correspondence harness. "
                      "Preconditions: sigfigs 1..5, lowest < 2^40, highest < 2^62 (no int64 overflow; float steps of New exact). "
                      "The clause 'total = sum of Distribution() bar counts' is proved as total = sum of the counts array; the iterator walk "
                      "producing the bars is compared by the correspondence run (hdr-stat barsum) and treated in C13.",
        "assumptions": [
            "int64 arithmetic of hdr.go does not overflow for highest < 2^62, lowest < 2^40 (theorems carry this precondition)",
            "math.Log2/Ceil/Floor/Pow steps of New equal the integer functions of the model (checked on every generated configuration)",
        ],
    },
    "C01": {
        "streams": ["core"],
        "rule": "core: fixed regression corpus; every delta matrix with entries in {0,+1,-1} and m*n <= 6 (thorough: 8) over rotating "
                "constructors; random schema trees (depth <= 4, fan-out <= 4, all 20 BSON element types, arrays in documents in arrays) with "
                "per-leaf boundary values and delta patterns, every compressing constructor, N in {1,2,3,7,len,len+1}. Distinct = distinct case line.",
        "level_text": "Theorems (Props/C01.lean) for all inputs: varint round trip for every uint64, zero-run stream round trip for every delta list "
                      "(runs crossing metric boundaries), wrapping delta round trip, bit-exact leaf normalisation (bool, int32, double, timestamp words, "
                      "datetime in the nanosecond range), and restoration of any document tree from its extracted values = the document with non-metric "
                      "leaves removed. The model (collectors -> payload -> decoder -> structured documents) is run against the implementation on every case.",
        "level_note": "Partial: the composition of the layers through the BSON byte serialiser/parser (parse(ser d) = d) is exercised by the correspondence run, "
                      "not yet proved. The timestamp clause is false of the code (known finding F1, pinned by an existing unit test): its negation is proved "
                      "(timestamp_clause_false) and the oracle classifies exactly that deviation as the known finding. Trusted: zlib (external), Lean kernel, harness.",
        "assumptions": ["inflate(deflate x) = x (compress/zlib is external)", "birch parses every document the strict validator accepts as the model's parser does"],
    },
    "C02": {
        "streams": ["views"],
        "rule": "views: schemas biased to nesting >= 2, sibling sub-documents at depth 4, arrays in documents in arrays, second schema in the same stream; "
                "all six reader entry points on the same bytes. Oracle: keys = independent full-path walk over the reference documents, pairwise agreement of "
                "table, flattened, structured, per-chunk, matrix and series views incl. BSON types. Distinct = distinct byte stream.",
        "level_text": "Theorem keys_are_full_paths: for every document tree the decoder's metric keys are the dot-joined paths of every enclosing field name and "
                      "array index (specification leafPaths written from the property text), in document order; one series per leaf; every view has the table's "
                      "keys, order and sample count (the views are functions of the one table in the model, and that model is diffed against all six entry points).",
        "level_note": "Key uniqueness (injectivity of the dot-join on dot-free segments) is checked by the oracle on every case, not yet a theorem. "
                      "ReadSeries order was nondeterministic before fix F3; metric paths lost segments before fix F2.",
        "assumptions": ["keys without '.'"],
    },
    "C03": {
        "streams": ["core", "wire-dec"],
        "rule": "core (encode direction): the library's bytes are parsed with an independent strict BSON walker and compress/zlib; header fields, field order, "
                "length prefix, no trailing bytes are checked and the inflated payload is compared byte for byte with the payload the Lean model emits. "
                "wire-dec (decode direction): streams from an independent reference encoder (split zero runs, runs crossing metric boundaries, type as "
                "int32/int64/double, unknown types, interleaved metadata, zlib levels incl. stored, extra top-level fields) decoded by library and model.",
        "level_text": "Theorems (Props/C03.lean): decoder_complete_deltas — every spec-conformant token stream (any splitting/placement of zero runs) decodes to "
                      "the deltas it denotes; encoder_stream_roundtrip; payload layout; type field of any BSON number type; unknown types skipped; metadata "
                      "documents only replace the current metadata. Byte-exact canonical payload is decided by the correspondence (model payload = library payload).",
        "level_note": "Partial: maximality of the encoder's zero runs and 'reference verbatim' are established by byte equality with the model on every case, "
                      "not by a separate theorem. Timestamp decoding: known finding F1.",
        "assumptions": ["inflate(deflate x) = x"],
    },
    "C04": {
        "streams": ["fuzz"],
        "rule": "fuzz (child process, watchdog 20 s): every prefix of valid streams, byte substitution/insertion/deletion at every offset (quick: <= 400 offsets per "
                "stream) of the outer documents and of the re-compressed payload, perturbed size/count fields, corrupt zlib header/body/checksum/truncation, "
                "missing/short/retyped data field, seeded multi-byte mutation; all five entry points. Distinct = distinct byte string.",
        "level_text": "Theorems (Props/C04.lean) for all byte strings and all inflate functions: refinement of the reader to a sequential fold over framed documents; "
                      "a stream cut inside a document or with a bad size word reports an error; chunks wholly before the damage are delivered (prefix theorem); "
                      "errors are sticky; every damaged-chunk class yields an error. Totality: the model is a total Lean function (termination checked).",
        "level_note": "The model has no panic outcome because the repaired readers validate input and recover; 'no crash/no hang' of the real process is observed by "
                      "the isolated fuzz run. Sample counts above 65536 per metric in a mutant are not explored (minutes-long loops; allocation is not modelled).",
        "assumptions": ["birch parses every document the strict validator accepts", "inflate is a function of the compressed bytes"],
    },
    "C11": {
        "streams": ["meta", "hist"],
        "rule": "meta: streams with zero, one or several metadata documents (type as int32/int64/double incl. -0.0) interleaved with chunks from the reference "
                "encoder and from every real collector with SetMetadata; Metadata() read after every Next of the chunk, document, matrix and series iterators. "
                "Distinct = distinct byte stream.",
        "level_text": "Theorems (Props/C11.lean): chunk_metadata_is_latest — for every stream of framed documents the chunk decoded from a document carries the most "
                      "recent preceding metadata document (none => nil); write side: metadata emitted as its own type-0 document ahead of the chunk, never in the "
                      "payload, replaced by a later SetMetadata, kept across Add/Reset.",
        "level_note": "Iterator clause: items carry their chunk's metadata through the worker pipe (fix F11); the schedule-independence of that pairing is part of "
                      "the pipeline model (C05/C06). Collector histories with SetMetadata at every position are explored by the hist stream of C07.",
        "assumptions": [],
    },
}
