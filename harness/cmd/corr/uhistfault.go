package main

import (
	"bytes"
	"errors"
	"fmt"
	"math/rand"
	"strings"

	"github.com/evergreen-ci/birch"
	"github.com/mongodb/ftdc"
)

func init() { commands["uhist-fault"] = cmdUHistFault }

// failOnceWriter refuses its failAt-th Write (nothing is written, an error is returned) and works otherwise
type failOnceWriter struct {
	buf    bytes.Buffer
	calls  int
	failAt int
	failed bool
}

func (w *failOnceWriter) Write(p []byte) (int, error) {
	k := w.calls
	w.calls++
	if k == w.failAt {
		w.failed = true
		return 0, errors.New("scripted write failure (disk full)")
	}
	return w.buf.Write(p)
}

// uhist-fault <ctor> <flavour> <N> <failAt> | <pool> | <ops: a<k> f>
// An uncompressed collector whose writer refuses one Write.  Whatever the history: once the writer works again and the
// collector has been flushed, the output holds every accepted sample (Add returned nil) exactly once, in order (C17:
// "lose or duplicate no sample").  The model's answer is the constant `conserved`: no sample is created or destroyed by a
// write that did not happen.
func cmdUHistFault(o *Out, line string, f []string) {
	sec := sections(f)
	ctor, flavour, n, failAt := sec[0][0], sec[0][1], int(atoi64(sec[0][2])), int(atoi64(sec[0][3]))
	var pool [][]byte
	for _, h := range sec[1] {
		pool = append(pool, unhx(h))
	}
	w := &failOnceWriter{failAt: failAt}
	var c ftdc.Collector
	j := flavour == "json"
	switch ctor {
	case "plain":
		if j {
			c = ftdc.NewUncompressedCollectorJSON(n)
		} else {
			c = ftdc.NewUncompressedCollectorBSON(n)
		}
	case "streaming":
		if j {
			c = ftdc.NewStreamingUncompressedCollectorJSON(n, w)
		} else {
			c = ftdc.NewStreamingUncompressedCollectorBSON(n, w)
		}
	case "streamingDynamic":
		if j {
			c = ftdc.NewStreamingDynamicUncompressedCollectorJSON(n, w)
		} else {
			c = ftdc.NewStreamingDynamicUncompressedCollectorBSON(n, w)
		}
	default:
		panic(ctor)
	}
	var accepted []string
	for _, op := range sec[2] {
		switch op[0] {
		case 'a':
			raw := pool[int(atoi64(op[1:]))]
			d, _ := birch.ReadDocument(raw)
			if c.Add(d) == nil {
				accepted = append(accepted, hx(raw))
			}
		case 'f':
			_ = ftdc.FlushCollector(c, w)
		}
	}
	var ferr error
	for k := 0; k < 3; k++ {
		if ferr = ftdc.FlushCollector(c, w); ferr == nil {
			break
		}
	}
	var got, want []string
	ok := true
	if j {
		got, _, ok = jsonLines(w.buf.Bytes())
		for _, a := range accepted {
			want = append(want, topKeys(a))
		}
	} else {
		got, ok = splitBSON(w.buf.Bytes())
		want = accepted
	}
	res := "conserved"
	if ferr != nil || !ok || strings.Join(got, " ") != strings.Join(want, " ") {
		res = "differs"
		o.violation(line, "after a refused write and a successful flush the output is not every accepted sample exactly once, in order",
			map[string]interface{}{"accepted": len(want), "in_output": len(got), "write_failed": w.failed, "final_flush_error": fmt.Sprint(ferr), "parses": ok})
	}
	o.emit(line, res)
	o.nontrivial(line)
	o.count(fmt.Sprintf("uhist-fault-%s-%s-failed=%v", ctor, flavour, w.failed))
}

func uhistFaultCases(o *Out, rng *rand.Rand, thorough bool, pool []string) {
	n := 120
	if thorough {
		n = 3000
	}
	for i := 0; i < n; i++ {
		L := 4 + rng.Intn(24)
		var ops []string
		cur := rng.Intn(2)
		for k := 0; k < L; k++ {
			switch r := rng.Intn(10); {
			case r < 8:
				if rng.Intn(6) == 0 {
					cur = rng.Intn(5) // another schema: the schema-aware variant flushes, the others refuse
				}
				ops = append(ops, fmt.Sprintf("a%d", cur))
			default:
				ops = append(ops, "f")
			}
		}
		ctor := []string{"plain", "streaming", "streamingDynamic"}[rng.Intn(3)]
		run(o, fmt.Sprintf("uhist-fault %s %s %d %d | %s | %s", ctor, []string{"bson", "json"}[rng.Intn(2)], 1+rng.Intn(4), rng.Intn(5),
			strings.Join(pool, " "), strings.Join(ops, " ")))
	}
}
