package main

import (
	"bytes"
	"context"
	"encoding/binary"
	"fmt"
	"math/rand"
	"runtime"
	"strings"
	"sync"
	"sync/atomic"
	"time"

	"github.com/evergreen-ci/birch"
	"github.com/mongodb/ftdc"
	"github.com/mongodb/ftdc/events"
	"github.com/mongodb/ftdc/verifhook"
)

func init() {
	commands["sched-rec"] = cmdSchedRec
	commands["sched-rec-overlap"] = cmdSchedRecOverlap
	commands["rec-tick"] = cmdRecTick
	commands["conc-events"] = cmdConcEvents
	streams["sched-rec"] = streamSchedRec
	streams["rec-tick"] = streamRecTick
}

// opsCollector records counters.ops (or the document count) of every document it is given.
type opsCollector struct {
	mu   sync.Mutex
	ops  []int64
	fail bool

	slow       time.Duration // every Add takes this long (opens the window between a flush and its completion)
	inflight   int32
	concurrent int32 // number of Add calls that overlapped another one
	closed     bool  // set by the harness while no test cycle is open (after EndTest has returned)
	late       int   // Add calls that completed while closed
}

func (c *opsCollector) Add(in interface{}) error {
	if atomic.AddInt32(&c.inflight, 1) > 1 {
		atomic.AddInt32(&c.concurrent, 1)
	}
	defer atomic.AddInt32(&c.inflight, -1)
	if c.slow > 0 {
		time.Sleep(c.slow)
	}
	var b []byte
	switch v := in.(type) {
	case *events.PerformanceHDR:
		// the histogram recorders hand over their live point (under their own lock): the number of recorded operations is
		// read directly, marshalling every histogram on every tick is far too slow
		c.mu.Lock()
		c.ops = append(c.ops, v.Counters.Operations.TotalCount())
		if c.closed {
			c.late++
		}
		c.mu.Unlock()
		return nil
	case birch.DocumentMarshaler:
		d, err := v.MarshalDocument()
		if err != nil {
			return err
		}
		b, _ = d.MarshalBSON()
	case *birch.Document:
		b, _ = v.MarshalBSON()
	default:
		return fmt.Errorf("unexpected %T", in)
	}
	kids, err := parseDocStrict(b)
	if err != nil {
		return err
	}
	val := int64(-1)
	for _, k := range kids {
		if k.Key == "counters" && k.Tag == 0x03 {
			for _, c := range k.Kids {
				if c.Key == "ops" && c.Tag == 0x12 {
					val = int64(binary.LittleEndian.Uint64(c.Raw))
				}
			}
		}
	}
	c.mu.Lock()
	c.ops = append(c.ops, val)
	if c.closed {
		c.late++
	}
	c.mu.Unlock()
	return nil
}
func (c *opsCollector) SetMetadata(interface{}) error { return nil }
func (c *opsCollector) Resolve() ([]byte, error)      { return nil, nil }
func (c *opsCollector) Reset()                        {}
func (c *opsCollector) Info() ftdc.CollectorInfo      { return ftdc.CollectorInfo{} }

// sched-rec <kind> <G> <M> <cycles> <tick us> <stall ms> <perturb seed>
// kind: interval (NewIntervalRecorder) | sync (NewSynchronizedRecorder over a raw recorder)
// Every cycle: BeginIteration; G goroutines issue M IncOperations(1) each (plus gauge sets); EndIteration; EndTest.
// With stall > 0 the flusher is delayed between receiving its tick and acquiring the mutex, across the EndTest.
func cmdSchedRec(o *Out, line string, f []string) {
	kind := f[0]
	G, M, cycles, tickUs, stallMs, seed := int(atoi64(f[1])), int(atoi64(f[2])), int(atoi64(f[3])), int(atoi64(f[4])), int(atoi64(f[5])), atoi64(f[6])
	rules := map[string]verifhook.Rule{}
	if stallMs > 0 {
		rules["interval.tick"] = verifhook.Rule{Occurrence: 0, Sleep: time.Duration(stallMs) * time.Millisecond}
	}
	verifhook.Set(rules)
	if seed != 0 {
		verifhook.Perturb(seed, 30)
	}
	coll := &opsCollector{}
	if len(f) > 7 {
		coll.slow = time.Duration(atoi64(f[7])) * time.Microsecond
	}
	ctx, cancel := context.WithCancel(context.Background())
	var rec events.Recorder
	switch kind {
	case "interval":
		rec = events.NewIntervalRecorder(ctx, coll, time.Duration(tickUs)*time.Microsecond)
	case "histInterval":
		rec = events.NewIntervalHistogramRecorder(ctx, coll, time.Duration(tickUs)*time.Microsecond)
	case "sync":
		rec = events.NewSynchronizedRecorder(events.NewRawRecorder(coll))
	default:
		panic(kind)
	}
	// concurrent begin: every worker opens the iteration itself, all at the same moment, instead of the main goroutine
	concBegin := len(f) > 8 && f[8] == "cb"
	// trailing increments: after a tick has passed the workers increment again and EndTest follows directly (no
	// EndIteration in between): EndTest persists what the cycle accumulated, twice G*M
	trail := len(f) > 9 && f[9] == "trail"
	if len(f) > 10 && f[10] == "pre" {
		// increments outside any iteration, then Reset: discarded, the cycles that follow start from zero
		rec.IncOperations(1000)
		rec.IncError(7)
		rec.Reset()
	}
	var finals []string
	var endErrs int
	for c := 0; c < cycles; c++ {
		coll.mu.Lock()
		before := len(coll.ops)
		coll.closed = false
		coll.mu.Unlock()
		if !concBegin {
			rec.BeginIteration()
		}
		var wg sync.WaitGroup
		gate := make(chan struct{})
		for g := 0; g < G; g++ {
			wg.Add(1)
			go func(g int) {
				defer wg.Done()
				if concBegin {
					<-gate
					rec.BeginIteration()
				}
				for m := 0; m < M; m++ {
					rec.IncOperations(1)
					if m%7 == 0 {
						rec.SetWorkers(int64(g))
					}
				}
			}(g)
		}
		close(gate)
		wg.Wait()
		if trail {
			time.Sleep(time.Duration(tickUs)*time.Microsecond + 1500*time.Microsecond) // at least one tick
			var wg2 sync.WaitGroup
			for g := 0; g < G; g++ {
				wg2.Add(1)
				go func() {
					defer wg2.Done()
					for m := 0; m < M; m++ {
						rec.IncOperations(1)
					}
				}()
			}
			wg2.Wait()
		}
		if stallMs > 0 {
			// let a tick arrive so that the flusher is between its tick and the mutex when EndTest runs
			time.Sleep(time.Duration(tickUs)*time.Microsecond + 2*time.Millisecond)
		}
		if coll.slow > 0 {
			// let a tick arrive and the flusher get into the (slow) collector before EndTest runs
			time.Sleep(time.Duration(tickUs)*time.Microsecond + coll.slow/2)
		}
		if !trail {
			rec.EndIteration(time.Millisecond)
		}
		if kind == "sync" {
			// the raw recorder persists at EndIteration; EndTest persists again if a time stamp is set
		}
		if err := rec.EndTest(); err != nil {
			endErrs++
		}
		coll.mu.Lock()
		coll.closed = true
		cyc := append([]int64{}, coll.ops[before:]...)
		coll.mu.Unlock()
		if coll.slow > 0 {
			time.Sleep(2*coll.slow + time.Millisecond) // a flush that is still in flight completes now
			coll.mu.Lock()
			cyc = append([]int64{}, coll.ops[before:]...)
			coll.mu.Unlock()
		}
		last := int64(-1)
		mono := true
		for i, v := range cyc {
			if i > 0 && v < cyc[i-1] {
				mono = false
			}
			last = v
		}
		finals = append(finals, fmt.Sprint(last))
		if !mono {
			o.violation(line, "persisted counters went backwards within a test cycle", cyc)
		}
		issued := G * M
		if trail {
			issued = 2 * G * M
		}
		if last != int64(issued) {
			o.violation(line, "finally persisted counter differs from the sum of all increments issued",
				map[string]interface{}{"cycle": c, "persisted": last, "issued": issued, "samples": len(cyc)})
		}
	}
	coll.mu.Lock()
	late := coll.late
	coll.mu.Unlock()
	if late > 0 {
		o.violation(line, "a sample was handed to the collector after EndTest had returned (the flusher did not stop with the test)", map[string]int{"late_adds": late})
	}
	if n := atomic.LoadInt32(&coll.concurrent); n > 0 {
		o.violation(line, "the recorder called its collector from two goroutines at once", map[string]int32{"overlapping_adds": n})
	}
	// more calls after the last EndTest must not block either
	rec.IncOperations(1)
	rec.Reset()
	cancelAfter := false
	_ = cancelAfter
	time.Sleep(time.Duration(stallMs) * time.Millisecond)
	verifhook.Perturb(0, 0)
	verifhook.Set(nil)
	left, who := waitNoGoroutines(2 * time.Second)
	cancel()
	status := "flusher-stopped"
	if left > 0 {
		status = "flusher-alive"
		o.violation(line, "a flusher goroutine is still alive after EndTest/Reset", map[string]interface{}{"count": left, "first": who})
	}
	o.emit(line, fmt.Sprintf("ok finals=%s errs=%d %s", strings.Join(finals, ","), endErrs, status))
	o.nontrivial(line)
	o.count("sched-rec-" + kind)
}

// tickCollector counts Add calls and fails on chosen ones (it does not look at the samples: marshalling a histogram
// point is far too slow to do on every tick)
type tickCollector struct {
	mu      sync.Mutex
	calls   int // completed calls
	started int
	failAt  map[int]bool
	slow    time.Duration // the failing Adds take this long: EndTest arrives while such a background flush is in flight
}

func (c *tickCollector) Add(interface{}) error {
	c.mu.Lock()
	k := c.started
	c.started++
	c.mu.Unlock()
	if c.slow > 0 && c.failAt[k] {
		time.Sleep(c.slow) // the failing calls are the slow ones
	}
	c.mu.Lock()
	defer c.mu.Unlock()
	c.calls++
	if c.failAt[k] {
		return fmt.Errorf("scripted failure of Add #%d", k)
	}
	return nil
}
func (c *tickCollector) SetMetadata(interface{}) error { return nil }
func (c *tickCollector) Resolve() ([]byte, error)      { return nil, nil }
func (c *tickCollector) Reset()                        {}
func (c *tickCollector) Info() ftdc.CollectorInfo      { return ftdc.CollectorInfo{} }
func (c *tickCollector) n() int                        { c.mu.Lock(); defer c.mu.Unlock(); return c.calls }
func (c *tickCollector) startedN() int                 { c.mu.Lock(); defer c.mu.Unlock(); return c.started }

// rec-tick <kind: interval | histInterval> <failing Add indexes, comma separated or -> <K> <cycles>
// An interval recorder with a 2 ms interval and a collector that fails on chosen calls: while a test is open a sample
// is persisted at every elapsed interval - also after the collector has returned an error - and EndTest returns the
// collector errors since the previous EndTest (C15: "persisted at exactly the documented moments ... elapsed interval").
func cmdRecTick(o *Out, line string, f []string) {
	kind, K, cycles := f[0], int(atoi64(f[2])), int(atoi64(f[3]))
	verifhook.Set(nil)
	ctx, cancel := context.WithCancel(context.Background())
	defer cancel()
	var res []string
	// ONE recorder over ONE collector for all cycles (the flusher is restarted by every cycle's BeginIteration); the
	// collector's call numbering starts again with every cycle
	coll := &tickCollector{failAt: map[int]bool{}}
	slowMode := len(f) > 4 && f[4] == "slow"
	if slowMode {
		// the failing background flush is slow (6 ms) and EndTest is called while it is in flight: EndTest waits for it
		// and reports its error; nothing reaches the collector after EndTest has returned
		coll.slow = 6 * time.Millisecond
	}
	if f[1] != "-" {
		for _, x := range strings.Split(f[1], ",") {
			coll.failAt[int(atoi64(x))] = true
		}
	}
	var rec events.Recorder
	switch kind {
	case "interval":
		rec = events.NewIntervalRecorder(ctx, coll, 2*time.Millisecond)
	case "histInterval":
		rec = events.NewIntervalHistogramRecorder(ctx, coll, 2*time.Millisecond)
	default:
		panic(kind)
	}
	for c := 0; c < cycles; c++ {
		coll.mu.Lock()
		coll.calls, coll.started = 0, 0
		coll.mu.Unlock()
		rec.BeginIteration()
		rec.IncOperations(5)
		deadline := time.Now().Add(3 * time.Second)
		for coll.n() < K && time.Now().Before(deadline) {
			time.Sleep(500 * time.Microsecond)
		}
		reached := coll.n() >= K
		if slowMode {
			// wait until the slow failing Add (number K: the harness passes the failing index K) has STARTED
			for coll.startedN() < K+1 && time.Now().Before(deadline) {
				time.Sleep(100 * time.Microsecond)
			}
		}
		closeBy := "endtest"
		if len(f) > 4 {
			closeBy = f[4]
		}
		if closeBy == "slow" {
			closeBy = "endtest"
		}
		var err error
		if closeBy == "reset" {
			rec.Reset()
		} else {
			rec.EndIteration(time.Millisecond)
			err = rec.EndTest()
		}
		// after EndTest or Reset has returned nothing is persisted any more, whatever the collector answered before:
		// the flusher belongs to the test cycle
		after := coll.n()
		time.Sleep(14 * time.Millisecond)
		quiet := coll.n() == after
		if !quiet {
			o.violation(line, "samples were handed to the collector after "+closeBy+" had returned (the background flusher outlives the test cycle)",
				map[string]int{"cycle": c, "adds_after": coll.n() - after})
		}
		if closeBy == "reset" {
			res = append(res, fmt.Sprintf("ticks=%v,reset,quiet=%v", reached, quiet))
			if !reached {
				o.violation(line, "an interval recorder stopped persisting at elapsed intervals while the test was open",
					map[string]int{"cycle": c, "adds": coll.n(), "expected_at_least": K})
			}
			continue
		}
		if !reached {
			o.violation(line, "an interval recorder stopped persisting at elapsed intervals while the test was open",
				map[string]int{"cycle": c, "adds": coll.n(), "expected_at_least": K})
		}
		if want := len(coll.failAt) > 0; (err != nil) != want {
			o.violation(line, "EndTest does not report the collector errors since the previous EndTest (or reports one that did not happen)",
				map[string]interface{}{"cycle": c, "error": fmt.Sprint(err), "failing_adds": f[1]})
		}
		res = append(res, fmt.Sprintf("ticks=%v,endErr=%v,quiet=%v", reached, err != nil, quiet))
	}
	o.emit(line, strings.Join(res, " "))
	o.nontrivial(line)
	o.count("rec-tick-" + kind)
}

// sched-rec-overlap <kind> <G> <M> <tick us> <seed>
// G goroutines issue M IncOperations(1) each WHILE the main goroutine runs test cycles (BeginIteration,
// EndIteration, EndTest) as fast as it can; after the writers have finished, one more cycle.  Every increment is
// then in exactly one cycle: the values persisted last in each cycle add up to the number of increments issued.
func cmdSchedRecOverlap(o *Out, line string, f []string) {
	kind := f[0]
	G, M, tickUs, seed := int(atoi64(f[1])), int(atoi64(f[2])), int(atoi64(f[3])), atoi64(f[4])
	verifhook.Set(nil)
	if seed != 0 {
		verifhook.Perturb(seed, 30)
	}
	coll := &opsCollector{}
	ctx, cancel := context.WithCancel(context.Background())
	defer cancel()
	var rec events.Recorder
	switch kind {
	case "interval":
		rec = events.NewIntervalRecorder(ctx, coll, time.Duration(tickUs)*time.Microsecond)
	case "sync":
		rec = events.NewSynchronizedRecorder(events.NewRawRecorder(coll))
	default:
		panic(kind)
	}
	var wg sync.WaitGroup
	var done int32
	start := make(chan struct{})
	for g := 0; g < G; g++ {
		wg.Add(1)
		go func(g int) {
			defer wg.Done()
			<-start
			for m := 0; m < M; m++ {
				rec.IncOperations(1)
			}
		}(g)
	}
	go func() { wg.Wait(); atomic.StoreInt32(&done, 1) }()
	var sum int64
	endErrs, cycles := 0, 0
	cycle := func() {
		rec.BeginIteration()
		rec.EndIteration(time.Microsecond)
		if err := rec.EndTest(); err != nil {
			endErrs++
		}
		coll.mu.Lock()
		if n := len(coll.ops); n > 0 {
			sum += coll.ops[n-1]
		}
		coll.ops = coll.ops[:0]
		coll.mu.Unlock()
		cycles++
	}
	close(start)
	for atomic.LoadInt32(&done) == 0 && cycles < 100000 {
		cycle()
	}
	wg.Wait()
	cycle()
	verifhook.Perturb(0, 0)
	if sum != int64(G*M) {
		o.violation(line, "the counters persisted last in each test cycle do not add up to the increments issued while the cycles ran",
			map[string]interface{}{"persisted": sum, "issued": G * M, "cycles": cycles})
	}
	o.emit(line, fmt.Sprintf("ok total=%d errs=%d", sum, endErrs))
	o.nontrivial(line)
	o.count("sched-rec-overlap-" + kind)
}

// conc-events <G> <M> <observers> <seed>: the events package's synchronized collector (over a cumulative collector over a
// batch collector) used by G workers (AddEvent) while observers call Resolve, Info and SetMetadata - starting on the
// EMPTY collector, so that the first Resolve calls fail while writers queue up.  No call blocks (the watchdog of the
// isolated child turns a deadlock into `hang`), and every event is persisted.
// flakyResolve: an ftdc collector whose Resolve fails while `failing` is set
type flakyResolve struct {
	ftdc.Collector
	failing int32
}

func (c *flakyResolve) Resolve() ([]byte, error) {
	if atomic.LoadInt32(&c.failing) != 0 {
		return nil, fmt.Errorf("scripted Resolve failure")
	}
	return c.Collector.Resolve()
}

func cmdConcEvents(o *Out, line string, f []string) {
	G, M, obsN := int(atoi64(f[0])), int(atoi64(f[1])), int(atoi64(f[2]))
	// in every other case the wrapped collector's Resolve FAILS for the whole concurrent phase (a collector that cannot
	// render right now): every observer Resolve takes the error path while writers are queueing for the lock
	inner := &flakyResolve{Collector: ftdc.NewBatchCollector(50)}
	if len(f) > 3 && atoi64(f[3])%2 == 1 {
		atomic.StoreInt32(&inner.failing, 1)
	}
	c := events.NewSynchronizedCollector(events.NewBasicCollector(inner))
	var wg, owg sync.WaitGroup
	stop := make(chan struct{})
	start := make(chan struct{})
	var failedResolves int64
	for k := 0; k < obsN; k++ {
		owg.Add(1)
		go func(k int) {
			defer owg.Done()
			<-start
			for {
				select {
				case <-stop:
					return
				default:
				}
				if _, err := c.Resolve(); err != nil {
					atomic.AddInt64(&failedResolves, 1)
				}
				_ = c.Info()
				if k%2 == 1 {
					_ = c.SetMetadata(birch.NewDocument(birch.EC.Int64("m", int64(k))))
				}
				runtime.Gosched()
			}
		}(k)
	}
	refused := int64(0)
	for g := 0; g < G; g++ {
		wg.Add(1)
		go func(g int) {
			defer wg.Done()
			<-start
			for i := 0; i < M; i++ {
				if err := c.AddEvent(&events.Performance{Counters: events.PerformanceCounters{Operations: 1}}); err != nil {
					atomic.AddInt64(&refused, 1)
				}
			}
		}(g)
	}
	close(start)
	time.Sleep(200 * time.Microsecond) // observers meet the empty collector first
	wg.Wait()
	close(stop)
	owg.Wait()
	atomic.StoreInt32(&inner.failing, 0)
	n := -1
	var last int64 = -1
	if out, err := c.Resolve(); err == nil {
		it := ftdc.ReadMetrics(context.Background(), bytes.NewReader(out))
		n = 0
		for it.Next() {
			n++
			if v, ok := it.Document().Lookup("counters.ops").Int64OK(); ok {
				last = v
			}
		}
		it.Close()
	}
	o.emit(line, fmt.Sprintf("persisted=%d ops=%d", n, last))
	o.nontrivial(line)
	o.count("conc-events")
	if refused != 0 || n != G*M || last != int64(G*M) {
		o.violation(line, "the synchronized event collector lost events under concurrent use",
			map[string]interface{}{"issued": G * M, "refused": refused, "samples": n, "final_ops": last})
	}
}

func streamRecTick(o *Out, rng *rand.Rand, thorough bool, _ []string) {
	var lines []string
	fails := []string{"-", "0", "1", "0,2", "3"}
	if thorough {
		fails = append(fails, "2", "4", "0,1,2,3", "5", "1,4")
	}
	for _, fa := range fails {
		for _, kind := range []string{"interval", "histInterval"} {
			lines = append(lines, fmt.Sprintf("rec-tick %s %s %d %d", kind, fa, 6+rng.Intn(4), 1+rng.Intn(3)))
			lines = append(lines, fmt.Sprintf("rec-tick %s %s %d %d reset", kind, fa, 3+rng.Intn(4), 1+rng.Intn(2)))
			if fa != "-" {
				k := 2 + rng.Intn(3)
				lines = append(lines, fmt.Sprintf("rec-tick %s %d %d %d slow", kind, k, k, 1+rng.Intn(2))) // the K-th Add is the slow failing one
			}
		}
	}
	runIsolated(o, lines, 30*time.Second)
}

func streamSchedRec(o *Out, rng *rand.Rand, thorough bool, _ []string) {
	var lines []string
	no := 12
	if thorough {
		no = 200
	}
	for i := 0; i < no/2; i++ {
		lines = append(lines, fmt.Sprintf("conc-events %d %d %d %d", 2+rng.Intn(7), 20+rng.Intn(200), 1+rng.Intn(3), rng.Intn(1<<20)))
	}
	for i := 0; i < no; i++ {
		lines = append(lines, fmt.Sprintf("sched-rec-overlap %s %d %d %d %d", []string{"sync", "interval"}[i%2], 2+rng.Intn(7), 200+rng.Intn(3000),
			[]int{50, 100, 500}[rng.Intn(3)], []int64{0, 1 + rng.Int63n(1<<30)}[rng.Intn(2)]))
	}
	// many short cycles, every one opened by all workers at the same moment (the first BeginIteration of a cycle is the
	// one that starts the flusher): both interval recorders, several widths
	nb := 3
	if thorough {
		nb = 30
	}
	for i := 0; i < nb; i++ {
		for _, kind := range []string{"interval", "histInterval"} {
			lines = append(lines, fmt.Sprintf("sched-rec %s %d %d %d %d 0 0 0 cb", kind, []int{8, 4, 16}[i%3], 1+rng.Intn(3), 300+rng.Intn(300),
				[]int{200, 50, 1000}[rng.Intn(3)]))
		}
	}
	n := 40
	if thorough {
		n = 600
	}
	for i := 0; i < n; i++ {
		kind := []string{"interval", "histInterval", "sync"}[rng.Intn(3)]
		G := 1 + rng.Intn(8)
		M := 1 + rng.Intn(60)
		cycles := 1 + rng.Intn(6)
		tick := []int{50, 100, 500, 2000}[rng.Intn(4)]
		stall := 0
		seed := int64(0)
		switch rng.Intn(3) {
		case 0:
			stall = 3 + rng.Intn(5) // systematic: the flusher is held between tick and lock across EndTest
		case 1:
			seed = 1 + rng.Int63n(1<<30)
		}
		slow := 0
		if rng.Intn(3) == 0 {
			slow = []int{200, 1000, 3000}[rng.Intn(3)] // a slow collector: EndTest arrives while a flush is in progress
			if M > 20 {
				M = 20
			}
		}
		cb := "-"
		if rng.Intn(2) == 0 {
			cb = "cb"
			if G < 2 {
				G = 2 + rng.Intn(7)
			}
			if rng.Intn(2) == 0 {
				// many short cycles: the moment at which two goroutines open a fresh cycle together is what is explored
				cycles, M, stall, slow = 100+rng.Intn(200), 1+rng.Intn(4), 0, 0
				G = 4 + rng.Intn(5)
			}
		}
		tr := "-"
		if kind != "sync" && stall == 0 && slow == 0 && cycles <= 6 && rng.Intn(3) == 0 {
			tr = "trail"
		}
		pre := "-"
		if rng.Intn(3) == 0 {
			pre = "pre"
		}
		lines = append(lines, fmt.Sprintf("sched-rec %s %d %d %d %d %d %d %d %s %s %s", kind, G, M, cycles, tick, stall, seed, slow, cb, tr, pre))
	}
	for _, kind := range []string{"interval", "histInterval"} {
		lines = append(lines, fmt.Sprintf("sched-rec %s 4 10 3 500 0 0 0 - trail", kind), fmt.Sprintf("sched-rec %s 2 7 2 100 0 0 0 cb trail", kind))
	}
	runIsolated(o, lines, 20*time.Second)
}
