import FtdcVerif.Lemmas.StreamE2E
/-!
# End to end for the batch collector

Documents of one schema added to a batch collector with chunk size `n`: its chunks are runs
`(head, tail)` of consecutive documents, every one but the last of exactly `n` documents.
-/
namespace Ftdc

/-- chunk `i` of the batch collector holds run `i` -/
def AllHold (n : Nat) : List Better → List (BDoc × List BDoc) → Prop
  | [], [] => True
  | c :: cs, p :: ps => Holds n p.1 p.2 c ∧ p.2.length + 1 ≤ n ∧ AllHold n cs ps
  | _, _ => False

theorem allHold_append (n : Nat) : ∀ (cs : List Better) (ps : List (BDoc × List BDoc)) (c : Better) (p : BDoc × List BDoc),
    AllHold n cs ps → Holds n p.1 p.2 c → p.2.length + 1 ≤ n → AllHold n (cs ++ [c]) (ps ++ [p])
  | [], [], c, p, _, h, hl => by simp [AllHold, h, hl]
  | [], _ :: _, _, _, h, _, _ => by simp [AllHold] at h
  | _ :: _, [], _, _, h, _, _ => by simp [AllHold] at h
  | c0 :: cs, p0 :: ps, c, p, h, hh, hl => by
    simp only [AllHold, List.cons_append] at h ⊢
    exact ⟨h.1, h.2.1, allHold_append n cs ps c p h.2.2 hh hl⟩

/-- the two lists end in a matching pair -/
theorem allHold_last (n : Nat) : ∀ (cs : List Better) (ps : List (BDoc × List BDoc)) (c : Better),
    AllHold n (cs ++ [c]) ps → ∃ ps' p, ps = ps' ++ [p] ∧ AllHold n cs ps' ∧ Holds n p.1 p.2 c ∧ p.2.length + 1 ≤ n
  | [], [], _, h => by simp [AllHold] at h
  | [], [p], c, h => by
    simp only [List.nil_append, AllHold] at h
    exact ⟨[], p, rfl, by simp [AllHold], h.1, h.2.1⟩
  | [], _ :: _ :: _, _, h => by simp [AllHold] at h
  | _ :: _, [], _, h => by simp [AllHold] at h
  | c0 :: cs, p0 :: ps, c, h => by
    simp only [List.cons_append, AllHold] at h
    obtain ⟨ps', p, e, a, b, cl⟩ := allHold_last n cs ps c h.2.2
    exact ⟨p0 :: ps', p, by simp [e], by simp only [AllHold]; exact ⟨h.1, h.2.1, a⟩, b, cl⟩

/-- ghost invariant of the batch collector fed with documents of one schema -/
def BG (n : Nat) (b : Batch) (runs : List (BDoc × List BDoc)) : Prop :=
  b.maxSamples = n ∧
  ((runs = [] ∧ b.chunks = [({ maxDeltas := n } : Better)]) ∨ (runs ≠ [] ∧ AllHold n b.chunks runs))

theorem bg_new (n : Nat) : BG n (Batch.new n) [] := ⟨rfl, Or.inl ⟨rfl, rfl⟩⟩

theorem holds_info (n : Nat) (p : BDoc × List BDoc) (c : Better) (h : Holds n p.1 p.2 c) : c.info.2 = p.2.length + 1 := by
  obtain ⟨h1, _, h3, _⟩ := h
  simp [Better.info, h1, h3]; omega

theorem bg_add (n : Nat) (hn : 1 ≤ n) (b : Batch) (runs : List (BDoc × List BDoc)) (d : BDoc) (g : BG n b runs)
    (hsim : ∀ p, runs.getLast? = some p → SimDoc p.1 d) :
    (b.add d).2 = .ok ∧ ∃ runs', BG n (b.add d).1 runs' ∧
      (runs'.map chunkDocs).flatten = (runs.map chunkDocs).flatten ++ [d] := by
  obtain ⟨hm, hcase⟩ := g
  rcases hcase with ⟨hr, hc⟩ | ⟨hne, hall⟩
  · -- the very first document
    subst hr
    unfold Batch.add
    have hl : b.chunks.getLast? = some ({ maxDeltas := n } : Better) := by rw [hc]; rfl
    simp only [hl]
    have hinfo : ¬ (({ maxDeltas := n } : Better).info.2 ≥ b.maxSamples) := by
      simp [Better.info, hm]; omega
    rw [if_neg hinfo]
    obtain ⟨a1, a2⟩ := holds_first n d ({ maxDeltas := n } : Better) rfl rfl rfl
    refine ⟨a1, [(d, [])], ⟨hm, Or.inr ⟨by simp, ?_⟩⟩, by simp [chunkDocs]⟩
    rw [hc]
    show AllHold n ([] ++ [_]) [(d, [])]
    simp only [List.nil_append, AllHold]
    exact ⟨a2, by simp; omega, trivial⟩
  · rcases List.eq_nil_or_concat b.chunks with h0 | ⟨init, lastC, hx⟩
    · rw [h0] at hall
      cases runs with
      | nil => exact absurd rfl hne
      | cons _ _ => simp [AllHold] at hall
    · have hx' : b.chunks = init ++ [lastC] := by simpa using hx
      rw [hx'] at hall
      obtain ⟨ps', p, e, ha, hh, hle⟩ := allHold_last n init runs lastC hall
      have hl : b.chunks.getLast? = some lastC := by rw [hx']; simp
      have hsd : SimDoc p.1 d := hsim p (by rw [e]; simp)
      unfold Batch.add
      simp only [hl]
      have hinfo := holds_info n p lastC hh
      by_cases hfull : lastC.info.2 ≥ b.maxSamples
      · -- a new chunk
        rw [if_pos hfull]
        obtain ⟨a1, a2⟩ := holds_first n d ({ maxDeltas := b.maxSamples } : Better) rfl rfl hm
        refine ⟨a1, runs ++ [(d, [])], ⟨hm, Or.inr ⟨by simp, ?_⟩⟩, by simp [chunkDocs]⟩
        rw [hx', e]
        have := allHold_append n (init ++ [lastC]) (ps' ++ [p]) _ (d, []) (by rw [← e]; exact hall) a2 (by simp; omega)
        simpa using this
      · rw [if_neg hfull]
        have hroom : p.2.length + 1 + 1 ≤ n := by rw [hinfo, hm] at hfull; omega
        obtain ⟨a1, a2⟩ := holds_step n p.1 p.2 lastC d hh (by omega) hsd
        refine ⟨a1, ps' ++ [(p.1, p.2 ++ [d])], ⟨hm, Or.inr ⟨by simp, ?_⟩⟩, ?_⟩
        · have hdrop : b.chunks.dropLast = init := by rw [hx']; simp
          rw [hdrop]
          exact allHold_append n init ps' _ (p.1, p.2 ++ [d]) ha a2 (by simp; omega)
        · rw [e]; simp [chunkDocs]

/-- every history: documents of one schema into a fresh batch collector -/
theorem bg_run (n : Nat) (hn : 1 ≤ n) (d0 : BDoc) (ds : List BDoc) (hsim : ∀ d ∈ ds, SimDoc d0 d) :
    ∃ runs, BG n ((d0 :: ds).foldl (fun (b : Batch) d => (b.add d).1) (Batch.new n)) runs ∧
      (runs.map chunkDocs).flatten = d0 :: ds := by
  have : ∀ (ds : List BDoc) (b : Batch) (runs : List (BDoc × List BDoc)) (pre : List BDoc), BG n b runs →
      (runs.map chunkDocs).flatten = pre → (∀ x ∈ pre, SimDoc d0 x) → (∀ d ∈ ds, SimDoc d0 d) →
      ∃ runs', BG n (ds.foldl (fun (b : Batch) d => (b.add d).1) b) runs' ∧
        (runs'.map chunkDocs).flatten = pre ++ ds := by
    intro ds
    induction ds with
    | nil => intro b runs pre g h _ _; exact ⟨runs, g, by simpa using h⟩
    | cons d ds ih =>
      intro b runs pre g h hpre hds
      have hd := hds d (List.mem_cons_self ..)
      have hs : ∀ p, runs.getLast? = some p → SimDoc p.1 d := by
        intro p hp
        have hmem : p.1 ∈ pre := by
          rw [← h]
          simp only [List.mem_flatten, List.mem_map]
          exact ⟨chunkDocs p, ⟨p, List.mem_of_getLast? hp, rfl⟩, by simp [chunkDocs]⟩
        exact simDoc_trans _ _ _ (simDoc_symm _ _ (hpre p.1 hmem)) hd
      obtain ⟨_, runs', g', h'⟩ := bg_add n hn b runs d g hs
      simp only [List.foldl_cons]
      obtain ⟨runs'', g'', h''⟩ := ih (b.add d).1 runs' (pre ++ [d]) g' (by rw [h', h])
        (by intro x hx; rcases List.mem_append.1 hx with hx | hx; exact hpre x hx; simp at hx; rw [hx]; exact hd)
        (fun x hx => hds x (List.mem_cons_of_mem _ hx))
      exact ⟨runs'', g'', by rw [h'']; simp⟩
  obtain ⟨runs, g, h⟩ := this (d0 :: ds) (Batch.new n) [] [] (bg_new n) (by simp) (by simp)
    (by intro d hd; rcases List.mem_cons.1 hd with rfl | hd; exact simDoc_refl _; exact hsim d hd)
  exact ⟨runs, g, by simpa using h⟩

/-- what `Resolve` returns: one metric chunk per run -/
theorem allHold_resolve (n : Nat) : ∀ (cs : List Better) (ps : List (BDoc × List BDoc)) (acc : List OutDoc),
    AllHold n cs ps →
    cs.foldl (fun a b => match a, b.resolve with
      | some l, some o => some (l ++ o)
      | _, _ => none) (some acc) = some (acc ++ ps.map mkChunk)
  | [], [], acc, _ => by simp
  | [], _ :: _, _, h => by simp [AllHold] at h
  | _ :: _, [], _, h => by simp [AllHold] at h
  | c :: cs, p :: ps, acc, h => by
    simp only [AllHold] at h
    obtain ⟨⟨a1, a2, a3, a4, _, a6, _⟩, _, hrest⟩ := h
    have hres : c.resolve = some [mkChunk p] := by
      simp only [Better.resolve, a1, a4, mkChunk, a6, a2, a3]
    simp only [List.foldl_cons, hres]
    rw [allHold_resolve n cs ps (acc ++ [mkChunk p]) hrest]
    simp

end Ftdc
