module verifharness

go 1.20

require (
	github.com/evergreen-ci/birch v0.0.0-20191213201306-f4dae6f450a2
	github.com/mongodb/ftdc v0.0.0
	go.mongodb.org/mongo-driver v1.11.1
)

require (
	github.com/andygrunwald/go-jira v1.14.0 // indirect
	github.com/bluele/slack v0.0.0-20180528010058-b4b4d354a079 // indirect
	github.com/coreos/go-systemd v0.0.0-20191104093116-d3cd4ed1dbcf // indirect
	github.com/dghubble/oauth1 v0.7.0 // indirect
	github.com/fatih/structs v1.1.0 // indirect
	github.com/fsnotify/fsnotify v1.5.1 // indirect
	github.com/fuyufjh/splunk-hec-go v0.3.3 // indirect
	github.com/golang-jwt/jwt v3.2.1+incompatible // indirect
	github.com/google/go-github v17.0.0+incompatible // indirect
	github.com/google/go-querystring v0.0.0-20170111101155-53e6ce116135 // indirect
	github.com/mattn/go-xmpp v0.0.0-20210723025538-3871461df959 // indirect
	github.com/mongodb/grip v0.0.0-20211018154934-e661a71929d5 // indirect
	github.com/papertrail/go-tail v0.0.0-20180509224916-973c153b0431 // indirect
	github.com/pkg/errors v0.9.1 // indirect
	github.com/satori/go.uuid v1.2.0 // indirect
	github.com/shirou/gopsutil v3.21.9+incompatible // indirect
	github.com/tklauser/go-sysconf v0.3.9 // indirect
	github.com/tklauser/numcpus v0.3.0 // indirect
	github.com/trivago/tgo v1.0.7 // indirect
	golang.org/x/net v0.0.0-20211112202133-69e39bad7dc2 // indirect
	golang.org/x/oauth2 v0.0.0-20211005180243-6b3c2da341f1 // indirect
	golang.org/x/sys v0.0.0-20220811171246-fbc7d0a398ab // indirect
)

replace github.com/mongodb/ftdc => /repo
