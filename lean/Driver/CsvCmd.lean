import FtdcVerif.Model.Csv
import Driver.ReadCmd
namespace Driver
open Ftdc

def recsStr (recs : List (List Bytes)) : String :=
  ";".intercalate (recs.map fun r => ",".intercalate (r.map hexEncode))

/-- groups of consecutive documents with the same key list -/
def groupDocs (docs : List BDoc) : String :=
  let keyOf := fun (d : BDoc) => ",".intercalate (d.toList.map fun kv => hexEncode kv.1)
  let rowOf := fun (d : BDoc) => ",".intercalate (d.toList.map fun kv => match kv.2 with
    | .int64 v => toString v.toInt
    | _ => "?")
  let step := fun (acc : List (String × List String)) (d : BDoc) =>
    match acc.getLast? with
    | some (k, rows) => if k == keyOf d then acc.dropLast ++ [(k, rows ++ [rowOf d])] else acc ++ [(keyOf d, [rowOf d])]
    | none => [(keyOf d, [rowOf d])]
  joinSp ((docs.foldl step []).map fun (k, rows) => s!"{k}:{"/".intercalate rows}")

def csvCmd (ws : List String) : String :=
  match sections ws with
  | [[_, h], tbl] =>
    match hexDecode h with
    | none => "bad-op"
    | some bs =>
      let r := readAll (mkInflate (parseTable tbl)) bs
      let (recs0, ok) := writeCsv none r.chunks
      -- a record without fields is written as an empty line, which a CSV reader skips
      let recs := if ok then recs0.filter (· ≠ []) else []
      let files := (dumpCsv none [] r.chunks).map fun f => f.filter (· ≠ [])
      let conv := if !ok then "-" else
        match recs with
        | [] => "errok[]"
        | header :: rows =>
          -- a header made of one empty field is written as an empty line, which the CSV reader skips:
          -- the generators do not produce it
          s!"okok[{groupDocs (rows.map (recordDoc header))}]"
      s!"write={okStr ok}[{recsStr recs}] dump=ok[{" | ".intercalate (files.map recsStr)}] conv={conv}"
  | _ => "bad-op"

end Driver
