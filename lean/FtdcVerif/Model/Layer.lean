/-
  One layer of the reader stack as a transition system: a worker goroutine between an upstream
  iterator and its own buffered pipe (combinedIterator.worker, matrixIterator.worker,
  Chunk.streamDocuments / streamFlattenedDocuments all have this shape):

      for upstream.Next() {            -- blocks until an item is buffered or upstream is closed
          select {
          case pipe <- item:           -- blocks while the pipe is full
          case <-ctx.Done(): return    -- the cancel arm (regenerated fact `selectFacts`)
          }
      }
      close(pipe)                      -- deferred

  `Close` on the layer cancels `ctx` (regenerated fact `closeFacts`) and closes the upstream
  iterator; that the upstream then closes its pipe after boundedly many steps is the theorem of
  the layer below (`C06.after_cancel_no_deadlock`), here the environment action `upClose`.
-/
namespace Ftdc.Layer

inductive WPc where
  | recv | send | done
  deriving DecidableEq, Repr

structure St where
  wpc : WPc := .recv
  upBuf : Nat := 0          -- items buffered upstream
  upClosed : Bool := false
  pipeLen : Nat := 0
  pipeCap : Nat
  pipeClosed : Bool := false
  cancelled : Bool := false
  taken : Nat := 0          -- items the consumer has received
  deriving DecidableEq, Repr

inductive Act where
  | upProduce      -- environment: the upstream buffers an item
  | upClose        -- environment: the upstream closes its pipe
  | wRecv          -- worker: `upstream.Next()` returns (true with an item, or false)
  | wSend          -- worker: the `pipe <- item` arm of the select
  | wAbort         -- worker: the `<-ctx.Done()` arm of the select
  | consume        -- consumer: `Next()` takes an item
  | cancel         -- consumer: `Close()` / context cancellation
  deriving DecidableEq, Repr

/-- `none` = the action is not enabled (the goroutine is blocked there) -/
def step (s : St) : Act → Option St
  | .upProduce => if s.upClosed then none else some { s with upBuf := s.upBuf + 1 }
  | .upClose => some { s with upClosed := true }
  | .wRecv =>
    if s.wpc ≠ .recv then none
    else if s.upBuf > 0 then some { s with upBuf := s.upBuf - 1, wpc := .send }
    else if s.upClosed then some { s with wpc := .done, pipeClosed := true }
    else none
  | .wSend =>
    if s.wpc = .send ∧ s.pipeLen < s.pipeCap then some { s with pipeLen := s.pipeLen + 1, wpc := .recv } else none
  | .wAbort =>
    if s.wpc = .send ∧ s.cancelled then some { s with wpc := .done, pipeClosed := true } else none
  | .consume => if s.pipeLen > 0 then some { s with pipeLen := s.pipeLen - 1, taken := s.taken + 1 } else none
  | .cancel => some { s with cancelled := true }

def run (s : St) (sched : List Act) : St := sched.foldl (fun s a => (step s a).getD s) s

def isWorker : Act → Bool
  | .wRecv | .wSend | .wAbort => true
  | _ => false

/-- steps the worker can still take once its context is cancelled and the upstream is closed -/
def pot (s : St) : Nat :=
  match s.wpc with
  | .done => 0
  | .recv => 2 * s.upBuf + 1
  | .send => 2 * s.upBuf + 2

end Ftdc.Layer
