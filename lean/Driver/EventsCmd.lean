import FtdcVerif.Model.Events
import Driver.Util
namespace Driver
open Ftdc.Events

def perfOfInts? (l : List Int) : Option Perf :=
  match l with
  | [ts, id, n, ops, size, errors, dur, total, state, workers, failed] =>
    some { ts := BitVec.ofInt 64 ts, id := BitVec.ofInt 64 id, n := BitVec.ofInt 64 n, ops := BitVec.ofInt 64 ops,
           size := BitVec.ofInt 64 size, errors := BitVec.ofInt 64 errors, dur := BitVec.ofInt 64 dur,
           total := BitVec.ofInt 64 total, state := BitVec.ofInt 64 state, workers := BitVec.ofInt 64 workers,
           failed := failed ≠ 0 }
  | _ => none

def perfStr (p : Perf) : String :=
  ",".intercalate ([p.ts, p.id, p.n, p.ops, p.size, p.errors, p.dur, p.total, p.state, p.workers].map
    (fun v => toString v.toInt) ++ [if p.failed then "1" else "0"])

/-- a token denotes the value the event has when `AddEvent` is called -/
def tokenEvent (tok : String) : Option Ev :=
  if tok == "nil" then some none else
  match tok.splitOn ":" with
  | [_, vals] => match ints? (vals.splitOn ",") with
    | some l => (perfOfInts? l).map some
    | none => none
  | _ => none

def eventsCmd (ws : List String) : String :=
  match sections ws with
  | [[kind, ns], toks] =>
    match ns.toInt?, toks.mapM tokenEvent with
    | some ni, some evs =>
      let n := ni.toNat
      -- `basicrefuse n`: the wrapped collector refuses the n-th sample handed to it: that AddEvent fails, nothing is
      -- persisted for it, and the event still counts in every later total
      let resChars := (evs.foldl (fun (acc : List Char × Nat) e =>
        if e.isSome then (acc.1 ++ [if kind == "basicrefuse" && acc.2 == n then 'e' else 'o'], acc.2 + 1)
        else (acc.1 ++ ['e'], acc.2)) ([], 0)).1
      let res := String.ofList resChars
      -- which of the gated collectors' outcomes are determined: percent > 100 / <= 0, interval 0 / one hour
      if (kind == "randomT" || kind == "randomF") && 1 ≤ ni && ni ≤ 100 then s!"{res} written=SUBSEQ" else
      if kind == "intervalT" then s!"{res} written=SUBSEQ" else
      let written : Option (List Perf) := match kind with
        | "basic" => some (basicRun none evs)
        | "basicrefuse" => some (gatedRun none (List.replicate n true ++ [false] ++ List.replicate evs.length true) evs)
        | "sampling" => some (samplingRun { sample := n } evs)
        | "passthrough" => some (evs.filterMap passthroughStep)
        | "randomT" | "randomF" => some (gatedRun none (List.replicate evs.length (decide (ni > 100))) evs)
        | "interval0" => some (gatedRun none (List.replicate evs.length true) evs)
        | "intervalInf" => some (gatedRun none [true] evs)
        | _ => none
      match written with
      | some w => s!"{res} written=[{joinSp (w.map perfStr)}]"
      | none => "bad-op"
    | _, _ => "bad-op"
  | _ => "bad-op"

def perfRtCmd (ws : List String) : String :=
  match ws with
  | [vals] => match ints? (vals.splitOn ",") with
    | some l => match perfOfInts? l with
      | some p => perfStr (unmarshal {} (marshal p))
      | none => "bad-op"
    | none => "bad-op"
  | _ => "bad-op"

end Driver
