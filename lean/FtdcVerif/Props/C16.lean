import FtdcVerif.Lemmas.RecorderTS
import FtdcVerif.Gen.Facts
import FtdcVerif.Lemmas.LockSound
/-!
# C16 — concurrent recorders neither deadlock nor lose updates

Two independent arguments.  (1) Static, regenerated from the source on every run: the
lock/unlock/return skeleton of every method that takes a mutex (interval recorders, synchronized
recorder, synchronized collectors, catcher) is extracted by `harness/cmd/extract` into
`Gen/Facts.lean`, and `all_lock_balanced` re-checks by kernel evaluation that on every path the
mutex is released before the function returns.  (2) Dynamic: `RecorderTS` is the transition
system of any number of user goroutines and flusher generations; for every schedule the mutex
is only ever owned by a goroutine inside its critical section, so a goroutine that has exited
never owns it and the owner can always move: no call blocks forever.  At most one flusher is
uncancelled, and the counters never lose an increment.
-/
namespace Ftdc.Props.C16
open Ftdc.RecorderTS Ftdc.LockSkeleton

/-- **every function that acquires a lock releases it on every return path** (regenerated) -/
theorem all_lock_balanced : Ftdc.Gen.lockSkeletons.all (fun p => balanced p.2) = true := by decide

/-- what `all_lock_balanced` means, by the soundness of the checker (`balanced_sound`, against an
independent path semantics: a branch runs one alternative, a loop body any number of times): no
method that takes a mutex has a path — whichever branches are taken, however often its loops run —
that unlocks a mutex it does not hold, returns with the mutex held, or falls off its end with it -/
theorem every_path_releases_the_mutex (name : String) (k : Sk) (hm : (name, k) ∈ Ftdc.Gen.lockSkeletons)
    (o : Out) (hr : Run k (0, 0) o) :
    match o with
    | .stuck => False
    | .returned s => retOk s = true
    | .fell s => retOk s = true := by
  have hb : balanced k = true := by
    have := List.all_eq_true.1 all_lock_balanced (name, k) hm
    simpa using this
  exact balanced_sound k hb o hr

/-- the extraction is not empty: both flushers and the wrappers are in it -/
theorem skeletons_present : 40 ≤ Ftdc.Gen.lockSkeletons.length := by decide

/-- finding F15: the pinned commit's flusher returned with the mutex held — its skeleton is
rejected by the same check -/
theorem unrepaired_flusher_rejected :
    balanced (.seq (sl [.loop (sl [.seq (sl [.branch (sl [.seq (sl [.ret]),
      .seq (sl [.lock, .branch (sl [.seq (sl [.ret]), .seq (sl [])]), .unlock])])])])])) = false := by decide

/-- in every reachable state a goroutine that has exited does not own the mutex -/
theorem exited_never_owns (sched : List Act) (j : Nat)
    (h : (run (init true) sched).fpc j = .exited) : (run (init true) sched).owner ≠ .flusher j := by
  intro ho
  have := (run_inv sched _ init_inv).owner_flusher j ho
  rw [h] at this; cases this

/-- **no call blocks forever**: in every reachable state whoever holds the mutex is inside its
critical section and its next step is enabled; if nobody holds it, every waiting goroutine can
take it -/
theorem owner_can_always_move_inv (s : St) (inv : RecorderTS.Inv s) :
    (∀ i, s.owner = .user i → (step s (.user i)).isSome) ∧
    (∀ j, s.owner = .flusher j → (step s (.flusher j)).isSome) ∧
    (s.owner = .free → ∀ i op, s.upc i = .waiting op → (step s (.user i)).isSome) ∧
    (s.owner = .free → ∀ j, s.fpc j = .waitLock → (step s (.flusher j)).isSome) := by
  refine ⟨?_, ?_, ?_, ?_⟩
  · intro i ho
    obtain ⟨op, hop⟩ := inv.owner_user i ho
    simp only [step, hop]
    cases op with
    | inc v => simp
    | begin => cases s.canceler <;> simp
    | endTest => simp
    | reset => simp
  · intro j ho
    have hp := inv.owner_flusher j ho
    simp only [step, hp]
    by_cases hc : s.fcancelled j = true
    · simp only [hc, ite_true]; by_cases hf : s.fixed = true <;> simp [hf]
    · simp [hc]
  · intro hfree i op hw; simp [step, hw, hfree]
  · intro hfree j hw; simp [step, hw, hfree]

theorem owner_can_always_move (sched : List Act) :
    (∀ i, (run (init true) sched).owner = .user i → (step (run (init true) sched) (.user i)).isSome) ∧
    (∀ j, (run (init true) sched).owner = .flusher j → (step (run (init true) sched) (.flusher j)).isSome) :=
  ⟨(owner_can_always_move_inv _ (run_inv sched _ init_inv)).1,
   (owner_can_always_move_inv _ (run_inv sched _ init_inv)).2.1⟩

/-- **at most one flusher per test cycle is uncancelled**, and it is the one EndTest will stop -/
theorem flusher_at_most_one (sched : List Act) (j k : Nat)
    (hj : j < (run (init true) sched).nflush) (hk : k < (run (init true) sched).nflush)
    (cj : (run (init true) sched).fcancelled j = false) (ck : (run (init true) sched).fcancelled k = false) :
    j = k := by
  have inv := run_inv sched _ init_inv
  have h1 := inv.one_active j hj cj
  have h2 := inv.one_active k hk ck
  rw [h1] at h2; injection h2

/-- after EndTest (or Reset) no flusher is left uncancelled: the flusher stops after EndTest -/
theorem no_active_flusher_without_canceler (sched : List Act)
    (hc : (run (init true) sched).canceler = none) (k : Nat)
    (hk : k < (run (init true) sched).nflush) : (run (init true) sched).fcancelled k = true := by
  have inv := run_inv sched _ init_inv
  cases hck : (run (init true) sched).fcancelled k with
  | true => rfl
  | false => have := inv.one_active k hk hck; rw [hc] at this; cases this

/-- **no increment is lost**: what the point holds plus what was persisted is the sum of all
increments of completed calls (minus what Reset was asked to discard) -/
theorem counters_are_sums (sched : List Act) :
    (run (init true) sched).counter + (run (init true) sched).persisted = (run (init true) sched).issued :=
  (run_inv sched _ init_inv).sum

/-- finding F15 as a schedule: with the unrepaired flusher, EndTest while the flusher waits for
the mutex leaves the mutex owned by a goroutine that has exited — every later call blocks -/
theorem deadlock_before_fix :
    ∃ sched, (run (init false) sched).owner = .flusher 0 ∧ (run (init false) sched).fpc 0 = .exited :=
  ⟨[.call 0 .begin, .user 0, .user 0, .flusher 0, .call 0 .endTest, .user 0, .user 0, .flusher 0, .flusher 0],
   by decide⟩

/-! non-vacuity: a schedule in which a user increments while the flusher holds the mutex -/
example : (run (init true) [.call 0 .begin, .user 0, .user 0, .flusher 0, .flusher 0, .call 1 (.inc 5),
    .user 1, .flusher 0, .user 1, .user 1]).counter = 5 := by decide

end Ftdc.Props.C16
