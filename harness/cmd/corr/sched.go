package main

import (
	"bytes"
	"compress/zlib"
	"context"
	"encoding/binary"
	"fmt"
	"io"
	"math/rand"
	"runtime"
	"sort"
	"strings"
	"time"

	"github.com/mongodb/ftdc"
	"github.com/mongodb/ftdc/verifhook"
)

func init() {
	commands["sched-err"] = cmdSchedErr
	commands["sched-close"] = cmdSchedClose
	streams["sched-err"] = streamSchedErr
	streams["sched-close"] = streamSchedClose
}

type anyIter interface {
	Next() bool
	Err() error
	Close()
}

type chunkIterAdapter struct{ *ftdc.ChunkIterator }

// eofDelay > 0: the input is a reader that pauses before it reports the end of the input (a file, pipe or socket does
// not answer the last Read at once); set by cmdSchedErr from a reader name of the form <reader>@<ms>
var eofDelay time.Duration

type slowEOFReader struct {
	r *bytes.Reader
	d time.Duration
}

func (s *slowEOFReader) Read(p []byte) (int, error) {
	if s.r.Len() == 0 {
		time.Sleep(s.d)
	}
	return s.r.Read(p)
}

func openReader(name string, ctx context.Context, stream []byte) anyIter {
	var r io.Reader = bytes.NewReader(stream)
	if eofDelay > 0 {
		r = &slowEOFReader{bytes.NewReader(stream), eofDelay}
	}
	switch name {
	case "chunks":
		return chunkIterAdapter{ftdc.ReadChunks(ctx, r)}
	case "metrics":
		return ftdc.ReadMetrics(ctx, r)
	case "structured":
		return ftdc.ReadStructuredMetrics(ctx, r)
	case "matrix":
		return ftdc.ReadMatrix(ctx, r)
	case "series":
		return ftdc.ReadSeries(ctx, r)
	case "citer", "csiter":
		// the per-chunk iterators of the first chunk (the chunk iterator itself is drained and closed first)
		ci := ftdc.ReadChunks(context.Background(), r)
		if !ci.Next() {
			ci.Close()
			return emptyIter{}
		}
		c := ci.Chunk()
		for ci.Next() {
		}
		ci.Close()
		if name == "citer" {
			return c.Iterator(ctx)
		}
		return c.StructuredIterator(ctx)
	}
	panic("reader " + name)
}

type emptyIter struct{}

func (emptyIter) Next() bool { return false }
func (emptyIter) Err() error { return nil }
func (emptyIter) Close()     {}

var readerNames = []string{"chunks", "metrics", "structured", "matrix", "series"}

// the readers of the close/cancel stream also include the per-chunk iterators
var closeReaderNames = []string{"chunks", "metrics", "structured", "matrix", "series", "citer", "csiter"}

var hookPoints = []string{"catcher.Add", "ReadChunks.diagnostic.close", "ReadChunks.chunks.close", "readDiagnostic.send",
	"readChunks.send", "combined.send", "combined.end", "matrix.send", "sample.send"}

// ftdcGoroutines counts goroutines with a frame of the library (not of this harness).
func ftdcGoroutines() (int, string) {
	buf := make([]byte, 1<<20)
	n := runtime.Stack(buf, true)
	k := 0
	var first string
	for _, g := range strings.Split(string(buf[:n]), "\n\n") {
		if strings.Contains(g, "github.com/mongodb/ftdc.") && !strings.Contains(g, "main.cmd") && !strings.Contains(g, "main.run(") {
			k++
			if first == "" {
				lines := strings.Split(g, "\n")
				if len(lines) > 2 {
					first = strings.TrimSpace(lines[0]) + " " + strings.TrimSpace(lines[1])
				}
			}
		}
	}
	return k, first
}

func waitNoGoroutines(d time.Duration) (int, string) {
	deadline := time.Now().Add(d)
	for {
		k, first := ftdcGoroutines()
		if k == 0 || time.Now().After(deadline) {
			return k, first
		}
		time.Sleep(2 * time.Millisecond)
	}
}

// sched-err <reader> <point> <occurrence> <sleep ms> <perturb seed> <hex stream>
// The goroutine reaching <point> for the <occurrence>-th time is delayed for <sleep> ms (long enough for the rest
// of the pipeline to become quiescent); the consumer iterates to the end and reads Err() immediately after
// Next() returned false, and again later.
func cmdSchedErr(o *Out, line string, f []string) {
	reader, point, occ, sleepMs, seed := f[0], f[1], int(atoi64(f[2])), int(atoi64(f[3])), atoi64(f[4])
	stream := unhx(f[5])
	eofDelay = 0
	if i := strings.IndexByte(reader, '@'); i >= 0 {
		eofDelay = time.Duration(atoi64(reader[i+1:])) * time.Millisecond
		reader = reader[:i]
	}
	defer func() { eofDelay = 0 }()
	// optional third section: "errors>=K" - the stream fails at K places that every schedule reaches
	wantErrors := 0
	if sec := sections(f); len(sec) >= 3 && len(sec[2]) == 1 && strings.HasPrefix(sec[2][0], "errors>=") {
		wantErrors = int(atoi64(sec[2][0][len("errors>="):]))
	}
	rules := map[string]verifhook.Rule{}
	if point != "-" {
		rules[point] = verifhook.Rule{Occurrence: occ, Sleep: time.Duration(sleepMs) * time.Millisecond}
	}
	verifhook.Set(rules)
	if seed != 0 {
		verifhook.Perturb(seed, 30)
	}
	ctx, cancel := context.WithCancel(context.Background())
	it := openReader(reader, ctx, stream)
	n := 0
	for it.Next() {
		n++
	}
	errAtFalse := it.Err()
	time.Sleep(time.Duration(sleepMs+5) * time.Millisecond)
	errLater := it.Err()
	it.Close()
	cancel()
	verifhook.Perturb(0, 0)
	verifhook.Set(nil)
	left, _ := waitNoGoroutines(2 * time.Second)
	// deterministic part of the observation: the error status (what the model decides); item counts may
	// legitimately differ between schedules only after an error, so they are reported in the oracle only
	o.emit(line, fmt.Sprintf("false-then-err=%s later=%s", errStr(errAtFalse), errStr(errLater)))
	o.nontrivial(reader + "/" + point + "/" + f[2] + "/" + fmt.Sprint(len(stream)))
	o.count("sched-err-" + reader)
	_ = left
	if errAtFalse == nil && errLater != nil {
		o.violation(line, "Next() returned false while Err() was still nil; the decoding error was registered later", map[string]string{"later": errLater.Error()})
	}
	if errAtFalse != nil && errLater == nil {
		o.violation(line, "Err() went back to nil", nil)
	}
	// errors reported by several goroutines are all retained: the catcher joins them with newlines
	if wantErrors > 0 {
		got := 0
		if errLater != nil {
			got = strings.Count(errLater.Error(), "\n") + 1
		}
		if got < wantErrors {
			o.violation(line, "a failure of the input is missing from Err() after Next() has returned false and every goroutine of the reader has finished",
				map[string]int{"reported": got, "failures_in_input": wantErrors})
		}
	}
}

// sched-close <reader> <action> <k> <perturb seed> <hex stream>   action: close | cancel | close2 | closecancel
// After k successful Next calls the action is taken; then Next must return false after at most the buffered
// items and every goroutine of the reader must be gone.
func cmdSchedClose(o *Out, line string, f []string) {
	reader, action, k, seed := f[0], f[1], int(atoi64(f[2])), atoi64(f[3])
	stream := unhx(f[4])
	verifhook.Set(nil)
	if seed != 0 {
		verifhook.Perturb(seed, 30)
	}
	before, _ := waitNoGoroutines(2 * time.Second)
	ctx, cancel := context.WithCancel(context.Background())
	it := openReader(reader, ctx, stream)
	got := 0
	for got < k && it.Next() {
		got++
	}
	if seed == 0 {
		// systematic cases: let the producers run until they block on their full buffers first
		time.Sleep(8 * time.Millisecond)
	}
	switch action {
	case "close":
		it.Close()
	case "cancel":
		cancel()
	case "close2":
		it.Close()
		it.Close()
	case "closecancel":
		it.Close()
		cancel()
	}
	// every goroutine the reader started exits without further prompting (no Next calls yet)
	left, who := waitNoGoroutines(1500 * time.Millisecond)
	// Next after Close: bounded number of buffered items, never blocks
	done := make(chan int, 1)
	go func() {
		extra := 0
		for it.Next() {
			extra++
			if extra > 1000000 {
				break
			}
		}
		done <- extra
	}()
	extra := -1
	select {
	case extra = <-done:
	case <-time.After(3 * time.Second):
	}
	cancel()
	verifhook.Perturb(0, 0)
	// the model's verdict is "all goroutines exit, Next does not block": the observation is exactly that
	status := "exited"
	if left > 0 {
		status = "leaked"
	}
	nb := "next-returns"
	if extra < 0 {
		nb = "next-blocks"
	}
	o.emit(line, status+" "+nb)
	o.nontrivial(fmt.Sprintf("%s/%s/%d/%d", reader, action, k, len(stream)))
	o.count("sched-close-" + reader + "-" + action)
	_ = before
	if left > 0 {
		o.violation(line, "goroutines of the reader are still alive after Close/cancel", map[string]interface{}{"count": left, "first": who})
	}
	if extra < 0 {
		o.violation(line, "Next blocks after Close/cancel", nil)
	} else if extra > 130 {
		o.violation(line, "Next kept returning items after Close/cancel beyond every internal buffer", extra)
	}
}

// failing streams: every failure location of a small stream
func failingStreams(rng *rand.Rand) [][]byte {
	docs := genDocs(rng, []*Schema{{Key: "a", Tag: 0x12, Gen: int64Gen(rng)}, {Key: "b", Tag: 0x12, Gen: int64Gen(rng)}}, 6)
	good := collect("batch", 2, nil, docs) // three chunks
	tds := topDocs(good)
	var out [][]byte
	// cut inside every document, and 4 bytes into it
	for _, td := range tds {
		out = append(out, good[:td.off+td.l/2], good[:td.off+4], good[:td.off+1])
	}
	// a corrupt chunk at every position (payload count mismatch)
	for i, td := range tds {
		m := append([]byte{}, good[:td.off]...)
		m = append(m, rebuildChunk(int32(i), 1, []byte{5, 0, 0, 0, 0, 9, 0, 0, 0, 0, 0, 0, 0}, -1, nil)...)
		m = append(m, good[td.off+td.l:]...)
		out = append(out, m)
	}
	// a damaged PAYLOAD inside a well-formed outer document with a complete zlib stream: the payload ends exactly after
	// the reference document, inside and after the two counts, after a zero delta whose run length is missing, one byte early
	for i, td := range tds {
		if td.payload == nil || i > 1 {
			continue
		}
		pl := td.payload
		refLen := int(binary.LittleEndian.Uint32(pl))
		cuts := [][]byte{pl[:refLen], pl[:refLen+3], pl[:refLen+4], pl[:refLen+8], append(append([]byte{}, pl[:refLen+8]...), 0), pl[:len(pl)-1]}
		for _, c := range cuts {
			m := append([]byte{}, good[:td.off]...)
			m = append(m, rebuildChunk(int32(i), 1, c, -1, nil)...)
			m = append(m, good[td.off+td.l:]...)
			out = append(out, m)
		}
		// the chunk decodes completely and fails only when the rest of the compressed stream is drained: a wrong checksum,
		// a stream cut inside its trailer
		var zb bytes.Buffer
		zw := zlib.NewWriter(&zb)
		zw.Write(pl)
		zw.Close()
		z := zb.Bytes()
		bad := append([]byte{}, z...)
		bad[len(bad)-1] ^= 0x5a
		for _, zd := range [][]byte{bad, z[:len(z)-2]} {
			m := append([]byte{}, good[:td.off]...)
			m = append(m, rebuildChunk(int32(i), 1, pl, -1, zd)...)
			m = append(m, good[td.off+td.l:]...)
			out = append(out, m)
		}
	}
	return out
}

func streamSchedErr(o *Out, rng *rand.Rand, thorough bool, _ []string) {
	var lines []string
	fs := failingStreams(rng)
	sleep := 15
	for _, st := range fs {
		for _, rd := range readerNames {
			lines = append(lines, fmt.Sprintf("sched-err %s - 0 %d 0 %s | %s | errors>=1", rd, 1, hx(st), inflateTable(st)))
			for _, pt := range hookPoints {
				occs := []int{1}
				if thorough {
					occs = []int{1, 2, 3}
				}
				for _, oc := range occs {
					lines = append(lines, fmt.Sprintf("sched-err %s %s %d %d 0 %s | %s | errors>=1", rd, pt, oc, sleep, hx(st), inflateTable(st)))
				}
			}
		}
	}
	// the same with an input that is slow to report its end: the reading goroutine is still finishing while the chunk
	// goroutine fails (or the other way round), with either of them held at its last steps
	for _, st := range fs {
		for _, rd := range readerNames {
			for _, pt := range []string{"-", "catcher.Add", "ReadChunks.diagnostic.close", "ReadChunks.chunks.close"} {
				lines = append(lines, fmt.Sprintf("sched-err %s@5 %s 1 %d 0 %s | %s | errors>=1", rd, pt, sleep, hx(st), inflateTable(st)))
			}
		}
	}
	if !thorough {
		// quick tier: a deterministic third of the systematic schedules plus perturbed runs
		var sel []string
		for i, l := range lines {
			if i%3 == int(rng.Int63()%3) || strings.Contains(l, " catcher.Add ") || strings.Contains(l, "@5 ReadChunks.") {
				sel = append(sel, l)
			}
		}
		lines = sel
	}
	np := 200
	if thorough {
		np = 5000
	}
	for i := 0; i < np; i++ {
		st := fs[rng.Intn(len(fs))]
		lines = append(lines, fmt.Sprintf("sched-err %s - 0 1 %d %s | %s | errors>=1", readerNames[rng.Intn(len(readerNames))], 1+rng.Int63n(1<<30), hx(st), inflateTable(st)))
	}
	// two failures that every schedule reaches: a corrupt chunk (fails in the chunk decoder) directly followed by a
	// truncated document (fails in the document reader); either goroutine may be the late one
	{
		docs := genDocs(rng, []*Schema{{Key: "a", Tag: 0x12, Gen: int64Gen(rng)}}, 6)
		good := collect("batch", 2, nil, docs)
		tds := topDocs(good)
		for k := 0; k+1 < len(tds); k++ {
			m := append([]byte{}, good[:tds[k].off]...)
			m = append(m, rebuildChunk(int32(k), 1, []byte{5, 0, 0, 0, 0, 9, 0, 0, 0, 0, 0, 0, 0}, -1, nil)...)
			m = append(m, good[tds[k+1].off:tds[k+1].off+tds[k+1].l/2]...)
			for _, rd := range readerNames {
				// both goroutines report into the chunk iterator's catcher: that is where "all retained" is
				// observable. The layered iterators copy the chunk iterator's error once, when it ends, so a later
				// report does not show through them (observed, see DESIGN §6); they must still fail.
				want := 1
				if rd == "chunks" {
					want = 2
				}
				for _, pt := range []string{"-", "catcher.Add", "ReadChunks.diagnostic.close", "ReadChunks.chunks.close", "readDiagnostic.send"} {
					for _, oc := range []int{1, 2} {
						lines = append(lines, fmt.Sprintf("sched-err %s %s %d %d 0 %s | %s | errors>=%d", rd, pt, oc, sleep, hx(m), inflateTable(m), want))
					}
				}
			}
		}
	}
	// errors reported concurrently by several goroutines are all retained
	for i := 0; i < 4; i++ {
		lines = append(lines, fmt.Sprintf("catcher %d %d", 4+rng.Intn(12), 500+rng.Intn(3000)))
	}
	sort.SliceStable(lines, func(i, j int) bool { return false })
	runIsolated(o, lines, 30*time.Second)
}

func streamSchedClose(o *Out, rng *rand.Rand, thorough bool, _ []string) {
	mk := func(ndocs, chunk int) []byte {
		docs := genDocs(rng, []*Schema{{Key: "a", Tag: 0x12, Gen: int64Gen(rng)}}, ndocs)
		return collect("batch", chunk, nil, docs)
	}
	shapes := [][]byte{
		mk(3, 3),     // a single tiny chunk
		mk(250, 250), // one chunk larger than the 100-slot document buffers
		mk(60, 1),    // 60 chunks: more than the 25-slot matrix buffer and the 2-slot chunk pipe
		mk(8, 2),
	}
	{
		// a metadata document in front of every chunk (concatenated files, SetMetadata between flushes): the reader
		// goroutine is regularly holding a metadata document when the consumer stops
		var st []byte
		for c := 0; c < 12; c++ {
			docs := genDocs(rng, []*Schema{{Key: "a", Tag: 0x12, Gen: int64Gen(rng)}}, 1)
			st = append(st, collect("base", 1, docBytes([]*Node{i64n("gen", int64(c))}), docs)...)
		}
		shapes = append(shapes, st)
	}
	docTotals := []int{3, 250, 60, 8, 12}
	firstChunk := []int{3, 250, 1, 2, 1}
	chunkTotals := []int{0, 0, 0, 0, 0}
	// damaged streams: a chunk that fails to decode with more documents behind it; iteration ends early, with
	// the reading goroutine still holding the next document (Close after exhaustion has something to release)
	for _, c := range [][3]int{{8, 2, 0}, {8, 2, 1}, {40, 2, 3}, {40, 2, 18}} {
		good := mk(c[0], c[1])
		tds := topDocs(good)
		td := tds[c[2]]
		m := append([]byte{}, good[:td.off]...)
		m = append(m, rebuildChunk(int32(c[2]), 1, []byte{5, 0, 0, 0, 0, 9, 0, 0, 0, 0, 0, 0, 0}, -1, nil)...)
		m = append(m, good[td.off+td.l:]...)
		shapes = append(shapes, m)
		docTotals = append(docTotals, c[1]*c[2]+1)
		fc := c[1]
		if c[2] == 0 {
			fc = 0
		}
		firstChunk = append(firstChunk, fc)
		chunkTotals = append(chunkTotals, c[2]+1)
	}
	var lines []string
	for si, st := range shapes {
		for _, rd := range closeReaderNames {
			nchunks := 0
			for _, td := range topDocs(st) {
				if td.payload != nil {
					nchunks++
				}
			}
			total := map[string]int{"chunks": nchunks, "matrix": nchunks, "series": nchunks}[rd]
			if si >= 5 {
				total = map[string]int{"chunks": chunkTotals[si], "matrix": chunkTotals[si], "series": chunkTotals[si]}[rd] // one step past the damaged chunk
			}
			if total == 0 {
				total = docTotals[si]
			}
			if rd == "citer" || rd == "csiter" {
				total = firstChunk[si] // samples of the first chunk
			}
			ks := []int{0, 1, 2, total / 2, total - 1, total, total + 1}
			if thorough {
				ks = nil
				for k := 0; k <= total+1; k++ {
					ks = append(ks, k)
				}
			}
			seen := map[int]bool{}
			for _, k := range ks {
				if k < 0 || seen[k] {
					continue
				}
				seen[k] = true
				for _, act := range []string{"close", "cancel", "close2", "closecancel"} {
					if !thorough && act != "close" && act != "cancel" && k%2 == 1 {
						continue
					}
					lines = append(lines, fmt.Sprintf("sched-close %s %s %d 0 %s", rd, act, k, hx(st)))
				}
			}
		}
	}
	np := 100
	if thorough {
		np = 3000
	}
	for i := 0; i < np; i++ {
		st := shapes[rng.Intn(len(shapes))]
		lines = append(lines, fmt.Sprintf("sched-close %s %s %d %d %s", closeReaderNames[rng.Intn(len(closeReaderNames))],
			[]string{"close", "cancel"}[rng.Intn(2)], rng.Intn(70), 1+rng.Int63n(1<<30), hx(st)))
	}
	runIsolated(o, lines, 30*time.Second)
}
