import FtdcVerif.Model.Views
import FtdcVerif.Lemmas.Csv
/-!
# C02 — all reader views agree and name every metric by its full path

`leafPaths` is the specification, written from the property text: the path of a metric leaf is
the list of every enclosing field name and array index (plus `inc` for the second word of a
timestamp).  `keys_are_full_paths` shows, for every document tree, that the keys the decoder
assigns (`metricForDocument`, which threads a parent path and a possibly compound key name)
are exactly the dot-joined specification paths, in document order.
-/
namespace Ftdc.Props.C02
open Ftdc

def incSeg : Bytes := [105, 110, 99]   -- "inc"

mutual
def leafPathsVal (segs : List Bytes) : BVal → List (List Bytes)
  | .doc d => leafPathsElems segs d
  | .arr d => leafPathsArr segs 0 d
  | .timestamp _ _ => [segs, segs ++ [incSeg]]
  | .other _ _ => []
  | .double _ => [segs]
  | .bool _ => [segs]
  | .datetime _ => [segs]
  | .int32 _ => [segs]
  | .int64 _ => [segs]
def leafPathsElems (segs : List Bytes) : BDoc → List (List Bytes)
  | .nil => []
  | .cons k v r => leafPathsVal (segs ++ [k]) v ++ leafPathsElems segs r
def leafPathsArr (segs : List Bytes) (idx : Nat) : BDoc → List (List Bytes)
  | .nil => []
  | .cons _ v r => leafPathsVal (segs ++ [decimal idx]) v ++ leafPathsArr segs (idx + 1) r
end

/-- the specification: full paths of the metric leaves of a document, in document order -/
def leafPaths (d : BDoc) : List (List Bytes) := leafPathsElems [] d

theorem joinDot_snoc (l : List Bytes) (k : Bytes) (h : l ≠ []) :
    joinDot (l ++ [k]) = joinDot l ++ [dot] ++ k := by
  induction l with
  | nil => exact absurd rfl h
  | cons a r ih =>
    cases r with
    | nil => simp [joinDot]
    | cons b r' =>
      have := ih (by simp)
      simp only [List.cons_append] at this ⊢
      simp only [joinDot, this]
      simp

/-- how the decoder's (parent path, key name) pair relates to the specification's segments -/
def Rel (path : List Bytes) (key : Bytes) (segs : List Bytes) : Prop :=
  segs ≠ [] ∧ joinDot (path ++ [key]) = joinDot segs

mutual
theorem keysVal : (v : BVal) → ∀ (key : Bytes) (path segs : List Bytes), Rel path key segs →
    (metricsVal key path v).map Metric.key = (leafPathsVal segs v).map joinDot
  | .double _, key, path, segs, h => by simp [metricsVal, leafPathsVal, Metric.key, h.2]
  | .bool _, key, path, segs, h => by simp [metricsVal, leafPathsVal, Metric.key, h.2]
  | .datetime _, key, path, segs, h => by simp [metricsVal, leafPathsVal, Metric.key, h.2]
  | .int32 _, key, path, segs, h => by simp [metricsVal, leafPathsVal, Metric.key, h.2]
  | .int64 _, key, path, segs, h => by simp [metricsVal, leafPathsVal, Metric.key, h.2]
  | .other _ _, key, path, segs, _ => by simp [metricsVal, leafPathsVal]
  | .timestamp _ _, key, path, segs, h => by
    have e : joinDot (path ++ [key ++ incSuffix]) = joinDot (segs ++ [incSeg]) := by
      rw [joinDot_snoc segs incSeg h.1, ← h.2]
      cases path with
      | nil => simp [joinDot, incSuffix, incSeg, dot]
      | cons a r =>
        rw [joinDot_snoc (a :: r) _ (by simp), joinDot_snoc (a :: r) _ (by simp)]
        simp [incSuffix, incSeg, dot]
    simp [metricsVal, leafPathsVal, Metric.key, h.2, e]
  | .doc d, key, path, segs, h => by
    simp only [metricsVal, leafPathsVal]
    exact keysElems d (path ++ [key]) segs (Or.inr ⟨by simp, h.1, h.2⟩)
  | .arr d, key, path, segs, h => by
    simp only [metricsVal, leafPathsVal]
    exact keysArr d key path segs 0 h
theorem keysElems : (d : BDoc) → ∀ (path segs : List Bytes),
    ((path = [] ∧ segs = []) ∨ (path ≠ [] ∧ segs ≠ [] ∧ joinDot path = joinDot segs)) →
    (metricsElems path d).map Metric.key = (leafPathsElems segs d).map joinDot
  | .nil, _, _, _ => by simp [metricsElems, leafPathsElems]
  | .cons k v r, path, segs, h => by
    have hrel : Rel path k (segs ++ [k]) := by
      refine ⟨by simp, ?_⟩
      rcases h with ⟨rfl, rfl⟩ | ⟨hp, hs, he⟩
      · rfl
      · rw [joinDot_snoc path k hp, joinDot_snoc segs k hs, he]
    simp only [metricsElems, leafPathsElems, List.map_append]
    rw [keysVal v k path (segs ++ [k]) hrel, keysElems r path segs h]
theorem keysArr : (d : BDoc) → ∀ (key : Bytes) (path segs : List Bytes) (idx : Nat), Rel path key segs →
    (metricsArr key path idx d).map Metric.key = (leafPathsArr segs idx d).map joinDot
  | .nil, _, _, _, _, _ => by simp [metricsArr, leafPathsArr]
  | .cons _ v r, key, path, segs, idx, h => by
    have hrel : Rel path (key ++ [dot] ++ decimal idx) (segs ++ [decimal idx]) := by
      refine ⟨by simp, ?_⟩
      rw [joinDot_snoc segs _ h.1, ← h.2]
      cases path with
      | nil => simp [joinDot]
      | cons a p =>
        rw [joinDot_snoc (a :: p) _ (by simp), joinDot_snoc (a :: p) _ (by simp)]
        simp
    simp only [metricsArr, leafPathsArr, List.map_append]
    rw [keysVal v _ path _ hrel, keysArr r key path segs (idx + 1) h]
end

/-- **Every metric key is the dot-joined path of every enclosing field name and array index**,
in document order, for every reference document. -/
theorem keys_are_full_paths (d : BDoc) :
    (metricsOf d).map Metric.key = (leafPaths d).map joinDot :=
  keysElems d [] [] (Or.inl ⟨rfl, rfl⟩)

/-! ### distinct leaves never share a key

Hypothesis `KeysOk`: field names contain no `.` and the field names of one (sub-)document are
pairwise distinct (array members are named by their position, whatever their stored key). -/

def DotFree (k : Bytes) : Prop := ∀ b ∈ k, b ≠ dot

def docKeys : BDoc → List Bytes
  | .nil => []
  | .cons k _ r => k :: docKeys r

mutual
def KeysOkVal : BVal → Prop
  | .doc d => KeysOk d
  | .arr d => KeysOkArr d
  | _ => True
def KeysOk : BDoc → Prop
  | .nil => True
  | .cons k v r => DotFree k ∧ k ∉ docKeys r ∧ KeysOkVal v ∧ KeysOk r
def KeysOkArr : BDoc → Prop
  | .nil => True
  | .cons _ v r => KeysOkVal v ∧ KeysOkArr r
end

theorem decimal_dotFree (n : Nat) : DotFree (decimal n) := by
  intro b hb
  have := (parse_decimal n).2.2 b hb
  unfold IsDigit at this
  simp [dot]; omega

theorem decimal_inj {i j : Nat} (h : decimal i = decimal j) : i = j := by
  have h1 := (parse_decimal i).1
  have h2 := (parse_decimal j).1
  rw [h, h2] at h1
  exact (Option.some.inj h1).symm

/-- splitting at the first dot is unique -/
theorem dot_split_inj : ∀ (a b x y : Bytes), DotFree a → DotFree b → a ++ dot :: x = b ++ dot :: y → a = b ∧ x = y
  | [], [], x, y, _, _, h => by simpa using h
  | [], c :: b, x, y, _, hb, h => by
    simp only [List.nil_append, List.cons_append, List.cons.injEq] at h
    exact absurd h.1.symm (hb c (List.mem_cons_self ..))
  | c :: a, [], x, y, ha, _, h => by
    simp only [List.nil_append, List.cons_append, List.cons.injEq] at h
    exact absurd h.1 (ha c (List.mem_cons_self ..))
  | c :: a, e :: b, x, y, ha, hb, h => by
    simp only [List.cons_append, List.cons.injEq] at h
    obtain ⟨r1, r2⟩ := dot_split_inj a b x y (fun z hz => ha z (List.mem_cons_of_mem _ hz))
      (fun z hz => hb z (List.mem_cons_of_mem _ hz)) h.2
    exact ⟨by rw [h.1, r1], r2⟩

theorem joinDot_cons2 (a b : Bytes) (r : List Bytes) : joinDot (a :: b :: r) = a ++ dot :: joinDot (b :: r) := by
  simp [joinDot]

/-- **dot-joining is injective on non-empty lists of dot-free segments** -/
theorem joinDot_inj : ∀ (l1 l2 : List Bytes), l1 ≠ [] → l2 ≠ [] → (∀ s ∈ l1, DotFree s) → (∀ s ∈ l2, DotFree s) →
    joinDot l1 = joinDot l2 → l1 = l2
  | [], _, h, _, _, _, _ => absurd rfl h
  | _, [], _, h, _, _, _ => absurd rfl h
  | [a], [b], _, _, _, _, e => by simpa [joinDot] using e
  | [a], b :: c :: r, _, _, h1, _, e => by
    rw [joinDot_cons2] at e
    simp only [joinDot] at e
    have : dot ∈ a := by rw [e]; simp
    exact absurd rfl (h1 a (List.mem_cons_self ..) dot this)
  | a :: c :: r, [b], _, _, _, h2, e => by
    rw [joinDot_cons2] at e
    simp only [joinDot] at e
    have : dot ∈ b := by rw [← e]; simp
    exact absurd rfl (h2 b (List.mem_cons_self ..) dot this)
  | a :: c :: r, b :: e' :: r', _, _, h1, h2, e => by
    rw [joinDot_cons2, joinDot_cons2] at e
    obtain ⟨r1, r2⟩ := dot_split_inj a b _ _ (h1 a (List.mem_cons_self ..)) (h2 b (List.mem_cons_self ..)) e
    have := joinDot_inj (c :: r) (e' :: r') (by simp) (by simp)
      (fun s hs => h1 s (List.mem_cons_of_mem _ hs)) (fun s hs => h2 s (List.mem_cons_of_mem _ hs)) r2
    rw [r1, this]

mutual
theorem pathsVal_pre : (v : BVal) → ∀ (segs p : List Bytes), p ∈ leafPathsVal segs v → ∃ t, p = segs ++ t
  | .doc d, segs, p, h => by
    obtain ⟨k, t, _, e⟩ := pathsElems_pre d segs p (by simpa [leafPathsVal] using h)
    exact ⟨k :: t, e⟩
  | .arr d, segs, p, h => by
    obtain ⟨j, t, _, e⟩ := pathsArr_pre d segs 0 p (by simpa [leafPathsVal] using h)
    exact ⟨decimal j :: t, e⟩
  | .timestamp _ _, segs, p, h => by
    simp only [leafPathsVal, List.mem_cons, List.not_mem_nil, or_false] at h
    rcases h with rfl | rfl
    · exact ⟨[], by simp⟩
    · exact ⟨[incSeg], rfl⟩
  | .other _ _, segs, p, h => by simp [leafPathsVal] at h
  | .double _, segs, p, h => by simp [leafPathsVal] at h; exact ⟨[], by simp [h]⟩
  | .bool _, segs, p, h => by simp [leafPathsVal] at h; exact ⟨[], by simp [h]⟩
  | .datetime _, segs, p, h => by simp [leafPathsVal] at h; exact ⟨[], by simp [h]⟩
  | .int32 _, segs, p, h => by simp [leafPathsVal] at h; exact ⟨[], by simp [h]⟩
  | .int64 _, segs, p, h => by simp [leafPathsVal] at h; exact ⟨[], by simp [h]⟩
theorem pathsElems_pre : (d : BDoc) → ∀ (segs p : List Bytes), p ∈ leafPathsElems segs d →
    ∃ k t, k ∈ docKeys d ∧ p = segs ++ k :: t
  | .nil, _, _, h => by simp [leafPathsElems] at h
  | .cons k v r, segs, p, h => by
    simp only [leafPathsElems, List.mem_append] at h
    rcases h with h | h
    · obtain ⟨t, e⟩ := pathsVal_pre v (segs ++ [k]) p h
      exact ⟨k, t, by simp [docKeys], by simp [e]⟩
    · obtain ⟨k', t, hk, e⟩ := pathsElems_pre r segs p h
      exact ⟨k', t, by simp [docKeys, hk], e⟩
theorem pathsArr_pre : (d : BDoc) → ∀ (segs : List Bytes) (idx : Nat) (p : List Bytes), p ∈ leafPathsArr segs idx d →
    ∃ j t, idx ≤ j ∧ p = segs ++ decimal j :: t
  | .nil, _, _, _, h => by simp [leafPathsArr] at h
  | .cons _ v r, segs, idx, p, h => by
    simp only [leafPathsArr, List.mem_append] at h
    rcases h with h | h
    · obtain ⟨t, e⟩ := pathsVal_pre v (segs ++ [decimal idx]) p h
      exact ⟨idx, t, Nat.le_refl _, by simp [e]⟩
    · obtain ⟨j, t, hj, e⟩ := pathsArr_pre r segs (idx + 1) p h
      exact ⟨j, t, by omega, e⟩
end

theorem append_cons_inj {segs : List Bytes} {a b : Bytes} {s t : List Bytes}
    (h : segs ++ a :: s = segs ++ b :: t) : a = b := by
  have := List.append_cancel_left h
  simpa using (List.cons.inj this).1

mutual
theorem nodupVal : (v : BVal) → KeysOkVal v → ∀ segs, (leafPathsVal segs v).Nodup
  | .doc d, h, segs => by simpa [leafPathsVal] using nodupElems d h segs
  | .arr d, h, segs => by simpa [leafPathsVal] using nodupArr d h segs 0
  | .timestamp _ _, _, segs => by
    simp only [leafPathsVal, List.nodup_cons, List.mem_cons, List.not_mem_nil, or_false, not_false_eq_true,
      List.nodup_nil, and_true]
    intro e
    have := congrArg List.length e
    simp at this
  | .other _ _, _, _ => by simp [leafPathsVal]
  | .double _, _, _ => by simp [leafPathsVal]
  | .bool _, _, _ => by simp [leafPathsVal]
  | .datetime _, _, _ => by simp [leafPathsVal]
  | .int32 _, _, _ => by simp [leafPathsVal]
  | .int64 _, _, _ => by simp [leafPathsVal]
theorem nodupElems : (d : BDoc) → KeysOk d → ∀ segs, (leafPathsElems segs d).Nodup
  | .nil, _, _ => by simp [leafPathsElems]
  | .cons k v r, h, segs => by
    obtain ⟨_, hk, hv, hr⟩ := h
    simp only [leafPathsElems]
    rw [List.nodup_append]
    refine ⟨nodupVal v hv _, nodupElems r hr _, ?_⟩
    intro a ha b hb e
    obtain ⟨t, e1⟩ := pathsVal_pre v (segs ++ [k]) a ha
    obtain ⟨k', t', hk', e2⟩ := pathsElems_pre r segs b hb
    rw [e1, e2, List.append_assoc] at e
    have : k = k' := append_cons_inj (segs := segs) (s := t) (t := t') (by simpa using e)
    exact hk (this ▸ hk')
theorem nodupArr : (d : BDoc) → KeysOkArr d → ∀ segs idx, (leafPathsArr segs idx d).Nodup
  | .nil, _, _, _ => by simp [leafPathsArr]
  | .cons _ v r, h, segs, idx => by
    obtain ⟨hv, hr⟩ := h
    simp only [leafPathsArr]
    rw [List.nodup_append]
    refine ⟨nodupVal v hv _, nodupArr r hr _ _, ?_⟩
    intro a ha b hb e
    obtain ⟨t, e1⟩ := pathsVal_pre v (segs ++ [decimal idx]) a ha
    obtain ⟨j, t', hj, e2⟩ := pathsArr_pre r segs (idx + 1) b hb
    rw [e1, e2, List.append_assoc] at e
    have : decimal idx = decimal j := append_cons_inj (segs := segs) (s := t) (t := t') (by simpa using e)
    have := decimal_inj this
    omega
end

mutual
theorem segsVal : (v : BVal) → KeysOkVal v → ∀ (segs p : List Bytes), (∀ s ∈ segs, DotFree s) →
    p ∈ leafPathsVal segs v → ∀ s ∈ p, DotFree s
  | .doc d, h, segs, p, hs, hp => segsElems d h segs p hs (by simpa [leafPathsVal] using hp)
  | .arr d, h, segs, p, hs, hp => segsArr d h segs 0 p hs (by simpa [leafPathsVal] using hp)
  | .timestamp _ _, _, segs, p, hs, hp => by
    simp only [leafPathsVal, List.mem_cons, List.not_mem_nil, or_false] at hp
    rcases hp with rfl | rfl
    · exact hs
    · intro s hs'
      simp only [List.mem_append, List.mem_cons, List.not_mem_nil, or_false] at hs'
      rcases hs' with h | rfl
      · exact hs s h
      · intro b hb; simp [incSeg] at hb; rcases hb with rfl | rfl | rfl <;> simp [dot]
  | .other _ _, _, _, _, _, hp => by simp [leafPathsVal] at hp
  | .double _, _, segs, p, hs, hp => by simp [leafPathsVal] at hp; rw [hp]; exact hs
  | .bool _, _, segs, p, hs, hp => by simp [leafPathsVal] at hp; rw [hp]; exact hs
  | .datetime _, _, segs, p, hs, hp => by simp [leafPathsVal] at hp; rw [hp]; exact hs
  | .int32 _, _, segs, p, hs, hp => by simp [leafPathsVal] at hp; rw [hp]; exact hs
  | .int64 _, _, segs, p, hs, hp => by simp [leafPathsVal] at hp; rw [hp]; exact hs
theorem segsElems : (d : BDoc) → KeysOk d → ∀ (segs p : List Bytes), (∀ s ∈ segs, DotFree s) →
    p ∈ leafPathsElems segs d → ∀ s ∈ p, DotFree s
  | .nil, _, _, _, _, hp => by simp [leafPathsElems] at hp
  | .cons k v r, h, segs, p, hs, hp => by
    obtain ⟨hk, _, hv, hr⟩ := h
    simp only [leafPathsElems, List.mem_append] at hp
    rcases hp with hp | hp
    · exact segsVal v hv (segs ++ [k]) p (by
        intro s hs'
        simp only [List.mem_append, List.mem_cons, List.not_mem_nil, or_false] at hs'
        rcases hs' with h' | rfl
        · exact hs s h'
        · exact hk) hp
    · exact segsElems r hr segs p hs hp
theorem segsArr : (d : BDoc) → KeysOkArr d → ∀ (segs : List Bytes) (idx : Nat) (p : List Bytes),
    (∀ s ∈ segs, DotFree s) → p ∈ leafPathsArr segs idx d → ∀ s ∈ p, DotFree s
  | .nil, _, _, _, _, _, hp => by simp [leafPathsArr] at hp
  | .cons _ v r, h, segs, idx, p, hs, hp => by
    obtain ⟨hv, hr⟩ := h
    simp only [leafPathsArr, List.mem_append] at hp
    rcases hp with hp | hp
    · exact segsVal v hv (segs ++ [decimal idx]) p (by
        intro s hs'
        simp only [List.mem_append, List.mem_cons, List.not_mem_nil, or_false] at hs'
        rcases hs' with h' | rfl
        · exact hs s h'
        · exact decimal_dotFree idx) hp
    · exact segsArr r hr segs (idx + 1) p hs hp
end

/-- **Distinct leaves never share a key**: the keys of the series of a chunk are pairwise distinct,
for every reference document whose field names are dot-free and distinct within each document. -/
theorem keys_are_distinct (d : BDoc) (h : KeysOk d) : ((metricsOf d).map Metric.key).Nodup := by
  rw [keys_are_full_paths]
  have hn := nodupElems d h []
  unfold leafPaths
  unfold List.Nodup at hn ⊢
  rw [List.pairwise_map]
  apply List.Pairwise.imp_of_mem _ hn
  intro a b ha hb hab e
  obtain ⟨ka, ta, _, ea⟩ := pathsElems_pre d [] a ha
  obtain ⟨kb, tb, _, eb⟩ := pathsElems_pre d [] b hb
  exact hab (joinDot_inj a b (by rw [ea]; simp) (by rw [eb]; simp)
    (segsElems d h [] a (by simp) ha) (segsElems d h [] b (by simp) hb) e)

/-- one series per metric leaf: the number of decoded series is the number of extracted values -/
theorem one_series_per_leaf_doc : (d : BDoc) → ∀ path, (metricsElems path d).length = (extractDoc d).length := by
  intro d
  exact (BDoc.rec
    (motive_1 := fun v => ∀ key path, (metricsVal key path v).length = (extractVal v).length)
    (motive_2 := fun d => (∀ path, (metricsElems path d).length = (extractDoc d).length) ∧
                          (∀ key path idx, (metricsArr key path idx d).length = (extractDoc d).length))
    (by intro b key path; simp [metricsVal, extractVal])
    (by intro d ih key path; simpa [metricsVal, extractVal] using ih.1 _)
    (by intro d ih key path; simpa [metricsVal, extractVal] using ih.2 _ _ _)
    (by intro b key path; simp [metricsVal, extractVal])
    (by intro b key path; simp [metricsVal, extractVal])
    (by intro b key path; simp [metricsVal, extractVal])
    (by intro t i key path; simp [metricsVal, extractVal])
    (by intro b key path; simp [metricsVal, extractVal])
    (by intro t raw key path; simp [metricsVal, extractVal])
    (by constructor <;> intros <;> simp [metricsElems, metricsArr, extractDoc])
    (by
      intro k v r ihv ihr
      constructor
      · intro path; simp [metricsElems, extractDoc, ihv, ihr.1]
      · intro key path idx; simp [metricsArr, extractDoc, ihv, ihr.2])
    d).1

/-- the flattened view has the table's keys, in the table's order, for every sample -/
theorem flat_view_keys (c : Chunk) (i : Nat) (hi : i < c.nPoints) :
    ((c.flat.getD i .nil).toList.map (·.1)) = c.metrics.map Metric.key := by
  have : c.flat.getD i .nil = BDoc.ofList (c.metrics.map fun m => (m.key, flatVal m (m.values.getD i 0))) := by
    simp [Chunk.flat, List.getD_eq_getElem?_getD, hi]
  rw [this]
  generalize c.metrics = ms
  induction ms with
  | nil => rfl
  | cons m r ih => simp only [List.map_cons, BDoc.ofList, BDoc.toList, ih]

/-- all document views hold the same number of samples as the table -/
theorem views_sample_count (c : Chunk) :
    c.flat.length = c.nPoints ∧ c.structured.length = c.nPoints := by
  simp [Chunk.flat, Chunk.structured, Chunk.rows]

/-- the series view has one array per metric, in the table's order -/
theorem series_view_keys (c : Chunk) : (c.series.toList.map (·.1)) = c.metrics.map Metric.key := by
  unfold Chunk.series
  generalize c.metrics = ms
  induction ms with
  | nil => rfl
  | cons m r ih => simp [BDoc.ofList, BDoc.toList, ih]

/-! non-vacuity: the F2 witness `{a:{b:{c:1},d:{c:2}}}` gets the keys `a.b.c` and `a.d.c` -/
example : (metricsOf (.cons [97] (.doc (.cons [98] (.doc (.cons [99] (.int64 1#64) .nil))
      (.cons [100] (.doc (.cons [99] (.int64 2#64) .nil)) .nil))) .nil)).map Metric.key
    = [[97, 46, 98, 46, 99], [97, 46, 100, 46, 99]] := by decide

/-! non-vacuity of `keys_are_distinct`, and why its hypothesis is needed -/
example : KeysOk (.cons [97] (.doc (.cons [98] (.int64 1#64) .nil))
    (.cons [99] (.arr (.cons [48] (.int64 1#64) (.cons [49] (.timestamp 2#32 3#32) .nil))) .nil)) := by
  simp [KeysOk, KeysOkVal, KeysOkArr, DotFree, docKeys, dot]

/-- with a dot inside a field name two distinct leaves do share a key: `{"a.b": 1, a: {b: 2}}` -/
example : (metricsOf (.cons [97, 46, 98] (.int64 1#64)
    (.cons [97] (.doc (.cons [98] (.int64 2#64) .nil)) .nil))).map Metric.key = [[97, 46, 98], [97, 46, 98]] := by
  decide

end Ftdc.Props.C02
