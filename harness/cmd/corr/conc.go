package main

import (
	"bytes"
	"context"
	"errors"
	"fmt"
	"math/rand"
	"runtime"
	"sort"
	"strings"
	"sync"
	"sync/atomic"
	"time"

	"github.com/evergreen-ci/birch"
	"github.com/mongodb/ftdc"
	"github.com/mongodb/ftdc/util"
)

func init() {
	commands["conc-coll"] = cmdConcColl
	commands["catcher"] = cmdCatcher
	commands["catcher-api"] = cmdCatcherAPI
	streams["conc-coll"] = streamConcColl
}

// loggingCollector records the order in which the wrapped collector receives samples: the linearisation.
type loggingCollector struct {
	ftdc.Collector
	order [][2]int64
}

func (l *loggingCollector) Add(in interface{}) error {
	d, ok := in.(*birch.Document)
	if !ok {
		return errors.New("unexpected type")
	}
	g, _ := d.Lookup("g").Int64OK()
	i, _ := d.Lookup("i").Int64OK()
	if err := l.Collector.Add(in); err != nil {
		return err
	}
	l.order = append(l.order, [2]int64{g, i})
	return nil
}

// Resolve takes a little longer than it needs to: producers then queue up behind an observer's Resolve
func (l *loggingCollector) Resolve() ([]byte, error) {
	time.Sleep(100 * time.Microsecond)
	return l.Collector.Resolve()
}

// jitterCollector sits between the buffered collector and the synchronized one and yields or sleeps
// before delegating (outside the mutex): the buffered collector's worker is then regularly caught
// between taking a sample from its pipe and handing it on.
type jitterCollector struct {
	ftdc.Collector
	seed int64
	n    int64
	mu   sync.Mutex
}

func (j *jitterCollector) Add(in interface{}) error {
	j.mu.Lock()
	j.n++
	k := (j.n*2654435761 + j.seed) >> 3 & 7
	j.mu.Unlock()
	switch {
	case k < 2:
		runtime.Gosched()
	case k == 2:
		time.Sleep(30 * time.Microsecond)
	}
	return j.Collector.Add(in)
}

// conc-coll <wrapper> <G> <M> <buf> <gomaxprocs> <seed>    wrapper: sync | buffered
func cmdConcColl(o *Out, line string, f []string) {
	wrapper := f[0]
	G, M, buf, procs := int(atoi64(f[1])), int(atoi64(f[2])), int(atoi64(f[3])), int(atoi64(f[4]))
	old := runtime.GOMAXPROCS(procs)
	defer runtime.GOMAXPROCS(old)
	inner := &loggingCollector{Collector: ftdc.NewDynamicCollector(64)} // many small chunks make every observer Resolve expensive under the race detector
	if (atoi64(f[5])/3)%2 == 1 {
		// a collector that hands out the bytes it rendered itself (the dynamic collector copies chunk by chunk): what an
		// observer holds must stay what it was while others add and resolve
		inner = &loggingCollector{Collector: ftdc.NewBaseCollector(G*M + 16)}
		o.count("conc-coll-inner-base")
	}
	ctx, cancel := context.WithCancel(context.Background())
	defer cancel()
	var c ftdc.Collector = ftdc.NewSynchronizedCollector(inner)
	if wrapper == "buffered" {
		c = ftdc.NewBufferedCollector(ctx, buf, &jitterCollector{Collector: c, seed: atoi64(f[5])})
	}
	var wg sync.WaitGroup
	acked := make([][]int64, G)
	var ackMu sync.Mutex
	stopObs := make(chan struct{})
	var obsWg sync.WaitGroup
	var ackedCount int64 // Adds that have returned nil so far
	// what an observer's Resolve returned, with the number of Adds acknowledged before the call began
	type snap struct {
		before int64
		out    []byte
	}
	var snaps []snap
	var snapMu sync.Mutex
	seed := atoi64(f[5])
	if seed%3 != 2 {
		// concurrent observers (on the synchronized collector, or on the buffered collector over it)
		obsWg.Add(1)
		go func() {
			defer obsWg.Done()
			round := 0
			for {
				select {
				case <-stopObs:
					return
				default:
					_ = c.Info()
					// Resolve re-compresses everything collected so far: a bounded number of calls per case
					if round++; round%3 == 0 && round < 3*96 {
						_, _ = c.Resolve()
					}
					_ = c.SetMetadata(birch.NewDocument(birch.EC.Int64("m", 1)))
					if wrapper == "buffered" {
						time.Sleep(150 * time.Microsecond) // do not starve the single worker under the race detector
					} else {
						runtime.Gosched()
					}
				}
			}
		}()
	}
	if (seed/6)%2 == 1 {
		// two more goroutines that only set metadata, at the same time as each other and as everything else: the wrapper
		// serialises them like every other mutating call (the race detector sees it when it does not)
		for k := 0; k < 2; k++ {
			obsWg.Add(1)
			go func(k int) {
				defer obsWg.Done()
				for r := 0; r < 4000; r++ {
					select {
					case <-stopObs:
						return
					default:
					}
					_ = c.SetMetadata(birch.NewDocument(birch.EC.Int64("setter", int64(k)), birch.EC.Int64("round", int64(r))))
					if r%16 == 0 {
						runtime.Gosched()
					}
				}
			}(k)
		}
		o.count("conc-coll-metadata-setters")
	}
	{
		// a second observer that only reads (Info, Resolve): nothing it does invalidates anything the wrapper
		// may keep between calls; in a third of the cases it is the only observer
		if seed%3 != 1 {
			obsWg.Add(1)
			go func() {
				defer obsWg.Done()
				for k := 0; k < 400; k++ {
					select {
					case <-stopObs:
						return
					default:
					}
					before := atomic.LoadInt64(&ackedCount)
					out, err := c.Resolve()
					if err == nil {
						snapMu.Lock()
						if len(snaps) < 3 || k%37 == 0 {
							snaps = append(snaps, snap{before, out})
						} else {
							snaps[len(snaps)-1] = snap{before, out} // always keep the last one
						}
						snapMu.Unlock()
					}
					_ = c.Info()
					if wrapper == "buffered" {
						time.Sleep(150 * time.Microsecond)
					} else {
						runtime.Gosched()
					}
				}
			}()
		}
	}
	for g := 0; g < G; g++ {
		wg.Add(1)
		go func(g int) {
			defer wg.Done()
			for i := 0; i < M; i++ {
				d := birch.NewDocument(birch.EC.Int64("g", int64(g)), birch.EC.Int64("i", int64(i)))
				if err := c.Add(d); err == nil {
					atomic.AddInt64(&ackedCount, 1)
					ackMu.Lock()
					acked[g] = append(acked[g], int64(i))
					ackMu.Unlock()
				}
			}
		}(g)
	}
	wg.Wait()
	if wrapper == "buffered" && (seed/2)%2 == 1 {
		// the context is cancelled while the observers are still calling Resolve / Info / SetMetadata: a call in flight
		// at the cancellation neither blocks nor spoils what the collector returns afterwards
		cancel()
		time.Sleep(time.Millisecond)
		o.count("conc-coll-cancel-under-observers")
	}
	close(stopObs)
	obsWg.Wait()
	total := 0
	for g := range acked {
		total += len(acked[g])
	}
	delivered := true
	if wrapper == "buffered" {
		cancel()
		// everything accepted before the cancellation is delivered without further prompting
		deadline := time.Now().Add(3 * time.Second)
		for {
			n := c.(interface{ Info() ftdc.CollectorInfo }).Info().SampleCount
			if n >= total || time.Now().After(deadline) {
				delivered = n >= total
				break
			}
			time.Sleep(time.Millisecond)
		}
		time.Sleep(2 * time.Millisecond)
	}
	// the linearisation: every acknowledged Add exactly once, per-producer order kept
	per := make([][]int64, G)
	for _, e := range inner.order {
		if int(e[0]) < G {
			per[e[0]] = append(per[e[0]], e[1])
		}
	}
	okOrder := true
	for g := 0; g < G; g++ {
		if i64s(per[g]) != i64s(acked[g]) {
			okOrder = false
		}
	}
	// decoded output == model run on the linearisation
	out, rerr := inner.Collector.Resolve()
	decodedOK := rerr == nil || total == 0
	if rerr == nil {
		docs, derr := iterDocs(ftdc.ReadStructuredMetrics(context.Background(), bytes.NewReader(out)))
		if derr != nil || len(docs) != len(inner.order) {
			decodedOK = false
		} else {
			for k, d := range docs {
				kids, _ := parseDocStrict(unhx(d))
				lv := leavesOf(kids, nil, false, "")
				if len(lv) != 2 || lv[0].Val != inner.order[k][0] || lv[1].Val != inner.order[k][1] {
					decodedOK = false
				}
			}
		}
	}
	// the same through the wrapper: what Resolve on the wrapper returns now is what the wrapped collector holds
	wrapperOK := true
	if rerr == nil && delivered {
		wout, werr := c.Resolve()
		if werr != nil {
			wrapperOK = false
		} else {
			a, _ := iterDocs(ftdc.ReadStructuredMetrics(context.Background(), bytes.NewReader(wout)))
			b, _ := iterDocs(ftdc.ReadStructuredMetrics(context.Background(), bytes.NewReader(out)))
			wrapperOK = strings.Join(a, ",") == strings.Join(b, ",")
		}
	}
	// real-time order (synchronized collector): a Resolve contains every Add acknowledged before it was called
	staleOK := true
	if wrapper == "sync" {
		for _, sn := range snaps {
			docs, derr := iterDocs(ftdc.ReadStructuredMetrics(context.Background(), bytes.NewReader(sn.out)))
			if derr != nil || int64(len(docs)) < sn.before {
				staleOK = false
			}
		}
	}
	o.emit(line, fmt.Sprintf("acked=%d once-in-order=%v decoded=%v delivered=%v", total, okOrder, decodedOK && wrapperOK && staleOK, delivered))
	if !wrapperOK {
		o.violation(line, "Resolve on the wrapper differs from what the wrapped collector holds after all producers have finished", nil)
	}
	if !staleOK {
		o.violation(line, "a Resolve on the synchronized collector misses samples whose Add had returned nil before the Resolve was called", nil)
	}
	o.nontrivial(line)
	o.count("conc-" + wrapper)
	if total != G*M {
		o.violation(line, "an Add on a live collector was refused", map[string]int{"acked": total, "issued": G * M})
	}
	if !okOrder {
		o.violation(line, "acknowledged samples are not in the wrapped collector exactly once in each producer's order", nil)
	}
	if !decodedOK {
		o.violation(line, "decoded output differs from the order in which the wrapped collector received the samples", nil)
	}
	if !delivered {
		o.violation(line, "the buffered collector did not deliver everything it accepted before cancellation", nil)
	}
}

// catcher <G> <M>: G goroutines add M errors each, concurrently with readers
func cmdCatcher(o *Out, line string, f []string) {
	G, M := int(atoi64(f[0])), int(atoi64(f[1]))
	c := util.NewCatcher()
	var wg sync.WaitGroup
	start := make(chan struct{})
	for g := 0; g < G; g++ {
		wg.Add(1)
		go func(g int) {
			defer wg.Done()
			<-start
			for i := 0; i < M; i++ {
				c.Add(fmt.Errorf("e-%d-%d", g, i))
				if i%16 == 0 {
					_ = c.HasErrors()
				}
			}
		}(g)
	}
	close(start)
	wg.Wait()
	errs := c.Errors()
	seen := map[string]int{}
	for _, e := range errs {
		seen[e.Error()]++
	}
	o.emit(line, fmt.Sprintf("retained=%d distinct=%d", len(errs), len(seen)))
	o.nontrivial(line)
	if len(errs) != G*M || len(seen) != G*M || c.Len() != G*M || c.Resolve() == nil {
		o.violation(line, "the catcher did not retain every error added concurrently", map[string]int{"added": G * M, "retained": len(errs), "distinct": len(seen)})
	}
}

// catcher-api <G> <M> <rounds>: in every round a FRESH catcher and G goroutines released together, each adding M errors
// through the whole adding API in rotation (Add, Extend with nils in the slice, Errorf, New, Wrap, Wrapf, the ...When
// variants, Check, CheckWhen).  Every non-nil error must be retained exactly once.
func cmdCatcherAPI(o *Out, line string, f []string) {
	G, M, R := int(atoi64(f[0])), int(atoi64(f[1])), int(atoi64(f[2]))
	total, distinct := 0, 0
	bad := false
	for r := 0; r < R; r++ {
		c := util.NewCatcher()
		var wg sync.WaitGroup
		start := make(chan struct{})
		for g := 0; g < G; g++ {
			wg.Add(1)
			go func(g int) {
				defer wg.Done()
				<-start
				for i := 0; i < M; i++ {
					e := fmt.Errorf("e-%d-%d-%d", r, g, i)
					switch (g + i) % 12 {
					case 0:
						c.Add(e)
					case 1:
						c.Extend([]error{nil, e, nil})
					case 2:
						c.Errorf("e-%d-%d-%d", r, g, i)
					case 3:
						c.New(e.Error())
					case 4:
						c.Wrap(e, "w")
					case 5:
						c.Wrapf(e, "w%d", i)
					case 6:
						c.AddWhen(true, e)
						c.AddWhen(false, errors.New("never"))
					case 7:
						c.ExtendWhen(true, []error{e})
						c.ExtendWhen(false, []error{errors.New("never")})
					case 8:
						c.ErrorfWhen(true, "e-%d-%d-%d", r, g, i)
					case 9:
						c.NewWhen(true, e.Error())
					case 10:
						c.Check(func() error { return e })
					default:
						c.CheckWhen(true, func() error { return e })
						c.Add(nil)
					}
				}
			}(g)
		}
		close(start)
		wg.Wait()
		errs := c.Errors()
		seen := map[string]bool{}
		for _, e := range errs {
			seen[e.Error()] = true
		}
		total += len(errs)
		distinct += len(seen)
		if (len(errs) != G*M || len(seen) != G*M || c.Len() != G*M || !c.HasErrors()) && !bad {
			bad = true
			o.violation(line, "the catcher did not retain every error added concurrently through its adding methods", map[string]int{"round": r, "added": G * M, "retained": len(errs), "distinct": len(seen)})
		}
	}
	o.emit(line, fmt.Sprintf("retained=%d distinct=%d", total, distinct))
	o.nontrivial(line)
	o.count("catcher-api")
}

func streamConcColl(o *Out, rng *rand.Rand, thorough bool, _ []string) {
	var lines []string
	n := 30
	if thorough {
		n = 400
	}
	for i := 0; i < n; i++ {
		w := []string{"sync", "buffered"}[rng.Intn(2)]
		G := 1 + rng.Intn(16)
		M := 1 + rng.Intn(60)
		if thorough && rng.Intn(5) == 0 {
			M = 200
		}
		lines = append(lines, fmt.Sprintf("conc-coll %s %d %d %d %d %d", w, G, M, rng.Intn(9), []int{1, 2, 16}[rng.Intn(3)], rng.Int63n(1<<30)))
	}
	for i := 0; i < 6; i++ {
		lines = append(lines, fmt.Sprintf("catcher %d %d", 2+rng.Intn(15), 100+rng.Intn(2000)))
	}
	nr := 2000
	if thorough {
		nr = 30000
	}
	for i := 0; i < 3; i++ {
		lines = append(lines, fmt.Sprintf("catcher-api %d %d %d", 4+rng.Intn(13), 1+rng.Intn(3), nr))
	}
	sort.SliceStable(lines, func(i, j int) bool { return false })
	_ = strings.Join
	runIsolated(o, lines, 120*time.Second)
}
