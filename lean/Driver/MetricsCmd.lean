import FtdcVerif.Model.Metrics
import Driver.CoreCmd
namespace Driver
open Ftdc Ftdc.Metrics

def jsonTok (t : String) : Option Line :=
  if t.startsWith "BAD" || t.startsWith "RDERR" then some .malformed   -- RDERR: the source fails here (never a clean end)
  else if t.startsWith "LONG" || t.startsWith "PADL" then some .tooLong
  else if t.startsWith "PADS" then
    -- PADS<n>:<hex>: the same document in a line of exactly n bytes that the scanner accepts
    match t.splitOn ":" with
    | [_, h] => ((hexDecode h).bind parseDoc).map .doc
    | _ => none
  else ((hexDecode t).bind parseDoc).map .doc

/-- `json <N> <flush ms> [files] | tokens` (`files`: the implementation writes a file per flush; what it delivered is the
files in order, which is what the model computes): the model is run without flush ticks (the harness only uses
streams whose decoded samples do not depend on them).  `NOEOL` (the text does not end with a
newline) is not a line: the scanner's contract is that an unterminated last line is a line. -/
def jsonCmd (ws : List String) : String :=
  match sections ws with
  | [ns :: _ :: _, toks] =>
    match ns.toNat?, (toks.filter (· != "NOEOL")).mapM jsonTok with
    | some n, some lines =>
      match collectJSON n (lines.map .line) with
      | none => "err"
      | some out =>
        let (chunks, ok) := decodeOut out
        let docs := joinSp ((chunks.map (·.structured)).flatten.map fun d => hexEncode (serDoc d))
        s!"ok docs={okStr ok}[{docs}]"
    | _, _ => "bad-op"
  | _ => "bad-op"

/-- a trace of `CollectRuntime` (ids per file) is valid iff some event sequence produces it -/
def runtimeTraceCmd (ws : List String) : String :=
  match sections ws with
  | _ :: files =>
    match files.mapM nats? with
    | none => "bad-op"
    | some fs =>
      let nonTrailing := fs.dropLast
      let events : List REvent := (fs.map fun f => List.replicate f.length REvent.collect ++ [REvent.flush]).flatten
      let produced := collectRuntime events
      let expected := fs.filter (· ≠ [])
      if nonTrailing.all (· ≠ []) ∧ produced == expected then "valid" else "invalid"
  | _ => "bad-op"

end Driver
