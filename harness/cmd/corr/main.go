// corr: correspondence harness. For one stream it writes
//
//	<out>/<stream>.cases   one case per line, input of the Lean driver
//	<out>/<stream>.impl    what the implementation (current /repo tree) observes, same format as the driver's output
//	<out>/<stream>.oracle  property violations found by the implementation-only oracle (one JSON object per line)
//	<out>/<stream>.stats   JSON: counts describing the generated distribution
package main

import (
	"bufio"
	"encoding/json"
	"flag"
	"fmt"
	"math/rand"
	"os"
	"path/filepath"
	"sort"
	"strconv"
	"strings"
)

type Out struct {
	mem                 *memOut // child mode: capture instead of writing files
	cases, impl, oracle *bufio.Writer
	files               []*os.File
	stats               map[string]int
	samples             []string
	seen                map[string]bool
	n                   int
	nOracle             int
}

func newOut(dir, stream string) *Out {
	o := &Out{stats: map[string]int{}, seen: map[string]bool{}}
	mk := func(ext string) *bufio.Writer {
		f, err := os.Create(filepath.Join(dir, stream+"."+ext))
		if err != nil {
			panic(err)
		}
		o.files = append(o.files, f)
		return bufio.NewWriterSize(f, 1<<20)
	}
	o.cases, o.impl, o.oracle = mk("cases"), mk("impl"), mk("oracle")
	return o
}

// emit one case: the line for the model and the implementation's observation.
func (o *Out) emit(caseLine, implLine string) {
	if o.mem != nil {
		o.mem.Impl = append(o.mem.Impl, [2]string{caseLine, implLine})
		return
	}
	fmt.Fprintln(o.cases, caseLine)
	fmt.Fprintln(o.impl, implLine)
	o.n++
	if len(o.samples) < 5 {
		c, i := caseLine, implLine
		if len(c) > 400 {
			c = c[:200] + " ... " + c[len(c)-150:]
		}
		if len(i) > 300 {
			i = i[:300] + " ..."
		}
		o.samples = append(o.samples, c+"  =>  "+i)
	}
}

// nontrivial marks a case as distinct and non-trivial (by the stream's own rule).
func (o *Out) nontrivial(key string) {
	if o.mem != nil {
		o.mem.Nontrivial = append(o.mem.Nontrivial, key)
		return
	}
	if !o.seen[key] {
		o.seen[key] = true
	}
}

func (o *Out) count(k string) {
	if o.mem != nil {
		o.mem.Counts = append(o.mem.Counts, k)
		return
	}
	o.stats[k]++
}

// violation: the property itself fails on the implementation for this case.
func (o *Out) violation(caseLine, what string, detail interface{}) {
	b, _ := json.Marshal(map[string]interface{}{"case": caseLine, "what": what, "detail": detail})
	if o.mem != nil {
		o.mem.Oracle = append(o.mem.Oracle, string(b))
		return
	}
	fmt.Fprintln(o.oracle, string(b))
	o.nOracle++
}

// known: the property fails on this case exactly as a listed known finding describes (the
// harness only classifies; bin/check consults known_findings.json, which is the authority).
func (o *Out) known(tag, caseLine, what string, detail interface{}) {
	b, _ := json.Marshal(map[string]interface{}{"case": caseLine, "what": what, "detail": detail, "known": tag})
	if o.mem != nil {
		o.mem.Oracle = append(o.mem.Oracle, string(b))
		o.mem.Counts = append(o.mem.Counts, "known-"+tag)
		return
	}
	fmt.Fprintln(o.oracle, string(b))
	o.nOracle++
	o.stats["known-"+tag]++
}

func (o *Out) close(dir, stream string) {
	o.cases.Flush()
	o.impl.Flush()
	o.oracle.Flush()
	for _, f := range o.files {
		f.Close()
	}
	keys := make([]string, 0, len(o.stats))
	for k := range o.stats {
		keys = append(keys, k)
	}
	sort.Strings(keys)
	st := map[string]interface{}{"cases": o.n, "distinct_nontrivial": len(o.seen), "oracle_violations": o.nOracle,
		"distribution": o.stats, "samples": o.samples}
	b, _ := json.MarshalIndent(st, "", " ")
	if err := os.WriteFile(filepath.Join(dir, stream+".stats"), b, 0o644); err != nil {
		panic(err)
	}
}

type streamFn func(o *Out, rng *rand.Rand, thorough bool, args []string)

var streams = map[string]streamFn{}

// A command runs ONE case line on the implementation: it emits the observation line (o.emit)
// and evaluates the property's implementation-only oracle (o.violation). Generators only
// build case lines and call run(); `corr replay <line>` calls the same function.
type cmdFn func(o *Out, line string, f []string)

var commands = map[string]cmdFn{}

func run(o *Out, line string) {
	f := strings.Fields(line)
	if len(f) == 0 {
		o.emit(line, "bad-op")
		return
	}
	fn, ok := commands[f[0]]
	if !ok {
		o.emit(line, "bad-op")
		return
	}
	fn(o, line, f[1:])
}

// sections splits fields at "|".
func sections(f []string) [][]string {
	out := [][]string{{}}
	for _, w := range f {
		if w == "|" {
			out = append(out, []string{})
		} else {
			out[len(out)-1] = append(out[len(out)-1], w)
		}
	}
	return out
}

func atoi64(s string) int64 {
	v, err := strconv.ParseInt(s, 10, 64)
	if err != nil {
		panic("bad integer in case line: " + s)
	}
	return v
}

func ints64(f []string) []int64 {
	out := make([]int64, len(f))
	for i, s := range f {
		out[i] = atoi64(s)
	}
	return out
}

func main() {
	seed := flag.Int64("seed", 1, "PRNG seed")
	tier := flag.String("tier", "quick", "quick|thorough")
	out := flag.String("out", ".", "output directory")
	flag.Parse()
	if flag.NArg() < 1 {
		fmt.Fprintln(os.Stderr, "usage: corr [-seed n] [-tier t] [-out dir] <stream> [args]")
		os.Exit(2)
	}
	stream := flag.Arg(0)
	if stream == "child" {
		childLoop()
		return
	}
	if stream == "replay" {
		o := newOut(*out, "replay")
		run(o, strings.Join(flag.Args()[1:], " "))
		o.close(*out, "replay")
		b, _ := os.ReadFile(filepath.Join(*out, "replay.impl"))
		fmt.Print(string(b))
		b, _ = os.ReadFile(filepath.Join(*out, "replay.oracle"))
		if len(b) > 0 {
			fmt.Print("oracle: ", string(b))
		}
		return
	}
	fn, ok := streams[stream]
	if !ok {
		fmt.Fprintln(os.Stderr, "unknown stream", stream)
		os.Exit(2)
	}
	o := newOut(*out, stream)
	rng := rand.New(rand.NewSource(*seed*1000003 + int64(len(stream))))
	fn(o, rng, *tier == "thorough", flag.Args()[1:])
	o.close(*out, stream)
}
