import FtdcVerif.Lemmas.Hdr
/-!
# Order statistics of the HDR histogram (C13)

The counts array is the multiplicity function of the recorded values under the index map; the
index map is monotone; the iterator walks the indices in increasing order; hence the value at
rank `r` is the representative of the `r`-th smallest recorded value.
-/
namespace Ftdc.Hdr

/-- capacity of the counts array, as a value bound: every `v < cap h` has an in-range index -/
def cap (h : Hist) : Nat := 2 ^ (h.halfMag + h.unitMag + h.bucketCount)

/-- the same configuration with the nominal maximum raised to the capacity -/
def capH (h : Hist) : Hist := { h with highest := cap h - 1 }

theorem capH_wf {h : Hist} (wf : WF h) : WF (capH h) :=
  { subCount_eq := wf.subCount_eq, halfCount_eq := wf.halfCount_eq, mask_eq := wf.mask_eq,
    countsLen_eq := wf.countsLen_eq, bucket_pos := wf.bucket_pos,
    covers := by
      show cap h - 1 < 2 ^ (h.halfMag + h.unitMag + h.bucketCount)
      have : 0 < 2 ^ (h.halfMag + h.unitMag + h.bucketCount) := Nat.two_pow_pos _
      unfold cap; omega
    bits := wf.bits, precision := wf.precision }

theorem highest_lt_cap {h : Hist} (wf : WF h) : h.highest < cap h := wf.covers

section
variable {h : Hist} (wf : WF h)
include wf

/-- the modulus of the configuration: `M = halfMag + 1 + unitMag` bits fit in bucket 0 -/
theorem bucket_eq' {v : Nat} (hv : v < cap h) :
    getBucketIndex h v = max (blen v) (h.halfMag + 1 + h.unitMag) - h.unitMag - (h.halfMag + 1) :=
  bucket_eq (h := capH h) (capH_wf wf) (show v ≤ cap h - 1 by omega)

theorem bucket_lt' {v : Nat} (hv : v < cap h) : getBucketIndex h v < h.bucketCount := by
  have := bucket_le (h := capH h) (capH_wf wf) (show v ≤ cap h - 1 by omega)
  exact this

theorem sub_lt' {v : Nat} (hv : v < cap h) :
    getSubBucketIdx h v (getBucketIndex h v) < 2 ^ (h.halfMag + 1) := by
  have := sub_lt (h := capH h) (capH_wf wf) (show v ≤ cap h - 1 by omega)
  rw [← wf.subCount_eq]; exact this

/-- in buckets above the first, the sub-bucket index lies in the upper half -/
theorem sub_ge' {v : Nat} (hv : v < cap h) (hb : 1 ≤ getBucketIndex h v) :
    2 ^ h.halfMag ≤ getSubBucketIdx h v (getBucketIndex h v) := by
  have hbe := bucket_eq' wf hv
  have hbl : blen v = getBucketIndex h v + h.unitMag + (h.halfMag + 1) := by
    by_cases hc : blen v ≤ h.halfMag + 1 + h.unitMag
    · rw [Nat.max_eq_right hc] at hbe; omega
    · rw [Nat.max_eq_left (by omega)] at hbe; omega
  have hv0 : v ≠ 0 := by intro h0; subst h0; simp [blen] at hbl
  have h1 := two_pow_blen_le v hv0
  rw [hbl] at h1
  unfold getSubBucketIdx
  rw [Nat.shiftRight_eq_div_pow, Nat.le_div_iff_mul_le (Nat.two_pow_pos _), ← Nat.pow_add]
  have e : getBucketIndex h v + h.unitMag + (h.halfMag + 1) - 1
      = h.halfMag + (getBucketIndex h v + h.unitMag) := by omega
  rw [e] at h1; exact h1

/-- the index as a natural number -/
def idx (h : Hist) (v : Nat) : Nat :=
  getBucketIndex h v * 2 ^ h.halfMag + getSubBucketIdx h v (getBucketIndex h v)

omit wf in
theorem blen_mono {a b : Nat} (hab : a ≤ b) : blen a ≤ blen b :=
  blen_le_of_lt (Nat.lt_of_le_of_lt hab (lt_two_pow_blen b))

/-- **the index map is monotone** -/
theorem idx_mono {v w : Nat} (hvw : v ≤ w) (hw : w < cap h) : idx h v ≤ idx h w := by
  have hv : v < cap h := Nat.lt_of_le_of_lt hvw hw
  have bv := bucket_eq' wf hv
  have bw := bucket_eq' wf hw
  have hbl := blen_mono hvw
  have hb : getBucketIndex h v ≤ getBucketIndex h w := by rw [bv, bw]; omega
  unfold idx
  rcases Nat.lt_or_ge (getBucketIndex h v) (getBucketIndex h w) with hlt | hge
  · have s1 := sub_lt' wf hv
    have s2 := sub_ge' wf hw (by omega)
    rw [Nat.pow_succ] at s1
    have : (getBucketIndex h v + 1) * 2 ^ h.halfMag ≤ getBucketIndex h w * 2 ^ h.halfMag :=
      Nat.mul_le_mul_right _ hlt
    rw [Nat.add_mul] at this
    omega
  · have e : getBucketIndex h v = getBucketIndex h w := by omega
    rw [e]
    apply Nat.add_le_add_left
    unfold getSubBucketIdx
    rw [Nat.shiftRight_eq_div_pow, Nat.shiftRight_eq_div_pow]
    exact Nat.div_le_div_right hvw


/-- valid (bucket, sub-bucket) pairs: the positions the iterator visits -/
def ValidPos (h : Hist) (b s : Nat) : Prop :=
  b < h.bucketCount ∧ s < 2 ^ (h.halfMag + 1) ∧ (1 ≤ b → 2 ^ h.halfMag ≤ s)

theorem validPos_of {v : Nat} (hv : v < cap h) :
    ValidPos h (getBucketIndex h v) (getSubBucketIdx h v (getBucketIndex h v)) :=
  ⟨bucket_lt' wf hv, sub_lt' wf hv, sub_ge' wf hv⟩

/-- every value in `[s·P, (s+1)·P)`, `P = 2^(b+unit)`, of a valid position lies below the capacity
and has exactly that position -/
theorem pos_of_range {b s x : Nat} (vp : ValidPos h b s)
    (lo : s * 2 ^ (b + h.unitMag) ≤ x) (hi : x < (s + 1) * 2 ^ (b + h.unitMag)) :
    x < cap h ∧ getBucketIndex h x = b ∧ getSubBucketIdx h x b = s := by
  obtain ⟨hb, hs, hge⟩ := vp
  have hp : 0 < 2 ^ (b + h.unitMag) := Nat.two_pow_pos _
  have epow : 2 ^ (h.halfMag + 1 + b + h.unitMag) = 2 ^ (h.halfMag + 1) * 2 ^ (b + h.unitMag) := by
    rw [← Nat.pow_add]; congr 1; omega
  have hlt : x < 2 ^ (h.halfMag + 1 + b + h.unitMag) := by
    rw [epow]
    exact Nat.lt_of_lt_of_le hi (Nat.mul_le_mul_right _ hs)
  have hcap : x < cap h :=
    Nat.lt_of_lt_of_le hlt (Nat.pow_le_pow_right (by omega) (by omega))
  refine ⟨hcap, ?_, ?_⟩
  · rw [bucket_eq' wf hcap]
    rcases Nat.eq_zero_or_pos b with h0 | hpos
    · subst h0
      have : blen x ≤ h.halfMag + 1 + h.unitMag := by
        apply blen_le_of_lt
        have e : h.halfMag + 1 + 0 + h.unitMag = h.halfMag + 1 + h.unitMag := by omega
        rw [e] at hlt; exact hlt
      rw [Nat.max_eq_right this]; omega
    · have hge' := hge hpos
      have : blen x = h.halfMag + 1 + b + h.unitMag := by
        apply blen_unique hlt
        right
        have e : h.halfMag + 1 + b + h.unitMag - 1 = h.halfMag + (b + h.unitMag) := by omega
        rw [e, Nat.pow_add]
        exact Nat.le_trans (Nat.mul_le_mul_right _ hge') lo
      rw [this, Nat.max_eq_left (by omega)]; omega
  · unfold getSubBucketIdx
    rw [Nat.shiftRight_eq_div_pow]
    apply Nat.le_antisymm
    · apply Nat.le_of_lt_succ
      rw [Nat.div_lt_iff_lt_mul hp]; exact hi
    · rw [Nat.le_div_iff_mul_le hp]; exact lo

omit wf in
theorem valueFromIndex_eq (b s : Nat) : valueFromIndex h b s = s * 2 ^ (b + h.unitMag) := by
  simp [valueFromIndex, Nat.shiftLeft_eq]

/-- the representative `s·2^(b+unit)` of a valid position has exactly that position -/
theorem repr_pos {b s : Nat} (vp : ValidPos h b s) :
    valueFromIndex h b s < cap h ∧ getBucketIndex h (valueFromIndex h b s) = b ∧
    getSubBucketIdx h (valueFromIndex h b s) b = s := by
  have hp : 0 < 2 ^ (b + h.unitMag) := Nat.two_pow_pos _
  apply pos_of_range wf vp
  · rw [valueFromIndex_eq]; exact Nat.le_refl _
  · rw [valueFromIndex_eq, Nat.add_mul]; omega

omit wf in
/-- a position is determined by its index -/
theorem pos_unique {b s b' s' : Nat} (v1 : ValidPos h b s) (v2 : ValidPos h b' s')
    (e : b * 2 ^ h.halfMag + s = b' * 2 ^ h.halfMag + s') : b = b' ∧ s = s' := by
  obtain ⟨_, hs, hge⟩ := v1
  obtain ⟨_, hs', hge'⟩ := v2
  rw [Nat.pow_succ] at hs hs'
  have hp : 0 < 2 ^ h.halfMag := Nat.two_pow_pos _
  generalize 2 ^ h.halfMag = H at *
  have key : ∀ {b s b' s' : Nat}, b < b' → s < H * 2 → (1 ≤ b' → H ≤ s') →
      b * H + s = b' * H + s' → False := by
    intro b s b' s' hlt hs hge' e
    have h1 : (b + 1) * H ≤ b' * H := Nat.mul_le_mul_right _ hlt
    rw [Nat.add_mul] at h1
    have := hge' (by omega)
    omega
  rcases Nat.lt_trichotomy b b' with hlt | heq | hgt
  · exact (key hlt hs hge' e).elim
  · subst heq; exact ⟨rfl, by omega⟩
  · exact (key hgt hs' hge e.symm).elim

/-- the highest equivalent value is a function of the position -/
def hiOf (h : Hist) (b s : Nat) : Nat :=
  valueFromIndex h b s + (1 <<< (h.unitMag + (if s ≥ h.subCount then b + 1 else b))) - 1

omit wf in
theorem highestEquiv_eq (v : Nat) :
    highestEquiv h v = hiOf h (getBucketIndex h v) (getSubBucketIdx h v (getBucketIndex h v)) := rfl

/-- values with the same index have the same representative -/
theorem highestEquiv_of_idx {v w : Nat} (hv : v < cap h) (hw : w < cap h) (e : idx h v = idx h w) :
    highestEquiv h v = highestEquiv h w := by
  obtain ⟨e1, e2⟩ := pos_unique (validPos_of wf hv) (validPos_of wf hw) e
  rw [highestEquiv_eq, highestEquiv_eq, e1] at *
  rw [← e1, e2]

/-- the representative of a valid position has the position's highest equivalent value -/
theorem highestEquiv_repr {b s : Nat} (vp : ValidPos h b s) :
    highestEquiv h (valueFromIndex h b s) = hiOf h b s := by
  obtain ⟨_, e1, e2⟩ := repr_pos wf vp
  rw [highestEquiv_eq, e1, e2]

omit wf in
theorem hiOf_eq {b s : Nat} (hs : s < h.subCount) :
    hiOf h b s = (s + 1) * 2 ^ (b + h.unitMag) - 1 := by
  unfold hiOf
  rw [if_neg (by omega), valueFromIndex_eq, Nat.shiftLeft_eq, Nat.one_mul, Nat.add_mul, Nat.one_mul,
    Nat.add_comm h.unitMag b]

/-- the highest equivalent value of a valid position has that position too -/
theorem hi_pos {b s : Nat} (vp : ValidPos h b s) :
    hiOf h b s < cap h ∧ getBucketIndex h (hiOf h b s) = b ∧ getSubBucketIdx h (hiOf h b s) b = s := by
  have hp : 0 < 2 ^ (b + h.unitMag) := Nat.two_pow_pos _
  have hs : s < h.subCount := by rw [wf.subCount_eq]; exact vp.2.1
  apply pos_of_range wf vp
  · rw [hiOf_eq hs, Nat.add_mul]; omega
  · rw [hiOf_eq hs]
    have : 0 < (s + 1) * 2 ^ (b + h.unitMag) := Nat.mul_pos (by omega) hp
    omega

theorem idx_highestEquiv {v : Nat} (hv : v < cap h) :
    highestEquiv h v < cap h ∧ idx h (highestEquiv h v) = idx h v := by
  obtain ⟨c, e1, e2⟩ := hi_pos wf (validPos_of wf hv)
  rw [← highestEquiv_eq] at c e1 e2
  refine ⟨c, ?_⟩
  unfold idx
  rw [e1, e2]

/-- **monotone representatives** -/
theorem highestEquiv_mono {v w : Nat} (hvw : v ≤ w) (hw : w < cap h) :
    highestEquiv h v ≤ highestEquiv h w := by
  have hv : v < cap h := Nat.lt_of_le_of_lt hvw hw
  rcases Nat.lt_or_ge (idx h v) (idx h w) with hlt | hge
  · -- otherwise `w` would lie inside `v`'s range and share its index
    have hvr := value_in_range (h := capH h) (capH_wf wf) (show w ≤ cap h - 1 by omega)
    have hw2 : w ≤ highestEquiv h w := hvr.2
    rcases Nat.lt_or_ge (highestEquiv h v) w with hh | hh
    · omega
    · exfalso
      -- w ≤ highestEquiv v : then idx w ≤ idx (highestEquiv v) = idx v
      obtain ⟨c, e⟩ := idx_highestEquiv wf hv
      have := idx_mono wf hh c
      omega
  · have := idx_mono wf hvw hw
    exact Nat.le_of_eq (highestEquiv_of_idx wf hv hw (by omega))

end
end Ftdc.Hdr
