// translate: a small Go -> Lean translator for the pure integer functions of the library.
//
// Every run rewrites lean/FtdcVerif/Gen/Code.lean from /repo's working tree; Lemmas/CodeTie.lean proves the
// generated definitions equal to the hand-written model's (so a change of the Go text is a change of a Lean
// definition the theorems are re-checked against).
//
// Semantics of the translation (the trusted part, DESIGN section 3):
//   - every Go integer type is Lean's `Int`.  32-BIT ARITHMETIC IS EXACT: `+ - * <<` on int32 operands and narrowing
//     conversions to int32 are wrapped in `Go.w32` (two's-complement reduction to 32 bits), so an int32 intermediate
//     that overflows (`int64(a << b)` with a, b int32) is visible in the translation.  64-bit arithmetic is ideal and
//     widening conversions are the identity.  This is exact as long as no intermediate value leaves its Go type, which is what the model's
//     preconditions (values below 2^62) guarantee; overflow behaviour is NOT what these definitions describe.
//   - `x >> k`, `x << k` are `x >>> k.toNat`, `x <<< k.toNat` (arithmetic shift), `|` and `&` are the
//     two's-complement operations on 64 bits (`Go.or`, `Go.and` in Gen/Prelude.lean), `/` and `%` truncate.
//   - local variables are single-assignment `let`s (re-assignment shadows); an `if` that assigns joins the
//     assigned variables in a tuple; an `if` whose body returns becomes `if … then … else rest`;
//     a `for init; cond; post { body }` loop becomes a recursive function over the variables it assigns with a
//     fuel argument (64: every translated loop shifts an int64 or counts its bits).
//   - slices are lists; `a[i]` is `Go.index a i` (0 outside the bounds, where Go panics), `a[i] = v` is `Go.set a i v`.
//   - a struct reached through a pointer parameter (or the receiver) and assigned through (`p.A.B = e`,
//     `h.counts[i] += n`) is threaded functionally: `let p := { p with A.B := e }`; the function returns its
//     explicit results followed by the pointer parameters it assigns, in declaration order.  A single `error`
//     result becomes `Option`: `return nil` is `some (…)`, any other return is `none` (state discarded: the
//     translated functions return errors before they assign anything).  `time.Time` and `time.Duration` are `Int`.
//
// Anything else (calls outside the translated set, break/continue, defer, goroutines, switch, range, …) is
// refused: the function is emitted as a comment and the tie theorem that mentions it no longer builds.
package main

import (
	"fmt"
	"go/ast"
	"go/token"
	"sort"
	"strings"
)

const loopFuel = 64

var leanKeywords = map[string]bool{"from": true, "end": true, "at": true, "fun": true, "open": true, "in": true, "do": true,
	"then": true, "else": true, "if": true, "let": true, "have": true, "show": true, "match": true, "with": true, "by": true,
	"def": true, "theorem": true, "namespace": true, "section": true, "variable": true, "max": true, "min": true, "Type": true,
	"where": true, "instance": true, "structure": true, "class": true, "mut": true, "for": true, "return": true}

func lname(s string) string {
	if leanKeywords[s] {
		return s + "_"
	}
	return s
}

var intTypes = map[string]bool{"int": true, "int8": true, "int16": true, "int32": true, "int64": true,
	"uint": true, "uint8": true, "uint16": true, "uint32": true, "uint64": true, "byte": true}

type unsupported struct{ msg string }

func bail(pos token.Pos, f string, a ...interface{}) {
	panic(unsupported{fmt.Sprintf(f, a...)})
}

type translator struct {
	structs map[string]*ast.StructType // translated struct types
	funcs   map[string]*ast.FuncDecl   // key: "Recv.name" or "name"
	out     []string                   // finished definitions, in dependency order
	done    map[string]bool
	failed  map[string]string

	// per function
	fn    string
	aux   []string
	nloop int
	named []string              // named results
	muts  []string              // pointer parameters the function assigns through, in declaration order
	isErr bool                  // the single result is `error`
	rbool []bool                // explicit results that are bool
	gty   map[string]string     // Go integer type of every local variable / parameter (int32 arithmetic wraps, see goType)
	brk   func(sc scope) string // what `break` yields inside the loop being translated (nil outside loops)
	cont  func(sc scope) string // what `continue` yields there: the post statement, then the next round
	fuel  bool                  // the function contains a loop whose condition is a method call: it takes a fuel argument
}

func leanType(e ast.Expr, structs map[string]*ast.StructType) string {
	switch t := e.(type) {
	case *ast.Ident:
		if intTypes[t.Name] {
			return "Int"
		}
		if t.Name == "bool" {
			return "Bool"
		}
		if _, ok := structs[t.Name]; ok {
			return t.Name
		}
	case *ast.SelectorExpr:
		if id, ok := t.X.(*ast.Ident); ok && id.Name == "time" && (t.Sel.Name == "Time" || t.Sel.Name == "Duration") {
			return "Int"
		}
	case *ast.StarExpr:
		return leanType(t.X, structs)
	case *ast.ArrayType:
		if t.Len == nil {
			if el := leanType(t.Elt, structs); el != "" {
				return "List " + el
			}
		}
	}
	return ""
}

func (t *translator) structDef(name string) string {
	st := t.structs[name]
	var b strings.Builder
	fmt.Fprintf(&b, "structure %s where\n", name)
	for _, f := range st.Fields.List {
		ty := leanType(f.Type, t.structs)
		if ty == "" {
			continue // non-numeric fields are not part of the translated state
		}
		for _, n := range f.Names {
			fmt.Fprintf(&b, "  %s : %s\n", lname(n.Name), ty)
		}
	}
	b.WriteString("  deriving Repr, DecidableEq\n")
	return b.String()
}

type scope map[string]string // variable -> Lean type

func (s scope) clone() scope {
	c := scope{}
	for k, v := range s {
		c[k] = v
	}
	return c
}

func (t *translator) key(recv, name string) string {
	if recv == "" {
		return name
	}
	return recv + "." + name
}

func (t *translator) defName(k string) string {
	// Histogram.getBucketIndex -> getBucketIndex (method names are unique in the translated set)
	n := k
	if i := strings.Index(k, "."); i >= 0 {
		n = k[i+1:]
	}
	if _, clash := t.structs[n]; clash {
		return "new_" + n // a function named like a translated struct (constructor methods)
	}
	return lname(n)
}

// expr translates an integer-valued expression
func (t *translator) expr(e ast.Expr, sc scope) string {
	switch x := e.(type) {
	case *ast.ParenExpr:
		return t.expr(x.X, sc)
	case *ast.BasicLit:
		if x.Kind == token.INT {
			return x.Value
		}
	case *ast.Ident:
		if _, ok := sc[x.Name]; ok {
			return lname(x.Name)
		}
		if x.Name == "true" || x.Name == "false" {
			return x.Name
		}
		bail(x.Pos(), "unknown identifier %s", x.Name)
	case *ast.SelectorExpr:
		base := t.expr(x.X, sc)
		return base + "." + lname(x.Sel.Name)
	case *ast.UnaryExpr:
		if x.Op == token.SUB {
			return "(-" + t.expr(x.X, sc) + ")"
		}
		if x.Op == token.ADD {
			return t.expr(x.X, sc)
		}
		if x.Op == token.AND {
			if cl, ok := x.X.(*ast.CompositeLit); ok {
				return t.expr(cl, sc) // &T{…}: the struct value (pointers to translated structs are the structs)
			}
		}
	case *ast.CompositeLit:
		id, ok := x.Type.(*ast.Ident)
		if !ok {
			bail(x.Pos(), "composite literal of an unnamed type")
		}
		st, ok := t.structs[id.Name]
		if !ok {
			bail(x.Pos(), "composite literal of a type that is not translated")
		}
		given := map[string]string{}
		for _, el := range x.Elts {
			kv, ok := el.(*ast.KeyValueExpr)
			if !ok {
				bail(x.Pos(), "positional composite literal")
			}
			given[kv.Key.(*ast.Ident).Name] = t.expr(kv.Value, sc)
		}
		var fs []string
		for _, f := range st.Fields.List {
			ty := leanType(f.Type, t.structs)
			if ty == "" {
				continue
			}
			for _, n := range f.Names {
				v, ok := given[n.Name]
				if !ok {
					switch ty {
					case "Int":
						v = "0"
					case "Bool":
						v = "false"
					default:
						bail(x.Pos(), "composite literal leaves the struct field %s unset", n.Name)
					}
				}
				fs = append(fs, lname(n.Name)+" := "+v)
			}
		}
		return "({ " + strings.Join(fs, ", ") + " } : " + id.Name + ")"
	case *ast.IndexExpr:
		return "(Go.index " + t.expr(x.X, sc) + " " + t.expr(x.Index, sc) + ")"
	case *ast.BinaryExpr:
		a, b := t.expr(x.X, sc), t.expr(x.Y, sc)
		w := func(s string) string {
			if is32(t.goType(x, sc)) {
				return "(Go.w32 " + s + ")" // 32-bit arithmetic wraps
			}
			return s
		}
		switch x.Op {
		case token.ADD:
			return w("(" + a + " + " + b + ")")
		case token.SUB:
			return w("(" + a + " - " + b + ")")
		case token.MUL:
			return w("(" + a + " * " + b + ")")
		case token.QUO:
			return "(Int.tdiv " + a + " " + b + ")"
		case token.REM:
			return "(Int.tmod " + a + " " + b + ")"
		case token.SHL:
			return w("(" + a + " <<< Int.toNat " + b + ")")
		case token.SHR:
			return "(" + a + " >>> Int.toNat " + b + ")"
		case token.OR:
			return "(Go.or " + a + " " + b + ")"
		case token.AND:
			return "(Go.and " + a + " " + b + ")"
		}
	case *ast.CallExpr:
		if id, ok := x.Fun.(*ast.Ident); ok {
			if intTypes[id.Name] && len(x.Args) == 1 {
				if is32(id.Name) && !is32(t.goType(x.Args[0], sc)) {
					if _, lit := x.Args[0].(*ast.BasicLit); !lit {
						return "(Go.w32 " + t.expr(x.Args[0], sc) + ")" // narrowing conversion
					}
				}
				return t.expr(x.Args[0], sc) // widening or same-width conversion: the value is kept
			}
			if id.Name == "make" && len(x.Args) == 2 {
				if leanType(x.Args[0], t.structs) == "List Int" {
					return "(List.replicate (Int.toNat " + t.expr(x.Args[1], sc) + ") (0 : Int))" // a zeroed slice
				}
			}
			if id.Name == "len" && len(x.Args) == 1 {
				return "(Int.ofNat (List.length " + t.expr(x.Args[0], sc) + "))"
			}
			if _, ok := t.funcs[id.Name]; ok {
				t.need(id.Name)
				args := []string{}
				for _, a := range x.Args {
					args = append(args, t.expr(a, sc))
				}
				return "(" + t.defName(id.Name) + " " + strings.Join(args, " ") + ")"
			}
			bail(x.Pos(), "call of %s, which is not in the translated set", id.Name)
		}
		if sel, ok := x.Fun.(*ast.SelectorExpr); ok {
			recv := t.expr(sel.X, sc)
			// the receiver's type decides the method
			rt := t.typeOf(sel.X, sc)
			k := t.key(rt, sel.Sel.Name)
			if _, ok := t.funcs[k]; ok {
				t.need(k)
				args := []string{recv}
				for _, a := range x.Args {
					args = append(args, t.expr(a, sc))
				}
				return "(" + t.defName(k) + " " + strings.Join(args, " ") + ")"
			}
			bail(x.Pos(), "call of method %s, which is not in the translated set", k)
		}
	}
	bail(e.Pos(), "unsupported expression %T", e)
	return ""
}

func (t *translator) typeOf(e ast.Expr, sc scope) string {
	switch x := e.(type) {
	case *ast.Ident:
		if x.Name == "true" || x.Name == "false" {
			return "Bool"
		}
		return sc[x.Name]
	case *ast.ParenExpr:
		return t.typeOf(x.X, sc)
	case *ast.SelectorExpr:
		bt := t.typeOf(x.X, sc)
		if st, ok := t.structs[bt]; ok {
			for _, f := range st.Fields.List {
				for _, n := range f.Names {
					if n.Name == x.Sel.Name {
						return leanType(f.Type, t.structs)
					}
				}
			}
		}
	}
	return "Int"
}

// goTypeName: the Go integer type an AST type expression names ("" if it is not one)
func goTypeName(e ast.Expr) string {
	switch t := e.(type) {
	case *ast.Ident:
		if intTypes[t.Name] {
			return t.Name
		}
	case *ast.SelectorExpr:
		if id, ok := t.X.(*ast.Ident); ok && id.Name == "time" && t.Sel.Name == "Duration" {
			return "int64"
		}
	}
	return ""
}

// goType: the Go integer type of an expression; "" for untyped constants and for what is not an integer.
// Only 32-bit arithmetic is translated with its wrap-around (Go.w32): an int32 intermediate result is where a
// realistic overflow hides (`int64(a << b)` with a, b int32); 64-bit arithmetic stays ideal under the models' preconditions.
func (t *translator) goType(e ast.Expr, sc scope) string {
	switch x := e.(type) {
	case *ast.ParenExpr:
		return t.goType(x.X, sc)
	case *ast.Ident:
		return t.gty[x.Name]
	case *ast.SelectorExpr:
		bt := t.typeOf(x.X, sc)
		if st, ok := t.structs[bt]; ok {
			for _, f := range st.Fields.List {
				for _, n := range f.Names {
					if n.Name == x.Sel.Name {
						return goTypeName(f.Type)
					}
				}
			}
		}
	case *ast.UnaryExpr:
		return t.goType(x.X, sc)
	case *ast.IndexExpr:
		if sel, ok := x.X.(*ast.SelectorExpr); ok {
			bt := t.typeOf(sel.X, sc)
			if st, ok := t.structs[bt]; ok {
				for _, f := range st.Fields.List {
					for _, n := range f.Names {
						if n.Name == sel.Sel.Name {
							if at, ok := f.Type.(*ast.ArrayType); ok {
								return goTypeName(at.Elt)
							}
						}
					}
				}
			}
		}
	case *ast.BinaryExpr:
		switch x.Op {
		case token.SHL, token.SHR:
			return t.goType(x.X, sc)
		case token.ADD, token.SUB, token.MUL, token.QUO, token.REM, token.OR, token.AND:
			if a := t.goType(x.X, sc); a != "" {
				return a
			}
			return t.goType(x.Y, sc)
		}
	case *ast.CallExpr:
		if id, ok := x.Fun.(*ast.Ident); ok {
			if intTypes[id.Name] {
				return id.Name
			}
			if id.Name == "len" {
				return "int"
			}
			if fd, ok := t.funcs[id.Name]; ok && fd.Type.Results != nil && len(fd.Type.Results.List) > 0 {
				return goTypeName(fd.Type.Results.List[0].Type)
			}
		}
		if sel, ok := x.Fun.(*ast.SelectorExpr); ok {
			k := t.key(t.typeOf(sel.X, sc), sel.Sel.Name)
			if fd, ok := t.funcs[k]; ok && fd.Type.Results != nil && len(fd.Type.Results.List) > 0 {
				return goTypeName(fd.Type.Results.List[0].Type)
			}
		}
	}
	return ""
}

func is32(ty string) bool { return ty == "int32" || ty == "uint32" }

// typeOfExpr: the Lean type of an expression (struct values and Bool are tracked, everything else is Int)
func (t *translator) typeOfExpr(e ast.Expr, sc scope) string {
	switch x := e.(type) {
	case *ast.Ident, *ast.SelectorExpr:
		if ty := t.typeOf(e, sc); ty != "" {
			return ty
		}
	case *ast.ParenExpr:
		return t.typeOfExpr(x.X, sc)
	case *ast.UnaryExpr:
		if x.Op == token.NOT {
			return "Bool"
		}
		if x.Op == token.AND {
			return t.typeOfExpr(x.X, sc)
		}
	case *ast.CompositeLit:
		if id, ok := x.Type.(*ast.Ident); ok {
			return id.Name
		}
	case *ast.CallExpr:
		var fd *ast.FuncDecl
		if id, ok := x.Fun.(*ast.Ident); ok {
			if id.Name == "make" && len(x.Args) == 2 {
				if ty := leanType(x.Args[0], t.structs); ty != "" {
					return ty
				}
			}
			fd = t.funcs[id.Name]
		} else if sel, ok := x.Fun.(*ast.SelectorExpr); ok {
			fd = t.funcs[t.key(t.typeOf(sel.X, sc), sel.Sel.Name)]
		}
		if fd != nil && fd.Type.Results != nil && len(fd.Type.Results.List) == 1 {
			if ty := leanType(fd.Type.Results.List[0].Type, t.structs); ty != "" {
				return ty
			}
		}
	case *ast.BinaryExpr:
		switch x.Op {
		case token.LAND, token.LOR, token.EQL, token.NEQ, token.LSS, token.LEQ, token.GTR, token.GEQ:
			return "Bool"
		}
	}
	return "Int"
}

// cond translates a boolean expression to a decidable proposition
func (t *translator) cond(e ast.Expr, sc scope) string {
	switch x := e.(type) {
	case *ast.ParenExpr:
		return t.cond(x.X, sc)
	case *ast.UnaryExpr:
		if x.Op == token.NOT {
			return "(¬ " + t.cond(x.X, sc) + ")"
		}
	case *ast.BinaryExpr:
		switch x.Op {
		case token.LAND:
			return "(" + t.cond(x.X, sc) + " ∧ " + t.cond(x.Y, sc) + ")"
		case token.LOR:
			return "(" + t.cond(x.X, sc) + " ∨ " + t.cond(x.Y, sc) + ")"
		}
		ops := map[token.Token]string{token.EQL: "=", token.NEQ: "≠", token.LSS: "<", token.LEQ: "≤", token.GTR: ">", token.GEQ: "≥"}
		if op, ok := ops[x.Op]; ok {
			return "(" + t.expr(x.X, sc) + " " + op + " " + t.expr(x.Y, sc) + ")"
		}
	}
	switch e.(type) {
	case *ast.Ident, *ast.SelectorExpr:
		if t.typeOf(e, sc) == "Bool" {
			return "(" + t.expr(e, sc) + " = true)"
		}
	}
	bail(e.Pos(), "unsupported condition %T", e)
	return ""
}

// rootVar: the local variable at the root of a selector / index chain (p.A.B, h.counts[i])
func rootVar(e ast.Expr) (string, bool) {
	switch x := e.(type) {
	case *ast.Ident:
		return x.Name, true
	case *ast.SelectorExpr:
		return rootVar(x.X)
	case *ast.IndexExpr:
		return rootVar(x.X)
	case *ast.ParenExpr:
		return rootVar(x.X)
	case *ast.StarExpr:
		return rootVar(x.X)
	}
	return "", false
}

// fieldPath: p.A.B -> ("p", "A.B")
func fieldPath(e ast.Expr) (string, string, bool) {
	switch x := e.(type) {
	case *ast.Ident:
		return x.Name, "", true
	case *ast.SelectorExpr:
		r, p, ok := fieldPath(x.X)
		if !ok {
			return "", "", false
		}
		if p == "" {
			return r, lname(x.Sel.Name), true
		}
		return r, p + "." + lname(x.Sel.Name), true
	}
	return "", "", false
}

// assign translates `lhs = rhs` for a local variable, a field path or a slice element of a field
func (t *translator) assign(lhs ast.Expr, rhs string, sc scope) string {
	switch x := lhs.(type) {
	case *ast.Ident:
		return "let " + lname(x.Name) + " := " + rhs + ";\n  "
	case *ast.SelectorExpr:
		if r, p, ok := fieldPath(x); ok && p != "" {
			if _, known := sc[r]; known {
				return "let " + lname(r) + " := { " + lname(r) + " with " + p + " := " + rhs + " };\n  "
			}
		}
	case *ast.IndexExpr:
		if id, ok := x.X.(*ast.Ident); ok && sc[id.Name] == "List Int" {
			return "let " + lname(id.Name) + " : List Int := (Go.set " + lname(id.Name) + " " + t.expr(x.Index, sc) + " " + rhs + ");\n  "
		}
		if r, p, ok := fieldPath(x.X); ok && p != "" {
			if _, known := sc[r]; known {
				return "let " + lname(r) + " := { " + lname(r) + " with " + p + " := (Go.set " + t.expr(x.X, sc) + " " + t.expr(x.Index, sc) + " " + rhs + ") };\n  "
			}
		}
	}
	bail(lhs.Pos(), "unsupported assignment target")
	return ""
}

// assigned: outer variables (those in sc) that the statements assign
func assigned(stmts []ast.Stmt, sc scope, acc map[string]bool) {
	for _, s := range stmts {
		switch x := s.(type) {
		case *ast.AssignStmt:
			if x.Tok == token.DEFINE {
				continue
			}
			for _, l := range x.Lhs {
				if r, ok := rootVar(l); ok {
					if _, ok := sc[r]; ok {
						acc[r] = true
					}
				} else {
					bail(l.Pos(), "unsupported assignment target")
				}
			}
		case *ast.IncDecStmt:
			if r, ok := rootVar(x.X); ok {
				if _, ok := sc[r]; ok {
					acc[r] = true
				}
			} else {
				bail(x.Pos(), "unsupported ++/-- target")
			}
		case *ast.IfStmt:
			if x.Init != nil {
				assigned([]ast.Stmt{x.Init}, sc, acc)
			}
			assigned(x.Body.List, sc, acc)
			if x.Else != nil {
				assigned([]ast.Stmt{x.Else}, sc, acc)
			}
		case *ast.BlockStmt:
			assigned(x.List, sc, acc)
		case *ast.ExprStmt:
			// buf.Write(…) on a translated output list appends to it (see the ExprStmt case of stmts)
			if call, ok := x.X.(*ast.CallExpr); ok {
				if sel, ok := call.Fun.(*ast.SelectorExpr); ok && sel.Sel.Name == "Write" {
					if buf, ok := sel.X.(*ast.Ident); ok && sc[buf.Name] == "List Int" {
						acc[buf.Name] = true
					}
				}
			}
		case *ast.ForStmt:
			if x.Init != nil {
				assigned([]ast.Stmt{x.Init}, sc, acc)
			}
			if x.Post != nil {
				assigned([]ast.Stmt{x.Post}, sc, acc)
			}
			assigned(x.Body.List, sc, acc)
		}
	}
}

func terminates(stmts []ast.Stmt) bool {
	if len(stmts) == 0 {
		return false
	}
	switch x := stmts[len(stmts)-1].(type) {
	case *ast.ReturnStmt:
		return true
	case *ast.BranchStmt:
		return (x.Tok == token.BREAK || x.Tok == token.CONTINUE) && x.Label == nil
	case *ast.BlockStmt:
		return terminates(x.List)
	case *ast.IfStmt:
		if x.Else == nil {
			return false
		}
		return terminates(x.Body.List) && terminates([]ast.Stmt{x.Else})
	}
	return false
}

func hasReturn(stmts []ast.Stmt) bool {
	found := false
	for _, s := range stmts {
		ast.Inspect(s, func(n ast.Node) bool {
			switch x := n.(type) {
			case *ast.ReturnStmt:
				found = true
			case *ast.BranchStmt:
				if (x.Tok != token.BREAK && x.Tok != token.CONTINUE) || x.Label != nil {
					found = true
				}
			}
			return true
		})
	}
	return found
}

func sorted(m map[string]bool) []string {
	var out []string
	for k := range m {
		out = append(out, k)
	}
	sort.Strings(out)
	return out
}

func tuple(vars []string) string {
	if len(vars) == 1 {
		return lname(vars[0])
	}
	var l []string
	for _, v := range vars {
		l = append(l, lname(v))
	}
	return "(" + strings.Join(l, ", ") + ")"
}

// rebind: `let r := e; let a := r.1; let b := r.2.1; ...`
func rebind(vars []string, sc scope, e string, tmp string) string {
	if len(vars) == 1 {
		return "let " + lname(vars[0]) + " : " + sc[vars[0]] + " := " + e + ";\n  "
	}
	var tys []string
	for _, v := range vars {
		tys = append(tys, sc[v])
	}
	s := "let " + tmp + " : " + strings.Join(tys, " × ") + " := " + e + ";\n  "
	proj := tmp
	for i, v := range vars {
		if i < len(vars)-1 {
			s += "let " + lname(v) + " := " + proj + ".1;\n  "
			proj += ".2"
		} else {
			s += "let " + lname(v) + " := " + proj + ";\n  "
		}
	}
	return s
}

// stmts translates a statement list; `fall` is the term for "control reaches the end of the list"
func (t *translator) stmts(list []ast.Stmt, sc scope, fall func(sc scope) string) string {
	if len(list) == 0 {
		return fall(sc)
	}
	s, rest := list[0], list[1:]
	switch x := s.(type) {
	case *ast.BlockStmt:
		return t.stmts(append(append([]ast.Stmt{}, x.List...), rest...), sc, fall)
	case *ast.ReturnStmt:
		return t.ret(x, sc)
	case *ast.DeclStmt:
		gd := x.Decl.(*ast.GenDecl)
		out := ""
		sc = sc.clone()
		for _, sp := range gd.Specs {
			vs, ok := sp.(*ast.ValueSpec)
			if !ok {
				bail(x.Pos(), "unsupported declaration")
			}
			for i, n := range vs.Names {
				val := "0"
				if i < len(vs.Values) {
					val = t.expr(vs.Values[i], sc)
				} else if vs.Type != nil && leanType(vs.Type, t.structs) != "Int" {
					bail(x.Pos(), "unsupported variable type")
				}
				out += "let " + lname(n.Name) + " : Int := " + val + ";\n  "
			}
			for i, n := range vs.Names {
				sc[n.Name] = "Int"
				if vs.Type != nil {
					t.gty[n.Name] = goTypeName(vs.Type)
				} else if i < len(vs.Values) {
					t.gty[n.Name] = t.goType(vs.Values[i], sc)
				}
			}
		}
		return out + t.stmts(rest, sc, fall)
	case *ast.AssignStmt:
		if len(x.Lhs) != 1 || len(x.Rhs) != 1 {
			bail(x.Pos(), "multiple assignment")
		}
		lhs := x.Lhs[0]
		id, isIdent := lhs.(*ast.Ident)
		rhs := ""
		nsc := sc.clone()
		switch x.Tok {
		case token.DEFINE:
			if !isIdent {
				bail(x.Pos(), ":= with a non-identifier")
			}
			rhs = t.expr(x.Rhs[0], sc)
			nsc[id.Name] = t.typeOfExpr(x.Rhs[0], sc)
			t.gty[id.Name] = t.goType(x.Rhs[0], sc)
		case token.ASSIGN:
			if isIdent {
				if _, ok := sc[id.Name]; !ok {
					bail(x.Pos(), "assignment to unknown variable %s", id.Name)
				}
			}
			rhs = t.expr(x.Rhs[0], sc)
		default:
			ops := map[token.Token]token.Token{token.ADD_ASSIGN: token.ADD, token.SUB_ASSIGN: token.SUB, token.MUL_ASSIGN: token.MUL,
				token.SHL_ASSIGN: token.SHL, token.SHR_ASSIGN: token.SHR, token.OR_ASSIGN: token.OR, token.AND_ASSIGN: token.AND,
				token.QUO_ASSIGN: token.QUO, token.REM_ASSIGN: token.REM}
			op, ok := ops[x.Tok]
			if !ok {
				bail(x.Pos(), "unsupported assignment operator")
			}
			rhs = t.expr(&ast.BinaryExpr{X: lhs, Op: op, Y: x.Rhs[0]}, sc)
		}
		return t.assign(lhs, rhs, sc) + t.stmts(rest, nsc, fall)
	case *ast.IncDecStmt:
		op := token.ADD
		if x.Tok == token.DEC {
			op = token.SUB
		}
		rhs := t.expr(&ast.BinaryExpr{X: x.X, Op: op, Y: &ast.BasicLit{Kind: token.INT, Value: "1"}}, sc)
		return t.assign(x.X, rhs, sc) + t.stmts(rest, sc, fall)
	case *ast.IfStmt:
		if x.Init != nil {
			bail(x.Pos(), "if with an init statement")
		}
		c := t.cond(x.Cond, sc)
		var els []ast.Stmt
		if x.Else != nil {
			els = []ast.Stmt{x.Else}
		}
		if terminates(x.Body.List) {
			// if c { …; return } rest  ==  if c then … else (else-part; rest)
			return "if " + c + " then (" + t.stmts(x.Body.List, sc, nil) + ")\n  else (" +
				t.stmts(append(append([]ast.Stmt{}, els...), rest...), sc, fall) + ")"
		}
		if hasReturn(x.Body.List) || hasReturn(els) {
			bail(x.Pos(), "a branch that returns on some paths only")
		}
		acc := map[string]bool{}
		assigned(x.Body.List, sc, acc)
		assigned(els, sc, acc)
		vars := sorted(acc)
		if len(vars) == 0 {
			return t.stmts(rest, sc, fall) // no effect on the translated state
		}
		join := func(scope) string { return tuple(vars) }
		e := "(if " + c + " then (" + t.stmts(x.Body.List, sc, join) + ") else (" + t.stmts(els, sc, join) + "))"
		t.nloop++
		return rebind(vars, sc, e, fmt.Sprintf("r%d", t.nloop)) + t.stmts(rest, sc, fall)
	case *ast.ForStmt:
		pre := ""
		if x.Init != nil {
			// the init statement is an ordinary statement in front of the loop
			return t.stmts(append([]ast.Stmt{x.Init, &ast.ForStmt{Cond: x.Cond, Post: x.Post, Body: x.Body}}, rest...), sc, fall)
		}
		if x.Cond == nil {
			bail(x.Pos(), "loop without a condition")
		}
		if hasReturn(x.Body.List) {
			bail(x.Pos(), "return/continue inside a loop")
		}
		if call, ok := x.Cond.(*ast.CallExpr); ok {
			return t.callLoop(x, call, rest, sc, fall)
		}
		acc := map[string]bool{}
		assigned(x.Body.List, sc, acc)
		if x.Post != nil {
			assigned([]ast.Stmt{x.Post}, sc, acc)
		}
		vars := sorted(acc)
		if len(vars) == 0 {
			bail(x.Pos(), "loop that assigns nothing")
		}
		// parameters: outer variables the loop reads but does not assign
		used := map[string]bool{}
		collect := func(n ast.Node) {
			ast.Inspect(n, func(n ast.Node) bool {
				if id, ok := n.(*ast.Ident); ok {
					if _, ok := sc[id.Name]; ok && !acc[id.Name] {
						used[id.Name] = true
					}
				}
				return true
			})
		}
		collect(x.Cond)
		collect(x.Body)
		if x.Post != nil {
			collect(x.Post)
		}
		params := sorted(used)
		t.nloop++
		name := fmt.Sprintf("%s_loop%d", t.defName(t.fn), t.nloop)
		var binders, pargs, sargs, stys []string
		for _, p := range params {
			binders = append(binders, fmt.Sprintf("(%s : %s)", lname(p), sc[p]))
			pargs = append(pargs, lname(p))
		}
		for _, v := range vars {
			sargs = append(sargs, lname(v))
			stys = append(stys, sc[v])
		}
		body := append([]ast.Stmt{}, x.Body.List...)
		if x.Post != nil {
			body = append(body, x.Post)
		}
		call := func(fuel string) string {
			return strings.TrimSpace(name + " " + strings.Join(pargs, " ") + " " + fuel + " " + strings.Join(sargs, " "))
		}
		again := func(scope) string { return call("fuel") }
		// a counting loop `for …; v < N; v++` whose body leaves v and N alone runs exactly N - v rounds: that is its fuel
		fuelExpr := fmt.Sprint(loopFuel)
		if be, ok := x.Cond.(*ast.BinaryExpr); ok && be.Op == token.LSS && x.Post != nil {
			if v, ok := be.X.(*ast.Ident); ok {
				if inc, ok := x.Post.(*ast.IncDecStmt); ok && inc.Tok == token.INC {
					if pv, ok := inc.X.(*ast.Ident); ok && pv.Name == v.Name {
						bodyAcc := map[string]bool{}
						assigned(x.Body.List, sc, bodyAcc)
						inv := !bodyAcc[v.Name]
						ast.Inspect(be.Y, func(n ast.Node) bool {
							if id, ok := n.(*ast.Ident); ok && acc[id.Name] {
								inv = false
							}
							return true
						})
						if inv {
							fuelExpr = "(Int.toNat (" + t.expr(be.Y, sc) + " - " + lname(v.Name) + "))"
						}
					}
				}
			}
		}
		obrk, ocont := t.brk, t.cont
		t.brk = func(scope) string { return tuple(vars) }
		t.cont = func(s scope) string {
			if x.Post != nil {
				return t.stmts([]ast.Stmt{x.Post}, s, again)
			}
			return again(s)
		}
		defer func() { t.brk, t.cont = obrk, ocont }()
		def := fmt.Sprintf("def %s %s : Nat → %s → %s\n  | 0, %s => %s\n  | fuel+1, %s =>\n  if %s then (%s)\n  else %s\n",
			name, strings.Join(binders, " "), strings.Join(stys, " → "), strings.Join(stys, " × "),
			strings.Join(sargs, ", "), tuple(vars), strings.Join(sargs, ", "),
			t.cond(x.Cond, sc), t.stmts(body, sc, again), tuple(vars))
		t.aux = append(t.aux, def)
		t.brk, t.cont = obrk, ocont
		return pre + rebind(vars, sc, "("+call(fuelExpr)+")", fmt.Sprintf("r%d", t.nloop)) + t.stmts(rest, sc, fall)
	case *ast.RangeStmt:
		// for i, v := range xs { body }  ==  for i := 0; i < len(xs); i++ { v := xs[i]; body }   (xs a slice of integers that the
		// body does not assign)
		if x.Tok != token.DEFINE {
			bail(x.Pos(), "range without :=")
		}
		xs, ok := x.X.(*ast.Ident)
		if !ok || sc[xs.Name] != "List Int" {
			bail(x.Pos(), "range over something that is not a slice variable")
		}
		bodyAcc := map[string]bool{}
		assigned(x.Body.List, sc, bodyAcc)
		if bodyAcc[xs.Name] {
			bail(x.Pos(), "the body assigns the slice it ranges over")
		}
		t.nloop++
		idx := fmt.Sprintf("i_%d", t.nloop)
		if k, ok := x.Key.(*ast.Ident); ok && k.Name != "_" {
			idx = k.Name
		}
		body := append([]ast.Stmt{}, x.Body.List...)
		if v, ok := x.Value.(*ast.Ident); ok && v.Name != "_" {
			body = append([]ast.Stmt{&ast.AssignStmt{Lhs: []ast.Expr{v}, Tok: token.DEFINE,
				Rhs: []ast.Expr{&ast.IndexExpr{X: xs, Index: &ast.Ident{Name: idx}}}}}, body...)
		}
		loop := &ast.ForStmt{
			Init: &ast.AssignStmt{Lhs: []ast.Expr{&ast.Ident{Name: idx}}, Tok: token.DEFINE, Rhs: []ast.Expr{&ast.BasicLit{Kind: token.INT, Value: "0"}}},
			Cond: &ast.BinaryExpr{X: &ast.Ident{Name: idx}, Op: token.LSS, Y: &ast.CallExpr{Fun: &ast.Ident{Name: "len"}, Args: []ast.Expr{xs}}},
			Post: &ast.IncDecStmt{X: &ast.Ident{Name: idx}, Tok: token.INC},
			Body: &ast.BlockStmt{List: body},
		}
		return t.stmts(append([]ast.Stmt{loop}, rest...), sc, fall)
	case *ast.BranchStmt:
		if x.Tok == token.BREAK && x.Label == nil && t.brk != nil {
			return t.brk(sc)
		}
		if x.Tok == token.CONTINUE && x.Label == nil && t.cont != nil {
			return t.cont(sc)
		}
		bail(x.Pos(), "unsupported branch statement")
	case *ast.ExprStmt:
		// buf.Write(encodeValue(e)) with buf a translated output list: the value is appended (the list is the sequence of
		// values handed to the encoder, in order; their byte encoding is the model's putUvarint)
		if call, ok := x.X.(*ast.CallExpr); ok && len(call.Args) == 1 {
			if sel, ok := call.Fun.(*ast.SelectorExpr); ok && sel.Sel.Name == "Write" {
				if buf, ok := sel.X.(*ast.Ident); ok && sc[buf.Name] == "List Int" {
					if inner, ok := call.Args[0].(*ast.CallExpr); ok && len(inner.Args) == 1 {
						if f, ok := inner.Fun.(*ast.Ident); ok && f.Name == "encodeValue" {
							return "let " + lname(buf.Name) + " : List Int := " + lname(buf.Name) + " ++ [" + t.expr(inner.Args[0], sc) + "];\n  " + t.stmts(rest, sc, fall)
						}
					}
				}
			}
		}
		bail(x.Pos(), "expression statement (side effect)")
	}
	bail(s.Pos(), "unsupported statement %T", s)
	return ""
}

// result: the value a function hands back: explicit results followed by the pointer parameters it assigns
func (t *translator) result(explicit []string) string {
	l := append([]string{}, explicit...)
	for _, m := range t.muts {
		l = append(l, lname(m))
	}
	if len(l) == 1 {
		return l[0]
	}
	return "(" + strings.Join(l, ", ") + ")"
}

// callLoop: `for recv.m() { body }` where m is a translated method with a bool result that assigns through its
// receiver (an iterator's next).  The loop becomes a recursive function over the receiver and the variables the body
// assigns; one round is `let r := m recv; if r.1 then (body; again) else state`.  Such a loop is bounded by the data,
// not by a constant: the enclosing function takes a FUEL argument (first parameter), the number of rounds it may run.
func (t *translator) callLoop(x *ast.ForStmt, call *ast.CallExpr, rest []ast.Stmt, sc scope, fall func(scope) string) string {
	if x.Post != nil || len(call.Args) != 0 {
		bail(x.Pos(), "unsupported loop header")
	}
	sel, ok := call.Fun.(*ast.SelectorExpr)
	if !ok {
		bail(x.Pos(), "unsupported loop condition")
	}
	rid, ok := sel.X.(*ast.Ident)
	if !ok {
		bail(x.Pos(), "the loop condition is not a method call on a variable")
	}
	k := t.key(sc[rid.Name], sel.Sel.Name)
	if _, ok := t.funcs[k]; !ok {
		bail(x.Pos(), "the loop condition calls %s, which is not translated", k)
	}
	t.need(k)
	acc := map[string]bool{rid.Name: true}
	assigned(x.Body.List, sc, acc)
	vars := sorted(acc)
	used := map[string]bool{}
	ast.Inspect(x.Body, func(n ast.Node) bool {
		if id, ok := n.(*ast.Ident); ok {
			if _, ok := sc[id.Name]; ok && !acc[id.Name] {
				used[id.Name] = true
			}
		}
		return true
	})
	params := sorted(used)
	t.nloop++
	t.fuel = true
	name := fmt.Sprintf("%s_loop%d", t.defName(t.fn), t.nloop)
	var binders, pargs, sargs, stys []string
	for _, p := range params {
		binders = append(binders, fmt.Sprintf("(%s : %s)", lname(p), sc[p]))
		pargs = append(pargs, lname(p))
	}
	for _, v := range vars {
		sargs = append(sargs, lname(v))
		stys = append(stys, sc[v])
	}
	callStr := func(fuel string) string {
		return strings.TrimSpace(name + " " + strings.Join(pargs, " ") + " " + fuel + " " + strings.Join(sargs, " "))
	}
	oldBrk := t.brk
	t.brk = func(scope) string { return tuple(vars) }
	body := t.stmts(x.Body.List, sc, func(scope) string { return callStr("fuel") })
	t.brk = oldBrk
	r := lname(rid.Name)
	def := fmt.Sprintf("def %s %s : Nat → %s → %s\n  | 0, %s => %s\n  | fuel+1, %s =>\n  let r := %s %s;\n  let %s : %s := r.2;\n  if r.1 = true then (%s)\n  else %s\n",
		name, strings.Join(binders, " "), strings.Join(stys, " → "), strings.Join(stys, " × "),
		strings.Join(sargs, ", "), tuple(vars), strings.Join(sargs, ", "),
		t.defName(k), r, r, sc[rid.Name], body, tuple(vars))
	t.aux = append(t.aux, def)
	return rebind(vars, sc, "("+callStr("fuel")+")", fmt.Sprintf("r%d", t.nloop)) + t.stmts(rest, sc, fall)
}

func (t *translator) ret(x *ast.ReturnStmt, sc scope) string {
	if t.isErr {
		if len(x.Results) == 1 {
			if id, ok := x.Results[0].(*ast.Ident); ok && id.Name == "nil" {
				return "some " + t.result(nil)
			}
			return "none"
		}
		bail(x.Pos(), "unsupported return in a function returning error")
	}
	if len(x.Results) == 0 {
		var l []string
		for _, n := range t.named {
			l = append(l, lname(n))
		}
		if len(l) == 0 && len(t.muts) == 0 {
			bail(x.Pos(), "bare return in a function without results")
		}
		return t.result(l)
	}
	var l []string
	for i, r := range x.Results {
		if i < len(t.rbool) && t.rbool[i] {
			l = append(l, t.boolExpr(r, sc))
		} else {
			l = append(l, t.expr(r, sc))
		}
	}
	return t.result(l)
}

func (t *translator) boolExpr(e ast.Expr, sc scope) string {
	switch x := e.(type) {
	case *ast.Ident:
		if x.Name == "true" || x.Name == "false" {
			return x.Name
		}
		return t.expr(e, sc)
	case *ast.SelectorExpr:
		return t.expr(e, sc)
	}
	return "(decide " + t.cond(e, sc) + ")"
}

// need: make sure the definition of k precedes the current one
func (t *translator) need(k string) {
	if t.done[k] {
		return
	}
	// save the per-function state, translate the callee, restore
	fn, aux, nloop, named, muts, isErr, rbool, gty, brk, fuel := t.fn, t.aux, t.nloop, t.named, t.muts, t.isErr, t.rbool, t.gty, t.brk, t.fuel
	t.function(k)
	t.fn, t.aux, t.nloop, t.named, t.muts, t.isErr, t.rbool, t.gty, t.brk, t.fuel = fn, aux, nloop, named, muts, isErr, rbool, gty, brk, fuel
	if msg, bad := t.failed[k]; bad {
		bail(token.NoPos, "depends on %s, which was not translated (%s)", k, msg)
	}
}

func (t *translator) function(k string) {
	if t.done[k] {
		return
	}
	t.done[k] = true
	fd := t.funcs[k]
	t.fn, t.aux, t.nloop, t.named, t.muts, t.isErr, t.rbool = k, nil, 0, nil, nil, false, nil
	t.gty = map[string]string{}
	t.brk, t.fuel = nil, false
	defer func() {
		if r := recover(); r != nil {
			u, ok := r.(unsupported)
			if !ok {
				panic(r)
			}
			t.failed[k] = u.msg
			t.out = append(t.out, fmt.Sprintf("/- NOT TRANSLATED %s: %s -/\n", k, u.msg))
		}
	}()
	sc := scope{}
	var binders []string
	var ptrs []string // pointer parameters to translated structs, in declaration order
	isPtr := func(e ast.Expr) bool { _, ok := e.(*ast.StarExpr); return ok }
	if fd.Recv != nil && len(fd.Recv.List) == 1 && len(fd.Recv.List[0].Names) == 1 {
		rt := leanType(fd.Recv.List[0].Type, t.structs)
		if rt == "" {
			bail(fd.Pos(), "receiver type is not translated")
		}
		n := fd.Recv.List[0].Names[0].Name
		sc[n] = rt
		binders = append(binders, fmt.Sprintf("(%s : %s)", lname(n), rt))
		if isPtr(fd.Recv.List[0].Type) {
			ptrs = append(ptrs, n)
		}
	}
	for _, p := range fd.Type.Params.List {
		ty := leanType(p.Type, t.structs)
		if ty == "" {
			bail(p.Pos(), "parameter type is not translated")
		}
		for _, n := range p.Names {
			sc[n.Name] = ty
			t.gty[n.Name] = goTypeName(p.Type)
			binders = append(binders, fmt.Sprintf("(%s : %s)", lname(n.Name), ty))
			if isPtr(p.Type) {
				ptrs = append(ptrs, n.Name)
			}
		}
	}
	// which pointer parameters does the body assign through?
	acc := map[string]bool{}
	assigned(fd.Body.List, sc, acc)
	var rtys []string
	for _, p := range ptrs {
		if acc[p] {
			t.muts = append(t.muts, p)
		}
	}
	for k := range acc {
		isp := false
		for _, p := range ptrs {
			if p == k {
				isp = true
			}
		}
		if !isp {
			if _, isStruct := t.structs[sc[k]]; isStruct {
				bail(fd.Pos(), "assignment through the by-value struct parameter %s", k)
			}
		}
	}
	pre := ""
	if fd.Type.Results != nil {
		for _, r := range fd.Type.Results.List {
			if id, ok := r.Type.(*ast.Ident); ok && id.Name == "error" && len(fd.Type.Results.List) == 1 && len(r.Names) == 0 {
				t.isErr = true
				continue
			}
			ty := leanType(r.Type, t.structs)
			if ty == "" || (strings.HasPrefix(ty, "List") && ty != "List Int") {
				bail(r.Pos(), "result type is not an integer, a bool, a slice of integers or a translated struct")
			}
			cnt := len(r.Names)
			if cnt == 0 {
				cnt = 1
			}
			for i := 0; i < cnt; i++ {
				rtys = append(rtys, ty)
				t.rbool = append(t.rbool, ty == "Bool")
			}
			for _, n := range r.Names {
				t.named = append(t.named, n.Name)
				sc[n.Name] = ty
				t.gty[n.Name] = goTypeName(r.Type)
				zero := "0"
				if ty == "Bool" {
					zero = "false"
				}
				pre += "let " + lname(n.Name) + " : " + ty + " := " + zero + ";\n  "
			}
		}
	}
	for _, m := range t.muts {
		rtys = append(rtys, sc[m])
	}
	if len(rtys) == 0 {
		bail(fd.Pos(), "no result and no assigned pointer parameter")
	}
	rty := strings.Join(rtys, " × ")
	if t.isErr {
		rty = "Option (" + rty + ")"
	}
	fall := func(scope) string {
		if t.isErr {
			bail(fd.Pos(), "control reaches the end of a function returning error")
		}
		var l []string
		for _, n := range t.named {
			l = append(l, lname(n))
		}
		if len(l) == 0 && len(t.muts) == 0 {
			bail(fd.Pos(), "control reaches the end of a function without named results")
		}
		return t.result(l)
	}
	body := t.stmts(fd.Body.List, sc, fall)
	if t.fuel {
		binders = append([]string{"(fuel : Nat)"}, binders...) // see callLoop
	}
	def := fmt.Sprintf("def %s %s : %s :=\n  %s%s\n", t.defName(k), strings.Join(binders, " "), rty, pre, body)
	t.out = append(t.out, strings.Join(t.aux, "\n"))
	t.out = append(t.out, def)
}

type codeGroup struct {
	file      string
	namespace string
	structs   []string
	funcs     []string // "Recv.name" or "name"
	also      []string // further files whose listed functions are looked up too
	regions   []regionSpec
	loops     []string // functions that are not translated as a whole (floats, allocation) but whose top-level
	// `for` loops are: each becomes `<fn>_loop<k>` over the variables it assigns, every other variable it reads is a parameter
}

// loopSnippets translates the top-level for loops of fd on their own
func (t *translator) loopSnippets(fd *ast.FuncDecl) {
	k := fd.Name.Name
	t.fn, t.aux, t.nloop, t.named, t.muts, t.isErr, t.rbool = k, nil, 0, nil, nil, false, nil
	t.gty = map[string]string{} // the snippet's variables are untyped here: its arithmetic stays ideal
	defer func() {
		if r := recover(); r != nil {
			u, ok := r.(unsupported)
			if !ok {
				panic(r)
			}
			t.out = append(t.out, fmt.Sprintf("/- NOT TRANSLATED loops of %s: %s -/\n", k, u.msg))
		}
	}()
	for _, st := range fd.Body.List {
		fs, ok := st.(*ast.ForStmt)
		if !ok {
			continue
		}
		// every identifier the loop mentions is an integer variable of the enclosing function
		sc := scope{}
		ast.Inspect(fs, func(n ast.Node) bool {
			switch x := n.(type) {
			case *ast.CallExpr:
				// conversions and calls: only the arguments are variables
				for _, a := range x.Args {
					ast.Inspect(a, func(m ast.Node) bool {
						if id, ok := m.(*ast.Ident); ok && !intTypes[id.Name] {
							sc[id.Name] = "Int"
						}
						return true
					})
				}
				return false
			case *ast.Ident:
				if !intTypes[x.Name] && x.Name != "true" && x.Name != "false" {
					sc[x.Name] = "Int"
				}
			}
			return true
		})
		loop := &ast.ForStmt{Cond: fs.Cond, Post: fs.Post, Body: fs.Body} // the init statement stays with the function
		t.stmts([]ast.Stmt{loop}, sc, func(scope) string { return "()" })
	}
	t.out = append(t.out, strings.Join(t.aux, "\n"))
}

// region: a run of statements of a function that is not translated as a whole (it marshals documents, compresses, …):
// from the first statement that declares `from` up to (not including) the first statement that mentions `until`.
// Field chains rooted in the receiver (c.numSamples, c.lastSample.values) are read-only inputs of the region and become
// parameters named after the chain (c_numSamples); `len(chain)` becomes the parameter len_<chain>; a chain that is indexed
// is a `List Int`; `outputs` are byte buffers the region writes encoded values to (List Int, see the ExprStmt case).
// The region's result is the tuple of the outer variables it assigns.
type regionSpec struct {
	fn, from, until string
	outputs         []string
}

func flatName(e ast.Expr) (string, bool) {
	switch x := e.(type) {
	case *ast.Ident:
		return x.Name, true
	case *ast.SelectorExpr:
		if b, ok := flatName(x.X); ok {
			return b + "_" + x.Sel.Name, true
		}
	}
	return "", false
}

// flatten rewrites the receiver-rooted field chains of a region to plain identifiers and records their Lean types
func flattenExpr(e ast.Expr, root string, tys map[string]string) ast.Expr {
	switch x := e.(type) {
	case *ast.SelectorExpr:
		if r, ok := rootVar(x); ok && r == root {
			if n, ok := flatName(x); ok {
				if _, seen := tys[n]; !seen {
					tys[n] = "Int"
				}
				return &ast.Ident{NamePos: x.Pos(), Name: n}
			}
		}
		return x
	case *ast.CallExpr:
		if id, ok := x.Fun.(*ast.Ident); ok && id.Name == "len" && len(x.Args) == 1 {
			if r, ok := rootVar(x.Args[0]); ok && r == root {
				if n, ok := flatName(x.Args[0]); ok {
					tys["len_"+n] = "Int"
					return &ast.Ident{NamePos: x.Pos(), Name: "len_" + n}
				}
			}
		}
		for i := range x.Args {
			x.Args[i] = flattenExpr(x.Args[i], root, tys)
		}
		return x
	case *ast.IndexExpr:
		x.X = flattenExpr(x.X, root, tys)
		if id, ok := x.X.(*ast.Ident); ok {
			if _, ok := tys[id.Name]; ok {
				tys[id.Name] = "List Int"
			}
		}
		x.Index = flattenExpr(x.Index, root, tys)
		return x
	case *ast.BinaryExpr:
		x.X, x.Y = flattenExpr(x.X, root, tys), flattenExpr(x.Y, root, tys)
		return x
	case *ast.ParenExpr:
		x.X = flattenExpr(x.X, root, tys)
		return x
	case *ast.UnaryExpr:
		x.X = flattenExpr(x.X, root, tys)
		return x
	}
	return e
}

func flattenStmt(s ast.Stmt, root string, tys map[string]string) {
	switch x := s.(type) {
	case *ast.AssignStmt:
		for i := range x.Rhs {
			x.Rhs[i] = flattenExpr(x.Rhs[i], root, tys)
		}
		for i := range x.Lhs {
			if r, ok := rootVar(x.Lhs[i]); ok && r == root {
				bail(x.Pos(), "the region assigns through the receiver")
			}
			x.Lhs[i] = flattenExpr(x.Lhs[i], root, tys)
		}
	case *ast.IncDecStmt:
		if r, ok := rootVar(x.X); ok && r == root {
			bail(x.Pos(), "the region assigns through the receiver")
		}
	case *ast.ExprStmt:
		x.X = flattenExpr(x.X, root, tys)
	case *ast.DeclStmt:
		if gd, ok := x.Decl.(*ast.GenDecl); ok {
			for _, sp := range gd.Specs {
				if vs, ok := sp.(*ast.ValueSpec); ok {
					for i := range vs.Values {
						vs.Values[i] = flattenExpr(vs.Values[i], root, tys)
					}
				}
			}
		}
	case *ast.IfStmt:
		if x.Init != nil {
			flattenStmt(x.Init, root, tys)
		}
		x.Cond = flattenExpr(x.Cond, root, tys)
		flattenStmt(x.Body, root, tys)
		if x.Else != nil {
			flattenStmt(x.Else, root, tys)
		}
	case *ast.ForStmt:
		if x.Init != nil {
			flattenStmt(x.Init, root, tys)
		}
		if x.Cond != nil {
			x.Cond = flattenExpr(x.Cond, root, tys)
		}
		if x.Post != nil {
			flattenStmt(x.Post, root, tys)
		}
		flattenStmt(x.Body, root, tys)
	case *ast.BlockStmt:
		for _, st := range x.List {
			flattenStmt(st, root, tys)
		}
	}
}

func mentions(n ast.Node, name string) bool {
	found := false
	ast.Inspect(n, func(m ast.Node) bool {
		if id, ok := m.(*ast.Ident); ok && id.Name == name {
			found = true
		}
		return true
	})
	return found
}

func (t *translator) region(fd *ast.FuncDecl, r regionSpec) {
	k := fd.Name.Name
	t.fn, t.aux, t.nloop, t.named, t.muts, t.isErr, t.rbool = k, nil, 0, nil, nil, false, nil
	t.gty = map[string]string{}
	t.brk, t.cont, t.fuel = nil, nil, false
	defer func() {
		if rec := recover(); rec != nil {
			u, ok := rec.(unsupported)
			if !ok {
				panic(rec)
			}
			t.out = append(t.out, fmt.Sprintf("/- NOT TRANSLATED region of %s: %s -/\n", k, u.msg))
		}
	}()
	lo, hi := -1, -1
	for i, st := range fd.Body.List {
		if lo < 0 {
			declares := false
			switch x := st.(type) {
			case *ast.AssignStmt:
				if x.Tok == token.DEFINE {
					for _, l := range x.Lhs {
						if id, ok := l.(*ast.Ident); ok && id.Name == r.from {
							declares = true
						}
					}
				}
			case *ast.DeclStmt:
				declares = mentions(x, r.from)
			}
			if declares {
				lo = i
			}
			continue
		}
		if mentions(st, r.until) {
			hi = i
			break
		}
	}
	if lo < 0 || hi < 0 {
		bail(fd.Pos(), "region %s..%s not found", r.from, r.until)
	}
	root := ""
	if fd.Recv != nil && len(fd.Recv.List) == 1 && len(fd.Recv.List[0].Names) == 1 {
		root = fd.Recv.List[0].Names[0].Name
	}
	stmts := fd.Body.List[lo:hi]
	tys := map[string]string{}
	for _, st := range stmts {
		flattenStmt(st, root, tys)
	}
	sc := scope{}
	for n, ty := range tys {
		sc[n] = ty
	}
	for _, o := range r.outputs {
		sc[o] = "List Int"
	}
	acc := map[string]bool{}
	assigned(stmts, sc, acc)
	for _, o := range r.outputs {
		acc[o] = true // written through Write
	}
	vars := sorted(acc)
	var binders, rtys []string
	for _, n := range sorted(func() map[string]bool {
		m := map[string]bool{}
		for n := range sc {
			m[n] = true
		}
		return m
	}()) {
		binders = append(binders, fmt.Sprintf("(%s : %s)", lname(n), sc[n]))
	}
	for _, v := range vars {
		rtys = append(rtys, sc[v])
	}
	body := t.stmts(stmts, sc, func(scope) string { return tuple(vars) })
	def := fmt.Sprintf("def %s_region %s : %s :=\n  %s\n", lname(k), strings.Join(binders, " "), strings.Join(rtys, " × "), body)
	t.out = append(t.out, strings.Join(t.aux, "\n"))
	t.out = append(t.out, def)
}

var codeGroups = []codeGroup{
	{file: "hdrhist/hdr.go", namespace: "Hdr", structs: []string{"Histogram", "iterator"},
		funcs: []string{"bitLen", "Histogram.getBucketIndex", "Histogram.getSubBucketIdx", "Histogram.countsIndex",
			"Histogram.valueFromIndex", "Histogram.countsIndexFor", "Histogram.sizeOfEquivalentValueRange",
			"Histogram.lowestEquivalentValue", "Histogram.nextNonEquivalentValue", "Histogram.highestEquivalentValue",
			"Histogram.medianEquivalentValue", "Histogram.getCountAtIndex", "Histogram.RecordValues", "iterator.next", "Histogram.iterator",
			"Histogram.Max", "Histogram.Min"},
		loops: []string{"New"}},
	{file: "events/performance.go", namespace: "Events",
		structs: []string{"PerformanceCounters", "PerformanceTimers", "PerformanceGauges", "Performance"},
		funcs:   []string{"Performance.Add"}},
	{file: "util.go", namespace: "Util", funcs: []string{"getOffset", "undelta"}},
	{file: "collector_better.go", also: []string{"util.go"}, namespace: "Better", funcs: []string{"getOffset"},
		regions: []regionSpec{{fn: "getPayload", from: "zeroCount", until: "compressBuffer", outputs: []string{"payload"}}}},
}

func translateCode(parse func(string) *ast.File) string {
	var b strings.Builder
	b.WriteString("/- GENERATED by harness/cmd/extract (translate.go) from /repo's working tree on every run. Do not edit.\n")
	b.WriteString("   Go integer code as Lean definitions over ideal integers; see the header of translate.go for the semantics. -/\n")
	b.WriteString("import FtdcVerif.Gen.Prelude\nnamespace Ftdc.Gen\n")
	for _, g := range codeGroups {
		f := parse(g.file)
		decls := append([]ast.Decl{}, f.Decls...)
		for _, a := range g.also {
			decls = append(decls, parse(a).Decls...)
		}
		t := &translator{structs: map[string]*ast.StructType{}, funcs: map[string]*ast.FuncDecl{}, done: map[string]bool{}, failed: map[string]string{}}
		want := map[string]bool{}
		for _, k := range g.funcs {
			want[k] = true
		}
		for _, d := range decls {
			switch x := d.(type) {
			case *ast.GenDecl:
				for _, sp := range x.Specs {
					if ts, ok := sp.(*ast.TypeSpec); ok {
						if st, ok := ts.Type.(*ast.StructType); ok {
							for _, n := range g.structs {
								if n == ts.Name.Name {
									t.structs[n] = st
								}
							}
						}
					}
				}
			case *ast.FuncDecl:
				k := t.key(recvName(x), x.Name.Name)
				if want[k] && x.Body != nil {
					t.funcs[k] = x
				}
			}
		}
		fmt.Fprintf(&b, "\nnamespace %s\n\n", g.namespace)
		for _, n := range g.structs {
			if _, ok := t.structs[n]; ok {
				b.WriteString(t.structDef(n) + "\n")
			} else {
				fmt.Fprintf(&b, "/- NOT FOUND: type %s -/\n", n)
			}
		}
		for _, k := range g.funcs {
			if _, ok := t.funcs[k]; !ok {
				fmt.Fprintf(&b, "/- NOT FOUND: %s -/\n", k)
				continue
			}
			t.function(k)
		}
		for _, r := range g.regions {
			found := false
			for _, d := range f.Decls {
				if fd, ok := d.(*ast.FuncDecl); ok && fd.Name.Name == r.fn && fd.Body != nil {
					t.region(fd, r)
					found = true
				}
			}
			if !found {
				t.out = append(t.out, fmt.Sprintf("/- NOT FOUND: %s -/\n", r.fn))
			}
		}
		for _, name := range g.loops {
			found := false
			for _, d := range f.Decls {
				if fd, ok := d.(*ast.FuncDecl); ok && fd.Recv == nil && fd.Name.Name == name && fd.Body != nil {
					t.loopSnippets(fd)
					found = true
				}
			}
			if !found {
				t.out = append(t.out, fmt.Sprintf("/- NOT FOUND: %s -/\n", name))
			}
		}
		for _, d := range t.out {
			if strings.TrimSpace(d) != "" {
				b.WriteString(d + "\n")
			}
		}
		fmt.Fprintf(&b, "end %s\n", g.namespace)
	}
	b.WriteString("\nend Ftdc.Gen\n")
	return b.String()
}
