import FtdcVerif.Model.Collector
/-
  metrics/json.go `CollectJSONStream` and metrics/metrics.go `CollectRuntime`.
  JSON parsing (`bson.UnmarshalExtJSON`) and the scanner are external: a line is what they turn
  it into — a document, a malformed line, or a line the scanner cannot return in full (longer
  than 64 KiB).  Timers are scheduler choices.
-/
namespace Ftdc.Metrics

inductive Line where
  | doc (d : BDoc)      -- a line that parses, as the document handed to the collector
  | malformed           -- `UnmarshalExtJSON` fails
  | tooLong             -- the scanner stops with an error (fix F17: reported)

/-- events of the `select` loop of `CollectJSONStream`: the next line arrives, or the flush
timer fires (fix F20: a periodic flush is not the end of the input) -/
inductive JEvent where
  | line (l : Line) | flushTick

structure JState where
  coll : Dynamic
  flushed : List OutDoc := []       -- what periodic flushes produced so far

/-- the flusher: resolve what is pending, reset the collector -/
def flusher (s : JState) : Option JState :=
  if s.coll.info.2 = 0 then some s else
  match s.coll.resolve with
  | none => none
  | some o => some { coll := s.coll.reset, flushed := s.flushed ++ o }

/-- one event; `none` = the function returns an error -/
def jstep (s : JState) : JEvent → Option JState
  | .line (.doc d) =>
    let (c', r) := s.coll.add d
    if r = .ok then some { s with coll := c' } else none
  | .line .malformed => none
  | .line .tooLong => none
  | .flushTick => flusher s

def jrun (s : JState) : List JEvent → Option JState
  | [] => some s
  | e :: es => match jstep s e with
    | none => none
    | some s' => jrun s' es

/-- `CollectJSONStream`: all events, then the final flush at the end of the input -/
def collectJSON (n : Nat) (evs : List JEvent) : Option (List OutDoc) :=
  match jrun { coll := Dynamic.new n } evs with
  | none => none
  | some s => (flusher s).map (·.flushed)

/-! ### CollectRuntime: the event loop over collect ticks, flush ticks and cancellation -/

inductive REvent where
  | collect | flush
  deriving DecidableEq, Repr

structure RState where
  next : Nat := 0                    -- collectCount: the id of the next sample
  pending : List Nat := []           -- ids in the current file's collector and file (current file)
  files : List (List Nat) := []      -- closed files

/-- `flusher()`: if anything was collected since the last rotation, close the file and start a
new one -/
def rotate (s : RState) : RState :=
  if s.pending = [] then s else { s with files := s.files ++ [s.pending], pending := [] }

def rstep (s : RState) : REvent → RState
  | .collect => { s with pending := s.pending ++ [s.next], next := s.next + 1 }
  | .flush => rotate s

/-- events until cancellation, then the final flush; the result is the list of files
(the trailing empty file the final rotation creates holds no samples) -/
def collectRuntime (evs : List REvent) : List (List Nat) :=
  (rotate (evs.foldl rstep {})).files

end Ftdc.Metrics
