import FtdcVerif.Lemmas.Codec
import FtdcVerif.Lemmas.EndToEnd
import FtdcVerif.Lemmas.StreamE2E
import FtdcVerif.Lemmas.SDynE2E
import FtdcVerif.Lemmas.FileE2E
import FtdcVerif.Lemmas.PayloadTie
import FtdcVerif.Lemmas.UndeltaTie
/-!
# C01 — structured round trip is lossless

Layers, each for all inputs: unsigned varints, zero-run stream, wrapping deltas, leaf
normalisation (bit-exact), document restoration from extracted values, the BSON parser on the
serialiser's output — and their composition `chunk_roundtrip`: the payload a collector writes
for any sequence of documents of one schema decodes to exactly their projections.  The timestamp clause
of the property is FALSE of the code as it is (known finding F1: an existing unit test pins the
scaled starting value, so it cannot be repaired without editing the suite); the negation is
proved below with the concrete witness that is replayed on the implementation.
-/
namespace Ftdc.Props.C01
open Ftdc

/-- `binary.ReadUvarint` inverts `binary.PutUvarint` for every uint64, whatever follows. -/
theorem varint_roundtrip (x : Nat) (hx : x < 2 ^ 64) (rest : Bytes) :
    readUvarint (putUvarint x ++ rest) = some (x, rest) :=
  readUvarint_putUvarint x hx rest

/-- Wrap-around included: undoing the deltas of any int64 sequence gives the sequence back
(int64 extremes whose deltas overflow are ordinary instances). -/
theorem deltas_roundtrip (v : I64) (xs : List I64) : undelta v (deltas v xs) = v :: xs :=
  undelta_deltas v xs

/-- The zero-run/varint stream written by `getPayload` decodes to exactly the deltas it encodes,
for every delta list (all zero-run placements, runs crossing metric boundaries), any trailing
bytes. -/
theorem delta_stream_roundtrip (ds : List I64) (rest : Bytes) (h : ds.length < 2 ^ 64) :
    rleDecAux ds.length 0 (rleEnc ds ++ rest) = some (ds, 0, rest) := by
  have := rle_roundtrip ds 0 rest (by simpa using h)
  simpa [rleEnc] using this

/-- Reading the stream metric by metric is reading it in one go (the zero-run carry survives
metric boundaries). -/
theorem delta_stream_split (a b nz : Nat) (bs : Bytes) :
    rleDecAux (a + b) nz bs =
      (rleDecAux a nz bs).bind fun x =>
        (rleDecAux b x.2.1 x.2.2).map fun y => (x.1 ++ y.1, y.2.1, y.2.2) :=
  rleDecAux_append a b nz bs

/-! bit-exact leaves -/
theorem bool_exact (b : Bool) : ((if b then 1#64 else 0#64) != 0#64) = b := bool_restore b
theorem int32_exact (v : BitVec 32) : (signExt32 v).truncate 32 = v := signExt_truncate v
theorem timestamp_word_exact (v : BitVec 32) : (v.zeroExtend 64).truncate 32 = v := zeroExt_truncate v
/-- UTC datetimes within the range Go can express in nanoseconds are normalised to themselves -/
theorem datetime_exact (ms : I64) (h : InNanoRange ms) : restoreDT (normDT ms) = ms := by
  simp [restoreDT, normDT_inRange ms h]

/-- Restoring a document from its own extracted metric values yields the document with the
non-metric leaves removed: same keys, nesting, array positions (re-indexed), BSON types and
bit-identical values — for every document tree (all 20 element types, any depth). -/
theorem restore_is_project (d : BDoc) (h : DatesOk d) : restoreDoc d (vals d) = project d :=
  restore_extract d h

/-- Documents with no metrics at all restore to their (empty-container) skeleton. -/
theorem no_metrics_restore (d : BDoc) (h : DatesOk d) (hn : vals d = []) :
    restoreDoc d [] = project d := by
  rw [← hn]; exact restore_extract d h

/-! ### known finding F1: the timestamp clause fails -/

/-- the full leaf-level claim of the property for timestamps -/
def timestamp_clause : Prop :=
  ∀ (t i : BitVec 32) (key : Bytes),
    (metricsVal key [] (.timestamp t i)).map (·.start) = (extractVal (.timestamp t i)).map (·.1)

/-- It is false of the code: the decoder's starting value of the seconds is scaled by 1000,
so `{ts: Timestamp(5,7)}` reads back as `Timestamp(5000,7)`. -/
theorem timestamp_clause_false : ¬ timestamp_clause := by
  intro h
  have := h 5#32 7#32 []
  revert this
  decide

/-- ... while for every other metric leaf the decoder's starting value is the encoder's value -/
theorem start_is_value_partial (key : Bytes) (v : BVal) (hts : ∀ t i, v ≠ .timestamp t i)
    (hd : ∀ d, v ≠ .doc d) (ha : ∀ d, v ≠ .arr d) :
    (metricsVal key [] v).map (·.start) = (extractVal v).map (·.1) := by
  cases v with
  | timestamp t i => exact absurd rfl (hts t i)
  | doc d => exact absurd rfl (hd d)
  | arr d => exact absurd rfl (ha d)
  | _ => simp [metricsVal, extractVal]

/-! ### the composition -/

/-- the strict BSON parser (twin of `validateDocument`) reads back what is written -/
theorem wire_document_roundtrip (d : BDoc) (hw : WFDoc d) (hl : (serDoc d).length < 2 ^ 31) :
    parseDoc (serDoc d) = some d := parseDoc_serDoc d hw hl

/-- a document of the reference document's schema (same keys, nesting, element types; any values,
non-metric leaves included) is restored from ITS OWN values, not the reference's -/
theorem restore_other_document (ref d : BDoc) (h : SimDoc ref d) (hd : DatesOk d) :
    restoreDoc ref (vals d) = project d := restoreDoc_sim ref d h hd

/-- **End to end, for one chunk.**  For every document `d0` and every list `ds` of documents of
`d0`'s schema (any tree of sub-documents and arrays, every leaf type, any values incl. int64
extremes whose deltas wrap, any number of samples incl. none): the payload `getPayload` writes —
reference document, counts, metric-major zero-run/varint delta stream — is decoded by the reader
into a chunk whose structured documents are exactly `d0 :: ds` with the non-metric leaves
removed, in order.  Hypotheses: the reference document is well-formed BSON below 2^31 bytes, datetimes
are within the nanosecond range (the property's own domain), the counts fit their 32-bit fields,
and there is no timestamp leaf (known finding F1, `timestamp_clause_false`). -/
theorem chunk_roundtrip (d0 : BDoc) (ds : List BDoc)
    (hw : WFDoc d0) (hl : (serDoc d0).length < 2 ^ 31) (hts : NoTs d0)
    (hsim : ∀ d ∈ ds, SimDoc d0 d) (hd0 : DatesOk d0) (hds : ∀ d ∈ ds, DatesOk d)
    (hnm : (vals d0).length < 2 ^ 32) (hn : ds.length < 2 ^ 32)
    (hsz : (vals d0).length * ds.length < 2 ^ 64) :
    ∃ c, decodePayload (payloadOf d0 (vals d0) (ds.map vals)) = .ok c ∧
      c.structured = (d0 :: ds).map project := by
  obtain ⟨c, hc, href, hrows⟩ := decode_payload d0 (ds.map vals) hw hl hts
    (by intro r hr
        obtain ⟨d, hd, rfl⟩ := List.mem_map.1 hr
        exact (simDoc_length d0 d (hsim d hd)).symm)
    hnm (by simpa using hn) (by simpa using hsz)
  refine ⟨c, hc, ?_⟩
  simp only [Chunk.structured, hrows, href, List.map_cons, List.map_map]
  congr 1
  · exact restore_extract d0 hd0
  · apply List.map_congr_left
    intro d hd
    exact restoreDoc_sim d0 d (hsim d hd) (hds d hd)

/-- **End to end, for the base collector.**  Add `d0` and then any documents `ds` of its schema
(at most the chunk capacity) to a fresh collector: every Add is accepted, `Resolve` produces one
metric chunk, and decoding that chunk's payload yields exactly `d0 :: ds` with the non-metric
leaves removed, in order. -/
theorem base_collector_roundtrip (n : Nat) (d0 : BDoc) (ds : List BDoc) (hroom : ds.length ≤ n)
    (hw : WFDoc d0) (hl : (serDoc d0).length < 2 ^ 31) (hts : NoTs d0)
    (hsim : ∀ d ∈ ds, SimDoc d0 d) (hd0 : DatesOk d0) (hds : ∀ d ∈ ds, DatesOk d)
    (hnm : (vals d0).length < 2 ^ 32) (hn : ds.length < 2 ^ 32)
    (hsz : (vals d0).length * ds.length < 2 ^ 64) :
    ∃ out c, (ds.foldl (fun (c : Better) d => (c.add d).1) (({ maxDeltas := n } : Better).add d0).1).resolve
        = some [out] ∧
      decodePayload out.payload = .ok c ∧ c.structured = (d0 :: ds).map project := by
  obtain ⟨h1, h2, h3, h4, _, h6, _⟩ := better_adds n d0 ds hroom hsim
  obtain ⟨c, hc, hstr⟩ := chunk_roundtrip d0 ds hw hl hts hsim hd0 hds hnm hn hsz
  refine ⟨.chunk (tsDoc d0) d0 (vals d0) (ds.map vals), c, ?_, hc, hstr⟩
  simp only [Better.resolve, h1, h4, h2, h3, h6]

/-- documents the byte-level theorems apply to -/
def Good (d : BDoc) : Prop :=
  WFDoc d ∧ (serDoc d).length < 2 ^ 31 ∧ NoTs d ∧ DatesOk d ∧ (vals d).length < 2 ^ 32

/-- **End to end, for the streaming collector, every chunk size, every number of documents.**
Add `d0` and then any documents `ds` of its schema to a fresh streaming collector with chunk size `n`:
what it has handed to its writer is a sequence of metric chunks, one per run `(head, tail)` of
consecutive documents; the pending chunk is one more such run; the runs concatenated are exactly
`d0 :: ds`; and the reader decodes every one of these chunks to exactly its documents with the
non-metric leaves removed, in order. -/
theorem streaming_collector_roundtrip (n : Nat) (h1 : 1 ≤ n) (hn : n < 2 ^ 32) (d0 : BDoc) (ds : List BDoc)
    (hsim : ∀ d ∈ ds, SimDoc d0 d) (hgood : ∀ d ∈ d0 :: ds, Good d) :
    ∃ (chs : List (BDoc × List BDoc)) (cur : Option (BDoc × List BDoc)),
      let c := (d0 :: ds).foldl (fun (c : Streaming) d => (c.add d).1) (Streaming.new n)
      logDocs c.out = chs.map mkChunk ∧
      (∀ p, cur = some p → c.inner.resolve = some [mkChunk p]) ∧
      allDocs chs cur = d0 :: ds ∧
      ∀ p, (p ∈ chs ∨ cur = some p) →
        ∃ ch, decodePayload (mkChunk p).payload = .ok ch ∧ ch.structured = (chunkDocs p).map project := by
  obtain ⟨chs, cur, g, hall⟩ := sg_run n h1 d0 ds hsim
  refine ⟨chs, cur, g.logged, ?_, hall, ?_⟩
  · intro p hp
    have := g.pend
    rw [hp] at this
    obtain ⟨⟨a1, a2, a3, a4, _, a6, _⟩, _, _⟩ := this
    simp only [Better.resolve, a1, a4, mkChunk, a6, a2, a3]
  · intro p hp
    -- every document of the chunk is one of `d0 :: ds`
    have hmem : ∀ x ∈ chunkDocs p, x ∈ d0 :: ds := by
      intro x hx
      rw [← hall]
      rcases hp with hp | hp
      · simp only [allDocs, List.mem_append, List.mem_flatten, List.mem_map]
        exact Or.inl ⟨chunkDocs p, ⟨p, hp, rfl⟩, hx⟩
      · simp only [allDocs, hp, List.mem_append]
        exact Or.inr hx
    have hsize : p.2.length + 1 ≤ n := by
      rcases hp with hp | hp
      · exact g.small p hp
      · have := g.pend; rw [hp] at this; exact this.2.2
    have simTo : ∀ x ∈ d0 :: ds, SimDoc d0 x := by
      intro x hx
      rcases List.mem_cons.1 hx with rfl | hx
      · exact simDoc_refl _
      · exact hsim x hx
    have hhead : p.1 ∈ d0 :: ds := hmem p.1 (by simp [chunkDocs])
    obtain ⟨gw, gl, gts, gd, gnm⟩ := hgood p.1 hhead
    have hsimp : ∀ x ∈ p.2, SimDoc p.1 x := by
      intro x hx
      have hx' := hmem x (by simp [chunkDocs, hx])
      exact simDoc_trans _ _ _ (simDoc_symm _ _ (simTo p.1 hhead)) (simTo x hx')
    obtain ⟨ch, hc, hstr⟩ := chunk_roundtrip p.1 p.2 gw gl gts hsimp gd
      (by intro x hx; exact (hgood x (hmem x (by simp [chunkDocs, hx]))).2.2.2.1)
      gnm (by omega)
      (by
        have a : p.2.length < 2 ^ 32 := by omega
        have := Nat.mul_lt_mul'' gnm a
        have e : (2 : Nat) ^ 32 * 2 ^ 32 = 2 ^ 64 := by decide
        omega)
    exact ⟨ch, hc, hstr⟩

/-- decoding one run: the chunk of documents `p.1 :: p.2` (all of one schema, all `Good`) is decoded to
their projections -/
theorem run_decodes (n : Nat) (hn : n < 2 ^ 32) (d0 : BDoc) (all : List BDoc) (hsimAll : ∀ x ∈ all, SimDoc d0 x)
    (hgood : ∀ x ∈ all, Good x) (p : BDoc × List BDoc) (hmem : ∀ x ∈ chunkDocs p, x ∈ all)
    (hsize : p.2.length + 1 ≤ n) :
    ∃ ch, decodePayload (mkChunk p).payload = .ok ch ∧ ch.structured = (chunkDocs p).map project := by
  have hhead : p.1 ∈ all := hmem p.1 (by simp [chunkDocs])
  obtain ⟨gw, gl, gts, gd, gnm⟩ := hgood p.1 hhead
  have hsimp : ∀ x ∈ p.2, SimDoc p.1 x := by
    intro x hx
    have hx' := hmem x (by simp [chunkDocs, hx])
    exact simDoc_trans _ _ _ (simDoc_symm _ _ (hsimAll p.1 hhead)) (hsimAll x hx')
  exact chunk_roundtrip p.1 p.2 gw gl gts hsimp gd
    (by intro x hx; exact (hgood x (hmem x (by simp [chunkDocs, hx]))).2.2.2.1)
    gnm (by omega)
    (by
      have a : p.2.length < 2 ^ 32 := by omega
      have := Nat.mul_lt_mul'' gnm a
      have e : (2 : Nat) ^ 32 * 2 ^ 32 = 2 ^ 64 := by decide
      omega)

/-- **End to end, for the batch collector, every chunk size, every number of documents.**  Add `d0` and
then any documents `ds` of its schema to a fresh batch collector: every `Add` is accepted, `Resolve`
returns one metric chunk per run of consecutive documents, the runs concatenated are `d0 :: ds`, and
the reader decodes every chunk to exactly its documents with the non-metric leaves removed. -/
theorem batch_collector_roundtrip (n : Nat) (h1 : 1 ≤ n) (hn : n < 2 ^ 32) (d0 : BDoc) (ds : List BDoc)
    (hsim : ∀ d ∈ ds, SimDoc d0 d) (hgood : ∀ d ∈ d0 :: ds, Good d) :
    ∃ runs : List (BDoc × List BDoc),
      ((d0 :: ds).foldl (fun (b : Batch) d => (b.add d).1) (Batch.new n)).resolve = some (runs.map mkChunk) ∧
      (runs.map chunkDocs).flatten = d0 :: ds ∧
      ∀ p ∈ runs, ∃ ch, decodePayload (mkChunk p).payload = .ok ch ∧ ch.structured = (chunkDocs p).map project := by
  obtain ⟨runs, g, hall⟩ := bg_run n h1 d0 ds hsim
  obtain ⟨_, hcase⟩ := g
  have hne : runs ≠ [] := by intro e; rw [e] at hall; simp at hall
  rcases hcase with ⟨hr, _⟩ | ⟨_, hallh⟩
  · exact absurd hr hne
  · refine ⟨runs, ?_, hall, ?_⟩
    · unfold Batch.resolve
      have := allHold_resolve n _ runs [] hallh
      rw [List.nil_append] at this
      exact this
    · intro p hp
      have simTo : ∀ x ∈ d0 :: ds, SimDoc d0 x := by
        intro x hx
        rcases List.mem_cons.1 hx with rfl | hx
        · exact simDoc_refl _
        · exact hsim x hx
      have hmem : ∀ x ∈ chunkDocs p, x ∈ d0 :: ds := by
        intro x hx; rw [← hall]
        simp only [List.mem_flatten, List.mem_map]
        exact ⟨chunkDocs p, ⟨p, hp, rfl⟩, hx⟩
      -- the size of the run
      have hsize : p.2.length + 1 ≤ n := by
        have : ∀ (cs : List Better) (ps : List (BDoc × List BDoc)), AllHold n cs ps → ∀ q ∈ ps, q.2.length + 1 ≤ n := by
          intro cs
          induction cs with
          | nil => intro ps h q hq; cases ps <;> simp [AllHold] at h hq
          | cons c cs ih =>
            intro ps h q hq
            cases ps with
            | nil => simp at hq
            | cons p0 ps =>
              simp only [AllHold] at h
              rcases List.mem_cons.1 hq with rfl | hq
              · exact h.2.1
              · exact ih ps h.2.2 q hq
        exact this _ runs hallh p hp
      exact run_decodes n hn d0 (d0 :: ds) simTo hgood p hmem hsize

/-- **End to end, for the dynamic collector.**  Documents of one schema have one schema key
(`sim_schemaKey`), so the dynamic collector holds exactly one batch collector and everything
`batch_collector_roundtrip` says holds of it. -/
theorem dynamic_collector_roundtrip (n : Nat) (h1 : 1 ≤ n) (hn : n < 2 ^ 32) (d0 : BDoc) (ds : List BDoc)
    (hsim : ∀ d ∈ ds, SimDoc d0 d) (hgood : ∀ d ∈ d0 :: ds, Good d) :
    ∃ runs : List (BDoc × List BDoc),
      ((d0 :: ds).foldl (fun (c : Dynamic) d => (c.add d).1) (Dynamic.new n)).resolve = some (runs.map mkChunk) ∧
      (runs.map chunkDocs).flatten = d0 :: ds ∧
      ∀ p ∈ runs, ∃ ch, decodePayload (mkChunk p).payload = .ok ch ∧ ch.structured = (chunkDocs p).map project := by
  obtain ⟨runs, hr, hall, hdec⟩ := batch_collector_roundtrip n h1 hn d0 ds hsim hgood
  refine ⟨runs, ?_, hall, hdec⟩
  have hch := dynamic_one_schema n d0 ds hsim
  generalize (d0 :: ds).foldl (fun (c : Dynamic) d => (c.add d).1) (Dynamic.new n) = c at hch
  obtain ⟨m, chunks, hash⟩ := c
  simp only at hch
  subst hch
  rw [dynamic_resolve_one]
  exact hr

/-- **End to end, for the dynamic collector, any sequence of schemas.**  The documents are any
sequence of runs `(head, tail)`; inside a run every document has the head's schema, and consecutive
runs have different schema keys (what is excluded is only two different schemas with one key, the
collision the collector cannot see).  Every chunk `Resolve` returns decodes to exactly its documents,
and the chunks' documents concatenated are all the documents, in order. -/
theorem dynamic_collector_any_schemas (n : Nat) (h1 : 1 ≤ n) (hn : n < 2 ^ 32)
    (s0 : BDoc × List BDoc) (segs : List (BDoc × List BDoc))
    (hsim : ∀ s ∈ s0 :: segs, ∀ d ∈ s.2, SimDoc s.1 d) (hadj : AdjDiff (s0 :: segs))
    (hgood : ∀ s ∈ s0 :: segs, ∀ d ∈ chunkDocs s, Good d) :
    ∃ runs : List (BDoc × List BDoc),
      (((s0 :: segs).flatMap chunkDocs).foldl (fun (c : Dynamic) d => (c.add d).1) (Dynamic.new n)).resolve =
        some (runs.map mkChunk) ∧
      (runs.map chunkDocs).flatten = (s0 :: segs).flatMap chunkDocs ∧
      ∀ p ∈ runs, ∃ ch, decodePayload (mkChunk p).payload = .ok ch ∧ ch.structured = (chunkDocs p).map project := by
  have hch := dynamic_runs n s0 segs hsim hadj
  obtain ⟨runs, hr, hall, hdec⟩ := resolve_batches n
    (fun p => ∃ ch, decodePayload (mkChunk p).payload = .ok ch ∧ ch.structured = (chunkDocs p).map project)
    (s0 :: segs) [] (by
      intro s hs
      exact batch_collector_roundtrip n h1 hn s.1 s.2 (hsim s hs) (hgood s hs))
  refine ⟨runs, ?_, hall, hdec⟩
  unfold Dynamic.resolve
  rw [hch]
  rw [List.map_nil, List.nil_append] at hr
  exact hr

/-- **End to end, for the schema-aware streaming collector**: on documents of one schema it never
flushes for a schema change, so its inner streaming collector is in exactly the state
`streaming_collector_roundtrip` describes. -/
theorem streaming_dynamic_collector_roundtrip (n : Nat) (h1 : 1 ≤ n) (hn : n < 2 ^ 32) (d0 : BDoc) (ds : List BDoc)
    (hsim : ∀ d ∈ ds, SimDoc d0 d) (hgood : ∀ d ∈ d0 :: ds, Good d) :
    ∃ (chs : List (BDoc × List BDoc)) (cur : Option (BDoc × List BDoc)),
      let c := ((d0 :: ds).foldl (fun (c : StreamingDynamic) d => (c.add d).1) (StreamingDynamic.new n)).s
      logDocs c.out = chs.map mkChunk ∧
      (∀ p, cur = some p → c.inner.resolve = some [mkChunk p]) ∧
      allDocs chs cur = d0 :: ds ∧
      ∀ p, (p ∈ chs ∨ cur = some p) →
        ∃ ch, decodePayload (mkChunk p).payload = .ok ch ∧ ch.structured = (chunkDocs p).map project := by
  rw [sd_one_schema n d0 ds hsim]
  exact streaming_collector_roundtrip n h1 hn d0 ds hsim hgood

/-- **End to end, for the schema-aware streaming collector, any sequence of schemas.**  Same
hypotheses as `dynamic_collector_any_schemas`.  What reached the writer is one metric chunk per run in
`chs`, the pending chunk is the run `p`, all of them concatenated are all the documents in order (a
change of schema key flushes the pending chunk, losing nothing), and every chunk decodes to exactly
its documents. -/
theorem streaming_dynamic_collector_any_schemas (n : Nat) (h1 : 1 ≤ n) (hn : n < 2 ^ 32)
    (s0 : BDoc × List BDoc) (segs : List (BDoc × List BDoc))
    (hsim : ∀ s ∈ s0 :: segs, ∀ d ∈ s.2, SimDoc s.1 d) (hadj : AdjDiff (s0 :: segs))
    (hgood : ∀ s ∈ s0 :: segs, ∀ d ∈ chunkDocs s, Good d) :
    ∃ (chs : List (BDoc × List BDoc)) (p : BDoc × List BDoc),
      let c := (((s0 :: segs).flatMap chunkDocs).foldl (fun (c : StreamingDynamic) d => (c.add d).1)
        (StreamingDynamic.new n)).s
      logDocs c.out = chs.map mkChunk ∧
      c.inner.resolve = some [mkChunk p] ∧
      allDocs chs (some p) = (s0 :: segs).flatMap chunkDocs ∧
      ∀ q, (q ∈ chs ∨ q = p) →
        ∃ ch, decodePayload (mkChunk q).payload = .ok ch ∧ ch.structured = (chunkDocs q).map project := by
  obtain ⟨chs, p, g, hall⟩ := sd_runs n h1 s0 segs hsim hadj
  refine ⟨chs, p, g.sg.logged, ?_, hall, ?_⟩
  · obtain ⟨⟨a1, a2, a3, a4, _, a6, _⟩, _, _⟩ := g.sg.pend
    simp only [Better.resolve, a1, a4, mkChunk, a6, a2, a3]
  · intro q hq
    have hinsim : InSim q := by
      rcases hq with hq | rfl
      · exact g.runs q hq
      · exact g.pend
    have hsize : q.2.length + 1 ≤ n := by
      rcases hq with hq | rfl
      · exact g.sg.small q hq
      · exact g.sg.pend.2.2
    have hg : ∀ x ∈ chunkDocs q, Good x := by
      intro x hx
      have hmem : x ∈ (s0 :: segs).flatMap chunkDocs := by
        rw [← hall]
        rcases hq with hq | rfl
        · simp only [allDocs, List.mem_append, List.mem_flatten, List.mem_map]
          exact Or.inl ⟨chunkDocs q, ⟨q, hq, rfl⟩, hx⟩
        · simp only [allDocs, List.mem_append]
          exact Or.inr hx
      obtain ⟨s, hs, hxs⟩ := List.mem_flatMap.1 hmem
      exact hgood s hs x hxs
    exact run_decodes n hn q.1 (chunkDocs q)
      (by intro x hx
          rcases List.mem_cons.1 hx with rfl | hx
          · exact simDoc_refl _
          · exact hinsim x hx)
      hg q (fun x hx => hx) hsize

/-! non-vacuity: `{a: 5, s: "x", n: {b: <double>}}` followed by two more samples of that schema
(the string leaf differs, which is allowed) meets every hypothesis of `chunk_roundtrip` -/
example : ∃ c, decodePayload (payloadOf
      (.cons [97] (.int64 5#64) (.cons [115] (.other 2 (le32 2 ++ [120] ++ [0]))
        (.cons [110] (.doc (.cons [98] (.double 7#64) .nil)) .nil)))
      (vals (.cons [97] (.int64 5#64) (.cons [115] (.other 2 (le32 2 ++ [120] ++ [0]))
        (.cons [110] (.doc (.cons [98] (.double 7#64) .nil)) .nil))))
      ([ .cons [97] (.int64 18446744073709551615#64) (.cons [115] (.other 2 (le32 2 ++ [121] ++ [0]))
          (.cons [110] (.doc (.cons [98] (.double 0#64) .nil)) .nil)),
         .cons [97] (.int64 9223372036854775807#64) (.cons [115] (.other 2 (le32 2 ++ [120] ++ [0]))
          (.cons [110] (.doc (.cons [98] (.double 7#64) .nil)) .nil)) ].map vals)) = .ok c ∧
    c.structured.length = 3 := by
  have hstr : ∀ b : Nat, OtherOk 2 (le32 2 ++ [b] ++ [0]) := fun b =>
    otherOk_string 2 (Or.inl rfl) [b] (by simp)
  obtain ⟨c, h1, h2⟩ := chunk_roundtrip
    (.cons [97] (.int64 5#64) (.cons [115] (.other 2 (le32 2 ++ [120] ++ [0]))
      (.cons [110] (.doc (.cons [98] (.double 7#64) .nil)) .nil)))
    [ .cons [97] (.int64 18446744073709551615#64) (.cons [115] (.other 2 (le32 2 ++ [121] ++ [0]))
        (.cons [110] (.doc (.cons [98] (.double 0#64) .nil)) .nil)),
      .cons [97] (.int64 9223372036854775807#64) (.cons [115] (.other 2 (le32 2 ++ [120] ++ [0]))
        (.cons [110] (.doc (.cons [98] (.double 7#64) .nil)) .nil)) ]
    (by
      refine ⟨by intro b hb; simp at hb; omega, trivial, by intro b hb; simp at hb; omega, hstr 120,
        by intro b hb; simp at hb; omega, ⟨⟨by intro b hb; simp at hb; omega, trivial, trivial⟩,
          by simp [serDoc_length, serElems, serVal, le64, leN, BVal.tag]⟩, trivial⟩)
    (by simp [serDoc_length, serElems, serVal, le32, le64, leN, BVal.tag])
    (by simp [NoTs, NoTsVal])
    (by intro d hd; simp at hd; rcases hd with rfl | rfl <;> simp [SimDoc, SimVal])
    (by simp [DatesOk, DatesOkVal])
    (by intro d hd; simp at hd; rcases hd with rfl | rfl <;> simp [DatesOk, DatesOkVal])
    (by decide) (by decide) (by decide)
  exact ⟨c, h1, by rw [h2]; rfl⟩

example : DatesOk (.cons [100] (.datetime 1600000000000#64) (.cons [101] (.doc (.cons [102] (.int64 5#64) .nil)) .nil)) := by
  refine ⟨?_, ⟨trivial, trivial⟩, trivial⟩
  show InNanoRange _
  unfold InNanoRange; decide

/-! non-vacuity of `dynamic_collector_any_schemas`: three runs `{a}×2, {b}, {a}` with chunk size 1 -/
theorem good_a (k : Nat) (hk : k ≠ 0 ∧ k < 256) (v : BitVec 64) : Good (.cons [k] (.int64 v) .nil) := by
  refine ⟨⟨by intro b hb; simp at hb; omega, trivial, trivial⟩, by simp [serDoc_length, serElems, serVal, le64, leN, BVal.tag], by simp [NoTs, NoTsVal], by simp [DatesOk, DatesOkVal], by simp [vals, extractDoc, extractVal]⟩

example : ∃ runs : List (BDoc × List BDoc),
    (([((.cons [97] (.int64 5#64) .nil : BDoc), [(.cons [97] (.int64 6#64) .nil : BDoc)]),
       (.cons [98] (.int64 5#64) .nil, []),
       (.cons [97] (.int64 7#64) .nil, [])].flatMap chunkDocs).foldl
        (fun (c : Dynamic) d => (c.add d).1) (Dynamic.new 1)).resolve = some (runs.map mkChunk) ∧
    ((runs.map chunkDocs).flatten).length = 4 := by
  obtain ⟨runs, h1, h2, _⟩ := dynamic_collector_any_schemas 1 (by omega) (by omega)
    (.cons [97] (.int64 5#64) .nil, [.cons [97] (.int64 6#64) .nil])
    [(.cons [98] (.int64 5#64) .nil, []), (.cons [97] (.int64 7#64) .nil, [])]
    (by intro s hs d hd
        simp at hs
        rcases hs with rfl | rfl | rfl
        · simp at hd; subst hd; simp [SimDoc, SimVal]
        · simp at hd
        · simp at hd)
    (by simp [AdjDiff, HeadDiff, schemaKey, hashElems, hashVal])
    (by intro s hs d hd
        simp at hs
        rcases hs with rfl | rfl | rfl <;> simp [chunkDocs] at hd
        · rcases hd with rfl | rfl <;> exact good_a 97 (by omega) _
        · subst hd; exact good_a 98 (by omega) _
        · subst hd; exact good_a 97 (by omega) _)
  exact ⟨runs, h1, by rw [h2]; simp [chunkDocs]⟩

/-! ### at the byte level: the collectors' output as a file, read back by `ReadChunks`

`Lemmas/FileE2E.lean`: the outer documents `{_id, type, doc | data}` are serialised (`wireDoc`, `fileBytes`), the reader
model frames, parses and decodes them; zlib is a pair of functions of which only `inflate (deflate p) = p` with a clean
end is assumed (`ZlibOK`).  The remaining hypotheses concern sizes (`SizesOK`: every written document below 2^31 bytes;
a metadata document, which is user input, well-formed). -/

open Ftdc.Props.C07 in
/-- **the streaming collector, end to end at the byte level** (every chunk size, every number of documents, any
schemas, rejected documents included): the BYTES handed to the writer are read back without error, and the samples of
the chunks delivered followed by the pending samples are exactly the accepted documents' values, once each, in order -/
theorem streaming_file_roundtrip (n : Nat) (hn : n < 2 ^ 32) (ds : List BDoc) (hds : ∀ d ∈ ds, DocOK d)
    (deflate : Bytes → Bytes) (inflate : Inflate) (hz : FileE2E.ZlibOK deflate inflate) (now : I64)
    (hsz : FileE2E.SizesOK deflate now (loggedDocs (ds.foldl addLog (Streaming.new n, [])).1.out)) :
    let r := ds.foldl addLog (Streaming.new n, [])
    let file := FileE2E.fileBytes deflate now (loggedDocs r.1.out)
    (readAll inflate file).err = none ∧
    ((readAll inflate file).chunks.map Chunk.rows).flatten ++ r.1.inner.samples =
      r.2.map fun x => (extractDoc x).map (·.1) :=
  FileE2E.streaming_file_roundtrip n hn ds hds deflate inflate hz now hsz

open Ftdc.Props.C07 in
/-- **the batch collector, end to end at the byte level**: what `Resolve` returns, as bytes, is read back without error
into exactly the samples the collector holds (= the accepted ones, `C07.batch_faithful_log`) -/
theorem batch_file_roundtrip (n : Nat) (hn : n < 2 ^ 32) (ds : List BDoc) (hds : ∀ d ∈ ds, DocOK d)
    (deflate : Bytes → Bytes) (inflate : Inflate) (hz : FileE2E.ZlibOK deflate inflate) (now : I64)
    (out : List OutDoc) (hres : (ds.foldl (fun b d => (b.add d).1) (Batch.new n)).resolve = some out)
    (hsz : FileE2E.SizesOK deflate now out) :
    (readAll inflate (FileE2E.fileBytes deflate now out)).err = none ∧
    ((readAll inflate (FileE2E.fileBytes deflate now out)).chunks.map Chunk.rows).flatten =
      (ds.foldl (fun b d => (b.add d).1) (Batch.new n)).samples :=
  FileE2E.batch_file_roundtrip n hn ds hds deflate inflate hz now out hres hsz

open Ftdc.Props.C07 in
theorem good_docOK (d : BDoc) (h : Good d) : DocOK d := by
  obtain ⟨h1, h2, h3, _, h5⟩ := h
  exact ⟨h1, h2, h3, by simpa [vals] using h5⟩

open Ftdc.Props.C07 in
theorem structured_congr (a b : Chunk) (h1 : a.ref = b.ref) (h2 : a.rows = b.rows) : a.structured = b.structured := by
  unfold Chunk.structured; rw [h1, h2]

open Ftdc.Props.C07 in
/-- **`ReadStructuredMetrics` of the bytes a streaming collector has written**: add `d0` and any documents `ds` of its
schema (every chunk size, every count); the bytes handed to the writer, read back by the reader model, give - chunk by
chunk and in order - exactly the documents added (all but those of the pending chunk) with their non-metric leaves
removed, and no error. -/
theorem streaming_file_structured (n : Nat) (h1 : 1 ≤ n) (hn : n < 2 ^ 32) (d0 : BDoc) (ds : List BDoc)
    (hsim : ∀ d ∈ ds, SimDoc d0 d) (hgood : ∀ d ∈ d0 :: ds, Good d)
    (deflate : Bytes → Bytes) (inflate : Inflate) (hz : FileE2E.ZlibOK deflate inflate) (now : I64)
    (hsz : FileE2E.SizesOK deflate now
      (logDocs ((d0 :: ds).foldl (fun (c : Streaming) d => (c.add d).1) (Streaming.new n)).out)) :
    ∃ (chs : List (BDoc × List BDoc)) (cur : Option (BDoc × List BDoc)),
      allDocs chs cur = d0 :: ds ∧
      let file := FileE2E.fileBytes deflate now
        (logDocs ((d0 :: ds).foldl (fun (c : Streaming) d => (c.add d).1) (Streaming.new n)).out)
      (readAll inflate file).err = none ∧
      (readAll inflate file).chunks.map Chunk.structured = chs.map fun p => (chunkDocs p).map project := by
  obtain ⟨chs, cur, hlog, _, hall, hdec⟩ := streaming_collector_roundtrip n h1 hn d0 ds hsim hgood
  refine ⟨chs, cur, hall, ?_⟩
  intro file
  have hck := FileE2E.streaming_logged_chunkOK n hn (d0 :: ds) (fun d hd => good_docOK d (hgood d hd))
  have hck' : ∀ o ∈ logDocs ((d0 :: ds).foldl (fun (c : Streaming) d => (c.add d).1) (Streaming.new n)).out, ChunkOK o := hck
  obtain ⟨e1, e2⟩ := FileE2E.file_roundtrip deflate inflate hz now _
    (fun o ho => ⟨hck' o ho, (hsz o ho).1, (hsz o ho).2⟩)
  refine ⟨e1, ?_⟩
  -- the file's chunks have the reference documents and rows of the chunks `decodePayload` returns
  have key : ∀ (ps : List (BDoc × List BDoc)) (cs : List Chunk),
      (∀ p ∈ ps, ChunkOK (mkChunk p) ∧
        ∃ ch, decodePayload (mkChunk p).payload = .ok ch ∧ ch.structured = (chunkDocs p).map project) →
      cs.map (fun c => (c.ref, c.rows)) = (ps.map mkChunk).filterMap FileE2E.chunkPart →
      cs.map Chunk.structured = ps.map fun p => (chunkDocs p).map project := by
    intro ps
    induction ps with
    | nil => intro cs _ h; simp at h; simp [h]
    | cons p ps ih =>
      intro cs hp h
      cases cs with
      | nil => simp [mkChunk, FileE2E.chunkPart] at h
      | cons c cs =>
        simp only [List.map_cons, List.filterMap_cons, mkChunk, FileE2E.chunkPart, List.cons.injEq, Prod.mk.injEq] at h
        obtain ⟨⟨hr, hrows⟩, hrest⟩ := h
        obtain ⟨hck, ch, hd, hstr⟩ := hp p (List.mem_cons_self ..)
        obtain ⟨g1, g2⟩ := FileE2E.decoded_ref_rows _ _ _ _ hck ch hd
        simp only [List.map_cons]
        rw [ih cs (fun q hq => hp q (List.mem_cons_of_mem _ hq)) hrest]
        congr 1
        rw [← hstr]
        exact structured_congr c ch (by rw [hr, g1]) (by rw [hrows, g2])
  apply key chs _ ?_ (by rw [← hlog]; exact e2)
  intro p hp
  refine ⟨?_, hdec p (Or.inl hp)⟩
  apply hck'
  rw [hlog]
  exact List.mem_map.mpr ⟨p, hp, rfl⟩

/-- **the payload with the regenerated Go encoder loop in it decodes to the samples**: reference document, the two
counts, then the bytes of the values that the translation of `getPayload`'s loops (`Gen.Better.getPayload_region`,
rewritten from the Go text on every run) hands to `encodeValue` — for every delta table that holds the per-metric
deltas of the samples. -/
theorem go_encoder_loop_roundtrip (ref : BDoc) (rows : List Row) (ds : List Int) (md : Int)
    (hw : WFDoc ref) (hl : (serDoc ref).length < 2 ^ 31) (hts : NoTs ref)
    (hrows : ∀ r ∈ rows, r.length = (vals ref).length)
    (hnm : (vals ref).length < 2 ^ 32) (hn : rows.length < 2 ^ 32)
    (hsz : (vals ref).length * rows.length < 2 ^ 63)
    (htab : PayloadTie.TableHolds ds md (vals ref) rows) (hr : ∀ x ∈ ds, -2 ^ 63 ≤ x ∧ x < 2 ^ 63) :
    ∃ c, decodePayload (serDoc ref ++ le32 (vals ref).length ++ le32 rows.length
          ++ PayloadTie.emitBytes (Gen.Better.getPayload_region ds md (rows.length : Int) ((vals ref).length : Int) []))
        = .ok c ∧ c.ref = ref ∧ c.rows = vals ref :: rows := by
  rw [← PayloadTie.payloadOf_is_go_loop ref (vals ref) rows ds md htab hr hsz]
  exact decode_payload ref rows hw hl hts hrows hnm hn (by omega)

/-- **`undelta` as written in util.go** (`Gen.Util.undelta`, regenerated on every run: the `make`, the `range` loop with its
in-place prefix sums) **is the model's `undelta`** on the 64-bit patterns (`B x` = the int64 holding `x`; Go's additions wrap and
reduction modulo 2^64 commutes with them) -/
theorem go_undelta_is_model (v : Int) (ds : List Int) :
    (Gen.Util.undelta v ds).map UndeltaTie.B = undelta (UndeltaTie.B v) (ds.map UndeltaTie.B) :=
  UndeltaTie.undelta_tie v ds

/-- so the decoder's last step, as written in Go, inverts the encoder's deltas: whenever the decoded deltas are the wrapping
differences of a metric's values, `undelta` returns the starting value followed by exactly those values -/
theorem go_undelta_inverts_deltas (v : Int) (ds : List Int) (xs : List I64)
    (h : ds.map UndeltaTie.B = deltas (UndeltaTie.B v) xs) :
    (Gen.Util.undelta v ds).map UndeltaTie.B = UndeltaTie.B v :: xs := by
  rw [go_undelta_is_model, h, undelta_deltas]

/-- a run of the generated definition, with a wrap: 2^63 - 1 plus 1 is -2^63 as an int64 -/
example : (Gen.Util.undelta 5 [1, 0, -7]) = [5, 6, 6, -1] := by decide
example : UndeltaTie.B (9223372036854775807 + 1) = UndeltaTie.B (-9223372036854775808) := by decide

end Ftdc.Props.C01
