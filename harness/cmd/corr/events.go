package main

import (
	"bytes"
	"context"
	"encoding/binary"
	"fmt"
	"math"
	"math/rand"
	"strings"
	"time"

	"github.com/evergreen-ci/birch"
	"github.com/mongodb/ftdc"
	"github.com/mongodb/ftdc/events"
)

func init() {
	commands["events"] = cmdEvents
	commands["perf-rt"] = cmdPerfRT
	streams["events"] = streamEvents
}

// snapshotCollector records what an event collector hands to the wrapped ftdc collector
// (marshalled at the time of the call) and forwards it to a real collector.
type snapshotCollector struct {
	ftdc.Collector
	docs  [][]byte
	failN map[int]bool // Add calls (0-based) that fail
	calls int
}

func (s *snapshotCollector) Add(in interface{}) error {
	i := s.calls
	s.calls++
	if s.failN[i] {
		return fmt.Errorf("scripted collector failure %d", i)
	}
	var b []byte
	switch v := in.(type) {
	case birch.DocumentMarshaler:
		d, err := v.MarshalDocument()
		if err != nil {
			return err
		}
		b, _ = d.MarshalBSON()
	case *birch.Document:
		b, _ = v.MarshalBSON()
	default:
		return fmt.Errorf("snapshot collector: unexpected type %T", in)
	}
	s.docs = append(s.docs, b)
	return s.Collector.Add(in)
}

func perfFields(p *events.Performance) string {
	f := 0
	if p.Gauges.Failed {
		f = 1
	}
	return fmt.Sprintf("%d,%d,%d,%d,%d,%d,%d,%d,%d,%d,%d", p.Timestamp.UnixNano()/1e6, p.ID, p.Counters.Number, p.Counters.Operations,
		p.Counters.Size, p.Counters.Errors, int64(p.Timers.Duration), int64(p.Timers.Total), p.Gauges.State, p.Gauges.Workers, f)
}

func setPerf(p *events.Performance, s string) {
	v := ints64(strings.Split(s, ","))
	p.Timestamp = time.Unix(v[0]/1000, v[0]%1000*1000000)
	if v[0] > 0 && v[0]%2 == 1 {
		// a time stamp in the upper half of its millisecond: what is persisted is the millisecond it lies in (truncation)
		p.Timestamp = p.Timestamp.Add(700 * time.Microsecond)
	}
	p.ID = v[1]
	p.Counters = events.PerformanceCounters{Number: v[2], Operations: v[3], Size: v[4], Errors: v[5]}
	p.Timers = events.PerformanceTimers{Duration: time.Duration(v[6]), Total: time.Duration(v[7])}
	p.Gauges = events.PerformanceGauges{State: v[8], Workers: v[9], Failed: v[10] != 0}
}

// docFields renders a marshalled performance document as the 11 fields (parsed independently)
func docFields(b []byte) string {
	kids, err := parseDocStrict(b)
	if err != nil {
		return "X"
	}
	get := map[string]int64{}
	var walk func(prefix string, ks []*Node)
	walk = func(prefix string, ks []*Node) {
		for _, k := range ks {
			switch k.Tag {
			case 0x03:
				walk(prefix+k.Key+".", k.Kids)
			case 0x12, 0x09:
				get[prefix+k.Key] = int64(binary.LittleEndian.Uint64(k.Raw))
			case 0x08:
				get[prefix+k.Key] = int64(k.Raw[0])
			default:
				get[prefix+k.Key] = math.MinInt64
			}
		}
	}
	walk("", kids)
	names := []string{"ts", "id", "counters.n", "counters.ops", "counters.size", "counters.errors", "timers.dur", "timers.total", "gauges.state", "gauges.workers", "gauges.failed"}
	if len(get) != len(names) {
		return "X"
	}
	out := make([]string, len(names))
	for i, n := range names {
		v, ok := get[n]
		if !ok {
			return "X"
		}
		out[i] = fmt.Sprint(v)
	}
	return strings.Join(out, ",")
}

// events <kind> <n> | <tokens>   kind: basic | sampling | passthrough
// token: E:<11 ints>  a fresh event;  R<k>:<11 ints>  the pointer used by token k, its fields overwritten first;  nil
func cmdEvents(o *Out, line string, f []string) {
	sec := sections(f)
	kind, n := sec[0][0], int(atoi64(sec[0][1]))
	snap := &snapshotCollector{Collector: ftdc.NewBatchCollector(3)}
	var c events.Collector
	switch kind {
	case "basic":
		c = events.NewBasicCollector(snap)
	case "basicrefuse":
		// the wrapped collector refuses its n-th Add (0-based): that AddEvent fails, the event still counts in the totals
		snap.failN = map[int]bool{n: true}
		c = events.NewBasicCollector(snap)
	case "sampling":
		c = events.NewSamplingCollector(snap, n)
	case "passthrough":
		c = events.NewPassthroughCollector(snap)
	case "randomT", "randomF": // n = percent (may be <= 0 or > 100: then the outcome is determined)
		c = events.NewRandomSamplingCollector(snap, kind == "randomT", n)
	case "interval0":
		c = events.NewIntervalCollector(snap, 0)
	case "intervalInf":
		c = events.NewIntervalCollector(snap, time.Hour)
	case "intervalT": // a real interval: which events are written depends on the clock
		c = events.NewIntervalCollector(snap, 300*time.Microsecond)
	default:
		panic(kind)
	}
	gated := kind == "randomT" || kind == "randomF" || strings.HasPrefix(kind, "interval")
	undetermined := kind == "intervalT" || ((kind == "randomT" || kind == "randomF") && n >= 1 && n <= 100)
	ptrs := map[int]*events.Performance{}
	var res []string
	var vals []string // value of each non-nil event at call time ("" for nil)
	for i, tok := range sec[1] {
		var p *events.Performance
		switch {
		case tok == "nil":
		case tok[0] == 'E':
			p = &events.Performance{}
			setPerf(p, tok[2:])
		case tok[0] == 'R':
			c := strings.Index(tok, ":")
			p = ptrs[int(atoi64(tok[1:c]))]
			if p == nil {
				p = &events.Performance{}
			}
			setPerf(p, tok[c+1:])
		}
		ptrs[i] = p
		if p != nil {
			vals = append(vals, perfFields(p))
		} else {
			vals = append(vals, "")
		}
		if err := c.AddEvent(p); err != nil {
			res = append(res, "e")
		} else {
			res = append(res, "o")
		}
		if kind == "intervalT" && i%3 == 2 {
			time.Sleep(200 * time.Microsecond)
		}
	}
	var written []string
	for _, d := range snap.docs {
		written = append(written, docFields(d))
	}
	if undetermined {
		o.emit(line, fmt.Sprintf("%s written=SUBSEQ", strings.Join(res, "")))
	} else {
		o.emit(line, fmt.Sprintf("%s written=[%s]", strings.Join(res, ""), strings.Join(written, " ")))
	}
	o.nontrivial(line)
	o.count("events-" + kind)

	// ---- oracle (C14), value semantics: event k = the value of *in when AddEvent was called ----
	var want []string
	var cur []int64
	count := 0
	for i, v := range vals {
		if v == "" {
			if res[i] != "e" {
				o.violation(line, "a nil event was accepted", nil)
				return
			}
			continue
		}
		if kind == "basicrefuse" && count == n {
			if res[i] != "e" {
				o.violation(line, "the wrapped collector refused the sample but AddEvent reported success", nil)
				return
			}
		} else if res[i] != "o" {
			o.violation(line, "a non-nil event was refused", nil)
			return
		}
		e := ints64(strings.Split(v, ","))
		switch kind {
		case "passthrough":
			want = append(want, v)
			continue
		}
		if cur == nil {
			cur = append([]int64{}, e...)
		} else {
			id := e[1]
			if id == 0 {
				id = cur[1] + 1
			}
			for _, j := range []int{2, 3, 4, 5, 6, 7} {
				cur[j] += e[j]
			}
			cur[0], cur[1], cur[8], cur[9], cur[10] = e[0], id, e[8], e[9], e[10]
		}
		collect := true
		if kind == "sampling" {
			collect = count%n == 0
			count++
		}
		if kind == "basicrefuse" {
			collect = count != n // refused by the wrapped collector: not persisted, but part of every later total
			count++
		}
		switch kind {
		case "randomT", "randomF":
			collect = n > 100 || undetermined // undetermined: `want` holds the totals of every event, see below
		case "intervalInf":
			collect = count == 0
			count++
		}
		if collect {
			want = append(want, i64s(cur))
		}
	}
	if undetermined {
		// whatever the random generator or the clock decided: every persisted sample is the running total of ALL events up
		// to some event, in order (and the interval collector persists the first event)
		j := 0
		for _, w := range written {
			for j < len(want) && want[j] != w {
				j++
			}
			if j == len(want) {
				o.violation(line, "a persisted sample is not the running total of all events up to any event (in order)", map[string]string{"sample": w})
				return
			}
			j++
		}
		if kind == "intervalT" && len(want) > 0 && (len(written) == 0 || written[0] != want[0]) {
			o.violation(line, "the interval collector did not persist the first event", nil)
			return
		}
		want = written
	}
	_ = gated
	if strings.Join(want, " ") != strings.Join(written, " ") {
		k := 0
		for k < len(want) && k < len(written) && want[k] == written[k] {
			k++
		}
		w, g := "", ""
		if k < len(want) {
			w = want[k]
		}
		if k < len(written) {
			g = written[k]
		}
		o.violation(line, "persisted samples differ from the running totals of the events", map[string]interface{}{"index": k, "want": w, "got": g})
		return
	}
	// decoded through a real FTDC collector, resolved through the EVENT collector itself (twice: resolving is reading,
	// it persists nothing and changes nothing)
	_, _ = c.Resolve()
	_ = c.Info()
	if len(snap.docs) != len(written) {
		o.violation(line, "Resolve on the event collector persisted a sample (resolving must not add to what the events produced)",
			map[string]int{"persisted_by_events": len(written), "after_resolve": len(snap.docs)})
		return
	}
	if out, err := c.Resolve(); err == nil {
		ctx, cancel := context.WithCancel(context.Background())
		defer cancel()
		docs, err := iterDocs(ftdc.ReadStructuredMetrics(ctx, bytes.NewReader(out)))
		if err != nil {
			o.violation(line, "wrapped FTDC collector output does not decode", err.Error())
			return
		}
		var got []string
		for _, d := range docs {
			got = append(got, docFields(unhx(d)))
		}
		if strings.Join(got, " ") != strings.Join(written, " ") {
			o.violation(line, "samples decoded from the wrapped FTDC collector differ from what was persisted", nil)
		}
	} else if len(written) > 0 {
		o.violation(line, "wrapped FTDC collector cannot resolve", err.Error())
	}
}

// perf-rt <11 ints>: MarshalDocument / UnmarshalDocument round trip
func cmdPerfRT(o *Out, line string, f []string) {
	p := &events.Performance{}
	setPerf(p, f[0])
	doc, err := p.MarshalDocument()
	if err != nil {
		o.emit(line, "err")
		return
	}
	q := &events.Performance{}
	if err := q.UnmarshalDocument(doc); err != nil {
		o.emit(line, "err")
		return
	}
	o.emit(line, perfFields(q))
	o.nontrivial(line)
	if perfFields(q) != perfFields(p) {
		o.violation(line, "a performance event does not survive MarshalDocument/UnmarshalDocument", map[string]string{"in": perfFields(p), "out": perfFields(q)})
	}
	// and through bytes
	if b, err := p.MarshalBSON(); err == nil {
		d2, err := birch.ReadDocument(b)
		r := &events.Performance{}
		if err != nil || r.UnmarshalDocument(d2) != nil || perfFields(r) != perfFields(p) {
			o.violation(line, "a performance event does not survive MarshalBSON/UnmarshalDocument", nil)
		}
	}
}

var evVals = []int64{0, 1, -1, 2, 7, 1000, math.MaxInt64, math.MinInt64, math.MaxInt64 - 1, 1 << 40, -(1 << 40)}

func randPerf(rng *rand.Rand, i int) string {
	v := make([]int64, 11)
	// time stamps in any order (events may be recorded out of order), sometimes equal
	v[0] = 1600000000000 + int64(rng.Intn(20))*1000 + int64(rng.Intn(3))*500 + int64(rng.Intn(2)) // odd: upper half of the millisecond (setPerf)
	if rng.Intn(3) != 0 {
		v[1] = int64(rng.Intn(4)) // id: zero and non-zero
	} else {
		v[1] = evVals[rng.Intn(len(evVals))]
	}
	for j := 2; j <= 9; j++ {
		switch rng.Intn(3) {
		case 0:
			v[j] = evVals[rng.Intn(len(evVals))]
		case 1:
			v[j] = int64(rng.Intn(100))
		default:
			v[j] = rng.Int63() - rng.Int63()
		}
	}
	v[10] = int64(rng.Intn(2))
	return i64s(v)
}

// sparsePerf: idle events - every counter and timer zero (gauges and time stamp still set), ids mostly left to
// the collector; mixed with events that change a single field
func sparsePerf(rng *rand.Rand, i int) string {
	v := make([]int64, 11)
	v[0] = 1600000000000 + int64(i)*1000
	if rng.Intn(5) == 0 {
		v[1] = int64(1 + rng.Intn(50))
	}
	if rng.Intn(2) == 0 {
		v[2+rng.Intn(6)] = int64(1 + rng.Intn(9))
	}
	if rng.Intn(2) == 0 {
		v[8], v[9] = int64(rng.Intn(3)), int64(rng.Intn(5))
	}
	v[10] = int64(rng.Intn(2))
	return i64s(v)
}

func streamEvents(o *Out, rng *rand.Rand, thorough bool, _ []string) {
	n := 400
	if thorough {
		n = 10000
	}
	for i := 0; i < n; i++ {
		kind := []string{"basic", "sampling", "passthrough", "randomT", "randomF", "interval0", "intervalInf", "intervalT", "basicrefuse"}[rng.Intn(9)]
		rate := 1 + rng.Intn(7)
		if kind == "basicrefuse" {
			rate = rng.Intn(6)
		}
		if kind == "randomT" || kind == "randomF" {
			rate = []int{-5, 0, 1, 30, 50, 80, 99, 100, 101, 150}[rng.Intn(10)]
		}
		L := 1 + rng.Intn(12)
		var toks []string
		gen := randPerf
		if i%4 == 3 {
			gen = sparsePerf
		}
		for k := 0; k < L; k++ {
			switch r := rng.Intn(10); {
			case r == 0:
				toks = append(toks, "nil")
			case r <= 2 && k > 0:
				toks = append(toks, fmt.Sprintf("R%d:%s", rng.Intn(k), gen(rng, k)))
			default:
				toks = append(toks, "E:"+gen(rng, k))
			}
		}
		run(o, fmt.Sprintf("events %s %d | %s", kind, rate, strings.Join(toks, " ")))
		run(o, "perf-rt "+randPerf(rng, i))
	}
	// the canonical reuse pattern: one struct, refilled for every event
	run(o, "events basic 1 | E:1600000000000,0,1,1,1,0,5,5,0,1,0 R0:1600000001000,0,1,1,1,0,5,5,0,1,0 R0:1600000002000,0,1,1,1,0,5,5,0,1,0 R0:1600000003000,0,1,1,1,0,5,5,0,1,0")
}
