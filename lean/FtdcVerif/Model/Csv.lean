import FtdcVerif.Model.Views
/-
  csv.go: `WriteCSV`, `DumpCSV`, `ConvertFromCSV` at the level of records (lists of fields);
  quoting and splitting of records is `encoding/csv` (external, law: read (write rs) = rs).
  Integers are rendered and parsed by the concrete decimal functions below (`strconv`).
-/
namespace Ftdc

/-- `strconv.FormatInt(v, 10)` -/
def itoa (v : Int) : Bytes :=
  if v < 0 then 45 :: decimal v.natAbs else decimal v.natAbs

def parseDigits : Bytes → Nat → Option Nat
  | [], acc => some acc
  | d :: r, acc => if 48 ≤ d ∧ d ≤ 57 then parseDigits r (acc * 10 + (d - 48)) else none

/-- `strconv.Atoi` on the renderings of `itoa` (sign, then at least one digit) -/
def atoi : Bytes → Option Int
  | [] => none
  | 45 :: r => if r = [] then none else (parseDigits r 0).map fun n => -(n : Int)
  | 43 :: r => if r = [] then none else (parseDigits r 0).map fun n => (n : Int)
  | bs => (parseDigits bs 0).map fun n => (n : Int)

/-- `getRecord(i)`: integer-normalised values as decimal text (datetime columns are rendered as
RFC 3339 text by the library and are outside the round trip) -/
def Chunk.record (c : Chunk) (i : Nat) : List Bytes :=
  c.metrics.map fun m => itoa (m.values.getD i 0).toInt

def Chunk.header (c : Chunk) : List Bytes := c.metrics.map Metric.key

def Chunk.records (c : Chunk) : List (List Bytes) := (List.range c.nPoints).map c.record

/-- `WriteCSV`: records written, `false` = "unexpected schema change" error.
`numFields = none` until the header has been written (fix: a chunk may have no metrics). -/
def writeCsv : Option Nat → List Chunk → List (List Bytes) × Bool
  | _, [] => ([], true)
  | none, c :: cs =>
    let (r, ok) := writeCsv (some c.metrics.length) cs
    (c.header :: c.records ++ r, ok)
  | some numFields, c :: cs =>
    if numFields ≠ c.metrics.length then ([], false)
    else
      let (r, ok) := writeCsv (some numFields) cs
      (c.records ++ r, ok)

/-- `DumpCSV`: the records of every file `prefix.N.csv` -/
def dumpCsv : Option Nat → List (List Bytes) → List Chunk → List (List (List Bytes))
  | none, _, [] => []
  | some _, cur, [] => [cur]
  | none, cur, c :: cs => dumpCsv (some c.metrics.length) (cur ++ c.header :: c.records) cs
  | some numFields, cur, c :: cs =>
    if numFields ≠ c.metrics.length then
      cur :: dumpCsv (some c.metrics.length) (c.header :: c.records) cs
    else dumpCsv (some numFields) (cur ++ c.records) cs

/-- `ConvertFromCSV`, one record: the fields that parse as integers become int64 elements -/
def recordDoc (header record : List Bytes) : BDoc :=
  BDoc.ofList ((header.zip record).filterMap fun (k, f) => (atoi f).map fun v => (k, BVal.int64 (BitVec.ofInt 64 v)))

end Ftdc
