/-
  Bytes, little-endian words, unsigned varints (encoding/binary), core Lean only.
  Bytes are `Nat`s below 256 (side predicate `BytesOk`), see DESIGN §3.
-/
namespace Ftdc

abbrev Bytes := List Nat

def BytesOk (bs : Bytes) : Prop := ∀ b ∈ bs, b < 256

/-- little-endian encoding of `n` in `k` bytes (truncating) -/
def leN : Nat → Nat → Bytes
  | 0, _ => []
  | k+1, n => (n % 256) :: leN k (n / 256)

def le32 (n : Nat) : Bytes := leN 4 n
def le64 (n : Nat) : Bytes := leN 8 n

/-- little-endian value of a byte string -/
def rdLe : Bytes → Nat
  | [] => 0
  | b :: r => b + 256 * rdLe r

/-- interpret a 32-bit pattern as Go `int32` -/
def asInt32 (n : Nat) : Int := if n < 2 ^ 31 then (n : Int) else (n : Int) - 2 ^ 32

/-! ### encoding/binary unsigned varints -/

/-- `binary.PutUvarint` -/
def putUvarint (x : Nat) : Bytes :=
  if h : x < 128 then [x] else (x % 128 + 128) :: putUvarint (x / 128)
termination_by x
decreasing_by omega

/-- `binary.ReadUvarint` on a byte reader: `none` = any error (EOF, unexpected EOF, overflow).
`i` = number of bytes already consumed (at most 10 are read), `s` = current shift. -/
def readUvarintAux : Nat → Nat → Nat → Bytes → Option (Nat × Bytes)
  | 0, _, _, _ => none                       -- more than MaxVarintLen64 bytes: overflow
  | _+1, _, _, [] => none                    -- EOF / unexpected EOF
  | fuel+1, x, s, b :: rest =>
    if b < 128 then
      if fuel = 0 ∧ b > 1 then none           -- 10th byte may only be 0 or 1
      else some (x + b * 2 ^ s, rest)
    else readUvarintAux fuel (x + (b % 128) * 2 ^ s) (s + 7) rest

def readUvarint (bs : Bytes) : Option (Nat × Bytes) := readUvarintAux 10 0 0 bs

/-- Go `encodeValue(int64)`: the two's complement pattern as unsigned varint -/
def encodeValue (v : BitVec 64) : Bytes := putUvarint v.toNat

end Ftdc
