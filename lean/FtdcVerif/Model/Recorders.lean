import FtdcVerif.Model.Hdr
/-
  events/recorder_*.go: the eight recorder implementations as one step function over call
  histories (the synchronized and stdlib-shim wrappers delegate every call unchanged).
  Time: `time.Now()` is the symbol `NOW` (a time stamp taken from the clock rather than set by
  `SetTime`); `time.Since(started)` is an *elapsed part* whose value the model does not know — it
  counts how many of them a total contains (`elapsedParts`) and the harness bounds them by the
  wall clock.  The interval recorders are modelled without ticks here (their flusher is C16).
  Gate of the grouped recorders: `time.Since(lastCollected) >= interval` is decided by whether the
  interval is zero or `lastCollected` is the zero time (the harness only uses 0 and 1 h).
-/
namespace Ftdc.Recorders
open Ftdc.Hdr

inductive Kind where
  | raw | single | grouped | interval | hist | histSingle | histGrouped | histInterval
  deriving DecidableEq, Repr

def Kind.isHist : Kind → Bool
  | .hist | .histSingle | .histGrouped | .histInterval => true
  | _ => false

inductive Stamp where
  | zero | now | at (ms : Int)
  deriving DecidableEq, Repr

/-- a histogram as the list of the values it accepted -/
structure H where
  cfg : Hist
  vals : List Int := []

def counterHist : H := { cfg := mkCfg 0 10000 5 }
def timerHist : H := { cfg := mkCfg 1000 60000000000 5 }

/-- `RecordValue`: `false` = error (value out of range) -/
def H.record (h : H) (v : Int) : H × Bool :=
  if (recordValue h.cfg v).isSome then ({ h with vals := h.vals ++ [v] }, true) else (h, false)

structure Point where
  ts : Stamp := .zero
  id : Int := 0
  n : Int := 0
  ops : Int := 0
  size : Int := 0
  errors : Int := 0
  dur : Int := 0
  total : Int := 0            -- explicit part, nanoseconds
  elapsedParts : Nat := 0     -- how many `time.Since(started)` were added to / recorded in total
  state : Int := 0
  workers : Int := 0
  failed : Bool := false
  hn : H := counterHist
  hops : H := counterHist
  hsize : H := counterHist
  herrors : H := counterHist
  hdur : H := timerHist
  htotal : H := timerHist

structure RState where
  kind : Kind
  intervalZero : Bool               -- the configured interval is 0 (otherwise 1 h)
  p : Point := {}
  started : Bool := false           -- `started` is not the zero time
  lastCollectedZero : Bool := false
  nerrs : Nat := 0                  -- errors in the catcher
  adds : Nat := 0                   -- calls of collector.Add so far (index into the failure script)
  fails : List Nat := []            -- collector.Add calls that fail

inductive ROp where
  | incOps (v : Int) | incIter (v : Int) | incSize (v : Int) | incErr (v : Int)
  | setWorkers (v : Int) | setState (v : Int) | setFailed (b : Bool)
  | begin | endIter (durNs : Int) | setTime (ms : Int) | setDur (ns : Int) | setTotal (ns : Int) | setID (v : Int)
  | endTest | reset

/-- what a call produces: samples handed to the collector, and for EndTest the number of errors returned -/
structure ROut where
  persisted : List Point := []
  endTestErrs : Option Nat := none

def setTimestamp (p : Point) (_started : Bool) : Point :=
  if p.ts = .zero then { p with ts := .now } else p

/-- `collector.Add(point)`: records the sample if the scripted collector accepts it; otherwise the
error goes to the catcher -/
def persist (s : RState) : RState × List Point :=
  let failed := s.fails.contains s.adds
  ({ s with adds := s.adds + 1, nerrs := if failed then s.nerrs + 1 else s.nerrs },
   if failed then [] else [s.p])

def catchErr (s : RState) (ok : Bool) : RState := if ok then s else { s with nerrs := s.nerrs + 1 }

def freshPoint (p : Point) : Point := { state := p.state, workers := p.workers, failed := p.failed }

def doReset (s : RState) : RState :=
  { s with p := freshPoint s.p, started := false, nerrs := 0,
           lastCollectedZero := (s.kind = .grouped ∨ s.kind = .histGrouped) }

def gate (s : RState) : Bool := s.intervalZero || s.lastCollectedZero

def recH (s : RState) (sel : Point → H) (setH : Point → H → Point) (v : Int) : RState :=
  let (h', ok) := (sel s.p).record v
  catchErr { s with p := setH s.p h' } ok

def recTotalElapsed (s : RState) : RState :=
  -- the elapsed value is a small positive duration: always accepted by the timer histogram
  { s with p := { s.p with elapsedParts := s.p.elapsedParts + 1 } }

def step (s : RState) (op : ROp) : RState × ROut :=
  let hist := s.kind.isHist
  match op with
  | .setWorkers v => ({ s with p := { s.p with workers := v } }, {})
  | .setState v => ({ s with p := { s.p with state := v } }, {})
  | .setFailed b => ({ s with p := { s.p with failed := b } }, {})
  | .setID v => ({ s with p := { s.p with id := v } }, {})
  | .setTime ms => ({ s with p := { s.p with ts := .at ms } }, {})
  | .incOps v => (if hist then recH s (·.hops) (fun p h => { p with hops := h }) v else { s with p := { s.p with ops := s.p.ops + v } }, {})
  | .incIter v => (if hist then recH s (·.hn) (fun p h => { p with hn := h }) v else { s with p := { s.p with n := s.p.n + v } }, {})
  | .incSize v => (if hist then recH s (·.hsize) (fun p h => { p with hsize := h }) v else { s with p := { s.p with size := s.p.size + v } }, {})
  | .incErr v => (if hist then recH s (·.herrors) (fun p h => { p with herrors := h }) v else { s with p := { s.p with errors := s.p.errors + v } }, {})
  | .setDur ns =>
    (if hist then recH s (·.hdur) (fun p h => { p with hdur := h }) ns
     else if s.kind = .raw then { s with p := { s.p with dur := ns } }
     else { s with p := { s.p with dur := s.p.dur + ns } }, {})
  | .setTotal ns =>
    (if hist then recH s (·.htotal) (fun p h => { p with htotal := h }) ns
     else if s.kind = .raw then { s with p := { s.p with total := ns, elapsedParts := 0 } }
     else { s with p := { s.p with total := s.p.total + ns } }, {})
  | .begin =>
    let s1 := { s with started := true }
    (if s.kind = .single ∨ s.kind = .histSingle then s1 else { s1 with p := setTimestamp s1.p true }, {})
  | .endIter d =>
    match s.kind with
    | .raw =>
      let p1 := { s.p with n := s.p.n + 1 }
      let p2 := if s.started then { p1 with elapsedParts := p1.elapsedParts + 1 } else p1
      let p3 := { setTimestamp p2 s.started with dur := p2.dur + d }
      let (s', out) := persist { s with p := p3 }
      ({ s' with started := false }, { persisted := out })
    | .single =>
      let p1 := { setTimestamp s.p s.started with n := s.p.n + 1 }
      let p2 := if s.started then { p1 with elapsedParts := p1.elapsedParts + 1 } else p1
      ({ s with p := { p2 with dur := p2.dur + d }, started := false }, {})
    | .grouped =>
      let p1 := { s.p with n := s.p.n + 1 }
      let p2 := if s.started then { p1 with elapsedParts := p1.elapsedParts + 1 } else p1
      let p3 := { p2 with dur := p2.dur + d }
      if gate s then
        let (s', out) := persist { s with p := setTimestamp p3 s.started }
        ({ s' with p := { s'.p with ts := .zero }, lastCollectedZero := false, started := false }, { persisted := out })
      else ({ s with p := p3, started := false }, {})
    | .interval =>
      let p1 := setTimestamp s.p s.started
      let p2 := if s.started then { p1 with elapsedParts := p1.elapsedParts + 1 } else p1
      ({ s with p := { p2 with dur := p2.dur + d }, started := false }, {})
    | .hist | .histSingle | .histGrouped | .histInterval =>
      let s1 := { s with p := setTimestamp s.p s.started }
      let s2 := recH s1 (·.hn) (fun p h => { p with hn := h }) 1
      let s3 := recH s2 (·.hdur) (fun p h => { p with hdur := h }) d
      let s4 := if s.started then recTotalElapsed s3 else s3
      let s5 := if s.kind = .histInterval then s4 else { s4 with started := false }
      match s.kind with
      | .hist => let (s', out) := persist s5; (s', { persisted := out })
      | .histGrouped =>
        if gate s5 then let (s', out) := persist s5; ({ s' with lastCollectedZero := false }, { persisted := out })
        else (s5, {})
      | _ => (s5, {})
  | .endTest =>
    match s.kind with
    | .single =>
      let s1 := { s with p := setTimestamp s.p s.started }
      let (s2, out) := persist s1
      -- the single recorder returns the collector's error directly
      (doReset s2, { persisted := out, endTestErrs := some s2.nerrs })
    | .histSingle =>
      let s1 := { s with p := setTimestamp s.p s.started }
      let (s2, out) := persist s1
      (doReset s2, { persisted := out, endTestErrs := some s2.nerrs })
    | _ =>
      let s0 := if s.kind = .histInterval ∧ s.started then { recTotalElapsed s with started := false } else s
      let (s1, out) := if s0.p.ts ≠ .zero then persist s0 else (s0, [])
      (doReset s1, { persisted := out, endTestErrs := some s1.nerrs })
  | .reset => (doReset s, {})

def run (s : RState) : List ROp → RState × List ROut
  | [] => (s, [])
  | op :: ops =>
    let (s1, o) := step s op
    let (s2, os) := run s1 ops
    (s2, o :: os)

end Ftdc.Recorders
