import FtdcVerif.Lemmas.Collector
import FtdcVerif.Lemmas.ChopE2E
import FtdcVerif.Props.C07
/-!
# C08 — schema changes split chunks exactly and never corrupt, reject or drop samples

The schema-aware collectors decide "same schema" by comparing `metricKeyHash` values.  The whole
design rests on that comparison being exact: `schema_key_injective` proves (FNV aside, which is
an external function) that equal hash input means equal lists of full metric keys, for every
pair of documents with C-string keys.  `unseparated_keys_collide` is the witness that the
unrepaired byte stream (no separator, finding F10) did not have this property.  The one-step
theorems state what the collectors do with that decision; whole histories over pools of schemas
are compared with the implementation by the `schema` stream.
-/
namespace Ftdc.Props.C08
open Ftdc

/-- what is fed to the checksum is the NUL-terminated list of full metric keys -/
theorem hash_input_spec (d : BDoc) : (schemaKey d).1 = terminated (hashPathsElems [] d) :=
  hashElems_spec d []

/-- **the schema key is exact**: two documents whose hash input is equal have the same list of
full metric keys (same names, same nesting, same order) -/
theorem schema_key_injective (d1 d2 : BDoc) (h1 : NulFree d1) (h2 : NulFree d2)
    (h : (schemaKey d1).1 = (schemaKey d2).1) : hashPathsElems [] d1 = hashPathsElems [] d2 := by
  rw [hash_input_spec, hash_input_spec] at h
  exact terminated_inj _ _ (hashPathsElems_nulfree d1 h1 [] (by simp))
    (hashPathsElems_nulfree d2 h2 [] (by simp)) h

/-- the unrepaired hash input: keys written back to back -/
def unseparated (l : List Bytes) : Bytes := l.flatten

/-- finding F10: without separators `{a:{b:1},c:2}` and `{a:10,b:{c:20}}` have the same hash
input (and the same metric count) although their key lists differ -/
theorem unseparated_keys_collide :
    let d1 : BDoc := .cons [97] (.doc (.cons [98] (.int64 1#64) .nil)) (.cons [99] (.int64 2#64) .nil)
    let d2 : BDoc := .cons [97] (.int64 10#64) (.cons [98] (.doc (.cons [99] (.int64 20#64) .nil)) .nil)
    unseparated (hashPathsElems [] d1) = unseparated (hashPathsElems [] d2) ∧
    hashPathsElems [] d1 ≠ hashPathsElems [] d2 ∧ (schemaKey d1).2 = (schemaKey d2).2 ∧
    (schemaKey d1).1 ≠ (schemaKey d2).1 := by
  decide

/-- dynamic collector: a document with the current schema goes to the current chunk group -/
theorem dynamic_same_schema_continues (c : Dynamic) (d : BDoc) (h : Bytes × Nat) (last : Batch)
    (init : List Batch) (hh : c.hash = some h) (hk : h.1 = (schemaKey d).1)
    (hc : c.chunks = init ++ [last]) :
    (c.add d).1.chunks = init ++ [(last.add d).1] ∧ (c.add d).2 = (last.add d).2 := by
  simp [Dynamic.add, hh, hk, hc]

/-- dynamic collector: a document with a different schema starts a new chunk, is accepted, and
the new schema becomes the current one (fix F8) -/
theorem dynamic_schema_change_splits (c : Dynamic) (d : BDoc) (h : Bytes × Nat)
    (hh : c.hash = some h) (hk : h.1 ≠ (schemaKey d).1) (hn : 1 ≤ c.maxSamples) :
    (c.add d).1.chunks = c.chunks ++ [((Batch.new c.maxSamples).add d).1] ∧
    (c.add d).2 = .ok ∧ (c.add d).1.hash = some (schemaKey d) := by
  have hfresh : ((Batch.new c.maxSamples).add d).2 = .ok := by
    have h0 : (Better.info { maxDeltas := c.maxSamples }).2 = 0 := by simp [Better.info]
    simp only [Batch.add, Batch.new, List.getLast?_singleton, h0]
    have : ¬ (0 ≥ c.maxSamples) := by omega
    simp [this, Better.add]
  simp [Dynamic.add, hh, hk, hfresh]

/-- collectors that are not schema-aware never store a document whose metric count or value
types differ from the chunk's: they refuse it and stay unchanged -/
theorem fixed_schema_refuses (c : Better) (d : BDoc) (r : BDoc) (hr : c.ref = some r)
    (hdiff : (extractDoc d).length ≠ c.last.length ∨ (extractDoc d).map (·.2) ≠ c.last.map (·.2)) :
    (c.add d).2 ≠ .ok ∧ (c.add d).1 = c := by
  have hne : (c.add d).2 ≠ .ok := by
    unfold Better.add
    simp only [hr]
    by_cases h1 : c.rows.length ≥ c.maxDeltas
    · simp [h1]
    · simp only [h1, ite_false]
      rcases hdiff with h2 | h3
      · simp [h2]
      · by_cases h2 : (extractDoc d).length ≠ c.last.length
        · simp [h2]
        · simp [h2, h3]
  exact ⟨hne, Better.add_rejected_noop c d hne⟩

/-- every sample stored in a chunk has the chunk's metric count (so a decoded chunk never mixes
schemas of different size) -/
theorem stored_rows_have_chunk_width (c : Better) (h : c.Inv) (r : BDoc) (hr : c.ref = some r) :
    ∀ row ∈ c.samples, row.length = c.last.length := by
  intro row hrow
  have hs := h.2.2 (by simp [hr])
  simp only [Better.samples, hr, Option.isSome_some, ite_true, List.mem_cons] at hrow
  rcases hrow with rfl | hrow
  · exact hs.1
  · exact hs.2 row hrow

/-! ### whole histories: a chunk of the schema-aware streaming collector never mixes schemas -/

/-- the samples of every metric chunk in the complete writes of a writer, chunk by chunk -/
def chunkRows (w : Writer) : List (List Row) :=
  (w.log.map fun e => match e with
    | WEntry.full docs => docs.filterMap fun o => match o with
        | OutDoc.chunk _ _ f r => some (f :: r)
        | OutDoc.metaDoc _ _ => none
    | WEntry.partialWrite _ _ => []).flatten

def valsOf (d : BDoc) : Row := (extractDoc d).map (·.1)

/-- all documents of a list have one schema key -/
def OneKey (ch : List BDoc) : Prop := ∃ k, ∀ d ∈ ch, schemaKey d = k

/-- ghost invariant: the written chunks are `chs`, the pending samples are `cur`, every written chunk
has one schema key, and the pending documents have the collector's current key -/
structure G (c : StreamingDynamic) (chs : List (List BDoc)) (cur : List BDoc) : Prop where
  script : c.s.out.script = []
  written : chunkRows c.s.out = chs.map (·.map valsOf)
  pending : c.s.inner.samples = cur.map valsOf
  one : ∀ ch ∈ chs, OneKey ch
  key : cur = [] ∨ ∃ k, c.hash = some k ∧ ∀ d ∈ cur, schemaKey d = k
  nohash : c.hash = none → cur = []
  inv : c.s.inner.Inv

theorem samples_nil_iff_info (b : Better) (hi : b.Inv) : b.info.2 = 0 ↔ b.samples = [] := by
  unfold Better.info Better.samples
  cases hr : b.ref with
  | none => have := (hi.1 hr).1; simp [this]
  | some r => simp

/-- the flush of the wrapped streaming collector, in ghost terms -/
theorem sflush_ghost (s : Streaming) (cur : List BDoc) (hs : s.out.script = []) (hi : s.inner.Inv)
    (hp : s.inner.samples = cur.map valsOf) :
    (s.flush).2 = true ∧ (s.flush).1.out.script = [] ∧ (s.flush).1.inner.samples = [] ∧ (s.flush).1.inner.Inv ∧
    chunkRows (s.flush).1.out = chunkRows s.out ++ (if cur = [] then [] else [cur.map valsOf]) ∧
    (s.flush).1.maxSamples = s.maxSamples := by
  unfold Streaming.flush
  by_cases h0 : s.info.2 = 0
  · have hs0 : s.inner.samples = [] := (samples_nil_iff_info s.inner hi).1 h0
    have hc : cur = [] := by
      rw [hs0] at hp; cases cur with
      | nil => rfl
      | cons a t => simp at hp
    rw [if_pos h0]
    exact ⟨rfl, hs, hs0, hi, by rw [if_pos hc, List.append_nil], rfl⟩
  · have hne : s.inner.samples ≠ [] := fun e => h0 ((samples_nil_iff_info s.inner hi).2 e)
    have hc : cur ≠ [] := by intro e; rw [e] at hp; exact hne hp
    obtain ⟨r, hr⟩ : ∃ r, s.inner.ref = some r := by
      cases hx : s.inner.ref with
      | some r => exact ⟨r, rfl⟩
      | none => simp [Better.samples, hx] at hne
    have hsam : s.inner.samples = s.inner.first :: s.inner.rows := by simp [Better.samples, hr]
    rw [if_neg h0]
    simp only [Streaming.resolve, Better.resolve, hr]
    cases hm : s.inner.metadata with
    | none =>
      simp only [Writer.write, hs, if_true]
      refine ⟨trivial, ?_, ?_, ?_, ?_, rfl⟩
      · simp only [Streaming.reset]; try exact hs
      · simp [Streaming.reset, Better.reset, Better.samples]
      · simp only [Streaming.reset]; exact Better.reset_inv _
      · simp only [Streaming.reset, chunkRows, List.map_append, List.flatten_append, List.map_cons, List.map_nil,
          List.flatten_cons, List.flatten_nil, List.append_nil, if_neg hc, List.filterMap_cons, List.filterMap_nil]
        rw [← hsam, hp]
    | some md =>
      simp only [Writer.write, hs, if_true]
      refine ⟨trivial, ?_, ?_, ?_, ?_, rfl⟩
      · simp only [Streaming.reset]; try exact hs
      · simp [Streaming.reset, Better.reset, Better.samples]
      · simp only [Streaming.reset]; exact Better.reset_inv _
      · simp only [Streaming.reset, chunkRows, List.map_append, List.flatten_append, List.map_cons, List.map_nil,
          List.flatten_cons, List.flatten_nil, List.append_nil, if_neg hc, List.filterMap_cons, List.filterMap_nil]
        rw [← hsam, hp]

theorem samples_nil_ref (b : Better) (h : b.samples = []) : b.ref = none := by
  unfold Better.samples at h
  cases hr : b.ref with
  | none => rfl
  | some r => simp [hr] at h

/-- one `Add` of the wrapped streaming collector, in ghost terms: either nothing is flushed and the
sample joins the pending ones (or is rejected), or the pending ones are flushed as one chunk and
the sample starts the next -/
theorem sadd_ghost (s : Streaming) (cur : List BDoc) (d : BDoc) (hs : s.out.script = []) (hi : s.inner.Inv)
    (hp : s.inner.samples = cur.map valsOf) :
    (s.add d).1.out.script = [] ∧ (s.add d).1.inner.Inv ∧
    ∃ (extra : List (List BDoc)) (cur' : List BDoc),
      chunkRows (s.add d).1.out = chunkRows s.out ++ extra.map (·.map valsOf) ∧
      (s.add d).1.inner.samples = cur'.map valsOf ∧
      ((extra = [] ∧ (cur' = cur ++ [d] ∨ cur' = cur)) ∨
       (extra = (if cur = [] then [] else [cur]) ∧ cur' = [d])) := by
  -- the inner `Add` on a collector `b` holding `cur1`
  have key : ∀ (b : Better) (cur1 : List BDoc), b.Inv → b.samples = cur1.map valsOf →
      (b.add d).1.Inv ∧
      (((b.add d).2 = .ok ∧ (b.add d).1.samples = (cur1 ++ [d]).map valsOf) ∨
       ((b.add d).2 ≠ .ok ∧ (b.add d).1 = b ∧ b.samples ≠ [])) := by
    intro b cur1 hi1 hp1
    refine ⟨Better.add_inv _ _ hi1, ?_⟩
    by_cases hok : (b.add d).2 = .ok
    · left; refine ⟨hok, ?_⟩
      rw [Better.add_ok_appends _ _ hok, hp1]; simp [valsOf]
    · right; refine ⟨hok, Better.add_rejected_noop _ _ hok, ?_⟩
      intro he
      have hr := samples_nil_ref _ he
      simp [Better.add, hr] at hok
  unfold Streaming.add
  by_cases hfull : s.count ≥ s.maxSamples
  · simp only [hfull, if_true]
    obtain ⟨f1, f2, f3, f4, f5, _⟩ := sflush_ghost s cur hs hi hp
    simp only [f1, Bool.not_true, Bool.false_eq_true, if_false]
    obtain ⟨k1, k2⟩ := key (s.flush).1.inner [] f4 (by rw [f3]; rfl)
    rcases k2 with ⟨hok, hsam⟩ | ⟨_, _, hne⟩
    · simp only [hok, if_true]
      refine ⟨f2, k1, (if cur = [] then [] else [cur]), [d], ?_, by simpa using hsam, Or.inr ⟨rfl, rfl⟩⟩
      show chunkRows (s.flush).1.out = _
      rw [f5]; by_cases hc : cur = [] <;> simp [hc]
    · exact absurd f3 hne
  · simp only [hfull, if_false, Bool.not_true, Bool.false_eq_true]
    obtain ⟨k1, k2⟩ := key s.inner cur hi hp
    rcases k2 with ⟨hok, hsam⟩ | ⟨hno, heq, _⟩
    · simp only [hok, if_true]
      exact ⟨hs, k1, [], cur ++ [d], by simp, hsam, Or.inl ⟨rfl, Or.inl rfl⟩⟩
    · have hne : ¬ (SAddResult.inner (s.inner.add d).2 = SAddResult.ok) := by simp
      simp only [hno, if_false, hne]
      exact ⟨hs, hi, [], cur, by simp, hp, Or.inl ⟨rfl, Or.inr rfl⟩⟩

theorem oneKey_of_key {c : StreamingDynamic} {cur : List BDoc}
    (h : cur = [] ∨ ∃ k, c.hash = some k ∧ ∀ d ∈ cur, schemaKey d = k) : OneKey cur := by
  rcases h with rfl | ⟨k, _, hk⟩
  · exact ⟨([], 0), by simp⟩
  · exact ⟨k, hk⟩

/-- one `Add` of the schema-aware streaming collector preserves the ghost invariant -/
theorem sd_ghost_step (c : StreamingDynamic) (chs : List (List BDoc)) (cur : List BDoc) (d : BDoc)
    (g : G c chs cur) : ∃ chs' cur', G (c.add d).1 chs' cur' := by
  -- after an optional flush of the wrapped collector: state `c1` with pending `cur1`, chunks `chs1`
  have fin : ∀ (c1 : StreamingDynamic) (chs1 : List (List BDoc)) (cur1 : List BDoc),
      c1.s.out.script = [] → c1.s.inner.Inv → chunkRows c1.s.out = chs1.map (·.map valsOf) →
      c1.s.inner.samples = cur1.map valsOf → (∀ ch ∈ chs1, OneKey ch) → OneKey cur1 →
      (∀ x ∈ cur1, schemaKey x = schemaKey d) →
      ∃ chs' cur', G ({ s := (c1.s.add d).1, hash := some (schemaKey d) } : StreamingDynamic) chs' cur' := by
    intro c1 chs1 cur1 hs hi hw hp hone honecur hk
    obtain ⟨a1, a2, extra, cur', a3, a4, a5⟩ := sadd_ghost c1.s cur1 d hs hi hp
    refine ⟨chs1 ++ extra, cur', ⟨a1, by rw [a3, hw]; simp, a4, ?_, ?_, by intro h; simp at h, a2⟩⟩
    · intro ch hch
      rcases List.mem_append.1 hch with h | h
      · exact hone ch h
      · rcases a5 with ⟨e, _⟩ | ⟨e, _⟩
        · rw [e] at h; simp at h
        · rw [e] at h
          by_cases hc : cur1 = []
          · simp [hc] at h
          · simp [hc] at h; rw [h]; exact honecur
    · right
      refine ⟨schemaKey d, rfl, ?_⟩
      intro x hx
      rcases a5 with ⟨_, e | e⟩ | ⟨_, e⟩
      · rw [e] at hx
        rcases List.mem_append.1 hx with h | h
        · exact hk x h
        · simp at h; rw [h]
      · rw [e] at hx; exact hk x hx
      · rw [e] at hx; simp at hx; rw [hx]
  -- the flush of the schema-aware collector, in ghost terms
  have fl : (c.flush).1.s.out.script = [] ∧ (c.flush).1.s.inner.Inv ∧ (c.flush).1.s.inner.samples = [] ∧
      chunkRows (c.flush).1.s.out = (chs ++ (if cur = [] then [] else [cur])).map (·.map valsOf) ∧ (c.flush).2 = true := by
    obtain ⟨f1, f2, f3, f4, f5, _⟩ := sflush_ghost c.s cur g.script g.inv g.pending
    have hsame : (c.flush).1.s = (c.s.flush).1 := by
      unfold StreamingDynamic.flush
      cases hf : c.s.flush with
      | mk s' ok => simp only []; split <;> rfl
    have hok : (c.flush).2 = true := by
      unfold StreamingDynamic.flush
      cases hf : c.s.flush with
      | mk s' ok =>
        rw [hf] at f1
        simp only [] at f1 ⊢
        split
        · rfl
        · exact f1
    rw [hsame]
    refine ⟨f2, f4, f3, ?_, hok⟩
    rw [f5, g.written]; by_cases hc : cur = [] <;> simp [hc]
  have honecur := oneKey_of_key g.key
  have hchs' : ∀ ch ∈ chs ++ (if cur = [] then [] else [cur]), OneKey ch := by
    intro ch hch
    rcases List.mem_append.1 hch with h | h
    · exact g.one ch h
    · by_cases hc : cur = []
      · simp [hc] at h
      · simp [hc] at h; rw [h]; exact honecur
  unfold StreamingDynamic.add
  cases hh : c.hash with
  | none =>
    have hcur : cur = [] := g.nohash hh
    dsimp only
    by_cases hc : c.s.count > 0
    · rw [if_pos hc]
      obtain ⟨f1, f2, f3, f4, f5⟩ := fl
      simp only [f5, Bool.not_true, Bool.false_eq_true, if_false]
      exact fin (c.flush).1 _ [] f1 f2 f4 (by rw [f3]; rfl) hchs' ⟨([], 0), by simp⟩ (by simp)
    · rw [if_neg hc]
      simp only [Bool.not_true, Bool.false_eq_true, if_false]
      exact fin c chs cur g.script g.inv g.written g.pending g.one honecur (by rw [hcur]; simp)
  | some hsh =>
    dsimp only
    by_cases hc : hsh ≠ schemaKey d
    · rw [if_pos hc]
      obtain ⟨f1, f2, f3, f4, f5⟩ := fl
      simp only [f5, Bool.not_true, Bool.false_eq_true, if_false]
      exact fin (c.flush).1 _ [] f1 f2 f4 (by rw [f3]; rfl) hchs' ⟨([], 0), by simp⟩ (by simp)
    · rw [if_neg hc]
      simp only [Bool.not_true, Bool.false_eq_true, if_false]
      have hk : ∀ x ∈ cur, schemaKey x = schemaKey d := by
        have he : hsh = schemaKey d := by simpa using hc
        rcases g.key with e | ⟨k, hk1, hk2⟩
        · rw [e]; simp
        · rw [hh] at hk1
          simp only [Option.some.injEq] at hk1
          intro x hx; rw [hk2 x hx, ← hk1, he]
      exact fin c chs cur g.script g.inv g.written g.pending g.one honecur hk

/-- **Over every history of `Add`s (any schemas, any order, over a writer that accepts every write)
no chunk the schema-aware streaming collector writes mixes two schemas**: the written chunks are
the value rows of lists of documents that each have one schema key, and the pending samples belong to
documents that all have the collector's current key. -/
theorem streaming_dynamic_chunks_have_one_schema (n : Nat) (ds : List BDoc) :
    ∃ (chs : List (List BDoc)) (cur : List BDoc),
      let c := ds.foldl (fun (c : StreamingDynamic) d => (c.add d).1) (StreamingDynamic.new n)
      chunkRows c.s.out = chs.map (·.map valsOf) ∧ c.s.inner.samples = cur.map valsOf ∧
      (∀ ch ∈ chs, OneKey ch) ∧ OneKey cur := by
  have : ∀ (ds : List BDoc) (c : StreamingDynamic) (chs : List (List BDoc)) (cur : List BDoc), G c chs cur →
      ∃ chs' cur', G (ds.foldl (fun (c : StreamingDynamic) d => (c.add d).1) c) chs' cur' := by
    intro ds
    induction ds with
    | nil => intro c chs cur g; exact ⟨chs, cur, g⟩
    | cons d ds ih =>
      intro c chs cur g
      obtain ⟨chs', cur', g'⟩ := sd_ghost_step c chs cur d g
      exact ih _ chs' cur' g'
  have g0 : G (StreamingDynamic.new n) [] [] :=
    ⟨rfl, by simp [chunkRows, StreamingDynamic.new, Streaming.new],
     by simp [StreamingDynamic.new, Streaming.new, Better.samples], by simp, Or.inl rfl, fun _ => rfl,
     by simp [StreamingDynamic.new, Streaming.new, Better.Inv]⟩
  obtain ⟨chs, cur, g⟩ := this ds _ [] [] g0
  exact ⟨chs, cur, g.written, g.pending, g.one, oneKey_of_key g.key⟩

/-! ### the same for the (non-streaming) dynamic collector: one batch per schema run -/

/-- all documents of a list have the same hash input (the dynamic collector compares the hash only) -/
def OneHash (g : List BDoc) : Prop := ∃ k, ∀ d ∈ g, (schemaKey d).1 = k

/-- ghost invariant of the dynamic collector: batch `i` holds exactly the value rows of group `i`, every
group has one hash input, and the last group has the collector's current one -/
structure GD (c : Dynamic) (groups : List (List BDoc)) : Prop where
  pos : 1 ≤ c.maxSamples
  rows : c.chunks.map Batch.samples = groups.map (·.map valsOf)
  inv : ∀ b ∈ c.chunks, b.Inv ∧ b.maxSamples = c.maxSamples
  one : ∀ g ∈ groups, OneHash g
  last : ∀ h, c.hash = some h → ∀ g, groups.getLast? = some g → ∀ d ∈ g, (schemaKey d).1 = h.1
  fresh : c.hash = none → ∃ b, c.chunks = [b] ∧ b.samples = [] ∧ groups = [[]]
  ne : c.chunks ≠ []

theorem map_eq_concat {α β γ : Type} (f : α → γ) (g : β → γ) (init : List α) (last : α) (l : List β)
    (h : (init ++ [last]).map f = l.map g) :
    ∃ linit llast, l = linit ++ [llast] ∧ init.map f = linit.map g ∧ f last = g llast := by
  have hl : l.length = init.length + 1 := by
    have := congrArg List.length h; simp at this; omega
  rcases List.eq_nil_or_concat l with h0 | ⟨li, x, hx⟩
  · rw [h0] at hl; simp at hl
  · have hx' : l = li ++ [x] := by simpa using hx
    subst hx'
    simp only [List.map_append, List.map_cons, List.map_nil] at h
    have hlen : (init.map f).length = (li.map g).length := by
      simp at hl ⊢; omega
    obtain ⟨e1, e2⟩ := List.append_inj h hlen
    exact ⟨li, x, rfl, e1, by simpa using e2⟩

theorem batch_new_samples (n : Nat) : (Batch.new n).samples = [] := by
  simp [Batch.new, Batch.samples, Better.samples]

theorem batch_fresh_add (n : Nat) (hn : 1 ≤ n) (d : BDoc) :
    ((Batch.new n).add d).2 = .ok ∧ ((Batch.new n).add d).1.samples = [valsOf d] ∧
    ((Batch.new n).add d).1.Inv ∧ ((Batch.new n).add d).1.maxSamples = n := by
  have hi := Batch.new_inv n hn
  have hok : ((Batch.new n).add d).2 = .ok := by
    have h0 : ¬ (0 ≥ n) := by omega
    simp [Batch.new, Batch.add, Better.info, Better.add, h0]
  refine ⟨hok, ?_, Batch.add_inv _ d hi, ?_⟩
  · rw [Batch.add_ok_appends _ d hi hok, batch_new_samples]; rfl
  · unfold Batch.add Batch.new; simp; split <;> rfl

/-- a batch collector that holds nothing accepts a document like a fresh one (whatever its metadata) -/
theorem batch_empty_add (b : Batch) (d : BDoc) (hi : b.Inv) (he : b.samples = []) :
    (b.add d).2 = .ok ∧ (b.add d).1.samples = [valsOf d] := by
  have hok : (b.add d).2 = .ok := by
    -- one chunk, without a reference document
    obtain ⟨hpos, hne, heach, hfull⟩ := hi
    rcases List.eq_nil_or_concat b.chunks with h0 | ⟨init, last, hx⟩
    · exact absurd h0 hne
    · have hx' : b.chunks = init ++ [last] := by simpa using hx
      have hinit : init = [] := by
        cases init with
        | nil => rfl
        | cons x r =>
          have hxm : x ∈ b.chunks.dropLast := by
            rw [hx', List.dropLast_append_of_ne_nil (by simp)]; simp
          have hlen := hfull x hxm
          have : x.samples = [] := by
            have hs : (b.chunks.map Better.samples).flatten = [] := he
            rw [hx'] at hs
            simp only [List.map_append, List.map_cons, List.flatten_append, List.flatten_cons, List.append_eq_nil_iff] at hs
            exact hs.1.1
          rw [this] at hlen; simp at hlen; omega
      subst hinit
      have hlast : last.samples = [] := by
        have hs : (b.chunks.map Better.samples).flatten = [] := he
        rw [hx'] at hs; simpa using hs
      have hl : b.chunks.getLast? = some last := by rw [hx']; simp
      have hlm := heach last (by rw [hx']; simp)
      have href : last.ref = none := by
        cases hr : last.ref with
        | none => rfl
        | some r => simp [Better.samples, hr] at hlast
      have hrows : last.rows = [] := (hlm.1.1 href).1
      unfold Batch.add
      simp only [hl, Better.info, href, hrows]
      have h0 : ¬ (0 + 0 ≥ b.maxSamples) := by omega
      simp [h0, Better.add, href]
  exact ⟨hok, by rw [Batch.add_ok_appends b d hi hok, he]; rfl⟩

theorem batch_add_maxSamples (b : Batch) (d : BDoc) : (b.add d).1.maxSamples = b.maxSamples := by
  unfold Batch.add
  split
  · rfl
  · split <;> rfl

theorem dyn_add_none (c : Dynamic) (d : BDoc) (hh : c.hash = none) (b : Batch) (r : List Batch)
    (hc : c.chunks = b :: r) :
    c.add d = ({ c with hash := some (schemaKey d), chunks := (b.add d).1 :: r }, (b.add d).2) := by
  unfold Dynamic.add; simp [hh, hc]

theorem dyn_add_same (c : Dynamic) (d : BDoc) (hsh : Bytes × Nat) (hh : c.hash = some hsh)
    (hk : hsh.1 = (schemaKey d).1) (last : Batch) (hl : c.chunks.getLast? = some last) :
    c.add d = ({ c with chunks := c.chunks.dropLast ++ [(last.add d).1] }, (last.add d).2) := by
  unfold Dynamic.add; simp [hh, hk, hl]

theorem dyn_add_new (c : Dynamic) (d : BDoc) (hsh : Bytes × Nat) (hh : c.hash = some hsh)
    (hk : ¬ hsh.1 = (schemaKey d).1) :
    c.add d = ({ c with hash := some (schemaKey d), chunks := c.chunks ++ [((Batch.new c.maxSamples).add d).1] },
      ((Batch.new c.maxSamples).add d).2) := by
  unfold Dynamic.add; simp [hh, hk]

theorem gd_step (c : Dynamic) (groups : List (List BDoc)) (d : BDoc) (g : GD c groups) :
    ∃ groups', GD (c.add d).1 groups' ∧
      groups'.flatten = groups.flatten ++ (if (c.add d).2 = .ok then [d] else []) := by
  cases hh : c.hash with
  | none =>
    obtain ⟨b0, hc, he, hg⟩ := g.fresh hh
    rw [dyn_add_none c d hh _ [] hc]
    have hb0 := g.inv b0 (by rw [hc]; simp)
    obtain ⟨f1, f2⟩ := batch_empty_add b0 d hb0.1 he
    have f3 := Batch.add_inv b0 d hb0.1
    have f4 : (b0.add d).1.maxSamples = c.maxSamples := by rw [batch_add_maxSamples]; exact hb0.2
    refine ⟨[[d]], ⟨g.pos, by simp [f2], ?_, ?_, ?_, by intro h; simp at h, by simp⟩, by simp [hg, f1]⟩
    · intro b hb; simp at hb; subst hb; exact ⟨f3, f4⟩
    · intro x hx; simp at hx; subst hx; exact ⟨(schemaKey d).1, by simp⟩
    · intro h hh' x hx y hy
      simp at hh' hx; subst hx; subst hh'; simp at hy; subst hy; rfl
  | some hsh =>
    by_cases hk : hsh.1 = (schemaKey d).1
    · -- the sample goes to the last batch
      rcases List.eq_nil_or_concat c.chunks with h0 | ⟨init, lastB, hx⟩
      · exact absurd h0 g.ne
      · have hx' : c.chunks = init ++ [lastB] := by simpa using hx
        obtain ⟨ginit, glast, hgl, hrin, hrl⟩ := map_eq_concat Batch.samples (·.map valsOf) init lastB groups
          (by rw [← hx']; exact g.rows)
        have hlast : c.chunks.getLast? = some lastB := by rw [hx']; simp
        rw [dyn_add_same c d hsh hh hk lastB hlast]
        have hib := (g.inv lastB (by rw [hx']; simp)).1
        have hmb := (g.inv lastB (by rw [hx']; simp)).2
        have hdrop : c.chunks.dropLast = init := by rw [hx']; simp
        simp only [hdrop]
        by_cases hok : (lastB.add d).2 = .ok
        · refine ⟨ginit ++ [glast ++ [d]], ⟨g.pos, ?_, ?_, ?_, ?_, by intro h; simp [hh] at h, by simp⟩,
            by simp [hgl, hok]⟩
          · simp only [List.map_append, List.map_cons, List.map_nil, hrin]
            rw [Batch.add_ok_appends _ d hib hok, hrl]; simp [valsOf]
          · intro b hb
            rcases List.mem_append.1 hb with h | h
            · exact g.inv b (by rw [hx']; exact List.mem_append_left _ h)
            · simp at h; subst h; exact ⟨Batch.add_inv _ d hib, by rw [batch_add_maxSamples]; exact hmb⟩
          · intro x hx2
            rcases List.mem_append.1 hx2 with h | h
            · exact g.one x (by rw [hgl]; exact List.mem_append_left _ h)
            · simp at h; subst h
              refine ⟨hsh.1, ?_⟩
              intro y hy
              rcases List.mem_append.1 hy with h2 | h2
              · exact g.last hsh hh glast (by rw [hgl]; simp) y h2
              · simp at h2; subst h2; exact hk.symm
          · intro h hh' x hx2 y hy
            simp only [hh] at hh'
            simp only [Option.some.injEq] at hh'; subst hh'
            simp at hx2; subst hx2
            rcases List.mem_append.1 hy with h2 | h2
            · exact g.last hsh hh glast (by rw [hgl]; simp) y h2
            · simp at h2; subst h2; exact hk.symm
        · have hnoop := Batch.add_rejected_noop lastB d hib hok
          refine ⟨groups, ⟨g.pos, ?_, ?_, g.one, ?_, by intro h; simp [hh] at h, by simp⟩, by simp [hok]⟩
          · simp only [hnoop]; rw [← hx']; exact g.rows
          · intro b hb; simp only [hnoop] at hb; rw [← hx'] at hb; exact g.inv b hb
          · intro h hh' x hx2 y hy
            simp only [hh] at hh'
            simp only [Option.some.injEq] at hh'; subst hh'
            exact g.last hsh hh x hx2 y hy
    · rw [dyn_add_new c d hsh hh hk]
      obtain ⟨f1, f2, f3, f4⟩ := batch_fresh_add c.maxSamples g.pos d
      refine ⟨groups ++ [[d]], ⟨g.pos, ?_, ?_, ?_, ?_, by intro h; simp at h, by simp⟩, by simp [f1]⟩
      · simp only [List.map_append, List.map_cons, List.map_nil, g.rows, f2]
      · intro b hb
        rcases List.mem_append.1 hb with h | h
        · exact g.inv b h
        · simp at h; subst h; exact ⟨f3, f4⟩
      · intro x hx
        rcases List.mem_append.1 hx with h | h
        · exact g.one x h
        · simp at h; subst h; exact ⟨(schemaKey d).1, by simp⟩
      · intro h hh' x hx y hy
        simp only [Option.some.injEq] at hh'; subst hh'
        simp at hx; subst hx; simp at hy; subst hy; rfl

/-- one `Add` of the dynamic collector, remembering the accepted documents -/
def addLogD (acc : Dynamic × List BDoc) (d : BDoc) : Dynamic × List BDoc :=
  let r := acc.1.add d
  (r.1, if r.2 = .ok then acc.2 ++ [d] else acc.2)

/-- **Over every history of `Add`s no batch of the dynamic collector mixes two schemas, and the batches
together hold exactly the accepted samples, once each and in order**: batch `i` holds the value rows
of group `i`, every group has one hash input, and the groups concatenated are the accepted documents. -/
theorem dynamic_batches_have_one_schema (n : Nat) (hn : 1 ≤ n) (ds : List BDoc) :
    ∃ groups : List (List BDoc),
      let r := ds.foldl addLogD (Dynamic.new n, [])
      r.1.chunks.map Batch.samples = groups.map (·.map valsOf) ∧ (∀ g ∈ groups, OneHash g) ∧
      groups.flatten = r.2 := by
  have : ∀ (ds : List BDoc) (c : Dynamic) (acc : List BDoc) (groups : List (List BDoc)), GD c groups →
      groups.flatten = acc →
      ∃ groups', GD (ds.foldl addLogD (c, acc)).1 groups' ∧ groups'.flatten = (ds.foldl addLogD (c, acc)).2 := by
    intro ds
    induction ds with
    | nil => intro c acc groups g h; exact ⟨groups, g, h⟩
    | cons d ds ih =>
      intro c acc groups g h
      obtain ⟨groups', g', hf⟩ := gd_step c groups d g
      simp only [List.foldl_cons]
      have e : addLogD (c, acc) d = ((c.add d).1, if (c.add d).2 = .ok then acc ++ [d] else acc) := rfl
      rw [e]
      apply ih _ _ groups' g'
      rw [hf, h]
      by_cases hok : (c.add d).2 = .ok <;> simp [hok]
  have g0 : GD (Dynamic.new n) [[]] :=
    ⟨hn, by simp [Dynamic.new, batch_new_samples], by
      intro b hb; simp [Dynamic.new] at hb; subst hb; exact ⟨Batch.new_inv n hn, rfl⟩,
     by intro g hg; simp at hg; subst hg; exact ⟨[], by simp⟩,
     by intro h hh; simp [Dynamic.new] at hh, fun _ => ⟨Batch.new n, rfl, batch_new_samples n, rfl⟩, by simp [Dynamic.new]⟩
  obtain ⟨groups, g, hf⟩ := this ds _ [] [[]] g0 (by simp)
  exact ⟨groups, g.rows, g.one, hf⟩

/-! ### exact chunk boundaries over any sequence of schemas

The input is any list of runs `(head, tail)`; inside a run every document has the head's schema,
consecutive runs have different schema keys (`AdjDiff`).  `Chop n s g` says the chunks `g` are the
run `s` cut at capacity: they concatenate to the run, none holds more than `n` documents, only the
last may hold fewer.  So a new chunk begins at each change point and otherwise only at capacity. -/

/-- **the schema-aware streaming collector**: what reached the writer (`chs`) followed by the pending
chunk (`p`) is, run by run, each run cut at capacity -/
theorem streaming_dynamic_chunk_boundaries (n : Nat) (hn : 1 ≤ n) (s0 : BDoc × List BDoc)
    (segs : List (BDoc × List BDoc)) (hsim : ∀ s ∈ s0 :: segs, ∀ d ∈ s.2, SimDoc s.1 d) (hadj : AdjDiff (s0 :: segs)) :
    ∃ (chs : List (BDoc × List BDoc)) (p : BDoc × List BDoc) (groups : List (List (BDoc × List BDoc))),
      let c := (((s0 :: segs).flatMap chunkDocs).foldl (fun (c : StreamingDynamic) d => (c.add d).1)
        (StreamingDynamic.new n)).s
      logDocs c.out = chs.map mkChunk ∧ c.inner.resolve = some [mkChunk p] ∧
      chs ++ [p] = groups.flatten ∧ Chops n (s0 :: segs) groups := by
  obtain ⟨chs, p, groups, g, hfl, hch⟩ := sd_chops n hn s0 segs hsim hadj
  refine ⟨chs, p, groups, g.sg.logged, ?_, hfl, hch⟩
  obtain ⟨⟨a1, a2, a3, a4, _, a6, _⟩, _, _⟩ := g.sg.pend
  simp only [Better.resolve, a1, a4, mkChunk, a6, a2, a3]

/-- **the dynamic collector**: one batch collector per run, and each of them resolves to its run cut at
capacity -/
theorem dynamic_chunk_boundaries (n : Nat) (hn : 1 ≤ n) (s0 : BDoc × List BDoc)
    (segs : List (BDoc × List BDoc)) (hsim : ∀ s ∈ s0 :: segs, ∀ d ∈ s.2, SimDoc s.1 d) (hadj : AdjDiff (s0 :: segs)) :
    (((s0 :: segs).flatMap chunkDocs).foldl (fun (c : Dynamic) d => (c.add d).1) (Dynamic.new n)).chunks =
      (s0 :: segs).map (batchOf n) ∧
    ∀ s ∈ s0 :: segs, ∃ g, Chop n s g ∧ (batchOf n s).resolve = some (g.map mkChunk) :=
  ⟨dynamic_runs n s0 segs hsim hadj, fun s hs => batch_chop n hn s (hsim s hs)⟩

/-! non-vacuity: three runs `{a}×2, {b}, {a}` satisfy the hypotheses -/
example : AdjDiff [(.cons [97] (.int64 5#64) .nil, [.cons [97] (.int64 6#64) .nil]),
                   (.cons [98] (.int64 5#64) .nil, []),
                   (.cons [97] (.int64 7#64) .nil, [])] := by
  simp [AdjDiff, HeadDiff, schemaKey, hashElems, hashVal]

/-! non-vacuity -/
example : NulFree (.cons [97] (.doc (.cons [98] (.int64 1#64) .nil)) (.cons [99] (.int64 2#64) .nil)) := by
  simp [NulFree, NulFreeVal]

open Ftdc.Props.C07 in
/-! ### the dynamic collector over whole histories -/

def stepD (acc : Dynamic × List BDoc) : COp → Dynamic × List BDoc
  | .add d => addLogD acc d
  | .reset => (acc.1.reset, [])
  | .setMeta d => (acc.1.setMetadata d, acc.2)
  | _ => acc

open Ftdc.Props.C07 in
theorem gd_setMetadata (c : Dynamic) (groups : List (List BDoc)) (d : BDoc) (g : GD c groups) :
    GD (c.setMetadata d) groups := by
  unfold Dynamic.setMetadata
  cases hc : c.chunks with
  | nil => exact absurd hc g.ne
  | cons b r =>
    have hb := g.inv b (by rw [hc]; simp)
    obtain ⟨hi', hs'⟩ := batch_setMetadata_inv b d hb.1
    have hm' : (b.setMetadata d).maxSamples = b.maxSamples := by
      unfold Batch.setMetadata; split <;> rfl
    refine ⟨g.pos, ?_, ?_, g.one, g.last, ?_, by simp⟩
    · have := g.rows; rw [hc] at this
      simpa [hs'] using this
    · intro x hx
      simp only [List.mem_cons] at hx
      rcases hx with rfl | hx
      · exact ⟨hi', by rw [hm']; exact hb.2⟩
      · exact g.inv x (by rw [hc]; simp [hx])
    · intro hh
      obtain ⟨b0, h1, h2, h3⟩ := g.fresh hh
      rw [hc] at h1
      simp only [List.cons.injEq] at h1
      obtain ⟨rfl, rfl⟩ := h1
      exact ⟨b.setMetadata d, rfl, by rw [hs']; exact h2, h3⟩

/-- **C07/C08 for the dynamic collector over whole histories** (Add, unreadable Add, Reset, SetMetadata, Resolve, Info
in any order): one batch collector per run of one schema key, together holding exactly the documents accepted since the
last `Reset`, once each and in order -/
theorem dynamic_faithful_all_histories (n : Nat) (hn : 1 ≤ n) (ops : List COp) :
    ∃ groups : List (List BDoc),
      let r := ops.foldl stepD (Dynamic.new n, [])
      r.1.chunks.map Batch.samples = groups.map (·.map valsOf) ∧ (∀ g ∈ groups, OneHash g) ∧
      groups.flatten = r.2 := by
  have g0 : ∀ m, 1 ≤ m → GD (Dynamic.new m) [[]] := fun m hm =>
    ⟨hm, by simp [Dynamic.new, batch_new_samples], by
      intro b hb; simp [Dynamic.new] at hb; subst hb; exact ⟨Batch.new_inv m hm, rfl⟩,
     by intro g hg; simp at hg; subst hg; exact ⟨[], by simp⟩,
     by intro h hh; simp [Dynamic.new] at hh, fun _ => ⟨Batch.new m, rfl, batch_new_samples m, rfl⟩, by simp [Dynamic.new]⟩
  have step : ∀ (op : COp) (c : Dynamic) (acc : List BDoc) (groups : List (List BDoc)), GD c groups →
      groups.flatten = acc →
      ∃ groups', GD (stepD (c, acc) op).1 groups' ∧ groups'.flatten = (stepD (c, acc) op).2 := by
    intro op c acc groups g h
    cases op with
    | add d =>
      obtain ⟨groups', g', hf⟩ := gd_step c groups d g
      refine ⟨groups', g', ?_⟩
      show _ = (if (c.add d).2 = .ok then acc ++ [d] else acc)
      rw [hf, h]; by_cases hok : (c.add d).2 = .ok <;> simp [hok]
    | reset => exact ⟨[[]], g0 c.maxSamples g.pos, by simp [stepD]⟩
    | setMeta d => exact ⟨groups, gd_setMetadata c groups d g, h⟩
    | addBad => exact ⟨groups, g, h⟩
    | resolve => exact ⟨groups, g, h⟩
    | info => exact ⟨groups, g, h⟩
  have : ∀ (ops : List COp) (c : Dynamic) (acc : List BDoc) (groups : List (List BDoc)), GD c groups →
      groups.flatten = acc →
      ∃ groups', GD (ops.foldl stepD (c, acc)).1 groups' ∧ groups'.flatten = (ops.foldl stepD (c, acc)).2 := by
    intro ops
    induction ops with
    | nil => intro c acc groups g h; exact ⟨groups, g, h⟩
    | cons op ops ih =>
      intro c acc groups g h
      obtain ⟨groups', g', hf⟩ := step op c acc groups g h
      simp only [List.foldl_cons]
      have e : stepD (c, acc) op = ((stepD (c, acc) op).1, (stepD (c, acc) op).2) := rfl
      rw [e]
      exact ih _ _ groups' g' hf
  obtain ⟨groups, g, hf⟩ := this ops _ [] [[]] (g0 n hn) (by simp)
  exact ⟨groups, g.rows, g.one, hf⟩

end Ftdc.Props.C08
