/-
  Model of hdrhist/hdr.go (core Lean only).

  Integers are `Nat`/`Int`: the theorems carry the precondition `max < 2^62`
  under which no `int64` operation of the Go code overflows.  The three float
  computations of `New` are integer functions here (DESIGN §3): their agreement
  with `math.Log2/Ceil/Floor/Pow` on the configurations explored is part of the
  correspondence run.
-/
namespace Ftdc.Hdr

/-- `bitLen` exactly as written in hdr.go (the 16/8/4/2/1 cascade), with fuel for
the leading `for` loop (an int64 needs at most 4 rounds; 64 is plenty). -/
def bitLenLoop : Nat → Nat → Nat → Nat × Nat
  | 0, x, n => (x, n)
  | fuel+1, x, n => if x ≥ 0x8000 then bitLenLoop fuel (x >>> 16) (n + 16) else (x, n)

def bitLenTail (x n : Nat) : Nat :=
  let x1 := if x ≥ 0x80 then x >>> 8 else x
  let n1 := if x ≥ 0x80 then n + 8 else n
  let x2 := if x1 ≥ 0x8 then x1 >>> 4 else x1
  let n2 := if x1 ≥ 0x8 then n1 + 4 else n1
  let x3 := if x2 ≥ 0x2 then x2 >>> 2 else x2
  let n3 := if x2 ≥ 0x2 then n2 + 2 else n2
  if x3 ≥ 0x1 then n3 + 1 else n3

def bitLen (x : Nat) : Nat :=
  let r := bitLenLoop 64 x 0
  bitLenTail r.1 r.2

structure Hist where
  lowest : Int
  highest : Nat
  unitMag : Nat
  sigfigs : Nat
  halfMag : Nat            -- subBucketHalfCountMagnitude
  halfCount : Nat          -- subBucketHalfCount
  mask : Nat               -- subBucketMask
  subCount : Nat           -- subBucketCount
  bucketCount : Nat
  countsLen : Nat
  total : Int
  counts : List Int
  deriving Repr, DecidableEq

/-- ceil(log2 n) for n ≥ 1 -/
def ceilLog2 (n : Nat) : Nat := if n ≤ 1 then 0 else Nat.log2 (n - 1) + 1

/-- the `for smallestUntrackableValue <= maxValue` loop of `New` (after fix F12) -/
def bucketsLoop : Nat → Nat → Nat → Nat → Nat
  | 0, _, _, n => n
  | fuel+1, smallest, max, n =>
      if smallest ≤ max then bucketsLoop fuel (smallest <<< 1) max (n + 1) else n

def subMag (sigfigs : Nat) : Nat := ceilLog2 (2 * 10 ^ sigfigs)

/-- the configuration part of `New` (counts left empty) -/
def mkCfg (minV : Int) (maxV : Nat) (sigfigs : Nat) : Hist :=
  let subCountMag := subMag sigfigs
  let halfMag := (if subCountMag < 1 then 1 else subCountMag) - 1
  let unitMag := if minV ≤ 0 then 0 else Nat.log2 minV.toNat
  let subCount := 2 ^ (halfMag + 1)
  let halfCount := subCount / 2
  let mask := (subCount - 1) <<< unitMag
  let bucketCount := bucketsLoop 64 (subCount <<< unitMag) maxV 1
  let countsLen := (bucketCount + 1) * (subCount / 2)
  { lowest := minV, highest := maxV, unitMag := unitMag, sigfigs := sigfigs,
    halfMag := halfMag, halfCount := halfCount, mask := mask, subCount := subCount,
    bucketCount := bucketCount, countsLen := countsLen, total := 0,
    counts := [] }

def new (minV : Int) (maxV : Nat) (sigfigs : Nat) : Hist :=
  let h := mkCfg minV maxV sigfigs
  { h with counts := List.replicate h.countsLen 0 }

def getBucketIndex (h : Hist) (v : Nat) : Nat :=
  bitLen (v ||| h.mask) - h.unitMag - (h.halfMag + 1)

def getSubBucketIdx (h : Hist) (v : Nat) (b : Nat) : Nat := v >>> (b + h.unitMag)

def countsIndex (h : Hist) (b s : Nat) : Int :=
  (((b + 1) <<< h.halfMag : Nat) : Int) + ((s : Int) - (h.halfCount : Int))

def countsIndexFor (h : Hist) (v : Nat) : Int :=
  let b := getBucketIndex h v
  countsIndex h b (getSubBucketIdx h v b)

def valueFromIndex (h : Hist) (b s : Nat) : Nat := s <<< (b + h.unitMag)

def sizeOfRange (h : Hist) (v : Nat) : Nat :=
  let b := getBucketIndex h v
  let s := getSubBucketIdx h v b
  let adj := if s ≥ h.subCount then b + 1 else b
  1 <<< (h.unitMag + adj)

def lowestEquiv (h : Hist) (v : Nat) : Nat :=
  let b := getBucketIndex h v
  valueFromIndex h b (getSubBucketIdx h v b)

def nextNonEquiv (h : Hist) (v : Nat) : Nat := lowestEquiv h v + sizeOfRange h v
def highestEquiv (h : Hist) (v : Nat) : Nat := nextNonEquiv h v - 1
def medianEquiv (h : Hist) (v : Nat) : Nat := lowestEquiv h v + (sizeOfRange h v >>> 1)

def listModify (l : List Int) (i : Nat) (f : Int → Int) : List Int :=
  l.modify i f

/-- `RecordValues`: `none` = the error return (histogram unchanged).
Negative `v` is an error (Go: the index is negative or out of range). -/
def recordValues (h : Hist) (v : Int) (n : Int) : Option Hist :=
  if v < 0 then none else
  let idx := countsIndexFor h v.toNat
  if idx < 0 ∨ (h.countsLen : Int) ≤ idx then none
  else some { h with counts := listModify h.counts idx.toNat (· + n), total := h.total + n }

def recordValue (h : Hist) (v : Int) : Option Hist := recordValues h v 1

/-- record a list, skipping rejected values; returns the histogram and the accepted ones -/
def recordAll (h : Hist) (vs : List Int) : Hist :=
  vs.foldl (fun h v => (recordValue h v).getD h) h

/-- `Reset`: counts and total cleared, configuration kept -/
def reset (h : Hist) : Hist := { h with counts := List.replicate h.counts.length 0, total := 0 }

/-- the back-fill loop of `RecordCorrectedValue`: record `m`, `m - ei`, … while `m ≥ ei`; stops at the first
rejected value with what has been recorded so far (`false` = the error return).  `fuel` bounds the number of rounds. -/
def correctedLoop : Nat → Hist → Int → Int → Hist × Bool
  | 0, h, _, _ => (h, true)
  | fuel+1, h, m, ei =>
    if m ≥ ei then
      match recordValue h m with
      | none => (h, false)
      | some h' => correctedLoop fuel h' (m - ei) ei
    else (h, true)

/-- `RecordCorrectedValue(v, expectedInterval)` -/
def recordCorrected (h : Hist) (v ei : Int) : Hist × Bool :=
  match recordValue h v with
  | none => (h, false)
  | some h1 =>
    if ei ≤ 0 ∨ v ≤ ei then (h1, true)
    else correctedLoop v.toNat h1 (v - ei) ei

/-- the values `RecordCorrectedValue(v, ei)` stands for: `v`, and for a stall (`v > ei > 0`) every `v - k·ei ≥ ei` -/
def correctedValuesFrom : Nat → Int → Int → List Int
  | 0, _, _ => []
  | fuel+1, m, ei => if m ≥ ei then m :: correctedValuesFrom fuel (m - ei) ei else []

def correctedValues (v ei : Int) : List Int :=
  v :: (if ei ≤ 0 ∨ v ≤ ei then [] else correctedValuesFrom v.toNat (v - ei) ei)

/-! ### the iterator, as the list of positions it visits -/

structure IterPos where
  b : Nat
  s : Nat
  countAt : Int
  countTo : Int
  valueFrom : Nat
  highest : Nat
  deriving Repr, DecidableEq

def getCountAt (h : Hist) (b s : Nat) : Int :=
  let i := countsIndex h b s
  if i < 0 then 0 else h.counts.getD i.toNat 0

/-- `iterator.next` unrolled: the sequence of positions visited (fuel = countsLen + 1 suffices) -/
def iterFrom : Nat → Hist → Nat → Int → Int → List IterPos
  | 0, _, _, _, _ => []
  | fuel+1, h, b, s, countTo =>
    if countTo ≥ h.total then [] else
    let s1 := s + 1
    let (b1, s1) := if s1 ≥ (h.subCount : Int) then (b + 1, (h.halfCount : Int)) else (b, s1)
    if b1 ≥ h.bucketCount then [] else
    let sN := s1.toNat
    let c := getCountAt h b1 sN
    let vf := valueFromIndex h b1 sN
    let p : IterPos := { b := b1, s := sN, countAt := c, countTo := countTo + c,
                         valueFrom := vf, highest := highestEquiv h vf }
    p :: iterFrom fuel h b1 s1 (countTo + c)

def iter (h : Hist) : List IterPos := iterFrom (h.countsLen + 2) h 0 (-1) 0

def maxV (h : Hist) : Nat :=
  let m := (iter h).foldl (fun m p => if p.countAt ≠ 0 then p.highest else m) 0
  highestEquiv h m

def minV (h : Hist) : Nat :=
  let m := match (iter h).find? (fun p => p.countAt ≠ 0) with
    | some p => p.highest
    | none => 0
  lowestEquiv h m

/-- numerator of `Mean` (the float division is trusted) -/
def meanNum (h : Hist) : Int :=
  (iter h).foldl (fun t p => if p.countAt ≠ 0 then t + p.countAt * (medianEquiv h p.valueFrom : Nat) else t) 0

/-- `ValueAtQuantile` with the rank (`countAtPercentile`) as input -/
def valueAtRank (h : Hist) (rank : Int) : Nat :=
  match (iter h).find? (fun p => p.countTo ≥ rank) with
  | some p => highestEquiv h p.valueFrom
  | none => 0

structure Bar where
  fromV : Nat
  toV : Nat
  count : Int
  deriving Repr, DecidableEq

def distribution (h : Hist) : List Bar :=
  (iter h).map fun p => { fromV := lowestEquiv h p.valueFrom, toV := p.highest, count := p.countAt }

/-- `Merge`: re-record every non-empty position's `valueFrom` with its count -/
def merge (h from_ : Hist) : Hist × Int :=
  ((iter from_).filter (fun p => p.countAt ≠ 0)).foldl
    (fun (acc : Hist × Int) p =>
      match recordValues acc.1 p.valueFrom p.countAt with
      | some h' => (h', acc.2)
      | none => (acc.1, acc.2 + p.countAt)) (h, 0)

/-! ### windowed histograms (window.go) -/

/-- `WindowedHistogram`: `n` histograms of one configuration, the index of the current one
(`idx % n`), and the fresh histogram `h0` that `Reset` re-establishes -/
structure Win where
  h0 : Hist
  n : Nat
  hs : List Hist
  idx : Nat
  deriving Repr

/-- `NewWindowed` (its constructor rotates once: index 0, already empty) -/
def Win.new (n : Nat) (h0 : Hist) : Win := { h0 := h0, n := n, hs := List.replicate n h0, idx := 0 }

/-- `Rotate`: advance and reset the histogram that becomes current -/
def Win.rotate (w : Win) : Win :=
  { w with idx := w.idx + 1, hs := w.hs.modify ((w.idx + 1) % w.n) (fun _ => w.h0) }

/-- `Current.RecordValue(v)` (a rejected value changes nothing) -/
def Win.record (w : Win) (v : Int) : Win :=
  { w with hs := w.hs.modify (w.idx % w.n) (fun h => (recordValue h v).getD h) }

/-- `Merge`: reset the accumulator and merge every section into it; returns the total dropped -/
def Win.merge (w : Win) : Hist × Int :=
  w.hs.foldl (fun (acc : Hist × Int) h => let r := Ftdc.Hdr.merge acc.1 h; (r.1, acc.2 + r.2)) (w.h0, 0)

structure Snapshot where
  lowest : Int
  highest : Nat
  sigfigs : Nat
  counts : List Int
  deriving Repr, DecidableEq

def export_ (h : Hist) : Snapshot :=
  { lowest := h.lowest, highest := h.highest, sigfigs := h.sigfigs, counts := h.counts }

def import_ (s : Snapshot) : Hist :=
  let h := new s.lowest s.highest s.sigfigs
  let tot := (s.counts.take h.countsLen).foldl (fun t c => if c > 0 then t + c else t) 0
  { h with counts := s.counts, total := tot }

end Ftdc.Hdr
