import FtdcVerif.Lemmas.Hdr
/-!
# Order statistics of the HDR histogram (C13)

The counts array is the multiplicity function of the recorded values under the index map; the
index map is monotone; the iterator walks the indices in increasing order; hence the value at
rank `r` is the representative of the `r`-th smallest recorded value.
-/
namespace Ftdc.Hdr

/-- capacity of the counts array, as a value bound: every `v < cap h` has an in-range index -/
def cap (h : Hist) : Nat := 2 ^ (h.halfMag + h.unitMag + h.bucketCount)

/-- the same configuration with the nominal maximum raised to the capacity -/
def capH (h : Hist) : Hist := { h with highest := cap h - 1 }

theorem capH_wf {h : Hist} (wf : WF h) : WF (capH h) :=
  { subCount_eq := wf.subCount_eq, halfCount_eq := wf.halfCount_eq, mask_eq := wf.mask_eq,
    countsLen_eq := wf.countsLen_eq, bucket_pos := wf.bucket_pos,
    covers := by
      show cap h - 1 < 2 ^ (h.halfMag + h.unitMag + h.bucketCount)
      have : 0 < 2 ^ (h.halfMag + h.unitMag + h.bucketCount) := Nat.two_pow_pos _
      unfold cap; omega
    bits := wf.bits, precision := wf.precision }

theorem highest_lt_cap {h : Hist} (wf : WF h) : h.highest < cap h := wf.covers

section
variable {h : Hist} (wf : WF h)
include wf

/-- the modulus of the configuration: `M = halfMag + 1 + unitMag` bits fit in bucket 0 -/
theorem bucket_eq' {v : Nat} (hv : v < cap h) :
    getBucketIndex h v = max (blen v) (h.halfMag + 1 + h.unitMag) - h.unitMag - (h.halfMag + 1) :=
  bucket_eq (h := capH h) (capH_wf wf) (show v ≤ cap h - 1 by omega)

theorem bucket_lt' {v : Nat} (hv : v < cap h) : getBucketIndex h v < h.bucketCount := by
  have := bucket_le (h := capH h) (capH_wf wf) (show v ≤ cap h - 1 by omega)
  exact this

theorem sub_lt' {v : Nat} (hv : v < cap h) :
    getSubBucketIdx h v (getBucketIndex h v) < 2 ^ (h.halfMag + 1) := by
  have := sub_lt (h := capH h) (capH_wf wf) (show v ≤ cap h - 1 by omega)
  rw [← wf.subCount_eq]; exact this

/-- in buckets above the first, the sub-bucket index lies in the upper half -/
theorem sub_ge' {v : Nat} (hv : v < cap h) (hb : 1 ≤ getBucketIndex h v) :
    2 ^ h.halfMag ≤ getSubBucketIdx h v (getBucketIndex h v) := by
  have hbe := bucket_eq' wf hv
  have hbl : blen v = getBucketIndex h v + h.unitMag + (h.halfMag + 1) := by
    by_cases hc : blen v ≤ h.halfMag + 1 + h.unitMag
    · rw [Nat.max_eq_right hc] at hbe; omega
    · rw [Nat.max_eq_left (by omega)] at hbe; omega
  have hv0 : v ≠ 0 := by intro h0; subst h0; simp [blen] at hbl
  have h1 := two_pow_blen_le v hv0
  rw [hbl] at h1
  unfold getSubBucketIdx
  rw [Nat.shiftRight_eq_div_pow, Nat.le_div_iff_mul_le (Nat.two_pow_pos _), ← Nat.pow_add]
  have e : getBucketIndex h v + h.unitMag + (h.halfMag + 1) - 1
      = h.halfMag + (getBucketIndex h v + h.unitMag) := by omega
  rw [e] at h1; exact h1

theorem value_in_range' {v : Nat} (hv : v < cap h) : lowestEquiv h v ≤ v ∧ v ≤ highestEquiv h v :=
  value_in_range (h := capH h) (capH_wf wf) (show v ≤ cap h - 1 by omega)

theorem width_bound' {v : Nat} (hv : v < cap h) :
    sizeOfRange h v = 2 ^ h.unitMag ∨ sizeOfRange h v * 10 ^ h.sigfigs ≤ v :=
  width_bound (h := capH h) (capH_wf wf) (show v ≤ cap h - 1 by omega)

theorem size_pos' {v : Nat} (hv : v < cap h) : 0 < sizeOfRange h v := by
  have : sizeOfRange h v = 2 ^ (h.unitMag + getBucketIndex h v) :=
    size_eq (h := capH h) (capH_wf wf) (show v ≤ cap h - 1 by omega)
  rw [this]; exact Nat.two_pow_pos _

/-- the index as a natural number -/
def idx (h : Hist) (v : Nat) : Nat :=
  getBucketIndex h v * 2 ^ h.halfMag + getSubBucketIdx h v (getBucketIndex h v)

omit wf in
theorem blen_mono {a b : Nat} (hab : a ≤ b) : blen a ≤ blen b :=
  blen_le_of_lt (Nat.lt_of_le_of_lt hab (lt_two_pow_blen b))

/-- **the index map is monotone** -/
theorem idx_mono {v w : Nat} (hvw : v ≤ w) (hw : w < cap h) : idx h v ≤ idx h w := by
  have hv : v < cap h := Nat.lt_of_le_of_lt hvw hw
  have bv := bucket_eq' wf hv
  have bw := bucket_eq' wf hw
  have hbl := blen_mono hvw
  have hb : getBucketIndex h v ≤ getBucketIndex h w := by rw [bv, bw]; omega
  unfold idx
  rcases Nat.lt_or_ge (getBucketIndex h v) (getBucketIndex h w) with hlt | hge
  · have s1 := sub_lt' wf hv
    have s2 := sub_ge' wf hw (by omega)
    rw [Nat.pow_succ] at s1
    have : (getBucketIndex h v + 1) * 2 ^ h.halfMag ≤ getBucketIndex h w * 2 ^ h.halfMag :=
      Nat.mul_le_mul_right _ hlt
    rw [Nat.add_mul] at this
    omega
  · have e : getBucketIndex h v = getBucketIndex h w := by omega
    rw [e]
    apply Nat.add_le_add_left
    unfold getSubBucketIdx
    rw [Nat.shiftRight_eq_div_pow, Nat.shiftRight_eq_div_pow]
    exact Nat.div_le_div_right hvw


/-- valid (bucket, sub-bucket) pairs: the positions the iterator visits -/
def ValidPos (h : Hist) (b s : Nat) : Prop :=
  b < h.bucketCount ∧ s < 2 ^ (h.halfMag + 1) ∧ (1 ≤ b → 2 ^ h.halfMag ≤ s)

theorem validPos_of {v : Nat} (hv : v < cap h) :
    ValidPos h (getBucketIndex h v) (getSubBucketIdx h v (getBucketIndex h v)) :=
  ⟨bucket_lt' wf hv, sub_lt' wf hv, sub_ge' wf hv⟩

/-- every value in `[s·P, (s+1)·P)`, `P = 2^(b+unit)`, of a valid position lies below the capacity
and has exactly that position -/
theorem pos_of_range {b s x : Nat} (vp : ValidPos h b s)
    (lo : s * 2 ^ (b + h.unitMag) ≤ x) (hi : x < (s + 1) * 2 ^ (b + h.unitMag)) :
    x < cap h ∧ getBucketIndex h x = b ∧ getSubBucketIdx h x b = s := by
  obtain ⟨hb, hs, hge⟩ := vp
  have hp : 0 < 2 ^ (b + h.unitMag) := Nat.two_pow_pos _
  have epow : 2 ^ (h.halfMag + 1 + b + h.unitMag) = 2 ^ (h.halfMag + 1) * 2 ^ (b + h.unitMag) := by
    rw [← Nat.pow_add]; congr 1; omega
  have hlt : x < 2 ^ (h.halfMag + 1 + b + h.unitMag) := by
    rw [epow]
    exact Nat.lt_of_lt_of_le hi (Nat.mul_le_mul_right _ hs)
  have hcap : x < cap h :=
    Nat.lt_of_lt_of_le hlt (Nat.pow_le_pow_right (by omega) (by omega))
  refine ⟨hcap, ?_, ?_⟩
  · rw [bucket_eq' wf hcap]
    rcases Nat.eq_zero_or_pos b with h0 | hpos
    · subst h0
      have : blen x ≤ h.halfMag + 1 + h.unitMag := by
        apply blen_le_of_lt
        have e : h.halfMag + 1 + 0 + h.unitMag = h.halfMag + 1 + h.unitMag := by omega
        rw [e] at hlt; exact hlt
      rw [Nat.max_eq_right this]; omega
    · have hge' := hge hpos
      have : blen x = h.halfMag + 1 + b + h.unitMag := by
        apply blen_unique hlt
        right
        have e : h.halfMag + 1 + b + h.unitMag - 1 = h.halfMag + (b + h.unitMag) := by omega
        rw [e, Nat.pow_add]
        exact Nat.le_trans (Nat.mul_le_mul_right _ hge') lo
      rw [this, Nat.max_eq_left (by omega)]; omega
  · unfold getSubBucketIdx
    rw [Nat.shiftRight_eq_div_pow]
    apply Nat.le_antisymm
    · apply Nat.le_of_lt_succ
      rw [Nat.div_lt_iff_lt_mul hp]; exact hi
    · rw [Nat.le_div_iff_mul_le hp]; exact lo

omit wf in
theorem valueFromIndex_eq (b s : Nat) : valueFromIndex h b s = s * 2 ^ (b + h.unitMag) := by
  simp [valueFromIndex, Nat.shiftLeft_eq]

/-- the representative `s·2^(b+unit)` of a valid position has exactly that position -/
theorem repr_pos {b s : Nat} (vp : ValidPos h b s) :
    valueFromIndex h b s < cap h ∧ getBucketIndex h (valueFromIndex h b s) = b ∧
    getSubBucketIdx h (valueFromIndex h b s) b = s := by
  have hp : 0 < 2 ^ (b + h.unitMag) := Nat.two_pow_pos _
  apply pos_of_range wf vp
  · rw [valueFromIndex_eq]; exact Nat.le_refl _
  · rw [valueFromIndex_eq, Nat.add_mul]; omega

omit wf in
/-- a position is determined by its index -/
theorem pos_unique {b s b' s' : Nat} (v1 : ValidPos h b s) (v2 : ValidPos h b' s')
    (e : b * 2 ^ h.halfMag + s = b' * 2 ^ h.halfMag + s') : b = b' ∧ s = s' := by
  obtain ⟨_, hs, hge⟩ := v1
  obtain ⟨_, hs', hge'⟩ := v2
  rw [Nat.pow_succ] at hs hs'
  have hp : 0 < 2 ^ h.halfMag := Nat.two_pow_pos _
  generalize 2 ^ h.halfMag = H at *
  have key : ∀ {b s b' s' : Nat}, b < b' → s < H * 2 → (1 ≤ b' → H ≤ s') →
      b * H + s = b' * H + s' → False := by
    intro b s b' s' hlt hs hge' e
    have h1 : (b + 1) * H ≤ b' * H := Nat.mul_le_mul_right _ hlt
    rw [Nat.add_mul] at h1
    have := hge' (by omega)
    omega
  rcases Nat.lt_trichotomy b b' with hlt | heq | hgt
  · exact (key hlt hs hge' e).elim
  · subst heq; exact ⟨rfl, by omega⟩
  · exact (key hgt hs' hge e.symm).elim

/-- the highest equivalent value is a function of the position -/
def hiOf (h : Hist) (b s : Nat) : Nat :=
  valueFromIndex h b s + (1 <<< (h.unitMag + (if s ≥ h.subCount then b + 1 else b))) - 1

omit wf in
theorem highestEquiv_eq (v : Nat) :
    highestEquiv h v = hiOf h (getBucketIndex h v) (getSubBucketIdx h v (getBucketIndex h v)) := rfl

/-- values with the same index have the same representative -/
theorem highestEquiv_of_idx {v w : Nat} (hv : v < cap h) (hw : w < cap h) (e : idx h v = idx h w) :
    highestEquiv h v = highestEquiv h w := by
  obtain ⟨e1, e2⟩ := pos_unique (validPos_of wf hv) (validPos_of wf hw) e
  rw [highestEquiv_eq, highestEquiv_eq, e1] at *
  rw [← e1, e2]

/-- the representative of a valid position has the position's highest equivalent value -/
theorem highestEquiv_repr {b s : Nat} (vp : ValidPos h b s) :
    highestEquiv h (valueFromIndex h b s) = hiOf h b s := by
  obtain ⟨_, e1, e2⟩ := repr_pos wf vp
  rw [highestEquiv_eq, e1, e2]

omit wf in
theorem hiOf_eq {b s : Nat} (hs : s < h.subCount) :
    hiOf h b s = (s + 1) * 2 ^ (b + h.unitMag) - 1 := by
  unfold hiOf
  rw [if_neg (by omega), valueFromIndex_eq, Nat.shiftLeft_eq, Nat.one_mul, Nat.add_mul, Nat.one_mul,
    Nat.add_comm h.unitMag b]

/-- the highest equivalent value of a valid position has that position too -/
theorem hi_pos {b s : Nat} (vp : ValidPos h b s) :
    hiOf h b s < cap h ∧ getBucketIndex h (hiOf h b s) = b ∧ getSubBucketIdx h (hiOf h b s) b = s := by
  have hp : 0 < 2 ^ (b + h.unitMag) := Nat.two_pow_pos _
  have hs : s < h.subCount := by rw [wf.subCount_eq]; exact vp.2.1
  apply pos_of_range wf vp
  · rw [hiOf_eq hs, Nat.add_mul]; omega
  · rw [hiOf_eq hs]
    have : 0 < (s + 1) * 2 ^ (b + h.unitMag) := Nat.mul_pos (by omega) hp
    omega

theorem idx_highestEquiv {v : Nat} (hv : v < cap h) :
    highestEquiv h v < cap h ∧ idx h (highestEquiv h v) = idx h v := by
  obtain ⟨c, e1, e2⟩ := hi_pos wf (validPos_of wf hv)
  rw [← highestEquiv_eq] at c e1 e2
  refine ⟨c, ?_⟩
  unfold idx
  rw [e1, e2]

/-- **monotone representatives** -/
theorem highestEquiv_mono {v w : Nat} (hvw : v ≤ w) (hw : w < cap h) :
    highestEquiv h v ≤ highestEquiv h w := by
  have hv : v < cap h := Nat.lt_of_le_of_lt hvw hw
  rcases Nat.lt_or_ge (idx h v) (idx h w) with hlt | hge
  · -- otherwise `w` would lie inside `v`'s range and share its index
    have hvr := value_in_range (h := capH h) (capH_wf wf) (show w ≤ cap h - 1 by omega)
    have hw2 : w ≤ highestEquiv h w := hvr.2
    rcases Nat.lt_or_ge (highestEquiv h v) w with hh | hh
    · omega
    · exfalso
      -- w ≤ highestEquiv v : then idx w ≤ idx (highestEquiv v) = idx v
      obtain ⟨c, e⟩ := idx_highestEquiv wf hv
      have := idx_mono wf hh c
      omega
  · have := idx_mono wf hvw hw
    exact Nat.le_of_eq (highestEquiv_of_idx wf hv hw (by omega))

end

/-! ### the counts array is the multiplicity function of the accepted values -/

/-- counts index of an `int64` value, as a natural number -/
def cix (h : Hist) (v : Int) : Nat := (countsIndexFor h v.toNat).toNat

/-- the counts array after recording `vs`, starting from `c` -/
def cnts (h : Hist) (c : List Int) (vs : List Int) : List Int :=
  vs.foldl (fun c v => if accepts h v then c.modify (cix h v) (· + 1) else c) c

theorem recordAll_eq (h : Hist) (vs : List Int) : ∀ (c : List Int) (t : Int),
    recordAll { h with counts := c, total := t } vs =
      { h with counts := cnts h c vs, total := t + ((vs.filter (accepts h)).length : Int) } := by
  induction vs with
  | nil => intro c t; simp [recordAll, cnts]
  | cons v vs ih =>
    intro c t
    have hstep : recordAll { h with counts := c, total := t } (v :: vs) =
        recordAll ((recordValue { h with counts := c, total := t } v).getD { h with counts := c, total := t }) vs := by
      simp [recordAll]
    rw [hstep]
    have hacc : (recordValue { h with counts := c, total := t } v).isSome = accepts h v :=
      recordValues_isSome _ v 1
    by_cases ha : accepts h v = true
    · have hv : ¬ v < 0 := by
        simp only [accepts, Bool.and_eq_true, decide_eq_true_eq] at ha; omega
      have hi : ¬ (countsIndexFor h v.toNat < 0 ∨ (h.countsLen : Int) ≤ countsIndexFor h v.toNat) := by
        simp only [accepts, Bool.and_eq_true, decide_eq_true_eq] at ha; omega
      have hr : recordValue { h with counts := c, total := t } v =
          some { h with counts := c.modify (cix h v) (· + 1), total := t + 1 } := by
        unfold recordValue recordValues
        rw [if_neg hv]
        show (if countsIndexFor h v.toNat < 0 ∨ (h.countsLen : Int) ≤ countsIndexFor h v.toNat then none else _) = _
        rw [if_neg hi]; rfl
      rw [hr, Option.getD_some, ih]
      simp only [cnts, List.foldl_cons, ha, if_true, List.filter_cons, List.length_cons]
      congr 1; push_cast; omega
    · have hn : recordValue { h with counts := c, total := t } v = none := by
        cases hx : recordValue { h with counts := c, total := t } v with
        | none => rfl
        | some _ => rw [hx] at hacc; simp at hacc; exact absurd hacc ha
      rw [hn, Option.getD_none, ih]
      simp only [cnts, List.foldl_cons, ha, List.filter_cons]
      simp

theorem cnts_length (h : Hist) (vs : List Int) : ∀ c, (cnts h c vs).length = c.length := by
  induction vs with
  | nil => intro c; rfl
  | cons v vs ih =>
    intro c
    simp only [cnts, List.foldl_cons]
    by_cases ha : accepts h v = true
    · simp only [ha, if_true]; exact (ih _).trans (List.length_modify _ _ _)
    · simp only [ha]; exact ih c

theorem accepts_cix_lt {h : Hist} {v : Int} (ha : accepts h v = true) : cix h v < h.countsLen := by
  simp only [accepts, Bool.and_eq_true, decide_eq_true_eq] at ha
  unfold cix; omega

/-- entry `i` of the counts array counts the accepted values with index `i` -/
theorem cnts_getD (h : Hist) (vs : List Int) (i : Nat) : ∀ c, c.length = h.countsLen →
    (cnts h c vs).getD i 0 = c.getD i 0 + ((vs.countP fun v => accepts h v && cix h v == i : Nat) : Int) := by
  induction vs with
  | nil => intro c _; simp [cnts]
  | cons v vs ih =>
    intro c hc
    simp only [cnts, List.foldl_cons, List.countP_cons]
    by_cases ha : accepts h v = true
    · simp only [ha, if_true, Bool.true_and]
      have := ih (c.modify (cix h v) (· + 1)) (by rw [List.length_modify]; exact hc)
      simp only [cnts] at this
      rw [this]
      have hlt := accepts_cix_lt ha
      rw [List.getD_eq_getElem?_getD, List.getD_eq_getElem?_getD, List.getElem?_modify]
      by_cases hi : cix h v = i
      · subst hi
        have : c[cix h v]? = some (c[cix h v]'(by omega)) := List.getElem?_eq_getElem (by omega)
        simp [this]; omega
      · have hb : (cix h v == i) = false := by simpa using hi
        cases hci : c[i]? <;> simp [hi, hb]
    · have hf : accepts h v = false := by simpa using ha
      simp only [hf, Bool.false_and, Bool.false_eq_true, if_false, Nat.add_zero]
      have := ih c hc
      simp only [cnts] at this
      exact this

/-- prefix sums of the counts array -/
def pre (c : List Int) (k : Nat) : Int := (c.take k).sum

theorem pre_succ (c : List Int) (k : Nat) : pre c (k + 1) = pre c k + c.getD k 0 := by
  unfold pre
  induction c generalizing k with
  | nil => simp
  | cons a c ih =>
    cases k with
    | zero => simp
    | succ k =>
      simp only [List.take_succ_cons, List.sum_cons, List.getD_cons_succ]
      rw [ih k]; omega

theorem pre_all (c : List Int) {k : Nat} (hk : c.length ≤ k) : pre c k = c.sum := by
  unfold pre; rw [List.take_of_length_le hk]

/-- the prefix sum up to `k` counts the accepted values with index below `k` -/
theorem pre_cnts (h : Hist) (vs : List Int) (k : Nat) :
    pre (cnts h (List.replicate h.countsLen 0) vs) k =
      ((vs.countP fun v => accepts h v && decide (cix h v < k) : Nat) : Int) := by
  induction k with
  | zero => simp [pre]
  | succ k ih =>
    rw [pre_succ, ih, cnts_getD h vs k _ (by simp)]
    have h0 : (List.replicate h.countsLen (0 : Int)).getD k 0 = 0 := by
      rw [List.getD_eq_getElem?_getD]
      cases hx : (List.replicate h.countsLen (0 : Int))[k]? with
      | none => rfl
      | some a => simp [List.getElem?_replicate] at hx; simp [hx.2]
    rw [h0, Int.zero_add]
    have : ∀ l : List Int, (l.countP fun v => accepts h v && decide (cix h v < k + 1)) =
        (l.countP fun v => accepts h v && decide (cix h v < k)) +
        (l.countP fun v => accepts h v && cix h v == k) := by
      intro l
      induction l with
      | nil => rfl
      | cons a l ihl =>
        simp only [List.countP_cons, ihl]
        by_cases ha : accepts h a = true
        · simp only [ha, Bool.true_and]
          by_cases h1 : cix h a < k
          · have : ¬ cix h a = k := by omega
            simp [h1, this, show cix h a < k + 1 by omega]; omega
          · by_cases h2 : cix h a = k
            · simp [h2]; omega
            · simp [h1, h2, show ¬ cix h a < k + 1 by omega]
        · have hf : accepts h a = false := by simpa using ha
          simp [hf]
    rw [this]; push_cast; rfl

/-! ### the iterator visits the indices in increasing order -/

/-- iterator state `(b, s)` just before visiting index `j` (`H` = half the sub-bucket count) -/
structure St (H : Nat) (b : Nat) (s : Int) (j : Nat) : Prop where
  ix : (b : Int) * (H : Int) + s + 1 = (j : Int)
  lo : -1 ≤ s
  hi : s < (H : Int) * 2
  up : 1 ≤ b → (H : Int) ≤ s

theorem st_init (H : Nat) (hpos : 0 < H) : St H 0 (-1) 0 :=
  ⟨by simp, by omega, by omega, by intro h; omega⟩

/-- one step of the iterator's position arithmetic -/
theorem st_step {H : Nat} (hpos : 0 < H) {b : Nat} {s : Int} {j : Nat} (st : St H b s j) :
    let bs := if s + 1 ≥ ((H * 2 : Nat) : Int) then (b + 1, (H : Int)) else (b, s + 1)
    0 ≤ bs.2 ∧ (bs.1 * H + bs.2.toNat = j) ∧ bs.2.toNat < H * 2 ∧
    (1 ≤ bs.1 → H ≤ bs.2.toNat) ∧ St H bs.1 bs.2 (j + 1) := by
  obtain ⟨ix, lo, hi, up⟩ := st
  by_cases hc : s + 1 ≥ ((H * 2 : Nat) : Int)
  · simp only [hc, if_true]
    push_cast at hc
    have hs : s = (H : Int) * 2 - 1 := by omega
    refine ⟨by omega, ?_, by simp; omega, by intro _; simp, ?_⟩
    · have : (((b + 1) * H + (H : Int).toNat : Nat) : Int) = ((j : Nat) : Int) := by
        simp only [Int.toNat_natCast]; push_cast; rw [Int.add_mul, Int.one_mul]; omega
      exact_mod_cast this
    · exact ⟨by push_cast; rw [Int.add_mul, Int.one_mul]; omega, by omega, by omega, by intro _; omega⟩
  · simp only [hc, if_false]
    push_cast at hc
    have h0 : 0 ≤ s + 1 := by omega
    refine ⟨h0, ?_, by omega, ?_, ?_⟩
    · have : ((b * H + (s + 1).toNat : Nat) : Int) = ((j : Nat) : Int) := by
        push_cast; rw [Int.toNat_of_nonneg h0]; omega
      exact_mod_cast this
    · intro hb; have := up hb; omega
    · exact ⟨by push_cast; omega, by omega, by omega, by intro hb; have := up hb; omega⟩

/-- what `find?` returns on the iterator: the first index whose prefix sum reaches `rank` -/
theorem find_iter {h : Hist} (wf : WF h) (rank : Int) (hr : rank ≤ h.total) (t : Nat)
    (ht : t < h.countsLen) (hit : rank ≤ pre h.counts (t + 1)) :
    ∀ (fuel b : Nat) (s : Int) (j : Nat), St (2 ^ h.halfMag) b s j → j ≤ t → t - j < fuel → pre h.counts j < rank →
      (∀ k, j ≤ k → k < t → pre h.counts (k + 1) < rank) →
      ∃ p, (iterFrom fuel h b s (pre h.counts j)).find? (fun p => decide (p.countTo ≥ rank)) = some p ∧
        ∃ b' s', ValidPos h b' s' ∧ b' * 2 ^ h.halfMag + s' = t ∧ p.valueFrom = valueFromIndex h b' s' := by
  intro fuel
  induction fuel with
  | zero => intro b s j _ _ hf; omega
  | succ fuel ih =>
    intro b s j st hjt hf hlt hbefore
    obtain ⟨h0, hix, hs2, hup, st'⟩ := st_step (Nat.two_pow_pos _) st
    unfold iterFrom
    rw [if_neg (by omega)]
    dsimp only
    rw [wf.subCount_eq, wf.halfCount_eq, show (2 : Nat) ^ (h.halfMag + 1) = 2 ^ h.halfMag * 2 from Nat.pow_succ ..]
    -- name the updated position
    generalize hbs : (if s + 1 ≥ ((2 ^ h.halfMag * 2 : Nat) : Int) then (b + 1, ((2 ^ h.halfMag : Nat) : Int)) else (b, s + 1)) = bs at *
    obtain ⟨b1, s1⟩ := bs
    simp only at h0 hix hs2 hup st' ⊢
    rw [← show (2 : Nat) ^ (h.halfMag + 1) = 2 ^ h.halfMag * 2 from Nat.pow_succ ..] at hs2
    have hb1 : b1 < h.bucketCount := by
      have hcl := wf.countsLen_eq
      have hpos : 0 < 2 ^ h.halfMag := Nat.two_pow_pos _
      rcases Nat.eq_zero_or_pos b1 with hz | hp
      · have := wf.bucket_pos; omega
      · have hge := hup hp
        have h1 : b1 * 2 ^ h.halfMag + 2 ^ h.halfMag ≤ t := by omega
        rw [hcl] at ht
        apply Nat.lt_of_mul_lt_mul_right (a := 2 ^ h.halfMag)
        have : (b1 + 1) * 2 ^ h.halfMag < (h.bucketCount + 1) * 2 ^ h.halfMag := by
          rw [Nat.add_mul, Nat.one_mul]; omega
        rw [Nat.add_mul, Nat.add_mul] at this; omega
    rw [if_neg (by omega)]
    have hcount : getCountAt h b1 s1.toNat = h.counts.getD j 0 := by
      unfold getCountAt countsIndex
      simp only [Nat.shiftLeft_eq, wf.halfCount_eq]
      have e : (((b1 + 1) * 2 ^ h.halfMag : Nat) : Int) + ((s1.toNat : Int) - ((2 ^ h.halfMag : Nat) : Int)) = (j : Int) := by
        rw [← hix, Nat.add_mul]; push_cast; omega
      rw [e, if_neg (by omega)]; simp
    simp only [List.find?_cons, hcount]
    have hpre : pre h.counts j + h.counts.getD j 0 = pre h.counts (j + 1) := (pre_succ _ _).symm
    rw [hpre]
    by_cases hj : j = t
    · subst hj
      simp only [ge_iff_le, hit, decide_true]
      exact ⟨_, rfl, b1, s1.toNat, ⟨hb1, hs2, hup⟩, hix, rfl⟩
    · have hlt' : pre h.counts (j + 1) < rank := hbefore j (Nat.le_refl _) (by omega)
      have hd : decide (pre h.counts (j + 1) ≥ rank) = false := by simp; omega
      simp only [hd]
      exact ih b1 s1 (j + 1) st' (by omega) (by omega) hlt' (fun k hk1 hk2 => hbefore k (by omega) hk2)

/-! ### which values are accepted -/

/-- the same index arithmetic with the largest capacity an `int64` allows -/
def bigH (h : Hist) : Hist :=
  { h with bucketCount := 63 - h.halfMag - h.unitMag,
           countsLen := (63 - h.halfMag - h.unitMag + 1) * 2 ^ h.halfMag,
           highest := 2 ^ 63 - 1 }

theorem bigH_wf {h : Hist} (wf : WF h) : WF (bigH h) := by
  have hb := wf.bits
  have hp := wf.bucket_pos
  exact
  { subCount_eq := wf.subCount_eq, halfCount_eq := wf.halfCount_eq, mask_eq := wf.mask_eq,
    countsLen_eq := rfl
    bucket_pos := by show 1 ≤ 63 - h.halfMag - h.unitMag; omega
    covers := by
      show 2 ^ 63 - 1 < 2 ^ (h.halfMag + h.unitMag + (63 - h.halfMag - h.unitMag))
      have e : h.halfMag + h.unitMag + (63 - h.halfMag - h.unitMag) = 63 := by omega
      rw [e]; omega
    bits := by show h.halfMag + h.unitMag + (63 - h.halfMag - h.unitMag) ≤ 63; omega
    precision := wf.precision }

theorem cap_bigH {h : Hist} (wf : WF h) : cap (bigH h) = 2 ^ 63 := by
  have hb := wf.bits
  have hp := wf.bucket_pos
  show 2 ^ (h.halfMag + h.unitMag + (63 - h.halfMag - h.unitMag)) = 2 ^ 63
  congr 1; omega

theorem cix_eq_idx {h : Hist} (wf : WF h) (v : Int) : cix h v = idx h v.toNat := by
  unfold cix idx; rw [countsIndexFor_eq wf]; exact Int.toNat_natCast _

/-- an `int64` value is accepted iff it lies below the capacity of the counts array
(which may exceed the nominal highest trackable value) -/
theorem accepts_iff {h : Hist} (wf : WF h) {v : Int} (h63 : v < 2 ^ 63) :
    accepts h v = true ↔ 0 ≤ v ∧ v.toNat < cap h := by
  constructor
  · intro ha
    have hlt := accepts_cix_lt ha
    have h0 : 0 ≤ v := by
      simp only [accepts, Bool.and_eq_true, decide_eq_true_eq] at ha; omega
    refine ⟨h0, ?_⟩
    apply Classical.byContradiction
    intro hge
    have hge : cap h ≤ v.toNat := by omega
    have hv63 : v.toNat < cap (bigH h) := by rw [cap_bigH wf]; omega
    have wfb := bigH_wf wf
    -- the bucket of `v` lies beyond the array
    have hbe : getBucketIndex h v.toNat =
        max (blen v.toNat) (h.halfMag + 1 + h.unitMag) - h.unitMag - (h.halfMag + 1) :=
      bucket_eq' (h := bigH h) wfb hv63
    have hbl : h.halfMag + h.unitMag + h.bucketCount < blen v.toNat := lt_blen_of_le hge
    have hb : h.bucketCount ≤ getBucketIndex h v.toNat := by
      rw [hbe]
      have := Nat.le_max_left (blen v.toNat) (h.halfMag + 1 + h.unitMag)
      generalize max (blen v.toNat) (h.halfMag + 1 + h.unitMag) = m at *
      omega
    have hsub : 2 ^ h.halfMag ≤ getSubBucketIdx h v.toNat (getBucketIndex h v.toNat) :=
      sub_ge' (h := bigH h) wfb hv63 (show 1 ≤ getBucketIndex h v.toNat by have := wf.bucket_pos; omega)
    rw [cix_eq_idx wf, wf.countsLen_eq] at hlt
    unfold idx at hlt
    have : (h.bucketCount + 1) * 2 ^ h.halfMag ≤
        getBucketIndex h v.toNat * 2 ^ h.halfMag + 2 ^ h.halfMag := by
      rw [Nat.add_mul, Nat.one_mul]
      exact Nat.add_le_add_right (Nat.mul_le_mul_right _ hb) _
    omega
  · intro ⟨h0, hc⟩
    have := index_in_range (h := capH h) (capH_wf wf) (show v.toNat ≤ cap h - 1 by omega)
    simp only [accepts, Bool.and_eq_true, decide_eq_true_eq]
    exact ⟨⟨h0, this.1⟩, this.2⟩

/-! ### the value at a rank is the representative of the order statistic -/

/-- `x` is an order statistic of rank `r` of the multiset `A`: fewer than `r` elements lie
strictly below it and at least `r` lie at or below it (no sorting needed to say this) -/
def IsOrderStat (A : List Nat) (r : Nat) (x : Nat) : Prop :=
  x ∈ A ∧ A.countP (fun a => decide (a < x)) < r ∧ r ≤ A.countP (fun a => decide (a ≤ x))

/-- the values a histogram accepts, as naturals -/
def accepted (h : Hist) (vs : List Int) : List Nat := (vs.filter (accepts h)).map Int.toNat

theorem countP_accepted (h : Hist) (vs : List Int) (q : Nat → Bool) :
    (vs.countP fun v => accepts h v && q v.toNat) = (accepted h vs).countP q := by
  unfold accepted
  rw [List.countP_map, List.countP_filter]
  congr 1; funext v; simp [Bool.and_comm]

theorem mem_accepted {h : Hist} (wf : WF h) {vs : List Int} (h63 : ∀ v ∈ vs, v < 2 ^ 63) {a : Nat}
    (ha : a ∈ accepted h vs) : a < cap h := by
  unfold accepted at ha
  obtain ⟨v, hv, rfl⟩ := List.mem_map.1 ha
  obtain ⟨hm, hacc⟩ := List.mem_filter.1 hv
  exact ((accepts_iff wf (h63 v hm)).1 hacc).2

theorem wf_with {h : Hist} (wf : WF h) (c : List Int) (t : Int) : WF { h with counts := c, total := t } :=
  ⟨wf.1, wf.2, wf.3, wf.4, wf.5, wf.6, wf.7, wf.8⟩

theorem valueAtRank_orderStat {h0 : Hist} (wf : WF h0)
    (hc : h0.counts = List.replicate h0.countsLen 0) (ht : h0.total = 0)
    (vs : List Int) (h63 : ∀ v ∈ vs, v < 2 ^ 63) (r x : Nat)
    (hos : IsOrderStat (accepted h0 vs) r x) :
    valueAtRank (recordAll h0 vs) r = highestEquiv h0 x := by
  obtain ⟨hx, hlt, hle⟩ := hos
  have hxc : x < cap h0 := mem_accepted wf h63 hx
  have e := recordAll_eq h0 vs h0.counts h0.total
  change recordAll h0 vs = _ at e
  rw [e, hc, ht]
  generalize hH : Hist.mk h0.lowest h0.highest h0.unitMag h0.sigfigs h0.halfMag h0.halfCount h0.mask h0.subCount
    h0.bucketCount h0.countsLen (0 + ((vs.filter (accepts h0)).length : Int))
    (cnts h0 (List.replicate h0.countsLen 0) vs) = H
  have wfH : WF H := by rw [← hH]; exact wf_with wf _ _
  have hcounts : H.counts = cnts h0 (List.replicate h0.countsLen 0) vs := by rw [← hH]
  have htotal : H.total = ((accepted h0 vs).length : Int) := by
    rw [← hH]; simp [accepted]
  have hpre : ∀ k, pre H.counts k = (((accepted h0 vs).countP fun a => decide (idx h0 a < k) : Nat) : Int) := by
    intro k
    rw [hcounts, pre_cnts, ← countP_accepted]
    congr 2; funext v; rw [cix_eq_idx wf]
  -- the hit position
  have hxi : idx h0 x < h0.countsLen := by
    have := index_in_range (h := capH h0) (capH_wf wf) (show x ≤ cap h0 - 1 by omega)
    rw [countsIndexFor_eq (capH_wf wf)] at this
    exact_mod_cast this.2
  have hr1 : (r : Int) ≤ H.total := by
    rw [htotal]
    have := List.countP_le_length (p := fun a => decide (a ≤ x)) (l := accepted h0 vs)
    exact_mod_cast Nat.le_trans hle this
  have hit : (r : Int) ≤ pre H.counts (idx h0 x + 1) := by
    rw [hpre]
    have : (accepted h0 vs).countP (fun a => decide (a ≤ x)) ≤
        (accepted h0 vs).countP (fun a => decide (idx h0 a < idx h0 x + 1)) := by
      apply List.countP_mono_left
      intro a ha hax
      simp only [decide_eq_true_eq] at hax ⊢
      exact Nat.lt_succ_of_le (idx_mono wf hax hxc)
    exact_mod_cast Nat.le_trans hle this
  have hbefore : ∀ k, 0 ≤ k → k < idx h0 x → pre H.counts (k + 1) < (r : Int) := by
    intro k _ hk
    rw [hpre]
    have : (accepted h0 vs).countP (fun a => decide (idx h0 a < k + 1)) ≤
        (accepted h0 vs).countP (fun a => decide (a < x)) := by
      apply List.countP_mono_left
      intro a ha hak
      simp only [decide_eq_true_eq] at hak ⊢
      apply Classical.byContradiction
      intro hn
      have := idx_mono wf (show x ≤ a by omega) (mem_accepted wf h63 ha)
      omega
    exact_mod_cast Nat.lt_of_le_of_lt this hlt
  have hpre0 : pre H.counts 0 < (r : Int) := by
    rw [hpre]; simp; omega
  have hcl : H.countsLen = h0.countsLen := by rw [← hH]
  have hhm : H.halfMag = h0.halfMag := by rw [← hH]
  obtain ⟨p, hfind, b', s', vp, hix, hvf⟩ :=
    find_iter wfH (r : Int) hr1 (idx h0 x) (by rw [hcl]; exact hxi) hit
      (H.countsLen + 2) 0 (-1) 0 (st_init _ (Nat.two_pow_pos _)) (Nat.zero_le _) (by rw [hcl]; omega) hpre0
      hbefore
  have hp0 : pre H.counts 0 = 0 := by simp [pre]
  rw [hp0] at hfind
  unfold valueAtRank iter
  rw [hfind]
  simp only
  rw [hvf]
  -- the representative of that position
  have vpx := validPos_of wfH (v := x) (by rw [← hH]; exact hxc)
  have hidx : b' * 2 ^ H.halfMag + s' = idx H x := by rw [hix]; rw [← hH]; rfl
  obtain ⟨e1, e2⟩ := pos_unique vp vpx hidx
  rw [highestEquiv_repr wfH vp, e1, e2, ← highestEquiv_eq, ← hH]
  rfl

/-! ### merging histograms of the same configuration -/

theorem pre_le_sum (c : List Int) (hn : ∀ x ∈ c, 0 ≤ x) (k : Nat) : pre c k ≤ c.sum := by
  induction c generalizing k with
  | nil => simp [pre]
  | cons a c ih =>
    cases k with
    | zero =>
      simp only [pre, List.take_zero, List.sum_nil, List.sum_cons]
      have h0 := ih (fun x hx => hn x (List.mem_cons_of_mem _ hx)) 0
      simp only [pre, List.take_zero, List.sum_nil] at h0
      have := hn a (List.mem_cons_self ..)
      omega
    | succ k =>
      have := ih (fun x hx => hn x (List.mem_cons_of_mem _ hx)) k
      simp only [pre, List.take_succ_cons, List.sum_cons] at this ⊢
      omega

/-- once the prefix sum has reached the total, the remaining counts are zero -/
theorem tail_zero (c : List Int) (hn : ∀ x ∈ c, 0 ≤ x) (j : Nat) (hj : c.sum ≤ pre c j) :
    ∀ i, j ≤ i → c.getD i 0 = 0 := by
  induction c generalizing j with
  | nil => intro i _; simp
  | cons a c ih =>
    intro i hji
    have ha := hn a (List.mem_cons_self ..)
    have hn' : ∀ x ∈ c, 0 ≤ x := fun x hx => hn x (List.mem_cons_of_mem _ hx)
    cases j with
    | zero =>
      simp only [pre, List.take_zero, List.sum_nil, List.sum_cons] at hj
      have h0 := pre_le_sum c hn' 0
      simp only [pre, List.take_zero, List.sum_nil] at h0
      have hs : c.sum = 0 := by omega
      have ha0 : a = 0 := by omega
      cases i with
      | zero => simp [ha0]
      | succ i =>
        simp only [List.getD_cons_succ]
        exact ih hn' 0 (by simp [pre, hs]) i (Nat.zero_le _)
    | succ j =>
      cases i with
      | zero => omega
      | succ i =>
        simp only [List.getD_cons_succ]
        apply ih hn' j _ i (by omega)
        simp only [pre, List.take_succ_cons, List.sum_cons] at hj ⊢
        omega

/-- the step function of `Merge` -/
def mergeStep (acc : Hist × Int) (p : IterPos) : Hist × Int :=
  match recordValues acc.1 p.valueFrom p.countAt with
  | some h' => (h', acc.2)
  | none => (acc.1, acc.2 + p.countAt)

theorem merge_eq (h g : Hist) :
    merge h g = ((iter g).filter (fun p => p.countAt ≠ 0)).foldl mergeStep (h, 0) := rfl

/-- `g` with other counts and total -/
def withCounts (g : Hist) (c : List Int) (t : Int) : Hist := { g with counts := c, total := t }

theorem getD_modify_add (c : List Int) (j : Nat) (n : Int) (hj : j < c.length) (i : Nat) :
    (c.modify j (· + n)).getD i 0 = c.getD i 0 + (if i = j then n else 0) := by
  rw [List.getD_eq_getElem?_getD, List.getD_eq_getElem?_getD, List.getElem?_modify]
  by_cases hi : j = i
  · subst hi
    have : c[j]? = some (c[j]'hj) := List.getElem?_eq_getElem hj
    simp [this]
  · have hi' : ¬ i = j := fun h => hi h.symm
    cases hci : c[i]? <;> simp [hi, hi']

/-- folding `Merge`'s step over the positions from index `j` on adds the argument's counts from
index `j` on, and drops nothing, when both histograms have the same configuration -/
theorem merge_fold {g : Hist} (wf : WF g) (hlen : g.counts.length = g.countsLen)
    (hn : ∀ x ∈ g.counts, 0 ≤ x) (hsum : g.counts.sum = g.total) :
    ∀ (fuel b : Nat) (s : Int) (j : Nat) (c : List Int) (t d : Int),
      St (2 ^ g.halfMag) b s j → c.length = g.countsLen → g.countsLen + 1 ≤ fuel + j →
      ∃ c', ((iterFrom fuel g b s (pre g.counts j)).filter (fun p => p.countAt ≠ 0)).foldl mergeStep
            (withCounts g c t, d) = (withCounts g c' (t + (g.total - pre g.counts j)), d) ∧
        c'.length = g.countsLen ∧
        ∀ i, c'.getD i 0 = c.getD i 0 + (if j ≤ i then g.counts.getD i 0 else 0) := by
  intro fuel
  induction fuel with
  | zero =>
    intro b s j c t d _ hc hf
    have hj : g.counts.length ≤ j := by omega
    refine ⟨c, ?_, hc, ?_⟩
    · simp only [iterFrom, List.filter_nil, List.foldl_nil]
      rw [pre_all _ hj, hsum]; simp
    · intro i
      split
      · have : g.counts.getD i 0 = 0 := by
          rw [List.getD_eq_getElem?_getD, List.getElem?_eq_none (by omega)]; rfl
        rw [this]; omega
      · omega
  | succ fuel ih =>
    intro b s j c t d st hc hf
    have hple := pre_le_sum g.counts hn j
    unfold iterFrom
    by_cases hstop : pre g.counts j ≥ g.total
    · rw [if_pos hstop]
      refine ⟨c, ?_, hc, ?_⟩
      · simp only [List.filter_nil, List.foldl_nil]
        have : g.total - pre g.counts j = 0 := by omega
        rw [this]; simp
      · intro i
        split
        · rename_i hji
          rw [tail_zero g.counts hn j (by omega) i hji]; simp
        · simp
    · rw [if_neg hstop]
      obtain ⟨h0, hix, hs2, hup, st'⟩ := st_step (Nat.two_pow_pos _) st
      dsimp only
      rw [wf.subCount_eq, wf.halfCount_eq, show (2 : Nat) ^ (g.halfMag + 1) = 2 ^ g.halfMag * 2 from Nat.pow_succ ..]
      generalize hbs : (if s + 1 ≥ ((2 ^ g.halfMag * 2 : Nat) : Int) then (b + 1, ((2 ^ g.halfMag : Nat) : Int)) else (b, s + 1)) = bs at *
      obtain ⟨b1, s1⟩ := bs
      simp only at h0 hix hs2 hup st' ⊢
      have hjlt : j < g.countsLen := by
        apply Classical.byContradiction
        intro hge
        have : pre g.counts j = g.counts.sum := pre_all _ (by omega)
        omega
      have hpos : 0 < 2 ^ g.halfMag := Nat.two_pow_pos _
      have hb1 : b1 < g.bucketCount := by
        have hcl := wf.countsLen_eq
        rcases Nat.eq_zero_or_pos b1 with hz | hp
        · have := wf.bucket_pos; omega
        · have hge := hup hp
          apply Classical.byContradiction
          intro hnb
          have : (g.bucketCount + 1) * 2 ^ g.halfMag ≤ b1 * 2 ^ g.halfMag + 2 ^ g.halfMag := by
            rw [Nat.add_mul, Nat.one_mul]
            exact Nat.add_le_add_right (Nat.mul_le_mul_right _ (by omega)) _
          omega
      rw [if_neg (by omega)]
      have hs2' : s1.toNat < 2 ^ (g.halfMag + 1) := by rw [Nat.pow_succ]; exact hs2
      have vp : ValidPos g b1 s1.toNat := ⟨hb1, hs2', hup⟩
      have hcount : getCountAt g b1 s1.toNat = g.counts.getD j 0 := by
        unfold getCountAt countsIndex
        simp only [Nat.shiftLeft_eq, wf.halfCount_eq]
        have e : (((b1 + 1) * 2 ^ g.halfMag : Nat) : Int) + ((s1.toNat : Int) - ((2 ^ g.halfMag : Nat) : Int)) = (j : Int) := by
          rw [← hix, Nat.add_mul]; push_cast; omega
        rw [e, if_neg (by omega)]; simp
      have hpre : pre g.counts j + g.counts.getD j 0 = pre g.counts (j + 1) := (pre_succ _ _).symm
      rw [hcount, hpre]
      simp only [List.filter_cons]
      by_cases hz : g.counts.getD j 0 = 0
      · -- an empty position is skipped
        simp only [hz, ne_eq, not_true_eq_false, decide_false]
        obtain ⟨c', e, hl, hg⟩ := ih b1 s1 (j + 1) c t d st' hc (by omega)
        refine ⟨c', ?_, hl, ?_⟩
        · simp only [Bool.false_eq_true, if_false]
          rw [e, ← hpre, hz]; simp
        · intro i
          rw [hg i]
          by_cases hij : i = j
          · subst hij; rw [if_neg (by omega), if_pos (Nat.le_refl _), hz]
          · by_cases h1 : j ≤ i
            · simp [h1, show j + 1 ≤ i by omega]
            · simp [h1, show ¬ j + 1 ≤ i by omega]
      · -- a non-empty position is re-recorded at its own index
        simp only [ne_eq, hz, not_false_eq_true, decide_true, if_true, List.foldl_cons]
        obtain ⟨_, e1, e2⟩ := repr_pos wf vp
        have hidx : countsIndexFor g (valueFromIndex g b1 s1.toNat) = (j : Int) := by
          rw [countsIndexFor_eq wf, e1, e2, hix]
        have hstep : mergeStep (withCounts g c t, d)
            { b := b1, s := s1.toNat, countAt := g.counts.getD j 0, countTo := pre g.counts (j + 1),
              valueFrom := valueFromIndex g b1 s1.toNat,
              highest := highestEquiv g (valueFromIndex g b1 s1.toNat) } =
            (withCounts g (c.modify j (· + g.counts.getD j 0)) (t + g.counts.getD j 0), d) := by
          unfold mergeStep recordValues
          simp only [withCounts]
          rw [if_neg (by omega)]
          have hidx' : countsIndexFor
              { lowest := g.lowest, highest := g.highest, unitMag := g.unitMag, sigfigs := g.sigfigs,
                halfMag := g.halfMag, halfCount := g.halfCount, mask := g.mask, subCount := g.subCount,
                bucketCount := g.bucketCount, countsLen := g.countsLen, total := t, counts := c }
              ((valueFromIndex g b1 s1.toNat : Nat) : Int).toNat = (j : Int) := by
            rw [Int.toNat_natCast]; exact hidx
          simp only [hidx']
          rw [if_neg (by omega)]
          simp [listModify]
        rw [hstep]
        obtain ⟨c', e, hl, hg⟩ := ih b1 s1 (j + 1) (c.modify j (· + g.counts.getD j 0)) (t + g.counts.getD j 0) d st'
          (by rw [List.length_modify]; exact hc) (by omega)
        refine ⟨c', ?_, hl, ?_⟩
        · rw [e, ← hpre]; congr 2; omega
        · intro i
          rw [hg i, getD_modify_add _ _ _ (by omega)]
          by_cases hij : i = j
          · subst hij; rw [if_pos rfl, if_neg (by omega), if_pos (Nat.le_refl _)]; omega
          · by_cases h1 : j ≤ i
            · simp [hij, h1, show j + 1 ≤ i by omega]
            · simp [hij, h1, show ¬ j + 1 ≤ i by omega]

/-- **merging a histogram of the same configuration adds its counts and drops nothing** -/
theorem merge_same {g : Hist} (wf : WF g) (hlen : g.counts.length = g.countsLen)
    (hn : ∀ x ∈ g.counts, 0 ≤ x) (hsum : g.counts.sum = g.total) (c : List Int) (t : Int)
    (hc : c.length = g.countsLen) :
    ∃ c', merge (withCounts g c t) g = (withCounts g c' (t + g.total), 0) ∧ c'.length = g.countsLen ∧
      ∀ i, c'.getD i 0 = c.getD i 0 + g.counts.getD i 0 := by
  have hp0 : pre g.counts 0 = 0 := by simp [pre]
  obtain ⟨c', e, hl, hg⟩ := merge_fold wf hlen hn hsum (g.countsLen + 2) 0 (-1) 0 c t 0
    (st_init _ (Nat.two_pow_pos _)) hc (by omega)
  refine ⟨c', ?_, hl, ?_⟩
  · rw [merge_eq]
    unfold iter
    rw [hp0] at e
    rw [e]; simp
  · intro i; rw [hg i]; simp

theorem ext_getD {a b : List Int} (hl : a.length = b.length) (h : ∀ i, a.getD i 0 = b.getD i 0) : a = b := by
  apply List.ext_getElem hl
  intro i h1 h2
  have := h i
  rw [List.getD_eq_getElem?_getD, List.getD_eq_getElem?_getD, List.getElem?_eq_getElem h1,
    List.getElem?_eq_getElem h2] at this
  simpa using this

end Ftdc.Hdr
