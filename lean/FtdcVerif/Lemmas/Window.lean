import FtdcVerif.Model.Hdr
/-!
# The slots of a window hold its last `n` generations

`slots[(idx + 1 + j) % n]` is the `j`-th oldest of the last `n` generations (those that do not
exist yet are empty); hence the concatenation of the slots is a permutation of the concatenation
of the last `n` generations.
-/
namespace Ftdc.Window

theorem mod_add_lt {r x n : Nat} (hr : r < n) (hx : x < n) :
    (r + x) % n = if r + x < n then r + x else r + x - n := by
  split
  · rename_i h; exact Nat.mod_eq_of_lt h
  · rename_i h
    rw [Nat.mod_eq_sub_mod (by omega), Nat.mod_eq_of_lt (by omega)]

theorem add_mod_inj {a x y n : Nat} (hx : x < n) (hy : y < n) (h : (a + x) % n = (a + y) % n) : x = y := by
  have hn : 0 < n := by omega
  have hr : a % n < n := Nat.mod_lt _ hn
  rw [Nat.add_mod a x, Nat.add_mod a y, Nat.mod_eq_of_lt hx, Nat.mod_eq_of_lt hy,
    mod_add_lt hr hx, mod_add_lt hr hy] at h
  split at h <;> split at h <;> omega

/-- chronological window: the last `n` generations, oldest first -/
structure CWin where
  win : List (List Int)

def CWin.rotate (c : CWin) : CWin := { win := c.win.tail ++ [[]] }
def CWin.record (c : CWin) (v : Int) : CWin := { win := c.win.modify (c.win.length - 1) (· ++ [v]) }

/-- the relation between the slots (with the rotating index) and the chronological window -/
def Rel (n : Nat) (slots : List (List Int)) (idx : Nat) (win : List (List Int)) : Prop :=
  slots.length = n ∧ win.length = n ∧ ∀ j, j < n → slots[(idx + 1 + j) % n]? = win[j]?

theorem rel_init (n : Nat) : Rel n (List.replicate n []) 0 (List.replicate n []) := by
  refine ⟨by simp, by simp, ?_⟩
  intro j hj
  have : (0 + 1 + j) % n < n := Nat.mod_lt _ (by omega)
  simp [List.getElem?_replicate, this, hj]

theorem rel_rotate {n : Nat} {slots : List (List Int)} {idx : Nat} {win : List (List Int)}
    (h : Rel n slots idx win) (hn : 0 < n) :
    Rel n (slots.modify ((idx + 1) % n) (fun _ => [])) (idx + 1) (win.tail ++ [[]]) := by
  obtain ⟨h1, h2, h3⟩ := h
  have hlen : (win.tail ++ [[]]).length = n := by simp [h2]; omega
  have htl : win.tail.length = n - 1 := by simp [h2]
  refine ⟨by simp [h1], hlen, ?_⟩
  intro j hj
  rw [List.getElem?_modify]
  by_cases hlast : j = n - 1
  · -- the slot that becomes current is cleared; it is the newest generation
    have e : (idx + 1 + 1 + j) % n = (idx + 1) % n := by
      have : idx + 1 + 1 + j = idx + 1 + n := by omega
      rw [this, Nat.add_mod_right]
    have hlt : (idx + 1) % n < slots.length := by rw [h1]; exact Nat.mod_lt _ hn
    have hw : (win.tail ++ [[]])[j]? = some [] := by
      rw [List.getElem?_append_right (by rw [htl]; omega), htl, hlast]
      simp
    rw [e, List.getElem?_eq_getElem hlt, hw]
    simp
  · have hj' : j + 1 < n := by omega
    have e : idx + 1 + 1 + j = idx + 1 + (j + 1) := by omega
    have hne : ¬ (idx + 1) % n = (idx + 1 + (j + 1)) % n := by
      intro e1
      have e' : (idx + 1 + 0) % n = (idx + 1 + (j + 1)) % n := by rw [Nat.add_zero]; exact e1
      have := add_mod_inj hn hj' e'
      omega
    have hw : (win.tail ++ [[]])[j]? = win[j + 1]? := by
      rw [List.getElem?_append_left (by rw [htl]; omega), List.getElem?_tail]
    rw [hw, ← h3 (j + 1) hj', e]
    cases hx : slots[(idx + 1 + (j + 1)) % n]? with
    | none => simp
    | some x => simp [hne]

theorem rel_record {n : Nat} {slots : List (List Int)} {idx : Nat} {win : List (List Int)} (v : Int)
    (h : Rel n slots idx win) (hn : 0 < n) :
    Rel n (slots.modify (idx % n) (· ++ [v])) idx (win.modify (win.length - 1) (· ++ [v])) := by
  obtain ⟨h1, h2, h3⟩ := h
  refine ⟨by simp [h1], by simp [h2], ?_⟩
  intro j hj
  rw [List.getElem?_modify, List.getElem?_modify, h2]
  have ecur : idx % n = (idx + 1 + (n - 1)) % n := by
    have : idx + 1 + (n - 1) = idx + n := by omega
    rw [this, Nat.add_mod_right]
  by_cases hlast : j = n - 1
  · subst hlast
    rw [← ecur, ← h3 (n - 1) hj, ← ecur]
    simp
  · have hne : ¬ idx % n = (idx + 1 + j) % n := by
      intro e
      rw [ecur] at e
      have := add_mod_inj (by omega) hj e
      omega
    have hne2 : ¬ n - 1 = j := by omega
    rw [← h3 j hj]
    cases hx : slots[(idx + 1 + j) % n]? with
    | none => simp
    | some x => simp [hne, hne2]

/-- the slots are the chronological window, rotated -/
theorem slots_eq_rotation {n : Nat} {slots : List (List Int)} {idx : Nat} {win : List (List Int)}
    (h : Rel n slots idx win) (hn : 0 < n) :
    slots = win.drop (n - (idx + 1) % n) ++ win.take (n - (idx + 1) % n) := by
  obtain ⟨h1, h2, h3⟩ := h
  have hr : (idx + 1) % n < n := Nat.mod_lt _ hn
  generalize hrdef : (idx + 1) % n = r at hr ⊢
  apply List.ext_getElem?
  intro k
  by_cases hk : k < n
  · by_cases hkr : k < r
    · -- k = (idx + 1 + j) % n  with  j = k + n - r
      have hj : k + n - r < n := by omega
      have := h3 (k + n - r) hj
      have e : (idx + 1 + (k + n - r)) % n = k := by
        rw [Nat.add_mod, hrdef, Nat.mod_eq_of_lt hj, mod_add_lt hr hj]
        split <;> omega
      rw [e] at this
      rw [this, List.getElem?_append_left (by simp [h2]; omega), List.getElem?_drop]
      congr 1; omega
    · have hj : k - r < n := by omega
      have := h3 (k - r) hj
      have e : (idx + 1 + (k - r)) % n = k := by
        rw [Nat.add_mod, hrdef, Nat.mod_eq_of_lt hj, mod_add_lt hr hj]
        split <;> omega
      rw [e] at this
      rw [this, List.getElem?_append_right (by simp [h2]; omega), List.getElem?_take]
      simp only [List.length_drop, h2]
      have : k - (n - (n - r)) = k - r := by omega
      rw [this, if_pos (by omega)]
  · rw [List.getElem?_eq_none (by omega), List.getElem?_eq_none (by simp [h2]; omega)]

/-- **what the slots hold is what the last `n` generations hold** (as multisets) -/
theorem slots_perm {n : Nat} {slots : List (List Int)} {idx : Nat} {win : List (List Int)}
    (h : Rel n slots idx win) (hn : 0 < n) : slots.flatten.Perm win.flatten := by
  rw [slots_eq_rotation h hn]
  have : (win.drop (n - (idx + 1) % n) ++ win.take (n - (idx + 1) % n)).Perm win := by
    have := List.perm_append_comm (l₁ := win.drop (n - (idx + 1) % n)) (l₂ := win.take (n - (idx + 1) % n))
    rw [List.take_append_drop] at this
    exact this
  exact this.flatten

end Ftdc.Window
