import FtdcVerif.Lemmas.Stream
import FtdcVerif.Props.C04
import FtdcVerif.Props.C07
/-!
# C09 — streamed output is crash-consistent and survives writer faults

Crash points: the writer's byte log is a concatenation of serialised documents, each a framed
document (`serDoc_wellFramed`).  For *every* byte offset, the prefix either ends at a document
boundary — then the reader yields exactly the fold over the whole documents inside it, without a
framing error — or inside a document — then it reports an error and still delivers the chunks of
the whole documents before the cut.  Faults: a failing or short write makes the flush return an
error and leaves every pending sample in place; a failing flush inside `Add` rejects that `Add`
without touching the collector.
-/
namespace Ftdc.Props.C09
open Ftdc

/-- what a streaming collector writes is framed: every serialised document is a framed document -/
theorem written_documents_are_framed (d : BDoc) (h : (serDoc d).length < 2 ^ 31) :
    WellFramed (serDoc d) :=
  serDoc_wellFramed d h

/-- **crash at a document boundary**: the prefix made of the first `j` documents decodes to
exactly the fold over those documents (no framing error is introduced by the cut) -/
theorem prefix_at_boundary (inflate : Inflate) (dbs : List Bytes) (j : Nat)
    (h : ∀ db ∈ dbs, WellFramed db) :
    readAll inflate (dbs.take j).flatten = (processDocs inflate (.running none []) (dbs.take j)).result :=
  readAll_framed inflate (dbs.take j) (fun db hdb => h db (List.mem_of_mem_take hdb))

/-- **crash inside a document**: for every document `db` of the stream and every cut `0 < k <
|db|`, the prefix that ends `k` bytes into `db` reports an error, and every chunk wholly
contained in the prefix is still delivered -/
theorem prefix_inside_document (inflate : Inflate) (pre : List Bytes) (db : Bytes) (k : Nat)
    (hpre : ∀ x ∈ pre, WellFramed x) (hdb : WellFramed db) (h0 : 0 < k) (hk : k < db.length) :
    (readAll inflate (pre.flatten ++ db.take k)).err ≠ none ∧
    (readAll inflate pre.flatten).chunks <+: (readAll inflate (pre.flatten ++ db.take k)).chunks :=
  ⟨C04.cut_stream_reports_error inflate pre (db.take k) hpre (take_incomplete hdb k h0 hk),
   C04.intact_prefix_delivered inflate pre (db.take k) hpre⟩

/-- every byte offset of a framed stream is one of the two cases above -/
theorem every_offset_is_boundary_or_inside (db : Bytes) (k : Nat) (hk : k ≤ db.length) :
    k = 0 ∨ k = db.length ∨ (0 < k ∧ k < db.length) := by omega

/-- chunks delivered for a shorter prefix are delivered for every longer one (nothing already
durable is lost or reordered by later writes) -/
theorem longer_prefix_keeps_chunks (inflate : Inflate) (dbs : List Bytes) (tail : Bytes)
    (h : ∀ db ∈ dbs, WellFramed db) :
    (readAll inflate dbs.flatten).chunks <+: (readAll inflate (dbs.flatten ++ tail)).chunks :=
  C04.intact_prefix_delivered inflate dbs tail h

/-! ### writer faults -/

/-- a failing write (nothing consumed): the flush reports the error and every pending sample,
the count and the metadata stay in place; nothing is added to the log -/
theorem failed_write_keeps_pending (c : Streaming) (s : List WriteResult) (docs : List OutDoc)
    (hs : c.out.script = .fail :: s) (hp : c.info.2 ≠ 0) (hr : c.resolve = some docs) :
    (c.flush).2 = false ∧ (c.flush).1.inner = c.inner ∧ (c.flush).1.count = c.count ∧
    (c.flush).1.out.log = c.out.log := by
  simp [Streaming.flush, hp, hr, Writer.write, hs]

/-- a short write (some bytes consumed, error or short count): same, except that the partial
write is visible in the writer's log -/
theorem short_write_keeps_pending (c : Streaming) (n : Nat) (s : List WriteResult) (docs : List OutDoc)
    (hs : c.out.script = .short n :: s) (hp : c.info.2 ≠ 0) (hr : c.resolve = some docs) :
    (c.flush).2 = false ∧ (c.flush).1.inner = c.inner ∧ (c.flush).1.count = c.count := by
  simp [Streaming.flush, hp, hr, Writer.write, hs]

/-- a successful write appends exactly the resolved documents to the log and empties the
collector: the samples become durable exactly once -/
theorem successful_flush_moves_samples (c : Streaming) (docs : List OutDoc)
    (hs : c.out.script = [] ∨ ∃ s, c.out.script = .ok :: s) (hp : c.info.2 ≠ 0)
    (hr : c.resolve = some docs) :
    (c.flush).2 = true ∧ (c.flush).1.out.log = c.out.log ++ [.full docs] ∧
    (c.flush).1.inner.samples = [] ∧ (c.flush).1.count = 0 := by
  rcases hs with hs | ⟨s, hs⟩ <;>
    simp [Streaming.flush, hp, hr, Writer.write, hs, Streaming.reset, Better.reset, Better.samples]

/-- an `Add` whose implicit flush fails is rejected and leaves the pending samples alone -/
theorem add_with_failing_flush_is_rejected (c : Streaming) (d : BDoc)
    (hfull : c.count ≥ c.maxSamples) (hfail : (c.flush).2 = false) :
    (c.add d).2 = .flushErr ∧ (c.add d).1 = (c.flush).1 := by
  simp [Streaming.add, hfull, hfail]

/-- ... and once the writer accepts data again, the retried `Add` flushes the same pending
samples and accepts the new one -/
theorem retry_after_fault (c : Streaming) (d : BDoc)
    (hfull : c.count ≥ c.maxSamples) (hok : (c.flush).2 = true) :
    (c.add d).1.inner = ((c.flush).1.inner.add d).1 ∨ (c.add d).2 ≠ .ok := by
  unfold Streaming.add
  simp only [hfull, ite_true, hok, Bool.not_true, Bool.false_eq_true, ite_false]
  by_cases h : ((c.flush).1.inner.add d).2 = .ok
  · left; simp [h]
  · right; simp [h]

/-! non-vacuity -/
example : WellFramed (serDoc (.cons [97] (.int64 1#64) .nil)) := by
  apply serDoc_wellFramed
  simp [serDoc, serElems, serVal, le32, le64, leN, BVal.tag]

/-! ### the durability bound -/

/-- samples in the complete writes of a writer -/
def written (w : Writer) : Nat :=
  (w.log.map fun e => match e with
    | .full docs => (docs.map fun d => d.samples.length).sum
    | .partialWrite _ _ => 0).sum

/-- run a list of `Add`s; returns the collector and the number of accepted samples -/
def runAdds (c : Streaming) (ds : List BDoc) : Streaming × Nat :=
  ds.foldl (fun (acc : Streaming × Nat) d =>
    let r := acc.1.add d
    (r.1, if r.2 = .ok then acc.2 + 1 else acc.2)) (c, 0)

/-- invariant of a streaming collector over a writer that never fails -/
structure DInv (N : Nat) (c : Streaming) (k : Nat) : Prop where
  script : c.out.script = []
  maxS : c.maxSamples = N
  maxD : c.inner.maxDeltas = N
  cnt : c.count = c.inner.info.2
  le : c.count ≤ N
  refRows : c.inner.ref = none → c.inner.rows = []
  mult : ∃ q, written c.out = N * q
  cons : written c.out + c.count = k

theorem dinv_new (N : Nat) : DInv N (Streaming.new N) 0 :=
  ⟨rfl, rfl, rfl, by simp [Streaming.new, Better.info], by simp [Streaming.new], by intro _; rfl,
    ⟨0, by simp [written, Streaming.new]⟩, by simp [written, Streaming.new]⟩

theorem inner_add_info (b : Better) (d : BDoc) (hr : b.ref = none → b.rows = []) :
    ((b.add d).2 = .ok → (b.add d).1.info.2 = b.info.2 + 1 ∧ (b.add d).1.maxDeltas = b.maxDeltas ∧
        (b.add d).1.ref ≠ none) ∧
    ((b.add d).2 ≠ .ok → (b.add d).1 = b) := by
  unfold Better.add
  cases hb : b.ref with
  | none =>
    have := hr hb
    simp [Better.info, hb, this]
  | some r =>
    simp only
    split
    · simp
    · split
      · simp
      · split
        · simp
        · simp [Better.info, hb]; omega

theorem dinv_add (N : Nat) (hN : 1 ≤ N) (c : Streaming) (k : Nat) (d : BDoc) (h : DInv N c k) :
    DInv N (c.add d).1 (if (c.add d).2 = .ok then k + 1 else k) := by
  obtain ⟨hs, hm, hd, hc, hle, hrr, ⟨q, hq⟩, hcons⟩ := h
  unfold Streaming.add
  by_cases hfull : c.count ≥ c.maxSamples
  · -- the pending chunk is flushed first
    have hcN : c.count = N := by omega
    have hinfo : c.info.2 = N := by simp [Streaming.info, ← hc, hcN]
    have hne : ¬ c.info.2 = 0 := by omega
    obtain ⟨r0, hr0⟩ : ∃ r0, c.inner.ref = some r0 := by
      cases hx : c.inner.ref with
      | some r0 => exact ⟨r0, rfl⟩
      | none =>
        have := hrr hx
        simp [Streaming.info, Better.info, hx, this] at hinfo; omega
    have hrows : c.inner.rows.length + 1 = N := by
      simp [Streaming.info, Better.info, hr0] at hinfo; omega
    -- what the flush does
    have hflush : c.flush = ({ c with out := { c.out with log := c.out.log ++
        [WEntry.full (match c.inner.metadata with
          | some md => [OutDoc.metaDoc c.inner.startedAt md, OutDoc.chunk c.inner.startedAt r0 c.inner.first c.inner.rows]
          | none => [OutDoc.chunk c.inner.startedAt r0 c.inner.first c.inner.rows])] } }.reset, true) := by
      unfold Streaming.flush
      rw [if_neg hne]
      simp only [Streaming.resolve, Better.resolve, hr0]
      cases hmd : c.inner.metadata <;> simp [Writer.write, hs]
    simp only [hfull, if_true, hflush, Bool.not_true, Bool.false_eq_true, if_false]
    generalize hc1 : ({ c with out := { c.out with log := c.out.log ++
        [WEntry.full (match c.inner.metadata with
          | some md => [OutDoc.metaDoc c.inner.startedAt md, OutDoc.chunk c.inner.startedAt r0 c.inner.first c.inner.rows]
          | none => [OutDoc.chunk c.inner.startedAt r0 c.inner.first c.inner.rows])] } } : Streaming).reset = c1
    have hw1 : written c1.out = written c.out + N := by
      rw [← hc1]
      simp only [Streaming.reset, written, List.map_append, List.sum_append, List.map_cons, List.map_nil,
        List.sum_cons, List.sum_nil]
      cases hmd : c.inner.metadata <;> simp [OutDoc.samples] <;> omega
    have hi1 : c1.inner = c.inner.reset := by rw [← hc1]; rfl
    have hcount1 : c1.count = 0 := by rw [← hc1]; rfl
    have hs1 : c1.out.script = [] := by rw [← hc1]; exact hs
    have hm1 : c1.maxSamples = N := by rw [← hc1]; exact hm
    -- the inner collector is fresh: the sample is accepted
    have hacc : (c1.inner.add d).2 = .ok := by rw [hi1]; simp [Better.add, Better.reset]
    have hinfo1 := (inner_add_info c1.inner d (by rw [hi1]; intro _; rfl)).1 hacc
    simp only [hacc, if_true]
    refine ⟨hs1, hm1, by rw [hinfo1.2.1, hi1]; exact hd, ?_, ?_, ?_, ⟨q + 1, by rw [hw1, hq, Nat.mul_add]; omega⟩, ?_⟩
    · show c1.count + 1 = (c1.inner.add d).1.info.2
      rw [hinfo1.1, hi1, hcount1]; simp [Better.info, Better.reset]
    · show c1.count + 1 ≤ N
      rw [hcount1]; omega
    · intro hnone; exact absurd hnone hinfo1.2.2
    · show written c1.out + (c1.count + 1) = k + 1
      rw [hw1, hcount1]; omega
  · simp only [hfull, if_false, Bool.not_true, Bool.false_eq_true]
    have hinfo := inner_add_info c.inner d hrr
    by_cases hacc : (c.inner.add d).2 = .ok
    · simp only [hacc, if_true]
      have h1 := hinfo.1 hacc
      refine ⟨hs, hm, by rw [h1.2.1]; exact hd, ?_, ?_, ?_, ⟨q, hq⟩, ?_⟩
      · show c.count + 1 = (c.inner.add d).1.info.2
        rw [h1.1, hc]
      · show c.count + 1 ≤ N
        omega
      · intro hnone; exact absurd hnone h1.2.2
      · show written c.out + (c.count + 1) = k + 1
        omega
    · have hne : ¬ ((SAddResult.inner (c.inner.add d).2) = SAddResult.ok) := by simp
      simp only [hacc, if_false, hne]
      exact ⟨hs, hm, hd, hc, hle, hrr, ⟨q, hq⟩, hcons⟩

theorem dinv_run (N : Nat) (hN : 1 ≤ N) (ds : List BDoc) : ∀ (c : Streaming) (k : Nat), DInv N c k →
    DInv N (ds.foldl (fun (acc : Streaming × Nat) d =>
      let r := acc.1.add d
      (r.1, if r.2 = .ok then acc.2 + 1 else acc.2)) (c, k)).1
      (ds.foldl (fun (acc : Streaming × Nat) d =>
      let r := acc.1.add d
      (r.1, if r.2 = .ok then acc.2 + 1 else acc.2)) (c, k)).2 := by
  induction ds with
  | nil => intro c k h; exact h
  | cons d ds ih =>
    intro c k h
    simp only [List.foldl_cons]
    exact ih _ _ (dinv_add N hN c k d h)

/-- **The durability bound.**  Over a writer that accepts every write, after any sequence of `Add`
calls of which `k` were accepted, a streaming collector with chunk size `N ≥ 1` has already handed
at least `N·⌊(k−1)/N⌋` samples to its writer, and every accepted sample is either in the writer
or among the at most `N` pending ones. -/
theorem durability_bound (N : Nat) (hN : 1 ≤ N) (ds : List BDoc) :
    let r := runAdds (Streaming.new N) ds
    N * ((r.2 - 1) / N) ≤ written r.1.out ∧ written r.1.out + r.1.count = r.2 ∧ r.1.count ≤ N := by
  have h := dinv_run N hN ds (Streaming.new N) 0 (dinv_new N)
  simp only [runAdds]
  generalize (ds.foldl (fun (acc : Streaming × Nat) d =>
      let r := acc.1.add d
      (r.1, if r.2 = .ok then acc.2 + 1 else acc.2)) (Streaming.new N, 0)) = r at h ⊢
  obtain ⟨_, _, _, _, hle, _, ⟨q, hq⟩, hcons⟩ := h
  refine ⟨?_, hcons, hle⟩
  rw [hq]
  apply Nat.mul_le_mul_left
  -- (k - 1) / N ≤ q  because  k = N*q + count  with  count ≤ N
  apply Nat.le_of_lt_succ
  rw [Nat.div_lt_iff_lt_mul (by omega)]
  have : r.2 = N * q + r.1.count := by omega
  rw [this, Nat.succ_mul, Nat.mul_comm q N]
  omega

/-! ### write faults: nothing accepted is lost, nothing is delivered twice — for every fault script -/

open Ftdc.Props.C07 in
/-- a flush under ANY writer script keeps `complete writes ++ pending` -/
theorem flush_any_script (c : Streaming) (rows : List Row)
    (h : writtenRows c.out ++ c.inner.samples = rows) :
    writtenRows (c.flush).1.out ++ (c.flush).1.inner.samples = rows := by
  unfold Streaming.flush
  by_cases h0 : c.info.2 = 0
  · simp [h0, h]
  · simp only [h0, if_false]
    cases hres : c.resolve with
    | none => simp [h]
    | some docs =>
      have hsam := resolve_samples c.inner docs hres
      unfold Writer.write
      cases hsc : c.out.script with
      | nil =>
        simp only [if_true]
        simp only [Streaming.reset, writtenRows, List.map_append, List.flatten_append, List.map_cons,
          List.map_nil, List.flatten_cons, List.flatten_nil, List.append_nil, hsam]
        simp only [Better.reset, Better.samples, Option.isSome_none, Bool.false_eq_true, if_false, List.append_nil]
        exact h
      | cons r rest =>
        cases r with
        | ok =>
          simp only [if_true]
          simp only [Streaming.reset, writtenRows, List.map_append, List.flatten_append, List.map_cons,
            List.map_nil, List.flatten_cons, List.flatten_nil, List.append_nil, hsam]
          simp only [Better.reset, Better.samples, Option.isSome_none, Bool.false_eq_true, if_false, List.append_nil]
          exact h
        | fail =>
          simp only [Bool.false_eq_true, if_false]
          exact h
        | short k =>
          simp only [Bool.false_eq_true, if_false]
          simp only [writtenRows, List.map_append, List.flatten_append, List.map_cons, List.map_nil,
            List.flatten_cons, List.flatten_nil, List.append_nil]
          exact h

open Ftdc.Props.C07 in
theorem add_any_script (c : Streaming) (acc : List BDoc) (d : BDoc)
    (h : writtenRows c.out ++ c.inner.samples = acc.map fun x => (extractDoc x).map (·.1)) :
    writtenRows (addLog (c, acc) d).1.out ++ (addLog (c, acc) d).1.inner.samples =
      (addLog (c, acc) d).2.map fun x => (extractDoc x).map (·.1) := by
  have key : ∀ (c1 : Streaming),
      writtenRows c1.out ++ c1.inner.samples = acc.map (fun x => (extractDoc x).map (·.1)) →
      (let r := c1.inner.add d
       let c2 : Streaming := if r.2 = .ok then { c1 with inner := r.1, count := c1.count + 1 } else c1
       writtenRows c2.out ++ c2.inner.samples =
         (if r.2 = .ok then acc ++ [d] else acc).map fun x => (extractDoc x).map (·.1)) := by
    intro c1 h1
    by_cases hok : (c1.inner.add d).2 = .ok
    · simp only [hok, if_true]
      rw [Better.add_ok_appends _ _ hok, ← List.append_assoc, h1]; simp
    · simp only [hok, if_false]; exact h1
  unfold addLog Streaming.add
  by_cases hfull : c.count ≥ c.maxSamples
  · simp only [hfull, if_true]
    have hf := flush_any_script c _ h
    by_cases hok : (c.flush).2 = true
    · simp only [hok, Bool.not_true, Bool.false_eq_true, if_false]
      have := key (c.flush).1 hf
      by_cases hacc : ((c.flush).1.inner.add d).2 = .ok <;> simp_all
    · have hok' : (c.flush).2 = false := by simpa using hok
      simp [hok', hf]
  · simp only [hfull, if_false, Bool.not_true, Bool.false_eq_true]
    have := key c h
    by_cases hacc : (c.inner.add d).2 = .ok <;> simp_all

open Ftdc.Props.C07 in
/-- **Under every placement of failing and short writes**: after any sequence of `Add`s over a writer
that follows ANY script of results (ok / error without consuming / short count), the samples in the
complete writes followed by the pending ones are exactly the accepted samples (those whose `Add`
returned nil), once each and in order.  So a failing write discards nothing, a later successful flush
delivers what is pending exactly once, and an `Add` that returned an error added nothing. -/
theorem faithful_under_any_write_faults (n : Nat) (script : List WriteResult) (ds : List BDoc) :
    let c0 : Streaming := { Streaming.new n with out := { script := script } }
    let r := ds.foldl addLog (c0, [])
    writtenRows r.1.out ++ r.1.inner.samples = r.2.map fun x => (extractDoc x).map (·.1) := by
  have : ∀ (ds : List BDoc) (c : Streaming) (acc : List BDoc),
      writtenRows c.out ++ c.inner.samples = acc.map (fun x => (extractDoc x).map (·.1)) →
      writtenRows (ds.foldl addLog (c, acc)).1.out ++ (ds.foldl addLog (c, acc)).1.inner.samples =
        (ds.foldl addLog (c, acc)).2.map fun x => (extractDoc x).map (·.1) := by
    intro ds
    induction ds with
    | nil => intro c acc h; exact h
    | cons d ds ih =>
      intro c acc h
      simp only [List.foldl_cons]
      have e : addLog (c, acc) d = ((addLog (c, acc) d).1, (addLog (c, acc) d).2) := rfl
      rw [e]
      exact ih _ _ (add_any_script c acc d h)
  exact this ds _ [] (by simp [writtenRows, Streaming.new, Better.samples])

open Ftdc.Props.C07 in
theorem sd_flush_any_script (c : StreamingDynamic) (rows : List Row)
    (h : writtenRows c.s.out ++ c.s.inner.samples = rows) :
    writtenRows (c.flush).1.s.out ++ (c.flush).1.s.inner.samples = rows := by
  have := flush_any_script c.s rows h
  unfold StreamingDynamic.flush
  cases hf : c.s.flush with
  | mk s' ok =>
    rw [hf] at this
    by_cases hcond : ok = true ∧ c.s.info.2 ≠ 0
    · simp only [if_pos hcond]; exact this
    · simp only [if_neg hcond]; exact this

open Ftdc.Props.C07 in
theorem sd_add_any_script (c : StreamingDynamic) (acc : List BDoc) (d : BDoc)
    (h : writtenRows c.s.out ++ c.s.inner.samples = acc.map fun x => (extractDoc x).map (·.1)) :
    writtenRows (addLogSD (c, acc) d).1.s.out ++ (addLogSD (c, acc) d).1.s.inner.samples =
      (addLogSD (c, acc) d).2.map fun x => (extractDoc x).map (·.1) := by
  have key : ∀ (c1 : StreamingDynamic),
      writtenRows c1.s.out ++ c1.s.inner.samples = acc.map (fun x => (extractDoc x).map (·.1)) →
      writtenRows (c1.s.add d).1.out ++ (c1.s.add d).1.inner.samples =
        (if (c1.s.add d).2 = .ok then acc ++ [d] else acc).map fun x => (extractDoc x).map (·.1) := by
    intro c1 h1
    have := add_any_script c1.s acc d h1
    simpa [addLog] using this
  unfold addLogSD StreamingDynamic.add
  cases hh : c.hash with
  | none =>
    dsimp only
    by_cases hc : c.s.count > 0
    · rw [if_pos hc]
      have hf := sd_flush_any_script c _ h
      by_cases hok : (c.flush).2 = true
      · simp only [hok, Bool.not_true, Bool.false_eq_true, if_false]
        exact key _ hf
      · have hok' : (c.flush).2 = false := by simpa using hok
        simp [hok', hf]
    · rw [if_neg hc]
      simp only [Bool.not_true, Bool.false_eq_true, if_false]
      exact key c h
  | some hsh =>
    dsimp only
    by_cases hc : hsh ≠ schemaKey d
    · rw [if_pos hc]
      have hf := sd_flush_any_script c _ h
      by_cases hok : (c.flush).2 = true
      · simp only [hok, Bool.not_true, Bool.false_eq_true, if_false]
        exact key _ hf
      · have hok' : (c.flush).2 = false := by simpa using hok
        simp [hok', hf]
    · rw [if_neg hc]
      simp only [Bool.not_true, Bool.false_eq_true, if_false]
      exact key c h

open Ftdc.Props.C07 in
/-- the same for the schema-aware streaming collector (and so for the writer collector built on it):
schema-change flushes that fail lose nothing either -/
theorem dynamic_faithful_under_any_write_faults (n : Nat) (script : List WriteResult) (ds : List BDoc) :
    let c0 : StreamingDynamic := { s := { Streaming.new n with out := { script := script } } }
    let r := ds.foldl addLogSD (c0, [])
    writtenRows r.1.s.out ++ r.1.s.inner.samples = r.2.map fun x => (extractDoc x).map (·.1) := by
  have : ∀ (ds : List BDoc) (c : StreamingDynamic) (acc : List BDoc),
      writtenRows c.s.out ++ c.s.inner.samples = acc.map (fun x => (extractDoc x).map (·.1)) →
      writtenRows (ds.foldl addLogSD (c, acc)).1.s.out ++ (ds.foldl addLogSD (c, acc)).1.s.inner.samples =
        (ds.foldl addLogSD (c, acc)).2.map fun x => (extractDoc x).map (·.1) := by
    intro ds
    induction ds with
    | nil => intro c acc h; exact h
    | cons d ds ih =>
      intro c acc h
      simp only [List.foldl_cons]
      have e : addLogSD (c, acc) d = ((addLogSD (c, acc) d).1, (addLogSD (c, acc) d).2) := rfl
      rw [e]
      exact ih _ _ (sd_add_any_script c acc d h)
  exact this ds _ [] (by simp [writtenRows, Streaming.new, Better.samples])

open Ftdc.Props.C07

/-! ### whole histories: Add, Flush, Reset, SetMetadata, Resolve, Info in any order, under every fault script -/

/-- an operation of a history on a streaming collector (`resolve`, `info` and an unreadable `Add` change nothing) -/
inductive SOp where
  | add (d : BDoc) | addBad | flush | reset | setMeta (d : BDoc) | resolve | info

/-- the specification log (the documents accepted and not discarded by a `Reset`) carried along the history:
an accepted `Add` appends its document; `Reset` discards what is pending, i.e. keeps as many documents as the
complete writes hold; nothing else changes the log -/
def stepS (acc : Streaming × List BDoc) : SOp → Streaming × List BDoc
  | .add d => addLog acc d
  | .flush => ((acc.1.flush).1, acc.2)
  | .reset => (acc.1.reset, acc.2.take (writtenRows acc.1.out).length)
  | .setMeta d => (acc.1.setMetadata d, acc.2)
  | _ => acc

theorem take_of_append_eq_map {α β : Type} (f : α → β) (w p : List β) (acc : List α) (h : w ++ p = acc.map f) :
    w = (acc.take w.length).map f := by
  have := congrArg (List.take w.length) h
  simpa [List.take_append_of_le_length, List.map_take] using this

/-- **C07/C09 at full strength for the streaming collector**: for every history of operations and every script
of write results, the samples in the complete writes followed by the pending ones are exactly the documents
accepted since the last `Reset` (plus those flushed before it), once each and in order. -/
theorem streaming_faithful_all_histories (n : Nat) (script : List WriteResult) (ops : List SOp) :
    let c0 : Streaming := { Streaming.new n with out := { script := script } }
    let r := ops.foldl stepS (c0, [])
    writtenRows r.1.out ++ r.1.inner.samples = r.2.map fun x => (extractDoc x).map (·.1) := by
  have step : ∀ (op : SOp) (c : Streaming) (acc : List BDoc),
      writtenRows c.out ++ c.inner.samples = acc.map (fun x => (extractDoc x).map (·.1)) →
      writtenRows (stepS (c, acc) op).1.out ++ (stepS (c, acc) op).1.inner.samples =
        (stepS (c, acc) op).2.map fun x => (extractDoc x).map (·.1) := by
    intro op c acc h
    cases op with
    | add d => exact add_any_script c acc d h
    | flush => exact flush_any_script c _ h
    | reset =>
      simp only [stepS, Streaming.reset, Better.reset, Better.samples, Option.isSome_none, Bool.false_eq_true,
        if_false, List.append_nil]
      exact take_of_append_eq_map _ _ _ _ h
    | setMeta d => exact h
    | addBad => exact h
    | resolve => exact h
    | info => exact h
  have : ∀ (ops : List SOp) (c : Streaming) (acc : List BDoc),
      writtenRows c.out ++ c.inner.samples = acc.map (fun x => (extractDoc x).map (·.1)) →
      writtenRows (ops.foldl stepS (c, acc)).1.out ++ (ops.foldl stepS (c, acc)).1.inner.samples =
        (ops.foldl stepS (c, acc)).2.map fun x => (extractDoc x).map (·.1) := by
    intro ops
    induction ops with
    | nil => intro c acc h; exact h
    | cons op ops ih =>
      intro c acc h
      simp only [List.foldl_cons]
      have e : stepS (c, acc) op = ((stepS (c, acc) op).1, (stepS (c, acc) op).2) := rfl
      rw [e]
      exact ih _ _ (step op c acc h)
  exact this ops _ [] (by simp [writtenRows, Streaming.new, Better.samples])

/-- ... and a flush that reports success leaves nothing pending: everything accepted is in the complete writes -/
theorem successful_flush_delivers_everything (c : Streaming) (acc : List BDoc)
    (h : writtenRows c.out ++ c.inner.samples = acc.map fun x => (extractDoc x).map (·.1))
    (hok : (c.flush).2 = true) :
    writtenRows (c.flush).1.out = acc.map fun x => (extractDoc x).map (·.1) := by
  have hf := flush_any_script c _ h
  have hp : (c.flush).1.inner.samples = [] := by
    unfold Streaming.flush at hok ⊢
    by_cases h0 : c.info.2 = 0
    · simp only [h0, if_true]
      have : c.inner.ref.isSome = false := by
        simp only [Streaming.info, Better.info] at h0
        cases hr : c.inner.ref <;> simp_all
      simp [Better.samples, this]
    · simp only [h0, if_false] at hok ⊢
      cases hres : c.resolve with
      | none => simp [hres] at hok
      | some docs =>
        simp only [hres] at hok ⊢
        cases hw : c.out.write docs with
        | mk w ok =>
          simp only [hw] at hok ⊢
          by_cases hk : ok = true
          · simp [hk, Streaming.reset, Better.reset, Better.samples]
          · simp [hk] at hok
  rw [hp, List.append_nil] at hf
  exact hf

/-! the schema-aware streaming collector (and the writer collector built on it) -/

def stepSD (acc : StreamingDynamic × List BDoc) : SOp → StreamingDynamic × List BDoc
  | .add d => addLogSD acc d
  | .flush => ((acc.1.flush).1, acc.2)
  | .reset => (acc.1.reset, acc.2.take (writtenRows acc.1.s.out).length)
  | .setMeta d => (acc.1.setMetadata d, acc.2)
  | _ => acc

theorem streaming_dynamic_faithful_all_histories (n : Nat) (script : List WriteResult) (ops : List SOp) :
    let c0 : StreamingDynamic := { s := { Streaming.new n with out := { script := script } } }
    let r := ops.foldl stepSD (c0, [])
    writtenRows r.1.s.out ++ r.1.s.inner.samples = r.2.map fun x => (extractDoc x).map (·.1) := by
  have step : ∀ (op : SOp) (c : StreamingDynamic) (acc : List BDoc),
      writtenRows c.s.out ++ c.s.inner.samples = acc.map (fun x => (extractDoc x).map (·.1)) →
      writtenRows (stepSD (c, acc) op).1.s.out ++ (stepSD (c, acc) op).1.s.inner.samples =
        (stepSD (c, acc) op).2.map fun x => (extractDoc x).map (·.1) := by
    intro op c acc h
    cases op with
    | add d => exact sd_add_any_script c acc d h
    | flush => exact sd_flush_any_script c _ h
    | reset =>
      simp only [stepSD, StreamingDynamic.reset, Streaming.reset, Better.reset, Better.samples, Option.isSome_none,
        Bool.false_eq_true, if_false, List.append_nil]
      exact take_of_append_eq_map _ _ _ _ h
    | setMeta d => exact h
    | addBad => exact h
    | resolve => exact h
    | info => exact h
  have : ∀ (ops : List SOp) (c : StreamingDynamic) (acc : List BDoc),
      writtenRows c.s.out ++ c.s.inner.samples = acc.map (fun x => (extractDoc x).map (·.1)) →
      writtenRows (ops.foldl stepSD (c, acc)).1.s.out ++ (ops.foldl stepSD (c, acc)).1.s.inner.samples =
        (ops.foldl stepSD (c, acc)).2.map fun x => (extractDoc x).map (·.1) := by
    intro ops
    induction ops with
    | nil => intro c acc h; exact h
    | cons op ops ih =>
      intro c acc h
      simp only [List.foldl_cons]
      have e : stepSD (c, acc) op = ((stepSD (c, acc) op).1, (stepSD (c, acc) op).2) := rfl
      rw [e]
      exact ih _ _ (step op c acc h)
  exact this ops _ [] (by simp [writtenRows, Streaming.new, Better.samples])

/-! non-vacuity: a history with a failing write (the second `Add` is refused because its flush fails), a retry,
a reset and a metadata change: two documents are accepted, one is durable, one pending -/
example : (let r := ([SOp.add (.cons [97] (.int64 1#64) .nil), .add (.cons [97] (.int64 2#64) .nil), .flush, .flush, .reset,
    .setMeta .nil, .add (.cons [97] (.int64 3#64) .nil)].foldl stepS
      (({ Streaming.new 1 with out := { script := [.fail] } } : Streaming), []));
    (r.2.length, (writtenRows r.1.out).length, r.1.inner.samples.length)) = (2, 1, 1) := by decide

end Ftdc.Props.C09
