package main

// An independent, minimal BSON tree (no birch, no mongo-driver): used to generate inputs,
// to parse outputs and to compute the property's `project` (non-metric leaves removed).

import (
	"encoding/binary"
	"encoding/hex"
	"errors"
	"fmt"
	"math"
	"math/rand"
	"strconv"
)

type Node struct {
	Key  string
	Tag  byte
	Raw  []byte  // value bytes of a leaf
	Kids []*Node // elements of a document (0x03) or array (0x04)
}

func isMetricTag(t byte) bool {
	switch t {
	case 0x01, 0x08, 0x09, 0x10, 0x11, 0x12:
		return true
	}
	return false
}

func (n *Node) valueBytes() []byte {
	if n.Tag == 0x03 || n.Tag == 0x04 {
		return serElems(n.Kids)
	}
	return n.Raw
}

func serElems(kids []*Node) []byte {
	body := []byte{}
	for _, k := range kids {
		body = append(body, k.Tag)
		body = append(body, []byte(k.Key)...)
		body = append(body, 0)
		body = append(body, k.valueBytes()...)
	}
	out := make([]byte, 4, len(body)+5)
	binary.LittleEndian.PutUint32(out, uint32(len(body)+5))
	out = append(out, body...)
	return append(out, 0)
}

func docBytes(kids []*Node) []byte { return serElems(kids) }

// strict parser ------------------------------------------------------------

var errBSON = errors.New("malformed bson")

func parseDocStrict(b []byte) ([]*Node, error) {
	if len(b) < 5 || int(int32(binary.LittleEndian.Uint32(b))) != len(b) || b[len(b)-1] != 0 {
		return nil, errBSON
	}
	p := b[4 : len(b)-1]
	var kids []*Node
	for len(p) > 0 {
		t := p[0]
		if t == 0 {
			return nil, errBSON
		}
		p = p[1:]
		i := 0
		for i < len(p) && p[i] != 0 {
			i++
		}
		if i == len(p) {
			return nil, errBSON
		}
		key := string(p[:i])
		p = p[i+1:]
		n, rest, err := parseValStrict(t, p)
		if err != nil {
			return nil, err
		}
		n.Key = key
		kids = append(kids, n)
		p = rest
	}
	return kids, nil
}

func lpStr(p []byte) (int, error) {
	if len(p) < 4 {
		return 0, errBSON
	}
	l := int(int32(binary.LittleEndian.Uint32(p)))
	if l < 1 || len(p) < 4+l || p[4+l-1] != 0 {
		return 0, errBSON
	}
	return 4 + l, nil
}

func parseValStrict(t byte, p []byte) (*Node, []byte, error) {
	take := func(n int) (*Node, []byte, error) {
		if len(p) < n {
			return nil, nil, errBSON
		}
		return &Node{Tag: t, Raw: append([]byte{}, p[:n]...)}, p[n:], nil
	}
	switch t {
	case 0x01, 0x09, 0x11, 0x12:
		return take(8)
	case 0x02, 0x0D, 0x0E:
		n, err := lpStr(p)
		if err != nil {
			return nil, nil, err
		}
		return take(n)
	case 0x03, 0x04:
		if len(p) < 4 {
			return nil, nil, errBSON
		}
		l := int(int32(binary.LittleEndian.Uint32(p)))
		if l < 5 || len(p) < l {
			return nil, nil, errBSON
		}
		kids, err := parseDocStrict(p[:l])
		if err != nil {
			return nil, nil, err
		}
		return &Node{Tag: t, Kids: kids}, p[l:], nil
	case 0x05:
		if len(p) < 5 {
			return nil, nil, errBSON
		}
		l := int(int32(binary.LittleEndian.Uint32(p)))
		if l < 0 || len(p) < 5+l {
			return nil, nil, errBSON
		}
		if p[4] > 5 && p[4] < 0x80 {
			return nil, nil, errBSON
		}
		if p[4] == 2 && (l < 4 || int(int32(binary.LittleEndian.Uint32(p[5:])))+4 != l) {
			return nil, nil, errBSON
		}
		return take(5 + l)
	case 0x06, 0x0A, 0xFF, 0x7F:
		return take(0)
	case 0x07:
		return take(12)
	case 0x08:
		if len(p) < 1 || p[0] > 1 {
			return nil, nil, errBSON
		}
		return take(1)
	case 0x0B:
		i := 0
		for k := 0; k < 2; k++ {
			for i < len(p) && p[i] != 0 {
				i++
			}
			if i == len(p) {
				return nil, nil, errBSON
			}
			i++
		}
		return take(i)
	case 0x0C:
		n, err := lpStr(p)
		if err != nil {
			return nil, nil, err
		}
		return take(n + 12)
	case 0x0F:
		if len(p) < 4 {
			return nil, nil, errBSON
		}
		l := int(int32(binary.LittleEndian.Uint32(p)))
		if l < 14 || len(p) < l {
			return nil, nil, errBSON
		}
		n, err := lpStr(p[4:l])
		if err != nil {
			return nil, nil, err
		}
		if _, err := parseDocStrict(p[4+n : l]); err != nil {
			return nil, nil, err
		}
		return take(l)
	case 0x10:
		return take(4)
	case 0x13:
		return take(16)
	}
	return nil, nil, errBSON
}

// project: the document with its non-metric leaves removed; arrays re-indexed.
func project(kids []*Node, isArray bool) []*Node {
	var out []*Node
	for _, k := range kids {
		var n *Node
		switch {
		case k.Tag == 0x03:
			n = &Node{Key: k.Key, Tag: 0x03, Kids: project(k.Kids, false)}
		case k.Tag == 0x04:
			n = &Node{Key: k.Key, Tag: 0x04, Kids: project(k.Kids, true)}
		case isMetricTag(k.Tag):
			n = &Node{Key: k.Key, Tag: k.Tag, Raw: k.Raw}
		default:
			continue
		}
		if isArray {
			n.Key = strconv.Itoa(len(out))
		}
		if out == nil {
			out = []*Node{}
		}
		out = append(out, n)
	}
	if out == nil {
		out = []*Node{}
	}
	return out
}

// leaves in document order: full path segments, tag, normalised int64 value(s)
type Leaf struct {
	Path []string
	Tag  byte
	Val  int64
}

func leavesOf(kids []*Node, path []string, isArray bool, arrKey string) []Leaf {
	var out []Leaf
	for idx, k := range kids {
		p := append(append([]string{}, path...), k.Key)
		if isArray {
			p = append(append([]string{}, path...), strconv.Itoa(idx))
		}
		switch k.Tag {
		case 0x03:
			out = append(out, leavesOf(k.Kids, p, false, "")...)
		case 0x04:
			out = append(out, leavesOf(k.Kids, p, true, "")...)
		case 0x01, 0x12, 0x09:
			out = append(out, Leaf{p, k.Tag, int64(binary.LittleEndian.Uint64(k.Raw))})
		case 0x08:
			out = append(out, Leaf{p, k.Tag, int64(k.Raw[0])})
		case 0x10:
			out = append(out, Leaf{p, k.Tag, int64(int32(binary.LittleEndian.Uint32(k.Raw)))})
		case 0x11:
			out = append(out, Leaf{p, k.Tag, int64(binary.LittleEndian.Uint32(k.Raw[4:]))})
			out = append(out, Leaf{append(append([]string{}, p...), "inc"), k.Tag, int64(binary.LittleEndian.Uint32(k.Raw[:4]))})
		}
	}
	return out
}

func hx(b []byte) string {
	if len(b) == 0 {
		return "-"
	}
	return hex.EncodeToString(b)
}

func unhx(s string) []byte {
	if s == "-" {
		return []byte{}
	}
	b, err := hex.DecodeString(s)
	if err != nil {
		panic("bad hex in case line")
	}
	return b
}

// ---- generators ------------------------------------------------------------

// A schema is a tree whose leaves carry a value generator; instantiate() draws one sample.
type Schema struct {
	Key   string
	Tag   byte
	Kids  []*Schema
	Gen   func(rng *rand.Rand, i int) []byte // leaf value bytes for sample i
	Fixed []byte                             // non-metric leaf: constant bytes
}

var keyAlphabet = []string{"a", "b", "c", "d", "x", "y", "ts", "n", "value", "k1", "inc", "0", "7", "", "%util", "usage%", "p%%", "%d", "a.b", "$x", "k k", "é"}

func u64(v uint64) []byte { b := make([]byte, 8); binary.LittleEndian.PutUint64(b, v); return b }
func u32(v uint32) []byte { b := make([]byte, 4); binary.LittleEndian.PutUint32(b, v); return b }

var i64Boundary = []int64{0, 1, -1, math.MaxInt64, math.MinInt64, math.MaxInt64 - 1, math.MinInt64 + 1, 1 << 32, -(1 << 32), 127, 128, 255, 256, 16383, 16384, 1 << 56, 1<<63 - 1}
var f64Boundary = []uint64{0, 0x8000000000000000, 0x7ff0000000000000, 0xfff0000000000000, 0x7ff8000000000001, 0x7ff4000000000000, 0xfff8000000000000, 1, 0x000fffffffffffff, 0x3ff0000000000000, 0x7fefffffffffffff}

const maxNanoMs = math.MaxInt64 / 1000000

var dtBoundary = []int64{0, 1, -1, 1600000000000, maxNanoMs, -maxNanoMs, maxNanoMs - 1, 999, -999, 1000, -1000, -62135596800000 + 1}

// value-sequence patterns for int64-like leaves
func int64Gen(rng *rand.Rand) func(*rand.Rand, int) []byte {
	mode := rng.Intn(8)
	base := i64Boundary[rng.Intn(len(i64Boundary))]
	if rng.Intn(2) == 0 {
		base = rng.Int63() - rng.Int63()
	}
	step := int64(rng.Intn(5) - 2)
	return func(r *rand.Rand, i int) []byte {
		var v int64
		switch mode {
		case 0: // constant
			v = base
		case 1: // +-1 steps (wrapping at the extremes)
			v = base + int64(i)*step
		case 2: // alternating
			if i%2 == 0 {
				v = base
			} else {
				v = base + 1
			}
		case 3: // boundary values
			v = i64Boundary[r.Intn(len(i64Boundary))]
		case 4: // wrapping deltas: alternate extremes
			if i%2 == 0 {
				v = math.MinInt64
			} else {
				v = math.MaxInt64
			}
		case 5: // mostly constant with rare change
			v = base
			if r.Intn(6) == 0 {
				v = base + int64(r.Intn(3)) - 1
			}
		default:
			v = r.Int63() - r.Int63()
		}
		return u64(uint64(v))
	}
}

func leafSchema(rng *rand.Rand, key string, metricBias int) *Schema {
	s := &Schema{Key: key}
	if rng.Intn(10) < metricBias {
		switch rng.Intn(6) {
		case 0:
			s.Tag = 0x12
			s.Gen = int64Gen(rng)
		case 1:
			s.Tag = 0x10
			g := int64Gen(rng)
			s.Gen = func(r *rand.Rand, i int) []byte { return g(r, i)[:4] }
		case 2:
			s.Tag = 0x01
			mode := rng.Intn(3)
			g := int64Gen(rng)
			s.Gen = func(r *rand.Rand, i int) []byte {
				switch mode {
				case 0:
					return u64(f64Boundary[r.Intn(len(f64Boundary))])
				case 1:
					return u64(math.Float64bits(r.NormFloat64() * 1e3))
				}
				return g(r, i)
			}
		case 3:
			s.Tag = 0x08
			mode := rng.Intn(3)
			s.Gen = func(r *rand.Rand, i int) []byte {
				switch mode {
				case 0:
					return []byte{0}
				case 1:
					return []byte{byte(i % 2)}
				}
				return []byte{byte(r.Intn(2))}
			}
		case 4:
			s.Tag = 0x09
			mode := rng.Intn(3)
			base := dtBoundary[rng.Intn(len(dtBoundary))]
			s.Gen = func(r *rand.Rand, i int) []byte {
				switch mode {
				case 0:
					return u64(uint64(dtBoundary[r.Intn(len(dtBoundary))]))
				case 1:
					v := base + int64(i)*1000
					if v > maxNanoMs {
						v = maxNanoMs
					}
					return u64(uint64(v))
				}
				return u64(uint64(r.Int63n(2*maxNanoMs) - maxNanoMs))
			}
		default:
			s.Tag = 0x11
			mode := rng.Intn(2)
			s.Gen = func(r *rand.Rand, i int) []byte {
				if mode == 0 {
					return append(u32(uint32(i+1)), u32(uint32(1600000000+i))...)
				}
				b := []uint32{0, 1, math.MaxUint32, math.MaxUint32 - 1, 1 << 31, 5, 7}
				return append(u32(b[r.Intn(len(b))]), u32(b[r.Intn(len(b))])...)
			}
		}
		return s
	}
	// non-metric leaf with a fixed value (varies per schema, not per sample... unless noted)
	// length-prefixed strings may hold NUL bytes (they are not C strings)
	nulStr := [][]byte{append(u32(4), 'a', 0, 'b', 0), append(u32(2), 0, 0), append(u32(3), 0, 'x', 0)}[rng.Intn(3)]
	switch rng.Intn(17) {
	case 13:
		s.Tag, s.Fixed = []byte{0x02, 0x0D, 0x0E}[rng.Intn(3)], nulStr
	case 14:
		s.Tag, s.Fixed = 0x0C, append(append([]byte{}, nulStr...), make([]byte, 12)...)
	case 15:
		scope := []byte{5, 0, 0, 0, 0}
		s.Tag, s.Fixed = 0x0F, append(append(u32(uint32(4+len(nulStr)+len(scope))), nulStr...), scope...)
	case 0:
		s.Tag, s.Fixed = 0x02, append(u32(4), []byte("abc\x00")...)
	case 1:
		s.Tag, s.Fixed = 0x05, append(append(u32(3), 0x00), 1, 2, 3)
	case 2:
		s.Tag, s.Fixed = 0x06, []byte{}
	case 3:
		s.Tag, s.Fixed = 0x07, []byte{1, 2, 3, 4, 5, 6, 7, 8, 9, 10, 11, 12}
	case 4:
		s.Tag, s.Fixed = 0x0A, []byte{}
	case 5:
		s.Tag, s.Fixed = 0x0B, []byte("ab\x00i\x00")
	case 6:
		s.Tag, s.Fixed = 0x0C, append(append(u32(2), []byte("n\x00")...), make([]byte, 12)...)
	case 7:
		s.Tag, s.Fixed = 0x0D, append(u32(2), []byte("x\x00")...)
	case 8:
		s.Tag, s.Fixed = 0x0E, append(u32(2), []byte("s\x00")...)
	case 9:
		code := append(u32(2), []byte("c\x00")...)
		scope := []byte{5, 0, 0, 0, 0}
		s.Tag, s.Fixed = 0x0F, append(append(u32(uint32(4+len(code)+len(scope))), code...), scope...)
	case 10:
		s.Tag, s.Fixed = 0x13, make([]byte, 16)
	case 11:
		s.Tag, s.Fixed = 0xFF, []byte{}
	default:
		s.Tag, s.Fixed = 0x7F, []byte{}
	}
	return s
}

func genSchema(rng *rand.Rand, depth, maxFan int, isArray bool, metricBias int) []*Schema {
	n := rng.Intn(maxFan + 1)
	if depth == 0 && n == 0 && rng.Intn(4) != 0 {
		n = 1 + rng.Intn(maxFan)
	}
	used := map[string]bool{}
	var out []*Schema
	for i := 0; i < n; i++ {
		key := keyAlphabet[rng.Intn(len(keyAlphabet))]
		if rng.Intn(4) == 0 {
			key = fmt.Sprintf("f%d", rng.Intn(50))
		}
		if isArray {
			key = strconv.Itoa(i)
		}
		if used[key] {
			continue
		}
		used[key] = true
		if depth < 4 && rng.Intn(10) < 3 {
			s := &Schema{Key: key, Tag: 0x03}
			if rng.Intn(3) == 0 {
				s.Tag = 0x04
			}
			s.Kids = genSchema(rng, depth+1, maxFan, s.Tag == 0x04, metricBias)
			out = append(out, s)
		} else {
			out = append(out, leafSchema(rng, key, metricBias))
		}
	}
	return out
}

func instantiate(rng *rand.Rand, ss []*Schema, i int) []*Node {
	out := []*Node{}
	for _, s := range ss {
		n := &Node{Key: s.Key, Tag: s.Tag}
		switch {
		case s.Tag == 0x03 || s.Tag == 0x04:
			n.Kids = instantiate(rng, s.Kids, i)
		case s.Gen != nil:
			n.Raw = s.Gen(rng, i)
		default:
			n.Raw = s.Fixed
		}
		out = append(out, n)
	}
	return out
}
