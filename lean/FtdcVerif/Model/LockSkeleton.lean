/-
  Lock discipline as a decidable check on the lock / unlock / return skeleton of a function
  (the skeletons are regenerated from the Go sources by harness/cmd/extract on every run).
-/
namespace Ftdc.LockSkeleton

mutual
inductive Sk where
  | lock | unlock | deferUnlock | ret
  | seq (l : SkList)
  | branch (l : SkList)      -- if / select / switch: exactly one alternative runs
  | loop (l : SkList)        -- for: the body runs any number of times
inductive SkList where
  | nil
  | cons (h : Sk) (t : SkList)
end

def sl : List Sk → SkList
  | [] => .nil
  | h :: t => .cons h (sl t)

/-- (mutexes held, deferred unlocks pending) -/
abbrev LState := Nat × Nat

/-- how control leaves a piece of code: falls through in a lock state, always returns (every
return was fine), or something is wrong (a return with the mutex held, an unlock of a mutex not
held, alternatives that disagree about the lock state, a loop body that is not lock-neutral) -/
inductive Res where
  | fall (s : LState)
  | returns
  | bad
  deriving DecidableEq, Repr

def retOk (s : LState) : Bool := s.1 == s.2     -- deferred unlocks release exactly what is held

/-- alternatives of a branch: those that fall through must agree -/
def Res.join : Res → Res → Res
  | .bad, _ => .bad
  | _, .bad => .bad
  | .returns, r => r
  | r, .returns => r
  | .fall a, .fall b => if a = b then .fall a else .bad

mutual
def exec : Sk → LState → Res
  | .lock, (d, f) => .fall (d + 1, f)
  | .unlock, (d, f) => if d = 0 then .bad else .fall (d - 1, f)
  | .deferUnlock, (d, f) => .fall (d, f + 1)
  | .ret, s => if retOk s then .returns else .bad
  | .seq l, s => execSeq l s
  | .branch l, s => execAlt l s
  | .loop l, s =>
    -- every iteration must leave the lock state as it found it; the loop may also run zero times
    match execSeq l s with
    | .fall s' => if s' = s then .fall s else .bad
    | .returns => .fall s
    | .bad => .bad
def execSeq : SkList → LState → Res
  | .nil, s => .fall s
  | .cons h t, s =>
    match exec h s with
    | .fall s' => execSeq t s'
    | .returns => .returns        -- what follows is unreachable
    | .bad => .bad
def execAlt : SkList → LState → Res
  | .nil, _ => .returns            -- neutral element of `join`
  | .cons h t, s => (exec h s).join (execAlt t s)
end

/-- every path through the function returns with the mutex released (falling off the end is a
return), never unlocks a mutex it does not hold, branches agree and loop bodies are lock-neutral -/
def balanced (k : Sk) : Bool :=
  match exec k (0, 0) with
  | .fall s => retOk s
  | .returns => true
  | .bad => false

end Ftdc.LockSkeleton
