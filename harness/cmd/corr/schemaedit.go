package main

import (
	"fmt"
	"math/rand"
	"strings"
)

// ---- generated schema pairs: a random schema tree and the same tree after one structural edit ----

// shape is a schema tree without values: leaves carry a BSON tag.
type shape struct {
	key  string
	tag  byte // 0x03 = sub-document, 0x04 = array, otherwise a leaf type
	kids []*shape
}

func (s *shape) clone() *shape {
	c := &shape{key: s.key, tag: s.tag}
	for _, k := range s.kids {
		c.kids = append(c.kids, k.clone())
	}
	return c
}

var shapeNames = []string{"a", "b", "c", "x", "y", "z", "n", "ab"}

func genShape(rng *rand.Rand, depth int) []*shape {
	n := 1 + rng.Intn(4)
	var out []*shape
	used := map[string]bool{}
	for len(out) < n {
		k := shapeNames[rng.Intn(len(shapeNames))]
		if used[k] {
			continue
		}
		used[k] = true
		if depth < 3 && rng.Intn(3) == 0 {
			tag := byte(0x03)
			if rng.Intn(5) == 0 {
				tag = 0x04
			}
			kids := genShape(rng, depth+1)
			if tag == 0x04 {
				for i, c := range kids {
					c.key = fmt.Sprint(i)
				}
			}
			out = append(out, &shape{key: k, tag: tag, kids: kids})
		} else {
			out = append(out, &shape{key: k, tag: 0x12})
		}
	}
	return out
}

// instantiateShape fills the leaves with distinct values: leaf number p of sample k holds 1000*p + k (int64 leaves)
func instantiateShape(sh []*shape, k int64, p *int64) []*Node {
	var out []*Node
	for _, s := range sh {
		switch s.tag {
		case 0x03, 0x04:
			out = append(out, &Node{Key: s.key, Tag: s.tag, Kids: instantiateShape(s.kids, k, p)})
		default:
			*p++
			v := 1000**p + k
			switch s.tag {
			case 0x12:
				out = append(out, i64n(s.key, v))
			case 0x10:
				out = append(out, &Node{Key: s.key, Tag: 0x10, Raw: u32(uint32(v))})
			case 0x01:
				out = append(out, dbl(s.key, uint64(0x4024000000000000+v)))
			case 0x08:
				out = append(out, &Node{Key: s.key, Tag: 0x08, Raw: []byte{byte(k & 1)}})
			case 0x02:
				out = append(out, &Node{Key: s.key, Tag: 0x02, Raw: append(u32(2), 'x', 0)})
			}
		}
	}
	return out
}

// all (parent slice, index) positions of a tree, depth first
type shapePos struct {
	parent *[]*shape
	idx    int
}

func positions(sh *[]*shape, out *[]shapePos) {
	for i := range *sh {
		*out = append(*out, shapePos{sh, i})
		if (*sh)[i].tag == 0x03 {
			positions(&(*sh)[i].kids, out)
		}
	}
}

// editShape applies one structural edit to a copy; returns nil when the edit does not apply
func editShape(rng *rand.Rand, orig []*shape) ([]*shape, string) {
	var sh []*shape
	for _, s := range orig {
		sh = append(sh, s.clone())
	}
	var ps []shapePos
	positions(&sh, &ps)
	rng.Shuffle(len(ps), func(i, j int) { ps[i], ps[j] = ps[j], ps[i] })
	kind := []string{"hoist", "sink", "rename", "swap", "wrap", "unwrap", "retype", "add", "remove", "nonmetric"}[rng.Intn(10)]
	for _, p := range ps {
		sl := *p.parent
		s := sl[p.idx]
		switch kind {
		case "hoist": // the last leaf of a sub-document moves directly behind it
			if s.tag == 0x03 && len(s.kids) >= 1 && s.kids[len(s.kids)-1].tag != 0x03 && s.kids[len(s.kids)-1].tag != 0x04 {
				leaf := s.kids[len(s.kids)-1]
				if hasKey(sl, leaf.key) {
					continue
				}
				s.kids = s.kids[:len(s.kids)-1]
				*p.parent = append(append(append([]*shape{}, sl[:p.idx+1]...), leaf), sl[p.idx+1:]...)
				return sh, kind
			}
		case "sink": // the leaf directly behind a sub-document moves to its end
			if s.tag == 0x03 && p.idx+1 < len(sl) && sl[p.idx+1].tag != 0x03 && sl[p.idx+1].tag != 0x04 && !hasKey(s.kids, sl[p.idx+1].key) {
				s.kids = append(s.kids, sl[p.idx+1])
				*p.parent = append(append([]*shape{}, sl[:p.idx+1]...), sl[p.idx+2:]...)
				return sh, kind
			}
		case "rename":
			if nk := s.key + "q"; !hasKey(sl, nk) {
				s.key = nk
				return sh, kind
			}
		case "swap":
			if p.idx+1 < len(sl) {
				sl[p.idx], sl[p.idx+1] = sl[p.idx+1], sl[p.idx]
				return sh, kind
			}
		case "wrap":
			if s.tag != 0x03 && s.tag != 0x04 {
				sl[p.idx] = &shape{key: s.key, tag: 0x03, kids: []*shape{{key: "w", tag: s.tag}}}
				return sh, kind
			}
		case "unwrap":
			if s.tag == 0x03 && len(s.kids) == 1 && s.kids[0].tag != 0x03 && s.kids[0].tag != 0x04 {
				sl[p.idx] = &shape{key: s.key, tag: s.kids[0].tag}
				return sh, kind
			}
		case "retype":
			if s.tag == 0x12 {
				s.tag = []byte{0x10, 0x01, 0x08}[rng.Intn(3)]
				return sh, kind
			}
		case "add":
			if nk := "k" + s.key; !hasKey(sl, nk) {
				*p.parent = append(append(append([]*shape{}, sl[:p.idx]...), &shape{key: nk, tag: 0x12}), sl[p.idx:]...)
				return sh, kind
			}
		case "remove":
			if len(sl) > 1 {
				*p.parent = append(append([]*shape{}, sl[:p.idx]...), sl[p.idx+1:]...)
				return sh, kind
			}
		case "nonmetric": // a metric leaf becomes a string (one metric fewer)
			if s.tag == 0x12 {
				s.tag = 0x02
				return sh, kind
			}
		}
	}
	return nil, kind
}

func hasKey(sl []*shape, k string) bool {
	for _, s := range sl {
		if s.key == k {
			return true
		}
	}
	return false
}

// schemaEditCases: hist lines over a pool {S k=0, S' k=0, S k=3, S' k=4} for schema-aware collectors
func schemaEditCases(rng *rand.Rand, n int) []string {
	var lines []string
	patterns := []string{"a0 a1", "a0 a2 a1 a3", "a1 a3 a0 a2", "a0 a1 a2 a3", "a0 a2 a2 a1 a3 a3 a0", "a1 a0 a3"}
	cts := []string{"dynamic", "streamingDynamic", "writer"}
	for len(lines) < n {
		s := genShape(rng, 0)
		e, _ := editShape(rng, s)
		if e == nil {
			continue
		}
		var pool []string
		for _, sk := range []struct {
			sh []*shape
			k  int64
		}{{s, 0}, {e, 0}, {s, 3}, {e, 4}} {
			var p int64
			pool = append(pool, hx(docBytes(instantiateShape(sk.sh, sk.k, &p))))
		}
		lines = append(lines, fmt.Sprintf("hist %s %d - | %s | %s", cts[rng.Intn(len(cts))], []int{2, 3, 10}[rng.Intn(3)],
			strings.Join(pool, " "), patterns[rng.Intn(len(patterns))]))
	}
	return lines
}
