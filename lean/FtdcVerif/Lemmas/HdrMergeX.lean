import FtdcVerif.Lemmas.HdrRank
/-!
# Merging histograms of different configurations

`Merge` re-records, for every non-empty position of its argument, the lowest value of that
position with the position's count.  So every value `a` the argument holds arrives as
`lowestEquiv g a`; it is counted as dropped iff the receiver rejects that value.
-/
namespace Ftdc.Hdr

/-- the value `Merge` re-records for `a` -/
def rep (g : Hist) (a : Nat) : Int := (lowestEquiv g a : Nat)

theorem countP_split (A : List Nat) (j : Nat) (ι : Nat → Nat) (P : Nat → Bool) :
    (A.countP fun a => decide (j ≤ ι a) && P a) =
      (A.countP fun a => (ι a == j) && P a) + (A.countP fun a => decide (j + 1 ≤ ι a) && P a) := by
  induction A with
  | nil => rfl
  | cons a A ih =>
    simp only [List.countP_cons, ih]
    by_cases h1 : ι a = j
    · by_cases hp : P a = true <;> simp [h1, hp, Nat.not_succ_le_self] <;> omega
    · by_cases h2 : j + 1 ≤ ι a
      · have : j ≤ ι a := by omega
        simp [h1, h2, this]; omega
      · have : ¬ j ≤ ι a := by omega
        simp [h1, h2, this]

theorem countP_congr_on (A : List Nat) (p q : Nat → Bool) (h : ∀ a ∈ A, p a = q a) :
    A.countP p = A.countP q := by
  induction A with
  | nil => rfl
  | cons a A ih =>
    simp only [List.countP_cons, h a (List.mem_cons_self ..), ih (fun x hx => h x (List.mem_cons_of_mem _ hx))]

/-- the fold of `Merge` over the positions from index `j` on, into a receiver `h` of any
configuration: every value of the argument with index ≥ `j` is re-recorded as its `rep`, or counted
as dropped if the receiver rejects it -/
theorem mergeX_fold {g : Hist} (wf : WF g) (hlen : g.counts.length = g.countsLen)
    (hn : ∀ x ∈ g.counts, 0 ≤ x) (hsum : g.counts.sum = g.total)
    (A : List Nat) (hA : ∀ a ∈ A, a < cap g)
    (hcnt : ∀ k, g.counts.getD k 0 = ((A.countP fun a => idx g a == k : Nat) : Int))
    (h : Hist) :
    ∀ (fuel b : Nat) (s : Int) (j : Nat) (c : List Int) (t d : Int),
      St (2 ^ g.halfMag) b s j → c.length = h.countsLen → g.countsLen + 1 ≤ fuel + j →
      ∃ c', ((iterFrom fuel g b s (pre g.counts j)).filter (fun p => p.countAt ≠ 0)).foldl mergeStep
            (withCounts h c t, d) =
          (withCounts h c' (t + ((A.countP fun a => decide (j ≤ idx g a) && accepts h (rep g a) : Nat) : Int)),
           d + ((A.countP fun a => decide (j ≤ idx g a) && !accepts h (rep g a) : Nat) : Int)) ∧
        c'.length = h.countsLen ∧
        ∀ i, c'.getD i 0 = c.getD i 0 +
          ((A.countP fun a => decide (j ≤ idx g a) && (accepts h (rep g a) && (cix h (rep g a) == i)) : Nat) : Int) := by
  -- no value of `A` has an index at or beyond the end of the array
  have hidxlt : ∀ a ∈ A, idx g a < g.countsLen := by
    intro a ha
    have := index_in_range (h := capH g) (capH_wf wf) (show a ≤ cap g - 1 by have := hA a ha; omega)
    rw [countsIndexFor_eq (capH_wf wf)] at this
    exact_mod_cast this.2
  have hnone : ∀ (j : Nat) (P : Nat → Bool), (∀ k, j ≤ k → g.counts.getD k 0 = 0) →
      (A.countP fun a => decide (j ≤ idx g a) && P a) = 0 := by
    intro j P hz
    rw [List.countP_eq_zero]
    intro a ha
    simp only [Bool.and_eq_true, decide_eq_true_eq, not_and]
    intro hja
    exfalso
    have := hz (idx g a) hja
    rw [hcnt] at this
    have hpos : 0 < A.countP fun x => idx g x == idx g a := by
      rw [List.countP_pos_iff]; exact ⟨a, ha, by simp⟩
    omega
  intro fuel
  induction fuel with
  | zero =>
    intro b s j c t d _ hc hf
    have hz : ∀ k, j ≤ k → g.counts.getD k 0 = 0 := by
      intro k hk
      rw [List.getD_eq_getElem?_getD, List.getElem?_eq_none (by omega)]; rfl
    refine ⟨c, ?_, hc, ?_⟩
    · simp only [iterFrom, List.filter_nil, List.foldl_nil, hnone j _ hz]; simp
    · intro i; rw [hnone j _ hz]; simp
  | succ fuel ih =>
    intro b s j c t d st hc hf
    have hple := pre_le_sum g.counts hn j
    unfold iterFrom
    by_cases hstop : pre g.counts j ≥ g.total
    · rw [if_pos hstop]
      have hz := tail_zero g.counts hn j (by omega)
      refine ⟨c, ?_, hc, ?_⟩
      · simp only [List.filter_nil, List.foldl_nil, hnone j _ hz]; simp
      · intro i; rw [hnone j _ hz]; simp
    · rw [if_neg hstop]
      obtain ⟨h0, hix, hs2, hup, st'⟩ := st_step (Nat.two_pow_pos _) st
      dsimp only
      rw [wf.subCount_eq, wf.halfCount_eq, show (2 : Nat) ^ (g.halfMag + 1) = 2 ^ g.halfMag * 2 from Nat.pow_succ ..]
      generalize hbs : (if s + 1 ≥ ((2 ^ g.halfMag * 2 : Nat) : Int) then (b + 1, ((2 ^ g.halfMag : Nat) : Int)) else (b, s + 1)) = bs at *
      obtain ⟨b1, s1⟩ := bs
      simp only at h0 hix hs2 hup st' ⊢
      have hjlt : j < g.countsLen := by
        apply Classical.byContradiction
        intro hge
        have : pre g.counts j = g.counts.sum := pre_all _ (by omega)
        omega
      have hpos : 0 < 2 ^ g.halfMag := Nat.two_pow_pos _
      have hb1 : b1 < g.bucketCount := by
        have hcl := wf.countsLen_eq
        rcases Nat.eq_zero_or_pos b1 with hz | hp
        · have := wf.bucket_pos; omega
        · have hge := hup hp
          apply Classical.byContradiction
          intro hnb
          have : (g.bucketCount + 1) * 2 ^ g.halfMag ≤ b1 * 2 ^ g.halfMag + 2 ^ g.halfMag := by
            rw [Nat.add_mul, Nat.one_mul]
            exact Nat.add_le_add_right (Nat.mul_le_mul_right _ (by omega)) _
          omega
      rw [if_neg (by omega)]
      have hs2' : s1.toNat < 2 ^ (g.halfMag + 1) := by rw [Nat.pow_succ]; exact hs2
      have vp : ValidPos g b1 s1.toNat := ⟨hb1, hs2', hup⟩
      have hcount : getCountAt g b1 s1.toNat = g.counts.getD j 0 := by
        unfold getCountAt countsIndex
        simp only [Nat.shiftLeft_eq, wf.halfCount_eq]
        have e : (((b1 + 1) * 2 ^ g.halfMag : Nat) : Int) + ((s1.toNat : Int) - ((2 ^ g.halfMag : Nat) : Int)) = (j : Int) := by
          rw [← hix, Nat.add_mul]; push_cast; omega
        rw [e, if_neg (by omega)]; simp
      have hpre : pre g.counts j + g.counts.getD j 0 = pre g.counts (j + 1) := (pre_succ _ _).symm
      rw [hcount, hpre]
      simp only [List.filter_cons]
      -- every value of `A` with index `j` is re-recorded as this position's lowest value
      have hrep : ∀ a ∈ A, idx g a = j → rep g a = ((valueFromIndex g b1 s1.toNat : Nat) : Int) := by
        intro a ha hia
        obtain ⟨e1, e2⟩ := pos_unique (validPos_of wf (hA a ha)) vp (by rw [hix]; exact hia)
        unfold rep lowestEquiv
        simp only []
        rw [e1] at e2 ⊢
        rw [e2]
      -- the three counts split into "index = j" and "index ≥ j + 1"
      have hsplit : ∀ (P : Nat → Bool), (A.countP fun a => decide (j ≤ idx g a) && P a) =
          (A.countP fun a => (idx g a == j) && P a) + (A.countP fun a => decide (j + 1 ≤ idx g a) && P a) :=
        fun P => countP_split A j (idx g) P
      have hatj : ∀ (Q : Int → Bool), (A.countP fun a => (idx g a == j) && Q (rep g a)) =
          if Q ((valueFromIndex g b1 s1.toNat : Nat) : Int) then (A.countP fun a => idx g a == j) else 0 := by
        intro Q
        by_cases hq : Q ((valueFromIndex g b1 s1.toNat : Nat) : Int) = true
        · rw [if_pos hq]
          apply countP_congr_on
          intro a ha
          by_cases hia : idx g a = j
          · simp [hia, hrep a ha hia, hq]
          · simp [hia]
        · rw [if_neg hq, List.countP_eq_zero]
          intro a ha
          by_cases hia : idx g a = j
          · simp [hia, hrep a ha hia, hq]
          · simp [hia]
      generalize hvf : ((valueFromIndex g b1 s1.toNat : Nat) : Int) = vf at hatj hrep
      have hcj : g.counts.getD j 0 = ((A.countP fun a => idx g a == j : Nat) : Int) := hcnt j
      by_cases hz : g.counts.getD j 0 = 0
      · -- an empty position is skipped: no value of `A` has index `j`
        have hA0 : (A.countP fun a => idx g a == j) = 0 := by omega
        simp only [hz, ne_eq, not_true_eq_false, decide_false, Bool.false_eq_true, if_false]
        obtain ⟨c', e, hl, hg⟩ := ih b1 s1 (j + 1) c t d st' hc (by omega)
        refine ⟨c', ?_, hl, ?_⟩
        · rw [e, hsplit, hsplit, hatj (fun v => accepts h v), hatj (fun v => !accepts h v), hA0]; simp
        · intro i
          rw [hg i, hsplit, hatj (fun v => accepts h v && (cix h v == i)), hA0]; simp
      · simp only [ne_eq, hz, not_false_eq_true, decide_true, if_true, List.foldl_cons]
        by_cases hacc : accepts h vf = true
        · -- re-recorded at the receiver's own index
          have hstep : mergeStep (withCounts h c t, d)
              (IterPos.mk b1 s1.toNat (g.counts.getD j 0) (pre g.counts (j + 1)) (valueFromIndex g b1 s1.toNat)
                (highestEquiv g (valueFromIndex g b1 s1.toNat))) =
              (withCounts h (c.modify (cix h vf) (· + g.counts.getD j 0)) (t + g.counts.getD j 0), d) := by
            have hacc' := hacc
            simp only [accepts, Bool.and_eq_true, decide_eq_true_eq] at hacc'
            unfold mergeStep recordValues
            simp only [withCounts, hvf]
            rw [if_neg (by omega)]
            have hci : countsIndexFor
                { lowest := h.lowest, highest := h.highest, unitMag := h.unitMag, sigfigs := h.sigfigs,
                  halfMag := h.halfMag, halfCount := h.halfCount, mask := h.mask, subCount := h.subCount,
                  bucketCount := h.bucketCount, countsLen := h.countsLen, total := t, counts := c } vf.toNat =
                countsIndexFor h vf.toNat := rfl
            simp only [hci]
            rw [if_neg (by omega)]
            simp [listModify, cix]
          rw [hstep]
          have hlt := accepts_cix_lt hacc
          obtain ⟨c', e, hl, hg⟩ := ih b1 s1 (j + 1) (c.modify (cix h vf) (· + g.counts.getD j 0))
            (t + g.counts.getD j 0) d st' (by rw [List.length_modify]; exact hc) (by omega)
          refine ⟨c', ?_, hl, ?_⟩
          · have z1 : (A.countP fun a => (idx g a == j) && accepts h (rep g a)) = A.countP fun a => idx g a == j := by
              rw [hatj (fun v => accepts h v)]; simp [hacc]
            have z2 : (A.countP fun a => (idx g a == j) && !accepts h (rep g a)) = 0 := by
              rw [hatj (fun v => !accepts h v)]; simp [hacc]
            rw [e, hsplit, hsplit, z1, z2, hcj]
            simp only [Nat.zero_add, Int.natCast_add, Int.add_assoc]
          · intro i
            rw [hg i, getD_modify_add _ _ _ (by omega), hsplit, hcj]
            by_cases hi : i = cix h vf
            · have z : (A.countP fun a => (idx g a == j) && (accepts h (rep g a) && (cix h (rep g a) == i))) =
                  A.countP fun a => idx g a == j := by
                rw [hatj (fun v => accepts h v && (cix h v == i))]; simp [hacc, hi]
              rw [z, if_pos hi]; push_cast; omega
            · have z : (A.countP fun a => (idx g a == j) && (accepts h (rep g a) && (cix h (rep g a) == i))) = 0 := by
                rw [hatj (fun v => accepts h v && (cix h v == i))]
                have : (cix h vf == i) = false := by simp; omega
                simp [this]
              rw [z, if_neg hi]; push_cast; omega
        · -- rejected by the receiver: counted as dropped
          have haccf : accepts h vf = false := by simpa using hacc
          have hstep : mergeStep (withCounts h c t, d)
              (IterPos.mk b1 s1.toNat (g.counts.getD j 0) (pre g.counts (j + 1)) (valueFromIndex g b1 s1.toNat)
                (highestEquiv g (valueFromIndex g b1 s1.toNat))) =
              (withCounts h c t, d + g.counts.getD j 0) := by
            have hnone' : recordValues (withCounts h c t) vf (g.counts.getD j 0) = none := by
              have := recordValues_isSome (withCounts h c t) vf (g.counts.getD j 0)
              have hacc2 : accepts (withCounts h c t) vf = accepts h vf := rfl
              rw [hacc2, haccf] at this
              cases hx : recordValues (withCounts h c t) vf (g.counts.getD j 0) with
              | none => rfl
              | some _ => rw [hx] at this; simp at this
            unfold mergeStep
            simp only [hvf, hnone']
          rw [hstep]
          obtain ⟨c', e, hl, hg⟩ := ih b1 s1 (j + 1) c t (d + g.counts.getD j 0) st' hc (by omega)
          refine ⟨c', ?_, hl, ?_⟩
          · have z1 : (A.countP fun a => (idx g a == j) && accepts h (rep g a)) = 0 := by
              rw [hatj (fun v => accepts h v)]; simp [haccf]
            have z2 : (A.countP fun a => (idx g a == j) && !accepts h (rep g a)) = A.countP fun a => idx g a == j := by
              rw [hatj (fun v => !accepts h v)]; simp [haccf]
            rw [e, hsplit, hsplit, z1, z2, hcj]
            simp only [Nat.zero_add, Int.natCast_add, Int.add_assoc]
          · intro i
            have z : (A.countP fun a => (idx g a == j) && (accepts h (rep g a) && (cix h (rep g a) == i))) = 0 := by
              rw [hatj (fun v => accepts h v && (cix h v == i))]; simp [haccf]
            rw [hg i, hsplit, z]; simp

end Ftdc.Hdr
