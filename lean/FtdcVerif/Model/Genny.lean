/-
  t2.go: translation of genny actor streams into one sample per second.
  An actor's FTDC stream is modelled as its list of chunks, each a list of samples
  (time stamp in ms, then the eight translated metrics n, ops, size, errors, dur, total,
  workers, failed); decoding it is C01.  `math.Ceil(float64(ts)/1000)` is the integer ceiling
  (exact for |ts| < 2^53).
-/
namespace Ftdc.Genny

/-- ceil(a / 1000) -/
def ceilSec (ts : Int) : Int := -((-ts) / 1000)

structure Sample where
  ts : Int
  vals : List Int          -- 8 values
  deriving Repr, DecidableEq, Inhabited

abbrev GChunk := List Sample

structure Actor where
  name : String
  cur : Option GChunk := none     -- `iter.Chunk()`
  rest : List GChunk              -- chunks not yet delivered by `iter.Next()`
  startTime : Int
  endTime : Int
  prevIdx : Nat := 0
  prevSample : List Int := List.replicate 8 0      -- createZeroedMetrics
  prevSecond : Int := 0
  /-- ghost: (chunk number, index) of every selected position, for the monotonicity clause -/
  chunkNo : Nat := 0
  picks : List (Nat × Nat) := []
  deriving Repr, Inhabited

/-- first index i ≥ from with ceilSec ts_i ≠ prevSecond -/
def findWindow (c : GChunk) (from_ : Nat) (prevSecond : Int) : Option (Nat × Sample) :=
  let rec go (i : Nat) : List Sample → Option (Nat × Sample)
    | [] => none
    | s :: r => if ceilSec s.ts ≠ prevSecond then some (i, s) else go (i + 1) r
  go from_ (c.drop from_)

/-- `if iter.Chunk() == nil { iter.Next() }` -/
def Actor.ensureChunk (a : Actor) : Actor :=
  match a.cur, a.rest with
  | none, c :: r => { a with cur := some c, rest := r }
  | _, _ => a

/-- a window was found at index `i` of the current chunk -/
def Actor.pick (a : Actor) (i : Nat) (s : Sample) : Actor :=
  { a with prevIdx := i, prevSecond := ceilSec s.ts, prevSample := s.vals, picks := a.picks ++ [(a.chunkNo, i)] }

/-- `iter.Next()` succeeded: continue at the start of the next chunk -/
def Actor.advance (a : Actor) (c : GChunk) (r : List GChunk) : Actor :=
  { a with cur := some c, rest := r, prevIdx := 0, chunkNo := a.chunkNo + 1 }

/-- `translateAtNextWindow`; fuel = number of chunks still reachable + 1 -/
def nextWindow : Nat → Actor → Actor × Option (List Int)
  | 0, a => (a, none)
  | fuel+1, a =>
    match a.ensureChunk.cur with
    | none => (a.ensureChunk, none)  -- an actor without any chunk (the Go code would dereference nil; excluded by the property)
    | some c =>
      match findWindow c a.ensureChunk.prevIdx a.ensureChunk.prevSecond with
      | some (i, s) => (a.ensureChunk.pick i s, some s.vals)
      | none =>
        match a.ensureChunk.rest with
        | c' :: r => nextWindow fuel (a.ensureChunk.advance c' r)
        | [] => (a.ensureChunk, none)

def minI (a b : Int) : Int := if a < b then a else b
def maxI (a b : Int) : Int := if a > b then a else b

structure OutSample where
  start : Int                       -- ms
  actors : List (String × List Int)
  deriving Repr, DecidableEq

/-- one actor in one second of the main loop -/
def stepActor (t : Int) (a : Actor) : Actor × (String × List Int) :=
  if t ≥ a.prevSecond then
    match nextWindow (a.rest.length + 2) a with
    | (a', some vals) => (a', (a.name, vals))
    | (a', none) => (a', (a.name, a'.prevSample))
  else (a, (a.name, a.prevSample))

/-- one second of the main loop of `TranslateGenny` -/
def stepSecond (t : Int) (actors : List Actor) : List Actor × OutSample :=
  let res := actors.map (stepActor t)
  (res.map (·.1), { start := t * 1000, actors := res.map (·.2) })

/-- the main loop: one output sample per second in [t, stop) -/
def loopSeconds : Nat → Int → Int → List Actor → List OutSample
  | 0, _, _, _ => []
  | fuel+1, t, stop, as =>
    if t < stop then
      let r := stepSecond t as
      r.2 :: loopSeconds fuel (t + 1) stop r.1
    else []

/-- `TranslateGenny`: the samples handed to the streaming collector (chunk size 300); with no
actors nothing is written (`len(workloadDoc) > 1`) -/
def translate (actors : List Actor) : List OutSample :=
  let start := actors.foldl (fun m a => minI m a.startTime) (2 ^ 63 - 1)
  let stop := actors.foldl (fun m a => maxI m a.endTime) 0
  if actors.isEmpty then [] else loopSeconds (stop - start).toNat start stop actors

/-- `GetGennyTime` on a list of chunks: (StartTime, EndTime) in seconds -/
def gennyTime (chunks : List GChunk) : Int × Int :=
  let st := match chunks with
    | (s :: _) :: _ => ceilSec s.ts
    | _ => 0
  let en := chunks.foldl (fun m c => match c.getLast? with
    | some s => maxI m s.ts
    | none => m) 0
  (st, ceilSec en)

def maxSamples : Nat := 300

end Ftdc.Genny
