import FtdcVerif.Lemmas.Codec
/-!
# C01 — structured round trip is lossless

Layers, each for all inputs: unsigned varints, zero-run stream, wrapping deltas, leaf
normalisation (bit-exact), document restoration from extracted values.  The timestamp clause
of the property is FALSE of the code as it is (known finding F1: an existing unit test pins the
scaled starting value, so it cannot be repaired without editing the suite); the negation is
proved below with the concrete witness that is replayed on the implementation.
-/
namespace Ftdc.Props.C01
open Ftdc

/-- `binary.ReadUvarint` inverts `binary.PutUvarint` for every uint64, whatever follows. -/
theorem varint_roundtrip (x : Nat) (hx : x < 2 ^ 64) (rest : Bytes) :
    readUvarint (putUvarint x ++ rest) = some (x, rest) :=
  readUvarint_putUvarint x hx rest

/-- Wrap-around included: undoing the deltas of any int64 sequence gives the sequence back
(int64 extremes whose deltas overflow are ordinary instances). -/
theorem deltas_roundtrip (v : I64) (xs : List I64) : undelta v (deltas v xs) = v :: xs :=
  undelta_deltas v xs

/-- The zero-run/varint stream written by `getPayload` decodes to exactly the deltas it encodes,
for every delta list (all zero-run placements, runs crossing metric boundaries), any trailing
bytes. -/
theorem delta_stream_roundtrip (ds : List I64) (rest : Bytes) (h : ds.length < 2 ^ 64) :
    rleDecAux ds.length 0 (rleEnc ds ++ rest) = some (ds, 0, rest) := by
  have := rle_roundtrip ds 0 rest (by simpa using h)
  simpa [rleEnc] using this

/-- Reading the stream metric by metric is reading it in one go (the zero-run carry survives
metric boundaries). -/
theorem delta_stream_split (a b nz : Nat) (bs : Bytes) :
    rleDecAux (a + b) nz bs =
      (rleDecAux a nz bs).bind fun x =>
        (rleDecAux b x.2.1 x.2.2).map fun y => (x.1 ++ y.1, y.2.1, y.2.2) :=
  rleDecAux_append a b nz bs

/-! bit-exact leaves -/
theorem bool_exact (b : Bool) : ((if b then 1#64 else 0#64) != 0#64) = b := bool_restore b
theorem int32_exact (v : BitVec 32) : (signExt32 v).truncate 32 = v := signExt_truncate v
theorem timestamp_word_exact (v : BitVec 32) : (v.zeroExtend 64).truncate 32 = v := zeroExt_truncate v
/-- UTC datetimes within the range Go can express in nanoseconds are normalised to themselves -/
theorem datetime_exact (ms : I64) (h : InNanoRange ms) : restoreDT (normDT ms) = ms := by
  simp [restoreDT, normDT_inRange ms h]

/-- Restoring a document from its own extracted metric values yields the document with the
non-metric leaves removed: same keys, nesting, array positions (re-indexed), BSON types and
bit-identical values — for every document tree (all 20 element types, any depth). -/
theorem restore_is_project (d : BDoc) (h : DatesOk d) : restoreDoc d (vals d) = project d :=
  restore_extract d h

/-- Documents with no metrics at all restore to their (empty-container) skeleton. -/
theorem no_metrics_restore (d : BDoc) (h : DatesOk d) (hn : vals d = []) :
    restoreDoc d [] = project d := by
  rw [← hn]; exact restore_extract d h

/-! ### known finding F1: the timestamp clause fails -/

/-- the full leaf-level claim of the property for timestamps -/
def timestamp_clause : Prop :=
  ∀ (t i : BitVec 32) (key : Bytes),
    (metricsVal key [] (.timestamp t i)).map (·.start) = (extractVal (.timestamp t i)).map (·.1)

/-- It is false of the code: the decoder's starting value of the seconds is scaled by 1000,
so `{ts: Timestamp(5,7)}` reads back as `Timestamp(5000,7)`. -/
theorem timestamp_clause_false : ¬ timestamp_clause := by
  intro h
  have := h 5#32 7#32 []
  revert this
  decide

/-- ... while for every other metric leaf the decoder's starting value is the encoder's value -/
theorem start_is_value_partial (key : Bytes) (v : BVal) (hts : ∀ t i, v ≠ .timestamp t i)
    (hd : ∀ d, v ≠ .doc d) (ha : ∀ d, v ≠ .arr d) :
    (metricsVal key [] v).map (·.start) = (extractVal v).map (·.1) := by
  cases v with
  | timestamp t i => exact absurd rfl (hts t i)
  | doc d => exact absurd rfl (hd d)
  | arr d => exact absurd rfl (ha d)
  | _ => simp [metricsVal, extractVal]

/-! non-vacuity -/
example : DatesOk (.cons [100] (.datetime 1600000000000#64) (.cons [101] (.doc (.cons [102] (.int64 5#64) .nil)) .nil)) := by
  refine ⟨?_, ⟨trivial, trivial⟩, trivial⟩
  show InNanoRange _
  unfold InNanoRange; decide

end Ftdc.Props.C01
