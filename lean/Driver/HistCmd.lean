import Driver.CoreCmd
namespace Driver
open Ftdc

def parseScript (s : String) : List WriteResult :=
  if s == "-" then [] else
  (s.splitOn ",").map fun e =>
    if e == "ok" then .ok
    else if e == "fail" then .fail
    else .short ((e.drop 5).toNat?.getD 0)

def wireList (ds : List OutDoc) : String := ",".intercalate (ds.map outDocStr)

def writerEntries (w : Writer) : String :=
  joinSp (w.log.map fun e => match e with
    | .full ds => s!"ok:{wireList ds}"
    | .partialWrite _ _ => "part")

structure HState where
  c : Coll
  w : Writer          -- external writer (non-streaming constructors)
  obs : List String

def idxOf (op : String) : Nat := (op.drop 1).toNat?.getD 0

/-- one operation of a history -/
def histStep (pool : List (Option BDoc)) (streaming : Bool) (st : HState) (op : String) : HState :=
  let push := fun (c : Coll) (w : Writer) (s : String) => { c := c, w := w, obs := st.obs ++ [s] }
  match op.toList.head? with
  | some 'a' =>
    match pool.getD (idxOf op) none with
    | none => push st.c st.w "e"
    | some d => let (c', ok) := st.c.add d; push c' st.w (if ok then "o" else "e")
  | some 'x' => push st.c.addBad st.w "e"
  | some 'r' => match st.c.resolve with
    | some o => push st.c st.w s!"R[{wireList o}]"
    | none => push st.c st.w "Rerr"
  | some 'z' => push st.c.reset st.w "z"
  | some 'f' =>
    let (c', w', ok) := st.c.flush st.w
    push c' (if streaming then st.w else w') s!"F{okStr ok}"
  | some 'm' =>
    match pool.getD (idxOf op) none with
    | none => push st.c st.w "merr"
    | some d => push (st.c.setMetadata d) st.w "mok"
  | some 'M' => push st.c st.w "merr"      -- metadata the collector cannot read: refused, nothing changes
  | some 'i' => let (m, s) := st.c.info; push st.c st.w s!"I{m},{s}"
  | _ => push st.c st.w "bad-op"

def histCmd (ws : List String) : String :=
  match sections ws with
  | [[ctor, ns, script], pool, ops] =>
    match ns.toNat? with
    | none => "bad-op"
    | some n =>
      let sc := parseScript script
      let pool := pool.map fun w => (hexDecode w).bind parseDoc
      if ctor == "writer" then
        -- writerCollector: Write = Add of the parsed bytes, everything else not applicable, Close = flush
        match Coll.new? "streamingDynamic" n sc with
        | none => "bad-op"
        | some c0 =>
          let st := ops.foldl (fun (st : HState) op =>
            match op.toList.head? with
            | some 'a' | some 'x' => histStep pool true st op
            | _ => { st with obs := st.obs ++ ["n"] }) { c := c0, w := {}, obs := [] }
          -- Close, retried while it fails (at most three times)
          let (c1, _, ok1) := st.c.flush {}
          let (c2, _, ok2) := if ok1 then (c1, ({} : Writer), true) else c1.flush {}
          let (c3, _, ok3) := if ok1 || ok2 then (c2, ({} : Writer), true) else c2.flush {}
          let rs := if ok1 then [okStr ok1] else if ok2 then [okStr ok1, okStr ok2] else [okStr ok1, okStr ok2, okStr ok3]
          s!"{joinSp st.obs} final=close={",".intercalate rs} writer=[{writerEntries (c3.writer {})}]"
      else
      match Coll.new? ctor n sc with
      | none => "bad-op"
      | some c0 =>
        let streaming := ctor.startsWith "streaming" || ctor.startsWith "sample0-streaming"
        let st := ops.foldl (histStep pool streaming) { c := c0, w := { script := sc }, obs := [] }
        let final := match st.c.resolve with
          | some o => s!"[{wireList o}]"
          | none => "err"
        s!"{joinSp st.obs} final={final} writer=[{writerEntries (st.c.writer st.w)}]"
  | _ => "bad-op"

end Driver
