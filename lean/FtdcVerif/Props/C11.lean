import FtdcVerif.Lemmas.Reader
import FtdcVerif.Model.Collector
import FtdcVerif.Lemmas.FileE2E
/-!
# C11 — metadata travels with the chunks it describes

Read side: for every stream of framed documents, the chunk decoded from a document carries the
most recent metadata document (type numerically 0) that precedes it.  Write side: a collector
emits its metadata as its own type-0 document ahead of the chunk, never inside the payload, and
a later `SetMetadata` replaces it.  The document/matrix/series iterators deliver every item
together with its chunk's metadata (the item type of the worker pipe, see `Model/Pipeline`).
-/
namespace Ftdc.Props.C11
open Ftdc

theorem latestMeta_cons (db : Bytes) (dbs : List Bytes) :
    latestMeta (db :: dbs) = match latestMeta dbs with
      | some d => some d
      | none => isMetaDoc db := by
  unfold latestMeta
  cases h : isMetaDoc db with
  | none => simp only [List.filterMap_cons, h]; cases (dbs.filterMap isMetaDoc).getLast? <;> rfl
  | some d =>
    simp only [List.filterMap_cons, h]
    cases hl : dbs.filterMap isMetaDoc with
    | nil => simp
    | cons x l =>
      simp only [List.getLast?_cons_cons]
      have : (x :: l).getLast? = some ((x :: l).getLast (by simp)) := List.getLast?_eq_some_getLast (by simp)
      rw [this]

/-- one step: a chunk gets the metadata current before its document; the current metadata
changes exactly at metadata documents -/
theorem step_meta (inflate : Inflate) (md md' : Option BDoc) (acc acc' : List Chunk) (db : Bytes)
    (h : stepDoc inflate (.running md acc) db = .running md' acc') :
    (md' = match isMetaDoc db with | some d => some d | none => md) ∧
    (acc' = acc ∨ ∃ c, acc' = acc ++ [c] ∧ c.metadata = md) := by
  unfold stepDoc at h
  simp only at h
  cases hp : parseDoc db with
  | none => simp [hp] at h
  | some doc =>
    simp only [hp] at h
    cases hd : processDoc inflate doc md with
    | error e => simp [hd] at h
    | ok r =>
      obtain ⟨m2, oc⟩ := r
      obtain ⟨hm, hc⟩ := processDoc_meta inflate doc md m2 oc hd
      simp only [hd] at h
      have hmeta : (match isMetaDoc db with | some d => some d | none => md) =
          (if isNum 0 (lookupLast keyType doc) = true then some doc else md) := by
        unfold isMetaDoc; simp only [hp]
        by_cases hz : isNum 0 (lookupLast keyType doc) = true <;> simp [hz]
      cases oc with
      | none =>
        simp only at h
        injection h with h1 h2
        subst h1; subst h2
        exact ⟨by rw [hmeta, hm], Or.inl rfl⟩
      | some c =>
        simp only at h
        injection h with h1 h2
        subst h1; subst h2
        exact ⟨by rw [hmeta, hm], Or.inr ⟨c, rfl, (hc c rfl).1⟩⟩

/-- the metadata the reader holds after framed documents is the latest metadata document among
them, or what it held before if there is none -/
theorem current_meta_from (inflate : Inflate) : ∀ (dbs : List Bytes) (md0 md : Option BDoc)
    (acc0 acc : List Chunk), processDocs inflate (.running md0 acc0) dbs = .running md acc →
    md = match latestMeta dbs with | some d => some d | none => md0 := by
  intro dbs
  induction dbs with
  | nil => intro md0 md acc0 acc h; simp [processDocs] at h; simp [latestMeta, h.1]
  | cons db rest ih =>
    intro md0 md acc0 acc h
    simp only [processDocs, List.foldl_cons] at h
    cases hs : stepDoc inflate (.running md0 acc0) db with
    | failed a e =>
      rw [hs] at h
      have := processDocs_failed inflate a e rest
      simp only [processDocs] at this; rw [this] at h; cases h
    | running m1 a1 =>
      rw [hs] at h
      obtain ⟨hm, _⟩ := step_meta inflate md0 m1 acc0 a1 db hs
      have := ih m1 md a1 acc (by simpa [processDocs] using h)
      rw [this, latestMeta_cons, hm]
      cases latestMeta rest <;> rfl

theorem current_meta_is_latest (inflate : Inflate) (dbs : List Bytes) (md : Option BDoc)
    (acc : List Chunk) (h : processDocs inflate (.running none []) dbs = .running md acc) :
    md = latestMeta dbs := by
  have := current_meta_from inflate dbs none md [] acc h
  rw [this]; cases latestMeta dbs <;> rfl

/-- **every chunk reports the most recent metadata document that preceded it** (none ⇒ nil):
for every split `pre ++ [db]` of a stream of framed documents, the chunk decoded from `db`
carries `latestMeta pre`. -/
theorem chunk_metadata_is_latest (inflate : Inflate) (pre : List Bytes) (db : Bytes)
    (md md' : Option BDoc) (acc : List Chunk) (c : Chunk)
    (hpre : processDocs inflate (.running none []) pre = .running md acc)
    (hstep : stepDoc inflate (.running md acc) db = .running md' (acc ++ [c])) :
    c.metadata = latestMeta pre := by
  have hm := current_meta_is_latest inflate pre md acc hpre
  obtain ⟨_, hc⟩ := step_meta inflate md md' acc (acc ++ [c]) db hstep
  rcases hc with h | ⟨c', h1, h2⟩
  · have := congrArg List.length h; simp at this
  · have : c = c' := by
      have := List.append_cancel_left h1; injection this
    rw [this, h2, hm]

/-- in particular a stream without metadata documents yields nil metadata -/
theorem no_metadata_is_nil (dbs : List Bytes) (h : ∀ db ∈ dbs, isMetaDoc db = none) :
    latestMeta dbs = none := by
  unfold latestMeta
  have : dbs.filterMap isMetaDoc = [] := by
    rw [List.filterMap_eq_nil_iff]; exact h
  simp [this]

/-! ### write side (`betterCollector`) -/

/-- metadata is emitted as its own type-0 document ahead of the chunk it describes -/
theorem metadata_emitted_first (c : Better) (md ref : BDoc) (hm : c.metadata = some md)
    (hr : c.ref = some ref) :
    c.resolve = some [.metaDoc c.startedAt md, .chunk c.startedAt ref c.first c.rows] := by
  simp [Better.resolve, hm, hr]

/-- without metadata the output is the chunk alone -/
theorem no_metadata_no_document (c : Better) (ref : BDoc) (hm : c.metadata = none)
    (hr : c.ref = some ref) :
    c.resolve = some [.chunk c.startedAt ref c.first c.rows] := by
  simp [Better.resolve, hm, hr]

/-- metadata is never mixed into the samples: the chunk payload does not depend on it -/
theorem metadata_not_in_payload (c : Better) (md : BDoc) :
    (c.setMetadata md).ref = c.ref ∧ (c.setMetadata md).first = c.first ∧
    (c.setMetadata md).rows = c.rows := by
  simp [Better.setMetadata]

/-- a later `SetMetadata` replaces the earlier one -/
theorem metadata_replaced (c : Better) (m1 m2 : BDoc) :
    ((c.setMetadata m1).setMetadata m2) = c.setMetadata m2 := by
  simp [Better.setMetadata]

/-- adding samples and `Reset` keep the metadata (it describes every later chunk too) -/
theorem metadata_survives (c : Better) (d : BDoc) :
    (c.add d).1.metadata = c.metadata ∧ c.reset.metadata = c.metadata := by
  constructor
  · unfold Better.add
    simp only []
    repeat' split
    all_goals rfl
  · rfl

/-! ### write side and read side together, at the byte level -/

/-- **in the file a collector writes, every chunk the reader delivers carries the metadata document that precedes it
most closely** (as the reader stores it: the whole type-0 document), together with its own reference document and
samples; no error is reported.  `outs` is any list of output documents - metadata documents and decodable chunks in
any order, so a replaced metadata document describes exactly the chunks between it and its replacement. -/
theorem file_metadata_travels (deflate : Bytes → Bytes) (inflate : Inflate) (hz : FileE2E.ZlibOK deflate inflate)
    (now : I64) (outs : List OutDoc) (hok : ∀ o ∈ outs, FileE2E.OutOK deflate now o) :
    (readAll inflate (FileE2E.fileBytes deflate now outs)).err = none ∧
    (readAll inflate (FileE2E.fileBytes deflate now outs)).chunks.map (fun c => (c.ref, c.rows, c.metadata)) =
      FileE2E.partsWithMeta deflate now none outs :=
  FileE2E.file_roundtrip_meta deflate inflate hz now outs hok

/-- the specification side, spelled out on a pattern: chunk, metadata A, chunk, metadata B, chunk - the three chunks
carry none, A, B -/
example (deflate : Bytes → Bytes) (now : I64) (c1 c2 c3 : BDoc × Row × List Row) (a b : BDoc) :
    (FileE2E.partsWithMeta deflate now none
      [.chunk .none c1.1 c1.2.1 c1.2.2, .metaDoc .none a, .chunk .none c2.1 c2.2.1 c2.2.2, .metaDoc .none b,
       .chunk .none c3.1 c3.2.1 c3.2.2]).map (·.2.2) =
    [none, some (FileE2E.wireDoc deflate now (.metaDoc .none a)), some (FileE2E.wireDoc deflate now (.metaDoc .none b))] := rfl

end Ftdc.Props.C11
