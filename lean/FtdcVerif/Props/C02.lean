import FtdcVerif.Model.Views
/-!
# C02 — all reader views agree and name every metric by its full path

`leafPaths` is the specification, written from the property text: the path of a metric leaf is
the list of every enclosing field name and array index (plus `inc` for the second word of a
timestamp).  `keys_are_full_paths` shows, for every document tree, that the keys the decoder
assigns (`metricForDocument`, which threads a parent path and a possibly compound key name)
are exactly the dot-joined specification paths, in document order.
-/
namespace Ftdc.Props.C02
open Ftdc

def incSeg : Bytes := [105, 110, 99]   -- "inc"

mutual
def leafPathsVal (segs : List Bytes) : BVal → List (List Bytes)
  | .doc d => leafPathsElems segs d
  | .arr d => leafPathsArr segs 0 d
  | .timestamp _ _ => [segs, segs ++ [incSeg]]
  | .other _ _ => []
  | .double _ => [segs]
  | .bool _ => [segs]
  | .datetime _ => [segs]
  | .int32 _ => [segs]
  | .int64 _ => [segs]
def leafPathsElems (segs : List Bytes) : BDoc → List (List Bytes)
  | .nil => []
  | .cons k v r => leafPathsVal (segs ++ [k]) v ++ leafPathsElems segs r
def leafPathsArr (segs : List Bytes) (idx : Nat) : BDoc → List (List Bytes)
  | .nil => []
  | .cons _ v r => leafPathsVal (segs ++ [decimal idx]) v ++ leafPathsArr segs (idx + 1) r
end

/-- the specification: full paths of the metric leaves of a document, in document order -/
def leafPaths (d : BDoc) : List (List Bytes) := leafPathsElems [] d

theorem joinDot_snoc (l : List Bytes) (k : Bytes) (h : l ≠ []) :
    joinDot (l ++ [k]) = joinDot l ++ [dot] ++ k := by
  induction l with
  | nil => exact absurd rfl h
  | cons a r ih =>
    cases r with
    | nil => simp [joinDot]
    | cons b r' =>
      have := ih (by simp)
      simp only [List.cons_append] at this ⊢
      simp only [joinDot, this]
      simp

/-- how the decoder's (parent path, key name) pair relates to the specification's segments -/
def Rel (path : List Bytes) (key : Bytes) (segs : List Bytes) : Prop :=
  segs ≠ [] ∧ joinDot (path ++ [key]) = joinDot segs

mutual
theorem keysVal : (v : BVal) → ∀ (key : Bytes) (path segs : List Bytes), Rel path key segs →
    (metricsVal key path v).map Metric.key = (leafPathsVal segs v).map joinDot
  | .double _, key, path, segs, h => by simp [metricsVal, leafPathsVal, Metric.key, h.2]
  | .bool _, key, path, segs, h => by simp [metricsVal, leafPathsVal, Metric.key, h.2]
  | .datetime _, key, path, segs, h => by simp [metricsVal, leafPathsVal, Metric.key, h.2]
  | .int32 _, key, path, segs, h => by simp [metricsVal, leafPathsVal, Metric.key, h.2]
  | .int64 _, key, path, segs, h => by simp [metricsVal, leafPathsVal, Metric.key, h.2]
  | .other _ _, key, path, segs, _ => by simp [metricsVal, leafPathsVal]
  | .timestamp _ _, key, path, segs, h => by
    have e : joinDot (path ++ [key ++ incSuffix]) = joinDot (segs ++ [incSeg]) := by
      rw [joinDot_snoc segs incSeg h.1, ← h.2]
      cases path with
      | nil => simp [joinDot, incSuffix, incSeg, dot]
      | cons a r =>
        rw [joinDot_snoc (a :: r) _ (by simp), joinDot_snoc (a :: r) _ (by simp)]
        simp [incSuffix, incSeg, dot]
    simp [metricsVal, leafPathsVal, Metric.key, h.2, e]
  | .doc d, key, path, segs, h => by
    simp only [metricsVal, leafPathsVal]
    exact keysElems d (path ++ [key]) segs (Or.inr ⟨by simp, h.1, h.2⟩)
  | .arr d, key, path, segs, h => by
    simp only [metricsVal, leafPathsVal]
    exact keysArr d key path segs 0 h
theorem keysElems : (d : BDoc) → ∀ (path segs : List Bytes),
    ((path = [] ∧ segs = []) ∨ (path ≠ [] ∧ segs ≠ [] ∧ joinDot path = joinDot segs)) →
    (metricsElems path d).map Metric.key = (leafPathsElems segs d).map joinDot
  | .nil, _, _, _ => by simp [metricsElems, leafPathsElems]
  | .cons k v r, path, segs, h => by
    have hrel : Rel path k (segs ++ [k]) := by
      refine ⟨by simp, ?_⟩
      rcases h with ⟨rfl, rfl⟩ | ⟨hp, hs, he⟩
      · rfl
      · rw [joinDot_snoc path k hp, joinDot_snoc segs k hs, he]
    simp only [metricsElems, leafPathsElems, List.map_append]
    rw [keysVal v k path (segs ++ [k]) hrel, keysElems r path segs h]
theorem keysArr : (d : BDoc) → ∀ (key : Bytes) (path segs : List Bytes) (idx : Nat), Rel path key segs →
    (metricsArr key path idx d).map Metric.key = (leafPathsArr segs idx d).map joinDot
  | .nil, _, _, _, _, _ => by simp [metricsArr, leafPathsArr]
  | .cons _ v r, key, path, segs, idx, h => by
    have hrel : Rel path (key ++ [dot] ++ decimal idx) (segs ++ [decimal idx]) := by
      refine ⟨by simp, ?_⟩
      rw [joinDot_snoc segs _ h.1, ← h.2]
      cases path with
      | nil => simp [joinDot]
      | cons a p =>
        rw [joinDot_snoc (a :: p) _ (by simp), joinDot_snoc (a :: p) _ (by simp)]
        simp
    simp only [metricsArr, leafPathsArr, List.map_append]
    rw [keysVal v _ path _ hrel, keysArr r key path segs (idx + 1) h]
end

/-- **Every metric key is the dot-joined path of every enclosing field name and array index**,
in document order, for every reference document. -/
theorem keys_are_full_paths (d : BDoc) :
    (metricsOf d).map Metric.key = (leafPaths d).map joinDot :=
  keysElems d [] [] (Or.inl ⟨rfl, rfl⟩)

/-- one series per metric leaf: the number of decoded series is the number of extracted values -/
theorem one_series_per_leaf_doc : (d : BDoc) → ∀ path, (metricsElems path d).length = (extractDoc d).length := by
  intro d
  exact (BDoc.rec
    (motive_1 := fun v => ∀ key path, (metricsVal key path v).length = (extractVal v).length)
    (motive_2 := fun d => (∀ path, (metricsElems path d).length = (extractDoc d).length) ∧
                          (∀ key path idx, (metricsArr key path idx d).length = (extractDoc d).length))
    (by intro b key path; simp [metricsVal, extractVal])
    (by intro d ih key path; simpa [metricsVal, extractVal] using ih.1 _)
    (by intro d ih key path; simpa [metricsVal, extractVal] using ih.2 _ _ _)
    (by intro b key path; simp [metricsVal, extractVal])
    (by intro b key path; simp [metricsVal, extractVal])
    (by intro b key path; simp [metricsVal, extractVal])
    (by intro t i key path; simp [metricsVal, extractVal])
    (by intro b key path; simp [metricsVal, extractVal])
    (by intro t raw key path; simp [metricsVal, extractVal])
    (by constructor <;> intros <;> simp [metricsElems, metricsArr, extractDoc])
    (by
      intro k v r ihv ihr
      constructor
      · intro path; simp [metricsElems, extractDoc, ihv, ihr.1]
      · intro key path idx; simp [metricsArr, extractDoc, ihv, ihr.2])
    d).1

/-- the flattened view has the table's keys, in the table's order, for every sample -/
theorem flat_view_keys (c : Chunk) (i : Nat) (hi : i < c.nPoints) :
    ((c.flat.getD i .nil).toList.map (·.1)) = c.metrics.map Metric.key := by
  have : c.flat.getD i .nil = BDoc.ofList (c.metrics.map fun m => (m.key, flatVal m (m.values.getD i 0))) := by
    simp [Chunk.flat, List.getD_eq_getElem?_getD, hi]
  rw [this]
  generalize c.metrics = ms
  induction ms with
  | nil => rfl
  | cons m r ih => simp only [List.map_cons, BDoc.ofList, BDoc.toList, ih]

/-- all document views hold the same number of samples as the table -/
theorem views_sample_count (c : Chunk) :
    c.flat.length = c.nPoints ∧ c.structured.length = c.nPoints := by
  simp [Chunk.flat, Chunk.structured, Chunk.rows]

/-- the series view has one array per metric, in the table's order -/
theorem series_view_keys (c : Chunk) : (c.series.toList.map (·.1)) = c.metrics.map Metric.key := by
  unfold Chunk.series
  generalize c.metrics = ms
  induction ms with
  | nil => rfl
  | cons m r ih => simp [BDoc.ofList, BDoc.toList, ih]

/-! non-vacuity: the F2 witness `{a:{b:{c:1},d:{c:2}}}` gets the keys `a.b.c` and `a.d.c` -/
example : (metricsOf (.cons [97] (.doc (.cons [98] (.doc (.cons [99] (.int64 1#64) .nil))
      (.cons [100] (.doc (.cons [99] (.int64 2#64) .nil)) .nil))) .nil)).map Metric.key
    = [[97, 46, 98, 46, 99], [97, 46, 100, 46, 99]] := by decide

end Ftdc.Props.C02
