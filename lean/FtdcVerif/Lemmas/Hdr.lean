import FtdcVerif.Model.Hdr
/-! Helper lemmas for the HDR histogram model (C12, C13). Core Lean only. -/
namespace Ftdc.Hdr

/-- mathematical bit length -/
def blen (x : Nat) : Nat := if x = 0 then 0 else Nat.log2 x + 1

theorem lt_two_pow_blen (x : Nat) : x < 2 ^ blen x := by
  unfold blen; split
  · subst_vars; simp
  · exact Nat.lt_log2_self

theorem two_pow_blen_le (x : Nat) (hx : x ≠ 0) : 2 ^ (blen x - 1) ≤ x := by
  unfold blen; simp [hx]; exact Nat.log2_self_le hx

theorem blen_le_of_lt {x k : Nat} (h : x < 2 ^ k) : blen x ≤ k := by
  unfold blen; split
  · omega
  · rename_i hx; have := (Nat.log2_lt hx).2 h; omega

theorem lt_blen_of_le {x k : Nat} (h : 2 ^ k ≤ x) : k < blen x := by
  have hx : x ≠ 0 := by
    intro h0; subst h0; have := Nat.two_pow_pos k; omega
  unfold blen; simp [hx]
  by_cases hk : Nat.log2 x < k
  · have := (Nat.log2_lt hx).1 hk; omega
  · omega

/-- the bit length is characterised by its two bounds -/
theorem blen_unique {x B : Nat} (hlt : x < 2 ^ B) (hge : B = 0 ∨ 2 ^ (B - 1) ≤ x) : blen x = B := by
  have h1 := blen_le_of_lt hlt
  rcases hge with h0 | hge
  · omega
  · have := lt_blen_of_le hge; omega

theorem blen_or (a b : Nat) : blen (a ||| b) = max (blen a) (blen b) := by
  apply blen_unique
  · apply Nat.or_lt_two_pow
    · exact Nat.lt_of_lt_of_le (lt_two_pow_blen a) (Nat.pow_le_pow_right (by omega) (Nat.le_max_left _ _))
    · exact Nat.lt_of_lt_of_le (lt_two_pow_blen b) (Nat.pow_le_pow_right (by omega) (Nat.le_max_right _ _))
  · by_cases ha : a = 0
    · by_cases hb : b = 0
      · left; subst ha; subst hb; simp [blen]
      · right; subst ha
        have : blen 0 = 0 := by simp [blen]
        simp only [this, Nat.zero_or, Nat.zero_max]
        exact two_pow_blen_le b hb
    · right
      by_cases hab : blen a ≤ blen b
      · have hb : b ≠ 0 := by
          intro hb; subst hb
          have : blen a ≠ 0 := by unfold blen; simp [ha]
          simp [blen] at hab; omega
        rw [Nat.max_eq_right hab]
        exact Nat.le_trans (two_pow_blen_le b hb) Nat.right_le_or
      · rw [Nat.max_eq_left (by omega)]
        exact Nat.le_trans (two_pow_blen_le a ha) Nat.left_le_or

theorem bitLenTail_eq (y n t : Nat) (ht : t ≤ 15) (hlt : y < 2^t) (hge : t = 0 ∨ 2^(t-1) ≤ y) :
    bitLenTail y n = n + t := by
  have : t = 0 ∨ t = 1 ∨ t = 2 ∨ t = 3 ∨ t = 4 ∨ t = 5 ∨ t = 6 ∨ t = 7 ∨ t = 8 ∨ t = 9 ∨ t = 10
     ∨ t = 11 ∨ t = 12 ∨ t = 13 ∨ t = 14 ∨ t = 15 := by omega
  rcases this with rfl|rfl|rfl|rfl|rfl|rfl|rfl|rfl|rfl|rfl|rfl|rfl|rfl|rfl|rfl|rfl <;>
  simp at hlt hge <;>
  (simp only [bitLenTail, Nat.shiftRight_eq_div_pow]; repeat' split) <;> omega

theorem bitLenTail_blen (y n : Nat) (hy : y < 0x8000) : bitLenTail y n = n + blen y := by
  apply bitLenTail_eq
  · exact blen_le_of_lt (k := 15) (by simpa using hy)
  · exact lt_two_pow_blen y
  · by_cases h : y = 0
    · left; simp [blen, h]
    · right; exact two_pow_blen_le y h

theorem bitLenLoop_spec : ∀ (fuel x n : Nat), ∃ k, k ≤ fuel ∧
    bitLenLoop fuel x n = (x / 2 ^ (16 * k), n + 16 * k) ∧
    (x / 2 ^ (16 * k) < 0x8000 ∨ k = fuel) ∧
    (k ≠ 0 → 0x8000 ≤ x / 2 ^ (16 * (k - 1))) := by
  intro fuel
  induction fuel with
  | zero => intro x n; exact ⟨0, by simp [bitLenLoop]⟩
  | succ f ih =>
    intro x n
    unfold bitLenLoop
    by_cases h : x ≥ 0x8000
    · simp only [h, ite_true]
      obtain ⟨k, hk, he, hlt, hprev⟩ := ih (x >>> 16) (n + 16)
      refine ⟨k + 1, by omega, ?_, ?_, ?_⟩
      · rw [he, Nat.shiftRight_eq_div_pow, Nat.div_div_eq_div_mul, ← Nat.pow_add]
        have : 16 + 16 * k = 16 * (k + 1) := by omega
        rw [this]; congr 1; omega
      · rw [Nat.shiftRight_eq_div_pow, Nat.div_div_eq_div_mul, ← Nat.pow_add] at hlt
        have : 16 + 16 * k = 16 * (k + 1) := by omega
        rw [this] at hlt
        rcases hlt with hlt | hlt
        · left; exact hlt
        · right; omega
      · intro _
        by_cases hk0 : k = 0
        · subst hk0; simpa using h
        · have := hprev hk0
          rw [Nat.shiftRight_eq_div_pow, Nat.div_div_eq_div_mul, ← Nat.pow_add] at this
          have e : 16 + 16 * (k - 1) = 16 * (k + 1 - 1) := by omega
          rw [e] at this; exact this
    · simp only [h, ite_false]
      exact ⟨0, by omega, by simp, by left; simpa using Nat.lt_of_not_ge h, by simp⟩

theorem bitLen_eq_blen (x : Nat) (hx : x < 2 ^ 64) : bitLen x = blen x := by
  unfold bitLen
  obtain ⟨k, hk, he, hlt, hprev⟩ := bitLenLoop_spec 64 x 0
  rw [he]
  simp only [Nat.zero_add]
  have hsmall : x / 2 ^ (16 * k) < 0x8000 := by
    rcases hlt with h | h
    · exact h
    · subst h
      have : x / 2 ^ (16 * 64) = 0 := by
        apply Nat.div_eq_of_lt
        exact Nat.lt_of_lt_of_le hx (Nat.pow_le_pow_right (by omega) (by omega))
      omega
  rw [bitLenTail_blen _ _ hsmall]
  symm
  have hpos : 0 < 2 ^ (16 * k) := Nat.two_pow_pos _
  apply blen_unique
  · have := lt_two_pow_blen (x / 2 ^ (16 * k))
    rw [Nat.div_lt_iff_lt_mul hpos] at this
    rw [Nat.pow_add, Nat.mul_comm]; exact this
  · by_cases hy : x / 2 ^ (16 * k) = 0
    · have hb : blen (x / 2 ^ (16 * k)) = 0 := by simp [blen, hy]
      rw [hb]
      by_cases hk0 : k = 0
      · left; omega
      · right
        have h15 := hprev hk0
        have hpos' : 0 < 2 ^ (16 * (k - 1)) := Nat.two_pow_pos _
        rw [Nat.le_div_iff_mul_le hpos'] at h15
        have e : 16 * k + 0 - 1 = 15 + 16 * (k - 1) := by omega
        rw [e, Nat.pow_add]
        simpa using h15
    · right
      have h1 := two_pow_blen_le _ hy
      rw [Nat.le_div_iff_mul_le hpos] at h1
      have hb : blen (x / 2 ^ (16 * k)) ≠ 0 := by unfold blen; simp [hy]
      have e : 16 * k + blen (x / 2 ^ (16 * k)) - 1 = (blen (x / 2 ^ (16 * k)) - 1) + 16 * k := by omega
      rw [e, Nat.pow_add]; exact h1

end Ftdc.Hdr

namespace Ftdc.Hdr

/-- what `New` establishes about a configuration -/
structure WF (h : Hist) : Prop where
  subCount_eq : h.subCount = 2 ^ (h.halfMag + 1)
  halfCount_eq : h.halfCount = 2 ^ h.halfMag
  mask_eq : h.mask = (2 ^ (h.halfMag + 1) - 1) * 2 ^ h.unitMag
  countsLen_eq : h.countsLen = (h.bucketCount + 1) * 2 ^ h.halfMag
  bucket_pos : 1 ≤ h.bucketCount
  covers : h.highest < 2 ^ (h.halfMag + h.unitMag + h.bucketCount)
  bits : h.halfMag + h.unitMag + h.bucketCount ≤ 63
  precision : 10 ^ h.sigfigs ≤ 2 ^ h.halfMag

theorem bucketsLoop_spec : ∀ (fuel smallest mx n : Nat), 1 ≤ smallest → mx < smallest * 2 ^ fuel →
    ∃ j, bucketsLoop fuel smallest mx n = n + j ∧ mx < smallest * 2 ^ j ∧
      (j = 0 ∨ smallest * 2 ^ (j - 1) ≤ mx) := by
  intro fuel
  induction fuel with
  | zero => intro s mx n hs h; exact ⟨0, by simp [bucketsLoop], by simpa using h, Or.inl rfl⟩
  | succ f ih =>
    intro s mx n hs h
    unfold bucketsLoop
    by_cases hle : s ≤ mx
    · simp only [hle, ite_true, Nat.shiftLeft_eq, Nat.pow_one]
      have h' : mx < s * 2 * 2 ^ f := by
        rw [Nat.pow_succ] at h; rw [Nat.mul_assoc, Nat.mul_comm 2]; exact h
      obtain ⟨j, he, hlt, hge⟩ := ih (s * 2) mx (n + 1) (by omega) h'
      refine ⟨j + 1, by rw [he]; omega, ?_, ?_⟩
      · rw [Nat.pow_succ, Nat.mul_comm (2 ^ j), ← Nat.mul_assoc]; exact hlt
      · right
        rcases hge with h0 | hge
        · subst h0; simpa using hle
        · have e : j + 1 - 1 = (j - 1) + 1 := by
            rcases j with _ | j
            · simp at hge; omega
            · omega
          rw [e, Nat.pow_succ, Nat.mul_comm (2 ^ (j - 1)), ← Nat.mul_assoc]; exact hge
    · simp only [hle, ite_false]
      exact ⟨0, by simp, by simpa using Nat.lt_of_not_ge hle, Or.inl rfl⟩

theorem subMag_cases (s : Nat) (h1 : 1 ≤ s) (h5 : s ≤ 5) :
    1 ≤ subMag s ∧ subMag s ≤ 18 ∧ 10 ^ s ≤ 2 ^ (subMag s - 1) := by
  have : s = 1 ∨ s = 2 ∨ s = 3 ∨ s = 4 ∨ s = 5 := by omega
  rcases this with rfl | rfl | rfl | rfl | rfl <;> decide

/-- a valid configuration: 1..5 significant figures, lowest < 2^40, highest < 2^62 -/
structure Valid (minV : Int) (maxV sigfigs : Nat) : Prop where
  s1 : 1 ≤ sigfigs
  s5 : sigfigs ≤ 5
  minLt : minV < 2 ^ 40
  maxLt : maxV < 2 ^ 62

theorem log2_lt_of_lt {n k : Nat} (h : n < 2 ^ k) : Nat.log2 n < k ∨ n = 0 := by
  by_cases h0 : n = 0
  · right; exact h0
  · left; exact (Nat.log2_lt h0).2 h

theorem mkCfg_wf {minV : Int} {maxV s : Nat} (hv : Valid minV maxV s) : WF (mkCfg minV maxV s) := by
  obtain ⟨hm1, hm18, hprec⟩ := subMag_cases s hv.s1 hv.s5
  have hu : (if minV ≤ 0 then 0 else Nat.log2 minV.toNat) ≤ 40 := by
    split
    · omega
    · have : minV.toNat < 2 ^ 40 := by have := hv.minLt; omega
      rcases log2_lt_of_lt this with h | h
      · omega
      · omega
  have hhalf : (if subMag s < 1 then 1 else subMag s) - 1 = subMag s - 1 := by
    split <;> omega
  have hM1 : subMag s - 1 + 1 = subMag s := by omega
  -- the sizing loop
  have hsm : 1 ≤ 2 ^ (subMag s) * 2 ^ (if minV ≤ 0 then 0 else Nat.log2 minV.toNat) :=
    Nat.mul_pos (Nat.two_pow_pos _) (Nat.two_pow_pos _)
  have hfuel : maxV < 2 ^ (subMag s) * 2 ^ (if minV ≤ 0 then 0 else Nat.log2 minV.toNat) * 2 ^ 64 := by
    have h1 : maxV < 2 ^ 64 := Nat.lt_of_lt_of_le hv.maxLt (Nat.pow_le_pow_right (by omega) (by omega))
    calc maxV < 2 ^ 64 := h1
      _ = 1 * 2 ^ 64 := by omega
      _ ≤ _ := Nat.mul_le_mul_right _ hsm
  obtain ⟨j, hj, hlt, hge⟩ := bucketsLoop_spec 64 _ maxV 1 hsm hfuel
  have hcov : maxV < 2 ^ (subMag s - 1 + (if minV ≤ 0 then 0 else Nat.log2 minV.toNat) + (1 + j)) := by
    have e : subMag s - 1 + (if minV ≤ 0 then 0 else Nat.log2 minV.toNat) + (1 + j)
        = subMag s + (if minV ≤ 0 then 0 else Nat.log2 minV.toNat) + j := by omega
    rw [e, Nat.pow_add, Nat.pow_add]; exact hlt
  have hbits : subMag s - 1 + (if minV ≤ 0 then 0 else Nat.log2 minV.toNat) + (1 + j) ≤ 63 := by
    rcases hge with h0 | hge
    · omega
    · have h2 : 2 ^ (subMag s + (if minV ≤ 0 then 0 else Nat.log2 minV.toNat) + (j - 1)) < 2 ^ 62 := by
        rw [Nat.pow_add, Nat.pow_add]; exact Nat.lt_of_le_of_lt hge hv.maxLt
      have := (Nat.pow_lt_pow_iff_right (a := 2) (by omega)).1 h2
      omega
  constructor
  · simp only [mkCfg, hhalf, hM1]
  · simp only [mkCfg, hhalf, hM1]
    have : 2 ^ subMag s = 2 ^ (subMag s - 1) * 2 := by rw [← Nat.pow_succ]; congr 1; omega
    rw [this]; omega
  · simp only [mkCfg, hhalf, hM1, Nat.shiftLeft_eq]
  · simp only [mkCfg, hhalf, hM1, Nat.shiftLeft_eq, hj]
    have : 2 ^ subMag s = 2 ^ (subMag s - 1) * 2 := by rw [← Nat.pow_succ]; congr 1; omega
    rw [this, Nat.mul_div_cancel _ (by omega : 0 < 2)]
  · simp only [mkCfg, Nat.shiftLeft_eq, hhalf, hM1, hj]; omega
  · simpa only [mkCfg, Nat.shiftLeft_eq, hhalf, hM1, hj] using hcov
  · simpa only [mkCfg, Nat.shiftLeft_eq, hhalf, hM1, hj] using hbits
  · simpa only [mkCfg, hhalf] using hprec

theorem new_cfg (minV : Int) (maxV s : Nat) :
    (new minV maxV s) = { mkCfg minV maxV s with counts := List.replicate (mkCfg minV maxV s).countsLen 0 } := rfl

/-! ### index arithmetic under `WF` -/

section idx
variable {h : Hist} (wf : WF h)
include wf

theorem blen_mask : blen h.mask = h.halfMag + 1 + h.unitMag := by
  rw [wf.mask_eq]
  have hp : 1 ≤ 2 ^ (h.halfMag + 1) := Nat.two_pow_pos _
  apply blen_unique
  · rw [Nat.pow_add (m := h.halfMag + 1) (n := h.unitMag)]
    exact Nat.mul_lt_mul_of_pos_right (show 2 ^ (h.halfMag + 1) - 1 < 2 ^ (h.halfMag + 1) by omega) (Nat.two_pow_pos _)
  · right
    have e : h.halfMag + 1 + h.unitMag - 1 = h.halfMag + h.unitMag := by omega
    rw [e, Nat.pow_add]
    apply Nat.mul_le_mul_right
    have : 2 ^ (h.halfMag + 1) = 2 ^ h.halfMag * 2 := by rw [Nat.pow_succ]
    have hp' : 1 ≤ 2 ^ h.halfMag := Nat.two_pow_pos _
    omega

theorem or_mask_lt {v : Nat} (hv : v ≤ h.highest) : v ||| h.mask < 2 ^ 64 := by
  have h1 : v < 2 ^ (h.halfMag + h.unitMag + h.bucketCount) := Nat.lt_of_le_of_lt hv wf.covers
  have hb := wf.bits
  apply Nat.or_lt_two_pow
  · exact Nat.lt_of_lt_of_le h1 (Nat.pow_le_pow_right (by omega) (by omega))
  · have := lt_two_pow_blen h.mask
    rw [blen_mask wf] at this
    have hbp := wf.bucket_pos
    exact Nat.lt_of_lt_of_le this (Nat.pow_le_pow_right (by omega) (by omega))

/-- the bucket index in closed form -/
theorem bucket_eq {v : Nat} (hv : v ≤ h.highest) :
    getBucketIndex h v = max (blen v) (h.halfMag + 1 + h.unitMag) - h.unitMag - (h.halfMag + 1) := by
  unfold getBucketIndex
  rw [bitLen_eq_blen _ (or_mask_lt wf hv), blen_or, blen_mask wf]

theorem bucket_le {v : Nat} (hv : v ≤ h.highest) : getBucketIndex h v + 1 ≤ h.bucketCount := by
  rw [bucket_eq wf hv]
  have h1 : v < 2 ^ (h.halfMag + h.unitMag + h.bucketCount) := Nat.lt_of_le_of_lt hv wf.covers
  have := blen_le_of_lt h1
  have := wf.bucket_pos
  omega

theorem bucket_shift {v : Nat} (hv : v ≤ h.highest) :
    getBucketIndex h v + h.unitMag + (h.halfMag + 1) = max (blen v) (h.halfMag + 1 + h.unitMag) := by
  rw [bucket_eq wf hv]; omega

theorem sub_lt {v : Nat} (hv : v ≤ h.highest) :
    getSubBucketIdx h v (getBucketIndex h v) < h.subCount := by
  unfold getSubBucketIdx
  rw [Nat.shiftRight_eq_div_pow, Nat.div_lt_iff_lt_mul (Nat.two_pow_pos _), wf.subCount_eq, ← Nat.pow_add]
  have e : h.halfMag + 1 + (getBucketIndex h v + h.unitMag) = max (blen v) (h.halfMag + 1 + h.unitMag) := by
    have := bucket_shift wf hv; omega
  rw [e]
  exact Nat.lt_of_lt_of_le (lt_two_pow_blen v) (Nat.pow_le_pow_right (by omega) (Nat.le_max_left _ _))

theorem countsIndexFor_eq {v : Nat} :
    countsIndexFor h v = ((getBucketIndex h v * 2 ^ h.halfMag + getSubBucketIdx h v (getBucketIndex h v) : Nat) : Int) := by
  unfold countsIndexFor countsIndex
  simp only [Nat.shiftLeft_eq, wf.halfCount_eq]
  rw [Nat.add_mul]
  push_cast
  omega

/-- C12, first clause: every value up to the highest trackable value has an in-range index -/
theorem index_in_range {v : Nat} (hv : v ≤ h.highest) :
    0 ≤ countsIndexFor h v ∧ countsIndexFor h v < (h.countsLen : Int) := by
  rw [countsIndexFor_eq wf]
  refine ⟨Int.natCast_nonneg _, ?_⟩
  have hs := sub_lt wf hv
  rw [wf.subCount_eq, Nat.pow_succ] at hs
  have hb := bucket_le wf hv
  rw [wf.countsLen_eq]
  have : getBucketIndex h v * 2 ^ h.halfMag + getSubBucketIdx h v (getBucketIndex h v)
      < (h.bucketCount + 1) * 2 ^ h.halfMag := by
    calc _ < getBucketIndex h v * 2 ^ h.halfMag + 2 ^ h.halfMag * 2 := by omega
      _ = (getBucketIndex h v + 2) * 2 ^ h.halfMag := by rw [Nat.add_mul]; omega
      _ ≤ (h.bucketCount + 1) * 2 ^ h.halfMag := Nat.mul_le_mul_right _ (by omega)
  exact_mod_cast this

theorem size_eq {v : Nat} (hv : v ≤ h.highest) :
    sizeOfRange h v = 2 ^ (h.unitMag + getBucketIndex h v) := by
  unfold sizeOfRange
  have := sub_lt wf hv
  simp only [Nat.not_le.2 this, ite_false, Nat.shiftLeft_eq, Nat.one_mul]

omit wf in
theorem lowest_eq {v : Nat} :
    lowestEquiv h v = v / 2 ^ (getBucketIndex h v + h.unitMag) * 2 ^ (getBucketIndex h v + h.unitMag) := by
  simp [lowestEquiv, valueFromIndex, getSubBucketIdx, Nat.shiftRight_eq_div_pow, Nat.shiftLeft_eq]

/-- C12, second clause: `v` lies inside its reported equivalent range -/
theorem value_in_range {v : Nat} (hv : v ≤ h.highest) :
    lowestEquiv h v ≤ v ∧ v ≤ highestEquiv h v := by
  have hl := lowest_eq (h := h) (v := v)
  have hs := size_eq wf hv
  constructor
  · rw [hl]; exact Nat.div_mul_le_self _ _
  · unfold highestEquiv nextNonEquiv
    rw [hl, hs]
    have e : h.unitMag + getBucketIndex h v = getBucketIndex h v + h.unitMag := by omega
    rw [e]
    have hp : 0 < 2 ^ (getBucketIndex h v + h.unitMag) := Nat.two_pow_pos _
    revert hp
    generalize 2 ^ (getBucketIndex h v + h.unitMag) = p
    intro hp
    have h1 := Nat.div_add_mod v p
    have h2 := Nat.mod_lt v hp
    rw [Nat.mul_comm] at h1
    generalize v / p * p = q at *
    omega

/-- C12, third clause: the range is no wider than max(unit, v·10^-sigfigs) -/
theorem width_bound {v : Nat} (hv : v ≤ h.highest) :
    sizeOfRange h v = 2 ^ h.unitMag ∨ sizeOfRange h v * 10 ^ h.sigfigs ≤ v := by
  rw [size_eq wf hv]
  by_cases hb : getBucketIndex h v = 0
  · left; rw [hb]; rfl
  · right
    have hsft := bucket_shift wf hv
    have hbl : blen v = getBucketIndex h v + h.unitMag + (h.halfMag + 1) := by
      rw [hsft]; symm; apply Nat.max_eq_left
      by_cases hc : blen v ≤ h.halfMag + 1 + h.unitMag
      · rw [Nat.max_eq_right hc] at hsft; omega
      · omega
    have hv0 : v ≠ 0 := by
      intro h0; subst h0; simp [blen] at hbl
    have h1 := two_pow_blen_le v hv0
    rw [hbl] at h1
    have e : getBucketIndex h v + h.unitMag + (h.halfMag + 1) - 1
        = (h.unitMag + getBucketIndex h v) + h.halfMag := by omega
    rw [e, Nat.pow_add] at h1
    exact Nat.le_trans (Nat.mul_le_mul_left _ wf.precision) h1

end idx

/-! ### counting -/

theorem sum_modify (l : List Int) (i : Nat) (n : Int) (hi : i < l.length) :
    (l.modify i (· + n)).sum = l.sum + n := by
  induction l generalizing i with
  | nil => simp at hi
  | cons a l ih =>
    cases i with
    | zero => simp [List.modify]; omega
    | succ i =>
      simp only [List.length_cons] at hi
      simp [List.modify_succ_cons, ih i (by omega)]; omega

/-- state invariant of a histogram -/
def Inv (h : Hist) : Prop := h.counts.length = h.countsLen ∧ h.counts.sum = h.total

/-- two histograms with the same configuration -/
def SameCfg (a b : Hist) : Prop := { a with counts := [], total := 0 } = { b with counts := [], total := 0 }

/-- whether `RecordValue(v)` succeeds depends on the configuration only -/
def accepts (h : Hist) (v : Int) : Bool :=
  decide (0 ≤ v) && decide (0 ≤ countsIndexFor h v.toNat) && decide (countsIndexFor h v.toNat < (h.countsLen : Int))

theorem recordValues_isSome (h : Hist) (v n : Int) : (recordValues h v n).isSome = accepts h v := by
  unfold recordValues accepts
  by_cases hv : v < 0
  · simp [hv]; omega
  · simp only [hv, ite_false]
    by_cases hi : countsIndexFor h v.toNat < 0 ∨ (h.countsLen : Int) ≤ countsIndexFor h v.toNat
    · simp only [hi, ite_true]; simp; omega
    · simp only [hi, ite_false]; simp; omega

theorem recordValues_spec {h h' : Hist} {v n : Int} (he : recordValues h v n = some h') (inv : Inv h) :
    Inv h' ∧ h'.total = h.total + n ∧ SameCfg h h' := by
  unfold recordValues at he
  by_cases hv : v < 0
  · simp [hv] at he
  · simp only [hv, ite_false] at he
    by_cases hi : countsIndexFor h v.toNat < 0 ∨ (h.countsLen : Int) ≤ countsIndexFor h v.toNat
    · simp [hi] at he
    · simp only [hi, ite_false, Option.some.injEq] at he
      subst he
      refine ⟨⟨?_, ?_⟩, rfl, rfl⟩
      · simp [listModify, inv.1]
      · simp only [listModify]
        rw [sum_modify _ _ _ (by rw [inv.1]; omega), inv.2]


theorem SameCfg.fields {a b : Hist} (h : SameCfg a b) :
    a.mask = b.mask ∧ a.unitMag = b.unitMag ∧ a.halfMag = b.halfMag ∧ a.halfCount = b.halfCount ∧
    a.countsLen = b.countsLen ∧ a.subCount = b.subCount ∧ a.bucketCount = b.bucketCount := by
  unfold SameCfg at h
  injection h with h1 h2 h3 h4 h5 h6 h7 h8 h9 h10
  exact ⟨h7, h3, h5, h6, h10, h8, h9⟩

theorem accepts_congr {a b : Hist} (h : SameCfg a b) (v : Int) : accepts a v = accepts b v := by
  obtain ⟨h1, h2, h3, h4, h5, _, _⟩ := h.fields
  simp only [accepts, countsIndexFor, countsIndex, getBucketIndex, getSubBucketIdx, h1, h2, h3, h4, h5] <;> rfl

theorem SameCfg.trans {a b c : Hist} (h1 : SameCfg a b) (h2 : SameCfg b c) : SameCfg a c := by
  unfold SameCfg at *; rw [h1, h2]

theorem recordAll_spec (vs : List Int) : ∀ (h : Hist), Inv h →
    Inv (recordAll h vs) ∧ SameCfg h (recordAll h vs) ∧
    (recordAll h vs).total = h.total + ((vs.filter (accepts h)).length : Int) := by
  induction vs with
  | nil => intro h inv; exact ⟨inv, rfl, by simp [recordAll]⟩
  | cons v vs ih =>
    intro h inv
    have hstep : recordAll h (v :: vs) = recordAll ((recordValue h v).getD h) vs := by
      simp [recordAll]
    rw [hstep]
    cases hr : recordValue h v with
    | none =>
      have hacc : accepts h v = false := by
        have := recordValues_isSome h v 1
        unfold recordValue at hr; rw [hr] at this; simpa using this.symm
      obtain ⟨i1, i2, i3⟩ := ih h inv
      simp only [Option.getD_none]
      refine ⟨i1, i2, ?_⟩
      rw [i3]; simp [List.filter, hacc]
    | some h' =>
      have hacc : accepts h v = true := by
        have := recordValues_isSome h v 1
        unfold recordValue at hr; rw [hr] at this; simpa using this.symm
      obtain ⟨j1, j2, j3⟩ := recordValues_spec hr inv
      obtain ⟨i1, i2, i3⟩ := ih h' j1
      simp only [Option.getD_some]
      refine ⟨i1, j3.trans i2, ?_⟩
      rw [i3, j2]
      have : vs.filter (accepts h') = vs.filter (accepts h) := by
        apply List.filter_congr; intro x _; exact (accepts_congr j3 x).symm
      rw [this]; simp [List.filter, hacc]; omega

theorem new_inv (minV : Int) (maxV s : Nat) : Inv (new minV maxV s) := by
  simp [Inv, new]; rfl

/-! ### snapshots -/

/-- all counts are non-negative -/
def NonNeg (h : Hist) : Prop := ∀ c ∈ h.counts, 0 ≤ c

theorem modify_nonneg (l : List Int) (i : Nat) (n : Int) (hn : 0 ≤ n) (h : ∀ c ∈ l, 0 ≤ c) :
    ∀ c ∈ l.modify i (· + n), 0 ≤ c := by
  induction l generalizing i with
  | nil => simp
  | cons a l ih =>
    cases i with
    | zero =>
      intro c hc
      simp only [List.modify_zero_cons, List.mem_cons] at hc
      rcases hc with rfl | hc
      · have := h a (by simp); omega
      · exact h c (by simp [hc])
    | succ i =>
      intro c hc
      simp only [List.modify_succ_cons, List.mem_cons] at hc
      rcases hc with rfl | hc
      · exact h c (by simp)
      · exact ih i (fun x hx => h x (by simp [hx])) c hc

theorem recordValues_nonneg {h h' : Hist} {v n : Int} (hn : 0 ≤ n) (he : recordValues h v n = some h')
    (hh : NonNeg h) : NonNeg h' := by
  unfold recordValues at he
  by_cases hv : v < 0
  · simp [hv] at he
  · simp only [hv, ite_false] at he
    by_cases hi : countsIndexFor h v.toNat < 0 ∨ (h.countsLen : Int) ≤ countsIndexFor h v.toNat
    · simp [hi] at he
    · simp only [hi, ite_false, Option.some.injEq] at he
      subst he
      exact modify_nonneg _ _ _ hn hh

theorem recordAll_nonneg (vs : List Int) : ∀ (h : Hist), NonNeg h → NonNeg (recordAll h vs) := by
  induction vs with
  | nil => intro h hh; exact hh
  | cons v vs ih =>
    intro h hh
    have hstep : recordAll h (v :: vs) = recordAll ((recordValue h v).getD h) vs := by simp [recordAll]
    rw [hstep]
    cases hr : recordValue h v with
    | none => simpa using ih h hh
    | some h' => simpa using ih h' (recordValues_nonneg (by omega) hr hh)

theorem sum_pos_eq_sum (l : List Int) (h : ∀ c ∈ l, 0 ≤ c) :
    l.foldl (fun t c => if c > 0 then t + c else t) 0 = l.sum := by
  have gen : ∀ (l : List Int) (a : Int), (∀ c ∈ l, 0 ≤ c) →
      l.foldl (fun t c => if c > 0 then t + c else t) a = a + l.sum := by
    intro l
    induction l with
    | nil => intro a _; simp
    | cons x xs ih =>
      intro a hx
      simp only [List.foldl_cons, List.sum_cons]
      have hx0 := hx x (by simp)
      rw [ih _ (fun c hc => hx c (by simp [hc]))]
      split <;> omega
  simpa using gen l 0 h

/-- `Import(Export(h)) = h` for every histogram built by `New` and any sequence of records -/
theorem import_export (minV : Int) (maxV s : Nat) (vs : List Int) :
    import_ (export_ (recordAll (new minV maxV s) vs)) = recordAll (new minV maxV s) vs := by
  obtain ⟨inv, same, _⟩ := recordAll_spec vs (new minV maxV s) (new_inv minV maxV s)
  have nn := recordAll_nonneg vs (new minV maxV s) (by intro c hc; simp [new] at hc; omega)
  generalize recordAll (new minV maxV s) vs = h at *
  have hf := same.fields
  -- the configuration of h is that of `new`
  have hcfg : { h with counts := [], total := 0 } = { new minV maxV s with counts := [], total := 0 } := same.symm
  unfold import_ export_
  simp only []
  have hlow : h.lowest = minV := by have := congrArg Hist.lowest hcfg; simpa [new, mkCfg] using this
  have hhigh : h.highest = maxV := by have := congrArg Hist.highest hcfg; simpa [new, mkCfg] using this
  have hsig : h.sigfigs = s := by have := congrArg Hist.sigfigs hcfg; simpa [new, mkCfg] using this
  rw [hlow, hhigh, hsig]
  have hlen : (new minV maxV s).countsLen = h.countsLen := hf.2.2.2.2.1
  have htake : h.counts.take (new minV maxV s).countsLen = h.counts := by
    rw [hlen, ← inv.1]; simp
  rw [htake, sum_pos_eq_sum _ nn, inv.2]
  -- remaining: { new with counts := h.counts, total := h.total } = h
  have : { h with counts := [], total := 0 } = { new minV maxV s with counts := [], total := 0 } := hcfg
  cases h
  simp only [Hist.mk.injEq] at this ⊢
  simp_all [new, mkCfg]


end Ftdc.Hdr
