import FtdcVerif.Model.LockSkeleton
/-!
# Soundness of the lock-discipline checker

`exec` is a one-pass abstract interpreter.  Here is an independent path semantics of skeletons —
a branch runs exactly one alternative, a loop body runs any number of times, a `return` leaves
the function — and the theorem that a skeleton accepted by `balanced` has no path that returns
(or falls off the end) with the mutex held or unlocks a mutex it does not hold.
-/
namespace Ftdc.LockSkeleton

/-- how one path leaves a piece of code -/
inductive Out where
  | fell (s : LState)       -- control falls through in this lock state
  | returned (s : LState)   -- a `return` was executed in this lock state
  | stuck                   -- an unlock of a mutex that is not held
  deriving DecidableEq, Repr

def Out.isFell : Out → Bool
  | .fell _ => true
  | _ => false

/-- `n` iterations of a loop body with path relation `R`, then exit (or leave from inside) -/
def iter (R : LState → Out → Prop) : Nat → LState → Out → Prop
  | 0, s, o => o = .fell s
  | n + 1, s, o => (∃ s', R s (.fell s') ∧ iter R n s' o) ∨ (R s o ∧ o.isFell = false)

mutual
/-- the paths of a skeleton -/
def Run : Sk → LState → Out → Prop
  | .lock, (d, f), o => o = .fell (d + 1, f)
  | .unlock, (d, f), o => if d = 0 then o = .stuck else o = .fell (d - 1, f)
  | .deferUnlock, (d, f), o => o = .fell (d, f + 1)
  | .ret, s, o => o = .returned s
  | .seq l, s, o => RunSeq l s o
  | .branch l, s, o => RunAlt l s o
  | .loop l, s, o => ∃ n, iter (fun s o => RunSeq l s o) n s o
def RunSeq : SkList → LState → Out → Prop
  | .nil, s, o => o = .fell s
  | .cons h t, s, o => (∃ s', Run h s (.fell s') ∧ RunSeq t s' o) ∨ (Run h s o ∧ o.isFell = false)
def RunAlt : SkList → LState → Out → Prop
  | .nil, _, _ => False
  | .cons h t, s, o => Run h s o ∨ RunAlt t s o
end

/-- what the checker's verdict `r` promises about a path outcome `o` -/
def Agrees (r : Res) (o : Out) : Prop :=
  match r, o with
  | .bad, _ => True                      -- no promise
  | _, .stuck => False
  | _, .returned x => retOk x = true
  | .fall a, .fell b => a = b
  | .returns, .fell _ => False

theorem agrees_returned (r : Res) {x : LState} (h : retOk x = true) : Agrees r (.returned x) := by
  cases r <;> simp [Agrees, h]

theorem agrees_join_left {a b : Res} {o : Out} (h : Agrees a o) : Agrees (a.join b) o := by
  cases a with
  | bad => simp [Res.join, Agrees]
  | returns =>
    cases o with
    | fell _ => simp [Agrees] at h
    | stuck => simp [Agrees] at h
    | returned x =>
      have hx : retOk x = true := by simpa [Agrees] using h
      cases b <;> simp [Res.join] <;> exact agrees_returned _ hx
  | fall s =>
    cases b with
    | bad => simp [Res.join, Agrees]
    | returns => simpa [Res.join] using h
    | fall t =>
      simp only [Res.join]
      by_cases e : s = t
      · simp [e] at h ⊢; exact h
      · simp [e, Agrees]

theorem agrees_join_right {a b : Res} {o : Out} (h : Agrees b o) : Agrees (a.join b) o := by
  cases b with
  | bad => cases a <;> simp [Res.join, Agrees]
  | returns =>
    cases o with
    | fell _ => simp [Agrees] at h
    | stuck => simp [Agrees] at h
    | returned x =>
      have hx : retOk x = true := by simpa [Agrees] using h
      exact agrees_returned _ hx
  | fall t =>
    cases a with
    | bad => simp [Res.join, Agrees]
    | returns => simpa [Res.join] using h
    | fall s =>
      simp only [Res.join]
      by_cases e : s = t
      · simp [e]; exact h
      · simp [e, Agrees]

mutual
theorem exec_sound : (k : Sk) → ∀ (s : LState) (o : Out), Run k s o → Agrees (exec k s) o
  | .lock, (d, f), o, h => by simp [Run] at h; subst h; simp [exec, Agrees]
  | .unlock, (d, f), o, h => by
    simp only [Run] at h
    by_cases hd : d = 0
    · simp [hd] at h; subst h; simp [exec, hd, Agrees]
    · simp [hd] at h; subst h; simp [exec, hd, Agrees]
  | .deferUnlock, (d, f), o, h => by simp [Run] at h; subst h; simp [exec, Agrees]
  | .ret, s, o, h => by
    simp [Run] at h; subst h
    simp only [exec]
    by_cases hr : retOk s = true <;> simp [hr, Agrees]
  | .seq l, s, o, h => by simpa [exec] using execSeq_sound l s o (by simpa [Run] using h)
  | .branch l, s, o, h => by simpa [exec] using execAlt_sound l s o (by simpa [Run] using h)
  | .loop l, s, o, h => by
    simp only [Run] at h
    obtain ⟨n, hn⟩ := h
    simp only [exec]
    -- what the body promises, for every state the loop can be in: only `s` itself
    cases hb : execSeq l s with
    | bad => simp [Agrees]
    | returns =>
      -- the body never falls through: at most one (partial) iteration
      simp only
      cases n with
      | zero => simp [iter] at hn; subst hn; simp [Agrees]
      | succ n =>
        simp only [iter] at hn
        rcases hn with ⟨s', h1, _⟩ | ⟨h1, h2⟩
        · have := execSeq_sound l s _ h1; rw [hb] at this; simp [Agrees] at this
        · have := execSeq_sound l s _ h1; rw [hb] at this
          cases o <;> simp_all [Agrees, Out.isFell]
    | fall s' =>
      simp only
      by_cases hs : s' = s
      · subst hs
        simp only [if_true]
        -- every iteration starts and ends in `s'`
        induction n generalizing o with
        | zero => simp [iter] at hn; subst hn; simp [Agrees]
        | succ n ih =>
          simp only [iter] at hn
          rcases hn with ⟨s'', h1, h2⟩ | ⟨h1, h2⟩
          · have := execSeq_sound l s' _ h1; rw [hb] at this
            simp [Agrees] at this; subst this
            exact ih o h2
          · have := execSeq_sound l s' _ h1; rw [hb] at this
            cases o <;> simp_all [Agrees, Out.isFell]
      · simp [hs, Agrees]
theorem execSeq_sound : (l : SkList) → ∀ (s : LState) (o : Out), RunSeq l s o → Agrees (execSeq l s) o
  | .nil, s, o, h => by simp [RunSeq] at h; subst h; simp [execSeq, Agrees]
  | .cons k t, s, o, h => by
    simp only [RunSeq] at h
    simp only [execSeq]
    rcases h with ⟨s', h1, h2⟩ | ⟨h1, h2⟩
    · have a := exec_sound k s _ h1
      cases hk : exec k s with
      | bad => simp [Agrees]
      | returns => rw [hk] at a; simp [Agrees] at a
      | fall x =>
        rw [hk] at a; simp [Agrees] at a; subst a
        exact execSeq_sound t x o h2
    · have a := exec_sound k s o h1
      cases hk : exec k s with
      | bad => simp [Agrees]
      | returns => rw [hk] at a; exact a
      | fall x =>
        rw [hk] at a
        cases o with
        | fell _ => simp [Out.isFell] at h2
        | stuck => simp [Agrees] at a
        | returned y => exact agrees_returned _ (by simpa [Agrees] using a)
theorem execAlt_sound : (l : SkList) → ∀ (s : LState) (o : Out), RunAlt l s o → Agrees (execAlt l s) o
  | .nil, _, _, h => by simp [RunAlt] at h
  | .cons k t, s, o, h => by
    simp only [RunAlt] at h
    simp only [execAlt]
    rcases h with h | h
    · exact agrees_join_left (exec_sound k s o h)
    · exact agrees_join_right (execAlt_sound t s o h)
end

/-- **Soundness of `balanced`**: a skeleton the checker accepts has no path — whichever
alternatives are taken, however often the loops run — that unlocks a mutex it does not hold,
returns with the mutex held, or falls off the end of the function with it held. -/
theorem balanced_sound (k : Sk) (h : balanced k = true) (o : Out) (hr : Run k (0, 0) o) :
    match o with
    | .stuck => False
    | .returned s => retOk s = true
    | .fell s => retOk s = true := by
  have a := exec_sound k (0, 0) o hr
  unfold balanced at h
  cases he : exec k (0, 0) with
  | bad => simp [he] at h
  | returns => rw [he] at a; cases o <;> simp_all [Agrees]
  | fall x =>
    rw [he] at a h
    cases o <;> simp_all [Agrees]

end Ftdc.LockSkeleton
