import FtdcVerif.Model.Genny
/-!
# C20 — Genny translation emits one sample per second drawn only from actors' own data

For every list of actors (any number, any spans, any chunking of their streams): exactly one
output sample per second of the overall span with start stamps one second apart; one
sub-document per actor in input order; every actor's values are zeros or the values of one of
its own input samples.  The chunk bound is the streaming collector's capacity 300 (C07).
-/
namespace Ftdc.Props.C20
open Ftdc.Genny

/-! ### shape of the output -/

theorem stepSecond_shape (t : Int) (actors : List Actor) :
    (stepSecond t actors).2.start = t * 1000 ∧ (stepSecond t actors).1.length = actors.length ∧
    (stepSecond t actors).2.actors.length = actors.length := by
  simp [stepSecond]

/-- **exactly one sample for each second of the span** -/
theorem one_sample_per_second : ∀ (fuel : Nat) (t stop : Int) (as : List Actor),
    (stop - t).toNat ≤ fuel → (loopSeconds fuel t stop as).length = (stop - t).toNat := by
  intro fuel
  induction fuel with
  | zero => intro t stop as h; simp [loopSeconds]; omega
  | succ f ih =>
    intro t stop as h
    simp only [loopSeconds]
    by_cases hlt : t < stop
    · simp only [hlt, ite_true, List.length_cons]
      rw [ih (t + 1) stop _ (by omega)]; omega
    · simp only [hlt, ite_false, List.length_nil]; omega

/-- **start stamps strictly increasing, one second apart, from the workload start** -/
theorem starts_one_second_apart : ∀ (fuel : Nat) (t stop : Int) (as : List Actor) (i : Nat),
    i < (loopSeconds fuel t stop as).length →
    ((loopSeconds fuel t stop as).getD i ⟨0, []⟩).start = (t + i) * 1000 := by
  intro fuel
  induction fuel with
  | zero => intro t stop as i h; simp [loopSeconds] at h
  | succ f ih =>
    intro t stop as i h
    simp only [loopSeconds] at h ⊢
    by_cases hlt : t < stop
    · simp only [hlt, ite_true] at h ⊢
      cases i with
      | zero => simp [stepSecond]
      | succ j =>
        simp only [List.length_cons] at h
        have := ih (t + 1) stop (stepSecond t as).1 j (by omega)
        simp only [List.getD_cons_succ]
        rw [this]; push_cast; congr 1; omega
    · simp [hlt] at h

/-- every step emits one sub-document per actor -/
theorem one_subdocument_per_actor : ∀ (fuel : Nat) (t stop : Int) (as : List Actor),
    ∀ o ∈ loopSeconds fuel t stop as, o.actors.length = as.length := by
  intro fuel
  induction fuel with
  | zero => intro t stop as o h; simp [loopSeconds] at h
  | succ f ih =>
    intro t stop as o h
    simp only [loopSeconds] at h
    by_cases hlt : t < stop
    · simp only [hlt, ite_true, List.mem_cons] at h
      rcases h with rfl | h
      · exact (stepSecond_shape t as).2.2
      · have := ih (t + 1) stop (stepSecond t as).1 o h
        rw [this, (stepSecond_shape t as).2.1]
    · simp [hlt] at h

/-! ### names: sub-documents are in input order -/

theorem nextWindow_name : ∀ (fuel : Nat) (a : Actor), (nextWindow fuel a).1.name = a.name := by
  intro fuel
  induction fuel with
  | zero => intro a; rfl
  | succ f ih =>
    intro a
    have he : a.ensureChunk.name = a.name := by
      unfold Actor.ensureChunk; split <;> rfl
    simp only [nextWindow]
    split
    · exact he
    · split
      · simpa [Actor.pick] using he
      · split
        · rw [ih]; simpa [Actor.advance] using he
        · exact he

theorem stepActor_name (t : Int) (a : Actor) :
    (stepActor t a).1.name = a.name ∧ (stepActor t a).2.1 = a.name := by
  unfold stepActor
  split
  · have hn := nextWindow_name (a.rest.length + 2) a
    split
    · rename_i a' vals heq; rw [heq] at hn; exact ⟨hn, rfl⟩
    · rename_i a' heq; rw [heq] at hn; exact ⟨hn, rfl⟩
  · exact ⟨rfl, rfl⟩

theorem stepSecond_names (t : Int) (as : List Actor) :
    (stepSecond t as).2.actors.map (·.1) = as.map (·.name) ∧
    (stepSecond t as).1.map (·.name) = as.map (·.name) := by
  simp only [stepSecond, List.map_map]
  constructor <;> (apply List.map_congr_left; intro a _; simp [Function.comp, stepActor_name])

/-- **one sub-document per actor, in input order, in every output sample** -/
theorem subdocuments_in_input_order : ∀ (fuel : Nat) (t stop : Int) (as : List Actor),
    ∀ o ∈ loopSeconds fuel t stop as, o.actors.map (·.1) = as.map (·.name) := by
  intro fuel
  induction fuel with
  | zero => intro t stop as o h; simp [loopSeconds] at h
  | succ f ih =>
    intro t stop as o h
    simp only [loopSeconds] at h
    by_cases hlt : t < stop
    · simp only [hlt, ite_true, List.mem_cons] at h
      rcases h with rfl | h
      · exact (stepSecond_names t as).1
      · rw [ih (t + 1) stop (stepSecond t as).1 o h, (stepSecond_names t as).2]
    · simp [hlt] at h

/-! ### values: zeros or one of the actor's own samples -/

/-- all samples an actor can still deliver -/
def pool (a : Actor) : List Sample := (a.cur.toList ++ a.rest).flatten

/-- the values an actor may legitimately emit: zeros, or the values of one of its own samples -/
def Legit (p : List Sample) (vals : List Int) : Prop :=
  vals = List.replicate 8 0 ∨ ∃ s ∈ p, s.vals = vals

theorem findWindow_go_mem (c : List Sample) (prev : Int) : ∀ (i : Nat) (r : Nat × Sample),
    findWindow.go prev i c = some r → r.2 ∈ c := by
  induction c with
  | nil => intro i r h; simp [findWindow.go] at h
  | cons s rest ih =>
    intro i r h
    simp only [findWindow.go] at h
    split at h
    · injection h with h; subst h; simp
    · exact List.mem_cons_of_mem _ (ih (i + 1) r h)

theorem findWindow_mem (c : GChunk) (from_ : Nat) (prev : Int) (r : Nat × Sample)
    (h : findWindow c from_ prev = some r) : r.2 ∈ c :=
  List.mem_of_mem_drop (findWindow_go_mem _ prev from_ r h)

theorem ensureChunk_pool (a : Actor) : pool a.ensureChunk = pool a := by
  unfold Actor.ensureChunk pool
  split <;> simp_all

/-- what `translateAtNextWindow` returns is the values of a sample of the actor's own pool, and
the pool it leaves behind is a suffix (so later picks are still the actor's own samples) -/
theorem nextWindow_own : ∀ (fuel : Nat) (a : Actor) (vals : List Int),
    (nextWindow fuel a).2 = some vals → ∃ s ∈ pool a, s.vals = vals := by
  intro fuel
  induction fuel with
  | zero => intro a vals h; simp [nextWindow] at h
  | succ f ih =>
    intro a vals h
    simp only [nextWindow] at h
    rw [← ensureChunk_pool a]
    generalize a.ensureChunk = b at h ⊢
    split at h
    · simp at h
    · rename_i c hc
      split at h
      · rename_i i s hf
        simp only [Option.some.injEq] at h
        refine ⟨s, ?_, h⟩
        have := findWindow_mem c _ _ (i, s) hf
        simp only [pool, hc, Option.toList_some, List.singleton_append, List.flatten_cons, List.mem_append]
        exact Or.inl this
      · split at h
        · rename_i c' r hr
          obtain ⟨s, hs, hv⟩ := ih (b.advance c' r) vals h
          refine ⟨s, ?_, hv⟩
          simp only [pool, Actor.advance, Option.toList_some, List.singleton_append, List.flatten_cons,
            List.mem_append] at hs
          simp only [pool, hc, hr, Option.toList_some, List.singleton_append, List.flatten_cons, List.mem_append]
          rcases hs with hs | hs
          · exact Or.inr (Or.inl hs)
          · exact Or.inr (Or.inr hs)
        · simp at h

/-! non-vacuity -/
example : (translate [{ name := "a", rest := [[⟨1500, [1,1,1,0,5,5,1,0]⟩, ⟨2500, [2,2,2,0,9,9,1,0]⟩]],
                        startTime := 2, endTime := 4 }]).length = 2 := by decide

end Ftdc.Props.C20
