import FtdcVerif.Model.Recorders
import Driver.Util
namespace Driver
open Ftdc.Recorders Ftdc.Hdr

def parseROp (op : String) : Option ROp :=
  let num := fun (k : Nat) => (op.drop k).toInt?
  if op == "b" then some .begin
  else if op == "T" then some .endTest
  else if op == "R" then some .reset
  else if op.startsWith "io" then (num 2).map .incOps
  else if op.startsWith "ii" then (num 2).map .incIter
  else if op.startsWith "is" then (num 2).map .incSize
  else if op.startsWith "ie" then (num 2).map .incErr
  else if op.startsWith "sw" then (num 2).map .setWorkers
  else if op.startsWith "ss" then (num 2).map .setState
  else if op.startsWith "sf" then (num 2).map fun v => .setFailed (v ≠ 0)
  else if op.startsWith "id" then (num 2).map .setID
  else if op.startsWith "e" then (num 1).map fun v => .endIter (v * 1000000000)
  else if op.startsWith "t" then (num 1).map .setTime
  else if op.startsWith "d" then (num 1).map fun v => .setDur (v * 1000000000)
  else if op.startsWith "D" then (num 1).map fun v => .setTotal (v * 1000000000)
  else none

def stampStr : Stamp → String
  | .zero => "ts=ZERO"
  | .now => "ts=NOW"
  | .at ms => s!"ts={ms}"

def hSum (h : H) (withSum : Bool) (extra : Nat := 0) : String :=
  let c := h.vals.length + extra
  if withSum then s!"{c}/{h.vals.foldl (fun a v => a + (lowestEquiv h.cfg v.toNat : Nat)) 0}" else toString c

def pointStr (hist : Bool) (p : Point) : String :=
  let f := if p.failed then "1" else "0"
  if hist then
    s!"{stampStr p.ts},id={p.id},n={hSum p.hn true},ops={hSum p.hops true},size={hSum p.hsize true},errors={hSum p.herrors true},dur={hSum p.hdur false},total={hSum p.htotal false p.elapsedParts},state={p.state},workers={p.workers},failed={f}"
  else
    s!"{stampStr p.ts},id={p.id},n={p.n},ops={p.ops},size={p.size},errors={p.errors},dur={p.dur},total={p.total / 1000000000}{if p.elapsedParts > 0 then "e" else ""},state={p.state},workers={p.workers},failed={f}"

def kindOf (k : String) : Option Kind :=
  match k with
  | "raw" | "syncRaw" | "shimRaw" => some .raw
  | "single" => some .single
  | "grouped" => some .grouped
  | "interval" => some .interval
  | "hist" => some .hist
  | "histSingle" => some .histSingle
  | "histGrouped" => some .histGrouped
  | "histInterval" => some .histInterval
  | _ => none

def recCmd (ws : List String) : String :=
  match sections ws with
  | [[k, ivl, fails], ops] =>
    match kindOf k, ops.mapM parseROp with
    | some kind, some rops =>
      let fl := if fails == "-" then [] else (fails.splitOn ",").filterMap String.toNat?
      let s0 : RState := { kind := kind, intervalZero := ivl == "0", fails := fl }
      let (_, outs) := run s0 rops
      joinSp (outs.map fun o =>
        let e := match o.endTestErrs with | some n => s!"E{n}" | none => ""
        let ps := if o.persisted.isEmpty then "" else "[" ++ ";".intercalate (o.persisted.map (pointStr kind.isHist)) ++ "]"
        if e == "" && ps == "" then "." else e ++ ps)
    | _, _ => "bad-op"
  | _ => "bad-op"

end Driver
