import FtdcVerif.Model.Collector
import Driver.Util
namespace Driver
open Ftdc

def tsStr : Ts → String
  | .now => "NOW"
  | .none => "NONE"
  | .at ms => toString ms.toInt

def i64Str (v : I64) : String := toString v.toInt

def outDocStr : OutDoc → String
  | .metaDoc id d => s!"M:{tsStr id}:{hexEncode (serDoc d)}"
  | d@(.chunk id _ _ _) => s!"C:{tsStr id}:{hexEncode d.payload}"

def chunkTable (c : Chunk) : String :=
  ";".intercalate (s!"n={c.nPoints}" :: c.metrics.map fun m =>
    s!"{hexEncode m.key}={",".intercalate (m.values.map i64Str)}")

/-- decode the chunks of an output (payloads are already uncompressed) -/
def decodeOut (docs : List OutDoc) : List Chunk × Bool :=
  docs.foldl (fun (acc : List Chunk × Bool) d =>
    if !acc.2 then acc else
    match d with
    | .metaDoc _ _ => acc
    | d@(.chunk _ _ _ _) => match decodePayload d.payload with
      | .ok c => (acc.1 ++ [c], true)
      | .error _ => (acc.1, false)) ([], true)

def okStr (b : Bool) : String := if b then "ok" else "err"

/-- a collector of the model, by constructor name -/
inductive Coll where
  | base (c : Better) | batch (c : Batch) | dynamic (c : Ftdc.Dynamic)
  | streaming (c : Streaming) | streamingDynamic (c : StreamingDynamic)

def Coll.new? (ctor0 : String) (n : Nat) (script : List WriteResult := []) : Option Coll :=
  -- `sample0-<ctor>`: the time-sampling wrapper with a zero interval is transparent
  let ctor := if ctor0.startsWith "sample0-" then (ctor0.drop 8).toString else ctor0
  match ctor with
  | "base" => some (.base { maxDeltas := n })
  | "batch" => some (.batch (Batch.new n))
  | "dynamic" => some (.dynamic (Dynamic.new n))
  | "streaming" => some (.streaming { Streaming.new n with out := { script := script } })
  | "streamingDynamic" =>
      some (.streamingDynamic { s := { Streaming.new n with out := { script := script } } })
  | _ => none

def Coll.add (c : Coll) (d : BDoc) : Coll × Bool :=
  match c with
  | .base b => let (b', r) := b.add d; (.base b', r == AddResult.ok)
  | .batch b => let (b', r) := b.add d; (.batch b', r == AddResult.ok)
  | .dynamic b => let (b', r) := b.add d; (.dynamic b', r == AddResult.ok)
  | .streaming b => let (b', r) := b.add d; (.streaming b', r == SAddResult.ok)
  | .streamingDynamic b => let (b', r) := b.add d; (.streamingDynamic b', r == SAddResult.ok)

/-- `Add` of an unreadable value: the streaming collector flushes a full chunk before it looks
at the sample; all others fail in `readDocument` first -/
def Coll.addBad (c : Coll) : Coll :=
  match c with
  | .streaming b => if b.count ≥ b.maxSamples then .streaming b.flush.1 else c
  | _ => c

def Coll.resolve : Coll → Option (List OutDoc)
  | .base b => b.resolve | .batch b => b.resolve | .dynamic b => b.resolve
  | .streaming b => b.resolve | .streamingDynamic b => b.resolve

def Coll.reset : Coll → Coll
  | .base b => .base b.reset | .batch b => .batch b.reset | .dynamic b => .dynamic b.reset
  | .streaming b => .streaming b.reset | .streamingDynamic b => .streamingDynamic b.reset

def Coll.setMetadata (c : Coll) (d : BDoc) : Coll :=
  match c with
  | .base b => .base (b.setMetadata d) | .batch b => .batch (b.setMetadata d)
  | .dynamic b => .dynamic (b.setMetadata d) | .streaming b => .streaming (b.setMetadata d)
  | .streamingDynamic b => .streamingDynamic (b.setMetadata d)

def Coll.info : Coll → Nat × Nat
  | .base b => b.info | .batch b => b.info | .dynamic b => b.info
  | .streaming b => b.info | .streamingDynamic b => b.info

/-- `FlushCollector(c, w)`: for streaming collectors `w` is their own writer; for the others the
harness passes a separate buffer, modelled by the `Writer` argument -/
def Coll.flush (c : Coll) (w : Writer) : Coll × Writer × Bool :=
  match c with
  | .streaming b => let (b', ok) := b.flush; (.streaming b', w, ok)
  | .streamingDynamic b => let (b', ok) := b.flush; (.streamingDynamic b', w, ok)
  | _ =>
    if c.info.2 = 0 then (c, w, true) else
    match c.resolve with
    | none => (c, w, false)
    | some docs => let (w', ok) := w.write docs; if ok then (c.reset, w', true) else (c, w', false)

def Coll.writer (c : Coll) (w : Writer) : Writer :=
  match c with
  | .streaming b => b.out
  | .streamingDynamic b => b.s.out
  | _ => w

def writerDocs (w : Writer) : List OutDoc :=
  w.log.foldl (fun acc e => match e with
    | .full ds => acc ++ ds
    | .partialWrite _ _ => acc) []

def parseDocs? (ws : List String) : Option (List BDoc) :=
  ws.mapM fun w => (hexDecode w).bind parseDoc

def readBack (out : List OutDoc) : String :=
  let wire := joinSp (out.map outDocStr)
  let (chunks, ok) := decodeOut out
  let tables := "|".intercalate (chunks.map chunkTable)
  let docs := joinSp ((chunks.map (·.structured)).flatten.map fun d => hexEncode (serDoc d))
  s!"wire=[{wire}] tables={okStr ok}[{tables}] docs={okStr ok}[{docs}]"

def coreCmd (ws : List String) : String :=
  match sections ws with
  | [[ctor, ns], docs0] =>
    -- `R` = an intermediate `Resolve()` whose result is discarded: resolving does not change a collector
    let docs := docs0.filter (· != "R")
    match ns.toNat?, (docs.map fun w => (hexDecode w).bind parseDoc) with
    | some n, ds =>
      match Coll.new? ctor n with
      | none => "bad-op"
      | some c0 =>
        let (c, adds) := ds.foldl (fun (acc : Coll × List Char) d =>
          match d with
          | none => (acc.1, acc.2 ++ ['p'])
          | some d => let (c', ok) := acc.1.add d; (c', acc.2 ++ [if ok then 'o' else 'e'])) (c0, [])
        let streaming := ctor.startsWith "streaming"
        let (out, rok) :=
          if streaming then
            let (c', w, ok) := c.flush {}
            (writerDocs (c'.writer w), ok)
          else match c.resolve with
            | some o => (o, true)
            | none => ([], false)
        s!"adds={String.ofList adds} resolve={okStr rok} again=same {readBack out}"
    | _, _ => "bad-op"
  | _ => "bad-op"

end Driver
