package main

import (
	"context"
	"encoding/binary"
	"fmt"
	"math/rand"
	"strings"
	"time"

	"github.com/evergreen-ci/birch"
	"github.com/mongodb/ftdc"
	"github.com/mongodb/ftdc/events"
	"github.com/mongodb/ftdc/hdrhist"
)

func init() {
	commands["rec"] = cmdRec
	streams["recorder"] = streamRecorder
}

// failing snapshot collector: records what it is handed, fails on scripted calls
type recCollector struct {
	calls int
	fail  map[int]bool
	docs  [][]byte
	strs  []string // rendering of every sample, taken at the time of the call
	start time.Time
}

func hdrSummary(h *hdrhist.Histogram, withSum bool) string {
	if !withSum {
		return fmt.Sprint(h.TotalCount())
	}
	var sum int64
	for _, b := range h.Distribution() {
		sum += b.From * b.Count
	}
	return fmt.Sprintf("%d/%d", h.TotalCount(), sum)
}

func stampString(t time.Time, start time.Time) string {
	if t.IsZero() {
		return "ts=ZERO"
	}
	ms := t.UnixNano() / 1e6
	now := time.Now().UnixNano() / 1e6
	if ms >= start.UnixNano()/1e6-5 && ms <= now+5 {
		return "ts=NOW"
	}
	return fmt.Sprintf("ts=%d", ms)
}

func (c *recCollector) Add(in interface{}) error {
	i := c.calls
	c.calls++
	if c.fail[i] {
		return fmt.Errorf("scripted collector failure %d", i)
	}
	if p, ok := in.(*events.PerformanceHDR); ok {
		// marshalling a histogram point through birch is quadratic in the size of its counts arrays
		// (1.4 million entries each): read the struct instead
		f := 0
		if p.Gauges.Failed {
			f = 1
		}
		c.docs = append(c.docs, nil)
		c.strs = append(c.strs, fmt.Sprintf("%s,id=%d,n=%s,ops=%s,size=%s,errors=%s,dur=%s,total=%s,state=%d,workers=%d,failed=%d",
			stampString(p.Timestamp, c.start), p.ID, hdrSummary(p.Counters.Number, true), hdrSummary(p.Counters.Operations, true),
			hdrSummary(p.Counters.Size, true), hdrSummary(p.Counters.Errors, true), hdrSummary(p.Timers.Duration, false),
			hdrSummary(p.Timers.Total, false), p.Gauges.State, p.Gauges.Workers, f))
		return nil
	}
	dm, ok := in.(birch.DocumentMarshaler)
	if !ok {
		return fmt.Errorf("unexpected %T", in)
	}
	d, err := dm.MarshalDocument()
	if err != nil {
		return err
	}
	b, _ := d.MarshalBSON()
	c.docs = append(c.docs, b)
	c.strs = append(c.strs, sampleString(b, c.start))
	return nil
}
func (c *recCollector) SetMetadata(interface{}) error { return nil }
func (c *recCollector) Resolve() ([]byte, error)      { return nil, nil }
func (c *recCollector) Reset()                        {}
func (c *recCollector) Info() ftdc.CollectorInfo      { return ftdc.CollectorInfo{} }

type nopTimer struct{}

func (nopTimer) ResetTimer() {}
func (nopTimer) StartTimer() {}
func (nopTimer) StopTimer()  {}

func histSummary(k *Node, withSum bool) string {
	// {lowest, highest, figures, counts: [..]}
	count, sum := int64(0), int64(0)
	for _, f := range k.Kids {
		if f.Key == "counts" && f.Tag == 0x04 {
			for i, c := range f.Kids {
				v := int64(binary.LittleEndian.Uint64(c.Raw))
				count += v
				sum += int64(i) * v
			}
		}
	}
	if withSum {
		return fmt.Sprintf("%d/%d", count, sum)
	}
	return fmt.Sprint(count)
}

// sampleString renders one persisted sample (performance or histogram document).
func sampleString(b []byte, start time.Time) string {
	kids, err := parseDocStrict(b)
	if err != nil {
		return "X"
	}
	var parts []string
	for _, k := range kids {
		switch k.Key {
		case "ts":
			ms := int64(binary.LittleEndian.Uint64(k.Raw))
			now := time.Now().UnixNano() / 1e6
			if ms >= start.UnixNano()/1e6-5 && ms <= now+5 {
				parts = append(parts, "ts=NOW")
			} else if ms == -62135596800000 {
				parts = append(parts, "ts=ZERO")
			} else {
				parts = append(parts, fmt.Sprintf("ts=%d", ms))
			}
		case "id":
			parts = append(parts, fmt.Sprintf("id=%d", int64(binary.LittleEndian.Uint64(k.Raw))))
		case "counters", "timers", "gauges":
			for _, f := range k.Kids {
				switch {
				case f.Tag == 0x12 && f.Key == "total":
					// whole seconds: elapsed parts (below a second in total) vanish, explicit parts are whole seconds
					// "e": the total has a sub-second part, i.e. at least one time.Since(started) went into it
					tot := int64(binary.LittleEndian.Uint64(f.Raw))
					mark := ""
					if tot%1e9 != 0 {
						mark = "e"
					}
					parts = append(parts, fmt.Sprintf("total=%d%s", tot/1e9, mark))
				case f.Tag == 0x12:
					parts = append(parts, fmt.Sprintf("%s=%d", f.Key, int64(binary.LittleEndian.Uint64(f.Raw))))
				case f.Tag == 0x08:
					parts = append(parts, fmt.Sprintf("%s=%d", f.Key, f.Raw[0]))
				case f.Tag == 0x03:
					parts = append(parts, fmt.Sprintf("%s=%s", f.Key, histSummary(f, f.Key != "total" && f.Key != "dur")))
				}
			}
		}
	}
	return strings.Join(parts, ",")
}

// rec <kind> <interval: 0 | h> <failing Add indexes, comma separated or -> | <ops>
func cmdRec(o *Out, line string, f []string) {
	sec := sections(f)
	kind, ivl := sec[0][0], sec[0][1]
	coll := &recCollector{fail: map[int]bool{}}
	if sec[0][2] != "-" {
		for _, x := range strings.Split(sec[0][2], ",") {
			coll.fail[int(atoi64(x))] = true
		}
	}
	interval := time.Duration(0)
	if ivl == "h" {
		interval = time.Hour
	}
	ctx, cancel := context.WithCancel(context.Background())
	defer cancel()
	var r events.Recorder
	switch kind {
	case "raw":
		r = events.NewRawRecorder(coll)
	case "single":
		r = events.NewSingleRecorder(coll)
	case "grouped":
		r = events.NewGroupedRecorder(coll, interval)
	case "interval":
		r = events.NewIntervalRecorder(ctx, coll, time.Hour)
	case "hist":
		r = events.NewHistogramRecorder(coll)
	case "histSingle":
		r = events.NewSingleHistogramRecorder(coll)
	case "histGrouped":
		r = events.NewHistogramGroupedRecorder(coll, interval)
	case "histInterval":
		r = events.NewIntervalHistogramRecorder(ctx, coll, time.Hour)
	case "syncRaw":
		r = events.NewSynchronizedRecorder(events.NewRawRecorder(coll))
	case "shimRaw":
		r = events.NewShimRecorder(events.NewRawRecorder(coll), nopTimer{})
	default:
		panic(kind)
	}
	start := time.Now()
	coll.start = start
	var obs []string
	var incSum [4]int64 // ops, n(iter), size, errors since last reset/EndTest (performance recorders)
	var incCalls [4]int64
	var gState, gWorkers, gFailed, curID int64 // gauges: last value set, for ever; id: since the last reset/EndTest
	isHist := strings.HasPrefix(kind, "hist")
	for _, op := range sec[1] {
		before := len(coll.docs)
		res := ""
		arg := func(p int) int64 { return atoi64(op[p:]) }
		switch {
		case strings.HasPrefix(op, "io"):
			r.IncOperations(arg(2))
			incSum[0] += arg(2)
			incCalls[0]++
		case strings.HasPrefix(op, "ii"):
			r.IncIterations(arg(2))
		case strings.HasPrefix(op, "is"):
			r.IncSize(arg(2))
			incSum[2] += arg(2)
			incCalls[2]++
		case strings.HasPrefix(op, "ie"):
			r.IncError(arg(2))
			incSum[3] += arg(2)
			incCalls[3]++
		case strings.HasPrefix(op, "sw"):
			r.SetWorkers(arg(2))
			gWorkers = arg(2)
		case strings.HasPrefix(op, "ss"):
			r.SetState(arg(2))
			gState = arg(2)
		case strings.HasPrefix(op, "sf"):
			r.SetFailed(arg(2) != 0)
			gFailed = 0
			if arg(2) != 0 {
				gFailed = 1
			}
		case strings.HasPrefix(op, "id"):
			r.SetID(arg(2))
			curID = arg(2)
		case op == "b":
			r.BeginIteration()
		case strings.HasPrefix(op, "e"):
			r.EndIteration(time.Duration(arg(1)) * time.Second)
		case strings.HasPrefix(op, "t"):
			ms := arg(1)
			r.SetTime(time.Unix(ms/1000, ms%1000*1000000))
		case strings.HasPrefix(op, "d"):
			r.SetDuration(time.Duration(arg(1)) * time.Second)
		case strings.HasPrefix(op, "D"):
			r.SetTotalDuration(time.Duration(arg(1)) * time.Second)
		case op == "T":
			err := r.EndTest()
			if err == nil {
				res = "E0"
			} else {
				res = fmt.Sprintf("E%d", strings.Count(err.Error(), "\n")+1)
			}
		case op == "R":
			r.Reset()
		default:
			panic("op " + op)
		}
		var ps []string
		ps = append(ps, coll.strs[before:]...)
		// oracle (C15), independent of the model: gauges are the last value set (for ever), the id the last
		// one set and the counters the sums of the increments since the last EndTest / Reset
		for _, str := range coll.strs[before:] {
			got := map[string]string{}
			for _, kv := range strings.Split(str, ",") {
				if i := strings.IndexByte(kv, '='); i > 0 {
					got[kv[:i]] = kv[i+1:]
				}
			}
			want := map[string]string{"state": fmt.Sprint(gState), "workers": fmt.Sprint(gWorkers), "failed": fmt.Sprint(gFailed), "id": fmt.Sprint(curID)}
			if !isHist {
				want["ops"], want["size"], want["errors"] = fmt.Sprint(incSum[0]), fmt.Sprint(incSum[2]), fmt.Sprint(incSum[3])
			}
			for k, w := range want {
				g, present := got[k]
				if isHist && (k == "ops" || k == "size" || k == "errors") {
					continue
				}
				if present && g != w {
					o.violation(line, "a persisted sample does not carry the last gauge / id set or the sum of the increments",
						map[string]string{"field": k, "persisted": g, "expected": w, "after_call": op})
				}
			}
			if isHist {
				// every increment is one observation
				for i, k := range map[int]string{0: "ops", 2: "size", 3: "errors"} {
					if g, present := got[k]; present {
						if cnt := strings.SplitN(g, "/", 2)[0]; cnt != fmt.Sprint(incCalls[i]) {
							o.violation(line, "a histogram sample does not hold one observation per increment",
								map[string]string{"field": k, "persisted": g, "expected_observations": fmt.Sprint(incCalls[i]), "after_call": op})
						}
					}
				}
			}
		}
		if op == "T" || op == "R" {
			incSum, incCalls, curID = [4]int64{}, [4]int64{}, 0
		}
		if len(ps) > 0 {
			res += "[" + strings.Join(ps, ";") + "]"
		}
		if res == "" {
			res = "."
		}
		obs = append(obs, res)
		// oracle (C15): elapsed-time parts are bounded by the wall clock
		for _, d := range coll.docs[before:] {
			if d == nil {
				continue
			}
			kids, _ := parseDocStrict(d)
			for _, k := range kids {
				if k.Key == "timers" {
					for _, tf := range k.Kids {
						if tf.Key == "total" && tf.Tag == 0x12 {
							t := int64(binary.LittleEndian.Uint64(tf.Raw))
							if frac := t % 1e9; frac < 0 || time.Duration(frac) > time.Since(start)+time.Millisecond {
								o.violation(line, "the elapsed-time part of a total duration exceeds the wall clock", map[string]int64{"total": t})
							}
						}
					}
				}
			}
		}
	}
	o.emit(line, strings.Join(obs, " "))
	o.nontrivial(line)
	o.count("rec-" + kind)
}

func streamRecorder(o *Out, rng *rand.Rand, thorough bool, _ []string) {
	kinds := []string{"raw", "single", "grouped", "interval", "hist", "histSingle", "histGrouped", "histInterval", "syncRaw", "shimRaw"}
	alphabet := []string{"io3", "ii2", "is5", "ie1", "sw4", "ss2", "sf1", "b", "e2", "t1600000000000", "d3", "D7", "id9", "T", "R", "io20000",
		"io0", "is0", "sw0", "ss0", "id0", "sf0", "d0"}
	// exhaustive short call sequences
	maxLen := 2
	if thorough {
		maxLen = 3
	}
	var rec func(prefix []string)
	rec = func(prefix []string) {
		if len(prefix) > 0 {
			for _, k := range kinds {
				if len(prefix) >= 3 && strings.HasPrefix(k, "hist") {
					continue // a histogram recorder allocates six 1.4-million-entry histograms: the longest sequences on the others only
				}
				for _, ivl := range []string{"0", "h"} {
					if ivl == "h" && k != "grouped" && k != "histGrouped" {
						continue
					}
					// always finish with an EndTest so that unpersisted state becomes visible
					run(o, fmt.Sprintf("rec %s %s - | %s T", k, ivl, strings.Join(prefix, " ")))
					if len(prefix) == 2 {
						// the same calls inside an iteration that is persisted, after non-zero gauges and counters
						run(o, fmt.Sprintf("rec %s %s - | sw4 ss2 id9 sf1 b io3 %s e1 T", k, ivl, strings.Join(prefix, " ")))
					}
				}
			}
		}
		if len(prefix) == maxLen {
			return
		}
		for _, a := range alphabet {
			rec(append(append([]string{}, prefix...), a))
		}
	}
	rec(nil)
	// exhaustive LIFECYCLE sequences (begin, end iteration, EndTest, Reset, one increment): begins without ends, ends
	// without begins, calls after EndTest - to length 4 (thorough: 5)
	life := []string{"b", "e2", "T", "R", "io3"}
	lifeLen := 4
	if thorough {
		lifeLen = 5
	}
	var lrec func(prefix []string)
	lrec = func(prefix []string) {
		if len(prefix) >= 3 {
			for _, k := range kinds {
				if strings.HasPrefix(k, "hist") && (len(prefix) > 3 || k != "histSingle") {
					continue
				}
				run(o, fmt.Sprintf("rec %s 0 - | %s T", k, strings.Join(prefix, " ")))
			}
		}
		if len(prefix) == lifeLen {
			return
		}
		for _, a := range life {
			lrec(append(append([]string{}, prefix...), a))
		}
	}
	lrec(nil)
	// random long sequences with failing collector calls
	n := 300
	if thorough {
		n = 8000
	}
	for i := 0; i < n; i++ {
		L := 5 + rng.Intn(40)
		var ops []string
		for k := 0; k < L; k++ {
			a := alphabet[rng.Intn(len(alphabet))]
			switch {
			case strings.HasPrefix(a, "io") && rng.Intn(2) == 0:
				a = fmt.Sprintf("io%d", rng.Intn(200))
			case a == "e2":
				a = fmt.Sprintf("e%d", rng.Intn(50))
			case a == "sw4":
				a = fmt.Sprintf("sw%d", rng.Intn(9))
			}
			ops = append(ops, a)
		}
		ops = append(ops, "T")
		fail := "-"
		if rng.Intn(2) == 0 {
			var fs []string
			for k := 0; k < 1+rng.Intn(3); k++ {
				fs = append(fs, fmt.Sprint(rng.Intn(8)))
			}
			fail = strings.Join(fs, ",")
		}
		k := kinds[rng.Intn(len(kinds))]
		ivl := []string{"0", "h"}[rng.Intn(2)]
		run(o, fmt.Sprintf("rec %s %s %s | %s", k, ivl, fail, strings.Join(ops, " ")))
	}
}
