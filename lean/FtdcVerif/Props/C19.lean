import FtdcVerif.Model.Metrics
/-!
# C19 — metrics-package pipelines deliver every sample in order or fail loudly

`CollectJSONStream`: a result is returned only if every line was a readable, well-formed
document and was accepted by the collector — a malformed line or a line the scanner cannot
return in full makes the function fail, wherever it is and whenever flush ticks fire.
`CollectRuntime`: for every sequence of collect ticks, flush ticks and the final cancellation,
the ids in the files are exactly 0..n-1 in order, no file in the sequence is empty, and the
final partial batch is flushed.
-/
namespace Ftdc.Props.C19
open Ftdc Ftdc.Metrics

def isBadLine : JEvent → Bool
  | .line .malformed => true
  | .line .tooLong => true
  | _ => false

/-- **all lines or an error**: if the stream holds a malformed or unreadable line, at any
position, with flush ticks anywhere, no result is returned -/
theorem json_all_or_error (n : Nat) (evs : List JEvent) (h : evs.any isBadLine = true) :
    collectJSON n evs = none := by
  have gen : ∀ (evs : List JEvent) (s : JState), evs.any isBadLine = true → jrun s evs = none := by
    intro evs
    induction evs with
    | nil => intro s h; simp at h
    | cons e es ih =>
      intro s h
      simp only [List.any_cons, Bool.or_eq_true] at h
      simp only [jrun]
      cases hs : jstep s e with
      | none => rfl
      | some s' =>
        rcases h with h | h
        · cases e with
          | flushTick => simp [isBadLine] at h
          | line l => cases l <;> simp_all [isBadLine, jstep]
        · exact ih s' h
  simp [collectJSON, gen evs _ h]

/-- a returned result means every line was accepted by the collector (nothing skipped) -/
theorem json_result_means_all_accepted (s s' : JState) (d : BDoc)
    (h : jstep s (.line (.doc d)) = some s') : (s.coll.add d).2 = .ok ∧ s'.coll = (s.coll.add d).1 := by
  simp only [jstep] at h
  split at h
  · rename_i hok; injection h with h; subst h; exact ⟨hok, rfl⟩
  · cases h

/-- a periodic flush keeps what was flushed before and appends what was pending -/
theorem flush_appends (s s' : JState) (h : flusher s = some s') :
    ∃ o, s'.flushed = s.flushed ++ o := by
  unfold flusher at h
  split at h
  · injection h with h; subst h; exact ⟨[], by simp⟩
  · split at h
    · cases h
    · rename_i o _; injection h with h; subst h; exact ⟨o, rfl⟩

/-! ### CollectRuntime -/

def collects (evs : List REvent) : Nat := (evs.filter (· = .collect)).length

/-- state invariant: closed files ++ current file hold exactly the ids 0..next-1 in order, and
no closed file is empty -/
def RInv (s : RState) : Prop :=
  s.files.flatten ++ s.pending = List.range s.next ∧ ∀ f ∈ s.files, f ≠ []

theorem rotate_inv (s : RState) (h : RInv s) : RInv (rotate s) ∧ (rotate s).next = s.next := by
  unfold rotate
  split
  · exact ⟨h, rfl⟩
  · rename_i hp
    refine ⟨⟨?_, ?_⟩, rfl⟩
    · simpa using h.1
    · intro f hf
      simp only [List.mem_append, List.mem_singleton] at hf
      rcases hf with hf | rfl
      · exact h.2 f hf
      · exact hp

theorem rstep_inv (s : RState) (e : REvent) (h : RInv s) :
    RInv (rstep s e) ∧ (rstep s e).next = s.next + (if e = .collect then 1 else 0) := by
  cases e with
  | collect =>
    refine ⟨⟨?_, h.2⟩, by simp [rstep]⟩
    simp only [rstep, List.range_succ, ← List.append_assoc, h.1]
  | flush =>
    have := rotate_inv s h
    exact ⟨this.1, by simpa [rstep] using this.2⟩

theorem run_inv (evs : List REvent) : ∀ (s : RState), RInv s →
    RInv (evs.foldl rstep s) ∧ (evs.foldl rstep s).next = s.next + collects evs := by
  induction evs with
  | nil => intro s h; exact ⟨h, by simp [collects]⟩
  | cons e es ih =>
    intro s h
    obtain ⟨h1, h2⟩ := rstep_inv s e h
    obtain ⟨h3, h4⟩ := ih (rstep s e) h1
    refine ⟨h3, ?_⟩
    simp only [List.foldl_cons, h4, h2, collects, List.filter_cons]
    cases e <;> simp <;> omega

/-- **consecutive ids 0..n-1 across the files, none missing or repeated, the final partial
batch flushed on shutdown, no empty file in the sequence** — for every timer order -/
theorem runtime_ids (evs : List REvent) :
    (collectRuntime evs).flatten = List.range (collects evs) ∧ ∀ f ∈ collectRuntime evs, f ≠ [] := by
  obtain ⟨hinv, hn⟩ := run_inv evs {} ⟨by simp, by simp⟩
  obtain ⟨hr, hrn⟩ := rotate_inv _ hinv
  unfold collectRuntime
  have hp : (rotate (evs.foldl rstep {})).pending = [] := by
    unfold rotate; split
    · assumption
    · rfl
  have := hr.1
  rw [hp, List.append_nil, hrn, hn] at this
  exact ⟨by simpa using this, hr.2⟩

/-! non-vacuity -/
example : collectRuntime [.collect, .collect, .flush, .flush, .collect] = [[0, 1], [2]] := by decide

end Ftdc.Props.C19
