import FtdcVerif.Model.Collector
/-! Helper lemmas for the collectors (C07, C08, C09): the collectors as bounded, faithful logs. -/
namespace Ftdc

/-! ### betterCollector as a bounded log -/

/-- the samples a collector holds (rows of metric values), oldest first -/
def Better.samples (c : Better) : List Row := if c.ref.isSome then c.first :: c.rows else []

/-- well-formedness kept by every operation -/
def Better.Inv (c : Better) : Prop :=
  (c.ref = none → c.rows = [] ∧ c.first = []) ∧ c.rows.length ≤ c.maxDeltas ∧
  (c.ref.isSome → c.first.length = c.last.length ∧ ∀ r ∈ c.rows, r.length = c.last.length)

theorem Better.add_ok_appends (c : Better) (d : BDoc) (h : (c.add d).2 = .ok) :
    (c.add d).1.samples = c.samples ++ [(extractDoc d).map (·.1)] := by
  unfold Better.add at h ⊢
  cases hr : c.ref with
  | none => simp [Better.samples, hr]
  | some r =>
    simp only [hr] at h ⊢
    by_cases h1 : c.rows.length ≥ c.maxDeltas
    · simp [h1] at h
    · simp only [h1, ite_false] at h ⊢
      by_cases h2 : (extractDoc d).length ≠ c.last.length
      · simp [h2] at h
      · simp only [h2, ite_false] at h ⊢
        by_cases h3 : (extractDoc d).map (·.2) ≠ c.last.map (·.2)
        · simp [h3] at h
        · simp [h3, Better.samples, hr]

/-- a rejected `Add` (capacity, metric count, value types) changes nothing -/
theorem Better.add_rejected_noop (c : Better) (d : BDoc) (h : (c.add d).2 ≠ .ok) : (c.add d).1 = c := by
  unfold Better.add at h ⊢
  cases hr : c.ref with
  | none => simp [hr] at h
  | some r =>
    simp only [hr] at h ⊢
    by_cases h1 : c.rows.length ≥ c.maxDeltas
    · simp [h1]
    · simp only [h1, ite_false] at h ⊢
      by_cases h2 : (extractDoc d).length ≠ c.last.length
      · simp [h2]
      · simp only [h2, ite_false] at h ⊢
        by_cases h3 : (extractDoc d).map (·.2) ≠ c.last.map (·.2)
        · simp [h3]
        · simp [h3] at h

theorem Better.info_counts_samples (c : Better) (h : c.Inv) : c.info.2 = c.samples.length := by
  unfold Better.info Better.samples
  cases hr : c.ref with
  | none => have := (h.1 hr).1; simp [this]
  | some r => simp [Nat.add_comm]

theorem Better.reset_empty (c : Better) : c.reset.samples = [] ∧ c.reset.info.2 = 0 := by
  simp [Better.reset, Better.samples, Better.info]

theorem Better.reset_inv (c : Better) : c.reset.Inv := by
  simp [Better.reset, Better.Inv]

theorem Better.add_inv (c : Better) (d : BDoc) (h : c.Inv) : (c.add d).1.Inv := by
  by_cases hok : (c.add d).2 = .ok
  · unfold Better.add at hok ⊢
    cases hr : c.ref with
    | none => simp [Better.Inv]
    | some r =>
      simp only [hr] at hok ⊢
      by_cases h1 : c.rows.length ≥ c.maxDeltas
      · simp [h1] at hok
      · simp only [h1, ite_false] at hok ⊢
        by_cases h2 : (extractDoc d).length ≠ c.last.length
        · simp [h2] at hok
        · simp only [h2, ite_false] at hok ⊢
          by_cases h3 : (extractDoc d).map (·.2) ≠ c.last.map (·.2)
          · simp [h3] at hok
          · simp only [h3, ite_false]
            obtain ⟨_, hlen, hshape⟩ := h
            have hs := hshape (by simp [hr])
            refine ⟨by simp, by simp; omega, ?_⟩
            intro _
            have h2 : (extractDoc d).length = c.last.length := Decidable.not_not.mp h2
            refine ⟨by rw [hs.1, h2], ?_⟩
            intro x hx
            simp only [List.mem_append, List.mem_singleton] at hx
            rcases hx with hx | rfl
            · rw [hs.2 x hx, h2]
            · simp
  · rw [Better.add_rejected_noop c d hok]; exact h

/-- the chunk never exceeds its capacity: at most maxDeltas + 1 samples -/
theorem Better.samples_bounded (c : Better) (h : c.Inv) : c.samples.length ≤ c.maxDeltas + 1 := by
  unfold Better.samples
  cases c.ref <;> simp
  exact h.2.1

/-- `Resolve` renders exactly the samples held -/
theorem Better.resolve_samples (c : Better) (o : List OutDoc) (h : c.resolve = some o) :
    (o.map OutDoc.samples).flatten = c.samples := by
  unfold Better.resolve at h
  cases hr : c.ref with
  | none => simp [hr] at h
  | some r =>
    simp only [hr] at h
    cases hm : c.metadata with
    | none => simp only [hm, Option.some.injEq] at h; subst h; simp [OutDoc.samples, Better.samples, hr]
    | some m => simp only [hm, Option.some.injEq] at h; subst h; simp [OutDoc.samples, Better.samples, hr]

theorem Better.resolve_none_iff (c : Better) : c.resolve = none ↔ c.samples = [] := by
  unfold Better.resolve Better.samples
  cases c.ref <;> cases c.metadata <;> simp

/-! ### operation histories -/

/-- the operations of the `Collector` interface (`addBad` = an unreadable value) -/
inductive COp where
  | add (d : BDoc) | addBad | resolve | reset | setMeta (d : BDoc) | info

def Better.step (c : Better) : COp → Better
  | .add d => (c.add d).1
  | .reset => c.reset
  | .setMeta d => c.setMetadata d
  | _ => c            -- Resolve, Info and a rejected unreadable value do not change the collector

def Better.run (c : Better) (ops : List COp) : Better := ops.foldl Better.step c

/-- the specification log: the samples accepted (by the return value of `Add`) since the last
`Reset`, replayed along the history -/
def Better.accepted : Better → List Row → List COp → List Row
  | _, log, [] => log
  | c, log, .add d :: ops =>
      Better.accepted (c.step (.add d)) (if (c.add d).2 = .ok then log ++ [(extractDoc d).map (·.1)] else log) ops
  | c, _, .reset :: ops => Better.accepted (c.step .reset) [] ops
  | c, log, op :: ops => Better.accepted (c.step op) log ops

theorem Better.step_inv (c : Better) (op : COp) (h : c.Inv) : (c.step op).Inv := by
  cases op with
  | add d => exact Better.add_inv c d h
  | reset => exact Better.reset_inv c
  | setMeta d => simpa [Better.step, Better.setMetadata, Better.Inv] using h
  | _ => exact h

/-- **faithful log, every history**: after any sequence of operations the samples the collector
holds are exactly the samples accepted since the last Reset, once each and in order -/
theorem Better.faithful_log (ops : List COp) : ∀ (c : Better),
    (c.run ops).samples = Better.accepted c c.samples ops := by
  induction ops with
  | nil => intro c; rfl
  | cons op ops ih =>
    intro c
    simp only [Better.run, List.foldl_cons] at ih ⊢
    cases op with
    | add d =>
      simp only [Better.accepted]
      rw [ih (c.step (.add d))]
      congr 1
      by_cases hok : (c.add d).2 = .ok
      · simp [hok, Better.step, Better.add_ok_appends c d hok]
      · simp [hok, Better.step, Better.add_rejected_noop c d hok]
    | reset =>
      simp only [Better.accepted]
      rw [ih (c.step .reset)]
      simp [Better.step, Better.reset, Better.samples]
    | setMeta d =>
      simp only [Better.accepted]
      rw [ih (c.step (.setMeta d))]
      rfl
    | addBad => simp only [Better.accepted]; rw [ih]; rfl
    | resolve => simp only [Better.accepted]; rw [ih]; rfl
    | info => simp only [Better.accepted]; rw [ih]; rfl

/-- the invariant, hence the capacity bound, holds after every history from a fresh collector -/
theorem Better.run_inv (ops : List COp) : ∀ (c : Better), c.Inv → (c.run ops).Inv := by
  induction ops with
  | nil => intro c h; exact h
  | cons op ops ih => intro c h; exact ih _ (Better.step_inv c op h)

theorem Better.fresh_inv (n : Nat) : ({ maxDeltas := n } : Better).Inv := by
  simp [Better.Inv]

/-! ### batchCollector -/

def Batch.samples (b : Batch) : List Row := (b.chunks.map Better.samples).flatten

/-- chunks ≠ [], every chunk well-formed with the batch's capacity, every chunk but the last is
full (exactly `maxSamples` samples), no chunk holds more than `maxSamples` -/
structure Batch.Inv (b : Batch) : Prop where
  pos : 1 ≤ b.maxSamples
  ne : b.chunks ≠ []
  each : ∀ c ∈ b.chunks, c.Inv ∧ c.maxDeltas = b.maxSamples ∧ c.samples.length ≤ b.maxSamples
  full : ∀ c ∈ b.chunks.dropLast, c.samples.length = b.maxSamples

theorem Better.add_fresh (n : Nat) (d : BDoc) :
    (Better.add { maxDeltas := n } d).2 = .ok ∧
    (Better.add { maxDeltas := n } d).1.samples = [(extractDoc d).map (·.1)] ∧
    (Better.add { maxDeltas := n } d).1.maxDeltas = n := by
  simp [Better.add, Better.samples]

theorem Better.add_maxDeltas (c : Better) (d : BDoc) : (c.add d).1.maxDeltas = c.maxDeltas := by
  unfold Better.add
  simp only []
  repeat' split
  all_goals rfl

theorem Batch.add_ok_appends (b : Batch) (d : BDoc) (hi : b.Inv) (h : (b.add d).2 = .ok) :
    (b.add d).1.samples = b.samples ++ [(extractDoc d).map (·.1)] := by
  obtain ⟨init, last, hc⟩ : ∃ init last, b.chunks = init ++ [last] := by
    rcases List.eq_nil_or_concat b.chunks with h0 | ⟨l, x, hx⟩
    · exact absurd h0 hi.ne
    · exact ⟨l, x, by simpa using hx⟩
  unfold Batch.add at h ⊢
  simp only [hc, List.getLast?_concat] at h ⊢
  by_cases hfull : last.info.2 ≥ b.maxSamples
  · simp only [hfull, ite_true]
    simp [Batch.samples, hc, (Better.add_fresh b.maxSamples d).2.1]
  · simp only [hfull, ite_false, List.dropLast_concat] at h ⊢
    simp [Batch.samples, hc, Better.add_ok_appends last d h]

theorem Batch.add_rejected_noop (b : Batch) (d : BDoc) (hi : b.Inv) (h : (b.add d).2 ≠ .ok) :
    (b.add d).1 = b := by
  obtain ⟨init, last, hc⟩ : ∃ init last, b.chunks = init ++ [last] := by
    rcases List.eq_nil_or_concat b.chunks with h0 | ⟨l, x, hx⟩
    · exact absurd h0 hi.ne
    · exact ⟨l, x, by simpa using hx⟩
  unfold Batch.add at h ⊢
  simp only [hc, List.getLast?_concat] at h ⊢
  by_cases hfull : last.info.2 ≥ b.maxSamples
  · simp only [hfull, ite_true] at h
    exact absurd (Better.add_fresh b.maxSamples d).1 h
  · simp only [hfull, ite_false, List.dropLast_concat] at h ⊢
    rw [Better.add_rejected_noop last d h]
    cases b; simp_all

/-- capacity and "only the last chunk may hold fewer" are kept by every `Add` -/
theorem Batch.add_inv (b : Batch) (d : BDoc) (hi : b.Inv) : (b.add d).1.Inv := by
  obtain ⟨init, last, hc⟩ : ∃ init last, b.chunks = init ++ [last] := by
    rcases List.eq_nil_or_concat b.chunks with h0 | ⟨l, x, hx⟩
    · exact absurd h0 hi.ne
    · exact ⟨l, x, by simpa using hx⟩
  have hlast := hi.each last (by simp [hc])
  have hinfo := Better.info_counts_samples last hlast.1
  unfold Batch.add
  simp only [hc, List.getLast?_concat]
  by_cases hfull : last.info.2 ≥ b.maxSamples
  · simp only [hfull, ite_true]
    have hf := Better.add_fresh b.maxSamples d
    refine ⟨hi.pos, by simp, ?_, ?_⟩
    · intro c hcm
      simp only [List.mem_append, List.mem_singleton] at hcm
      rcases hcm with hcm | rfl
      · exact hi.each c (by simp [hc]; simpa using hcm)
      · refine ⟨Better.add_inv _ d (Better.fresh_inv _), hf.2.2, ?_⟩
        rw [hf.2.1]; simpa using hi.pos
    · intro c hcm
      rw [List.dropLast_concat] at hcm
      simp only [List.mem_append, List.mem_singleton] at hcm
      rcases hcm with hcm | rfl
      · exact hi.full c (by rw [hc, List.dropLast_concat]; exact hcm)
      · show c.samples.length = b.maxSamples
        have := hlast.2.2; omega
  · simp only [hfull, ite_false, List.dropLast_concat]
    refine ⟨hi.pos, by simp, ?_, ?_⟩
    · intro c hcm
      simp only [List.mem_append, List.mem_singleton] at hcm
      rcases hcm with hcm | rfl
      · exact hi.each c (by simp [hc, hcm])
      · refine ⟨Better.add_inv last d hlast.1, by rw [Better.add_maxDeltas]; exact hlast.2.1, ?_⟩
        by_cases hok : (last.add d).2 = .ok
        · rw [Better.add_ok_appends last d hok]; simp; omega
        · rw [Better.add_rejected_noop last d hok]; exact hlast.2.2
    · intro c hcm
      rw [List.dropLast_concat] at hcm
      exact hi.full c (by rw [hc, List.dropLast_concat]; exact hcm)

theorem Batch.new_inv (n : Nat) (h : 1 ≤ n) : (Batch.new n).Inv := by
  refine ⟨h, by simp [Batch.new], ?_, by simp [Batch.new]⟩
  intro c hc
  simp only [Batch.new, List.mem_singleton] at hc
  subst hc
  exact ⟨Better.fresh_inv n, rfl, by simp [Better.samples]⟩


/-! ### the schema hash determines the list of metric keys -/

mutual
/-- the full keys `metricKeyHash` writes to the checksum, in document order -/
def hashPathsVal (key : Bytes) : BVal → List Bytes
  | .doc d => hashPathsElems key d
  | .arr d => hashPathsArr key 0 d
  | .other _ _ => []
  | .double _ => [key]
  | .bool _ => [key]
  | .datetime _ => [key]
  | .int32 _ => [key]
  | .timestamp _ _ => [key]
  | .int64 _ => [key]
def hashPathsElems (key : Bytes) : BDoc → List Bytes
  | .nil => []
  | .cons k v r => hashPathsVal (key ++ [dot] ++ k) v ++ hashPathsElems key r
def hashPathsArr (key : Bytes) (idx : Nat) : BDoc → List Bytes
  | .nil => []
  | .cons _ v r => hashPathsVal (key ++ [dot] ++ decimal idx) v ++ hashPathsArr key (idx + 1) r
end

def terminated (l : List Bytes) : Bytes := (l.map (· ++ [0])).flatten

mutual
theorem hashVal_spec : (v : BVal) → ∀ key, (hashVal key v).1 = terminated (hashPathsVal key v)
  | .doc d, key => by simpa [hashVal, hashPathsVal] using hashElems_spec d key
  | .arr d, key => by simpa [hashVal, hashPathsVal] using hashArr_spec d key 0
  | .other _ _, key => by simp [hashVal, hashPathsVal, terminated]
  | .double _, key => by simp [hashVal, hashPathsVal, terminated]
  | .bool _, key => by simp [hashVal, hashPathsVal, terminated]
  | .datetime _, key => by simp [hashVal, hashPathsVal, terminated]
  | .int32 _, key => by simp [hashVal, hashPathsVal, terminated]
  | .timestamp _ _, key => by simp [hashVal, hashPathsVal, terminated]
  | .int64 _, key => by simp [hashVal, hashPathsVal, terminated]
theorem hashElems_spec : (d : BDoc) → ∀ key, (hashElems key d).1 = terminated (hashPathsElems key d)
  | .nil, key => by simp [hashElems, hashPathsElems, terminated]
  | .cons k v r, key => by
    simp only [hashElems, hashPathsElems]
    rw [hashVal_spec v, hashElems_spec r]
    simp [terminated]
theorem hashArr_spec : (d : BDoc) → ∀ key idx, (hashArr key idx d).1 = terminated (hashPathsArr key idx d)
  | .nil, key, idx => by simp [hashArr, hashPathsArr, terminated]
  | .cons _ v r, key, idx => by
    simp only [hashArr, hashPathsArr]
    rw [hashVal_spec v, hashArr_spec r]
    simp [terminated]
end

theorem split_at_nul : ∀ (a b x y : Bytes), 0 ∉ a → 0 ∉ b → a ++ 0 :: x = b ++ 0 :: y → a = b ∧ x = y := by
  intro a
  induction a with
  | nil =>
    intro b x y _ hb h
    cases b with
    | nil => simpa using h
    | cons c b' =>
      simp only [List.nil_append, List.cons_append, List.cons.injEq] at h
      exact absurd (by simp [← h.1]) hb
  | cons c a' ih =>
    intro b x y ha hb h
    cases b with
    | nil =>
      simp only [List.nil_append, List.cons_append, List.cons.injEq] at h
      exact absurd (by simp [h.1]) ha
    | cons c' b' =>
      simp only [List.cons_append, List.cons.injEq] at h
      obtain ⟨h1, h2⟩ := ih b' x y (by simp at ha; exact ha.2) (by simp at hb; exact hb.2) h.2
      exact ⟨by rw [h.1, h1], h2⟩

/-- NUL-terminated, NUL-free strings can be recovered from their concatenation -/
theorem terminated_inj : ∀ (l1 l2 : List Bytes), (∀ s ∈ l1, 0 ∉ s) → (∀ s ∈ l2, 0 ∉ s) →
    terminated l1 = terminated l2 → l1 = l2 := by
  intro l1
  induction l1 with
  | nil =>
    intro l2 _ _ h
    cases l2 with
    | nil => rfl
    | cons b r => simp [terminated] at h
  | cons a r ih =>
    intro l2 h1 h2 h
    cases l2 with
    | nil => simp [terminated] at h
    | cons b r' =>
      simp only [terminated, List.map_cons, List.flatten_cons, List.append_assoc, List.singleton_append] at h
      obtain ⟨hab, hrest⟩ := split_at_nul a b _ _ (h1 a (by simp)) (h2 b (by simp)) h
      rw [hab, ih r' (fun s hs => h1 s (by simp [hs])) (fun s hs => h2 s (by simp [hs])) hrest]

theorem digitsAux_ge (fuel n : Nat) (acc : List Nat) (h : ∀ b ∈ acc, 48 ≤ b) :
    ∀ b ∈ digitsAux fuel n acc, 48 ≤ b := by
  induction fuel generalizing n acc with
  | zero => simpa [digitsAux] using h
  | succ f ih =>
    unfold digitsAux
    split
    · intro b hb; simp only [List.mem_cons] at hb; rcases hb with rfl | hb
      · omega
      · exact h b hb
    · apply ih; intro b hb; simp only [List.mem_cons] at hb; rcases hb with rfl | hb
      · omega
      · exact h b hb

theorem decimal_nulfree (n : Nat) : 0 ∉ decimal n := by
  intro h
  have := digitsAux_ge (n + 1) n [] (by simp) 0 h
  omega

mutual
/-- every key of the document (at any depth) is a C string: no NUL byte -/
def NulFreeVal : BVal → Prop
  | .doc d => NulFree d
  | .arr d => NulFree d
  | _ => True
def NulFree : BDoc → Prop
  | .nil => True
  | .cons k v r => 0 ∉ k ∧ NulFreeVal v ∧ NulFree r
end

mutual
theorem hashPathsVal_nulfree : (v : BVal) → NulFreeVal v → ∀ key, 0 ∉ key → ∀ s ∈ hashPathsVal key v, 0 ∉ s
  | .doc d, h, key, hk => by simpa [hashPathsVal] using hashPathsElems_nulfree d h key hk
  | .arr d, h, key, hk => by simpa [hashPathsVal] using hashPathsArr_nulfree d h key hk 0
  | .other _ _, _, key, hk => by simp [hashPathsVal]
  | .double _, _, key, hk => by simpa [hashPathsVal] using hk
  | .bool _, _, key, hk => by simpa [hashPathsVal] using hk
  | .datetime _, _, key, hk => by simpa [hashPathsVal] using hk
  | .int32 _, _, key, hk => by simpa [hashPathsVal] using hk
  | .timestamp _ _, _, key, hk => by simpa [hashPathsVal] using hk
  | .int64 _, _, key, hk => by simpa [hashPathsVal] using hk
theorem hashPathsElems_nulfree : (d : BDoc) → NulFree d → ∀ key, 0 ∉ key → ∀ s ∈ hashPathsElems key d, 0 ∉ s
  | .nil, _, key, hk => by simp [hashPathsElems]
  | .cons k v r, h, key, hk => by
    intro s hs
    simp only [hashPathsElems, List.mem_append] at hs
    rcases hs with hs | hs
    · exact hashPathsVal_nulfree v h.2.1 _ (by simp [dot]; exact ⟨hk, h.1⟩) s hs
    · exact hashPathsElems_nulfree r h.2.2 key hk s hs
theorem hashPathsArr_nulfree : (d : BDoc) → NulFree d → ∀ key, 0 ∉ key → ∀ idx, ∀ s ∈ hashPathsArr key idx d, 0 ∉ s
  | .nil, _, key, hk, idx => by simp [hashPathsArr]
  | .cons k v r, h, key, hk, idx => by
    intro s hs
    simp only [hashPathsArr, List.mem_append] at hs
    rcases hs with hs | hs
    · exact hashPathsVal_nulfree v h.2.1 _ (by simp [dot]; exact ⟨hk, decimal_nulfree idx⟩) s hs
    · exact hashPathsArr_nulfree r h.2.2 key hk (idx + 1) s hs
end


end Ftdc
