import FtdcVerif.Model.Pipeline
/-! Inductive invariant of the reader pipeline (C05) and its termination after cancellation (C06). -/
namespace Ftdc.Pipeline

def slotFail (s : St) : Bool :=
  (match s.dpc with | .sending x => x != .good | _ => false) ||
  (match s.cpc with | .decode x => x != .good | _ => false)

def cEnded (s : St) : Bool := s.cpc = .adding || s.cpc = .closing || s.cpc = .done
def dEnded (s : St) : Bool := s.dpc = .adding || s.dpc = .closing || s.dpc = .done

/-- the inductive invariant of the repaired pipeline (`F` = the input fails somewhere) -/
structure Inv (F : Bool) (s : St) : Prop where
  af : s.addFirst = true
  pipeClosed_done : s.pipeClosed = true → s.cpc = .done
  c_registered : (s.cpc = .closing ∨ s.cpc = .done) → s.cFailed = true → s.cErrIn = true
  c_clean_end : cEnded s = true → s.cFailed = false → s.cancelled = false → s.ipcClosed = true
  ipc_done : s.ipcClosed = true → s.dpc = .done
  d_done_closed : s.dpc = .done → s.ipcClosed = true
  c_done_closed : s.cpc = .done → s.pipeClosed = true
  d_in_failed : s.dErrIn = true → s.dFailed = true
  c_in_failed : s.cErrIn = true → s.cFailed = true
  d_registered : (s.dpc = .closing ∨ s.dpc = .done) → s.dFailed = true → s.dErrIn = true
  d_clean_end : dEnded s = true → s.dFailed = false → s.cancelled = false → s.items = []
  c_failed_ended : s.cFailed = true → cEnded s = true
  d_failed_ended : s.dFailed = true → dEnded s = true
  conserved : F = true → s.cancelled = false →
    (s.cFailed || s.dFailed || slotFail s || Fails s.items) = true
  seen : s.sawFalse = true → F = true → s.cancelled = false → s.errSeen = true

theorem init_inv (items : List Item) : Inv (Fails items) (init true items) := by
  constructor <;> simp [init, cEnded, dEnded, slotFail]

theorem step_inv_cancel (F : Bool) (s s' : St) (h : Inv F s) (hs : step s .cancel = some s') : Inv F s' := by
  obtain ⟨af, i1, i2, i3, i4, i4b, i4e, i4c, i4d, i5, i6, i7, i8, i9, i10⟩ := h

  simp only [step] at hs
  split at hs
  · cases hs
  · injection hs with hs; subst hs
    constructor <;> simp_all [cEnded, dEnded, slotFail]


theorem step_inv_d (F : Bool) (s s' : St) (h : Inv F s) (hs : step s .d = some s') : Inv F s' := by
  obtain ⟨af, i1, i2, i3, i4, i4b, i4e, i4c, i4d, i5, i6, i7, i8, i9, i10⟩ := h

  simp only [step, af, ite_true] at hs
  cases hd : s.dpc with
  | read =>
    simp only [hd] at hs
    cases hi : s.items with
    | nil =>
      simp only [hi, Option.some.injEq] at hs; subst hs
      constructor <;> simp_all [cEnded, dEnded, slotFail, Fails]
    | cons x rest =>
      cases x
      all_goals (simp only [hi, Option.some.injEq] at hs)
      all_goals (subst hs)
      all_goals (constructor <;> simp_all [cEnded, dEnded, slotFail, Fails])
  | sending x =>
    simp only [hd] at hs
    split at hs
    · injection hs with hs; subst hs
      constructor <;> simp_all [cEnded, dEnded, slotFail, Fails]
    · split at hs
      · injection hs with hs; subst hs
        constructor <;> simp_all [cEnded, dEnded, slotFail, Fails]
      · cases hs
  | adding =>
    simp only [hd, Option.some.injEq] at hs; subst hs
    constructor <;> simp_all [cEnded, dEnded, slotFail, Fails]
  | closing =>
    simp only [hd, Option.some.injEq] at hs; subst hs
    constructor <;> simp_all [cEnded, dEnded, slotFail, Fails]
  | done => simp [hd] at hs


theorem step_inv_c (F : Bool) (s s' : St) (h : Inv F s) (hs : step s .c = some s') : Inv F s' := by
  obtain ⟨af, i1, i2, i3, i4, i4b, i4e, i4c, i4d, i5, i6, i7, i8, i9, i10⟩ := h

  simp only [step, af, ite_true] at hs
  cases hc : s.cpc with
  | recv =>
    simp only [hc] at hs
    split at hs
    · injection hs with hs; subst hs
      constructor <;> simp_all [cEnded, dEnded, slotFail, Fails]
    · cases hs
  | decode x =>
    cases x
    all_goals (simp only [hc, Option.some.injEq] at hs)
    all_goals (subst hs)
    all_goals (constructor <;> simp_all [cEnded, dEnded, slotFail, Fails])
  | send =>
    simp only [hc] at hs
    split at hs
    · injection hs with hs; subst hs
      constructor <;> simp_all [cEnded, dEnded, slotFail, Fails]
    · split at hs
      · injection hs with hs; subst hs
        constructor <;> simp_all [cEnded, dEnded, slotFail, Fails]
      · cases hs
  | adding =>
    simp only [hc, Option.some.injEq] at hs; subst hs
    constructor <;> simp_all [cEnded, dEnded, slotFail, Fails]
  | closing =>
    simp only [hc, Option.some.injEq] at hs; subst hs
    constructor <;> simp_all [cEnded, dEnded, slotFail, Fails]
  | done => simp [hc] at hs


theorem step_inv_u (F : Bool) (s s' : St) (h : Inv F s) (hs : step s .u = some s') : Inv F s' := by
  obtain ⟨af, i1, i2, i3, i4, i4b, i4e, i4c, i4d, i5, i6, i7, i8, i9, i10⟩ := h

  simp only [step] at hs
  cases hu : s.upc with
  | next =>
    simp only [hu] at hs
    split at hs
    · injection hs with hs; subst hs
      constructor <;> simp_all [cEnded, dEnded, slotFail, Fails]
    · split at hs
      · rename_i hp0 hclosed
        injection hs with hs; subst hs
        have hdone := i1 hclosed
        constructor
        case seen =>
          intro _ hF hnc
          simp only []
          by_cases hcf : s.cFailed = true
          · simp [i2 (Or.inr hdone) hcf]
          · have hcf' : s.cFailed = false := by simpa using hcf
            have hipc := i3 (by simp [cEnded, hdone]) hcf' hnc
            have hdd := i4 hipc
            by_cases hdf : s.dFailed = true
            · simp [i5 (Or.inr hdd) hdf]
            · have hdf' : s.dFailed = false := by simpa using hdf
              have hitems := i6 (by simp [dEnded, hdd]) hdf' hnc
              have := i9 hF hnc
              simp [hcf', hdf', slotFail, hdd, hdone, hitems, Fails] at this
        all_goals simp_all [cEnded, dEnded, slotFail, Fails]
      · cases hs
  | done => simp [hu] at hs




theorem step_inv (F : Bool) (s s' : St) (p : Pid) (h : Inv F s) (hs : step s p = some s') : Inv F s' := by
  cases p with
  | cancel => exact step_inv_cancel F s s' h hs
  | d => exact step_inv_d F s s' h hs
  | c => exact step_inv_c F s s' h hs
  | u => exact step_inv_u F s s' h hs

theorem run_inv (F : Bool) (sched : List Pid) : ∀ (s : St), Inv F s → Inv F (run s sched) := by
  induction sched with
  | nil => intro s h; exact h
  | cons p ps ih =>
    intro s h
    simp only [run, List.foldl_cons]
    cases hs : step s p with
    | none => simpa [run] using ih s h
    | some s' => simpa [run] using ih s' (step_inv F s s' p h hs)

/-! ### after cancellation the producers terminate -/

/-- potential: work left for D and C -/
def dPot (s : St) : Nat :=
  match s.dpc with
  | .read => 6 * s.items.length + 3
  | .sending _ => 6 * s.items.length + 8
  | .adding => 2
  | .closing => 1
  | .done => 0

def cPot (s : St) : Nat :=
  match s.cpc with
  | .recv => 3
  | .decode _ => 7
  | .send => 6
  | .adding => 2
  | .closing => 1
  | .done => 0

def pot (s : St) : Nat := dPot s + cPot s

theorem producers_progress (s s' : St) (p : Pid) (haf : s.addFirst = true) (hp : p = .d ∨ p = .c)
    (hs : step s p = some s') : pot s' < pot s := by
  rcases hp with rfl | rfl
  · simp only [step, haf, ite_true] at hs
    cases hd : s.dpc with
    | read =>
      simp only [hd] at hs
      cases hi : s.items with
      | nil => simp only [hi, Option.some.injEq] at hs; subst hs; simp [pot, dPot, cPot, hd, hi]
      | cons x rest =>
        cases x
        all_goals (simp only [hi, Option.some.injEq] at hs)
        all_goals (subst hs)
        all_goals (simp [pot, dPot, cPot, hd, hi]; try omega)
    | sending x =>
      simp only [hd] at hs
      split at hs
      · rename_i hc; injection hs with hs; subst hs; simp [pot, dPot, cPot, hd, hc]
      · split at hs
        · injection hs with hs; subst hs; simp [pot, dPot, cPot, hd]
        · cases hs
    | adding => simp only [hd, Option.some.injEq] at hs; subst hs; simp [pot, dPot, cPot, hd]
    | closing => simp only [hd, Option.some.injEq] at hs; subst hs; simp [pot, dPot, cPot, hd]
    | done => simp [hd] at hs
  · simp only [step, haf, ite_true] at hs
    cases hc : s.cpc with
    | recv =>
      simp only [hc] at hs
      split at hs
      · injection hs with hs; subst hs; simp [pot, dPot, cPot, hc]
      · cases hs
    | decode x =>
      cases x
      all_goals (simp only [hc, Option.some.injEq] at hs)
      all_goals (subst hs)
      all_goals (simp [pot, dPot, cPot, hc])
    | send =>
      simp only [hc] at hs
      split at hs
      · injection hs with hs; subst hs; simp [pot, dPot, cPot, hc]
      · split at hs
        · injection hs with hs; subst hs; simp [pot, dPot, cPot, hc]
        · cases hs
    | adding => simp only [hc, Option.some.injEq] at hs; subst hs; simp [pot, dPot, cPot, hc]
    | closing => simp only [hc, Option.some.injEq] at hs; subst hs; simp [pot, dPot, cPot, hc]
    | done => simp [hc] at hs

/-- after cancellation some producer can always move until both are done: nobody is blocked forever -/
theorem cancelled_no_deadlock (F : Bool) (s : St) (h : Inv F s) (hc : s.cancelled = true)
    (hlive : s.dpc ≠ .done ∨ s.cpc ≠ .done) : (step s .d).isSome ∨ (step s .c).isSome := by
  have af := h.af
  by_cases hd : s.dpc = .done
  · -- D is done: ipc is closed, so C is never blocked
    right
    have hcl : s.ipcClosed = true := h.d_done_closed hd
    have hcn : s.cpc ≠ .done := by
      rcases hlive with h1 | h1
      · exact absurd hd h1
      · exact h1
    simp only [step, af, ite_true]
    cases hcp : s.cpc with
    | recv => simp [hcl]
    | decode x => cases x <;> simp
    | send => simp only [hc, ite_true]; split <;> simp
    | adding => simp
    | closing => simp
    | done => exact absurd hcp hcn
  · left
    simp only [step, af, ite_true]
    cases hdp : s.dpc with
    | read => cases s.items with
      | nil => simp
      | cons x r => cases x <;> simp
    | sending x => simp only [hc, ite_true]; split <;> simp
    | adding => simp
    | closing => simp
    | done => exact absurd hdp hd

/-- the catcher only grows: an error that is in stays in -/
theorem flags_monotone (F : Bool) (s s' : St) (p : Pid) (h : Inv F s) (hs : step s p = some s') :
    (s.dErrIn = true → s'.dErrIn = true) ∧ (s.cErrIn = true → s'.cErrIn = true) := by
  have af := h.af
  have hd := h.d_in_failed
  have hc := h.c_in_failed
  cases p with
  | cancel =>
    simp only [step] at hs
    split at hs
    · cases hs
    · injection hs with hs; subst hs; simp
  | u =>
    simp only [step] at hs
    cases hu : s.upc with
    | next =>
      simp only [hu] at hs
      split at hs
      · injection hs with hs; subst hs; simp
      · split at hs
        · injection hs with hs; subst hs; simp
        · cases hs
    | done => simp [hu] at hs
  | d =>
    simp only [step, af, ite_true] at hs
    cases hdp : s.dpc with
    | read =>
      simp only [hdp] at hs
      cases hi : s.items with
      | nil => simp only [hi, Option.some.injEq] at hs; subst hs; simp
      | cons x r =>
        cases x
        all_goals (simp only [hi, Option.some.injEq] at hs)
        all_goals (subst hs)
        all_goals simp
    | sending x =>
      simp only [hdp] at hs
      split at hs
      · injection hs with hs; subst hs; simp
      · split at hs
        · injection hs with hs; subst hs; simp
        · cases hs
    | adding => simp only [hdp, Option.some.injEq] at hs; subst hs; exact ⟨hd, by simp⟩
    | closing => simp only [hdp, Option.some.injEq] at hs; subst hs; simp
    | done => simp [hdp] at hs
  | c =>
    simp only [step, af, ite_true] at hs
    cases hcp : s.cpc with
    | recv =>
      simp only [hcp] at hs
      split at hs
      · injection hs with hs; subst hs; simp
      · cases hs
    | decode x =>
      cases x
      all_goals (simp only [hcp, Option.some.injEq] at hs)
      all_goals (subst hs)
      all_goals simp
    | send =>
      simp only [hcp] at hs
      split at hs
      · injection hs with hs; subst hs; simp
      · split at hs
        · injection hs with hs; subst hs; simp
        · cases hs
    | adding => simp only [hcp, Option.some.injEq] at hs; subst hs; exact ⟨by simp, hc⟩
    | closing => simp only [hcp, Option.some.injEq] at hs; subst hs; simp
    | done => simp [hcp] at hs

end Ftdc.Pipeline
