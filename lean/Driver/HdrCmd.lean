import FtdcVerif.Model.Hdr
import Driver.Util
namespace Driver
open Ftdc.Hdr

def sparse (cs : List Int) : String :=
  let rec go (i : Nat) : List Int → List String
    | [] => []
    | c :: rest => if c ≠ 0 then s!"{i}:{c}" :: go (i+1) rest else go (i+1) rest
  joinSp (go 0 cs)

def histLine (h : Hist) : String :=
  s!"cfg={h.countsLen} total={h.total} counts=[{sparse h.counts}]"

def mkHist? (ws : List String) : Option Hist :=
  match ws with
  | [a, b, c] => do
    let mn ← a.toInt?; let mx ← b.toNat?; let s ← c.toNat?
    if s < 1 ∨ 5 < s then none else some (new mn mx s)
  | _ => none

def mkCfg? (ws : List String) : Option Hist :=
  match ws with
  | [a, b, c] => do
    let mn ← a.toInt?; let mx ← b.toNat?; let s ← c.toNat?
    if s < 1 ∨ 5 < s then none else some (mkCfg mn mx s)
  | _ => none

def hdrRec (ws : List String) : String :=
  match ws with
  | [a, b, c, d] =>
    match mkCfg? [a, b, c], d.toInt? with
    | some h, some v =>
      let r := match recordValue h v with
        | some h' => s!"ok idx={countsIndexFor h v.toNat} total={h'.total}"
        | none => "err"
      if v < 0 ∨ (recordValue h v).isNone then s!"len={h.countsLen} {r}" else
      let n := v.toNat
      s!"len={h.countsLen} {r} lo={lowestEquiv h n} hi={highestEquiv h n} size={sizeOfRange h n}"
    | _, _ => "bad-op"
  | _ => "bad-op"

def hdrProbe (ws : List String) : String :=
  match ws with
  | [a, b, c, d] =>
    match mkCfg? [a, b, c], d.toInt? with
    | some h, some v =>
      if v < 0 ∨ (recordValue h v).isNone then s!"len={h.countsLen} err" else
      let n := v.toNat
      s!"len={h.countsLen} ok idx={countsIndexFor h n} lo={lowestEquiv h n} hi={highestEquiv h n} size={sizeOfRange h n}"
    | _, _ => "bad-op"
  | _ => "bad-op"

def statLine (h : Hist) (ranks : List Int) : String :=
  let d := distribution h
  let dsum := d.foldl (fun t b => t + b.count) 0
  let dstr := joinSp (d.filter (·.count ≠ 0) |>.map fun b => s!"{b.fromV}-{b.toV}:{b.count}")
  s!"total={h.total} min={minV h} max={maxV h} meannum={meanNum h} q=[{joinSp (ranks.map fun r => toString (valueAtRank h r))}] bars={d.length} barsum={dsum} dist=[{dstr}]"

def hdrStat (ws : List String) : String :=
  match sections ws with
  | [cfg, vals, ranks] =>
    match mkHist? cfg, ints? vals, ints? ranks with
    | some h, some vs, some rs =>
      let h := recordAll h vs
      statLine h rs
    | _, _, _ => "bad-op"
  | _ => "bad-op"

def hdrMerge (ws : List String) : String :=
  match sections ws with
  | [cfgA, valsA, cfgB, valsB] =>
    match mkHist? cfgA, ints? valsA, mkHist? cfgB, ints? valsB with
    | some a, some va, some b, some vb =>
      let a := recordAll a va
      let b := recordAll b vb
      let (m, dropped) := merge a b
      s!"dropped={dropped} {histLine m}"
    | _, _, _, _ => "bad-op"
  | _ => "bad-op"

/-- window ops: `r<v>` record into current, `rot` rotate; finally merge -/
def hdrWindow (ws : List String) : String :=
  match sections ws with
  | [nw, cfg, ops] =>
    match nw, mkHist? cfg with
    | [ns], some h0 =>
      match ns.toNat? with
      | some n =>
        if n = 0 then "bad-op" else
        let step := fun (st : Option Win) (op : String) =>
          match st with
          | none => none
          | some w =>
            if op == "rot" then some w.rotate
            else if op == "mrg" then some w     -- an intermediate Merge only reads
            else match (op.drop 1).toInt? with
              | some v => some (w.record v)
              | none => none
        match ops.foldl step (some (Win.new n h0)) with
        | some w =>
          let (m, dropped) := w.merge
          s!"dropped={dropped} {histLine m}"
        | none => "bad-op"
      | none => "bad-op"
    | _, _ => "bad-op"
  | _ => "bad-op"

/-- `hdr-ops cfg | ops`: `c<v>:<ei>` RecordCorrectedValue, `n<v>:<k>` RecordValues(v, k), `r<v>` RecordValue, `z` Reset;
the result of every op (`o`/`e`) and the final histogram -/
def hdrOps (ws : List String) : String :=
  match sections ws with
  | [cfg, ops] =>
    match mkHist? cfg with
    | none => "bad-op"
    | some h0 =>
      let two := fun (s : String) => match s.splitOn ":" with
        | [a, b] => (a.toInt?, b.toInt?)
        | _ => (none, none)
      let step := fun (st : Option (Hist × List String)) (op : String) =>
        match st with
        | none => none
        | some (h, rs) =>
          match op.toList.head? with
          | some 'z' => some (reset h, rs ++ ["z"])
          | some 'r' => match (op.drop 1).toInt? with
            | some v => match recordValue h v with
              | some h' => some (h', rs ++ ["o"])
              | none => some (h, rs ++ ["e"])
            | none => none
          | some 'n' => match two (op.drop 1).toString with
            | (some v, some k) => match recordValues h v k with
              | some h' => some (h', rs ++ ["o"])
              | none => some (h, rs ++ ["e"])
            | _ => none
          | some 'c' => match two (op.drop 1).toString with
            | (some v, some ei) => let r := recordCorrected h v ei; some (r.1, rs ++ [if r.2 then "o" else "e"])
            | _ => none
          | _ => none
      match ops.foldl step (some (h0, [])) with
      | some (h, rs) => s!"{joinSp rs} {histLine h}"
      | none => "bad-op"
  | _ => "bad-op"

def hdrImport (ws : List String) : String :=
  match sections ws with
  | [cfg, vals] =>
    match mkHist? cfg, ints? vals with
    | some h, some vs =>
      let h := recordAll h vs
      let h' := import_ (export_ h)
      s!"equal={decide (h' = h)} {histLine h'}"
    | _, _ => "bad-op"
  | _ => "bad-op"

end Driver
