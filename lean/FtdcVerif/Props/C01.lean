import FtdcVerif.Lemmas.Codec
import FtdcVerif.Lemmas.EndToEnd
import FtdcVerif.Lemmas.StreamE2E
/-!
# C01 — structured round trip is lossless

Layers, each for all inputs: unsigned varints, zero-run stream, wrapping deltas, leaf
normalisation (bit-exact), document restoration from extracted values, the BSON parser on the
serialiser's output — and their composition `chunk_roundtrip`: the payload a collector writes
for any sequence of documents of one schema decodes to exactly their projections.  The timestamp clause
of the property is FALSE of the code as it is (known finding F1: an existing unit test pins the
scaled starting value, so it cannot be repaired without editing the suite); the negation is
proved below with the concrete witness that is replayed on the implementation.
-/
namespace Ftdc.Props.C01
open Ftdc

/-- `binary.ReadUvarint` inverts `binary.PutUvarint` for every uint64, whatever follows. -/
theorem varint_roundtrip (x : Nat) (hx : x < 2 ^ 64) (rest : Bytes) :
    readUvarint (putUvarint x ++ rest) = some (x, rest) :=
  readUvarint_putUvarint x hx rest

/-- Wrap-around included: undoing the deltas of any int64 sequence gives the sequence back
(int64 extremes whose deltas overflow are ordinary instances). -/
theorem deltas_roundtrip (v : I64) (xs : List I64) : undelta v (deltas v xs) = v :: xs :=
  undelta_deltas v xs

/-- The zero-run/varint stream written by `getPayload` decodes to exactly the deltas it encodes,
for every delta list (all zero-run placements, runs crossing metric boundaries), any trailing
bytes. -/
theorem delta_stream_roundtrip (ds : List I64) (rest : Bytes) (h : ds.length < 2 ^ 64) :
    rleDecAux ds.length 0 (rleEnc ds ++ rest) = some (ds, 0, rest) := by
  have := rle_roundtrip ds 0 rest (by simpa using h)
  simpa [rleEnc] using this

/-- Reading the stream metric by metric is reading it in one go (the zero-run carry survives
metric boundaries). -/
theorem delta_stream_split (a b nz : Nat) (bs : Bytes) :
    rleDecAux (a + b) nz bs =
      (rleDecAux a nz bs).bind fun x =>
        (rleDecAux b x.2.1 x.2.2).map fun y => (x.1 ++ y.1, y.2.1, y.2.2) :=
  rleDecAux_append a b nz bs

/-! bit-exact leaves -/
theorem bool_exact (b : Bool) : ((if b then 1#64 else 0#64) != 0#64) = b := bool_restore b
theorem int32_exact (v : BitVec 32) : (signExt32 v).truncate 32 = v := signExt_truncate v
theorem timestamp_word_exact (v : BitVec 32) : (v.zeroExtend 64).truncate 32 = v := zeroExt_truncate v
/-- UTC datetimes within the range Go can express in nanoseconds are normalised to themselves -/
theorem datetime_exact (ms : I64) (h : InNanoRange ms) : restoreDT (normDT ms) = ms := by
  simp [restoreDT, normDT_inRange ms h]

/-- Restoring a document from its own extracted metric values yields the document with the
non-metric leaves removed: same keys, nesting, array positions (re-indexed), BSON types and
bit-identical values — for every document tree (all 20 element types, any depth). -/
theorem restore_is_project (d : BDoc) (h : DatesOk d) : restoreDoc d (vals d) = project d :=
  restore_extract d h

/-- Documents with no metrics at all restore to their (empty-container) skeleton. -/
theorem no_metrics_restore (d : BDoc) (h : DatesOk d) (hn : vals d = []) :
    restoreDoc d [] = project d := by
  rw [← hn]; exact restore_extract d h

/-! ### known finding F1: the timestamp clause fails -/

/-- the full leaf-level claim of the property for timestamps -/
def timestamp_clause : Prop :=
  ∀ (t i : BitVec 32) (key : Bytes),
    (metricsVal key [] (.timestamp t i)).map (·.start) = (extractVal (.timestamp t i)).map (·.1)

/-- It is false of the code: the decoder's starting value of the seconds is scaled by 1000,
so `{ts: Timestamp(5,7)}` reads back as `Timestamp(5000,7)`. -/
theorem timestamp_clause_false : ¬ timestamp_clause := by
  intro h
  have := h 5#32 7#32 []
  revert this
  decide

/-- ... while for every other metric leaf the decoder's starting value is the encoder's value -/
theorem start_is_value_partial (key : Bytes) (v : BVal) (hts : ∀ t i, v ≠ .timestamp t i)
    (hd : ∀ d, v ≠ .doc d) (ha : ∀ d, v ≠ .arr d) :
    (metricsVal key [] v).map (·.start) = (extractVal v).map (·.1) := by
  cases v with
  | timestamp t i => exact absurd rfl (hts t i)
  | doc d => exact absurd rfl (hd d)
  | arr d => exact absurd rfl (ha d)
  | _ => simp [metricsVal, extractVal]

/-! ### the composition -/

/-- the strict BSON parser (twin of `validateDocument`) reads back what is written -/
theorem wire_document_roundtrip (d : BDoc) (hw : WFDoc d) (hl : (serDoc d).length < 2 ^ 31) :
    parseDoc (serDoc d) = some d := parseDoc_serDoc d hw hl

/-- a document of the reference document's schema (same keys, nesting, element types; any values,
non-metric leaves included) is restored from ITS OWN values, not the reference's -/
theorem restore_other_document (ref d : BDoc) (h : SimDoc ref d) (hd : DatesOk d) :
    restoreDoc ref (vals d) = project d := restoreDoc_sim ref d h hd

/-- **End to end, for one chunk.**  For every document `d0` and every list `ds` of documents of
`d0`'s schema (any tree of sub-documents and arrays, every leaf type, any values incl. int64
extremes whose deltas wrap, any number of samples incl. none): the payload `getPayload` writes —
reference document, counts, metric-major zero-run/varint delta stream — is decoded by the reader
into a chunk whose structured documents are exactly `d0 :: ds` with the non-metric leaves
removed, in order.  Hypotheses: the reference document is well-formed BSON below 2^31 bytes, datetimes
are within the nanosecond range (the property's own domain), the counts fit their 32-bit fields,
and there is no timestamp leaf (known finding F1, `timestamp_clause_false`). -/
theorem chunk_roundtrip (d0 : BDoc) (ds : List BDoc)
    (hw : WFDoc d0) (hl : (serDoc d0).length < 2 ^ 31) (hts : NoTs d0)
    (hsim : ∀ d ∈ ds, SimDoc d0 d) (hd0 : DatesOk d0) (hds : ∀ d ∈ ds, DatesOk d)
    (hnm : (vals d0).length < 2 ^ 32) (hn : ds.length < 2 ^ 32)
    (hsz : (vals d0).length * ds.length < 2 ^ 64) :
    ∃ c, decodePayload (payloadOf d0 (vals d0) (ds.map vals)) = .ok c ∧
      c.structured = (d0 :: ds).map project := by
  obtain ⟨c, hc, href, hrows⟩ := decode_payload d0 (ds.map vals) hw hl hts
    (by intro r hr
        obtain ⟨d, hd, rfl⟩ := List.mem_map.1 hr
        exact (simDoc_length d0 d (hsim d hd)).symm)
    hnm (by simpa using hn) (by simpa using hsz)
  refine ⟨c, hc, ?_⟩
  simp only [Chunk.structured, hrows, href, List.map_cons, List.map_map]
  congr 1
  · exact restore_extract d0 hd0
  · apply List.map_congr_left
    intro d hd
    exact restoreDoc_sim d0 d (hsim d hd) (hds d hd)

/-- **End to end, for the base collector.**  Add `d0` and then any documents `ds` of its schema
(at most the chunk capacity) to a fresh collector: every Add is accepted, `Resolve` produces one
metric chunk, and decoding that chunk's payload yields exactly `d0 :: ds` with the non-metric
leaves removed, in order. -/
theorem base_collector_roundtrip (n : Nat) (d0 : BDoc) (ds : List BDoc) (hroom : ds.length ≤ n)
    (hw : WFDoc d0) (hl : (serDoc d0).length < 2 ^ 31) (hts : NoTs d0)
    (hsim : ∀ d ∈ ds, SimDoc d0 d) (hd0 : DatesOk d0) (hds : ∀ d ∈ ds, DatesOk d)
    (hnm : (vals d0).length < 2 ^ 32) (hn : ds.length < 2 ^ 32)
    (hsz : (vals d0).length * ds.length < 2 ^ 64) :
    ∃ out c, (ds.foldl (fun (c : Better) d => (c.add d).1) (({ maxDeltas := n } : Better).add d0).1).resolve
        = some [out] ∧
      decodePayload out.payload = .ok c ∧ c.structured = (d0 :: ds).map project := by
  obtain ⟨h1, h2, h3, h4, _, h6, _⟩ := better_adds n d0 ds hroom hsim
  obtain ⟨c, hc, hstr⟩ := chunk_roundtrip d0 ds hw hl hts hsim hd0 hds hnm hn hsz
  refine ⟨.chunk (tsDoc d0) d0 (vals d0) (ds.map vals), c, ?_, hc, hstr⟩
  simp only [Better.resolve, h1, h4, h2, h3, h6]

/-- documents the byte-level theorems apply to -/
def Good (d : BDoc) : Prop :=
  WFDoc d ∧ (serDoc d).length < 2 ^ 31 ∧ NoTs d ∧ DatesOk d ∧ (vals d).length < 2 ^ 32

/-- **End to end, for the streaming collector, every chunk size, every number of documents.**
Add `d0` and then any documents `ds` of its schema to a fresh streaming collector with chunk size `n`:
what it has handed to its writer is a sequence of metric chunks, one per run `(head, tail)` of
consecutive documents; the pending chunk is one more such run; the runs concatenated are exactly
`d0 :: ds`; and the reader decodes every one of these chunks to exactly its documents with the
non-metric leaves removed, in order. -/
theorem streaming_collector_roundtrip (n : Nat) (h1 : 1 ≤ n) (hn : n < 2 ^ 32) (d0 : BDoc) (ds : List BDoc)
    (hsim : ∀ d ∈ ds, SimDoc d0 d) (hgood : ∀ d ∈ d0 :: ds, Good d) :
    ∃ (chs : List (BDoc × List BDoc)) (cur : Option (BDoc × List BDoc)),
      let c := (d0 :: ds).foldl (fun (c : Streaming) d => (c.add d).1) (Streaming.new n)
      logDocs c.out = chs.map mkChunk ∧
      (∀ p, cur = some p → c.inner.resolve = some [mkChunk p]) ∧
      allDocs chs cur = d0 :: ds ∧
      ∀ p, (p ∈ chs ∨ cur = some p) →
        ∃ ch, decodePayload (mkChunk p).payload = .ok ch ∧ ch.structured = (chunkDocs p).map project := by
  obtain ⟨chs, cur, g, hall⟩ := sg_run n h1 d0 ds hsim
  refine ⟨chs, cur, g.logged, ?_, hall, ?_⟩
  · intro p hp
    have := g.pend
    rw [hp] at this
    obtain ⟨⟨a1, a2, a3, a4, _, a6, _⟩, _, _⟩ := this
    simp only [Better.resolve, a1, a4, mkChunk, a6, a2, a3]
  · intro p hp
    -- every document of the chunk is one of `d0 :: ds`
    have hmem : ∀ x ∈ chunkDocs p, x ∈ d0 :: ds := by
      intro x hx
      rw [← hall]
      rcases hp with hp | hp
      · simp only [allDocs, List.mem_append, List.mem_flatten, List.mem_map]
        exact Or.inl ⟨chunkDocs p, ⟨p, hp, rfl⟩, hx⟩
      · simp only [allDocs, hp, List.mem_append]
        exact Or.inr hx
    have hsize : p.2.length + 1 ≤ n := by
      rcases hp with hp | hp
      · exact g.small p hp
      · have := g.pend; rw [hp] at this; exact this.2.2
    have simTo : ∀ x ∈ d0 :: ds, SimDoc d0 x := by
      intro x hx
      rcases List.mem_cons.1 hx with rfl | hx
      · exact simDoc_refl _
      · exact hsim x hx
    have hhead : p.1 ∈ d0 :: ds := hmem p.1 (by simp [chunkDocs])
    obtain ⟨gw, gl, gts, gd, gnm⟩ := hgood p.1 hhead
    have hsimp : ∀ x ∈ p.2, SimDoc p.1 x := by
      intro x hx
      have hx' := hmem x (by simp [chunkDocs, hx])
      exact simDoc_trans _ _ _ (simDoc_symm _ _ (simTo p.1 hhead)) (simTo x hx')
    obtain ⟨ch, hc, hstr⟩ := chunk_roundtrip p.1 p.2 gw gl gts hsimp gd
      (by intro x hx; exact (hgood x (hmem x (by simp [chunkDocs, hx]))).2.2.2.1)
      gnm (by omega)
      (by
        have a : p.2.length < 2 ^ 32 := by omega
        have := Nat.mul_lt_mul'' gnm a
        have e : (2 : Nat) ^ 32 * 2 ^ 32 = 2 ^ 64 := by decide
        omega)
    exact ⟨ch, hc, hstr⟩

/-! non-vacuity: `{a: 5, s: "x", n: {b: <double>}}` followed by two more samples of that schema
(the string leaf differs, which is allowed) meets every hypothesis of `chunk_roundtrip` -/
example : ∃ c, decodePayload (payloadOf
      (.cons [97] (.int64 5#64) (.cons [115] (.other 2 (le32 2 ++ [120] ++ [0]))
        (.cons [110] (.doc (.cons [98] (.double 7#64) .nil)) .nil)))
      (vals (.cons [97] (.int64 5#64) (.cons [115] (.other 2 (le32 2 ++ [120] ++ [0]))
        (.cons [110] (.doc (.cons [98] (.double 7#64) .nil)) .nil))))
      ([ .cons [97] (.int64 18446744073709551615#64) (.cons [115] (.other 2 (le32 2 ++ [121] ++ [0]))
          (.cons [110] (.doc (.cons [98] (.double 0#64) .nil)) .nil)),
         .cons [97] (.int64 9223372036854775807#64) (.cons [115] (.other 2 (le32 2 ++ [120] ++ [0]))
          (.cons [110] (.doc (.cons [98] (.double 7#64) .nil)) .nil)) ].map vals)) = .ok c ∧
    c.structured.length = 3 := by
  have hstr : ∀ b : Nat, OtherOk 2 (le32 2 ++ [b] ++ [0]) := fun b =>
    otherOk_string 2 (Or.inl rfl) [b] (by simp)
  obtain ⟨c, h1, h2⟩ := chunk_roundtrip
    (.cons [97] (.int64 5#64) (.cons [115] (.other 2 (le32 2 ++ [120] ++ [0]))
      (.cons [110] (.doc (.cons [98] (.double 7#64) .nil)) .nil)))
    [ .cons [97] (.int64 18446744073709551615#64) (.cons [115] (.other 2 (le32 2 ++ [121] ++ [0]))
        (.cons [110] (.doc (.cons [98] (.double 0#64) .nil)) .nil)),
      .cons [97] (.int64 9223372036854775807#64) (.cons [115] (.other 2 (le32 2 ++ [120] ++ [0]))
        (.cons [110] (.doc (.cons [98] (.double 7#64) .nil)) .nil)) ]
    (by
      refine ⟨by intro b hb; simp at hb; omega, trivial, by intro b hb; simp at hb; omega, hstr 120,
        by intro b hb; simp at hb; omega, ⟨⟨by intro b hb; simp at hb; omega, trivial, trivial⟩,
          by simp [serDoc_length, serElems, serVal, le64, leN, BVal.tag]⟩, trivial⟩)
    (by simp [serDoc_length, serElems, serVal, le32, le64, leN, BVal.tag])
    (by simp [NoTs, NoTsVal])
    (by intro d hd; simp at hd; rcases hd with rfl | rfl <;> simp [SimDoc, SimVal])
    (by simp [DatesOk, DatesOkVal])
    (by intro d hd; simp at hd; rcases hd with rfl | rfl <;> simp [DatesOk, DatesOkVal])
    (by decide) (by decide) (by decide)
  exact ⟨c, h1, by rw [h2]; rfl⟩

example : DatesOk (.cons [100] (.datetime 1600000000000#64) (.cons [101] (.doc (.cons [102] (.int64 5#64) .nil)) .nil)) := by
  refine ⟨?_, ⟨trivial, trivial⟩, trivial⟩
  show InNanoRange _
  unfold InNanoRange; decide

end Ftdc.Props.C01
