import FtdcVerif.Model.Csv
/-! Helper lemmas for CSV (C18): decimal rendering and parsing are inverse. -/
namespace Ftdc

def IsDigit (d : Nat) : Prop := 48 ≤ d ∧ d ≤ 57

theorem parseDigits_append (a b : Bytes) (acc : Nat) (ha : ∀ d ∈ a, IsDigit d) :
    parseDigits (a ++ b) acc = parseDigits b (a.foldl (fun x d => x * 10 + (d - 48)) acc) := by
  induction a generalizing acc with
  | nil => rfl
  | cons d r ih =>
    have hd : 48 ≤ d ∧ d ≤ 57 := ha d (by simp)
    simp only [List.cons_append, parseDigits, hd, and_self, ite_true, List.foldl_cons]
    exact ih _ (fun x hx => ha x (by simp [hx]))

/-- the digits `digitsAux` puts in front of its accumulator read back as `n` -/
theorem digitsAux_spec : ∀ (fuel n : Nat) (acc : List Nat), n < 10 ^ fuel → 0 < fuel →
    ∃ ds, digitsAux fuel n acc = ds ++ acc ∧ ds ≠ [] ∧ (∀ d ∈ ds, IsDigit d) ∧
      ∀ x, ds.foldl (fun x d => x * 10 + (d - 48)) x = x * 10 ^ ds.length + n := by
  intro fuel
  induction fuel with
  | zero => intro n acc _ h; omega
  | succ f ih =>
    intro n acc hn _
    unfold digitsAux
    by_cases h10 : n < 10
    · simp only [h10, ite_true]
      refine ⟨[48 + n], rfl, by simp, ?_, ?_⟩
      · intro d hd; simp only [List.mem_singleton] at hd; subst hd; unfold IsDigit; omega
      · intro x; simp
    · simp only [h10, ite_false]
      have hf : 0 < f := by
        rcases f with _ | f
        · simp at hn; omega
        · omega
      have hlt : n / 10 < 10 ^ f := by
        rw [Nat.div_lt_iff_lt_mul (by omega)]; rw [Nat.pow_succ] at hn; exact hn
      obtain ⟨ds, he, _, hdig, hval⟩ := ih (n / 10) ((48 + n % 10) :: acc) hlt hf
      refine ⟨ds ++ [48 + n % 10], by rw [he]; simp, by simp, ?_, ?_⟩
      · intro d hd
        simp only [List.mem_append, List.mem_singleton] at hd
        rcases hd with hd | rfl
        · exact hdig d hd
        · unfold IsDigit; omega
      · intro x
        rw [List.foldl_append, hval x]
        simp only [List.foldl_cons, List.foldl_nil, List.length_append, List.length_singleton, Nat.pow_succ]
        have := Nat.div_add_mod n 10
        generalize 10 ^ ds.length = p
        have e : 48 + n % 10 - 48 = n % 10 := by omega
        rw [e, Nat.add_mul, Nat.mul_assoc]
        omega

theorem lt_ten_pow_succ (n : Nat) : n < 10 ^ (n + 1) := by
  induction n with
  | zero => simp
  | succ k ih => rw [Nat.pow_succ]; omega

theorem parse_decimal (n : Nat) : parseDigits (decimal n) 0 = some n ∧ decimal n ≠ [] ∧
    (∀ d ∈ decimal n, IsDigit d) := by
  obtain ⟨ds, he, hne, hdig, hval⟩ := digitsAux_spec (n + 1) n [] (lt_ten_pow_succ n) (by omega)
  unfold decimal
  rw [he, List.append_nil]
  refine ⟨?_, hne, hdig⟩
  have := parseDigits_append ds [] 0 hdig
  rw [List.append_nil] at this
  rw [this, hval 0]; simp [parseDigits]

/-- **`strconv.Atoi` inverts `strconv.FormatInt`** on every integer -/
theorem atoi_itoa (v : Int) : atoi (itoa v) = some v := by
  obtain ⟨hp, hne, hdig⟩ := parse_decimal v.natAbs
  unfold itoa
  by_cases hneg : v < 0
  · simp only [hneg, ite_true, atoi, hne, ite_false, hp]
    show some (-(v.natAbs : Int)) = some v
    congr 1; omega
  · simp only [hneg, ite_false]
    -- the first digit is neither '-' nor '+'
    cases hd : decimal v.natAbs with
    | nil => exact absurd hd hne
    | cons d r =>
      have hd1 : IsDigit d := hdig d (by rw [hd]; simp)
      have h45 : d ≠ 45 := by unfold IsDigit at hd1; omega
      have h43 : d ≠ 43 := by unfold IsDigit at hd1; omega
      rw [hd] at hp
      unfold atoi
      split
      · simp_all
      · simp_all
      · simp_all
      · rw [hp]; simp; omega


end Ftdc
