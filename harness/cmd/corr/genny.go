package main

import (
	"bytes"
	"context"
	"encoding/binary"
	"fmt"
	"math/rand"
	"strings"
	"time"

	"github.com/mongodb/ftdc"
	"github.com/mongodb/ftdc/events"
)

func init() {
	commands["genny"] = cmdGenny
	streams["genny"] = streamGenny
}

type gActor struct {
	name      string
	chunkSize int
	start     int64
	end       int64
	auto      bool
	samples   [][]int64 // ts, n, ops, size, errors, dur, total, workers, failed
}

func parseActor(tok string) gActor {
	p := strings.Split(tok, ";")
	a := gActor{name: p[0], chunkSize: int(atoi64(p[1]))}
	if p[2] == "auto" {
		a.auto = true
	} else {
		se := strings.Split(p[2], ":")
		a.start, a.end = atoi64(se[0]), atoi64(se[1])
	}
	for _, s := range strings.Split(p[3], "/") {
		a.samples = append(a.samples, ints64(strings.Split(s, ",")))
	}
	return a
}

func actorStream(a gActor) []byte {
	c := ftdc.NewBatchCollector(a.chunkSize)
	for _, s := range a.samples {
		p := &events.Performance{
			Timestamp: time.Unix(s[0]/1000, s[0]%1000*1000000),
			Counters:  events.PerformanceCounters{Number: s[1], Operations: s[2], Size: s[3], Errors: s[4]},
			Timers:    events.PerformanceTimers{Duration: time.Duration(s[5]), Total: time.Duration(s[6])},
			Gauges:    events.PerformanceGauges{Workers: s[7], Failed: s[8] != 0},
		}
		if err := c.Add(p); err != nil {
			panic(err)
		}
	}
	out, err := c.Resolve()
	if err != nil {
		panic(err)
	}
	return out
}

// genny | <actor> | <actor> ...     actor = name;chunkSize;auto|start:end;sample/sample/...
// observation: times=<start:end per actor> out=<start ms>:<name>=v,..,v:<name>=...  per output sample; sizes of output chunks
func cmdGenny(o *Out, line string, f []string) {
	sec := sections(f)
	ctx, cancel := context.WithCancel(context.Background())
	defer cancel()
	var actors []gActor
	var metas []*ftdc.GennyOutputMetadata
	var times []string
	for _, s := range sec[1:] {
		a := parseActor(s[0])
		stream := actorStream(a)
		if a.auto {
			m := ftdc.GetGennyTime(ctx, ftdc.GennyOutputMetadata{Iter: ftdc.ReadChunks(ctx, bytes.NewReader(stream))})
			a.start, a.end = m.StartTime, m.EndTime
			// oracle: ceiling seconds of first and last time stamps
			first, last := a.samples[0][0], int64(0)
			for _, smp := range a.samples {
				if smp[0] > last {
					last = smp[0]
				}
			}
			// (the library takes the last value of every chunk; samples are generated in time order)
			cs := func(ms int64) int64 { return (ms + 999) / 1000 }
			if a.start != cs(first) || a.end != cs(a.samples[len(a.samples)-1][0]) {
				o.violation(line, "GetGennyTime does not report the ceiling seconds of the first and last time stamps",
					map[string]int64{"start": a.start, "end": a.end, "first_ms": first, "last_ms": last})
				// a wrong span is not fed into TranslateGenny (a start of 0 would ask for a sample per second since 1970)
				o.emit(line, "gennytime-wrong")
				return
			}
		}
		times = append(times, fmt.Sprintf("%d:%d", a.start, a.end))
		actors = append(actors, a)
		metas = append(metas, &ftdc.GennyOutputMetadata{Name: a.name, Iter: ftdc.ReadChunks(ctx, bytes.NewReader(stream)), StartTime: a.start, EndTime: a.end})
	}
	var out bytes.Buffer
	if err := ftdc.TranslateGenny(ctx, metas, &out); err != nil {
		o.emit(line, "err")
		o.violation(line, "TranslateGenny failed", err.Error())
		return
	}
	docs, err := iterDocs(ftdc.ReadStructuredMetrics(ctx, bytes.NewReader(out.Bytes())))
	if err != nil {
		o.emit(line, "undecodable")
		o.violation(line, "TranslateGenny output does not decode", err.Error())
		return
	}
	type outSample struct {
		start  int64
		actors []string
		vals   [][]int64
	}
	var outs []outSample
	var rendered []string
	for _, d := range docs {
		kids, perr := parseDocStrict(unhx(d))
		if perr != nil || len(kids) != 1 || kids[0].Key != "cedar" || kids[0].Tag != 0x03 || len(kids[0].Kids) < 1 || kids[0].Kids[0].Key != "start" {
			o.emit(line, "malformed-output")
			o.violation(line, "output sample is not {cedar:{start, actor...}}", nil)
			return
		}
		os := outSample{start: int64(binary.LittleEndian.Uint64(kids[0].Kids[0].Raw))}
		parts := []string{fmt.Sprint(os.start)}
		for _, ak := range kids[0].Kids[1:] {
			var v []int64
			for _, l := range leavesOf(ak.Kids, nil, false, "") {
				v = append(v, l.Val)
			}
			os.actors = append(os.actors, ak.Key)
			os.vals = append(os.vals, v)
			parts = append(parts, ak.Key+"="+i64s(v))
		}
		outs = append(outs, os)
		rendered = append(rendered, strings.Join(parts, ":"))
	}
	sizes, _ := chunkSizesOf(out.Bytes())
	var ss []string
	for _, s := range sizes {
		ss = append(ss, fmt.Sprint(s))
	}
	o.emit(line, fmt.Sprintf("times=%s chunks=%s out=%s", strings.Join(times, ","), strings.Join(ss, ","), strings.Join(rendered, " ")))
	o.nontrivial(line)
	o.count(fmt.Sprintf("genny-actors-%d", len(actors)))

	// ---- oracle (C20) ----
	wstart, wend := actors[0].start, int64(0)
	for _, a := range actors {
		if a.start < wstart {
			wstart = a.start
		}
		if a.end > wend {
			wend = a.end
		}
	}
	if int64(len(outs)) != wend-wstart && wend > wstart {
		o.violation(line, "number of output samples differs from the number of seconds of the workload span", map[string]int64{"samples": int64(len(outs)), "span": wend - wstart})
		return
	}
	for i, os := range outs {
		if os.start != (wstart+int64(i))*1000 {
			o.violation(line, "start stamps are not one second apart from the workload start", map[string]interface{}{"index": i, "start": os.start})
			return
		}
		if len(os.actors) != len(actors) {
			o.violation(line, "an output sample does not have one sub-document per actor", nil)
			return
		}
		for k, a := range actors {
			if os.actors[k] != a.name {
				o.violation(line, "actor sub-documents are not in input order", nil)
				return
			}
		}
	}
	for _, s := range sizes {
		if s > 300 {
			o.violation(line, "an output chunk holds more than 300 samples", s)
		}
	}
	for k, a := range actors {
		pos := -1
		for i, os := range outs {
			v := os.vals[k]
			allZero := true
			for _, x := range v {
				if x != 0 {
					allZero = false
				}
			}
			// must equal one of the actor's own samples, at a position >= the previous one, or be all zero before the first pick
			found := -1
			for p := 0; p < len(a.samples); p++ {
				if p >= pos && i64s(a.samples[p][1:]) == i64s(v) {
					found = p
					break
				}
			}
			if found < 0 {
				if allZero && pos < 0 {
					continue
				}
				o.violation(line, "an actor's values are neither zero nor one of its own samples at a non-decreasing position",
					map[string]interface{}{"actor": a.name, "second": i, "values": v})
				return
			}
			if found != pos {
				// a newly selected sample must be the first sample of its wall-clock second
				sec := (a.samples[found][0] + 999) / 1000
				if found > 0 && (a.samples[found-1][0]+999)/1000 == sec {
					// an equal earlier sample may exist with identical values; accept only if values differ
					if i64s(a.samples[found-1][1:]) != i64s(v) {
						o.violation(line, "a selected sample is not the first sample of its second", map[string]interface{}{"actor": a.name, "position": found})
						return
					}
				}
			}
			pos = found
		}
	}
}

func streamGenny(o *Out, rng *rand.Rand, thorough bool, _ []string) {
	n := 150
	if thorough {
		n = 4000
	}
	for i := 0; i < n; i++ {
		na := 1 + rng.Intn(4)
		base := int64(1600000000) + int64(rng.Intn(1000))
		var toks []string
		for a := 0; a < na; a++ {
			// spans: overlapping or disjoint, gaps of several seconds, many samples per second
			t := (base+int64(rng.Intn(12)))*1000 + int64(rng.Intn(1000))
			ns := 1 + rng.Intn(25)
			var smp []string
			cum := make([]int64, 6)
			for s := 0; s < ns; s++ {
				switch rng.Intn(5) {
				case 0:
					t += int64(1000 * (2 + rng.Intn(4))) // gap of several seconds
				case 1:
					t += int64(1 + rng.Intn(5)) // same second
				default:
					t += int64(100 + rng.Intn(900))
				}
				for j := range cum {
					cum[j] += int64(rng.Intn(50))
				}
				smp = append(smp, fmt.Sprintf("%d,%s,%d,%d", t, i64s(cum), 1+rng.Intn(8), rng.Intn(2)))
			}
			span := "auto"
			if rng.Intn(4) == 0 {
				span = fmt.Sprintf("%d:%d", base+int64(rng.Intn(5)), base+int64(8+rng.Intn(30)))
			}
			cs := []int{1, 2, 3, 5, 1000}[rng.Intn(5)]
			toks = append(toks, fmt.Sprintf("actor%d;%d;%s;%s", a, cs, span, strings.Join(smp, "/")))
		}
		run(o, "genny | "+strings.Join(toks, " | "))
	}
	if thorough {
		// a span longer than 300 seconds: several output chunks
		var smp []string
		t := int64(1600000000000)
		for s := 0; s < 40; s++ {
			t += 9000
			smp = append(smp, fmt.Sprintf("%d,%d,1,1,0,5,5,1,0", t, s))
		}
		run(o, "genny | long;7;auto;"+strings.Join(smp, "/"))
	}
}
