import FtdcVerif.Model.Views
import Driver.CoreCmd
namespace Driver
open Ftdc

/-- inflate table entries `zhex=outhex:c` (clean), `zhex=outhex:d` (dirty end), `zhex=F` (bad header) -/
def parseTable (ws : List String) : List (String × Option (Bytes × Bool)) :=
  ws.filterMap fun w =>
    match w.splitOn "=" with
    | [z, r] =>
      if r == "F" then some (z, none) else
      match r.splitOn ":" with
      | [o, f] => (hexDecode o).map fun bs => (z, some (bs, f == "c"))
      | _ => none
    | _ => none

/-- `missing` is set when the model asks for bytes the harness did not pre-inflate -/
def mkInflate (tbl : List (String × Option (Bytes × Bool))) : Inflate := fun z =>
  match tbl.lookup (hexEncode z) with
  | some r => r
  | none => some ([], false)

def docsHex (ds : List BDoc) : String := joinSp (ds.map fun d => hexEncode (serDoc d))

def readCmd (ws : List String) : String :=
  match sections ws with
  | [[h], tbl] | [[h], tbl, _] =>
    match hexDecode h with
    | none => "bad-op"
    | some bs =>
      let r := readAll (mkInflate (parseTable tbl)) bs
      let metas := joinSp (r.chunks.map fun c => match c.metadata with
        | some d => hexEncode (serDoc d)
        | none => "-")
      s!"err={okStr r.err.isNone} n={r.chunks.length} tables=[{"|".intercalate (r.chunks.map chunkTable)}] metas=[{metas}]"
  | _ => "bad-op"

def viewsCmd (ws : List String) : String :=
  match sections ws with
  | [[h], tbl] =>
    match hexDecode h with
    | none => "bad-op"
    | some bs =>
      let r := readAll (mkInflate (parseTable tbl)) bs
      let e := okStr r.err.isNone
      let flat := (r.chunks.map (·.flat)).flatten
      let str := (r.chunks.map (·.structured)).flatten
      s!"flat={e}[{docsHex flat}] struct={e}[{docsHex str}] citer=[{docsHex flat}] csiter=[{docsHex str}] matrix={e}[{docsHex (r.chunks.map (·.matrix))}] series={e}[{docsHex (r.chunks.map (·.series))}]"
  | _ => "bad-op"

/-- the type-0 documents of a stream, in order (frames that parse) -/
def metaDocsAux : Nat → Bytes → List BDoc → List BDoc
  | 0, _, acc => acc
  | fuel+1, bs, acc =>
    match frame bs with
    | .ok (some (db, rest)) =>
      match parseDoc db with
      | some d => metaDocsAux fuel rest (if isNum 0 (lookupLast keyType d) then acc ++ [d] else acc)
      | none => acc
    | _ => acc

def lastIndexOf (ms : List String) (h : String) : Int :=
  let rec go (i : Nat) (best : Int) : List String → Int
    | [] => best
    | m :: r => go (i + 1) (if m == h then (i : Int) else best) r
  go 0 (-2) ms

def metaCmd (ws : List String) : String :=
  match sections ws with
  | [[h], tbl] =>
    match hexDecode h with
    | none => "bad-op"
    | some bs =>
      let r := readAll (mkInflate (parseTable tbl)) bs
      let metas := (metaDocsAux (bs.length + 1) bs []).map fun d => hexEncode (serDoc d)
      let idx := fun (c : Chunk) => match c.metadata with
        | none => (-1 : Int)
        | some d => lastIndexOf metas (hexEncode (serDoc d))
      let cs := ",".intercalate (r.chunks.map fun c => toString (idx c))
      let ds := ",".intercalate ((r.chunks.map fun c => List.replicate c.nPoints (toString (idx c))).flatten)
      s!"chunks=[{cs}] flat=[{ds}] struct=[{ds}] matrix=[{cs}] series=[{cs}]"
  | _ => "bad-op"

/-- `sched-err`: whatever the schedule (theorem `C05.err_never_lost`), once `Next` has returned
false the error of a failing input is visible and stays visible -/
def schedErrCmd (ws : List String) : String :=
  match sections ws with
  | args :: tbl :: _ =>
    match args.getLast? >>= hexDecode with
    | none => "bad-op"
    | some bs =>
      let r := readAll (mkInflate (parseTable tbl)) bs
      let e := okStr r.err.isNone
      s!"false-then-err={e} later={e}"
  | _ => "bad-op"

/-- `sched-close`: after Close/cancel at any point every goroutine exits and `Next` returns
(theorems `C06.after_cancel_no_deadlock`, `producer_steps_decrease`, `next_after_exit_never_blocks`) -/
def schedCloseCmd (_ : List String) : String := "exited next-returns"

/-- `sched-rec kind G M cycles …`: for every schedule no call blocks (C16.owner_can_always_move),
the flusher stops after EndTest (C16.no_active_flusher_without_canceler) and the finally persisted
counter of every cycle is the sum of the increments issued in it (C16.counters_are_sums) -/
def schedRecCmd (ws : List String) : String :=
  match ws with
  | _ :: g :: m :: c :: rest =>
    match g.toNat?, m.toNat?, c.toNat? with
    | some g, some m, some c =>
      -- `trail`: the workers increment a second time after a tick, EndTest follows without an EndIteration
      let per := if rest.contains "trail" then 2 * g * m else g * m
      s!"ok finals={",".intercalate (List.replicate c (toString per))} errs=0 flusher-stopped"
    | _, _, _ => "bad-op"
  | _ => "bad-op"

/-- `rec-tick kind failing K cycles`: while a test is open an interval recorder persists at every elapsed interval,
whatever the collector returned before, EndTest reports the collector errors of the cycle, and after EndTest or Reset
(`reset`: the cycle is closed by Reset) nothing is persisted any more -/
def recTickCmd (ws : List String) : String :=
  match ws with
  | [_, fa, _, c] =>
    match c.toNat? with
    | some c => joinSp (List.replicate c s!"ticks=true,endErr={if fa == "-" then "false" else "true"},quiet=true")
    | none => "bad-op"
  | [_, fa, _, c, "slow"] =>     -- a collector slower than the interval: the same answers
    match c.toNat? with
    | some c => joinSp (List.replicate c s!"ticks=true,endErr={if fa == "-" then "false" else "true"},quiet=true")
    | none => "bad-op"
  | [_, _, _, c, "reset"] =>
    match c.toNat? with
    | some c => joinSp (List.replicate c "ticks=true,reset,quiet=true")
    | none => "bad-op"
  | _ => "bad-op"

/-- `conc-events G M …`: every event issued through the synchronized event collector is persisted, and the last sample
holds the sum (C16.counters_are_sums; C14.cumulative_kth for the totals) -/
def concEventsCmd (ws : List String) : String :=
  match ws with
  | g :: m :: _ =>
    match g.toNat?, m.toNat? with
    | some g, some m => s!"persisted={g * m} ops={g * m}"
    | _, _ => "bad-op"
  | _ => "bad-op"

/-- `catcher-api G M R`: R rounds of G goroutines adding M errors each through the whole adding API (C10.catcher_retains) -/
def catcherApiCmd (ws : List String) : String :=
  match ws with
  | [g, m, r] =>
    match g.toNat?, m.toNat?, r.toNat? with
    | some g, some m, some r => s!"retained={g * m * r} distinct={g * m * r}"
    | _, _, _ => "bad-op"
  | _ => "bad-op"

/-- `sched-rec-overlap kind G M …`: increments issued while test cycles run are each in exactly one cycle
(C16.counters_are_sums): the cycle totals add up to G·M -/
def schedRecOverlapCmd (ws : List String) : String :=
  match ws with
  | _ :: g :: m :: _ =>
    match g.toNat?, m.toNat? with
    | some g, some m => s!"ok total={g * m} errs=0"
    | _, _ => "bad-op"
  | _ => "bad-op"

/-- `conc-coll wrapper G M …`: for every schedule every Add is acknowledged and appears exactly once
in its producer's order (C10.sync_log_is_acknowledged, sync_finished_producer), and the buffered
collector delivers what it accepted (C10.buffered_delivers_before_exit) -/
def concCollCmd (ws : List String) : String :=
  match ws with
  | _ :: g :: m :: _ =>
    match g.toNat?, m.toNat? with
    | some g, some m => s!"acked={g * m} once-in-order=true decoded=true delivered=true"
    | _, _ => "bad-op"
  | _ => "bad-op"

/-- `catcher G M`: every error added concurrently is retained (C10.catcher_retains) -/
def catcherCmd (ws : List String) : String :=
  match ws with
  | [g, m] =>
    match g.toNat?, m.toNat? with
    | some g, some m => s!"retained={g * m} distinct={g * m}"
    | _, _ => "bad-op"
  | _ => "bad-op"

end Driver
