import FtdcVerif.Lemmas.Codec
import FtdcVerif.Lemmas.Bson
/-!
# End to end: a chunk's payload decodes to the projections of the documents it was built from
-/
namespace Ftdc

/-! ### documents of one schema: same keys, nesting and element types, any values -/
mutual
def SimVal : BVal → BVal → Prop
  | .double _, .double _ => True
  | .doc a, .doc b => SimDoc a b
  | .arr a, .arr b => SimDoc a b
  | .bool _, .bool _ => True
  | .datetime _, .datetime _ => True
  | .int32 _, .int32 _ => True
  | .timestamp _ _, .timestamp _ _ => True
  | .int64 _, .int64 _ => True
  | .other _ _, .other _ _ => True
  | _, _ => False
def SimDoc : BDoc → BDoc → Prop
  | .nil, .nil => True
  | .cons k v r, .cons k' v' r' => k = k' ∧ SimVal v v' ∧ SimDoc r r'
  | _, _ => False
end

mutual
/-- restoring from the values of ANOTHER document of the same schema yields that document's
projection: the reference document contributes keys, nesting and types only -/
theorem restoreVal_sim : (ref v : BVal) → SimVal ref v → DatesOkVal v → ∀ (pre post : Row),
    restoreVal (pre ++ valsV v ++ post) pre.length ref = (projVal v, pre.length + (valsV v).length)
  | .double _, v, h, _, pre, post => by
    cases v with
    | double b => simp [restoreVal, valsV, extractVal, projVal, getD_mid]
    | _ => simp [SimVal] at h
  | .doc a, v, h, hd, pre, post => by
    cases v with
    | doc b =>
      have := restoreElems_sim a b (by simpa [SimVal] using h) hd pre post
      simp only [restoreVal, valsV, extractVal, projVal] at this ⊢
      simp only [vals] at this
      rw [this]
    | _ => simp [SimVal] at h
  | .arr a, v, h, hd, pre, post => by
    cases v with
    | arr b =>
      have := restoreArr_sim a b (by simpa [SimVal] using h) hd pre post 0
      simp only [restoreVal, valsV, extractVal, projVal] at this ⊢
      simp only [vals] at this
      rw [this]
    | _ => simp [SimVal] at h
  | .bool _, v, h, _, pre, post => by
    cases v with
    | bool b => simp [restoreVal, valsV, extractVal, projVal, getD_mid, bool_restore]
    | _ => simp [SimVal] at h
  | .datetime _, v, h, hd, pre, post => by
    cases v with
    | datetime ms => simp [restoreVal, valsV, extractVal, projVal, getD_mid, restoreDT, normDT_inRange ms hd]
    | _ => simp [SimVal] at h
  | .int32 _, v, h, _, pre, post => by
    cases v with
    | int32 x => simp [restoreVal, valsV, extractVal, projVal, getD_mid, signExt_truncate]
    | _ => simp [SimVal] at h
  | .timestamp _ _, v, h, _, pre, post => by
    cases v with
    | timestamp t i =>
      have h2 : (pre ++ t.zeroExtend 64 :: i.zeroExtend 64 :: post).getD (pre.length + 1) 0 = i.zeroExtend 64 := by
        have := getD_mid (pre ++ [t.zeroExtend 64]) post (i.zeroExtend 64)
        simpa using this
      simp [restoreVal, valsV, extractVal, projVal, getD_mid, h2, zeroExt_truncate]
    | _ => simp [SimVal] at h
  | .int64 _, v, h, _, pre, post => by
    cases v with
    | int64 x => simp [restoreVal, valsV, extractVal, projVal, getD_mid]
    | _ => simp [SimVal] at h
  | .other _ _, v, h, _, pre, post => by
    cases v with
    | other t raw => simp [restoreVal, valsV, extractVal, projVal]
    | _ => simp [SimVal] at h
theorem restoreElems_sim : (ref d : BDoc) → SimDoc ref d → DatesOk d → ∀ (pre post : Row),
    restoreElems (pre ++ vals d ++ post) pre.length ref = (projElems d, pre.length + (vals d).length)
  | .nil, d, h, _, pre, post => by
    cases d with
    | nil => simp [restoreElems, vals, extractDoc, projElems]
    | cons _ _ _ => simp [SimDoc] at h
  | .cons k v r, d, h, hd, pre, post => by
    cases d with
    | nil => simp [SimDoc] at h
    | cons k' v' r' =>
      obtain ⟨hk, hv', hr'⟩ : k = k' ∧ SimVal v v' ∧ SimDoc r r' := by simpa [SimDoc] using h
      subst hk
      have hv := restoreVal_sim v v' hv' hd.1 pre (vals r' ++ post)
      have hr := restoreElems_sim r r' hr' hd.2 (pre ++ valsV v') post
      have e1 : pre ++ vals (.cons k v' r') ++ post = pre ++ valsV v' ++ (vals r' ++ post) := by
        simp [vals, valsV, extractDoc]
      have e2 : pre ++ valsV v' ++ vals r' ++ post = pre ++ valsV v' ++ (vals r' ++ post) := by simp
      simp only [restoreElems, e1, hv]
      rw [e2] at hr
      have hl : (pre ++ valsV v').length = pre.length + (valsV v').length := by simp
      rw [hl] at hr
      rw [hr]
      simp only [projElems]
      have hlen : (vals (.cons k v' r')).length = (valsV v').length + (vals r').length := by
        simp [vals, valsV, extractDoc]
      cases projVal v' <;> simp [hlen] <;> omega
theorem restoreArr_sim : (ref d : BDoc) → SimDoc ref d → DatesOk d → ∀ (pre post : Row) (pos : Nat),
    restoreArr (pre ++ vals d ++ post) pre.length pos ref = (projArr pos d, pre.length + (vals d).length)
  | .nil, d, h, _, pre, post, pos => by
    cases d with
    | nil => simp [restoreArr, vals, extractDoc, projArr]
    | cons _ _ _ => simp [SimDoc] at h
  | .cons k v r, d, h, hd, pre, post, pos => by
    cases d with
    | nil => simp [SimDoc] at h
    | cons k' v' r' =>
      obtain ⟨_, hv', hr'⟩ : k = k' ∧ SimVal v v' ∧ SimDoc r r' := by simpa [SimDoc] using h
      have hv := restoreVal_sim v v' hv' hd.1 pre (vals r' ++ post)
      have e1 : pre ++ vals (.cons k' v' r') ++ post = pre ++ valsV v' ++ (vals r' ++ post) := by
        simp [vals, valsV, extractDoc]
      have e2 : pre ++ valsV v' ++ vals r' ++ post = pre ++ valsV v' ++ (vals r' ++ post) := by simp
      have hl : (pre ++ valsV v').length = pre.length + (valsV v').length := by simp
      have hlen : (vals (.cons k' v' r')).length = (valsV v').length + (vals r').length := by
        simp [vals, valsV, extractDoc]
      simp only [restoreArr, e1, hv]
      cases hp : projVal v' with
      | none =>
        have hr := restoreArr_sim r r' hr' hd.2 (pre ++ valsV v') post pos
        rw [e2, hl] at hr
        simp only [projArr, hp, hr, hlen]
        congr 1; omega
      | some x =>
        have hr := restoreArr_sim r r' hr' hd.2 (pre ++ valsV v') post (pos + 1)
        rw [e2, hl] at hr
        simp only [projArr, hp, hr, hlen]
        congr 1; omega
end

/-- **a document of the reference's schema is restored from its own values** -/
theorem restoreDoc_sim (ref d : BDoc) (h : SimDoc ref d) (hd : DatesOk d) :
    restoreDoc ref (vals d) = project d := by
  have := restoreElems_sim ref d h hd [] []
  simp only [List.nil_append, List.append_nil, List.length_nil] at this
  simp [restoreDoc, project, this]

/-! ### starting values (outside known finding F1: no timestamp leaves) -/
mutual
def NoTsVal : BVal → Prop
  | .timestamp _ _ => False
  | .doc d => NoTs d
  | .arr d => NoTs d
  | _ => True
def NoTs : BDoc → Prop
  | .nil => True
  | .cons _ v r => NoTsVal v ∧ NoTs r
end

mutual
theorem starts_val : (v : BVal) → NoTsVal v → ∀ (key : Bytes) (path : List Bytes),
    (metricsVal key path v).map (·.start) = valsV v
  | .double _, _, _, _ => by simp [metricsVal, valsV, extractVal]
  | .doc d, h, key, path => by
    have := starts_elems d h (path ++ [key])
    simpa [metricsVal, valsV, extractVal, vals] using this
  | .arr d, h, key, path => by
    have := starts_arr d h key path 0
    simpa [metricsVal, valsV, extractVal, vals] using this
  | .bool _, _, _, _ => by simp [metricsVal, valsV, extractVal]
  | .datetime _, _, _, _ => by simp [metricsVal, valsV, extractVal]
  | .int32 _, _, _, _ => by simp [metricsVal, valsV, extractVal]
  | .timestamp _ _, h, _, _ => by simp [NoTsVal] at h
  | .int64 _, _, _, _ => by simp [metricsVal, valsV, extractVal]
  | .other _ _, _, _, _ => by simp [metricsVal, valsV, extractVal]
theorem starts_elems : (d : BDoc) → NoTs d → ∀ (path : List Bytes),
    (metricsElems path d).map (·.start) = vals d
  | .nil, _, _ => by simp [metricsElems, vals, extractDoc]
  | .cons k v r, h, path => by
    have h1 := starts_val v h.1 k path
    have h2 := starts_elems r h.2 path
    simp only [metricsElems, List.map_append, h1, h2]
    simp [vals, valsV, extractDoc]
theorem starts_arr : (d : BDoc) → NoTs d → ∀ (key : Bytes) (path : List Bytes) (idx : Nat),
    (metricsArr key path idx d).map (·.start) = vals d
  | .nil, _, _, _, _ => by simp [metricsArr, vals, extractDoc]
  | .cons k v r, h, key, path, idx => by
    have h1 := starts_val v h.1 (key ++ [dot] ++ decimal idx) path
    have h2 := starts_arr r h.2 key path (idx + 1)
    simp only [metricsArr, List.map_append, h1, h2]
    simp [vals, valsV, extractDoc]
end

theorem starts_of (d : BDoc) (h : NoTs d) : (metricsOf d).map (·.start) = vals d := starts_elems d h []

/-! ### the metric-major delta stream, metric by metric -/

theorem rleDecAux_length : ∀ (n nz : Nat) (bs : Bytes) (ds : List I64) (nz' : Nat) (r : Bytes),
    rleDecAux n nz bs = some (ds, nz', r) → ds.length = n := by
  intro n
  induction n with
  | zero => intro nz bs ds nz' r h; simp [rleDecAux] at h; simp [h.1]
  | succ n ih =>
    intro nz bs ds nz' r h
    simp only [rleDecAux] at h
    by_cases hnz : nz ≠ 0
    · rw [if_pos hnz] at h
      cases h1 : rleDecAux n (nz - 1) bs with
      | none => rw [h1] at h; simp at h
      | some x =>
        obtain ⟨xd, xz, xr⟩ := x
        rw [h1] at h
        simp only [Option.some.injEq, Prod.mk.injEq] at h
        rw [← h.1, List.length_cons, ih _ _ _ _ _ h1]
    · rw [if_neg hnz] at h
      cases h1 : readUvarint bs with
      | none => rw [h1] at h; simp at h
      | some dr =>
        obtain ⟨d, r1⟩ := dr
        rw [h1] at h
        simp only at h
        by_cases hd : d = 0
        · rw [if_pos hd] at h
          cases h2 : readUvarint r1 with
          | none => rw [h2] at h; simp at h
          | some zr =>
            obtain ⟨z, r2⟩ := zr
            rw [h2] at h
            simp only at h
            cases h3 : rleDecAux n z r2 with
            | none => rw [h3] at h; simp at h
            | some x =>
              obtain ⟨xd, xz, xr⟩ := x
              rw [h3] at h
              simp only [Option.some.injEq, Prod.mk.injEq] at h
              rw [← h.1, List.length_cons, ih _ _ _ _ _ h3]
        · rw [if_neg hd] at h
          cases h3 : rleDecAux n 0 r1 with
          | none => rw [h3] at h; simp at h
          | some x =>
            obtain ⟨xd, xz, xr⟩ := x
            rw [h3] at h
            simp only [Option.some.injEq, Prod.mk.injEq] at h
            rw [← h.1, List.length_cons, ih _ _ _ _ _ h3]

/-- reading the whole stream in one go gives every column -/
theorem rleDecMetrics_of_flat : ∀ (cols : List (List I64)) (nd nz : Nat) (bs : Bytes) (nz' : Nat) (r : Bytes),
    (∀ c ∈ cols, c.length = nd) →
    rleDecAux (cols.length * nd) nz bs = some (cols.flatten, nz', r) →
    rleDecMetrics cols.length nd nz bs = some cols := by
  intro cols
  induction cols with
  | nil => intro nd nz bs nz' r _ _; simp [rleDecMetrics]
  | cons c cols ih =>
    intro nd nz bs nz' r hl h
    have hc : c.length = nd := hl c (List.mem_cons_self ..)
    have hl' : ∀ c' ∈ cols, c'.length = nd := fun c' hc' => hl c' (List.mem_cons_of_mem _ hc')
    have e : (c :: cols).length * nd = nd + cols.length * nd := by
      simp only [List.length_cons, Nat.add_mul, Nat.one_mul]; omega
    rw [e, rleDecAux_append] at h
    cases h1 : rleDecAux nd nz bs with
    | none => rw [h1] at h; simp at h
    | some x =>
      rw [h1] at h
      simp only [Option.bind_some] at h
      cases h2 : rleDecAux (cols.length * nd) x.2.1 x.2.2 with
      | none => rw [h2] at h; simp at h
      | some y =>
        rw [h2] at h
        simp only [Option.map_some, Option.some.injEq, Prod.mk.injEq, List.flatten_cons] at h
        have l1 := rleDecAux_length _ _ _ _ _ _ (show rleDecAux nd nz bs = some (x.1, x.2.1, x.2.2) by rw [h1])
        have hx : x.1 = c ∧ y.1 = cols.flatten := by
          have := List.append_inj h.1 (by rw [l1, hc])
          exact this
        have ih' := ih nd x.2.1 x.2.2 y.2.1 y.2.2 hl' (by rw [h2, ← hx.2])
        simp only [rleDecMetrics, List.length_cons]
        rw [h1]
        simp only [ih', hx.1]

theorem flatten_length_const (cols : List (List I64)) (nd : Nat) (h : ∀ c ∈ cols, c.length = nd) :
    cols.flatten.length = cols.length * nd := by
  induction cols with
  | nil => simp
  | cons c cols ih =>
    have := ih (fun c' hc' => h c' (List.mem_cons_of_mem _ hc'))
    simp only [List.flatten_cons, List.length_append, List.length_cons, this, h c (List.mem_cons_self ..),
      Nat.add_mul, Nat.one_mul]
    omega

/-- the columns `getPayload` writes -/
def colsOf (first : Row) (rows : List Row) : List (List I64) :=
  (List.range first.length).map fun i => deltas (first.getD i 0) (column rows i)

theorem colsOf_length (first : Row) (rows : List Row) : (colsOf first rows).length = first.length := by
  simp [colsOf]

theorem colsOf_mem_length (first : Row) (rows : List Row) : ∀ c ∈ colsOf first rows, c.length = rows.length := by
  intro c hc
  simp only [colsOf, List.mem_map, List.mem_range] at hc
  obtain ⟨i, _, rfl⟩ := hc
  simp [deltas_length, column]

/-- entry `j` of the values of every metric, as a row -/
theorem row_of_metrics (ms : List Metric) (first : Row) (rows : List Row)
    (hs : ms.map (·.start) = first) (j : Nat) :
    (((ms.zip (colsOf first rows)).map fun (p : Metric × List I64) =>
        ({ p.1 with values := undelta p.1.start p.2 } : Metric)).map fun m => m.values.getD j 0) =
      (List.range first.length).map fun i => (first.getD i 0 :: column rows i).getD j 0 := by
  have hlen : ms.length = first.length := by rw [← hs]; simp
  apply List.ext_getElem
  · simp [colsOf, hlen]
  · intro i h1 h2
    have hi : i < first.length := by simpa using h2
    have hms : i < ms.length := by omega
    have hst : ms[i].start = first[i] := by
      have : (ms.map (·.start))[i]'(by simpa using hms) = first[i] := by simp [hs]
      simpa using this
    simp only [List.getElem_map, List.getElem_zip, List.getElem_range, colsOf]
    rw [hst, show first.getD i 0 = first[i] by simp [List.getD_eq_getElem?_getD, hi], undelta_deltas]

theorem rows_of_metrics (ms : List Metric) (first : Row) (rows : List Row)
    (hs : ms.map (·.start) = first) (hrows : ∀ r ∈ rows, r.length = first.length) :
    ((List.range (rows.length + 1)).map fun j =>
      (((ms.zip (colsOf first rows)).map fun (p : Metric × List I64) =>
        ({ p.1 with values := undelta p.1.start p.2 } : Metric)).map fun m => m.values.getD j 0)) =
      first :: rows := by
  apply List.ext_getElem
  · simp
  · intro j h1 h2
    simp only [List.getElem_map, List.getElem_range]
    rw [row_of_metrics ms first rows hs j]
    cases j with
    | zero =>
      simp only [List.getElem_cons_zero]
      apply List.ext_getElem
      · simp
      · intro i h3 h4
        simp [List.getD_eq_getElem?_getD, List.getElem?_eq_getElem h4]
    | succ j =>
      have hj : j < rows.length := by simpa using h2
      simp only [List.getElem_cons_succ]
      have hr := hrows rows[j] (List.getElem_mem hj)
      apply List.ext_getElem
      · simp [hr]
      · intro i h3 h4
        have hi : i < first.length := by simpa using h3
        simp only [List.getElem_map, List.getElem_range, List.getD_cons_succ, column]
        rw [List.getD_eq_getElem?_getD, List.getElem?_map, List.getElem?_eq_getElem hj]
        simp [List.getD_eq_getElem?_getD, List.getElem?_eq_getElem (show i < rows[j].length by omega)]

/-- **the payload `getPayload` writes decodes to the chunk it was built from** (no timestamp
leaves: known finding F1 concerns their starting value) -/
theorem decode_payload (ref : BDoc) (rows : List Row)
    (hw : WFDoc ref) (hl : (serDoc ref).length < 2 ^ 31) (hts : NoTs ref)
    (hrows : ∀ r ∈ rows, r.length = (vals ref).length)
    (hnm : (vals ref).length < 2 ^ 32) (hn : rows.length < 2 ^ 32)
    (hsz : (vals ref).length * rows.length < 2 ^ 64) :
    ∃ c, decodePayload (payloadOf ref (vals ref) rows) = .ok c ∧ c.ref = ref ∧
      c.rows = vals ref :: rows := by
  have hlen := serDoc_length ref
  have hs := starts_of ref hts
  have hmslen : (metricsOf ref).length = (vals ref).length := by rw [← hs]; simp
  -- the pieces of the payload
  have ep : payloadOf ref (vals ref) rows =
      serDoc ref ++ ((le32 (vals ref).length ++ le32 rows.length) ++ rleEnc (colsOf (vals ref) rows).flatten) := by
    simp [payloadOf, colsOf]
  have h4 : takeN 4 (payloadOf ref (vals ref) rows) =
      some (le32 ((serElems ref).length + 5), (serElems ref ++ [0]) ++
        ((le32 (vals ref).length ++ le32 rows.length) ++ rleEnc (colsOf (vals ref) rows).flatten)) := by
    rw [ep]
    have : serDoc ref ++ ((le32 (vals ref).length ++ le32 rows.length) ++ rleEnc (colsOf (vals ref) rows).flatten) =
        le32 ((serElems ref).length + 5) ++ ((serElems ref ++ [0]) ++
          ((le32 (vals ref).length ++ le32 rows.length) ++ rleEnc (colsOf (vals ref) rows).flatten)) := by
      simp [serDoc]
    rw [this]; exact takeN_app' _ _ 4 (le32_length _)
  have hr := rdLe_le32 _ (show (serElems ref).length + 5 < 2 ^ 32 by omega)
  have hno : ¬ ((serElems ref).length + 5 < 5 ∨ (serElems ref).length + 5 ≥ 2 ^ 31) := by omega
  have ht : takeN ((serElems ref).length + 5) (payloadOf ref (vals ref) rows) =
      some (serDoc ref, (le32 (vals ref).length ++ le32 rows.length) ++ rleEnc (colsOf (vals ref) rows).flatten) := by
    rw [ep]; exact takeN_app' _ _ _ hlen
  have hp := parseDoc_serDoc ref hw hl
  have h8 : takeN 8 ((le32 (vals ref).length ++ le32 rows.length) ++ rleEnc (colsOf (vals ref) rows).flatten) =
      some (le32 (vals ref).length ++ le32 rows.length, rleEnc (colsOf (vals ref) rows).flatten) :=
    takeN_app' _ _ 8 (by simp [le32_length])
  have hnm' : rdLe ((le32 (vals ref).length ++ le32 rows.length).take 4) = (vals ref).length := by
    rw [List.take_left' (le32_length _), rdLe_le32 _ hnm]
  have hnd' : rdLe ((le32 (vals ref).length ++ le32 rows.length).drop 4) = rows.length := by
    rw [List.drop_left' (le32_length _), rdLe_le32 _ hn]
  -- the delta stream
  have hcl := colsOf_length (vals ref) rows
  have hcm := colsOf_mem_length (vals ref) rows
  have hfl := flatten_length_const _ _ hcm
  have hdec : rleDecMetrics (vals ref).length rows.length 0 (rleEnc (colsOf (vals ref) rows).flatten) =
      some (colsOf (vals ref) rows) := by
    have h1 := rle_roundtrip (colsOf (vals ref) rows).flatten 0 [] (by rw [hfl, hcl]; omega)
    simp only [Nat.zero_add, List.append_nil, List.replicate_zero, List.nil_append] at h1
    have := rleDecMetrics_of_flat (colsOf (vals ref) rows) rows.length 0
      (rleEnc (colsOf (vals ref) rows).flatten) 0 [] hcm (by rw [← hfl]; exact h1)
    rw [hcl] at this; exact this
  refine ⟨{ ref := ref,
             metrics := ((metricsOf ref).zip (colsOf (vals ref) rows)).map fun (p : Metric × List I64) =>
               ({ p.1 with values := undelta p.1.start p.2 } : Metric),
             nPoints := rows.length + 1 }, ?_, ?_, ?_⟩
  · unfold decodePayload
    simp only [h4, hr, hno, ht, hp, h8, hnm', hnd', hmslen, hdec, if_false, ne_eq, not_true_eq_false]
  · rfl
  · simp only [Chunk.rows]
    exact rows_of_metrics (metricsOf ref) (vals ref) rows hs hrows

mutual
theorem simVal_length : (a b : BVal) → SimVal a b → (valsV a).length = (valsV b).length
  | .doc x, b, h => by
    cases b with
    | doc y => simpa [valsV, extractVal, vals] using simDoc_length x y (by simpa [SimVal] using h)
    | _ => simp [SimVal] at h
  | .arr x, b, h => by
    cases b with
    | arr y => simpa [valsV, extractVal, vals] using simDoc_length x y (by simpa [SimVal] using h)
    | _ => simp [SimVal] at h
  | .double _, b, h => by cases b <;> simp [SimVal] at h <;> simp [valsV, extractVal]
  | .bool _, b, h => by cases b <;> simp [SimVal] at h <;> simp [valsV, extractVal]
  | .datetime _, b, h => by cases b <;> simp [SimVal] at h <;> simp [valsV, extractVal]
  | .int32 _, b, h => by cases b <;> simp [SimVal] at h <;> simp [valsV, extractVal]
  | .timestamp _ _, b, h => by cases b <;> simp [SimVal] at h <;> simp [valsV, extractVal]
  | .int64 _, b, h => by cases b <;> simp [SimVal] at h <;> simp [valsV, extractVal]
  | .other _ _, b, h => by cases b <;> simp [SimVal] at h <;> simp [valsV, extractVal]
theorem simDoc_length : (a b : BDoc) → SimDoc a b → (vals a).length = (vals b).length
  | .nil, b, h => by cases b <;> simp [SimDoc] at h <;> simp [vals, extractDoc]
  | .cons k v r, b, h => by
    cases b with
    | nil => simp [SimDoc] at h
    | cons k' v' r' =>
      obtain ⟨_, hv, hr⟩ : k = k' ∧ SimVal v v' ∧ SimDoc r r' := by simpa [SimDoc] using h
      have h1 := simVal_length v v' hv
      have h2 := simDoc_length r r' hr
      simp only [vals, valsV, extractDoc, List.map_append, List.length_append] at h1 h2 ⊢
      omega
end

/-! ### what the base collector hands to `getPayload` -/

mutual
theorem simVal_types : (a b : BVal) → SimVal a b → (extractVal a).map (·.2) = (extractVal b).map (·.2)
  | .doc x, b, h => by
    cases b with
    | doc y => simpa [extractVal] using simDoc_types x y (by simpa [SimVal] using h)
    | _ => simp [SimVal] at h
  | .arr x, b, h => by
    cases b with
    | arr y => simpa [extractVal] using simDoc_types x y (by simpa [SimVal] using h)
    | _ => simp [SimVal] at h
  | .double _, b, h => by cases b <;> simp [SimVal] at h <;> simp [extractVal]
  | .bool _, b, h => by cases b <;> simp [SimVal] at h <;> simp [extractVal]
  | .datetime _, b, h => by cases b <;> simp [SimVal] at h <;> simp [extractVal]
  | .int32 _, b, h => by cases b <;> simp [SimVal] at h <;> simp [extractVal]
  | .timestamp _ _, b, h => by cases b <;> simp [SimVal] at h <;> simp [extractVal]
  | .int64 _, b, h => by cases b <;> simp [SimVal] at h <;> simp [extractVal]
  | .other _ _, b, h => by cases b <;> simp [SimVal] at h <;> simp [extractVal]
theorem simDoc_types : (a b : BDoc) → SimDoc a b → (extractDoc a).map (·.2) = (extractDoc b).map (·.2)
  | .nil, b, h => by cases b <;> simp [SimDoc] at h <;> simp [extractDoc]
  | .cons k v r, b, h => by
    cases b with
    | nil => simp [SimDoc] at h
    | cons k' v' r' =>
      obtain ⟨_, hv, hr⟩ : k = k' ∧ SimVal v v' ∧ SimDoc r r' := by simpa [SimDoc] using h
      simp only [extractDoc, List.map_append, simVal_types v v' hv, simDoc_types r r' hr]
end

/-- the base collector after the reference document `d0` and the documents `pre` -/
def Holds (n : Nat) (d0 : BDoc) (pre : List BDoc) (c : Better) : Prop :=
  c.ref = some d0 ∧ c.first = vals d0 ∧ c.rows = pre.map vals ∧ c.metadata = none ∧ c.maxDeltas = n ∧
  c.startedAt = tsDoc d0 ∧ c.last.map (·.2) = (extractDoc d0).map (·.2)

theorem better_adds_from (n : Nat) (d0 : BDoc) : ∀ (ds pre : List BDoc) (c : Better), Holds n d0 pre c →
    pre.length + ds.length ≤ n → (∀ d ∈ ds, SimDoc d0 d) →
    Holds n d0 (pre ++ ds) (ds.foldl (fun (c : Better) d => (c.add d).1) c) := by
  intro ds
  induction ds with
  | nil => intro pre c h _ _; simpa using h
  | cons d ds ih =>
    intro pre c h hl hs
    obtain ⟨h1, h2, h3, h4, h5, h6, h7⟩ := h
    have hsd := hs d (List.mem_cons_self ..)
    have hty := simDoc_types d0 d hsd
    have hlen : (extractDoc d).length = c.last.length := by
      have a := congrArg List.length hty
      have b := congrArg List.length h7
      simp at a b; omega
    have hroom : ¬ c.rows.length ≥ c.maxDeltas := by
      rw [h3, h5]; simp at hl ⊢; omega
    have hstep : Holds n d0 (pre ++ [d]) (c.add d).1 := by
      simp only [Better.add, h1, hroom, if_false, hlen, ne_eq, not_true_eq_false, h7, hty]
      exact ⟨rfl, h2, by simp [h3, vals], h4, h5, h6, hty.symm⟩
    have := ih (pre ++ [d]) (c.add d).1 hstep (by simp at hl ⊢; omega)
      (fun x hx => hs x (List.mem_cons_of_mem _ hx))
    simpa using this

/-- adding documents of the first document's schema to a fresh base collector: all are accepted
(while there is room) and the collector holds the first document as reference, its values as the
first row and the values of the others as the rows -/
theorem better_adds (n : Nat) (d0 : BDoc) (ds : List BDoc) (hl : ds.length ≤ n) (hs : ∀ d ∈ ds, SimDoc d0 d) :
    Holds n d0 ds (ds.foldl (fun (c : Better) d => (c.add d).1) (({ maxDeltas := n } : Better).add d0).1) := by
  have h0 : Holds n d0 [] (({ maxDeltas := n } : Better).add d0).1 := by
    simp [Holds, Better.add, vals]
  simpa using better_adds_from n d0 ds [] _ h0 (by simpa using hl) hs

/-! ### "same schema" is an equivalence -/
mutual
theorem simVal_symm : (a b : BVal) → SimVal a b → SimVal b a
  | .doc x, b, h => by
    cases b with
    | doc y => simpa [SimVal] using simDoc_symm x y (by simpa [SimVal] using h)
    | _ => simp [SimVal] at h
  | .arr x, b, h => by
    cases b with
    | arr y => simpa [SimVal] using simDoc_symm x y (by simpa [SimVal] using h)
    | _ => simp [SimVal] at h
  | .double _, b, h => by cases b <;> simp [SimVal] at h ⊢
  | .bool _, b, h => by cases b <;> simp [SimVal] at h ⊢
  | .datetime _, b, h => by cases b <;> simp [SimVal] at h ⊢
  | .int32 _, b, h => by cases b <;> simp [SimVal] at h ⊢
  | .timestamp _ _, b, h => by cases b <;> simp [SimVal] at h ⊢
  | .int64 _, b, h => by cases b <;> simp [SimVal] at h ⊢
  | .other _ _, b, h => by cases b <;> simp [SimVal] at h ⊢
theorem simDoc_symm : (a b : BDoc) → SimDoc a b → SimDoc b a
  | .nil, b, h => by cases b <;> simp [SimDoc] at h ⊢
  | .cons k v r, b, h => by
    cases b with
    | nil => simp [SimDoc] at h
    | cons k' v' r' =>
      obtain ⟨hk, hv, hr⟩ : k = k' ∧ SimVal v v' ∧ SimDoc r r' := by simpa [SimDoc] using h
      simp only [SimDoc]
      exact ⟨hk.symm, simVal_symm v v' hv, simDoc_symm r r' hr⟩
end

mutual
theorem simVal_trans : (a b c : BVal) → SimVal a b → SimVal b c → SimVal a c
  | .doc x, b, c, h1, h2 => by
    cases b with
    | doc y =>
      cases c with
      | doc z => simpa [SimVal] using simDoc_trans x y z (by simpa [SimVal] using h1) (by simpa [SimVal] using h2)
      | _ => simp [SimVal] at h2
    | _ => simp [SimVal] at h1
  | .arr x, b, c, h1, h2 => by
    cases b with
    | arr y =>
      cases c with
      | arr z => simpa [SimVal] using simDoc_trans x y z (by simpa [SimVal] using h1) (by simpa [SimVal] using h2)
      | _ => simp [SimVal] at h2
    | _ => simp [SimVal] at h1
  | .double _, b, c, h1, h2 => by cases b <;> simp [SimVal] at h1 <;> cases c <;> simp [SimVal] at h2 ⊢
  | .bool _, b, c, h1, h2 => by cases b <;> simp [SimVal] at h1 <;> cases c <;> simp [SimVal] at h2 ⊢
  | .datetime _, b, c, h1, h2 => by cases b <;> simp [SimVal] at h1 <;> cases c <;> simp [SimVal] at h2 ⊢
  | .int32 _, b, c, h1, h2 => by cases b <;> simp [SimVal] at h1 <;> cases c <;> simp [SimVal] at h2 ⊢
  | .timestamp _ _, b, c, h1, h2 => by cases b <;> simp [SimVal] at h1 <;> cases c <;> simp [SimVal] at h2 ⊢
  | .int64 _, b, c, h1, h2 => by cases b <;> simp [SimVal] at h1 <;> cases c <;> simp [SimVal] at h2 ⊢
  | .other _ _, b, c, h1, h2 => by cases b <;> simp [SimVal] at h1 <;> cases c <;> simp [SimVal] at h2 ⊢
theorem simDoc_trans : (a b c : BDoc) → SimDoc a b → SimDoc b c → SimDoc a c
  | .nil, b, c, h1, h2 => by cases b <;> simp [SimDoc] at h1 <;> cases c <;> simp [SimDoc] at h2 ⊢
  | .cons k v r, b, c, h1, h2 => by
    cases b with
    | nil => simp [SimDoc] at h1
    | cons k' v' r' =>
      cases c with
      | nil => simp [SimDoc] at h2
      | cons k'' v'' r'' =>
        obtain ⟨e1, a1, b1⟩ : k = k' ∧ SimVal v v' ∧ SimDoc r r' := by simpa [SimDoc] using h1
        obtain ⟨e2, a2, b2⟩ : k' = k'' ∧ SimVal v' v'' ∧ SimDoc r' r'' := by simpa [SimDoc] using h2
        simp only [SimDoc]
        exact ⟨e1.trans e2, simVal_trans v v' v'' a1 a2, simDoc_trans r r' r'' b1 b2⟩
end

/-- one more document of the reference's schema is accepted (while there is room) -/
theorem holds_step (n : Nat) (d0 : BDoc) (pre : List BDoc) (c : Better) (d : BDoc) (h : Holds n d0 pre c)
    (hl : pre.length + 1 ≤ n) (hs : SimDoc d0 d) : (c.add d).2 = .ok ∧ Holds n d0 (pre ++ [d]) (c.add d).1 := by
  obtain ⟨h1, h2, h3, h4, h5, h6, h7⟩ := h
  have hty := simDoc_types d0 d hs
  have hlen : (extractDoc d).length = c.last.length := by
    have a := congrArg List.length hty
    have b := congrArg List.length h7
    simp at a b; omega
  have hroom : ¬ c.rows.length ≥ c.maxDeltas := by
    rw [h3, h5]; simp; omega
  constructor
  · simp only [Better.add, h1, hroom, if_false, hlen, ne_eq, not_true_eq_false, h7, hty]
  · simp only [Better.add, h1, hroom, if_false, hlen, ne_eq, not_true_eq_false, h7, hty]
    exact ⟨rfl, h2, by simp [h3, vals], h4, h5, h6, hty.symm⟩

theorem holds_first (n : Nat) (d : BDoc) (b : Better) (hr : b.ref = none) (hm : b.metadata = none) (hd : b.maxDeltas = n) :
    (b.add d).2 = .ok ∧ Holds n d [] (b.add d).1 := by
  simp [Better.add, hr, Holds, vals, hm, hd]

mutual
theorem simVal_refl : (a : BVal) → SimVal a a
  | .doc x => by simpa [SimVal] using simDoc_refl x
  | .arr x => by simpa [SimVal] using simDoc_refl x
  | .double _ => by simp [SimVal]
  | .bool _ => by simp [SimVal]
  | .datetime _ => by simp [SimVal]
  | .int32 _ => by simp [SimVal]
  | .timestamp _ _ => by simp [SimVal]
  | .int64 _ => by simp [SimVal]
  | .other _ _ => by simp [SimVal]
theorem simDoc_refl : (a : BDoc) → SimDoc a a
  | .nil => by simp [SimDoc]
  | .cons k v r => by simp only [SimDoc]; exact ⟨trivial, simVal_refl v, simDoc_refl r⟩
end

end Ftdc
