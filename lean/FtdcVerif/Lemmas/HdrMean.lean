import FtdcVerif.Lemmas.HdrMergeX
/-!
# The numerator of `Mean`

`Mean` sums `count × median equivalent value` over the non-empty positions and divides by the total
(the float division is trusted).  The sum is the sum of the median equivalent values of the recorded
values, each of which is within half a range of the value itself.
-/
namespace Ftdc.Hdr

def meanStep (h : Hist) (t : Int) (p : IterPos) : Int :=
  if p.countAt ≠ 0 then t + p.countAt * (medianEquiv h p.valueFrom : Nat) else t

theorem meanNum_eq (h : Hist) : meanNum h = (iter h).foldl (meanStep h) 0 := rfl

/-- sum of `f a` over the values of `A` with index at least `j` -/
def sumFrom (g : Hist) (A : List Nat) (f : Nat → Int) (j : Nat) : Int :=
  (A.map fun a => if j ≤ idx g a then f a else 0).sum

theorem sumFrom_split (g : Hist) (A : List Nat) (f : Nat → Int) (j : Nat) :
    sumFrom g A f j = (A.map fun a => if idx g a = j then f a else 0).sum + sumFrom g A f (j + 1) := by
  unfold sumFrom
  induction A with
  | nil => rfl
  | cons a A ih =>
    simp only [List.map_cons, List.sum_cons, ih]
    by_cases h1 : idx g a = j
    · simp [h1]; omega
    · by_cases h2 : j + 1 ≤ idx g a
      · have : j ≤ idx g a := by omega
        simp [h1, h2, this]; omega
      · have : ¬ j ≤ idx g a := by omega
        simp [h1, h2, this]

theorem sum_at_index (g : Hist) (A : List Nat) (f : Nat → Int) (j : Nat) (v : Int)
    (hf : ∀ a ∈ A, idx g a = j → f a = v) :
    (A.map fun a => if idx g a = j then f a else 0).sum = ((A.countP fun a => idx g a == j : Nat) : Int) * v := by
  induction A with
  | nil => simp
  | cons a A ih =>
    have ih' := ih (fun x hx => hf x (List.mem_cons_of_mem _ hx))
    simp only [List.map_cons, List.sum_cons, List.countP_cons, ih']
    by_cases h1 : idx g a = j
    · simp [h1, hf a (List.mem_cons_self ..) h1]
      rw [Int.add_mul]; omega
    · simp [h1]

theorem sumFrom_none (g : Hist) (A : List Nat) (f : Nat → Int) (j : Nat)
    (h : ∀ a ∈ A, idx g a < j) : sumFrom g A f j = 0 := by
  unfold sumFrom
  induction A with
  | nil => rfl
  | cons a A ih =>
    have := h a (List.mem_cons_self ..)
    simp only [List.map_cons, List.sum_cons, ih (fun x hx => h x (List.mem_cons_of_mem _ hx))]
    simp; omega

theorem medianEquiv_of_pos {g : Hist} (wf : WF g) {a : Nat} (ha : a < cap g) {b s : Nat} (vp : ValidPos g b s)
    (e : b * 2 ^ g.halfMag + s = idx g a) : medianEquiv g a = medianEquiv g (valueFromIndex g b s) := by
  obtain ⟨c, r1, r2⟩ := repr_pos wf vp
  obtain ⟨e1, e2⟩ := pos_unique (validPos_of wf ha) vp e.symm
  unfold medianEquiv lowestEquiv sizeOfRange
  simp only []
  rw [r1, r2, e1]
  rw [e1] at e2
  rw [e2]

/-- the fold of `Mean` over the positions from index `j` on -/
theorem mean_fold {g : Hist} (wf : WF g) (hlen : g.counts.length = g.countsLen)
    (hn : ∀ x ∈ g.counts, 0 ≤ x) (hsum : g.counts.sum = g.total)
    (A : List Nat) (hA : ∀ a ∈ A, a < cap g)
    (hcnt : ∀ k, g.counts.getD k 0 = ((A.countP fun a => idx g a == k : Nat) : Int)) :
    ∀ (fuel b : Nat) (s : Int) (j : Nat) (t : Int),
      St (2 ^ g.halfMag) b s j → g.countsLen + 1 ≤ fuel + j →
      (iterFrom fuel g b s (pre g.counts j)).foldl (meanStep g) t =
        t + sumFrom g A (fun a => ((medianEquiv g a : Nat) : Int)) j := by
  have hnone : ∀ (j : Nat), (∀ k, j ≤ k → g.counts.getD k 0 = 0) →
      sumFrom g A (fun a => ((medianEquiv g a : Nat) : Int)) j = 0 := by
    intro j hz
    apply sumFrom_none
    intro a ha
    apply Classical.byContradiction
    intro hge
    have := hz (idx g a) (by omega)
    rw [hcnt] at this
    have hpos : 0 < A.countP fun x => idx g x == idx g a := by
      rw [List.countP_pos_iff]; exact ⟨a, ha, by simp⟩
    omega
  intro fuel
  induction fuel with
  | zero =>
    intro b s j t _ hf
    have hz : ∀ k, j ≤ k → g.counts.getD k 0 = 0 := by
      intro k hk
      rw [List.getD_eq_getElem?_getD, List.getElem?_eq_none (by omega)]; rfl
    simp [iterFrom, hnone j hz]
  | succ fuel ih =>
    intro b s j t st hf
    have hple := pre_le_sum g.counts hn j
    unfold iterFrom
    by_cases hstop : pre g.counts j ≥ g.total
    · rw [if_pos hstop]
      have hz := tail_zero g.counts hn j (by omega)
      simp [hnone j hz]
    · rw [if_neg hstop]
      obtain ⟨h0, hix, hs2, hup, st'⟩ := st_step (Nat.two_pow_pos _) st
      dsimp only
      rw [wf.subCount_eq, wf.halfCount_eq, show (2 : Nat) ^ (g.halfMag + 1) = 2 ^ g.halfMag * 2 from Nat.pow_succ ..]
      generalize hbs : (if s + 1 ≥ ((2 ^ g.halfMag * 2 : Nat) : Int) then (b + 1, ((2 ^ g.halfMag : Nat) : Int)) else (b, s + 1)) = bs at *
      obtain ⟨b1, s1⟩ := bs
      simp only at h0 hix hs2 hup st' ⊢
      have hjlt : j < g.countsLen := by
        apply Classical.byContradiction
        intro hge
        have : pre g.counts j = g.counts.sum := pre_all _ (by omega)
        omega
      have hpos : 0 < 2 ^ g.halfMag := Nat.two_pow_pos _
      have hb1 : b1 < g.bucketCount := by
        have hcl := wf.countsLen_eq
        rcases Nat.eq_zero_or_pos b1 with hz | hp
        · have := wf.bucket_pos; omega
        · have hge := hup hp
          apply Classical.byContradiction
          intro hnb
          have : (g.bucketCount + 1) * 2 ^ g.halfMag ≤ b1 * 2 ^ g.halfMag + 2 ^ g.halfMag := by
            rw [Nat.add_mul, Nat.one_mul]
            exact Nat.add_le_add_right (Nat.mul_le_mul_right _ (by omega)) _
          omega
      rw [if_neg (by omega)]
      have hs2' : s1.toNat < 2 ^ (g.halfMag + 1) := by rw [Nat.pow_succ]; exact hs2
      have vp : ValidPos g b1 s1.toNat := ⟨hb1, hs2', hup⟩
      have hcount : getCountAt g b1 s1.toNat = g.counts.getD j 0 := by
        unfold getCountAt countsIndex
        simp only [Nat.shiftLeft_eq, wf.halfCount_eq]
        have e : (((b1 + 1) * 2 ^ g.halfMag : Nat) : Int) + ((s1.toNat : Int) - ((2 ^ g.halfMag : Nat) : Int)) = (j : Int) := by
          rw [← hix, Nat.add_mul]; push_cast; omega
        rw [e, if_neg (by omega)]; simp
      have hpre : pre g.counts j + g.counts.getD j 0 = pre g.counts (j + 1) := (pre_succ _ _).symm
      rw [hcount, hpre]
      simp only [List.foldl_cons]
      have hstep : meanStep g t (IterPos.mk b1 s1.toNat (g.counts.getD j 0) (pre g.counts (j + 1))
            (valueFromIndex g b1 s1.toNat) (highestEquiv g (valueFromIndex g b1 s1.toNat))) =
          t + g.counts.getD j 0 * ((medianEquiv g (valueFromIndex g b1 s1.toNat) : Nat) : Int) := by
        unfold meanStep
        by_cases hz : g.counts.getD j 0 = 0
        · rw [if_neg (by simp only [ne_eq, hz, not_true_eq_false, not_false_eq_true]), hz, Int.zero_mul, Int.add_zero]
        · rw [if_pos hz]
      rw [hstep, ih b1 s1 (j + 1) _ st' (by omega), sumFrom_split g A _ j,
        sum_at_index g A _ j ((medianEquiv g (valueFromIndex g b1 s1.toNat) : Nat) : Int)
          (by intro a ha hia; rw [medianEquiv_of_pos wf (hA a ha) vp (by rw [hix]; exact hia.symm)]),
        hcnt j]
      omega

end Ftdc.Hdr
