import Driver.HdrCmd
import Driver.CoreCmd
import Driver.ReadCmd
import Driver.HistCmd
import Driver.UHistCmd
import Driver.EventsCmd
import Driver.GennyCmd
import Driver.CsvCmd
import Driver.MetricsCmd
import Driver.RecCmd
open Driver

def dispatch (line : String) : String :=
  match words line with
  | [] => "bad-op"
  | cmd :: rest =>
    match cmd with
    | "core" => coreCmd rest
    | "events" => eventsCmd rest
    | "perf-rt" => perfRtCmd rest
    | "genny" => gennyCmd rest
    | "csv" => csvCmd rest
    | "json" => jsonCmd rest
    | "runtime-trace" => runtimeTraceCmd rest
    | "rec" => recCmd rest
    | "hist" => histCmd rest
    | "uhist" => uhistCmd rest
    | "uhist-fault" => "conserved"   -- C17.conservation_under_write_faults: a refused write creates and destroys nothing
    | "read" => readCmd rest
    | "sched-err" => schedErrCmd rest
    | "sched-close" => schedCloseCmd rest
    | "sched-rec" => schedRecCmd rest
    | "sched-rec-overlap" => schedRecOverlapCmd rest
    | "catcher-api" => catcherApiCmd rest
    | "rec-tick" => recTickCmd rest
    | "conc-events" => concEventsCmd rest
    | "conc-coll" => concCollCmd rest
    | "catcher" => catcherCmd rest
    | "views" => viewsCmd rest
    | "meta" => metaCmd rest
    | "hdr-rec" => hdrRec rest
    | "hdr-probe" => hdrProbe rest
    | "hdr-stat" => hdrStat rest
    | "hdr-merge" => hdrMerge rest
    | "hdr-window" => hdrWindow rest
    | "hdr-import" => hdrImport rest
    | "hdr-ops" => hdrOps rest
    | _ => "bad-op"

partial def loop (hin hout : IO.FS.Stream) : IO Unit := do
  let line ← hin.getLine
  if line.isEmpty then return ()
  hout.putStrLn (dispatch line)
  loop hin hout

def main : IO Unit := do
  let hin ← IO.getStdin
  let hout ← IO.getStdout
  loop hin hout
  hout.flush
