/-
  collector_sync.go and collector_buffered.go as transition systems.
  Synchronized collector: any number of producer goroutines, each `Add` is Lock; inner.Add; Unlock.
  Buffered collector: `Add` is a select between `ctx.Done()` and a send into a bounded channel; one
  drain goroutine moves items from the channel to the wrapped collector and, once the context is
  cancelled, drains what is still queued before it stops.
-/
namespace Ftdc.ConcColl

/-! ### synchronized collector -/

inductive PPc where
  | idle | waiting (x : Nat) | inCS (x : Nat)
  deriving DecidableEq, Repr

structure SSt where
  owner : Option Nat := none              -- which producer holds the mutex
  pc : Nat → PPc := fun _ => .idle
  todo : Nat → List Nat                   -- samples a producer still has to add
  acked : Nat → List Nat := fun _ => []   -- samples whose Add returned nil, per producer, in order
  log : List (Nat × Nat) := []            -- what the wrapped collector received: (producer, sample)

def upd {α : Type} (f : Nat → α) (i : Nat) (v : α) : Nat → α := fun k => if k = i then v else f k

/-- one step of producer `g` -/
def sstep (s : SSt) (g : Nat) : Option SSt :=
  match s.pc g with
  | .idle =>
    match s.todo g with
    | [] => none
    | x :: rest => some { s with pc := upd s.pc g (.waiting x), todo := upd s.todo g rest }
  | .waiting x =>
    if s.owner = none then some { s with owner := some g, pc := upd s.pc g (.inCS x) } else none
  | .inCS x =>
    some { s with owner := none, pc := upd s.pc g .idle, log := s.log ++ [(g, x)], acked := upd s.acked g (s.acked g ++ [x]) }

def srun (s : SSt) (sched : List Nat) : SSt := sched.foldl (fun s g => (sstep s g).getD s) s

/-- the samples of producer `g` in the log, in log order -/
def logOf (s : SSt) (g : Nat) : List Nat := (s.log.filter (·.1 = g)).map (·.2)

/-! ### buffered collector -/

inductive DPc where
  | select | draining | exited
  deriving DecidableEq, Repr

structure BSt where
  cap : Nat
  queue : List Nat := []          -- the channel
  log : List Nat := []            -- what the wrapped collector received
  accepted : List Nat := []       -- samples whose Add returned nil, in channel order
  cancelled : Bool := false
  dpc : DPc := .select
  acceptedAtCancel : Nat := 0     -- ghost: how many had been accepted when the context was cancelled

inductive BAct where
  | add (x : Nat)        -- a producer's Add takes the send branch (possible while there is room)
  | cancel
  | drain                -- the drain goroutine moves

def bstep (s : BSt) : BAct → Option BSt
  | .add x =>
    -- select { case <-ctx.Done(): return err ; case pipe <- in: return nil }: the send branch needs room
    if s.queue.length < s.cap ∨ (s.cap = 0 ∧ s.dpc = .select ∧ s.queue = []) then
      some { s with queue := s.queue ++ [x], accepted := s.accepted ++ [x] }
    else none
  | .cancel => if s.cancelled then none else some { s with cancelled := true, acceptedAtCancel := s.accepted.length }
  | .drain =>
    match s.dpc with
    | .select =>
      match s.queue with
      | x :: rest => some { s with queue := rest, log := s.log ++ [x] }     -- case in := <-pipe (also possible after cancel)
      | [] => if s.cancelled then some { s with dpc := .exited } else none  -- case <-ctx.Done() with len(pipe) == 0
    | .draining =>
      match s.queue with
      | x :: rest => some { s with queue := rest, log := s.log ++ [x] }
      | [] => none                       -- `for in := range pipe` on an open, empty channel
    | .exited => none

def brun (s : BSt) (sched : List BAct) : BSt := sched.foldl (fun s a => (bstep s a).getD s) s

end Ftdc.ConcColl
