import FtdcVerif.Lemmas.Pipeline
/-!
# C06 — Close or cancellation at any point stops every reader goroutine

In the `Pipeline` transition system `cancel` is a scheduler choice that can happen at any point
(after any number of `Next` calls, before the first, after exhaustion).  After it: (1) as long
as a producer goroutine is alive, one of them can move — nobody is blocked forever, whatever the
consumer does or does not do; (2) every producer step strictly decreases a natural-number
potential, so both goroutines have exited after at most `pot s` of their own steps; (3) the
consumer then gets at most the chunks already buffered and `false` after that.
"Bounded time" is bounded steps here; wall-clock time is the harness watchdog (DESIGN §6).
-/
namespace Ftdc.Props.C06
open Ftdc.Pipeline

/-- after cancellation no goroutine of the reader can be blocked forever: while one is alive,
one can move — for every reachable state (any input, any schedule, any cancel point) -/
theorem after_cancel_no_deadlock (items : List Item) (sched : List Pid)
    (hc : (run (init true items) sched).cancelled = true)
    (hlive : (run (init true items) sched).dpc ≠ .done ∨ (run (init true items) sched).cpc ≠ .done) :
    (step (run (init true items) sched) .d).isSome ∨ (step (run (init true items) sched) .c).isSome :=
  cancelled_no_deadlock (Fails items) _ (run_inv (Fails items) sched _ (init_inv items)) hc hlive

/-- every step of a producer goroutine strictly decreases the potential -/
theorem producer_steps_decrease (s s' : St) (p : Pid) (haf : s.addFirst = true)
    (hp : p = .d ∨ p = .c) (hs : step s p = some s') : pot s' < pot s :=
  producers_progress s s' p haf hp hs

/-- the consumer and the cancel signal never increase it (they cannot resurrect a goroutine) -/
theorem other_steps_do_not_increase (s s' : St) (p : Pid) (hp : p = .u ∨ p = .cancel)
    (hs : step s p = some s') : pot s' = pot s := by
  rcases hp with rfl | rfl
  · simp only [step] at hs
    cases hu : s.upc with
    | next =>
      simp only [hu] at hs
      split at hs
      · injection hs with hs; subst hs; rfl
      · split at hs
        · injection hs with hs; subst hs; rfl
        · cases hs
    | done => simp [hu] at hs
  · simp only [step] at hs
    split at hs
    · cases hs
    · injection hs with hs; subst hs; rfl

/-- potential zero means both goroutines have exited -/
theorem pot_zero_iff_exited (s : St) : pot s = 0 ↔ s.dpc = .done ∧ s.cpc = .done := by
  unfold pot dPot cPot
  cases s.dpc <;> cases s.cpc <;> simp <;> omega

/-- after both producers have exited the consumer gets the buffered chunks and then `false`:
`Next` is never blocked -/
theorem next_after_exit_never_blocks (items : List Item) (sched : List Pid)
    (hd : (run (init true items) sched).cpc = .done) (hu : (run (init true items) sched).upc = .next) :
    (step (run (init true items) sched) .u).isSome := by
  have hinv := run_inv (Fails items) sched _ (init_inv items)
  generalize run (init true items) sched = s at *
  -- C done ⇒ pipe closed (it closes before it is done)
  simp only [step, hu]
  split
  · simp
  · split
    · simp
    · rename_i hp hcl
      exfalso
      -- needs: cpc = done → pipeClosed
      exact hcl (hinv.c_done_closed hd)

/-- cancelling twice is harmless: the second cancel is not even a step -/
theorem cancel_idempotent (s : St) (h : s.cancelled = true) : step s .cancel = none := by
  simp [step, h]

/-! non-vacuity: cancel with a full pipe and a producer blocked on its send -/
example : let s := run (init true [.good, .good, .good, .good]) [.d, .d, .c, .c, .d, .d, .c, .c, .d, .d, .c, .c, .cancel]
    s.cancelled = true ∧ s.cpc = .send ∧ (step s .c).isSome = true := by decide

end Ftdc.Props.C06
