import FtdcVerif.Model.Collector
/-
  collector_uncompressed.go and its streaming / schema-aware wrappers (collector_streaming.go).
  The output is a list of documents; rendering one document (BSON bytes, or one Extended-JSON
  line) is the flavour's job and the JSON renderer is external.
-/
namespace Ftdc

structure Uncompressed where
  batchSize : Nat
  metricCount : Nat := 0
  metadata : Option BDoc := none
  samples : List BDoc := []

inductive UAdd where
  | ok | schema | overfull
  deriving DecidableEq, Repr

namespace Uncompressed
def info (c : Uncompressed) : Nat × Nat := (c.metricCount, c.samples.length)
def reset (c : Uncompressed) : Uncompressed := { c with samples := [], metricCount := 0 }
def setMetadata (c : Uncompressed) (d : BDoc) : Uncompressed := { c with metadata := some d }

def add (c : Uncompressed) (d : BDoc) : Uncompressed × UAdd :=
  let mc := if c.metricCount = 0 then d.length else c.metricCount
  let c1 := { c with metricCount := mc }
  if d.length ≠ mc then (c1, .schema)
  else if c.samples.length ≥ c.batchSize then (c1, .overfull)
  else ({ c1 with samples := c.samples ++ [d] }, .ok)

/-- `Resolve`: metadata (if set) then every sample, in order; `none` = "no data" -/
def resolve (c : Uncompressed) : Option (List BDoc) :=
  if c.samples = [] then none else
  some (c.metadata.toList ++ c.samples)
end Uncompressed

/-- the writer of an uncompressed streaming collector: the documents written so far, per write -/
structure UStreaming where
  maxSamples : Nat
  count : Nat := 0
  inner : Uncompressed
  written : List (List BDoc) := []

namespace UStreaming
def new (n : Nat) : UStreaming := { maxSamples := n, inner := { batchSize := n } }
def info (c : UStreaming) : Nat × Nat := c.inner.info
def reset (c : UStreaming) : UStreaming := { c with count := 0, inner := c.inner.reset }
def setMetadata (c : UStreaming) (d : BDoc) : UStreaming := { c with inner := c.inner.setMetadata d }
def resolve (c : UStreaming) : Option (List BDoc) := c.inner.resolve

def flush (c : UStreaming) : UStreaming × Bool :=
  if c.info.2 = 0 then (c, true) else
  match c.resolve with
  | none => (c, false)
  | some docs => ({ c with written := c.written ++ [docs] }.reset, true)

def add (c : UStreaming) (d : BDoc) : UStreaming × Bool :=
  let (c1, ok) := if c.count ≥ c.maxSamples then c.flush else (c, true)
  if !ok then (c1, false) else
  let (u, r) := c1.inner.add d
  if r = .ok then ({ c1 with inner := u, count := c1.count + 1 }, true) else ({ c1 with inner := u }, false)
end UStreaming

structure UStreamingDynamic where
  s : UStreaming
  hash : Option (Bytes × Nat) := none

namespace UStreamingDynamic
def new (n : Nat) : UStreamingDynamic := { s := UStreaming.new n }
def info (c : UStreamingDynamic) : Nat × Nat := c.s.info
def reset (c : UStreamingDynamic) : UStreamingDynamic := { s := c.s.reset, hash := none }
def setMetadata (c : UStreamingDynamic) (d : BDoc) : UStreamingDynamic := { c with s := c.s.setMetadata d }
def resolve (c : UStreamingDynamic) : Option (List BDoc) := c.s.resolve

def flush (c : UStreamingDynamic) : UStreamingDynamic × Bool :=
  let (s', ok) := c.s.flush
  if ok ∧ c.s.info.2 ≠ 0 then ({ s := s', hash := none }, true) else ({ c with s := s' }, ok)

def add (c : UStreamingDynamic) (d : BDoc) : UStreamingDynamic × Bool :=
  let k := schemaKey d
  let needFlush : Bool := match c.hash with
    | none => decide (c.s.count > 0)
    | some h => decide (h ≠ k)
  let (c1, ok) := if needFlush then c.flush else (c, true)
  if !ok then (c1, false) else
  let (s', r) := c1.s.add d
  ({ s := s', hash := some k }, r)
end UStreamingDynamic

end Ftdc

/-! ### a writer that may refuse a write

`FlushCollector` resolves, writes, and resets only after the write succeeded.  `wok = false`: the writer refuses this
write (nothing is written, an error is returned). -/
namespace Ftdc
namespace UStreaming
def flushW (c : UStreaming) (wok : Bool) : UStreaming × Bool :=
  if c.info.2 = 0 then (c, true) else
  match c.resolve with
  | none => (c, false)
  | some docs => if wok then ({ c with written := c.written ++ [docs] }.reset, true) else (c, false)

/-- `Add` when a full batch has to be written first and the writer may refuse -/
def addW (c : UStreaming) (d : BDoc) (wok : Bool) : UStreaming × Bool :=
  let (c1, ok) := if c.count ≥ c.maxSamples then c.flushW wok else (c, true)
  if !ok then (c1, false) else
  let (u, r) := c1.inner.add d
  if r = .ok then ({ c1 with inner := u, count := c1.count + 1 }, true) else ({ c1 with inner := u }, false)
end UStreaming

/-- an operation of a history with write faults -/
inductive UFOp where
  | add (d : BDoc) (wok : Bool)
  | flush (wok : Bool)
end Ftdc

/-! the schema-aware variant over a writer that may refuse -/
namespace Ftdc
namespace UStreamingDynamic
/-- `FlushCollector` on the schema-aware variant with a writer that may refuse -/
def flushW (c : UStreamingDynamic) (wok : Bool) : UStreamingDynamic × Bool :=
  let (s', ok) := c.s.flushW wok
  if ok ∧ c.s.info.2 ≠ 0 then ({ s := s', hash := none }, true) else ({ c with s := s' }, ok)

/-- does `Add` flush first? (a sample after a reset with samples pending, or another schema) -/
def needFlush (c : UStreamingDynamic) (d : BDoc) : Bool :=
  match c.hash with
  | none => decide (c.s.count > 0)
  | some h => decide (h ≠ schemaKey d)

def addWWith (c : UStreamingDynamic) (d : BDoc) (nf wok1 wok2 : Bool) : UStreamingDynamic × Bool :=
  let (c1, ok) := if nf then c.flushW wok1 else (c, true)
  if !ok then (c1, false) else
  let (s', r) := c1.s.addW d wok2
  ({ s := s', hash := some (schemaKey d) }, r)

/-- `Add` with a writer that may refuse the schema-change flush (`wok1`) and the full-batch flush (`wok2`) -/
def addW (c : UStreamingDynamic) (d : BDoc) (wok1 wok2 : Bool) : UStreamingDynamic × Bool :=
  c.addWWith d (c.needFlush d) wok1 wok2
end UStreamingDynamic
inductive UDOp where
  | add (d : BDoc) (wok1 wok2 : Bool)
  | flush (wok : Bool)
end Ftdc
