import FtdcVerif.Gen.Code
import FtdcVerif.Model.Codec
import FtdcVerif.Lemmas.Codec
/-! The zero-run encoder of `getPayload` (collector_better.go), as regenerated from the Go text
(`Gen.Better.getPayload_region`), emits exactly the model's `rleEnc` of the metric-major delta cells. -/
namespace Ftdc.PayloadTie
open Ftdc Ftdc.Gen Ftdc.Gen.Better

/-- one step of the encoder's state (values emitted so far, pending zero count) -/
def stepV (st : List Int × Int) (d : Int) : List Int × Int :=
  if d = 0 then (st.1, st.2 + 1)
  else ((if st.2 > 0 then st.1 ++ [0] ++ [st.2 - 1] else st.1) ++ [d], if st.2 > 0 then 0 else st.2)

def finish (st : List Int × Int) : List Int :=
  if st.2 > 0 then st.1 ++ [0] ++ [st.2 - 1] else st.1

/-- cell (metric i, sample j) of the delta table -/
def cell (ds : List Int) (md : Int) (i j : Nat) : Int := Go.index ds ((i : Int) * md + (j : Int))

def row (ds : List Int) (md : Int) (i j n : Nat) : List Int := (List.range' j n).map (cell ds md i)

def rows (ds : List Int) (md : Int) (ns : Nat) (i n : Nat) : List Int :=
  ((List.range' i n).map fun i => row ds md i 0 ns).flatten

theorem inner_tie (ds : List Int) (md : Int) (ns i : Nat) :
    ∀ (n j : Nat) (out : List Int) (zc : Int), j + n = ns →
      getPayload_loop2 ds md (ns : Int) (i : Int) n (j : Int) out zc
        = ((ns : Int), ((row ds md i j n).foldl stepV (out, zc)).1, ((row ds md i j n).foldl stepV (out, zc)).2) := by
  intro n
  induction n with
  | zero =>
    intro j out zc h
    simp only [Nat.add_zero] at h
    subst h
    simp [getPayload_loop2, row]
  | succ n ih =>
    intro j out zc h
    have hlt : (j : Int) < (ns : Int) := by omega
    have hcell : Go.index ds (getOffset md (j : Int) (i : Int)) = cell ds md i j := by
      simp [getOffset, cell]
    unfold getPayload_loop2
    simp only [hlt, if_true, hcell]
    have hrow : row ds md i j (n + 1) = cell ds md i j :: row ds md i (j + 1) n := by
      simp [row, List.range'_succ]
    rw [hrow, List.foldl_cons]
    have hj : ((j : Int) + 1) = ((j + 1 : Nat) : Int) := by omega
    by_cases hz : cell ds md i j = 0
    · simp only [hz, if_true]
      rw [hj, ih (j + 1) out (zc + 1) (by omega)]
      simp [stepV]
    · simp only [hz, if_false]
      by_cases hp : zc > 0
      · simp only [hp, if_true]
        rw [hj, ih (j + 1) _ 0 (by omega)]
        simp [stepV, hz, hp]
      · simp only [hp, if_false]
        rw [hj, ih (j + 1) _ zc (by omega)]
        simp [stepV, hz, hp]

theorem outer_tie (ds : List Int) (md : Int) (ns nm : Nat) :
    ∀ (n i : Nat) (out : List Int) (zc : Int), i + n = nm →
      getPayload_loop1 ds md (ns : Int) (nm : Int) n (i : Int) out zc
        = ((nm : Int), ((rows ds md ns i n).foldl stepV (out, zc)).1, ((rows ds md ns i n).foldl stepV (out, zc)).2) := by
  intro n
  induction n with
  | zero =>
    intro i out zc h
    simp only [Nat.add_zero] at h
    subst h
    simp [getPayload_loop1, rows]
  | succ n ih =>
    intro i out zc h
    have hlt : (i : Int) < (nm : Int) := by omega
    unfold getPayload_loop1
    simp only [hlt, if_true]
    have h0 : Int.toNat ((ns : Int) - 0) = ns := by omega
    have hin := inner_tie ds md ns i ns 0 out zc (by omega)
    simp only [Int.natCast_zero] at hin
    simp only [h0, hin]
    have hi : ((i : Int) + 1) = ((i + 1 : Nat) : Int) := by omega
    rw [hi, ih (i + 1) _ _ (by omega)]
    have hrows : rows ds md ns i (n + 1) = row ds md i 0 ns ++ rows ds md ns (i + 1) n := by
      simp [rows, List.range'_succ]
    rw [hrows, List.foldl_append]

/-- the regenerated region = the fold of the encoder step over all cells, then the final flush -/
theorem region_tie (ds : List Int) (md : Int) (ns nm : Nat) (out : List Int) :
    getPayload_region ds md (ns : Int) (nm : Int) out = finish ((rows ds md ns 0 nm).foldl stepV (out, 0)) := by
  unfold getPayload_region
  have h0 : Int.toNat ((nm : Int) - 0) = nm := by omega
  have ho := outer_tie ds md ns nm nm 0 out 0 (by omega)
  simp only [Int.natCast_zero] at ho
  simp only [h0, ho, finish]

/-- the bytes of a sequence of values handed to `encodeValue` -/
def emitBytes (vs : List Int) : Bytes := vs.flatMap fun v => putUvarint (BitVec.ofInt 64 v).toNat

theorem emitBytes_append (a b : List Int) : emitBytes (a ++ b) = emitBytes a ++ emitBytes b := by
  simp [emitBytes, List.flatMap_append]

theorem sum_map_const (l : List Nat) (c : Nat) : (l.map fun _ => c).sum = l.length * c := by
  induction l with
  | nil => simp
  | cons a l ih => simp [ih, Nat.succ_mul]; omega

theorem emitBytes_nil : emitBytes [] = [] := rfl
theorem emitBytes_cons (v : Int) (vs : List Int) :
    emitBytes (v :: vs) = putUvarint (BitVec.ofInt 64 v).toNat ++ emitBytes vs := by
  simp [emitBytes]
theorem ofInt0 : (BitVec.ofInt 64 0).toNat = 0 := by decide

theorem ofInt_toNat_small (v : Int) (h0 : 0 ≤ v) (h1 : v < 2 ^ 63) : (BitVec.ofInt 64 v).toNat = v.toNat := by
  rw [BitVec.toNat_ofInt]
  have : v % (2 ^ 64 : Nat) = v := Int.emod_eq_of_lt h0 (by omega)
  rw [this]

theorem ofInt_eq_zero_iff (d : Int) (h0 : -2 ^ 63 ≤ d) (h1 : d < 2 ^ 63) : BitVec.ofInt 64 d = 0#64 ↔ d = 0 := by
  constructor
  · intro h
    have := congrArg BitVec.toNat h
    rw [BitVec.toNat_ofInt] at this
    simp at this
    omega
  · intro h; subst h; rfl

theorem emit_fold (cells : List Int) : ∀ (out : List Int) (zc : Nat),
    (∀ x ∈ cells, -2 ^ 63 ≤ x ∧ x < 2 ^ 63) → zc + cells.length < 2 ^ 63 →
    emitBytes (finish (cells.foldl stepV (out, (zc : Int))))
      = emitBytes out ++ rleEncAux zc (cells.map (BitVec.ofInt 64)) := by
  induction cells with
  | nil =>
    intro out zc _ hz
    simp only [List.foldl_nil, finish, List.map_nil, rleEncAux]
    by_cases hp : zc > 0
    · have hp' : (zc : Int) > 0 := by omega
      simp only [hp, hp', if_true, emitBytes_append]
      have h1 : (BitVec.ofInt 64 ((zc : Int) - 1)).toNat = zc - 1 := by
        rw [ofInt_toNat_small _ (by omega) (by omega)]; omega
      simp only [emitBytes_cons, emitBytes_nil, h1, ofInt0, List.append_nil, List.append_assoc]
    · have hp' : ¬ (zc : Int) > 0 := by omega
      simp [hp]
  | cons d ds ih =>
    intro out zc hr hz
    have hd := hr d (by simp)
    have hr' : ∀ x ∈ ds, -2 ^ 63 ≤ x ∧ x < 2 ^ 63 := fun x hx => hr x (by simp [hx])
    simp only [List.length_cons] at hz
    simp only [List.foldl_cons, List.map_cons, rleEncAux]
    by_cases h0 : d = 0
    · subst h0
      have : stepV (out, (zc : Int)) 0 = (out, ((zc + 1 : Nat) : Int)) := by simp [stepV]
      rw [this, ih out (zc + 1) hr' (by omega)]
      simp
    · have hne : ¬ BitVec.ofInt 64 d = 0#64 := fun h => h0 ((ofInt_eq_zero_iff d hd.1 hd.2).1 h)
      simp only [hne, if_false]
      by_cases hp : zc > 0
      · have hp' : (zc : Int) > 0 := by omega
        have : stepV (out, (zc : Int)) d = (out ++ [0] ++ [(zc : Int) - 1] ++ [d], ((0 : Nat) : Int)) := by
          simp only [stepV, h0, hp', if_true, if_false]; rfl
        rw [this, ih _ 0 hr' (by omega)]
        have h1 : (BitVec.ofInt 64 ((zc : Int) - 1)).toNat = zc - 1 := by
          rw [ofInt_toNat_small _ (by omega) (by omega)]; omega
        simp only [hp, if_true, emitBytes_append, emitBytes_cons, emitBytes_nil, h1, ofInt0, encodeValue,
          List.append_nil, List.append_assoc]
      · have hp' : ¬ (zc : Int) > 0 := by omega
        have hz0 : zc = 0 := by omega
        subst hz0
        have : stepV (out, ((0 : Nat) : Int)) d = (out ++ [d], ((0 : Nat) : Int)) := by
          simp [stepV, h0]
        rw [this, ih _ 0 hr' (by omega)]
        simp only [emitBytes_append, emitBytes_cons, emitBytes_nil, encodeValue, List.append_nil, List.append_assoc,
          Nat.lt_irrefl, gt_iff_lt, if_false, List.nil_append]

/-- **the regenerated encoder loop is the model's zero-run encoder**: for a delta table `ds` (row length `md`) with
`nm` metrics and `ns` samples, all cells 64-bit, the bytes of the values the Go loop hands to `encodeValue` are
`rleEnc` of the metric-major cells. -/
theorem getPayload_region_is_rleEnc (ds : List Int) (md : Int) (ns nm : Nat)
    (hr : ∀ x ∈ ds, -2 ^ 63 ≤ x ∧ x < 2 ^ 63) (hsz : nm * ns < 2 ^ 63) :
    emitBytes (getPayload_region ds md (ns : Int) (nm : Int) [])
      = rleEnc ((rows ds md ns 0 nm).map (BitVec.ofInt 64)) := by
  rw [region_tie]
  have hcells : ∀ x ∈ rows ds md ns 0 nm, -2 ^ 63 ≤ x ∧ x < 2 ^ 63 := by
    intro x hx
    simp only [rows, row, List.mem_flatten, List.mem_map] at hx
    obtain ⟨l, ⟨i, _, rfl⟩, hx⟩ := hx
    simp only [List.mem_map] at hx
    obtain ⟨j, _, rfl⟩ := hx
    unfold cell Go.index
    split
    · omega
    · rw [List.getD_eq_getElem?_getD]
      cases hk : ds[((i : Int) * md + (j : Int)).toNat]? with
      | none => simp
      | some v => simpa using hr v (List.mem_of_getElem? hk)
  have hlen : (rows ds md ns 0 nm).length = nm * ns := by
    simp [rows, row, List.length_flatten, List.map_map, Function.comp_def, sum_map_const]
  have := emit_fold (rows ds md ns 0 nm) [] 0 hcells (by omega)
  simpa [rleEnc, emitBytes] using this
end Ftdc.PayloadTie

namespace Ftdc.PayloadTie
open Ftdc Ftdc.Gen Ftdc.Gen.Better

/-- the delta table the collector keeps (`c.deltas`, row length `c.maxDeltas`) holds the model's per-metric deltas:
cell (metric i, sample j) is the j-th delta of metric i -/
def TableHolds (ds : List Int) (md : Int) (first : Row) (rws : List Row) : Prop :=
  ∀ i, i < first.length → ∀ j, j < rws.length →
    BitVec.ofInt 64 (cell ds md i j) = (deltas (first.getD i 0) (column rws i)).getD j 0

theorem rows_eq_cols (ds : List Int) (md : Int) (first : Row) (rws : List Row) (h : TableHolds ds md first rws) :
    (rows ds md rws.length 0 first.length).map (BitVec.ofInt 64)
      = ((List.range first.length).map fun i => deltas (first.getD i 0) (column rws i)).flatten := by
  unfold rows
  rw [List.map_flatten, List.map_map, List.range_eq_range']
  congr 1
  apply List.map_congr_left
  intro i hi
  have hi' : i < first.length := by simpa [List.mem_range'_1] using hi
  simp only [Function.comp_def, row, List.map_map]
  apply List.ext_getElem
  · simp [deltas_length, column]
  · intro j h1 h2
    simp only [List.length_map, List.length_range'] at h1
    have := h i hi' j h1
    simp only [List.getElem_map, List.getElem_range', Nat.zero_add, Nat.one_mul]
    rw [this, List.getD_eq_getElem?_getD, List.getElem?_eq_getElem h2]
    rfl

/-- **`getPayload`'s payload, with the regenerated loop in it**: the model's payload is the reference document, the
two counts and the bytes of the values the Go loop hands to `encodeValue`. -/
theorem payloadOf_is_go_loop (ref : BDoc) (first : Row) (rws : List Row) (ds : List Int) (md : Int)
    (h : TableHolds ds md first rws) (hr : ∀ x ∈ ds, -2 ^ 63 ≤ x ∧ x < 2 ^ 63)
    (hsz : first.length * rws.length < 2 ^ 63) :
    payloadOf ref first rws
      = serDoc ref ++ le32 first.length ++ le32 rws.length
          ++ emitBytes (getPayload_region ds md (rws.length : Int) (first.length : Int) []) := by
  rw [getPayload_region_is_rleEnc ds md rws.length first.length hr hsz, rows_eq_cols ds md first rws h]
  rfl
end Ftdc.PayloadTie
