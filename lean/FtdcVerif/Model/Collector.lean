import FtdcVerif.Model.Codec
/-
  The compressing collectors as state machines: collector_better.go, collector_batch.go,
  collector_dynamic.go, collector_streaming.go, writer.go, bson_hash.go.
  Output is kept at the level of top-level FTDC documents with the chunk payload
  uncompressed (`OutDoc`); zlib is an external function (DESIGN §3).
-/
namespace Ftdc

/-- one top-level document of the output stream -/
inductive OutDoc where
  | metaDoc (id : Ts) (doc : BDoc)        -- {_id, type: 0, doc}
  /-- {_id, type: 1, data: le32 |payload| ++ deflate payload} with payload = `payloadOf ref first rows` -/
  | chunk (id : Ts) (ref : BDoc) (first : Row) (rows : List Row)
  deriving Inhabited

/-- the (uncompressed) payload of an output document -/
def OutDoc.payload : OutDoc → Bytes
  | .metaDoc _ _ => []
  | .chunk _ ref first rows => payloadOf ref first rows

/-- the samples an output document holds, as rows of metric values -/
def OutDoc.samples : OutDoc → List Row
  | .metaDoc _ _ => []
  | .chunk _ _ first rows => first :: rows

/-! ### bson_hash.go (after fix F10: every hashed key is NUL-terminated) -/
mutual
def hashVal (key : Bytes) : BVal → Bytes × Nat
  | .doc d => hashElems key d
  | .arr d => hashArr key 0 d
  | .timestamp _ _ => (key ++ [0], 2)
  | .other _ _ => ([], 0)
  | _ => (key ++ [0], 1)
def hashElems (key : Bytes) : BDoc → Bytes × Nat
  | .nil => ([], 0)
  | .cons k v r =>
    let a := hashVal (key ++ [dot] ++ k) v
    let b := hashElems key r
    (a.1 ++ b.1, a.2 + b.2)
def hashArr (key : Bytes) (idx : Nat) : BDoc → Bytes × Nat
  | .nil => ([], 0)
  | .cons _ v r =>
    let a := hashVal (key ++ [dot] ++ decimal idx) v
    let b := hashArr key (idx + 1) r
    (a.1 ++ b.1, a.2 + b.2)
end

/-- the byte string fed to FNV-64 and the metric count (`metricKeyHash`) -/
def schemaKey (d : BDoc) : Bytes × Nat := hashElems [] d

/-! ### betterCollector -/
structure Better where
  maxDeltas : Nat
  metadata : Option BDoc := none
  ref : Option BDoc := none
  startedAt : Ts := .none
  last : List (I64 × Ty) := []
  first : Row := []
  rows : List Row := []
  deriving Inhabited

inductive AddResult where
  | ok | overfull | schema | types
  deriving DecidableEq, Repr

namespace Better

def info (c : Better) : Nat × Nat :=   -- (MetricsCount, SampleCount)
  ((if c.ref.isSome then c.last.length else 0), (if c.ref.isSome then 1 else 0) + c.rows.length)

def reset (c : Better) : Better := { c with ref := none, last := [], first := [], rows := [] }

def setMetadata (c : Better) (d : BDoc) : Better := { c with metadata := some d }

def add (c : Better) (d : BDoc) : Better × AddResult :=
  let m := extractDoc d
  match c.ref with
  | none => ({ c with ref := some d, startedAt := tsDoc d, last := m, first := m.map (·.1), rows := [] }, .ok)
  | some _ =>
    if c.rows.length ≥ c.maxDeltas then (c, .overfull)
    else if m.length ≠ c.last.length then (c, .schema)
    else if m.map (·.2) ≠ c.last.map (·.2) then (c, .types)
    else ({ c with last := m, rows := c.rows ++ [m.map (·.1)] }, .ok)

/-- `Resolve`: `none` = "no reference document" -/
def resolve (c : Better) : Option (List OutDoc) :=
  match c.ref with
  | none => none
  | some ref =>
    let ch := OutDoc.chunk c.startedAt ref c.first c.rows
    match c.metadata with
    | some md => some [.metaDoc c.startedAt md, ch]
    | none => some [ch]

end Better

/-! ### batchCollector -/
structure Batch where
  maxSamples : Nat
  chunks : List Better
  deriving Inhabited

namespace Batch
def new (n : Nat) : Batch := { maxSamples := n, chunks := [{ maxDeltas := n }] }

def info (c : Batch) : Nat × Nat :=
  c.chunks.foldl (fun acc b => (acc.1 + b.info.1, acc.2 + b.info.2)) (0, 0)

def reset (c : Batch) : Batch := new c.maxSamples

def setMetadata (c : Batch) (d : BDoc) : Batch :=
  match c.chunks with
  | [] => c
  | b :: r => { c with chunks := b.setMetadata d :: r }

def add (c : Batch) (d : BDoc) : Batch × AddResult :=
  match c.chunks.getLast? with
  | none => (c, .ok)
  | some last =>
    if last.info.2 ≥ c.maxSamples then
      let (b, r) := Better.add { maxDeltas := c.maxSamples } d
      ({ c with chunks := c.chunks ++ [b] }, r)
    else
      let (b, r) := last.add d
      ({ c with chunks := c.chunks.dropLast ++ [b] }, r)

def resolve (c : Batch) : Option (List OutDoc) :=
  c.chunks.foldl (fun acc b => match acc, b.resolve with
    | some l, some o => some (l ++ o)
    | _, _ => none) (some [])
end Batch

/-! ### dynamicCollector (after fix F8: the hash follows the schema) -/
structure Dynamic where
  maxSamples : Nat
  chunks : List Batch
  hash : Option (Bytes × Nat) := none     -- `hash == ""` is `none`; count kept in `currentNum`
  deriving Inhabited

namespace Dynamic
def new (n : Nat) : Dynamic := { maxSamples := n, chunks := [Batch.new n] }

def info (c : Dynamic) : Nat × Nat :=
  c.chunks.foldl (fun acc b => (acc.1 + b.info.1, acc.2 + b.info.2)) (0, 0)

def reset (c : Dynamic) : Dynamic := new c.maxSamples

def setMetadata (c : Dynamic) (d : BDoc) : Dynamic :=
  match c.chunks with
  | [] => c
  | b :: r => { c with chunks := b.setMetadata d :: r }

def add (c : Dynamic) (d : BDoc) : Dynamic × AddResult :=
  let k := schemaKey d
  match c.hash with
  | none =>
    match c.chunks with
    | [] => (c, .ok)
    | b :: r => let (b', res) := b.add d; ({ c with hash := some k, chunks := b' :: r }, res)
  | some h =>
    if h.1 = k.1 then
      match c.chunks.getLast? with
      | none => (c, .ok)
      | some last => let (b', res) := last.add d; ({ c with chunks := c.chunks.dropLast ++ [b'] }, res)
    else
      let (b', res) := (Batch.new c.maxSamples).add d
      ({ c with hash := some k, chunks := c.chunks ++ [b'] }, res)

def resolve (c : Dynamic) : Option (List OutDoc) :=
  c.chunks.foldl (fun acc b => match acc, b.resolve with
    | some l, some o => some (l ++ o)
    | _, _ => none) (some [])
end Dynamic

/-! ### the writer: a log of `Write` calls with scripted results -/
inductive WriteResult where
  | ok            -- everything written
  | fail          -- error, nothing consumed
  | short (n : Nat)   -- n bytes consumed (n < len), error or short count
  deriving DecidableEq, Repr

inductive WEntry where
  | full (docs : List OutDoc)
  | partialWrite (docs : List OutDoc) (n : Nat)

structure Writer where
  log : List WEntry := []
  script : List WriteResult := []     -- results of the next Write calls (then `ok` forever)

def Writer.write (w : Writer) (docs : List OutDoc) : Writer × Bool :=
  match w.script with
  | [] => ({ w with log := w.log ++ [.full docs] }, true)
  | .ok :: s => ({ log := w.log ++ [.full docs], script := s }, true)
  | .fail :: s => ({ w with script := s }, false)
  | .short n :: s => ({ log := w.log ++ [.partialWrite docs n], script := s }, false)

/-! ### streamingCollector over a betterCollector -/
structure Streaming where
  maxSamples : Nat
  count : Nat := 0
  inner : Better
  out : Writer := {}

inductive SAddResult where
  | ok | flushErr | inner (r : AddResult)
  deriving DecidableEq, Repr

namespace Streaming
def new (n : Nat) : Streaming := { maxSamples := n, inner := { maxDeltas := n } }

def info (c : Streaming) : Nat × Nat := c.inner.info
def reset (c : Streaming) : Streaming := { c with count := 0, inner := c.inner.reset }
def setMetadata (c : Streaming) (d : BDoc) : Streaming := { c with inner := c.inner.setMetadata d }
def resolve (c : Streaming) : Option (List OutDoc) := c.inner.resolve

/-- `FlushCollector(c, c.output)`; `false` = error returned (nothing reset) -/
def flush (c : Streaming) : Streaming × Bool :=
  if c.info.2 = 0 then (c, true) else
  match c.resolve with
  | none => (c, false)
  | some docs =>
    let (w, ok) := c.out.write docs
    if ok then ({ c with out := w }.reset, true) else ({ c with out := w }, false)

def add (c : Streaming) (d : BDoc) : Streaming × SAddResult :=
  let (c1, ok) := if c.count ≥ c.maxSamples then c.flush else (c, true)
  if !ok then (c1, .flushErr) else
  let (b, r) := c1.inner.add d
  if r = .ok then ({ c1 with inner := b, count := c1.count + 1 }, .ok) else (c1, .inner r)
end Streaming

/-! ### streamingDynamicCollector (after fixes F9/F16: `Reset` keeps the wrapped collector,
the hash is set after a flush on schema change) -/
structure StreamingDynamic where
  s : Streaming
  hash : Option (Bytes × Nat) := none

namespace StreamingDynamic
def new (n : Nat) : StreamingDynamic := { s := Streaming.new n }
def info (c : StreamingDynamic) : Nat × Nat := c.s.info
def reset (c : StreamingDynamic) : StreamingDynamic := { s := c.s.reset, hash := none }
def setMetadata (c : StreamingDynamic) (d : BDoc) : StreamingDynamic := { c with s := c.s.setMetadata d }
def resolve (c : StreamingDynamic) : Option (List OutDoc) := c.s.resolve

/-- `FlushCollector(c, c.output)` with `c` the streaming-dynamic collector: its `Reset` runs -/
def flush (c : StreamingDynamic) : StreamingDynamic × Bool :=
  let (s', ok) := c.s.flush
  if ok ∧ c.s.info.2 ≠ 0 then ({ s := s', hash := none }, true) else ({ c with s := s' }, ok)

def add (c : StreamingDynamic) (d : BDoc) : StreamingDynamic × SAddResult :=
  let k := schemaKey d
  match c.hash with
  | none =>
    let (c1, ok) := if c.s.count > 0 then c.flush else (c, true)
    if !ok then (c1, .flushErr) else
    let (s', r) := c1.s.add d
    ({ s := s', hash := some k }, r)
  | some h =>
    let (c1, ok) := if h ≠ k then c.flush else (c, true)
    if !ok then (c1, .flushErr) else
    let (s', r) := c1.s.add d
    ({ s := s', hash := some k }, r)
end StreamingDynamic

end Ftdc
