import FtdcVerif.Model.Bson
/-
  events/performance.go and events/collector.go: performance events and the collectors that
  persist running totals.  Counters and timers are int64 (wrapping), time stamps are
  milliseconds since the epoch (what reaches the FTDC document).
-/
namespace Ftdc.Events

abbrev I64 := BitVec 64

structure Perf where
  ts : I64 := 0          -- milliseconds
  id : I64 := 0
  n : I64 := 0
  ops : I64 := 0
  size : I64 := 0
  errors : I64 := 0
  dur : I64 := 0
  total : I64 := 0
  state : I64 := 0
  workers : I64 := 0
  failed : Bool := false
  deriving DecidableEq, Repr, Inhabited

/-- the id rule of `Performance.Add`: a zero id becomes the previous id plus one -/
def nextId (prev inId : I64) : I64 := if inId = 0 then prev + 1 else inId

/-- `p.Add(in)`: counters and timers are summed, time stamp, id and gauges are the event's -/
def Perf.add (p e : Perf) : Perf :=
  { ts := e.ts, id := nextId p.id e.id,
    n := p.n + e.n, ops := p.ops + e.ops, size := p.size + e.size, errors := p.errors + e.errors,
    dur := p.dur + e.dur, total := p.total + e.total,
    state := e.state, workers := e.workers, failed := e.failed }

/-- an event handed to `AddEvent`: `none` is a nil pointer -/
abbrev Ev := Option Perf

/-- cumulative collector (`NewBasicCollector`): state = running total, output = what is
handed to the wrapped collector (`none` = refused) -/
def basicStep (cur : Option Perf) (e : Ev) : Option Perf × Option Perf :=
  match e with
  | none => (cur, none)
  | some ev =>
    match cur with
    | none => (some ev, some ev)
    | some c => let c' := c.add ev; (some c', some c')

structure Sampling where
  sample : Nat
  count : Nat := 0
  cur : Option Perf := none

/-- `NewSamplingCollector(n)`: totals always accumulate, every n-th event (0, n, 2n, …) is written -/
def samplingStep (s : Sampling) (e : Ev) : Sampling × Option Perf × Bool :=   -- (state, written, accepted)
  match e with
  | none => (s, none, false)
  | some ev =>
    let c' := match s.cur with
      | none => ev
      | some c => c.add ev
    let collect := s.count % s.sample = 0
    ({ s with cur := some c', count := s.count + 1 }, (if collect then some c' else none), true)

def passthroughStep (e : Ev) : Option Perf := e

/-- run a cumulative collector over events: the list of written samples -/
def basicRun : Option Perf → List Ev → List Perf
  | _, [] => []
  | cur, e :: es =>
    let (cur', w) := basicStep cur e
    (match w with | some p => [p] | none => []) ++ basicRun cur' es

def samplingRun : Sampling → List Ev → List Perf
  | _, [] => []
  | s, e :: es =>
    let (s', w, _) := samplingStep s e
    (match w with | some p => [p] | none => []) ++ samplingRun s' es

/-- `NewRandomSamplingCollector`, `NewIntervalCollector`: the totals always accumulate and the running total is
written when a gate opens - a pseudo-random draw, or "the interval has elapsed".  The outcome of the gate at each
non-nil event is a parameter (`gates`, `false` once the list is used up), so a statement for all `gates` is a statement
for every outcome of the random generator and every timing. -/
def gatedRun : Option Perf → List Bool → List Ev → List Perf
  | _, _, [] => []
  | cur, gs, none :: es => gatedRun cur gs es
  | cur, gs, some ev :: es =>
    let c' := match cur with
      | none => ev
      | some c => c.add ev
    (if gs.headD false then [c'] else []) ++ gatedRun (some c') gs.tail es

/-! ### MarshalDocument / UnmarshalDocument -/

def k_counters : Bytes := [99, 111, 117, 110, 116, 101, 114, 115]   -- "counters"
def k_dur : Bytes := [100, 117, 114]   -- "dur"
def k_errors : Bytes := [101, 114, 114, 111, 114, 115]   -- "errors"
def k_failed : Bytes := [102, 97, 105, 108, 101, 100]   -- "failed"
def k_gauges : Bytes := [103, 97, 117, 103, 101, 115]   -- "gauges"
def k_id : Bytes := [105, 100]   -- "id"
def k_n : Bytes := [110]   -- "n"
def k_ops : Bytes := [111, 112, 115]   -- "ops"
def k_size : Bytes := [115, 105, 122, 101]   -- "size"
def k_state : Bytes := [115, 116, 97, 116, 101]   -- "state"
def k_timers : Bytes := [116, 105, 109, 101, 114, 115]   -- "timers"
def k_total : Bytes := [116, 111, 116, 97, 108]   -- "total"
def k_ts : Bytes := [116, 115]   -- "ts"
def k_workers : Bytes := [119, 111, 114, 107, 101, 114, 115]   -- "workers"

def marshal (p : Perf) : BDoc :=
  .cons k_ts (.datetime p.ts) <|
  .cons k_id (.int64 p.id) <|
  .cons k_counters (.doc (
    .cons k_n (.int64 p.n) <| .cons k_ops (.int64 p.ops) <|
    .cons k_size (.int64 p.size) <| .cons k_errors (.int64 p.errors) .nil)) <|
  .cons k_timers (.doc (
    .cons k_dur (.int64 p.dur) <| .cons k_total (.int64 p.total) .nil)) <|
  .cons k_gauges (.doc (
    .cons k_state (.int64 p.state) <| .cons k_workers (.int64 p.workers) <|
    .cons k_failed (.bool p.failed) .nil)) .nil

def i64Of : BVal → I64
  | .int64 v => v
  | _ => 0

def unmarshalCounters (p : Perf) : BDoc → Perf
  | .nil => p
  | .cons key v r =>
    let p' := if key = k_n then { p with n := i64Of v }
      else if key = k_ops then { p with ops := i64Of v }
      else if key = k_size then { p with size := i64Of v }
      else if key = k_errors then { p with errors := i64Of v }
      else p
    unmarshalCounters p' r

def unmarshalTimers (p : Perf) : BDoc → Perf
  | .nil => p
  | .cons key v r =>
    let p' := if key = k_dur then { p with dur := i64Of v }
      else if key = k_total then { p with total := i64Of v }
      else p
    unmarshalTimers p' r

def unmarshalGauges (p : Perf) : BDoc → Perf
  | .nil => p
  | .cons key v r =>
    let p' := if key = k_state then { p with state := i64Of v }
      else if key = k_workers then { p with workers := i64Of v }
      else if key = k_failed then { p with failed := match v with | .bool b => b | _ => false }
      else p
    unmarshalGauges p' r

/-- `Performance.UnmarshalDocument` (after fix F13) -/
def unmarshal (p : Perf) : BDoc → Perf
  | .nil => p
  | .cons key v r =>
    let p' := if key = k_ts then { p with ts := match v with | .datetime t => t | _ => 0 }
      else if key = k_id then { p with id := i64Of v }
      else if key = k_counters then (match v with | .doc d => unmarshalCounters p d | _ => p)
      else if key = k_timers then (match v with | .doc d => unmarshalTimers p d | _ => p)
      else if key = k_gauges then (match v with | .doc d => unmarshalGauges p d | _ => p)
      else p
    unmarshal p' r

end Ftdc.Events
