/- helpers for the line protocol (core Lean only) -/
namespace Driver

def hexDigit (c : Char) : Option Nat :=
  if '0' ≤ c ∧ c ≤ '9' then some (c.toNat - '0'.toNat)
  else if 'a' ≤ c ∧ c ≤ 'f' then some (c.toNat - 'a'.toNat + 10)
  else if 'A' ≤ c ∧ c ≤ 'F' then some (c.toNat - 'A'.toNat + 10)
  else none

def hexDecodeAux : List Char → List Nat → Option (List Nat)
  | [], acc => some acc.reverse
  | [_], _ => none
  | a :: b :: rest, acc =>
    match hexDigit a, hexDigit b with
    | some x, some y => hexDecodeAux rest ((x * 16 + y) :: acc)
    | _, _ => none

/-- "-" denotes the empty byte string -/
def hexDecode (s : String) : Option (List Nat) :=
  if s == "-" then some [] else hexDecodeAux s.toList []

def hexChar (n : Nat) : Char :=
  if n < 10 then Char.ofNat ('0'.toNat + n) else Char.ofNat ('a'.toNat + n - 10)

def hexEncode (bs : List Nat) : String :=
  if bs.isEmpty then "-" else
  String.ofList (bs.foldr (fun b acc => hexChar (b / 16 % 16) :: hexChar (b % 16) :: acc) [])

def isSep (c : Char) : Bool := c == ' ' || c == '\t' || c == '\n' || c == '\r'

def wordsAux : List Char → List Char → List String → List String
  | [], cur, acc => (if cur.isEmpty then acc else String.ofList cur.reverse :: acc).reverse
  | c :: rest, cur, acc =>
    if isSep c then wordsAux rest [] (if cur.isEmpty then acc else String.ofList cur.reverse :: acc)
    else wordsAux rest (c :: cur) acc

def words (s : String) : List String := wordsAux s.toList [] []

def ints? (ws : List String) : Option (List Int) := ws.mapM String.toInt?
def nats? (ws : List String) : Option (List Nat) := ws.mapM String.toNat?

/-- split a word list at the "|" separators -/
def sections (ws : List String) : List (List String) :=
  let (cur, acc) := ws.foldl (fun (st : List String × List (List String)) w =>
    if w == "|" then ([], st.1.reverse :: st.2) else (w :: st.1, st.2)) ([], [])
  (cur.reverse :: acc).reverse

def joinSp (l : List String) : String := " ".intercalate l

end Driver
