import FtdcVerif.Model.Uncompressed
import Driver.HistCmd
namespace Driver
open Ftdc

inductive UColl where
  | plain (c : Uncompressed) | streaming (c : UStreaming) | streamingDynamic (c : UStreamingDynamic)

def topKeysStr (d : BDoc) : String :=
  "{" ++ ",".intercalate (d.toList.map fun kv => hexEncode kv.1) ++ "}"

def renderDocs (json : Bool) (ds : List BDoc) : String :=
  ",".intercalate (ds.map fun d => if json then topKeysStr d else hexEncode (serDoc d))

def UColl.add (c : UColl) (d : BDoc) : UColl × Bool :=
  match c with
  | .plain u => let (u', r) := u.add d; (.plain u', r == UAdd.ok)
  | .streaming s => let (s', ok) := s.add d; (.streaming s', ok)
  | .streamingDynamic s => let (s', ok) := s.add d; (.streamingDynamic s', ok)

/-- an unreadable value: the streaming collector flushes a full batch before it looks at it -/
def UColl.addBad (c : UColl) : UColl :=
  match c with
  | .streaming s => if s.count ≥ s.maxSamples then .streaming s.flush.1 else c
  | _ => c

def UColl.resolve : UColl → Option (List BDoc)
  | .plain u => u.resolve | .streaming s => s.resolve | .streamingDynamic s => s.resolve
def UColl.reset : UColl → UColl
  | .plain u => .plain u.reset | .streaming s => .streaming s.reset | .streamingDynamic s => .streamingDynamic s.reset
def UColl.setMetadata (c : UColl) (d : BDoc) : UColl :=
  match c with
  | .plain u => .plain (u.setMetadata d) | .streaming s => .streaming (s.setMetadata d)
  | .streamingDynamic s => .streamingDynamic (s.setMetadata d)
def UColl.info : UColl → Nat × Nat
  | .plain u => u.info | .streaming s => s.info | .streamingDynamic s => s.info
def UColl.written : UColl → List (List BDoc)
  | .plain _ => [] | .streaming s => s.written | .streamingDynamic s => s.s.written

/-- `FlushCollector(c, w)`; for the plain collector `w` is the external buffer `ext` -/
def UColl.flush (c : UColl) (ext : List (List BDoc)) : UColl × List (List BDoc) × Bool :=
  match c with
  | .streaming s => let (s', ok) := s.flush; (.streaming s', ext, ok)
  | .streamingDynamic s => let (s', ok) := s.flush; (.streamingDynamic s', ext, ok)
  | .plain u =>
    if u.info.2 = 0 then (c, ext, true) else
    match u.resolve with
    | none => (c, ext, false)
    | some docs => (.plain u.reset, ext ++ [docs], true)

def uhistCmd (ws : List String) : String :=
  match sections ws with
  | [[ctor, flavour, ns], pool, ops] =>
    match ns.toNat? with
    | none => "bad-op"
    | some n =>
      let json := flavour == "json"
      let pool := pool.map fun w => (hexDecode w).bind parseDoc
      let c0 : Option UColl := match ctor with
        | "plain" => some (.plain { batchSize := n })
        | "streaming" => some (.streaming (UStreaming.new n))
        | "streamingDynamic" => some (.streamingDynamic (UStreamingDynamic.new n))
        | _ => none
      match c0 with
      | none => "bad-op"
      | some c0 =>
        let step := fun (st : UColl × List (List BDoc) × List String) (op : String) =>
          let (c, ext, obs) := st
          match op.toList.head? with
          | some 'a' => match pool.getD (idxOf op) none with
            | none => (c, ext, obs ++ ["e"])
            | some d => let (c', ok) := c.add d; (c', ext, obs ++ [if ok then "o" else "e"])
          | some 'x' => (c.addBad, ext, obs ++ ["e"])
          | some 'r' => match c.resolve with
            | some ds => (c, ext, obs ++ [s!"R[{renderDocs json ds}]"])
            | none => (c, ext, obs ++ ["Rerr"])
          | some 'z' => (c.reset, ext, obs ++ ["z"])
          | some 'f' => let (c', ext', ok) := c.flush ext; (c', ext', obs ++ [s!"F{okStr ok}"])
          | some 'm' => match pool.getD (idxOf op) none with
            | none => (c, ext, obs ++ ["m"])
            | some d => (c.setMetadata d, ext, obs ++ ["m"])
          | some 'M' => (c, ext, obs ++ ["Me"])     -- unreadable metadata: refused, nothing changes
          | some 'i' => let (m, s) := c.info; (c, ext, obs ++ [s!"I{m},{s}"])
          | _ => (c, ext, obs ++ ["bad-op"])
        let (c, ext, obs) := ops.foldl step (c0, [], [])
        let final := match c.resolve with
          | some ds => s!"[{renderDocs json ds}]"
          | none => "err"
        let w := (c.written ++ ext).flatten
        s!"{joinSp obs} final={final} writer=[{renderDocs json w}]"
  | _ => "bad-op"

end Driver
