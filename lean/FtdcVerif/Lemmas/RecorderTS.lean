import FtdcVerif.Model.RecorderTS
/-! Inductive invariant of the interval recorders' concurrency skeleton (C16). -/
namespace Ftdc.RecorderTS

structure Inv (s : St) : Prop where
  fixed : s.fixed = true
  owner_user : ∀ i, s.owner = .user i → ∃ op, s.upc i = .inCS op
  owner_flusher : ∀ j, s.owner = .flusher j → s.fpc j = .inCS
  user_cs : ∀ i op, s.upc i = .inCS op → s.owner = .user i
  flusher_cs : ∀ j, s.fpc j = .inCS → s.owner = .flusher j
  sum : s.counter + s.persisted = s.issued
  one_active : ∀ k, k < s.nflush → s.fcancelled k = false → s.canceler = some k
  canceler_lt : ∀ j, s.canceler = some j → j < s.nflush ∧ s.fcancelled j = false
  not_started : ∀ k, s.nflush ≤ k → s.fpc k = .none ∧ s.fcancelled k = false

theorem init_inv : Inv (init true) := by
  constructor <;> simp [init]

theorem upd_same {α : Type} (f : Nat → α) (i : Nat) (v : α) : upd f i v i = v := by simp [upd]
theorem upd_other {α : Type} (f : Nat → α) (i k : Nat) (v : α) (h : k ≠ i) : upd f i v k = f k := by simp [upd, h]

theorem step_call (s s' : St) (i : Nat) (op : Op) (h : Inv s) (hs : step s (.call i op) = some s') : Inv s' := by
  obtain ⟨hf, h1, h2, h3, h4, h5, h6, h7, h8⟩ := h
  simp only [step] at hs
  split at hs
  · rename_i hidle
    injection hs with hs; subst hs
    refine ⟨hf, ?_, h2, ?_, h4, h5, h6, h7, h8⟩
    · intro k hk
      obtain ⟨o, ho⟩ := h1 k hk
      have : k ≠ i := by intro e; subst e; rw [hidle] at ho; cases ho
      exact ⟨o, by simp [upd, this, ho]⟩
    · intro k o hk
      by_cases e : k = i
      · subst e; simp [upd] at hk
      · simp [upd, e] at hk; exact h3 k o hk
  · cases hs

end Ftdc.RecorderTS


namespace Ftdc.RecorderTS

/-- the part of the invariant that only talks about the mutex and the program counters -/
structure LockInv (s : St) : Prop where
  owner_user : ∀ i, s.owner = .user i → ∃ op, s.upc i = .inCS op
  owner_flusher : ∀ j, s.owner = .flusher j → s.fpc j = .inCS
  user_cs : ∀ i op, s.upc i = .inCS op → s.owner = .user i
  flusher_cs : ∀ j, s.fpc j = .inCS → s.owner = .flusher j

/-- a user leaving its critical section: the mutex is free, nobody is inside -/
theorem release_user (s : St) (i : Nat) (op : Op) (h3 : ∀ i op, s.upc i = .inCS op → s.owner = .user i)
    (h4 : ∀ j, s.fpc j = .inCS → s.owner = .flusher j) (hu : s.upc i = .inCS op)
    (s' : St) (ho : s'.owner = .free) (hup : s'.upc = upd s.upc i .idle)
    (hfp : ∀ j, s'.fpc j = .inCS → s.fpc j = .inCS) : LockInv s' := by
  have hown : s.owner = .user i := h3 i op hu
  refine ⟨?_, ?_, ?_, ?_⟩
  · intro k hk; rw [ho] at hk; cases hk
  · intro j hj; rw [ho] at hj; cases hj
  · intro k o hk
    rw [hup] at hk
    by_cases e : k = i
    · subst e; simp [upd] at hk
    · simp [upd, e] at hk
      have := h3 k o hk; rw [hown] at this; injection this with this; exact absurd this.symm e
  · intro j hj
    have := h4 j (hfp j hj); rw [hown] at this; cases this

theorem step_user (s s' : St) (i : Nat) (h : Inv s) (hs : step s (.user i) = some s') : Inv s' := by
  obtain ⟨hf, h1, h2, h3, h4, h5, h6, h7, h8⟩ := h
  simp only [step] at hs
  cases hu : s.upc i with
  | idle => simp [hu] at hs
  | waiting op =>
    simp only [hu] at hs
    split at hs
    · rename_i hfree
      injection hs with hs; subst hs
      refine ⟨hf, ?_, ?_, ?_, ?_, h5, h6, h7, h8⟩
      · intro k hk; injection hk with hk; subst hk; exact ⟨op, by simp [upd]⟩
      · intro j hj; cases hj
      · intro k o hk
        by_cases e : k = i
        · subst e; rfl
        · simp [upd, e] at hk; have := h3 k o hk; rw [hfree] at this; cases this
      · intro j hj; have := h4 j hj; rw [hfree] at this; cases this
    · cases hs
  | inCS op =>
    simp only [hu] at hs
    cases op with
    | inc v =>
      injection hs with hs; subst hs
      have L := release_user s i _ h3 h4 hu
        { s with owner := .free, upc := upd s.upc i .idle, counter := s.counter + v, issued := s.issued + v }
        rfl rfl (fun j hj => hj)
      exact ⟨hf, L.1, L.2, L.3, L.4, (by show s.counter + v + s.persisted = s.issued + v; omega), h6, h7, h8⟩
    | begin =>
      cases hc : s.canceler with
      | some j0 =>
        simp only [hc] at hs; injection hs with hs; subst hs
        have L := release_user s i _ h3 h4 hu { s with owner := .free, upc := upd s.upc i .idle } rfl rfl (fun j hj => hj)
        exact ⟨hf, L.1, L.2, L.3, L.4, h5,
          (fun k hk hck => by rw [← hc]; exact h6 k hk hck),
          (fun j hj => h7 j (by rw [hc]; exact hj)), h8⟩
      | none =>
        simp only [hc] at hs; injection hs with hs; subst hs
        have L := release_user s i _ h3 h4 hu
          { s with owner := .free, upc := upd s.upc i .idle, fpc := upd s.fpc s.nflush .waitTick,
                   canceler := some s.nflush, nflush := s.nflush + 1 } rfl rfl
          (by
            intro j hj
            by_cases e : j = s.nflush
            · subst e; simp [upd] at hj
            · simpa [upd, e] using hj)
        refine ⟨hf, L.1, L.2, L.3, L.4, h5, ?_, ?_, ?_⟩
        · intro k hk hck
          by_cases e : k = s.nflush
          · subst e; rfl
          · have hk' : k < s.nflush := by simp at hk; omega
            have := h6 k hk' hck; rw [hc] at this; cases this
        · intro j hj
          injection hj with hj; subst hj
          exact ⟨by simp, (h8 s.nflush (Nat.le_refl _)).2⟩
        · intro k hk
          have hk' : s.nflush ≤ k := by simp at hk; omega
          have e : k ≠ s.nflush := by simp at hk; omega
          exact ⟨by simp [upd, e]; exact (h8 k hk').1, (h8 k hk').2⟩
    | endTest =>
      injection hs with hs; subst hs
      have L := release_user s i _ h3 h4 hu
        { s with owner := .free, upc := upd s.upc i .idle, persisted := s.persisted + s.counter, counter := 0,
                 canceler := none,
                 fcancelled := match s.canceler with | some j => upd s.fcancelled j true | none => s.fcancelled }
        rfl rfl (fun j hj => hj)
      refine ⟨hf, L.1, L.2, L.3, L.4, (by show (0 : Int) + (s.persisted + s.counter) = s.issued; omega), ?_, ?_, ?_⟩
      · intro k hk hck
        exfalso
        cases hc : s.canceler with
        | none => simp only [hc] at hck; have := h6 k hk hck; rw [hc] at this; cases this
        | some j =>
          simp only [hc] at hck
          by_cases e : k = j
          · subst e; simp [upd] at hck
          · simp [upd, e] at hck; have := h6 k hk hck; rw [hc] at this; injection this with this; exact e this.symm
      · intro j hj; cases hj
      · intro k hk
        refine ⟨(h8 k hk).1, ?_⟩
        cases hc : s.canceler with
        | none => simpa [hc] using (h8 k hk).2
        | some j =>
          have hj := (h7 j hc).1
          have hk2 : s.nflush ≤ k := hk
          have e : k ≠ j := by omega
          simpa [hc, upd, e] using (h8 k hk).2
    | reset =>
      injection hs with hs; subst hs
      have L := release_user s i _ h3 h4 hu
        { s with owner := .free, upc := upd s.upc i .idle, issued := s.issued - s.counter, counter := 0,
                 canceler := none,
                 fcancelled := match s.canceler with | some j => upd s.fcancelled j true | none => s.fcancelled }
        rfl rfl (fun j hj => hj)
      refine ⟨hf, L.1, L.2, L.3, L.4, (by show (0 : Int) + s.persisted = s.issued - s.counter; omega), ?_, ?_, ?_⟩
      · intro k hk hck
        exfalso
        cases hc : s.canceler with
        | none => simp only [hc] at hck; have := h6 k hk hck; rw [hc] at this; cases this
        | some j =>
          simp only [hc] at hck
          by_cases e : k = j
          · subst e; simp [upd] at hck
          · simp [upd, e] at hck; have := h6 k hk hck; rw [hc] at this; injection this with this; exact e this.symm
      · intro j hj; cases hj
      · intro k hk
        refine ⟨(h8 k hk).1, ?_⟩
        cases hc : s.canceler with
        | none => simpa [hc] using (h8 k hk).2
        | some j =>
          have hj := (h7 j hc).1
          have hk2 : s.nflush ≤ k := hk
          have e : k ≠ j := by omega
          simpa [hc, upd, e] using (h8 k hk).2


theorem step_flusher (s s' : St) (j : Nat) (h : Inv s) (hs : step s (.flusher j) = some s') : Inv s' := by
  obtain ⟨hf, h1, h2, h3, h4, h5, h6, h7, h8⟩ := h
  simp only [step] at hs
  -- a flusher that is alive has been started
  have started : s.fpc j ≠ .none → j < s.nflush := by
    intro hne
    by_cases hlt : j < s.nflush
    · exact hlt
    · exact absurd (h8 j (by omega)).1 hne
  cases hp : s.fpc j with
  | none => simp [hp] at hs
  | exited => simp [hp] at hs
  | waitTick =>
    simp only [hp] at hs
    have hj : j < s.nflush := started (by rw [hp]; simp)
    -- the program counter of flusher j changes to something that is not inCS; the mutex is untouched
    have key : ∀ (pc : FPc), pc ≠ .inCS → pc ≠ .none →
        Inv { s with fpc := upd s.fpc j pc } := by
      intro pc hpc hpn
      refine ⟨hf, h1, ?_, h3, ?_, h5, h6, h7, ?_⟩
      · intro k hk
        have := h2 k hk
        have e : k ≠ j := by intro e; subst e; rw [hp] at this; cases this
        simpa [upd, e] using this
      · intro k hk
        by_cases e : k = j
        · subst e; simp [upd] at hk; exact absurd hk hpc
        · simp [upd, e] at hk; exact h4 k hk
      · intro k hk
        have hk2 : s.nflush ≤ k := hk
        have e : k ≠ j := by omega
        exact ⟨by simpa [upd, e] using (h8 k hk).1, (h8 k hk).2⟩
    split at hs
    · injection hs with hs; subst hs; exact key .exited (by simp) (by simp)
    · injection hs with hs; subst hs; exact key .waitLock (by simp) (by simp)
  | waitLock =>
    simp only [hp] at hs
    have hj : j < s.nflush := started (by rw [hp]; simp)
    split at hs
    · rename_i hfree
      injection hs with hs; subst hs
      refine ⟨hf, ?_, ?_, ?_, ?_, h5, h6, h7, ?_⟩
      · intro k hk; cases hk
      · intro k hk; injection hk with hk; subst hk; simp [upd]
      · intro k o hk; have := h3 k o hk; rw [hfree] at this; cases this
      · intro k hk
        by_cases e : k = j
        · subst e; rfl
        · simp [upd, e] at hk; have := h4 k hk; rw [hfree] at this; cases this
      · intro k hk
        have hk2 : s.nflush ≤ k := hk
        have e : k ≠ j := by omega
        exact ⟨by simpa [upd, e] using (h8 k hk).1, (h8 k hk).2⟩
    · cases hs
  | inCS =>
    simp only [hp] at hs
    have hj : j < s.nflush := started (by rw [hp]; simp)
    have hown : s.owner = .flusher j := h4 j hp
    -- in both branches the flusher releases the mutex and leaves its critical section
    have key : ∀ (pc : FPc), pc ≠ .inCS → pc ≠ .none →
        Inv { s with owner := .free, fpc := upd s.fpc j pc } := by
      intro pc hpc hpn
      refine ⟨hf, ?_, ?_, ?_, ?_, h5, h6, h7, ?_⟩
      · intro k hk; cases hk
      · intro k hk; cases hk
      · intro k o hk; have := h3 k o hk; rw [hown] at this; cases this
      · intro k hk
        by_cases e : k = j
        · subst e; simp [upd] at hk; exact absurd hk hpc
        · simp [upd, e] at hk
          have := h4 k hk; rw [hown] at this; injection this with this; exact absurd this.symm e
      · intro k hk
        have hk2 : s.nflush ≤ k := hk
        have e : k ≠ j := by omega
        exact ⟨by simpa [upd, e] using (h8 k hk).1, (h8 k hk).2⟩
    split at hs
    all_goals (try split at hs)
    all_goals first
      | (injection hs with hs; subst hs; exact key .exited (by simp) (by simp))
      | (injection hs with hs; subst hs; exact key .waitTick (by simp) (by simp))
      | (rename_i hnf; exact absurd hf hnf)
      | (rename_i hnf _; exact absurd hf hnf)

theorem step_inv (s s' : St) (a : Act) (h : Inv s) (hs : step s a = some s') : Inv s' := by
  cases a with
  | call i op => exact step_call s s' i op h hs
  | user i => exact step_user s s' i h hs
  | flusher j => exact step_flusher s s' j h hs

theorem run_inv (sched : List Act) : ∀ (s : St), Inv s → Inv (run s sched) := by
  induction sched with
  | nil => intro s h; exact h
  | cons a as ih =>
    intro s h
    simp only [run, List.foldl_cons]
    cases hs : step s a with
    | none => simpa [run] using ih s h
    | some s' => simpa [run] using ih s' (step_inv s s' a h hs)

end Ftdc.RecorderTS
