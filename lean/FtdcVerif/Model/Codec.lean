import FtdcVerif.Model.Bson
/-
  The FTDC codec: metric extraction (bson_extract.go), metric naming and starting values
  (bson_metric.go), document restoration (bson_restore.go), the chunk payload
  (collector_better.go getPayload) and its decoder (read.go readChunks).
-/
namespace Ftdc

abbrev I64 := BitVec 64

inductive Ty where
  | bool | double | int32 | int64 | datetime | timestamp
  deriving DecidableEq, Repr, Inhabited

def Ty.tag : Ty → Nat
  | .bool => 0x08 | .double => 0x01 | .int32 => 0x10 | .int64 => 0x12 | .datetime => 0x09
  | .timestamp => 0x11

/-- `epochMs(val.Time())`: `time.Unix(ms/1000, ms%1000*1e6).UnixNano()/1e6` with Go's wrapping
int64 arithmetic: `UnixNano` is `ms * 10^6` modulo 2^64, then a truncating division. -/
def normDT (ms : I64) : I64 := (ms * 1000000#64).sdiv 1000000#64

/-- `restoreFlat`/`restoreElement` for datetime: `EC.Time(key, timeEpocMs(v))` stores
`t.Unix()*1000 + t.Nanosecond()/1e6`, which is `v` again for every `v` (floor division and
non-negative remainder recombine exactly; no overflow since |sec*1000| ≤ |v|). -/
def restoreDT (v : I64) : I64 := v

def signExt32 (v : BitVec 32) : I64 := v.signExtend 64

/-! ### extraction: one `(value, type)` per metric, in document order -/
mutual
def extractVal : BVal → List (I64 × Ty)
  | .double b => [(b, .double)]
  | .doc d => extractDoc d
  | .arr d => extractDoc d
  | .bool b => [(if b then 1#64 else 0#64, .bool)]
  | .datetime ms => [(normDT ms, .datetime)]
  | .int32 v => [(signExt32 v, .int32)]
  | .timestamp t i => [(t.zeroExtend 64, .timestamp), (i.zeroExtend 64, .timestamp)]
  | .int64 v => [(v, .int64)]
  | .other _ _ => []
def extractDoc : BDoc → List (I64 × Ty)
  | .nil => []
  | .cons _ v r => extractVal v ++ extractDoc r
end

/-- the chunk `_id`: first usable time stamp met in document order (`extractedMetrics.ts`) -/
inductive Ts where
  | none | at (ms : I64) | now
  deriving DecidableEq, Repr, Inhabited

/-- `time.Time.IsZero` of `time.Unix(ms/1000, …)`: year 1, i.e. ms = -62135596800000 -/
def isZeroTime (ms : I64) : Bool := ms == BitVec.ofInt 64 (-62135596800000)

mutual
def tsVal : BVal → Ts
  | .datetime ms => if isZeroTime ms then .none else .at ms
  | .doc d => match tsElems d with
      | .none => .now      -- a sub-document without datetime reports time.Now()
      | r => r
  | .arr d => tsElems d
  | _ => .none
def tsElems : BDoc → Ts
  | .nil => .none
  | .cons _ v r => match tsVal v with
      | .none => tsElems r
      | t => t
end

def tsDoc (d : BDoc) : Ts := match tsElems d with
  | .none => .now
  | r => r

/-! ### metric naming (`metricForDocument`) -/

structure Metric where
  path : List Bytes      -- ParentPath
  name : Bytes           -- KeyName
  ty : Ty
  start : I64            -- startingValue
  values : List I64 := []
  deriving Repr, DecidableEq, Inhabited

def dot : Nat := 46

def joinDot : List Bytes → Bytes
  | [] => []
  | [a] => a
  | a :: r => a ++ [dot] ++ joinDot r

/-- `Metric.Key()` -/
def Metric.key (m : Metric) : Bytes := joinDot (m.path ++ [m.name])

def digitsAux : Nat → Nat → List Nat → List Nat
  | 0, _, acc => acc
  | fuel+1, n, acc => if n < 10 then (48 + n) :: acc else digitsAux fuel (n / 10) ((48 + n % 10) :: acc)

/-- decimal rendering (`%d`) -/
def decimal (n : Nat) : Bytes := digitsAux (n + 1) n []

def incSuffix : Bytes := [46, 105, 110, 99]   -- ".inc"

mutual
/-- `metricForType(key, path, val)` (after fix F2: children keep their own, copied, path) -/
def metricsVal (key : Bytes) (path : List Bytes) : BVal → List Metric
  | .double b => [{ path, name := key, ty := .double, start := b }]
  | .doc d => metricsElems (path ++ [key]) d
  | .arr d => metricsArr key path 0 d
  | .bool b => [{ path, name := key, ty := .bool, start := if b then 1#64 else 0#64 }]
  | .datetime ms => [{ path, name := key, ty := .datetime, start := normDT ms }]
  | .int32 v => [{ path, name := key, ty := .int32, start := signExt32 v }]
  -- the code scales the seconds by 1000 here (known finding F1; kept by an existing unit test)
  | .timestamp t i => [{ path, name := key, ty := .timestamp, start := t.zeroExtend 64 * 1000#64 },
                       { path, name := key ++ incSuffix, ty := .timestamp, start := i.zeroExtend 64 }]
  | .int64 v => [{ path, name := key, ty := .int64, start := v }]
  | .other _ _ => []
/-- `metricForDocument(path, d)` -/
def metricsElems (path : List Bytes) : BDoc → List Metric
  | .nil => []
  | .cons k v r => metricsVal k path v ++ metricsElems path r
/-- `metricForArray(key, path, a)`: element `idx` is named `key.idx` -/
def metricsArr (key : Bytes) (path : List Bytes) (idx : Nat) : BDoc → List Metric
  | .nil => []
  | .cons _ v r => metricsVal (key ++ [dot] ++ decimal idx) path v ++ metricsArr key path (idx + 1) r
end

def metricsOf (d : BDoc) : List Metric := metricsElems [] d

/-! ### restoration (`restoreDocument`, `restoreElement`) -/

/-- value of metric `idx` for the current sample -/
abbrev Row := List I64

def restoreLeaf (ty : Ty) (v : I64) : BVal :=
  match ty with
  | .bool => .bool (v != 0#64)
  | .double => .double v
  | .int32 => .int32 (v.truncate 32)
  | .int64 => .int64 v
  | .datetime => .datetime (restoreDT v)
  | .timestamp => .int64 v   -- not used for structured documents

mutual
/-- `restoreElement`: `none` = element dropped; returns the next metric index -/
def restoreVal (row : Row) (idx : Nat) : BVal → Option BVal × Nat
  | .double _ => (some (.double (row.getD idx 0)), idx + 1)
  | .doc d => let (d', i) := restoreElems row idx d; (some (.doc d'), i)
  | .arr d => let (d', i) := restoreArr row idx 0 d; (some (.arr d'), i)
  | .bool _ => (some (.bool (row.getD idx 0 != 0#64)), idx + 1)
  | .datetime _ => (some (.datetime (restoreDT (row.getD idx 0))), idx + 1)
  | .int32 _ => (some (.int32 ((row.getD idx 0).truncate 32)), idx + 1)
  | .timestamp _ _ => (some (.timestamp ((row.getD idx 0).truncate 32) ((row.getD (idx + 1) 0).truncate 32)), idx + 2)
  | .int64 _ => (some (.int64 (row.getD idx 0)), idx + 1)
  | .other _ _ => (none, idx)
def restoreElems (row : Row) (idx : Nat) : BDoc → BDoc × Nat
  | .nil => (.nil, idx)
  | .cons k v r =>
    let (v', i) := restoreVal row idx v
    let (r', j) := restoreElems row i r
    (match v' with | some x => .cons k x r' | none => r', j)
/-- arrays are rebuilt from the surviving values and re-indexed -/
def restoreArr (row : Row) (idx : Nat) (pos : Nat) : BDoc → BDoc × Nat
  | .nil => (.nil, idx)
  | .cons _ v r =>
    let (v', i) := restoreVal row idx v
    match v' with
    | some x => let (r', j) := restoreArr row i (pos + 1) r; (.cons (decimal pos) x r', j)
    | none => restoreArr row i pos r
end

def restoreDoc (ref : BDoc) (row : Row) : BDoc := (restoreElems row 0 ref).1

/-! ### the property's `project`: non-metric leaves removed, arrays re-indexed, values untouched -/
mutual
def projVal : BVal → Option BVal
  | .doc d => some (.doc (projElems d))
  | .arr d => some (.arr (projArr 0 d))
  | .other _ _ => none
  | .double b => some (.double b)
  | .bool b => some (.bool b)
  | .datetime ms => some (.datetime ms)
  | .int32 v => some (.int32 v)
  | .timestamp t i => some (.timestamp t i)
  | .int64 v => some (.int64 v)
def projElems : BDoc → BDoc
  | .nil => .nil
  | .cons k v r => match projVal v with
    | some x => .cons k x (projElems r)
    | none => projElems r
def projArr (pos : Nat) : BDoc → BDoc
  | .nil => .nil
  | .cons _ v r => match projVal v with
    | some x => .cons (decimal pos) x (projArr (pos + 1) r)
    | none => projArr pos r
end

def project (d : BDoc) : BDoc := projElems d

/-- `restoreFlat` -/
def flatVal (m : Metric) (v : I64) : BVal :=
  match m.ty with
  | .bool => .bool (v != 0#64)
  | .double => .double v
  | .int32 => .int32 (v.truncate 32)
  | .datetime => .datetime (restoreDT v)
  | _ => .int64 v

/-! ### deltas, zero runs, varints -/

/-- per-metric deltas of consecutive samples (wrapping subtraction) -/
def deltas : I64 → List I64 → List I64
  | _, [] => []
  | prev, x :: xs => (x - prev) :: deltas x xs

/-- `undelta(value, deltas)` -/
def undelta : I64 → List I64 → List I64
  | v, [] => [v]
  | v, d :: ds => v :: undelta (v + d) ds

/-- zero-run encoding of the metric-major delta stream, as `getPayload` writes it:
a run of k zeros becomes the pair (0, k-1); runs extend across metric boundaries. -/
def rleEncAux : Nat → List I64 → Bytes
  | zc, [] => if zc > 0 then putUvarint 0 ++ putUvarint (zc - 1) else []
  | zc, d :: ds =>
    if d = 0#64 then rleEncAux (zc + 1) ds
    else (if zc > 0 then putUvarint 0 ++ putUvarint (zc - 1) else []) ++ encodeValue d ++ rleEncAux 0 ds

def rleEnc (ds : List I64) : Bytes := rleEncAux 0 ds

/-- the decoder's inner loops: read `n` deltas with the `nzeroes` carry -/
def rleDecAux : Nat → Nat → Bytes → Option (List I64 × Nat × Bytes)
  | 0, nz, bs => some ([], nz, bs)
  | n+1, nz, bs =>
    if nz ≠ 0 then
      match rleDecAux n (nz - 1) bs with
      | some (ds, nz', r) => some (0#64 :: ds, nz', r)
      | none => none
    else
      match readUvarint bs with
      | none => none
      | some (d, r) =>
        if d = 0 then
          match readUvarint r with
          | none => none
          | some (z, r') =>
            match rleDecAux n z r' with
            | some (ds, nz', r'') => some (0#64 :: ds, nz', r'')
            | none => none
        else
          match rleDecAux n 0 r with
          | some (ds, nz', r') => some (BitVec.ofNat 64 d :: ds, nz', r')
          | none => none

/-- `nm` metrics × `nd` deltas each, metric-major -/
def rleDecMetrics : Nat → Nat → Nat → Bytes → Option (List (List I64))
  | 0, _, _, _ => some []
  | nm+1, nd, nz, bs =>
    match rleDecAux nd nz bs with
    | none => none
    | some (ds, nz', r) =>
      match rleDecMetrics nm nd nz' r with
      | none => none
      | some rest => some (ds :: rest)

/-! ### the chunk -/

structure Chunk where
  ref : BDoc
  metrics : List Metric        -- with `values` filled (nPoints each)
  nPoints : Nat
  id : Option I64 := none      -- `_id` when it is a datetime
  metadata : Option BDoc := none   -- the type-0 document that precedes it
  deriving Inhabited

/-- column `i` of a list of rows -/
def column (rows : List Row) (i : Nat) : List I64 := rows.map (·.getD i 0)

/-- `getPayload`: reference document, counts, metric-major zero-run/varint deltas.
`rows` are the samples after the reference sample. -/
def payloadOf (ref : BDoc) (first : Row) (rows : List Row) : Bytes :=
  let nm := first.length
  let cols := (List.range nm).map fun i => deltas (first.getD i 0) (column rows i)
  serDoc ref ++ le32 nm ++ le32 rows.length ++ rleEnc cols.flatten

inductive DecodeErr where
  | refDoc | header | count | varint
  deriving Repr, DecidableEq

/-- `readChunks` body after inflation: reference document, counts, deltas -/
def decodePayload (p : Bytes) : Except DecodeErr Chunk :=
  -- readBufMetrics: one framed, validated document
  match takeN 4 p with
  | none => .error .refDoc
  | some (lb, _) =>
    let l := rdLe lb
    if l < 5 ∨ l ≥ 2 ^ 31 then .error .refDoc else
    match takeN l p with
    | none => .error .refDoc
    | some (db, rest) =>
      match parseDoc db with
      | none => .error .refDoc
      | some ref =>
        let ms := metricsOf ref
        match takeN 8 rest with
        | none => .error .header
        | some (hd, body) =>
          let nm := rdLe (hd.take 4)
          let nd := rdLe (hd.drop 4)
          if nm ≠ ms.length then .error .count else
          match rleDecMetrics nm nd 0 body with
          | none => .error .varint
          | some cols =>
            let ms' := (ms.zip cols).map fun (m, ds) => { m with values := undelta m.start ds }
            .ok { ref := ref, metrics := ms', nPoints := nd + 1 }

/-- sample `i` of a chunk as a row of metric values -/
def Chunk.row (c : Chunk) (i : Nat) : Row := c.metrics.map (·.values.getD i 0)

def Chunk.rows (c : Chunk) : List Row := (List.range c.nPoints).map c.row

/-- `Chunk.StructuredIterator` -/
def Chunk.structured (c : Chunk) : List BDoc := c.rows.map (restoreDoc c.ref)

/-- `Chunk.Iterator` (flattened documents) -/
def Chunk.flat (c : Chunk) : List BDoc :=
  (List.range c.nPoints).map fun i =>
    BDoc.ofList (c.metrics.map fun m => (m.key, flatVal m (m.values.getD i 0)))

end Ftdc
