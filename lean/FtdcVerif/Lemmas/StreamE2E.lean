import FtdcVerif.Lemmas.EndToEnd
import FtdcVerif.Lemmas.Collector
/-!
# End to end for the streaming collector

Documents of one schema added to a streaming collector with chunk size `n`: every chunk handed to the
writer, and the pending one, is `(head, tail)` of consecutive documents — reference document = head,
first row = its values, rows = the values of the tail — so each decodes to the projections of its
documents, and the chunks concatenated are the documents added.
-/
namespace Ftdc

/-- the output document of a chunk of consecutive documents -/
def mkChunk (p : BDoc × List BDoc) : OutDoc := .chunk (tsDoc p.1) p.1 (vals p.1) (p.2.map vals)

/-- every document in the complete writes of a writer -/
def logDocs (w : Writer) : List OutDoc :=
  (w.log.map fun e => match e with
    | WEntry.full docs => docs
    | WEntry.partialWrite _ _ => []).flatten

def chunkDocs (p : BDoc × List BDoc) : List BDoc := p.1 :: p.2

def allDocs (chs : List (BDoc × List BDoc)) (cur : Option (BDoc × List BDoc)) : List BDoc :=
  (chs.map chunkDocs).flatten ++ (match cur with | none => [] | some p => chunkDocs p)

/-- ghost invariant of the streaming collector fed with documents of one schema -/
structure SG (n : Nat) (c : Streaming) (chs : List (BDoc × List BDoc)) (cur : Option (BDoc × List BDoc)) : Prop where
  script : c.out.script = []
  maxS : c.maxSamples = n
  logged : logDocs c.out = chs.map mkChunk
  pend : match cur with
    | none => c.inner.ref = none ∧ c.inner.rows = [] ∧ c.inner.metadata = none ∧ c.inner.maxDeltas = n ∧ c.count = 0
    | some p => Holds n p.1 p.2 c.inner ∧ c.count = p.2.length + 1 ∧ p.2.length + 1 ≤ n
  small : ∀ p ∈ chs, p.2.length + 1 ≤ n

theorem sg_new (n : Nat) : SG n (Streaming.new n) [] none :=
  ⟨rfl, rfl, by simp [logDocs, Streaming.new], by simp [Streaming.new], by simp⟩

/-- a flush of a pending chunk, in ghost terms -/
theorem sg_flush (n : Nat) (c : Streaming) (chs : List (BDoc × List BDoc)) (p : BDoc × List BDoc)
    (g : SG n c chs (some p)) : (c.flush).2 = true ∧ SG n (c.flush).1 (chs ++ [p]) none := by
  obtain ⟨hs, hm, hl, hp, hsm⟩ := g
  obtain ⟨⟨h1, h2, h3, h4, h5, h6, h7⟩, hc, hle⟩ := hp
  have hinfo : c.info.2 = p.2.length + 1 := by
    simp [Streaming.info, Better.info, h1, h3]; omega
  unfold Streaming.flush
  rw [if_neg (by omega)]
  have hres : c.resolve = some [mkChunk p] := by
    simp [Streaming.resolve, Better.resolve, h1, h4, mkChunk, h6, h2, h3]
  simp only [hres, Writer.write, hs, if_true]
  refine ⟨trivial, ⟨by simp only [Streaming.reset]; try exact hs, by simp only [Streaming.reset]; exact hm, ?_, ?_, ?_⟩⟩
  · simp only [Streaming.reset, logDocs, List.map_append, List.flatten_append, List.map_cons, List.map_nil,
      List.flatten_cons, List.flatten_nil, List.append_nil]
    have : (c.out.log.map fun e => match e with
        | WEntry.full docs => docs
        | WEntry.partialWrite _ _ => []).flatten = chs.map mkChunk := hl
    rw [this]
  · simp [Streaming.reset, Better.reset, h4, h5]
  · intro q hq
    rcases List.mem_append.1 hq with hq | hq
    · exact hsm q hq
    · simp at hq; rw [hq]; exact hle

/-- one `Add` of a document of the common schema -/
theorem sg_add' (n : Nat) (hn : 1 ≤ n) (c : Streaming) (chs : List (BDoc × List BDoc)) (cur : Option (BDoc × List BDoc))
    (d : BDoc) (g : SG n c chs cur) (hsim : ∀ p, cur = some p → SimDoc p.1 d) :
    (c.add d).2 = .ok ∧ ∃ chs' p', SG n (c.add d).1 chs' (some p') ∧
      ((chs' = chs ∧ ∃ p, cur = some p ∧ p' = (p.1, p.2 ++ [d])) ∨
       (chs' = chs ++ cur.toList ∧ p' = (d, []) ∧ ∀ q, cur = some q → q.2.length + 1 = n)) := by
  -- adding to a collector `c1` whose pending part is known
  have fresh : ∀ (c1 : Streaming) (chs1 : List (BDoc × List BDoc)), SG n c1 chs1 none →
      (let r := c1.inner.add d
       (r.2 = .ok) ∧ SG n ({ c1 with inner := r.1, count := c1.count + 1 } : Streaming) chs1 (some (d, []))) := by
    intro c1 chs1 g1
    obtain ⟨hs, hm, hl, ⟨hr, hrows, hmd, hmx, hc⟩, hsm⟩ := g1
    obtain ⟨a1, a2⟩ := holds_first n d c1.inner hr hmd hmx
    exact ⟨a1, ⟨hs, hm, hl, ⟨a2, by simp [hc], by simp; omega⟩, hsm⟩⟩
  unfold Streaming.add
  cases cur with
  | none =>
    have hc0 : c.count = 0 := g.pend.2.2.2.2
    have hnf : ¬ c.count ≥ c.maxSamples := by rw [hc0, g.maxS]; omega
    simp only [hnf, if_false, Bool.not_true, Bool.false_eq_true]
    obtain ⟨k1, k2⟩ := fresh c chs g
    simp only [k1, if_true]
    exact ⟨trivial, chs, (d, []), k2, Or.inr ⟨by simp, rfl, by intro q hq; cases hq⟩⟩
  | some p =>
    obtain ⟨hh, hc, hle⟩ := g.pend
    by_cases hfull : c.count ≥ c.maxSamples
    · simp only [hfull, if_true]
      obtain ⟨f1, f2⟩ := sg_flush n c chs p g
      simp only [f1, Bool.not_true, Bool.false_eq_true, if_false]
      obtain ⟨k1, k2⟩ := fresh (c.flush).1 (chs ++ [p]) f2
      simp only [k1, if_true]
      exact ⟨trivial, chs ++ [p], (d, []), k2, Or.inr ⟨by simp, rfl, by
        intro q hq; cases hq
        have := g.maxS; omega⟩⟩
    · simp only [hfull, if_false, Bool.not_true, Bool.false_eq_true]
      have hroom : p.2.length + 1 + 1 ≤ n := by rw [g.maxS] at hfull; omega
      obtain ⟨a1, a2⟩ := holds_step n p.1 p.2 c.inner d hh (by omega) (hsim p rfl)
      simp only [a1, if_true]
      exact ⟨trivial, chs, (p.1, p.2 ++ [d]), ⟨g.script, g.maxS, g.logged, ⟨a2, by simp [hc], by simp; omega⟩, g.small⟩,
        Or.inl ⟨rfl, p, rfl, rfl⟩⟩

theorem sg_add (n : Nat) (hn : 1 ≤ n) (c : Streaming) (chs : List (BDoc × List BDoc)) (cur : Option (BDoc × List BDoc))
    (d : BDoc) (g : SG n c chs cur) (hsim : ∀ p, cur = some p → SimDoc p.1 d) :
    (c.add d).2 = .ok ∧ ∃ chs' cur', SG n (c.add d).1 chs' cur' ∧ allDocs chs' cur' = allDocs chs cur ++ [d] := by
  obtain ⟨hok, chs', p', g', hcase⟩ := sg_add' n hn c chs cur d g hsim
  refine ⟨hok, chs', some p', g', ?_⟩
  rcases hcase with ⟨rfl, p, rfl, rfl⟩ | ⟨rfl, rfl, _⟩
  · simp [allDocs, chunkDocs]
  · cases cur <;> simp [allDocs, chunkDocs]

theorem sg_info (n : Nat) (c : Streaming) (chs : List (BDoc × List BDoc)) (p : BDoc × List BDoc)
    (g : SG n c chs (some p)) : c.info.2 = p.2.length + 1 := by
  obtain ⟨⟨h1, _, h3, _⟩, _, _⟩ := g.pend
  simp [Streaming.info, Better.info, h1, h3]; omega

/-- **every history**: documents of one schema, one after the other, into a fresh streaming
collector — every `Add` is accepted, and the written chunks followed by the pending one are
consecutive runs of exactly those documents -/
theorem sg_run (n : Nat) (hn : 1 ≤ n) (d0 : BDoc) (ds : List BDoc) (hsim : ∀ d ∈ ds, SimDoc d0 d) :
    ∃ chs cur, SG n ((d0 :: ds).foldl (fun (c : Streaming) d => (c.add d).1) (Streaming.new n)) chs cur ∧
      allDocs chs cur = d0 :: ds := by
  have : ∀ (ds : List BDoc) (c : Streaming) (chs : List (BDoc × List BDoc)) (cur : Option (BDoc × List BDoc))
      (pre : List BDoc), SG n c chs cur → allDocs chs cur = pre → (∀ x ∈ pre, SimDoc d0 x) →
      (∀ d ∈ ds, SimDoc d0 d) →
      ∃ chs' cur', SG n (ds.foldl (fun (c : Streaming) d => (c.add d).1) c) chs' cur' ∧
        allDocs chs' cur' = pre ++ ds := by
    intro ds
    induction ds with
    | nil => intro c chs cur pre g h _ _; exact ⟨chs, cur, g, by simpa using h⟩
    | cons d ds ih =>
      intro c chs cur pre g h hpre hds
      have hd := hds d (List.mem_cons_self ..)
      have hs : ∀ p, cur = some p → SimDoc p.1 d := by
        intro p hp
        have hmem : p.1 ∈ pre := by
          rw [← h, hp]; simp [allDocs, chunkDocs]
        exact simDoc_trans _ _ _ (simDoc_symm _ _ (hpre p.1 hmem)) hd
      obtain ⟨_, chs', cur', g', h'⟩ := sg_add n hn c chs cur d g hs
      simp only [List.foldl_cons]
      obtain ⟨chs'', cur'', g'', h''⟩ := ih (c.add d).1 chs' cur' (pre ++ [d]) g' (by rw [h', h])
        (by intro x hx; rcases List.mem_append.1 hx with hx | hx; exact hpre x hx; simp at hx; rw [hx]; exact hd)
        (fun x hx => hds x (List.mem_cons_of_mem _ hx))
      exact ⟨chs'', cur'', g'', by rw [h'']; simp⟩
  obtain ⟨chs, cur, g, h⟩ := this (d0 :: ds) (Streaming.new n) [] none [] (sg_new n) (by simp [allDocs])
    (by simp) (by intro d hd; rcases List.mem_cons.1 hd with rfl | hd; exact simDoc_refl _; exact hsim d hd)
  exact ⟨chs, cur, g, by simpa using h⟩

end Ftdc
