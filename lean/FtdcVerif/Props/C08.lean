import FtdcVerif.Lemmas.Collector
/-!
# C08 — schema changes split chunks exactly and never corrupt, reject or drop samples

The schema-aware collectors decide "same schema" by comparing `metricKeyHash` values.  The whole
design rests on that comparison being exact: `schema_key_injective` proves (FNV aside, which is
an external function) that equal hash input means equal lists of full metric keys, for every
pair of documents with C-string keys.  `unseparated_keys_collide` is the witness that the
unrepaired byte stream (no separator, finding F10) did not have this property.  The one-step
theorems state what the collectors do with that decision; whole histories over pools of schemas
are compared with the implementation by the `schema` stream.
-/
namespace Ftdc.Props.C08
open Ftdc

/-- what is fed to the checksum is the NUL-terminated list of full metric keys -/
theorem hash_input_spec (d : BDoc) : (schemaKey d).1 = terminated (hashPathsElems [] d) :=
  hashElems_spec d []

/-- **the schema key is exact**: two documents whose hash input is equal have the same list of
full metric keys (same names, same nesting, same order) -/
theorem schema_key_injective (d1 d2 : BDoc) (h1 : NulFree d1) (h2 : NulFree d2)
    (h : (schemaKey d1).1 = (schemaKey d2).1) : hashPathsElems [] d1 = hashPathsElems [] d2 := by
  rw [hash_input_spec, hash_input_spec] at h
  exact terminated_inj _ _ (hashPathsElems_nulfree d1 h1 [] (by simp))
    (hashPathsElems_nulfree d2 h2 [] (by simp)) h

/-- the unrepaired hash input: keys written back to back -/
def unseparated (l : List Bytes) : Bytes := l.flatten

/-- finding F10: without separators `{a:{b:1},c:2}` and `{a:10,b:{c:20}}` have the same hash
input (and the same metric count) although their key lists differ -/
theorem unseparated_keys_collide :
    let d1 : BDoc := .cons [97] (.doc (.cons [98] (.int64 1#64) .nil)) (.cons [99] (.int64 2#64) .nil)
    let d2 : BDoc := .cons [97] (.int64 10#64) (.cons [98] (.doc (.cons [99] (.int64 20#64) .nil)) .nil)
    unseparated (hashPathsElems [] d1) = unseparated (hashPathsElems [] d2) ∧
    hashPathsElems [] d1 ≠ hashPathsElems [] d2 ∧ (schemaKey d1).2 = (schemaKey d2).2 ∧
    (schemaKey d1).1 ≠ (schemaKey d2).1 := by
  decide

/-- dynamic collector: a document with the current schema goes to the current chunk group -/
theorem dynamic_same_schema_continues (c : Dynamic) (d : BDoc) (h : Bytes × Nat) (last : Batch)
    (init : List Batch) (hh : c.hash = some h) (hk : h.1 = (schemaKey d).1)
    (hc : c.chunks = init ++ [last]) :
    (c.add d).1.chunks = init ++ [(last.add d).1] ∧ (c.add d).2 = (last.add d).2 := by
  simp [Dynamic.add, hh, hk, hc]

/-- dynamic collector: a document with a different schema starts a new chunk, is accepted, and
the new schema becomes the current one (fix F8) -/
theorem dynamic_schema_change_splits (c : Dynamic) (d : BDoc) (h : Bytes × Nat)
    (hh : c.hash = some h) (hk : h.1 ≠ (schemaKey d).1) (hn : 1 ≤ c.maxSamples) :
    (c.add d).1.chunks = c.chunks ++ [((Batch.new c.maxSamples).add d).1] ∧
    (c.add d).2 = .ok ∧ (c.add d).1.hash = some (schemaKey d) := by
  have hfresh : ((Batch.new c.maxSamples).add d).2 = .ok := by
    have h0 : (Better.info { maxDeltas := c.maxSamples }).2 = 0 := by simp [Better.info]
    simp only [Batch.add, Batch.new, List.getLast?_singleton, h0]
    have : ¬ (0 ≥ c.maxSamples) := by omega
    simp [this, Better.add]
  simp [Dynamic.add, hh, hk, hfresh]

/-- collectors that are not schema-aware never store a document whose metric count or value
types differ from the chunk's: they refuse it and stay unchanged -/
theorem fixed_schema_refuses (c : Better) (d : BDoc) (r : BDoc) (hr : c.ref = some r)
    (hdiff : (extractDoc d).length ≠ c.last.length ∨ (extractDoc d).map (·.2) ≠ c.last.map (·.2)) :
    (c.add d).2 ≠ .ok ∧ (c.add d).1 = c := by
  have hne : (c.add d).2 ≠ .ok := by
    unfold Better.add
    simp only [hr]
    by_cases h1 : c.rows.length ≥ c.maxDeltas
    · simp [h1]
    · simp only [h1, ite_false]
      rcases hdiff with h2 | h3
      · simp [h2]
      · by_cases h2 : (extractDoc d).length ≠ c.last.length
        · simp [h2]
        · simp [h2, h3]
  exact ⟨hne, Better.add_rejected_noop c d hne⟩

/-- every sample stored in a chunk has the chunk's metric count (so a decoded chunk never mixes
schemas of different size) -/
theorem stored_rows_have_chunk_width (c : Better) (h : c.Inv) (r : BDoc) (hr : c.ref = some r) :
    ∀ row ∈ c.samples, row.length = c.last.length := by
  intro row hrow
  have hs := h.2.2 (by simp [hr])
  simp only [Better.samples, hr, Option.isSome_some, ite_true, List.mem_cons] at hrow
  rcases hrow with rfl | hrow
  · exact hs.1
  · exact hs.2 row hrow

/-! non-vacuity -/
example : NulFree (.cons [97] (.doc (.cons [98] (.int64 1#64) .nil)) (.cons [99] (.int64 2#64) .nil)) := by
  simp [NulFree, NulFreeVal]

end Ftdc.Props.C08
